// C08 — UTF-8/16/32 conversions, count/chars/iteration, case mapping and case-insensitive comparison of asl::String:
// complete enumeration of all Unicode scalar values, boundary sequences, all byte strings of length <= 3, all strings
// of length <= 5 (6) over a boundary-byte alphabet and structured longer strings, every input stored flush against the
// end of its allocation and every output buffer sized exactly to the function's contract (ASan = memory oracle).
// Reference side: plain C++ encoder / strict decoder (std:: only), cross-checked against python3 codecs on every scalar.
// Every limit argument n of the raw conversions is made binding (1 <= n < length) and once larger than the text; the String's text is compared
// after the const dataw(); iteration runs through the Enumerator and through range-for; equalsNocase is probed above the case tables at the
// offsets of Unicode's case pairs and on python's case pairs; the locale bridge is called in the "C" and "C.UTF-8" locales (safety clause only).
#include <asl/String.h>
#include <asl/Array.h>
#include <ctype.h>
#include <wchar.h>
#include <locale.h>
#include <limits.h>
#include <signal.h>
#include <sys/time.h>
#include "vf.h"
#include "aslx.h"
using namespace asl;
using vf::fmt;

// asl built with -DASL_VERIF calls schedule-point hooks (verif_hooks.h) that the scheduler engine supplies; this sequential
// harness has no scheduler: weak no-ops (a strong definition elsewhere in the link wins).
extern "C" __attribute__((weak)) void asl_verif_point(int, const void*) {}
extern "C" __attribute__((weak)) void asl_verif_spin(const volatile void*) {}

typedef std::vector<int> Cps;
typedef std::vector<unsigned> Units;

// ---------------------------------------------------------------- reference (independent of asl)
static std::string enc8(int c) {
	std::string s;
	if (c < 0x80) s += (char)c;
	else if (c < 0x800) { s += (char)(0xC0 | (c >> 6)); s += (char)(0x80 | (c & 0x3F)); }
	else if (c < 0x10000) { s += (char)(0xE0 | (c >> 12)); s += (char)(0x80 | ((c >> 6) & 0x3F)); s += (char)(0x80 | (c & 0x3F)); }
	else { s += (char)(0xF0 | (c >> 18)); s += (char)(0x80 | ((c >> 12) & 0x3F)); s += (char)(0x80 | ((c >> 6) & 0x3F)); s += (char)(0x80 | (c & 0x3F)); }
	return s;
}
static void enc16(int c, Units& o) {
	if (c < 0x10000) o.push_back((unsigned)c);
	else { unsigned d = (unsigned)c - 0x10000; o.push_back(0xD800 + (d >> 10)); o.push_back(0xDC00 + (d & 0x3FF)); }
}
// strict UTF-8 decoder (Unicode table 3-7): false on truncated, overlong, surrogate, > 10FFFF, stray continuation
static bool dec8(const std::string& b, Cps& out) {
	out.clear();
	size_t i = 0, n = b.size();
	while (i < n) {
		unsigned c = (unsigned char)b[i];
		if (c < 0x80) { out.push_back((int)c); i++; continue; }
		int len; unsigned lo = 0x80, hi = 0xBF, v;
		if (c >= 0xC2 && c <= 0xDF) { len = 2; v = c & 0x1F; }
		else if (c >= 0xE0 && c <= 0xEF) { len = 3; v = c & 0x0F; if (c == 0xE0) lo = 0xA0; if (c == 0xED) hi = 0x9F; }
		else if (c >= 0xF0 && c <= 0xF4) { len = 4; v = c & 0x07; if (c == 0xF0) lo = 0x90; if (c == 0xF4) hi = 0x8F; }
		else return false;
		if (i + len > n) return false;
		for (int k = 1; k < len; k++) {
			unsigned d = (unsigned char)b[i + k];
			if (d < (k == 1 ? lo : 0x80u) || d > (k == 1 ? hi : 0xBFu)) return false;
			v = (v << 6) | (d & 0x3F);
		}
		out.push_back((int)v); i += len;
	}
	return true;
}
static bool is_scalar(long long c) { return c >= 0 && c <= 0x10FFFF && !(c >= 0xD800 && c <= 0xDFFF); }

// ---------------------------------------------------------------- plumbing
static int C_EVAL, C_DISTINCT, C_OPS, C_SUPPRESSED, C_PRUNED_COUNT;
static int W_LEN[5], W_VALID, W_ILL, W_TR2, W_TR3, W_TR4, W_OVERLONG, W_SURR8, W_BADLEAD, W_STRAYCONT, W_NUL, W_INLINE, W_HEAPEXACT, W_HEAPSLACK,
	W_CASE_TABLE, W_CASE_IDENT, W_CASE_SHRINK, W_CASE_CHANGED, W_ASCII_CASE, W_NC_TRUE, W_NC_FALSE, W_NC_TRUE_DISTINCT, W_PAIR16, W_DATAW_REALLOC, W_DATAW_MALLOC, W_DATAW_INLINE,
	W_COUNT_PRED, W_LIMIT_CUT, W_SELFTEST, W_W16_ILL, W_I32_NONSCALAR,
	W_LIMIT16_CUT, W_LIMIT16_CUT_UNITS, W_LIMIT32_CUT, W_N_BEYOND, W_DATAW_INTACT, W_DATAW_INTACT4, W_RANGEFOR, W_RANGEFOR_EMPTY,
	W_LOC_CALLS[2], W_LOC_NONASCII[2], W_LOC_NONEMPTY[2], W_LOC_ASCII_IDENT, W_LOC_ASCII_OTHER, W_NC_ABOVE, W_NC_ABOVE_EQ, W_NC_PY, W_NC_PY_EQ, W_MID;

static const char* SIG_COUNT = "count_overread_2byte_lead_at_end";

static std::map<std::string, int> sigcount;      // per worker process
static std::set<std::string> disabled_ops;       // ops switched off in this worker after an ASan flood
static std::string curcase;

static void begin_case(const std::string& k) { curcase = k; vf::cur(k); vf::cur_sig("crash_or_hang"); vf::asan_clear(); }

static void bad(const std::string& sig, const std::string& desc) {
	if (vf::known(sig)) { vf::known_hit(sig, desc + "; case " + curcase); return; }
	int& n = sigcount[sig];
	if (++n > 2) { vf::add(C_SUPPRESSED); return; }
	vf::violation(sig, desc, curcase);
}
static std::string show(const std::string& b) { return b.size() <= 40 ? "<" + vf::hex(b) + ">" : "<" + vf::hex(b.substr(0, 8)) + ".." + fmt("%d bytes", (int)b.size()) + ".." + vf::hex(b.substr(b.size() - 8)) + ">"; }

// returns true (and reports) when ASan fired since the last check; op = asl function just called
static bool trip(const char* op, const std::string& input) {
	vf::add(C_OPS);
	if (!vf::asan_tripped()) return false;
	std::string sig = std::string(op) + "_oob";
	bad(sig, "ASan " + vf::asan_what() + " in " + op + " on " + show(input));
	vf::asan_clear();
	int& n = sigcount["#" + sig];
	if (++n == 1000) { disabled_ops.insert(op); vf::cap_hit(std::string(op) + ": switched off in one worker after 1000 ASan errors"); }
	return true;
}
static inline bool on(const char* op) { return disabled_ops.empty() || !disabled_ops.count(op); }

template <class T> struct Out { // output buffer of exactly n elements, flush against the end of its heap block
	T* p; size_t n;
	explicit Out(size_t n_) : n(n_ ? n_ : 1) { p = (T*)malloc(n * sizeof(T)); memset(p, 0x5a, n * sizeof(T)); }
	~Out() { free(p); }
private: Out(const Out&); void operator=(const Out&);
};
template <class T> struct In { // input array of exactly n elements, flush against the end of its heap block
	T* p;
	In(const T* src, size_t n) { p = (T*)malloc((n ? n : 1) * sizeof(T)); memcpy(p, src, n * sizeof(T)); }
	~In() { free(p); }
private: In(const In&); void operator=(const In&);
};

// String -> bytes, refusing a length that lies outside the String's own buffer (a broken result must not crash the harness)
static std::string SS(const String& s) { if (s.length() < 0 || s.length() >= s.cap()) return fmt("<<length %d outside a buffer of %d>>", s.length(), s.cap()); return vfx::S(s); }
static std::string cps_str(const Cps& c) { std::string s; for (size_t i = 0; i < c.size() && i < 12; i++) s += fmt(i ? " %X" : "%X", c[i]); if (c.size() > 12) s += " .."; return "[" + s + "]"; }
static std::string arr_str(const int* p, int n) { std::string s; for (int i = 0; i < n && i < 12; i++) s += fmt(i ? " %X" : "%X", p[i]); if (n > 12) s += " .."; return "[" + s + "]"; }

// would String::count()'s walk (as the property intends it: never past the terminator) meet a 2-byte lead directly in front
// of the terminating NUL?  buf[0..n) are the bytes, buf[n] is the terminator.  Model of the *positions visited*, used only to
// give the expected count() defect its own signature.
static bool count_walk_hits_lead_before_end(const std::string& b) {
	size_t n = b.size(), i = 0;
	while (i < n) {
		unsigned c = (unsigned char)b[i++];
		if (c == 0) return false;
		if ((c & 0x80) == 0) continue;
		if ((c & 0xe0) == 0xc0) { if (i == n) return true; i++; continue; }
		int more = (c & 0xf0) == 0xe0 ? 2 : (c & 0xf8) == 0xf0 ? 3 : 0;
		for (int k = 0; k < more; k++) { if (i >= n) return false; if (b[i++] == 0) return false; }
	}
	return false;
}

struct Feat { bool nul, ascii; };
static Feat witnesses(const std::string& b, bool valid, const Cps& cps) {
	Feat f; f.nul = false; f.ascii = true;
	size_t n = b.size();
	for (size_t i = 0; i < n; i++) { unsigned c = (unsigned char)b[i]; if (c == 0) f.nul = true; if (c == 0 || c > 127) f.ascii = false; }
	if (f.nul) vf::add(W_NUL);
	if (valid) {
		vf::add(W_VALID);
		if (cps.size() == 1) vf::add(W_LEN[n]);
		return f;
	}
	if (f.nul) return f;
	vf::add(W_ILL);
	// classify the first defect (witness only)
	size_t i = 0;
	while (i < n) {
		unsigned c = (unsigned char)b[i];
		if (c < 0x80) { i++; continue; }
		if (c < 0xC0) { vf::add(W_STRAYCONT); break; }
		if (c >= 0xF8) { vf::add(W_BADLEAD); break; }
		int len = c < 0xE0 ? 2 : c < 0xF0 ? 3 : 4;
		if (i + len > n) { vf::add(len == 2 ? W_TR2 : len == 3 ? W_TR3 : W_TR4); break; }
		bool cont = true; unsigned v = c & (len == 2 ? 0x1F : len == 3 ? 0x0F : 0x07);
		for (int k = 1; k < len; k++) { unsigned d = (unsigned char)b[i + k]; if ((d & 0xC0) != 0x80) cont = false; v = (v << 6) | (d & 0x3F); }
		if (!cont) { vf::add(W_STRAYCONT); break; }
		if ((len == 2 && v < 0x80) || (len == 3 && v < 0x800) || (len == 4 && v < 0x10000)) { vf::add(W_OVERLONG); break; }
		if (v >= 0xD800 && v <= 0xDFFF) { vf::add(W_SURR8); break; }
		if (v > 0x10FFFF) { vf::add(W_BADLEAD); break; }
		i += len;
	}
	return f;
}

// ---------------------------------------------------------------- the raw conversion functions on a NUL-free byte string
static bool g_skip_nbeyond3 = false; // quick tier, family (c): the n-beyond-the-terminator calls are made for lengths <= 2 only (length 3..6 comes from the alphabet families)
static void check_raw(const std::string& e, bool valid, const Cps& cps) {
	const size_t L = e.size();
	vfx::FlushBuf in(e);                       // malloc(L+1): a read past the NUL is a heap-buffer-overflow
	Units ref16;
	if (valid) for (size_t i = 0; i < cps.size(); i++) enc16(cps[i], ref16);

	// ---- UTF-8 -> UTF-32: contract (String::chars): at most n code points + terminator
	if (on("utf8toUtf32")) {
		Out<int> o(L + 1);
		int r = utf8toUtf32(in.p, o.p, (int)L);
		bool t = trip("utf8toUtf32", e);
		if (!t && (r < 0 || (size_t)r > L || o.p[r] != 0)) bad("utf8toUtf32_result", fmt("utf8toUtf32(%s, n=%d) returned %d: not a terminated result inside its %d-element buffer", show(e).c_str(), (int)L, r, (int)L + 1));
		else if (!t && valid && (r != (int)cps.size() || memcmp(o.p, cps.data(), r * sizeof(int)) != 0))
			bad("utf8toUtf32_value", "utf8toUtf32(" + show(e) + ") = " + arr_str(o.p, r) + ", expected " + cps_str(cps));
		else if (!t && on("utf32toUtf8")) { // and back (any ints the decoder produced)
			In<int> i32(o.p, (size_t)r + 1);
			int m = 0; while (i32.p[m]) m++;
			Out<char> b8(4 * (size_t)m + 1);
			int r2 = utf32toUtf8(i32.p, b8.p, m);
			bool t2 = trip("utf32toUtf8", e);
			if (!t2 && (r2 < 0 || r2 > 4 * m || b8.p[r2] != 0)) bad("utf32toUtf8_result", fmt("utf32toUtf8(%s, n=%d) returned %d: not a terminated result inside 4n+1 bytes", arr_str(i32.p, m).c_str(), m, r2));
			else if (!t2 && valid && std::string(b8.p, r2) != e) bad("utf32_roundtrip", "UTF-8 -> UTF-32 -> UTF-8 of " + show(e) + " gave " + show(std::string(b8.p, r2)));
		}
		if (!t && L >= 1 && L <= 8 && !(g_skip_nbeyond3 && L == 3) && r >= 0 && (size_t)r <= L) { // n beyond the text (the unit test's shape): the terminator, not n, must end the conversion: same result.  The output buffer
			Out<int> ob(L + 8);                   // has the n+1 elements every caller in asl (and the unit test) provides for a limit n: what lies behind the terminator inside them is the function's business; the INPUT block still ends at the NUL
			int rb = utf8toUtf32(in.p, ob.p, (int)L + 7);
			vf::add(W_N_BEYOND);
			if (!trip("utf8toUtf32", e) && (rb != r || memcmp(ob.p, o.p, ((size_t)r + 1) * sizeof(int)) != 0))
				bad("utf8toUtf32_result", fmt("utf8toUtf32(%s, n=%d) returned %d, but %d with n=%d: a limit beyond the terminator changed the result", show(e).c_str(), (int)L + 7, rb, r, (int)L));
		}
		if (L >= 2 && L <= 8) // limited n: at most k code points may be written (+ terminator)
			for (size_t k = 1; k < L; k++) {
				Out<int> ok(k + 1);
				int rk = utf8toUtf32(in.p, ok.p, (int)k);
				bool tk = trip("utf8toUtf32", e);
				if (tk) break;
				if (rk < 0 || (size_t)rk > k || ok.p[rk] != 0) { bad("utf8toUtf32_result", fmt("utf8toUtf32(%s, n=%d) returned %d: not a terminated result inside its %d-element buffer", show(e).c_str(), (int)k, rk, (int)k + 1)); break; }
				if (valid && k < cps.size()) vf::add(W_LIMIT_CUT);
				if (valid && (rk > (int)cps.size() || memcmp(ok.p, cps.data(), rk * sizeof(int)) != 0)) { bad("utf8toUtf32_value", fmt("utf8toUtf32(%s, n=%d) = %s: not a prefix of %s", show(e).c_str(), (int)k, arr_str(ok.p, rk).c_str(), cps_str(cps).c_str())); break; }
			}
	}
	// ---- UTF-8 -> UTF-16: contract (String::dataw, utf8ToLocal): strlen+1 units for n = strlen; n limits the characters
	if (on("utf8toUtf16")) {
		Out<wchar_t> w(L + 1);
		int r = utf8toUtf16(in.p, w.p, (int)L);
		bool t = trip("utf8toUtf16", e);
		if (!t && (r < 0 || (size_t)r > L || w.p[r] != 0)) bad("utf8toUtf16_result", fmt("utf8toUtf16(%s, n=%d) returned %d: not a terminated result inside its %d-unit buffer", show(e).c_str(), (int)L, r, (int)L + 1));
		else if (!t && valid) {
			bool same = r == (int)ref16.size();
			for (int i = 0; same && i < r; i++) same = (unsigned)w.p[i] == ref16[i];
			if (!same) { std::string got; for (int i = 0; i < r && i < 12; i++) got += fmt(" %X", (unsigned)w.p[i]); bad("utf8toUtf16_value", "utf8toUtf16(" + show(e) + ") =" + got + ": not the standard UTF-16 encoding of " + cps_str(cps)); }
			if (ref16.size() > cps.size()) vf::add(W_PAIR16);
		}
		if (!t && r >= 0 && (size_t)r <= L && w.p[r] == 0 && on("utf16toUtf8")) { // and back: contract (String(const wchar_t*)): 4 bytes per unit + terminator
			In<wchar_t> wi(w.p, (size_t)r + 1);
			int m = 0; while (wi.p[m]) m++;
			Out<char> b8(4 * (size_t)m + 1);
			int r2 = utf16toUtf8(wi.p, b8.p, m);
			bool t2 = trip("utf16toUtf8", e);
			if (!t2 && (r2 < 0 || r2 > 4 * m || b8.p[r2] != 0)) bad("utf16toUtf8_result", fmt("utf16toUtf8 of the %d units made from %s returned %d: not a terminated result inside 4n+1 bytes", m, show(e).c_str(), r2));
			else if (!t2 && valid && std::string(b8.p, r2) != e) bad("utf16_roundtrip", "UTF-8 -> UTF-16 -> UTF-8 of " + show(e) + " gave " + show(std::string(b8.p, r2)));
			if (!t2 && m >= 2 && m <= 8) // limited n (Xdl's unicode escapes, fixW): at most k characters of <= 4 bytes each may be written (+ terminator)
				for (int k = 1; k < m; k++) {
					Out<char> bk(4 * (size_t)k + 1);
					int rk = utf16toUtf8(wi.p, bk.p, k);
					if (trip("utf16toUtf8", e)) break;
					if (rk < 0 || rk > 4 * k || bk.p[rk] != 0) { bad("utf16toUtf8_result", fmt("utf16toUtf8 of the %d units made from %s with n=%d returned %d: not a terminated result inside 4n+1 = %d bytes", m, show(e).c_str(), k, rk, 4 * k + 1)); break; }
					if (valid && (size_t)k < cps.size()) vf::add(W_LIMIT16_CUT);
					if (valid && ((size_t)rk > L || memcmp(bk.p, e.data(), rk) != 0)) { bad("utf16toUtf8_value", fmt("utf16toUtf8 of the %d units made from %s with n=%d gave ", m, show(e).c_str(), k) + show(std::string(bk.p, rk)) + ": not a prefix of the text"); break; }
				}
		}
		if (!t && L >= 1 && L <= 8 && !(g_skip_nbeyond3 && L == 3) && r >= 0 && (size_t)r <= L) { // n beyond the text: same result, in a buffer of the n+1 units a caller owes for the limit n
			Out<wchar_t> wb(L + 8);
			int rb = utf8toUtf16(in.p, wb.p, (int)L + 7);
			if (!trip("utf8toUtf16", e) && (rb != r || memcmp(wb.p, w.p, ((size_t)r + 1) * sizeof(wchar_t)) != 0))
				bad("utf8toUtf16_result", fmt("utf8toUtf16(%s, n=%d) returned %d, but %d with n=%d: a limit beyond the terminator changed the result", show(e).c_str(), (int)L + 7, rb, r, (int)L));
		}
		if (L >= 2 && L <= 8)
			for (size_t k = 1; k < L; k++) {
				size_t room = std::min(L, 2 * k) + 1; // k characters, at most 2 units each, never more units than bytes
				Out<wchar_t> wk(room);
				int rk = utf8toUtf16(in.p, wk.p, (int)k);
				bool tk = trip("utf8toUtf16", e);
				if (tk) break;
				if (rk < 0 || (size_t)rk >= room || wk.p[rk] != 0) { bad("utf8toUtf16_result", fmt("utf8toUtf16(%s, n=%d) returned %d: not a terminated result inside %d units", show(e).c_str(), (int)k, rk, (int)room)); break; }
				if (valid) { bool pre = (size_t)rk <= ref16.size(); for (int i = 0; pre && i < rk; i++) pre = (unsigned)wk.p[i] == ref16[i]; if (!pre) { bad("utf8toUtf16_value", fmt("utf8toUtf16(%s, n=%d): result is not a prefix of the standard encoding", show(e).c_str(), (int)k)); break; } }
			}
	}
	// ---- UTF-32 -> UTF-8 from the reference code points: contract (fromCodes/fromCode): 4 bytes per code point + terminator
	if (valid && on("utf32toUtf8")) {
		size_t n = cps.size();
		Cps z = cps; z.push_back(0);
		In<int> i32(z.data(), n + 1);
		Out<char> b8(4 * n + 1);
		int r = utf32toUtf8(i32.p, b8.p, (int)n);
		bool t = trip("utf32toUtf8", e);
		if (!t && (r != (int)L || b8.p[L] != 0 || memcmp(b8.p, e.data(), L) != 0)) bad("utf32toUtf8_value", "utf32toUtf8(" + cps_str(cps) + ") = " + show(std::string(b8.p, r > 0 && r <= (int)(4 * n) ? r : 0)) + fmt(" (returned %d), standard encoding is ", r) + show(e));
		if (!t && n >= 3 && n <= 8) // limited 1 < k < n: at most k code points of <= 4 bytes each may be written (+ terminator)
			for (size_t k = 2; k < n; k++) {
				Out<char> bk(4 * k + 1);
				int rk = utf32toUtf8(i32.p, bk.p, (int)k);
				if (trip("utf32toUtf8", e)) break;
				vf::add(W_LIMIT32_CUT);
				if (rk < 0 || (size_t)rk > 4 * k || bk.p[rk] != 0) { bad("utf32toUtf8_result", fmt("utf32toUtf8(%s, n=%d) returned %d: not a terminated result inside 4n+1 = %d bytes", cps_str(cps).c_str(), (int)k, rk, (int)(4 * k + 1))); break; }
				if ((size_t)rk > L || memcmp(bk.p, e.data(), rk) != 0) { bad("utf32toUtf8_value", fmt("utf32toUtf8(%s, n=%d) = ", cps_str(cps).c_str(), (int)k) + show(std::string(bk.p, rk)) + ": not a prefix of the standard encoding " + show(e)); break; }
			}
		if (!t && n >= 2 && n <= 8) { // limited n = 1: only the first code point, inside 4*1+1 bytes
			Out<char> b1(5);
			int r1 = utf32toUtf8(i32.p, b1.p, 1);
			std::string first = enc8(cps[0]);
			if (!trip("utf32toUtf8", e) && (r1 != (int)first.size() || b1.p[r1] != 0 || memcmp(b1.p, first.data(), first.size()) != 0)) bad("utf32toUtf8_value", "utf32toUtf8(" + cps_str(cps) + ", n=1) did not give the encoding of the first code point only");
		}
	}
}

// ---------------------------------------------------------------- String methods on an arbitrary byte string (may contain NULs: String(ptr, n))
static int count_confirmed = 0;
static bool confirm_mode = false; // sacrificial run that confirms a known finding still fails
static bool g_rangefor = true;    // quick tier: range-for only on the offset-0 instance of a byte string (the left-padded replays share operator* with the Enumerator loop above)

static void check_string(const std::string& full, bool valid, const Cps& cps, const Feat& ft) {
	const size_t L = full.size();
	String s = vfx::A(full);
	if (s._size == 0) vf::add(W_INLINE); else if ((size_t)s._size == L + 1) vf::add(W_HEAPEXACT); else vf::add(W_HEAPSLACK);
	Units ref16;
	if (valid) for (size_t i = 0; i < cps.size(); i++) enc16(cps[i], ref16);
	std::string ups, los;
	{
		vfx::Flush fl(s); // everything after the NUL is poisoned while the String is only read
		// count()
		if (on("count")) {
			// the expected defect gets its own signature from a predicate over the INPUT (a 2-byte lead directly in front of the terminator is
			// reached by the walk); any other misbehaviour of count() keeps the generic signatures.  Once listed as known (or confirmed three
			// times in this worker) count() is not called on such inputs any more: ASan (recover mode) reports each faulting instruction
			// only once per process, so a known over-read must not be allowed to use up the report for a different one.
			bool pred = !valid && count_walk_hits_lead_before_end(full);
			if (pred) vf::add(W_COUNT_PRED);
			if (pred && !confirm_mode && (vf::known(SIG_COUNT) || count_confirmed >= 3)) vf::add(C_PRUNED_COUNT);
			else {
				int c = s.count();
				vf::add(C_OPS);
				bool tripped = vf::asan_tripped();
				std::string what = tripped ? "ASan " + vf::asan_what() : std::string();
				vf::asan_clear();
				if (pred) {
					if (tripped || c < 0 || (size_t)c > L) { count_confirmed++; bad(SIG_COUNT, (tripped ? what + " in" : fmt("result %d of", c)) + " String::count() on the " + fmt("%d", (int)L) + "-byte string " + show(full) + ": the byte after a 2-byte lead is skipped without testing for the terminator, the walk continues behind the NUL"); }
				}
				else if (tripped) bad("count_oob", what + " in String::count() on " + show(full));
				else if (valid && c != (int)cps.size()) bad("count_value", fmt("count() of %s = %d, the text has %d code points", show(full).c_str(), c, (int)cps.size()));
				else if (c < 0 || (size_t)c > L) bad("count_value", fmt("count() of the %d-byte string %s = %d", (int)L, show(full).c_str(), c));
			}
		}
		// chars()
		if (on("chars")) {
			Array<int> a = s.chars();
			if (!trip("chars", full)) {
				if ((size_t)a.length() > L) bad("chars_value", fmt("chars() of the %d-byte string %s has %d elements", (int)L, show(full).c_str(), a.length()));
				else if (valid && (a.length() != (int)cps.size() || memcmp(a.data(), cps.data(), cps.size() * sizeof(int)) != 0)) bad("chars_value", "chars() of " + show(full) + " = " + arr_str(a.data(), a.length()) + ", expected " + cps_str(cps));
			}
		}
		// code-point iteration (what for-each uses); every step advances by >= 1 byte, so more than L steps = runaway
		if (on("iteration")) {
			Cps it; size_t steps = 0; bool runaway = false;
			String::Enumerator en = s.all();
			for (; en; ++en) { it.push_back(*en); if (++steps > L) { runaway = true; break; } }
			if (!trip("iteration", full)) {
				if (runaway || en.u < *s || en.u > *s + L) bad("iteration_runaway", "code-point iteration over " + show(full) + fmt(" did not stop inside the string (%d steps)", (int)steps));
				else if (valid && it != cps) bad("iteration_value", "code-point iteration over " + show(full) + " gave " + cps_str(it) + ", expected " + cps_str(cps));
			}
		}
#ifdef ASL_HAVE_RANGEFOR
		// the same through range-for: begin(String) / end(String) / Enumerator::operator!=
		if (on("rangefor") && g_rangefor) {
			Cps it; size_t steps = 0; bool runaway = false;
			for (int cp : s) { it.push_back(cp); if (++steps > L) { runaway = true; break; } }
			if (!trip("rangefor", full)) {
				if (steps) vf::add(W_RANGEFOR); else vf::add(W_RANGEFOR_EMPTY);
				if (runaway) bad("iteration_runaway", "for (int c : s) over " + show(full) + fmt(" did not stop inside the string (%d steps)", (int)steps));
				else if (valid && it != cps) bad("rangefor_value", "for (int c : s) over " + show(full) + " gave " + cps_str(it) + ", expected " + cps_str(cps));
			}
		}
#endif
		// case mapping: never longer than the input; ASCII as in the C locale
		bool okcase = false;
		if (on("toUpperCase") && on("toLowerCase")) {
			String up = s.toUpperCase();
			bool t1 = trip("toUpperCase", full);
			String lo = s.toLowerCase();
			bool t2 = trip("toLowerCase", full);
			okcase = !t1 && !t2;
			if (okcase) {
				bool inbuf = up.length() >= 0 && up.length() < up.cap() && lo.length() >= 0 && lo.length() < lo.cap();
				if (inbuf) { ups = SS(up); los = SS(lo); }
				if (!inbuf || (size_t)up.length() > L) { bad("case_longer", fmt("toUpperCase() of the %d-byte string %s has %d bytes ", (int)L, show(full).c_str(), up.length()) + show(ups)); okcase = false; }
				if (!inbuf || (size_t)lo.length() > L) { bad("case_longer", fmt("toLowerCase() of the %d-byte string %s has %d bytes ", (int)L, show(full).c_str(), lo.length()) + show(los)); okcase = false; }
			}
			if (okcase) {
				if (ups.size() < L || los.size() < L) vf::add(W_CASE_SHRINK);
				if (ups != full || los != full) vf::add(W_CASE_CHANGED);
				if (valid) { bool tab = false, idn = false; for (size_t i = 0; i < cps.size(); i++) if (cps[i] < 1415) tab = true; else idn = true; if (tab) vf::add(W_CASE_TABLE); if (idn) vf::add(W_CASE_IDENT); }
				if (ft.ascii && L > 0) {
					std::string eu = full, el = full;
					for (size_t i = 0; i < L; i++) { eu[i] = (char)toupper((unsigned char)full[i]); el[i] = (char)tolower((unsigned char)full[i]); }
					vf::add(W_ASCII_CASE);
					if (ups != eu) bad("ascii_case", "toUpperCase() of ASCII " + show(full) + " = " + show(ups) + ", C locale gives " + show(eu));
					if (los != el) bad("ascii_case", "toLowerCase() of ASCII " + show(full) + " = " + show(los) + ", C locale gives " + show(el));
				}
				// case-insensitive comparison: in bounds for any bytes (both operands flush); on well-formed text it must
				// coincide with equality of the lower-cased forms
				if (on("equalsNocase")) {
					vfx::Flush f2(up), f3(lo);
					bool ss = s.equalsNocase(s);
					bool su = s.equalsNocase(up), us = up.equalsNocase(s);
					bool sl = s.equalsNocase(lo), ls = lo.equalsNocase(s);
					if (!trip("equalsNocase", full) && valid) {
						if (!ss) bad("nocase_mismatch", "equalsNocase(x, x) is false for x = " + show(full) + " although the lower-cased forms are trivially equal");
						Cps tmp;
						const std::string* other[2] = { &ups, &los };
						bool got[2][2] = { { su, us }, { sl, ls } };
						for (int k = 0; k < 2; k++) {
							if (other[k]->find('\0') != std::string::npos || !dec8(*other[k], tmp)) continue; // coincidence clause: well-formed text only
							String lo2 = (k == 0 ? up : lo).toLowerCase();
							if (trip("toLowerCase", *other[k])) continue;
							bool expect = SS(lo2) == los;
							if (expect) vf::add(W_NC_TRUE); else vf::add(W_NC_FALSE);
							if (got[k][0] != expect || got[k][1] != expect)
								bad("nocase_mismatch", "x = " + show(full) + ", y = " + show(*other[k]) + fmt(": x.equalsNocase(y) = %d, y.equalsNocase(x) = %d, but lower(x) = ", (int)got[k][0], (int)got[k][1]) + show(los) + " and lower(y) = " + show(SS(lo2)));
						}
					}
				}
			}
		}
	}
	// fromCodes / fromCode
	if (valid && on("fromCodes")) {
		Array<int> ac((int)cps.size());
		for (size_t i = 0; i < cps.size(); i++) ac[(int)i] = cps[i];
		String f = String::fromCodes(ac);
		if (!trip("fromCodes", full) && SS(f) != full) bad("fromCodes_value", "fromCodes(" + cps_str(cps) + ") = " + show(SS(f)) + ", standard encoding is " + show(full));
		if (cps.size() == 1) {
			String g = String::fromCode(cps[0]);
			if (!trip("fromCode", full) && SS(g) != full) bad("fromCodes_value", fmt("fromCode(%X) = ", cps[0]) + show(SS(g)) + ", standard encoding is " + show(full));
		}
	}
	// wide-character scratch area inside the String buffer: dataw(), wlength(), String(const wchar_t*), String(Array<wchar_t>), fixW()
	if (on("dataw")) {
		String c = s;
		if (c._size >= 1024) vf::add(W_DATAW_REALLOC); else if (c._size > 0) vf::add(W_DATAW_MALLOC); else vf::add(W_DATAW_INLINE);
		const wchar_t* w = c.dataw();
		if (trip("dataw", full)) return;
		// dataw() is const: the text itself (and its terminator) must still be there, in front of the scratch area
		bool lenok = c.length() == (int)L && c.length() < c.cap();
		if (!lenok || memcmp(*c, full.data(), L) != 0 || (*c)[L] != 0) { bad("dataw_clobbers_text", "after dataw() on " + show(full) + (lenok ? " the String reads " + show(std::string(*c, L + 1)) + " (text and terminator expected unchanged)" : fmt(" the String has length %d in a buffer of %d", c.length(), c.cap()))); return; }
		vf::add(W_DATAW_INTACT); if (L % 4 == 0) vf::add(W_DATAW_INTACT4);
		size_t wl = 0;
		while (wl <= L && w[wl]) wl++;
		if (trip("dataw", full)) return;
		if (wl > L) { bad("dataw_result", fmt("dataw() of the %d-byte string %s has no terminator within %d units", (int)L, show(full).c_str(), (int)L + 1)); return; }
		if (valid) {
			bool same = wl == ref16.size();
			for (size_t i = 0; same && i < wl; i++) same = (unsigned)w[i] == ref16[i];
			if (!same) bad("dataw_value", "dataw() of " + show(full) + " is not the standard UTF-16 encoding of " + cps_str(cps));
		}
		std::vector<wchar_t> units(w, w + wl + 1);
		if (on("wide_ctor")) {
			In<wchar_t> wi(units.data(), wl + 1);
			String r(wi.p);
			if (!trip("wide_ctor", full)) {
				if (r.length() < 0 || r.length() >= r.cap()) bad("wide_ctor_result", "String(const wchar_t*) made from the UTF-16 form of " + show(full) + fmt(" has length %d in a buffer of %d", r.length(), r.cap()));
				else if (valid && SS(r) != full) bad("utf16_roundtrip", "String(dataw()) of " + show(full) + " = " + show(SS(r)));
			}
			Array<wchar_t> aw((int)wl);
			for (size_t i = 0; i < wl; i++) aw[(int)i] = units[i];
			String r2(aw);
			if (!trip("wide_ctor", full)) {
				if (r2.length() < 0 || r2.length() >= r2.cap()) bad("wide_ctor_result", "String(Array<wchar_t>) made from the UTF-16 form of " + show(full) + fmt(" has length %d in a buffer of %d", r2.length(), r2.cap()));
				else if (valid && SS(r2) != full) bad("utf16_roundtrip", "String(Array<wchar_t>(dataw())) of " + show(full) + " = " + show(SS(r2)));
			}
		}
		if (on("wlength")) {
			int n16 = s.wlength();
			if (!trip("wlength", full) && valid && n16 != (int)ref16.size()) bad("dataw_value", fmt("wlength() of %s = %d, its UTF-16 form has %d units", show(full).c_str(), n16, (int)ref16.size()));
		}
		if (on("fixW")) {
			c.fixW(); // UTF-16 scratch area -> back to UTF-8 in place
			if (!trip("fixW", full)) {
				if (c.length() < 0 || c.length() >= c.cap()) bad("wide_ctor_result", "fixW() after dataw() on " + show(full) + fmt(" left length %d in a buffer of %d", c.length(), c.cap()));
				else if (valid && SS(c) != full) bad("utf16_roundtrip", "dataw() then fixW() on " + show(full) + " gave " + show(SS(c)));
			}
		}
	}
}

// ---------------------------------------------------------------- the locale bridge: utf8ToLocal / localToUtf8 / String::fromLocal / toLocal
// Each runs a UTF-8 <-> UTF-16 conversion and the platform's wcstombs / mbstowcs through buffers it sizes itself.  Demanded (safety clause only):
// termination, no access outside any buffer (ASan), and a result String that lies inside its own buffer and is terminated at its length.  The values
// are the platform codec's business and are only counted.  loc: 0 = "C" locale (non-ASCII bytes are unconvertible: the codec's error path),
// 1 = "C.UTF-8" (multibyte results; glibc's wchar_t carries UCS-4 there, again only safety is demanded).
static String f_utf8ToLocal(const String& a) { return utf8ToLocal(a); }
static String f_localToUtf8(const String& a) { return localToUtf8(a); }
static String f_fromLocal(const String& a) { return String::fromLocal(a); }
static String f_toLocal(const String& a) { String c = a; return c.toLocal(); } // toLocal() goes through dataw(), which moves the (const) String's buffer: use a private copy
static const char* LOCNAME[2] = { "C", "C.UTF-8" };
static bool set_loc(int loc) { return setlocale(LC_CTYPE, LOCNAME[loc]) != 0; }
static void check_locale_bridge(const std::string& full, int loc) {
	begin_case((loc ? "l8:" : "lc:") + vf::hex(full));
	vf::add(C_EVAL);
	bool ascii = true; for (size_t i = 0; i < full.size(); i++) if ((unsigned char)full[i] == 0 || (unsigned char)full[i] > 127) ascii = false;
	typedef String (*Fn)(const String&);
	static const struct { const char* op; Fn f; bool flush; } LOC[4] = { { "utf8ToLocal", &f_utf8ToLocal, true }, { "localToUtf8", &f_localToUtf8, true }, { "fromLocal", &f_fromLocal, true }, { "toLocal", &f_toLocal, false } };
	String s = vfx::A(full);
	for (int i = 0; i < 4; i++) {
		if (!on(LOC[i].op)) continue;
		std::string crash = std::string(LOC[i].op) + "_crash";
		vf::cur_sig(crash.c_str());
		String r;
		if (LOC[i].flush) { vfx::Flush fl(s); r = LOC[i].f(s); } else r = LOC[i].f(s);
		vf::cur_sig("crash_or_hang");
		vf::add(W_LOC_CALLS[loc]);
		if (!ascii) vf::add(W_LOC_NONASCII[loc]);
		bool tr = trip(LOC[i].op, full);
		bool inbuf = r.length() >= 0 && r.length() < r.cap() && (*r)[r.length()] == 0;
		if (!tr && !inbuf) bad(std::string(LOC[i].op) + "_result", std::string(LOC[i].op) + "(" + show(full) + fmt(") in the %s locale returned a String of length %d in a buffer of %d", LOCNAME[loc], r.length(), r.cap()) + (r.length() >= 0 && r.length() < r.cap() ? " that is not terminated at its length" : ""));
		if (tr || !inbuf) { int& nb = sigcount[std::string("#loc") + LOC[i].op]; if (++nb == 3) disabled_ops.insert(LOC[i].op); } // a conversion that left its buffers may have damaged the heap: confirm three times per worker, then stop calling it
		else if (ascii) { if (SS(r) == full) vf::add(W_LOC_ASCII_IDENT); else vf::add(W_LOC_ASCII_OTHER); }
		else if (r.length() > 0) vf::add(W_LOC_NONEMPTY[loc]);
	}
}

// one byte-string case. raw: also the const char* conversion functions (only meaningful without NULs)
static void check_bytes(const std::string& full, bool raw, bool distinct) {
	begin_case((raw ? "b:" : "s:") + vf::hex(full));
	vf::add(C_EVAL);
	if (distinct) vf::add(C_DISTINCT);
	Cps cps;
	bool nonul = full.find('\0') == std::string::npos;
	bool valid = nonul && dec8(full, cps);
	if (!valid) cps.clear();
	Feat ft = witnesses(full, valid, cps);
	if (raw && nonul) check_raw(full, valid, cps);
	g_rangefor = raw || vf::opt.thorough() || vf::opt.replay;
	check_string(full, valid, cps, ft);
}

// ---------------------------------------------------------------- case-insensitive equality <=> equality of lower-cased forms (well-formed text)
static int check_nocase(const std::string& a, const std::string& b, const String& A, const String& B, const std::string& la, const std::string& lb) { // -1: ASan, else: are the lower-cased forms equal
	begin_case("nc:" + vf::hex(a) + "/" + vf::hex(b));
	vf::add(C_EVAL); vf::add(C_DISTINCT);
	bool ab, ba;
	{ vfx::Flush f1(A), f2(B); ab = A.equalsNocase(B); ba = B.equalsNocase(A); }
	if (trip("equalsNocase", a + "/" + b)) return -1;
	bool expect = la == lb;
	if (expect) { vf::add(W_NC_TRUE); if (a != b) vf::add(W_NC_TRUE_DISTINCT); } else vf::add(W_NC_FALSE);
	if (ab != expect || ba != expect)
		bad("nocase_mismatch", "x = " + show(a) + ", y = " + show(b) + fmt(": x.equalsNocase(y) = %d, y.equalsNocase(x) = %d, but lower(x) = ", (int)ab, (int)ba) + show(la) + " and lower(y) = " + show(lb));
	return expect ? 1 : 0;
}
static int check_nocase_fresh(const std::string& a, const std::string& b) {
	begin_case("nc:" + vf::hex(a) + "/" + vf::hex(b));
	String A = vfx::A(a), B = vfx::A(b);
	String la = A.toLowerCase(), lb = B.toLowerCase();
	if (trip("toLowerCase", a + "/" + b)) return -1;
	return check_nocase(a, b, A, B, SS(la), SS(lb));
}

// ---------------------------------------------------------------- extension: UTF-16 unit strings and raw int arrays (memory safety; values when well-formed)
static void check_units(const std::vector<unsigned>& u) {
	std::string k = "w:"; for (size_t i = 0; i < u.size(); i++) k += fmt(i ? ",%X" : "%X", u[i]);
	begin_case(k);
	vf::add(C_EVAL); vf::add(C_DISTINCT);
	size_t n = u.size();
	// well-formed UTF-16?  (wchar_t is 32 bits here: units above FFFF are not UTF-16 at all)
	bool wf = true; Cps cps;
	for (size_t i = 0; i < n && wf; i++) {
		unsigned c = u[i];
		if (c > 0xFFFF) wf = false;
		else if (c >= 0xD800 && c <= 0xDBFF) { if (i + 1 < n && u[i + 1] >= 0xDC00 && u[i + 1] <= 0xDFFF) { cps.push_back((int)(0x10000 + ((c - 0xD800) << 10) + (u[i + 1] - 0xDC00))); i++; } else wf = false; }
		else if (c >= 0xDC00 && c <= 0xDFFF) wf = false;
		else cps.push_back((int)c);
	}
	if (!wf) vf::add(W_W16_ILL);
	std::string expect; if (wf) for (size_t i = 0; i < cps.size(); i++) expect += enc8(cps[i]);
	std::vector<wchar_t> z(n + 1); for (size_t i = 0; i < n; i++) z[i] = (wchar_t)u[i]; z[n] = 0;
	In<wchar_t> wi(z.data(), n + 1);
	Out<char> b8(4 * n + 1);
	int r = utf16toUtf8(wi.p, b8.p, (int)n);
	bool t = trip("utf16toUtf8", k);
	if (!t && (r < 0 || (size_t)r > 4 * n || b8.p[r] != 0)) bad("utf16toUtf8_result", fmt("utf16toUtf8(%s) returned %d: not a terminated result inside 4n+1 bytes", k.c_str(), r));
	else if (!t && wf && std::string(b8.p, r) != expect) bad("utf16toUtf8_value", "utf16toUtf8(" + k + ") = " + show(std::string(b8.p, r)) + ", standard encoding is " + show(expect));
	if (!t && n >= 2 && n <= 8) // limited n: at most j characters of <= 4 bytes each (+ terminator)
		for (size_t j = 1; j < n; j++) {
			Out<char> bj(4 * j + 1);
			int rj = utf16toUtf8(wi.p, bj.p, (int)j);
			if (trip("utf16toUtf8", k)) break;
			vf::add(W_LIMIT16_CUT_UNITS);
			if (rj < 0 || (size_t)rj > 4 * j || bj.p[rj] != 0) { bad("utf16toUtf8_result", fmt("utf16toUtf8(%s, n=%d) returned %d: not a terminated result inside 4n+1 = %d bytes", k.c_str(), (int)j, rj, (int)(4 * j + 1))); break; }
			if (wf && ((size_t)rj > expect.size() || memcmp(bj.p, expect.data(), rj) != 0)) { bad("utf16toUtf8_value", fmt("utf16toUtf8(%s, n=%d) = ", k.c_str(), (int)j) + show(std::string(bj.p, rj)) + ": not a prefix of the standard encoding " + show(expect)); break; }
		}
	String s1(wi.p);
	if (!trip("wide_ctor", k)) {
		if (s1.length() < 0 || s1.length() >= s1.cap()) bad("wide_ctor_result", "String(const wchar_t* " + k + fmt(") has length %d in a buffer of %d", s1.length(), s1.cap()));
		else if (wf && SS(s1) != expect) bad("utf16toUtf8_value", "String(const wchar_t* " + k + ") = " + show(SS(s1)) + ", standard encoding is " + show(expect));
	}
	Array<wchar_t> aw((int)n); for (size_t i = 0; i < n; i++) aw[(int)i] = z[i];
	String s2(aw);
	if (!trip("wide_ctor", k)) {
		if (s2.length() < 0 || s2.length() >= s2.cap()) bad("wide_ctor_result", "String(Array<wchar_t> " + k + fmt(") has length %d in a buffer of %d", s2.length(), s2.cap()));
		else if (wf && SS(s2) != expect) bad("utf16toUtf8_value", "String(Array<wchar_t> " + k + ") = " + show(SS(s2)) + ", standard encoding is " + show(expect));
	}
}
static void check_ints(const std::vector<int>& v) {
	std::string k = "i:"; for (size_t i = 0; i < v.size(); i++) k += fmt(i ? ",%d" : "%d", v[i]);
	begin_case(k);
	vf::add(C_EVAL); vf::add(C_DISTINCT);
	size_t n = v.size();
	bool scalar = true; std::string expect;
	for (size_t i = 0; i < n; i++) { if (!is_scalar(v[i])) scalar = false; else expect += enc8(v[i]); }
	if (!scalar) vf::add(W_I32_NONSCALAR);
	Cps z = v; z.push_back(0);
	In<int> ii(z.data(), n + 1);
	Out<char> b8(4 * n + 1);
	int r = utf32toUtf8(ii.p, b8.p, (int)n);
	bool t = trip("utf32toUtf8", k);
	if (!t && (r < 0 || (size_t)r > 4 * n || b8.p[r] != 0)) bad("utf32toUtf8_result", fmt("utf32toUtf8(%s) returned %d: not a terminated result inside 4n+1 bytes", k.c_str(), r));
	else if (!t && scalar && std::string(b8.p, r) != expect) bad("utf32toUtf8_value", "utf32toUtf8(" + k + ") = " + show(std::string(b8.p, r)) + ", standard encoding is " + show(expect));
	Array<int> ac((int)n); for (size_t i = 0; i < n; i++) ac[(int)i] = v[i];
	String f = String::fromCodes(ac);
	if (!trip("fromCodes", k)) {
		if (f.length() < 0 || f.length() >= f.cap()) bad("fromCodes_result", "fromCodes(" + k + fmt(") has length %d in a buffer of %d", f.length(), f.cap()));
		else if (scalar && SS(f) != expect) bad("fromCodes_value", "fromCodes(" + k + ") = " + show(SS(f)) + ", standard encoding is " + show(expect));
	}
	if (n == 1) {
		String g = String::fromCode(v[0]);
		if (!trip("fromCode", k) && (g.length() < 0 || g.length() >= g.cap())) bad("fromCodes_result", "fromCode(" + k + fmt(") has length %d in a buffer of %d", g.length(), g.cap()));
	}
}

// the oracle itself: a read one byte past the NUL of a flush String must raise the ASan flag
static void selftest() {
	begin_case("selftest");
	int seen = 0;
	{ String s = vfx::A("abc"); vfx::Flush f(s); volatile const char* p = *s; char c = p[4]; (void)c; if (vf::asan_tripped()) seen++; vf::asan_clear(); }
	{ String s = vfx::A(std::string(19, 'x')); vfx::Flush f(s); volatile const char* p = *s; char c = p[20]; (void)c; if (vf::asan_tripped()) seen++; vf::asan_clear(); }
	{ String s = vfx::A(std::string(17, 'x')); vfx::Flush f(s); volatile const char* p = *s; char c = p[18]; (void)c; if (vf::asan_tripped()) seen++; vf::asan_clear(); }
	{ vfx::FlushBuf b("ab"); volatile const char* p = b.p; char c = p[3]; (void)c; if (vf::asan_tripped()) seen++; vf::asan_clear(); }
	vf::add(W_SELFTEST, seen);
}

// ---------------------------------------------------------------- enumeration
static const unsigned char ALPHA[16] = { 0x00, 0x7F, 0x80, 0xBF, 0xC0, 0xC2, 0xDF, 0xE0, 0xEF, 0xF0, 0xF4, 0xF7, 0xF8, 0xFF, 0x41, 0x61 };
static bool in_alpha(unsigned char c) { for (int i = 0; i < 16; i++) if (ALPHA[i] == c) return true; return false; }
static int ALPHA_MAXLEN = 5;
// is this byte string already a case of the all-bytes (<= 3) or alphabet (4..ALPHA_MAXLEN) family?
static bool in_byte_families(const std::string& b) {
	if (b.size() <= 3) return true;
	if ((int)b.size() > ALPHA_MAXLEN) return false;
	for (size_t i = 0; i < b.size(); i++) if (!in_alpha((unsigned char)b[i])) return false;
	return true;
}
static const int BND[] = { 0x01, 0x41, 0x61, 0x7F, 0x80, 0xDF, 0x130, 0x23A, 0x3A3, 1414, 1415, 1416, 0x7FF, 0x800, 0xFFF, 0x1000, 0xD7FF, 0xE000, 0xFFFD, 0xFFFF, 0x10000, 0x10FFFF };
static const int NBND = sizeof BND / sizeof *BND;
static const int REPQ[] = { 0x7F, 0x80, 0x800, 0x10000 };
// alphabet for the string-level case-insensitive comparison: letters with 1-byte / 2-byte / shrinking / colliding mappings, the
// table cut-over (1414, 1415, 1416), entries whose table bytes are a truncated 3-byte form (23A, 23E), code points above the table
static const int CASEAL[] = { 0x41, 0x61, 0x4B, 0x6B, 0x49, 0x69, 0x130, 0x131, 0xDF, 0x17F, 0x53, 0x73, 0x3A3, 0x3C3, 0x3C2, 0x23A, 0x23E, 0x2C65, 0x556, 1414, 1415, 1416, 0x212A, 0x10400, 0x10428, 0x243, 0x180, 0x378 };
static const int NCASEAL = sizeof CASEAL / sizeof *CASEAL;
static const unsigned W16AL[] = { 0x41, 0x7F, 0x80, 0x7FF, 0x800, 0xD7FF, 0xD800, 0xDBFF, 0xDC00, 0xDFFF, 0xE000, 0xFFFF, 0x10000, 0x10FFFF };
static const int I32AL[] = { 1, 0x7F, 0x80, 0x7FF, 0x800, 0xFFFF, 0x10000, 0x10FFFF, 0xD800, 0xDFFF, 0x110000, 0x1FFFFF, 0x200000, INT_MAX, -1, INT_MIN };

static bool stop_for_deadline() {
	static bool said = false;
	if (!vf::deadline_passed()) return false;
	if (!said) { said = true; vf::cap_hit("deadline reached: remaining blocks skipped"); }
	return true;
}
static void arm_watchdog() { // CPU-time budget per work item: a non-terminating asl call kills the worker (signature crash_or_hang)
	struct itimerval it; memset(&it, 0, sizeof it); it.it_value.tv_sec = 300;
	setitimer(ITIMER_VIRTUAL, &it, 0);
}

static std::string idx_bytes3(uint64_t idx) { // 0: "", 1..256: 1 byte, then 2 bytes, then 3 bytes (first byte most significant)
	std::string s;
	if (idx == 0) return s;
	idx -= 1; if (idx < 256) { s += (char)idx; return s; }
	idx -= 256; if (idx < 65536) { s += (char)(idx >> 8); s += (char)(idx & 255); return s; }
	idx -= 65536; s += (char)(idx >> 16); s += (char)((idx >> 8) & 255); s += (char)(idx & 255); return s;
}
static std::string idx_alpha(uint64_t idx, int len) { std::string s(len, 0); for (int i = len - 1; i >= 0; i--) { s[i] = (char)ALPHA[idx & 15]; idx >>= 4; } return s; }
static std::string seq8(const Cps& c) { std::string s; for (size_t i = 0; i < c.size(); i++) s += enc8(c[i]); return s; }
static std::string padded(const std::string& b, size_t total) { return b.size() >= total ? b : std::string(total - b.size(), 'x') + b; }

static std::vector<std::pair<std::string, std::string> > PYPAIRS; // from python: Unicode case pairs (read in the parent before the workers fork)
static double phase_t0 = 0;
static void phase_done(const char* name) { double t = vf::now_s(); vf::setinfo(std::string("wall_s.") + name, fmt("%.1f", t - phase_t0)); phase_t0 = t; }

static void die(const std::string& m) { fprintf(stderr, "c08_utf: %s\n", m.c_str()); _exit(2); }

// python3 codecs as the trusted reference: every scalar's UTF-8 and UTF-16 form, ASCII case, strict validity of short strings
static void crosscheck_python() {
	FILE* f = popen("python3 /verif/tools/ref_c08.py", "r");
	if (!f) die("cannot start python3 reference");
	uint64_t n = 0;
	for (int cp = 1; cp < 0x110000; cp++) {
		if (cp >= 0xD800 && cp <= 0xDFFF) continue;
		unsigned char rec[14];
		if (fread(rec, 1, 14, f) != 14) die("python reference stream too short");
		unsigned pc = rec[0] | rec[1] << 8 | rec[2] << 16 | (unsigned)rec[3] << 24;
		std::string e = enc8(cp); Units u; enc16(cp, u); Cps back;
		unsigned u0 = rec[10] | rec[11] << 8, u1 = rec[12] | rec[13] << 8;
		bool ok = pc == (unsigned)cp && rec[4] == e.size() && memcmp(rec + 5, e.data(), e.size()) == 0 && rec[9] == u.size() && u0 == u[0] && (u.size() == 1 || u1 == u[1]);
		ok = ok && dec8(e, back) && back.size() == 1 && back[0] == cp;
		if (!ok) die(fmt("reference encoder disagrees with python codecs on U+%04X", cp));
		n++;
	}
	unsigned char cs[256];
	if (fread(cs, 1, 256, f) != 256) die("python reference stream too short (case)");
	for (int c = 0; c < 128; c++) if (cs[c] != (unsigned char)toupper(c) || cs[128 + c] != (unsigned char)tolower(c)) die(fmt("C-locale toupper/tolower disagree with python on %d", c));
	Cps tmp;
	for (int len = 1; len <= 2; len++) for (unsigned v = 0; v < (len == 1 ? 256u : 65536u); v++) {
		int c = fgetc(f); if (c == EOF) die("python reference stream too short (validity)");
		std::string s; if (len == 2) s += (char)(v >> 8); s += (char)(v & 255);
		if ((c == 1) != dec8(s, tmp)) die("reference strict decoder disagrees with python on " + vf::hex(s));
		n++;
	}
	for (int len = 3; len <= 4; len++) for (unsigned v = 0; v < (1u << (4 * len)); v++) {
		int c = fgetc(f); if (c == EOF) die("python reference stream too short (validity)");
		std::string s = idx_alpha(v, len);
		if ((c == 1) != dec8(s, tmp)) die("reference strict decoder disagrees with python on " + vf::hex(s));
		n++;
	}
	{ // section 4: every pair (c, f(c)) with f in lower/upper/title/casefold/swapcase and f(c) != c, as UTF-8 (input family for the case-insensitive clause)
		unsigned char h[4];
		if (fread(h, 1, 4, f) != 4) die("python reference stream too short (case pairs)");
		unsigned np = h[0] | h[1] << 8 | h[2] << 16 | (unsigned)h[3] << 24;
		if (np < 1000 || np > 100000) die("python reference: implausible number of case pairs");
		for (unsigned i = 0; i < np; i++) {
			std::string ab[2];
			for (int k = 0; k < 2; k++) { int l = fgetc(f); if (l < 1 || l > 32) die("python reference: bad case-pair record"); ab[k].resize(l); if (fread(&ab[k][0], 1, l, f) != (size_t)l) die("python reference stream too short (case pairs)"); if (ab[k].find('\0') != std::string::npos || !dec8(ab[k], tmp)) die("python reference: case pair is not well-formed UTF-8"); }
			PYPAIRS.push_back(std::make_pair(ab[0], ab[1]));
		}
		n += np;
	}
	if (fgetc(f) != EOF) die("python reference stream too long");
	if (pclose(f) != 0) die("python reference failed");
	vf::setinfo("reference_records_crosschecked_against_python", fmt("%llu", (unsigned long long)n));
}

static void run_case(const std::string& k) {
	if (k == "selftest") selftest();
	else if (k.compare(0, 2, "b:") == 0) check_bytes(vf::unhex(k.substr(2)), true, true);
	else if (k.compare(0, 2, "s:") == 0) check_bytes(vf::unhex(k.substr(2)), false, true);
	else if (k.compare(0, 3, "lc:") == 0 || k.compare(0, 3, "l8:") == 0) { int loc = k[1] == '8'; if (!set_loc(loc)) die("locale not available"); check_locale_bridge(vf::unhex(k.substr(3)), loc); set_loc(0); }
	else if (k.compare(0, 3, "nc:") == 0) { size_t p = k.find('/'); check_nocase_fresh(vf::unhex(k.substr(3, p - 3)), vf::unhex(k.substr(p + 1))); }
	else if (k.compare(0, 2, "w:") == 0 || k.compare(0, 2, "i:") == 0) {
		std::vector<unsigned> u; std::vector<int> v;
		const char* p = k.c_str() + 2;
		while (*p) { char* e; if (k[0] == 'w') u.push_back((unsigned)strtoul(p, &e, 16)); else v.push_back((int)strtol(p, &e, 10)); p = *e ? e + 1 : e; }
		if (k[0] == 'w') check_units(u); else check_ints(v);
	}
}

int main(int argc, char** argv) {
	vf::init(argc, argv, "C08", "c08_utf");
	C_EVAL = vf::counter("evaluations"); C_DISTINCT = vf::counter("distinct_nontrivial"); C_OPS = vf::counter("asl_calls_checked");
	C_SUPPRESSED = vf::counter("repeat_violations_not_listed"); C_PRUNED_COUNT = vf::counter("pruned.count_after_confirmed_overread");
	W_LEN[1] = vf::counter("w.scalar_1byte"); W_LEN[2] = vf::counter("w.scalar_2byte"); W_LEN[3] = vf::counter("w.scalar_3byte"); W_LEN[4] = vf::counter("w.scalar_4byte");
	W_VALID = vf::counter("w.wellformed_text"); W_ILL = vf::counter("w.illformed_bytes");
	W_TR2 = vf::counter("w.truncated_2byte_at_end"); W_TR3 = vf::counter("w.truncated_3byte_at_end"); W_TR4 = vf::counter("w.truncated_4byte_at_end");
	W_OVERLONG = vf::counter("w.overlong"); W_SURR8 = vf::counter("w.surrogate_in_utf8"); W_BADLEAD = vf::counter("w.invalid_lead_or_above_10FFFF"); W_STRAYCONT = vf::counter("w.stray_or_missing_continuation");
	W_NUL = vf::counter("w.embedded_nul"); W_INLINE = vf::counter("w.string_inline"); W_HEAPEXACT = vf::counter("w.string_heap_block_exactly_len_plus_1"); W_HEAPSLACK = vf::counter("w.string_heap_slack_poisoned");
	W_CASE_TABLE = vf::counter("w.case_table_path_below_1415"); W_CASE_IDENT = vf::counter("w.case_identity_path_from_1415"); W_CASE_SHRINK = vf::counter("w.case_mapping_shrinks"); W_CASE_CHANGED = vf::counter("w.case_mapping_changes_text");
	W_ASCII_CASE = vf::counter("w.ascii_case_vs_C_locale");
	W_NC_TRUE = vf::counter("w.nocase_expected_equal"); W_NC_FALSE = vf::counter("w.nocase_expected_different"); W_NC_TRUE_DISTINCT = vf::counter("w.nocase_equal_but_different_bytes");
	W_PAIR16 = vf::counter("w.utf16_surrogate_pair"); W_DATAW_REALLOC = vf::counter("w.dataw_realloc_path_1024"); W_DATAW_MALLOC = vf::counter("w.dataw_heap_malloc_path"); W_DATAW_INLINE = vf::counter("w.dataw_from_inline");
	W_COUNT_PRED = vf::counter("w.2byte_lead_directly_before_terminator"); W_LIMIT_CUT = vf::counter("w.limit_n_cuts_conversion");
	W_SELFTEST = vf::counter("w.asan_selftest_trips"); W_W16_ILL = vf::counter("w.illformed_utf16_units"); W_I32_NONSCALAR = vf::counter("w.nonscalar_utf32_input");
	W_LIMIT16_CUT = vf::counter("w.utf16toUtf8_limit_n_cuts_text"); W_LIMIT16_CUT_UNITS = vf::counter("w.utf16toUtf8_limit_n_on_unit_arrays"); W_LIMIT32_CUT = vf::counter("w.utf32toUtf8_limit_1_lt_n_lt_count");
	W_N_BEYOND = vf::counter("w.decoder_limit_n_beyond_terminator"); W_DATAW_INTACT = vf::counter("w.dataw_text_intact"); W_DATAW_INTACT4 = vf::counter("w.dataw_text_intact_len_multiple_of_4");
	W_RANGEFOR = vf::counter("w.rangefor_nonempty"); W_RANGEFOR_EMPTY = vf::counter("w.rangefor_empty");
	W_LOC_CALLS[0] = vf::counter("w.locale_bridge_calls_C"); W_LOC_CALLS[1] = vf::counter("w.locale_bridge_calls_C_UTF8"); W_LOC_NONASCII[0] = vf::counter("w.locale_bridge_non_ascii_input_C"); W_LOC_NONASCII[1] = vf::counter("w.locale_bridge_non_ascii_input_C_UTF8");
	W_LOC_NONEMPTY[0] = vf::counter("info.locale_bridge_non_ascii_nonempty_result_C"); W_LOC_NONEMPTY[1] = vf::counter("w.locale_bridge_non_ascii_nonempty_result_C_UTF8"); W_LOC_ASCII_IDENT = vf::counter("w.locale_bridge_ascii_unchanged"); W_LOC_ASCII_OTHER = vf::counter("info.locale_bridge_ascii_changed");
	W_NC_ABOVE = vf::counter("w.nocase_pair_with_code_above_2099"); W_NC_ABOVE_EQ = vf::counter("info.nocase_pair_above_2099_expected_equal"); W_NC_PY = vf::counter("w.nocase_unicode_case_pairs"); W_NC_PY_EQ = vf::counter("w.nocase_unicode_case_pairs_expected_equal");
	W_MID = vf::counter("w.multibyte_between_ascii_runs");
	signal(SIGVTALRM, SIG_DFL);
	if (vf::opt.replay) { vf::parallel(1, [&](uint64_t) { arm_watchdog(); run_case(vf::opt.kase); }); return vf::finish(); }
	const bool T = vf::opt.thorough();
	ALPHA_MAXLEN = T ? 6 : 5;

	phase_t0 = vf::now_s();
	crosscheck_python();
	phase_done("python_crosscheck");
	vf::parallel(1, [&](uint64_t) { selftest(); });
	if (vf::have_asan() && vf::get(W_SELFTEST) != 4) die("ASan oracle self-test failed: a read past a flush buffer was not noticed");

	if (vf::known(SIG_COUNT)) // listed as known: confirm once in a sacrificial worker, prune everywhere else
		vf::parallel(1, [&](uint64_t) { confirm_mode = true; check_bytes("\xC2", false, false); check_bytes(std::string(18, 'x') + "\xC2", false, false); });

	// (a) every Unicode scalar value except U+0000: raw conversions + String methods (inline / heap) + the same text in a heap block of exactly len+1 bytes
	vf::parallel(0x110000 / 2048, [&](uint64_t blk) {
		if (stop_for_deadline()) return;
		arm_watchdog();
		for (int cp = (int)blk * 2048; cp < (int)(blk + 1) * 2048; cp++) {
			if (cp == 0 || (cp >= 0xD800 && cp <= 0xDFFF)) continue;
			std::string e = enc8(cp);
			check_bytes(e, true, e.size() > 3);  // encodings of <= 3 bytes are counted as distinct inputs in family (c)
			check_bytes(padded(e, 19), false, false);
		}
	});
	phase_done("a_scalars");
	// (b) sequences: all pairs and triples (thorough: quadruples) over the boundary code points; every scalar next to a 1-, 2-, 3- and 4-byte
	//     neighbour in both orders (thorough: next to every boundary code point)
	{
		uint64_t n2 = (uint64_t)NBND * NBND, n3 = n2 * NBND, n4 = T ? n3 * NBND : 0;
		vf::parallel((n2 + n3 + n4 + 255) / 256, [&](uint64_t blk) {
			if (stop_for_deadline()) return;
			arm_watchdog();
			for (uint64_t i = blk * 256; i < (blk + 1) * 256 && i < n2 + n3 + n4; i++) {
				int len = i < n2 ? 2 : i < n2 + n3 ? 3 : 4; uint64_t x = i < n2 ? i : i < n2 + n3 ? i - n2 : i - n2 - n3;
				Cps c(len); for (int k = len - 1; k >= 0; k--) { c[k] = BND[x % NBND]; x /= NBND; }
				std::string e = seq8(c);
				check_bytes(e, true, !in_byte_families(e));
				if (e.size() < 19) check_bytes(padded(e, 19), false, false);
			}
		});
		const int* reps = T ? BND : REPQ; int nreps = T ? NBND : 4;
		vf::parallel(0x110000 / 1024, [&](uint64_t blk) {
			if (stop_for_deadline()) return;
			arm_watchdog();
			for (int cp = (int)blk * 1024; cp < (int)(blk + 1) * 1024; cp++) {
				if (cp == 0 || (cp >= 0xD800 && cp <= 0xDFFF)) continue;
				bool isb = false; for (int k = 0; k < NBND; k++) if (BND[k] == cp) isb = true; // those pairs were done above
				std::string e = enc8(cp);
				for (int r = 0; r < nreps; r++) {
					std::string o = enc8(reps[r]);
					std::string ab = e + o, ba = o + e;
					check_bytes(ab, true, !isb && !in_byte_families(ab));
					if (ab != ba) check_bytes(ba, true, !isb && !in_byte_families(ba));
				}
			}
		});
	}
	phase_done("b_sequences");
	// (c) all byte strings of length <= 3 (including NUL bytes: String(ptr, n)): at offset 0 and left-padded to 19 bytes (heap block of exactly 20);
	//     thorough: also padded to 15 (inline buffer completely full) and to 16 (smallest heap block, slack poisoned)
	{
		const uint64_t N = 1 + 256 + 65536 + 16777216, CH = 8192;
		vf::parallel((N + CH - 1) / CH, [&](uint64_t blk) {
			if (stop_for_deadline()) return;
			arm_watchdog();
			for (uint64_t i = blk * CH; i < (blk + 1) * CH && i < N; i++) {
				std::string b = idx_bytes3(i);
				g_skip_nbeyond3 = !T;
				check_bytes(b, true, true);
				g_skip_nbeyond3 = false;
				check_bytes(padded(b, 19), false, false);
				if (T) { check_bytes(padded(b, 15), false, false); check_bytes(padded(b, 16), false, false); }
			}
		});
	}
	phase_done("c_bytes_le3");
	// (d) all strings of length 4..5 (thorough: 6) over the boundary-byte alphabet
	for (int len = 4; len <= ALPHA_MAXLEN; len++) {
		uint64_t N = 1ull << (4 * len), CH = 4096;
		vf::parallel(N / CH, [&](uint64_t blk) {
			if (stop_for_deadline()) return;
			arm_watchdog();
			for (uint64_t i = blk * CH; i < (blk + 1) * CH; i++) {
				std::string b = idx_alpha(i, len);
				check_bytes(b, true, true);
				check_bytes(padded(b, 19), false, false);
			}
		});
	}
	phase_done("d_alphabet");
	// (e) longer strings (deterministic replacement of "random longer strings"): every alphabet tail of length <= 3 behind paddings that
	//     walk the String through inline -> heap(20) -> heap(n+1), and behind ~1 KB paddings (dataw() takes its realloc branch from 1024)
	{
		std::vector<int> pads, bigpads;
		for (int p = 4; p <= (T ? 44 : 24); p++) pads.push_back(p);
		for (int p = 1017; p <= 1024; p++) bigpads.push_back(p);
		if (!T) for (int p = 25; p <= 44; p++) bigpads.push_back(p); // quick: these only with tails of length <= 2
		uint64_t NT = 1 + 16 + 256 + 4096;
		vf::parallel(NT, [&](uint64_t ti) {
			if (stop_for_deadline()) return;
			arm_watchdog();
			int len = ti < 1 ? 0 : ti < 17 ? 1 : ti < 273 ? 2 : 3;
			std::string tail = idx_alpha(ti - (len == 0 ? 0 : len == 1 ? 1 : len == 2 ? 17 : 273), len);
			for (size_t k = 0; k < pads.size(); k++) check_bytes(std::string(pads[k], 'x') + tail, true, true);
			if (T || len <= 2) for (size_t k = 0; k < bigpads.size(); k++) check_bytes(std::string(bigpads[k], 'x') + tail, true, true);
		}, 8);
	}
	phase_done("e_padded_tails");
	// (h) sizing: one or two boundary code points in front of, behind and around every padding length 0..48 (thorough: 0..80), so that every
	//     output-size computation is exercised at each code-point width with the result in the inline buffer, in the 20-byte block and in exact-size blocks
	{
		const int NP = T ? 81 : 49;
		vf::parallel((uint64_t)NBND * (NBND + 1), [&](uint64_t i) {
			if (stop_for_deadline()) return;
			arm_watchdog();
			int c1 = BND[i % NBND]; int j = (int)(i / NBND); std::string e1 = enc8(c1), e2 = j < NBND ? enc8(BND[j]) : std::string();
			for (int pad = 0; pad < NP; pad++) {
				std::string x(pad, 'x');
				check_bytes(x + e1 + e2, true, true);
				if (pad) { check_bytes(e1 + x + e2, true, true); if (!e2.empty()) check_bytes(e1 + e2 + x, true, true); }
			}
		}, 2);
	}
	phase_done("h_sizing");
	// (i) a multibyte character between two ASCII runs: x^p + c + x^q for every boundary code point c and all p, q in 1..16 (p or q = 0 is family (h))
	vf::parallel((uint64_t)NBND * 16, [&](uint64_t i) {
		if (stop_for_deadline()) return;
		arm_watchdog();
		std::string e1 = enc8(BND[i % NBND]); int p = (int)(i / NBND) + 1;
		for (int q = 1; q <= 16; q++) { vf::add(W_MID); check_bytes(std::string(p, 'x') + e1 + std::string(q, 'x'), true, true); }
	}, 4);
	phase_done("i_mid");
	// (f) case-insensitive equality <=> equal lower-cased forms: all ordered pairs of code points 1..2099 (every 1- and 2-byte code point and the
	//     table cut-over), and all pairs of strings of <= 2 (thorough: <= 2 against <= 3) code points over the case alphabet
	{
		const int NC = 2100;
		vf::parallel(NC - 1, [&](uint64_t ai) {
			if (stop_for_deadline()) return;
			arm_watchdog();
			static std::vector<String*> S; static std::vector<std::string> B8, LO;
			if (S.empty()) {
				begin_case("nc-setup");
				S.resize(NC); B8.resize(NC); LO.resize(NC);
				for (int c = 1; c < NC; c++) { B8[c] = enc8(c); S[c] = new String(vfx::A(B8[c])); LO[c] = SS(S[c]->toLowerCase()); }
			}
			int a = (int)ai + 1;
			for (int b = a; b < NC; b++) check_nocase(B8[a], B8[b], *S[a], *S[b], LO[a], LO[b]); // both orders are evaluated inside
		}, 4);
		std::vector<std::string> strs;
		for (int i = 0; i < NCASEAL; i++) strs.push_back(enc8(CASEAL[i]));
		for (int i = 0; i < NCASEAL; i++) for (int j = 0; j < NCASEAL; j++) strs.push_back(enc8(CASEAL[i]) + enc8(CASEAL[j]));
		size_t n2 = strs.size();
		if (T) for (int i = 0; i < NCASEAL; i++) for (int j = 0; j < NCASEAL; j++) for (int k = 0; k < NCASEAL; k++) strs.push_back(enc8(CASEAL[i]) + enc8(CASEAL[j]) + enc8(CASEAL[k]));
		vf::parallel(n2, [&](uint64_t ai) {
			if (stop_for_deadline()) return;
			arm_watchdog();
			static std::vector<String*> S; static std::vector<std::string> LO;
			if (S.empty()) {
				begin_case("nc-setup");
				S.resize(strs.size()); LO.resize(strs.size());
				for (size_t c = 0; c < strs.size(); c++) { S[c] = new String(vfx::A(strs[c])); LO[c] = SS(S[c]->toLowerCase()); }
			}
			for (size_t b = ai; b < strs.size(); b++) check_nocase(strs[ai], strs[b], *S[ai], *S[b], LO[ai], LO[b]);
		}, 2);
	}
	phase_done("f_nocase");
	// (j) the same clause above the case tables: every scalar c against c + d for the offsets d at which Unicode keeps case pairs (both orders are evaluated, so
	//     c - d is covered from the other side; pairs with both codes below 2100 are family (f)), and every Unicode case pair python knows, multi-character mappings included
	{
		static const int DQ[] = { 1, 32, 40, 48, 80, 0x10000 };
		static const int DT[] = { 1, 8, 16, 26, 32, 34, 40, 48, 64, 80, 0xBC0, 0x1C60, 0x97D0, 0x10000 };
		const int* D = T ? DT : DQ; const int ND = T ? (int)(sizeof DT / sizeof *DT) : (int)(sizeof DQ / sizeof *DQ);
		vf::parallel(0x110000 / 2048, [&](uint64_t blk) {
			if (stop_for_deadline()) return;
			arm_watchdog();
			for (int cp = (int)blk * 2048; cp < (int)(blk + 1) * 2048; cp++) {
				if (cp == 0 || (cp >= 0xD800 && cp <= 0xDFFF)) continue;
				std::string a = enc8(cp);
				begin_case("nc:" + vf::hex(a) + "/" + vf::hex(a));
				String A = vfx::A(a); String lA = A.toLowerCase();
				if (trip("toLowerCase", a)) continue;
				std::string la = SS(lA);
				for (int k = 0; k < ND; k++) {
					long long d = (long long)cp + D[k];
					if (!is_scalar(d) || d < 2100) continue;
					std::string b = enc8((int)d);
					begin_case("nc:" + vf::hex(a) + "/" + vf::hex(b));
					String B = vfx::A(b); String lB = B.toLowerCase();
					if (trip("toLowerCase", b)) continue;
					int r = check_nocase(a, b, A, B, la, SS(lB));
					vf::add(W_NC_ABOVE); if (r == 1) vf::add(W_NC_ABOVE_EQ);
				}
			}
		});
		vf::parallel((PYPAIRS.size() + 63) / 64, [&](uint64_t blk) {
			if (stop_for_deadline()) return;
			arm_watchdog();
			for (size_t i = blk * 64; i < (blk + 1) * 64 && i < PYPAIRS.size(); i++) {
				int r = check_nocase_fresh(PYPAIRS[i].first, PYPAIRS[i].second);
				vf::add(W_NC_PY); if (r == 1) vf::add(W_NC_PY_EQ);
			}
		});
	}
	phase_done("j_nocase_above_table");
	// (k) the locale bridge, in the "C" locale and (when the platform has it) in "C.UTF-8": every byte string of length <= 2 and alphabet^3 (thorough: every byte string of length <= 3), every scalar value left-padded
	//     to 19 (heap block of exactly 20; thorough: also alone), every alphabet tail of length <= 2 behind paddings 4..44 and 1017..1024, the shapes of family (i)
	{
		bool have8 = set_loc(1); set_loc(0);
		vf::setinfo("locale_C_UTF8_available", have8 ? "true" : "false");
		for (int loc = 0; loc < (have8 ? 2 : 1); loc++) {
			const uint64_t N2 = 1 + 256 + 65536, N = N2 + (T ? 16777216 : 4096), CH = 4096; // quick: length 3 over the boundary alphabet only
			vf::parallel((N + CH - 1) / CH, [&](uint64_t blk) {
				if (stop_for_deadline()) return;
				arm_watchdog(); set_loc(loc);
				for (uint64_t i = blk * CH; i < (blk + 1) * CH && i < N; i++) check_locale_bridge(T || i < N2 ? idx_bytes3(i) : idx_alpha(i - N2, 3), loc);
				set_loc(0);
			});
			vf::parallel(0x110000 / 4096, [&](uint64_t blk) {
				if (stop_for_deadline()) return;
				arm_watchdog(); set_loc(loc);
				for (int cp = (int)blk * 4096; cp < (int)(blk + 1) * 4096; cp++) {
					if (cp == 0 || (cp >= 0xD800 && cp <= 0xDFFF)) continue;
					std::string e = enc8(cp);
					if (T && e.size() > 3) check_locale_bridge(e, loc); // thorough: alone as well (shorter ones are in the byte-string block above); quick: heap instance only
					check_locale_bridge(padded(e, 19), loc);
				}
				set_loc(0);
			});
			vf::parallel(1 + 16 + 256, [&](uint64_t ti) {
				if (stop_for_deadline()) return;
				arm_watchdog(); set_loc(loc);
				int len = ti < 1 ? 0 : ti < 17 ? 1 : 2;
				std::string tail = idx_alpha(ti - (len == 0 ? 0 : len == 1 ? 1 : 17), len);
				for (int p = 4; p <= 44; p++) check_locale_bridge(std::string(p, 'x') + tail, loc);
				for (int p = 1017; p <= 1024; p++) check_locale_bridge(std::string(p, 'x') + tail, loc);
				set_loc(0);
			}, 8);
			vf::parallel((uint64_t)NBND * 16, [&](uint64_t i) {
				if (stop_for_deadline()) return;
				arm_watchdog(); set_loc(loc);
				std::string e1 = enc8(BND[i % NBND]); int p = (int)(i / NBND) + 1;
				for (int q = 1; q <= 16; q++) check_locale_bridge(std::string(p, 'x') + e1 + std::string(q, 'x'), loc);
				set_loc(0);
			}, 4);
		}
	}
	phase_done("k_locale_bridge");
	// (g) extension (memory safety of the wide / code-point entry points on arbitrary units; values when well-formed)
	{
		const int NW = sizeof W16AL / sizeof *W16AL, NI = sizeof I32AL / sizeof *I32AL;
		int wl = T ? 5 : 4, il = T ? 4 : 3;
		vf::parallel(NW, [&](uint64_t first) {
			arm_watchdog();
			if (first == 0) check_units(std::vector<unsigned>());
			for (int len = 1; len <= wl; len++) {
				uint64_t n = 1; for (int i = 1; i < len; i++) n *= NW;
				for (uint64_t x = 0; x < n; x++) { std::vector<unsigned> u(len); u[0] = W16AL[first]; uint64_t y = x; for (int i = 1; i < len; i++) { u[i] = W16AL[y % NW]; y /= NW; } check_units(u); }
			}
		});
		vf::parallel(NI, [&](uint64_t first) {
			arm_watchdog();
			if (first == 0) check_ints(std::vector<int>());
			for (int len = 1; len <= il; len++) {
				uint64_t n = 1; for (int i = 1; i < len; i++) n *= NI;
				for (uint64_t x = 0; x < n; x++) { std::vector<int> v(len); v[0] = I32AL[first]; uint64_t y = x; for (int i = 1; i < len; i++) { v[i] = I32AL[y % NI]; y /= NI; } check_ints(v); }
			}
		});
	}
	phase_done("g_units_ints");
	vf::sample("b:f48fbfbf  (U+10FFFF): utf32toUtf8/utf8toUtf32/utf8toUtf16/utf16toUtf8 in exact-size heap buffers, count()=chars().length()=iteration=1, fromCode, dataw()/String(wchar_t*)/fixW(), case mapping <= 4 bytes");
	vf::sample("b:e0c2  and  s:78787878787878787878787878787878e0c2 (same bytes ending a 20-byte heap block): every conversion, count, chars, iteration, toUpperCase/toLowerCase, equalsNocase, dataw under ASan");
	vf::sample("b:c200 41: String(ptr,3) with an embedded NUL after a 2-byte lead");
	vf::sample("nc:c4b0/69  (U+0130 vs 'i'): x.equalsNocase(y) == (lower(x) == lower(y)), both orders; all 2099^2 code-point pairs and " + fmt("%d", (int)(NCASEAL + NCASEAL * NCASEAL)) + "^2 short strings");
	vf::sample("nc:e1b880/e1b881 (U+1E00 vs U+1E01, above the case tables): equalsNocase must say what asl's own toLowerCase says; every scalar x offsets of Unicode case pairs, " + fmt("%d", (int)PYPAIRS.size()) + " python case pairs");
	vf::sample("lc:80 / l8:7878787878787878787878787878787878c3a9: localToUtf8, fromLocal, utf8ToLocal, toLocal in the C and C.UTF-8 locales: ASan-clean, result String terminated inside its buffer");
	vf::sample("w:D800,41 / i:-1,1114112: lone surrogate units and non-scalar ints through utf16toUtf8, String(const wchar_t*), utf32toUtf8, fromCodes");
	return vf::finish();
}
