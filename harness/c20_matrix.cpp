// C20 part 1 — Matrix4 / Matrix3 inverse() and det(): exact polynomial identities by COMPLETE grid evaluation
// (every entry of the adjugate and the determinant has degree <= 2 in each variable once the single quotient 1/d is
// kept symbolic, so agreement with the reference on all of {-1,0,1}^16 (resp. {-2..2}^9) is agreement as polynomials),
// the same templates over the prime field GF(2^61-1) at fixed generic points, det(AB) = det(A)det(B), and the
// float / double instantiations on the same grids: residual of M*inverse(M) - I within c*eps*kappa.
// Extension after the coverage review: the same float/double inverses on matrices scaled by 2^+-40 (float 2^+-20) and on rigid /
// similarity transforms with non-integer entries (an absolute threshold or an inexact cofactor would show); the symbolic observation
// demands the VALUE q_ij/div = adj_ij/det at non-singular points and treats any other shape as "not observed", not as a violation.
#include <asl/Matrix4.h>
#include <asl/Matrix3.h>
#include "c20_common.h"
using namespace asl;
using namespace c20;
using vf::fmt;

uint64_t Fp::P = 2305843009213693951ULL, Fp::K = 1, Fp::divzero = 0;
int64_t Sym::div = 0; int Sym::ndiv = 0, Sym::unsupported = 0;

static int C_EVAL, C_DISTINCT, C_SING4, C_NONSING4, C_CORNER, C_SING3, C_NONSING3, C_SYMOK, C_SYMUNSUP, C_PAIRS3, C_PAIRS4, C_FP4, C_FP3, C_FPSING, C_DETZERO_PROD, C_FLT4, C_FLT3;
// extension (coverage review): the symbolic observation accepts every "numerators times one quotient" form that has the right VALUE
// (not only adjugate/determinant literally); float/double inverses of the same matrices scaled by 2^+-40 (float 2^+-20) and of
// rigid / similarity transforms with non-integer entries
static int C_SYMOTHER, W_SCALED4, W_SCALED3, W_RIGID4, W_RIGID3;
static Reporter rep;
static MaxTrack mx;
static const double C_RESID = 8.0; // "small multiple": residual <= C_RESID * eps * kappa_inf

static const uint64_t N4 = 43046721ULL; // 3^16
static void decode(uint64_t idx, int base, int off, int n, int* m) { for (int i = n - 1; i >= 0; i--) { m[i] = (int)(idx % base) - off; idx /= base; } }
static std::string mstr(const int* m, int n) { std::string s = "["; for (int i = 0; i < n * n; i++) { s += fmt("%d", m[i]); s += (i + 1 == n * n) ? "]" : ((i + 1) % n == 0 ? "; " : " "); } return s; }

template <class T> static Matrix4_<T> mk4(const int* m) {
	return Matrix4_<T>(T(m[0]), T(m[1]), T(m[2]), T(m[3]), T(m[4]), T(m[5]), T(m[6]), T(m[7]), T(m[8]), T(m[9]), T(m[10]), T(m[11]), T(m[12]), T(m[13]), T(m[14]), T(m[15]));
}
template <class T> static Matrix3_<T> mk3(const int* m) {
	return Matrix3_<T>(T(m[0]), T(m[1]), T(m[2]), T(m[3]), T(m[4]), T(m[5]), T(m[6]), T(m[7]), T(m[8]));
}

// floating-point clause on an integer matrix with exact adjugate/determinant known:
//   (1) inverse()*d rounds to the adjugate (the only inexact steps are 1/d and the scaling),
//   (2) max |M*X - I| <= C_RESID * eps * kappa_inf(M), kappa from the exact inverse adj/d.
// sc: the matrix handed to asl was M * 2^sc (exact), so its inverse is inverse(M) * 2^-sc (exact as well): the result is scaled back
// and judged by the very same oracle; an absolute threshold inside inverse() (on the determinant, on a cofactor) would show
template <class T, class MT>
static void float_clause(const MT& X, const int* m, const int64_t* adj, int64_t d, int n, const char* tname, const std::string& kase, int sc = 0) {
	const long double eps = std::numeric_limits<T>::epsilon();
	long double nm = 0, ni = 0;
	for (int i = 0; i < n; i++) {
		long double a = 0, b = 0;
		for (int j = 0; j < n; j++) { a += fabsl((long double)m[i * n + j]); b += fabsl((long double)adj[i * n + j]); }
		if (a > nm) nm = a;
		if (b > ni) ni = b;
	}
	long double kappa = nm * ni / fabsl((long double)d);
	long double worst = 0;
	long double xs[16]; const long double sf = sc ? ldexpl(1.0L, sc) : 1.0L; // multiplication by a power of two is exact
	for (int i = 0; i < n; i++) for (int j = 0; j < n; j++) xs[i * n + j] = (long double)X(i, j) * sf;
	for (int i = 0; i < n; i++)
		for (int j = 0; j < n; j++) {
			long double x = xs[i * n + j];
			if (!(x == x) || !(fabsl(x * (long double)d) < 1e15L) || !(llroundl(x * (long double)d) == adj[i * n + j]))
				rep.bad(std::string("inverse_entry_") + tname, fmt("%s inverse of %s%s: element (%d,%d) = %.9Lg%s, times det %lld is not the adjugate entry %lld", tname, mstr(m, n).c_str(), sc ? fmt(" * 2^%d", sc).c_str() : "", i, j, x, sc ? " (scaled back)" : "", (long long)d, (long long)adj[i * n + j]), kase);
			long double s = (i == j) ? -1.0L : 0.0L;
			for (int k = 0; k < n; k++) s += (long double)m[i * n + k] * xs[k * n + j];
			if (fabsl(s) > worst || s != s) worst = (s != s) ? INFINITY : fabsl(s);
		}
	long double ratio = worst / (eps * kappa);
	if (!(ratio <= C_RESID))
		rep.bad(std::string("inverse_residual_") + tname, fmt("%s: max|M*inverse(M) - I| = %.3Lg = %.2Lf * eps * kappa (kappa_inf = %.3Lg) for M = %s%s", tname, worst, ratio, kappa, mstr(m, n).c_str(), sc ? fmt(" * 2^%d", sc).c_str() : ""), kase);
	if (!sc) mx.see_lazy(n == 4 ? (sizeof(T) == 4 ? "resid_over_eps_kappa.m4f" : "resid_over_eps_kappa.m4d") : (sizeof(T) == 4 ? "resid_over_eps_kappa.m3f" : "resid_over_eps_kappa.m3d"), ratio, [&] { return kase; });
}

template <class T> static Matrix4_<T> mk4s(const int* m, int sc) { T v[16]; const T f = (T)ldexp(1.0, sc); for (int i = 0; i < 16; i++) v[i] = (T)m[i] * f; return Matrix4_<T>(v); }
template <class T> static Matrix3_<T> mk3s(const int* m, int sc) { T v[9]; const T f = (T)ldexp(1.0, sc); for (int i = 0; i < 9; i++) v[i] = (T)m[i] * f; return Matrix3_<T>(v); }

// what inverse() computed with the quotient kept symbolic: every element is q_ij * (1/div). The statement asks for the VALUE
// adj_ij/d, not for a shape: at a non-singular point q_ij/div must equal adj_ij/d (cross-multiplied, exact); the literal shape
// (div = det, q = adjugate) is only counted, because it is what makes the observation meaningful at the singular points too.
// Returns 0 ok literal, 1 ok other shape, 2 unsupported (nothing can be said here: the exact clause then rests on the GF(2^61-1)
// points and the numeric oracle), 3 wrong value at element (*bi,*bj)
template <class MS>
static int judge_symbolic(const MS& Xs, const int64_t* adj, int64_t d, int n, int* bi, int* bj) {
	if (Sym::unsupported || Sym::ndiv == 0) return 2;
	bool literal = Sym::div == d;
	for (int i = 0; i < n; i++) for (int j = 0; j < n; j++) if (Xs(i, j).p != 0 || Xs(i, j).q != adj[i * n + j]) literal = false;
	if (literal) return 0;
	if (d == 0) return 2; // a singular matrix has no inverse: no value to compare with, and not the literal shape
	*bi = -1; *bj = -1;
	if (Sym::div == 0) return 3; // divides by zero although the matrix is invertible
	for (int i = 0; i < n; i++) for (int j = 0; j < n; j++)
		if (Xs(i, j).p * Sym::div * d + Xs(i, j).q * d != adj[i * n + j] * Sym::div) { *bi = i; *bj = j; return 3; } // p + q/div == adj/d
	return 1;
}

// fixed second factors for det(A*B) with A running over the whole grid
static const int B4[3][16] = {
	{ 2, -1, 0, 3, 1, 1, -2, 0, 0, 3, 1, -1, -1, 0, 2, 1 },
	{ 0, 1, 0, 0, 0, 0, 1, 0, 0, 0, 0, 1, 1, 0, 0, 0 },
	{ 1, 2, 3, 4, 2, 3, 4, 1, 3, 4, 1, 2, 4, 1, 2, 4 } };

static void check_m4(uint64_t idx, bool T, bool scaled) {
	int m[16]; decode(idx, 3, 1, 16, m);
	char kb[40]; snprintf(kb, sizeof kb, "m4:%llu", (unsigned long long)idx);
	std::string kase(kb);
	vf::cur(kase);
	vf::add(C_EVAL);
	// --- reference (integers) and its own validation: Leibniz determinant, M*adj = det*I
	int64_t mi[16], adj[16], prod[16];
	for (int i = 0; i < 16; i++) mi[i] = m[i];
	int64_t d = ref_adj4<int64_t>(mi, adj);
	if (d != ref_det_leibniz<int64_t>(mi, 4)) { fprintf(stderr, "c20: reference determinant disagrees with Leibniz sum at %s\n", kb); _exit(2); }
	ref_mul<int64_t>(mi, adj, prod, 4);
	for (int i = 0; i < 16; i++) if (prod[i] != ((i % 5 == 0) ? d : 0)) { fprintf(stderr, "c20: reference adjugate fails M*adj = det*I at %s\n", kb); _exit(2); }
	bool corner = true; for (int i = 0; i < 16; i++) if (m[i] < 0) corner = false;
	if (corner) vf::add(C_CORNER);
	if (d == 0) vf::add(C_SING4); else vf::add(C_NONSING4);
	// --- det() over the integers (double is exact here)
	Matrix4_<double> Md = mk4<double>(m);
	double dd = Md.det();
	if (!(dd == (double)d)) rep.bad("det4", fmt("Matrix4d::det() = %.17g, determinant is %lld for M = %s", dd, (long long)d, mstr(m, 4).c_str()), kase);
	// --- inverse() with the quotient kept symbolic: adjugate and divisor as polynomials, at singular points too
	{
		Sym::reset();
		Matrix4_<Sym> Ms = mk4<Sym>(m);
		Matrix4_<Sym> Xs = Ms.inverse();
		int bi = 0, bj = 0, v = judge_symbolic(Xs, adj, d, 4, &bi, &bj);
		vf::add(v == 2 ? C_SYMUNSUP : C_SYMOK); if (v == 1) vf::add(C_SYMOTHER);
		if (v == 3 && bi < 0) rep.bad("inverse4_divisor", fmt("Matrix4::inverse() divides by 0, determinant is %lld for M = %s", (long long)d, mstr(m, 4).c_str()), kase);
		else if (v == 3) rep.bad("inverse4_cofactor", fmt("Matrix4::inverse() element (%d,%d) = %lld + %lld/%lld, exact inverse element is %lld/%lld for M = %s", bi, bj, (long long)Xs(bi, bj).p, (long long)Xs(bi, bj).q, (long long)Sym::div, (long long)adj[bi * 4 + bj], (long long)d, mstr(m, 4).c_str()), kase);
	}
	// --- det(A*B) = det(A) det(B) with asl's product (checked against the generic one)
	for (int b = 0; b < (T ? 3 : 1); b++) {
		int64_t bi[16], ab[16], badj[16];
		for (int i = 0; i < 16; i++) bi[i] = B4[b][i];
		int64_t db = ref_adj4<int64_t>(bi, badj);
		ref_mul<int64_t>(mi, bi, ab, 4);
		Matrix4_<double> P = Md * mk4<double>(B4[b]);
		bool same = true; for (int i = 0; i < 16; i++) if (!(P(i / 4, i % 4) == (double)ab[i])) same = false;
		if (!same) rep.bad("product4", fmt("Matrix4d product differs from the row-by-column product for A = %s, B = %s", mstr(m, 4).c_str(), mstr(B4[b], 4).c_str()), kase);
		double dp = P.det();
		vf::add(C_PAIRS4);
		if (!(dp == (double)(d * db))) rep.bad("det4_product", fmt("det(A*B) = %.17g but det(A)*det(B) = %lld * %lld for A = %s, B = %s", dp, (long long)d, (long long)db, mstr(m, 4).c_str(), mstr(B4[b], 4).c_str()), kase);
	}
	if (d == 0) return;
	vf::add(C_DISTINCT);
	// --- float / double instantiations: exact up to the scaling by 1/d; residual within c*eps*kappa
	vf::add(C_FLT4, 2);
	float_clause<double>(Md.inverse(), m, adj, d, 4, "Matrix4d", kase);
	float_clause<float>(mk4<float>(m).inverse(), m, adj, d, 4, "Matrix4", kase);
	if (scaled)
		for (int sg = -1; sg <= 1; sg += 2) {
			vf::add(W_SCALED4, 2);
			float_clause<double>(mk4s<double>(m, 40 * sg).inverse(), m, adj, d, 4, "Matrix4d", kase, 40 * sg);
			float_clause<float>(mk4s<float>(m, 20 * sg).inverse(), m, adj, d, 4, "Matrix4", kase, 20 * sg);
		}
}

static void check_m3(int rad, uint64_t idx) {
	int m[9]; decode(idx, 2 * rad + 1, rad, 9, m);
	char kb[40]; snprintf(kb, sizeof kb, "m3:%d:%llu", rad, (unsigned long long)idx);
	std::string kase(kb);
	vf::cur(kase);
	vf::add(C_EVAL);
	int64_t mi[9], adj[9], prod[9];
	for (int i = 0; i < 9; i++) mi[i] = m[i];
	int64_t d = ref_adj3<int64_t>(mi, adj);
	if (d != ref_det_leibniz<int64_t>(mi, 3)) { fprintf(stderr, "c20: reference 3x3 determinant disagrees with Leibniz sum at %s\n", kb); _exit(2); }
	ref_mul<int64_t>(mi, adj, prod, 3);
	for (int i = 0; i < 9; i++) if (prod[i] != ((i % 4 == 0) ? d : 0)) { fprintf(stderr, "c20: reference 3x3 adjugate fails M*adj = det*I at %s\n", kb); _exit(2); }
	if (d == 0) vf::add(C_SING3); else vf::add(C_NONSING3);
	Matrix3_<double> Md = mk3<double>(m);
	double dd = Md.det();
	if (!(dd == (double)d)) rep.bad("det3", fmt("Matrix3d::det() = %.17g, determinant is %lld for M = %s", dd, (long long)d, mstr(m, 3).c_str()), kase);
	{
		Sym::reset();
		Matrix3_<Sym> Xs = mk3<Sym>(m).inverse();
		int bi = 0, bj = 0, v = judge_symbolic(Xs, adj, d, 3, &bi, &bj);
		vf::add(v == 2 ? C_SYMUNSUP : C_SYMOK); if (v == 1) vf::add(C_SYMOTHER);
		if (v == 3 && bi < 0) rep.bad("inverse3_divisor", fmt("Matrix3::inverse() divides by 0, determinant is %lld for M = %s", (long long)d, mstr(m, 3).c_str()), kase);
		else if (v == 3) rep.bad("inverse3_cofactor", fmt("Matrix3::inverse() element (%d,%d) = %lld + %lld/%lld, exact inverse element is %lld/%lld for M = %s", bi, bj, (long long)Xs(bi, bj).p, (long long)Xs(bi, bj).q, (long long)Sym::div, (long long)adj[bi * 3 + bj], (long long)d, mstr(m, 3).c_str()), kase);
	}
	if (d == 0) return;
	vf::add(C_DISTINCT);
	vf::add(C_FLT3, 2);
	float_clause<double>(Md.inverse(), m, adj, d, 3, "Matrix3d", kase);
	float_clause<float>(mk3<float>(m).inverse(), m, adj, d, 3, "Matrix3", kase);
	for (int sg = -1; sg <= 1; sg += 2) {
		vf::add(W_SCALED3, 2);
		float_clause<double>(mk3s<double>(m, 40 * sg).inverse(), m, adj, d, 3, "Matrix3d", kase, 40 * sg);
		float_clause<float>(mk3s<float>(m, 20 * sg).inverse(), m, adj, d, 3, "Matrix3", kase, 20 * sg);
	}
}

// rigid and similarity transforms with non-integer entries. The matrix asl built (whatever its rounding) is the input: its exact
// inverse comes from the long-double adjugate of these very entries, the oracle is the same residual bound.
template <class T, class MT>
static void float_general(const MT& M, int n, const char* tname, const std::string& what, const std::string& kase) {
	const long double eps = std::numeric_limits<T>::epsilon();
	long double m[16], adj[16], d;
	for (int i = 0; i < n; i++) for (int j = 0; j < n; j++) m[i * n + j] = (long double)M(i, j);
	d = n == 4 ? ref_adj4<long double>(m, adj) : ref_adj3<long double>(m, adj);
	MT X = M.inverse();
	vf::add(C_EVAL);
	long double nm = 0, ni = 0, worst = 0;
	for (int i = 0; i < n; i++) {
		long double a = 0, b = 0;
		for (int j = 0; j < n; j++) { a += fabsl(m[i * n + j]); b += fabsl(adj[i * n + j] / d); }
		if (a > nm) nm = a;
		if (b > ni) ni = b;
	}
	long double kappa = nm * ni;
	for (int i = 0; i < n; i++)
		for (int j = 0; j < n; j++) {
			long double s = (i == j) ? -1.0L : 0.0L;
			for (int k = 0; k < n; k++) s += m[i * n + k] * (long double)X(k, j);
			if (fabsl(s) > worst || s != s) worst = (s != s) ? INFINITY : fabsl(s);
		}
	long double ratio = worst / (eps * kappa);
	if (!(ratio <= C_RESID))
		rep.bad(std::string("inverse_residual_") + tname, fmt("%s: max|M*inverse(M) - I| = %.3Lg = %.2Lf * eps * kappa (kappa_inf = %.3Lg) for M = %s", tname, worst, ratio, kappa, what.c_str()), kase);
	mx.see_lazy(n == 4 ? (sizeof(T) == 4 ? "resid_over_eps_kappa.rigid4f" : "resid_over_eps_kappa.rigid4d") : (sizeof(T) == 4 ? "resid_over_eps_kappa.rigid3f" : "resid_over_eps_kappa.rigid3d"), ratio, [&] { return kase; });
}
static const char* RORD[3] = { "XYZ", "ZXZ", "YZX*" };
// "rg4:<steps>:<ord>:<i>:<j>:<k>:<t>" — scale(2^s) * translate(t) * rotateE((i,j,k)*360/steps deg, order), t = all of {-2..2}^3 (index t),
// s in {0, -40, +40} (float {0, -20, +20})
template <class T>
static void check_rigid4(int steps, int ord, int i, int j, int k, int t) {
	std::string kase = fmt("rg4:%c:%d:%d:%d:%d:%d:%d", sizeof(T) == 4 ? 'f' : 'd', steps, ord, i, j, k, t);
	vf::cur(kase);
	const long double PIL = 3.14159265358979323846264338327950288L;
	Vec3_<T> e((T)(2 * PIL * i / steps), (T)(2 * PIL * j / steps), (T)(2 * PIL * k / steps));
	int tx = t / 25 - 2, ty = t / 5 % 5 - 2, tz = t % 5 - 2;
	Matrix4_<T> M = Matrix4_<T>::translate((T)tx, (T)ty, (T)tz) * Matrix4_<T>::rotateE(e, RORD[ord]);
	const char* tn = sizeof(T) == 4 ? "Matrix4" : "Matrix4d";
	std::string what = fmt("translate(%d,%d,%d) * rotateE((%d,%d,%d)*360/%d deg, \"%s\")", tx, ty, tz, i, j, k, steps, RORD[ord]);
	vf::add(W_RIGID4, 3); vf::add(C_DISTINCT);
	float_general<T>(M, 4, tn, what, kase);
	int sc = sizeof(T) == 4 ? 20 : 40;
	for (int sg = -1; sg <= 1; sg += 2) {
		Matrix4_<T> S = M; S *= (T)ldexp(1.0, sc * sg); // every element, the last row too: a general matrix at another scale
		float_general<T>(S, 4, tn, what + fmt(" * 2^%d", sc * sg), kase);
	}
}
// "rg3:<steps>:<i>:<t>" — 2D: translate(tx,ty) * rotate(i*360/steps deg) * scale(1, 3), all t in {-2..2}^2 (index t), the whole matrix
// also multiplied by 2^-40 and 2^+40 (float 2^-20, 2^+20)
template <class T>
static void check_rigid3(int steps, int i, int t) {
	std::string kase = fmt("rg3:%c:%d:%d:%d", sizeof(T) == 4 ? 'f' : 'd', steps, i, t);
	vf::cur(kase);
	const long double PIL = 3.14159265358979323846264338327950288L;
	int tx = t / 5 - 2, ty = t % 5 - 2;
	const char* tn = sizeof(T) == 4 ? "Matrix3" : "Matrix3d";
	int sc = sizeof(T) == 4 ? 20 : 40;
	for (int sg = -1; sg <= 1; sg++) {
		Matrix3_<T> M = Matrix3_<T>::translate((T)tx, (T)ty) * Matrix3_<T>::rotate((T)(2 * PIL * i / steps)) * Matrix3_<T>::scale((T)1, (T)3);
		M *= (T)ldexp(1.0, sc * sg);
		vf::add(W_RIGID3); if (!sg) vf::add(C_DISTINCT);
		float_general<T>(M, 3, tn, fmt("translate(%d,%d) * rotate(%d*360/%d deg) * scale(1, 3) * 2^%d", tx, ty, i, steps, sc * sg), kase);
	}
}

// det(A*B) = det(A)*det(B) for one A and all B of the {-1,0,1} grid; the product is the harness' generic one
static void check_m3_pairs(uint64_t ia) {
	int a[9]; decode(ia, 3, 1, 9, a);
	int64_t ai[9], adj[9]; for (int i = 0; i < 9; i++) ai[i] = a[i];
	int64_t da = ref_adj3<int64_t>(ai, adj);
	for (uint64_t ib = 0; ib < 19683; ib++) {
		int b[9]; decode(ib, 3, 1, 9, b);
		int64_t bi[9], ab[9]; for (int i = 0; i < 9; i++) bi[i] = b[i];
		int64_t db = ref_det_leibniz<int64_t>(bi, 3);
		ref_mul<int64_t>(ai, bi, ab, 3);
		int abi[9]; for (int i = 0; i < 9; i++) abi[i] = (int)ab[i];
		char kb[48]; snprintf(kb, sizeof kb, "m3p:%llu:%llu", (unsigned long long)ia, (unsigned long long)ib);
		vf::cur(kb);
		double dp = mk3<double>(abi).det();
		vf::add(C_EVAL); vf::add(C_PAIRS3);
		if (da * db == 0) vf::add(C_DETZERO_PROD);
		if (!(dp == (double)(da * db))) rep.bad("det3_product", fmt("det(A*B) = %.17g but det(A)*det(B) = %lld * %lld for A = %s, B = %s", dp, (long long)da, (long long)db, mstr(a, 3).c_str(), mstr(b, 3).c_str()), kb);
	}
}

// the same templates over GF(2^61-1) at fixed generic points: M*inverse(M) = I, det = reference, det(AB) = det(A)det(B)
static void check_fp(uint64_t n) {
	uint64_t s = 0xC20C20C20ULL + n * 0x100000001b3ULL;
	char kb[40]; snprintf(kb, sizeof kb, "fp:%llu", (unsigned long long)n);
	std::string kase(kb);
	vf::cur(kase);
	Fp a[16], b[16], adj[16], ab[16], t[16];
	for (int i = 0; i < 16; i++) { a[i] = Fp::raw(splitmix(s) % Fp::P); b[i] = Fp::raw(splitmix(s) % Fp::P); }
	if (n % 7 == 3) for (int j = 0; j < 4; j++) a[12 + j] = a[j] * Fp(3) - a[4 + j]; // a singular one now and then (det must be 0)
	Matrix4_<Fp> A(a), B(b);
	Fp d = ref_adj4<Fp>(a, adj), db = ref_adj4<Fp>(b, t);
	vf::add(C_EVAL); vf::add(C_FP4);
	if (A.det() != d) rep.bad("det4_fp", fmt("Matrix4_<GF(2^61-1)>::det() = %llu, determinant is %llu (generic point #%llu)", (unsigned long long)A.det().v, (unsigned long long)d.v, (unsigned long long)n), kase);
	ref_mul<Fp>(a, b, ab, 4);
	Matrix4_<Fp> AB = A * B;
	for (int i = 0; i < 16; i++) if (AB(i / 4, i % 4) != ab[i]) { rep.bad("product4_fp", fmt("Matrix4 product wrong at generic point #%llu", (unsigned long long)n), kase); break; }
	if (AB.det() != d * db) rep.bad("det4_product_fp", fmt("det(A*B) != det(A)*det(B) over GF(2^61-1) at generic point #%llu", (unsigned long long)n), kase);
	if (d.v == 0) { vf::add(C_FPSING); }
	else {
		vf::add(C_DISTINCT);
		Fp::divzero = 0;
		Matrix4_<Fp> X = A.inverse();
		Fp x[16]; for (int i = 0; i < 16; i++) x[i] = X(i / 4, i % 4);
		ref_mul<Fp>(a, x, t, 4);
		bool ok = Fp::divzero == 0;
		for (int i = 0; i < 16; i++) if (t[i] != Fp((i % 5 == 0) ? 1 : 0)) ok = false;
		if (!ok) rep.bad("inverse4_fp", fmt("M*inverse(M) != I over GF(2^61-1) at generic point #%llu (first row of M: %llu %llu %llu %llu)", (unsigned long long)n, (unsigned long long)a[0].v, (unsigned long long)a[1].v, (unsigned long long)a[2].v, (unsigned long long)a[3].v), kase);
	}
	// 3x3
	Fp a3[9], b3[9], adj3[9], ab3[9], t3[9];
	for (int i = 0; i < 9; i++) { a3[i] = a[i]; b3[i] = b[i]; }
	if (n % 7 == 5) for (int j = 0; j < 3; j++) a3[6 + j] = a3[j] + a3[3 + j];
	Matrix3_<Fp> A3(a3);
	Fp d3 = ref_adj3<Fp>(a3, adj3), db3 = ref_adj3<Fp>(b3, t3);
	vf::add(C_FP3);
	if (A3.det() != d3) rep.bad("det3_fp", fmt("Matrix3_<GF(2^61-1)>::det() wrong at generic point #%llu", (unsigned long long)n), kase);
	ref_mul<Fp>(a3, b3, ab3, 3);
	if (Matrix3_<Fp>(ab3).det() != d3 * db3) rep.bad("det3_product_fp", fmt("det(A*B) != det(A)*det(B) (3x3) over GF(2^61-1) at generic point #%llu", (unsigned long long)n), kase);
	if (d3.v != 0) {
		Fp::divzero = 0;
		Matrix3_<Fp> X = A3.inverse();
		Fp x[9]; for (int i = 0; i < 9; i++) x[i] = X(i / 3, i % 3);
		ref_mul<Fp>(a3, x, t3, 3);
		bool ok = Fp::divzero == 0;
		for (int i = 0; i < 9; i++) if (t3[i] != Fp((i % 4 == 0) ? 1 : 0)) ok = false;
		if (!ok) rep.bad("inverse3_fp", fmt("M*inverse(M) != I (3x3) over GF(2^61-1) at generic point #%llu", (unsigned long long)n), kase);
	} else vf::add(C_FPSING);
}

static void run_case(const std::string& k) {
	unsigned long long a = 0, b = 0; int r = 0;
	int s1 = 0, s2 = 0, s3 = 0, s4 = 0, s5 = 0, s6 = 0; char t = 0;
	if (sscanf(k.c_str(), "m4:%llu", &a) == 1) check_m4(a, true, true);
	else if (sscanf(k.c_str(), "rg4:%c:%d:%d:%d:%d:%d:%d", &t, &s1, &s2, &s3, &s4, &s5, &s6) == 7) { if (t == 'f') check_rigid4<float>(s1, s2, s3, s4, s5, s6); else check_rigid4<double>(s1, s2, s3, s4, s5, s6); }
	else if (sscanf(k.c_str(), "rg3:%c:%d:%d:%d", &t, &s1, &s2, &s3) == 4) { if (t == 'f') check_rigid3<float>(s1, s2, s3); else check_rigid3<double>(s1, s2, s3); }
	else if (sscanf(k.c_str(), "m3:%d:%llu", &r, &a) == 2) check_m3(r, a);
	else if (sscanf(k.c_str(), "m3p:%llu:%llu", &a, &b) == 2) check_m3_pairs(a);
	else if (sscanf(k.c_str(), "fp:%llu", &a) == 1) check_fp(a);
	mx.flush();
}

int main(int argc, char** argv) {
	vf::init(argc, argv, "C20", "c20_matrix");
	C_EVAL = vf::counter("evaluations"); C_DISTINCT = vf::counter("distinct_nontrivial");
	C_NONSING4 = vf::counter("w.m4_nonsingular"); C_SING4 = vf::counter("w.m4_singular_adjugate_still_observed"); C_CORNER = vf::counter("w.m4_corners_01");
	C_NONSING3 = vf::counter("w.m3_nonsingular"); C_SING3 = vf::counter("w.m3_singular_adjugate_still_observed");
	C_SYMOK = vf::counter("w.symbolic_quotient_observed"); C_SYMUNSUP = vf::counter("symbolic_quotient_unsupported");
	C_PAIRS3 = vf::counter("w.m3_det_product_pairs"); C_PAIRS4 = vf::counter("w.m4_det_product_pairs"); C_DETZERO_PROD = vf::counter("w.m3_det_product_zero");
	C_FP4 = vf::counter("w.fp_points_4x4"); C_FP3 = vf::counter("w.fp_points_3x3"); C_FPSING = vf::counter("w.fp_singular_points");
	C_FLT4 = vf::counter("w.m4_float_double_inverses"); C_FLT3 = vf::counter("w.m3_float_double_inverses");
	C_SYMOTHER = vf::counter("symbolic_quotient_other_shape_same_value");
	W_SCALED4 = vf::counter("w.m4_scaled_float_double_inverses"); W_SCALED3 = vf::counter("w.m3_scaled_float_double_inverses");
	W_RIGID4 = vf::counter("w.m4_rigid_transform_inverses"); W_RIGID3 = vf::counter("w.m3_similarity_transform_inverses");
	rep.c_supp = vf::counter("violations_not_listed_repeats");
	if (vf::opt.replay) { vf::parallel(1, [&](uint64_t) { run_case(vf::opt.kase); }); return vf::finish(); }
	bool T = vf::opt.thorough();

	// (a) all 3^16 matrices over {-1,0,1}: blocks of 3^8 consecutive indices
	bool capped = false;
	Sections sec;
	vf::parallel(6561, [&](uint64_t blk) {
		if (vf::deadline_passed()) { if (!capped) { capped = true; vf::cap_hit("deadline inside the 3^16 grid"); } return; }
		// scaled copies (2^-40, 2^+40; float 2^-20, 2^+20) of the float/double inverses: quick on the complete sub-grid of affine matrices
		// (last row 0 0 0 1 = last four base-3 digits 1 1 1 2 = index 41 mod 81: 3^12 matrices), thorough on all of them
		for (uint64_t i = blk * 6561; i < (blk + 1) * 6561; i++) check_m4(i, T, T || i % 81 == 41);
		mx.flush(); mx.m.clear();
	}, 8);
	sec.done("grid_4x4");
	// (b) all 3x3 matrices over {-1,0,1} and over {-2..2}
	vf::parallel(243, [&](uint64_t blk) { for (uint64_t i = blk * 81; i < (blk + 1) * 81; i++) check_m3(1, i); mx.flush(); mx.m.clear(); });
	vf::parallel(3125, [&](uint64_t blk) { for (uint64_t i = blk * 625; i < (blk + 1) * 625; i++) check_m3(2, i); mx.flush(); mx.m.clear(); }, 4);
	sec.done("grids_3x3");
	// (b2) rigid transforms translate(t) * rotateE(grid) for all t in {-2..2}^3 and 2D similarity transforms, at three scales each
	{
		int rs = T ? 24 : 12;
		vf::parallel((uint64_t)3 * rs * rs, [&](uint64_t it) {
			int ord = (int)(it / (rs * rs)), i = (int)(it / rs % rs), j = (int)(it % rs);
			for (int k = 0; k < rs; k++) for (int t = 0; t < 125; t++) { check_rigid4<double>(rs, ord, i, j, k, t); check_rigid4<float>(rs, ord, i, j, k, t); }
			mx.flush(); mx.m.clear();
		}, 4);
		int r3 = T ? 360 : 96;
		vf::parallel(r3, [&](uint64_t i) { for (int t = 0; t < 25; t++) { check_rigid3<double>(r3, (int)i, t); check_rigid3<float>(r3, (int)i, t); } mx.flush(); mx.m.clear(); }, 8);
	}
	sec.done("rigid_transforms");
	// (c) det(AB) = det(A) det(B) for ALL pairs of 3x3 matrices over {-1,0,1} (3^18)
	vf::parallel(19683, [&](uint64_t ia) { if (vf::deadline_passed()) { if (!capped) { capped = true; vf::cap_hit("deadline inside the 3x3 pair grid"); } return; } check_m3_pairs(ia); }, 16);
	sec.done("pairs_3x3");
	// (d) GF(2^61-1), fixed generic points (closes the "degree > 2 in one variable" gap of the grid argument)
	uint64_t nfp = T ? 4000000 : 400000;
	vf::parallel(nfp / 1000, [&](uint64_t blk) { for (uint64_t i = blk * 1000; i < (blk + 1) * 1000; i++) check_fp(i); }, 4);

	sec.done("gf_points");
	if (vf::get(C_SYMUNSUP)) vf::cap_hit(fmt("inverse() no longer has the form (numerators) * (one quotient) with adjugate and determinant at %llu grid points: there the exact clause is not observed symbolically (it rests on the GF(2^61-1) points and the float/double residuals)", (unsigned long long)vf::get(C_SYMUNSUP)));
	mx.collect(); mx.publish();
	vf::setinfo("grid_4x4", fmt("\"all %llu matrices over {-1,0,1}\"", (unsigned long long)N4));
	vf::setinfo("residual_bound", fmt("\"max|M*inverse(M)-I| <= %.0f * eps * kappa_inf\"", C_RESID));
	vf::sample("m4:21523360 = all-zero matrix ... m4:43046720 = all-one matrix: Matrix4_<Sym>::inverse() gives adjugate and divisor exactly, Matrix4d::det(), det(A*B4[k]); float/double inverse residual when det != 0");
	vf::sample("rg4:d:12:0:1:2:3:37 = Matrix4d translate(-1,0,0) * rotateE((30,60,90) deg, \"XYZ\") and the same matrix times 2^-40 / 2^+40: max|M*inverse(M)-I| <= 8 eps kappa with the exact inverse from the long-double adjugate");
	vf::sample("m3:2:<idx> = 3x3 over {-2..2}; m3p:<ia>:<ib> = det(A*B) for a pair over {-1,0,1}; fp:<n> = n-th fixed point of GF(2^61-1)^(4x4)");
	return vf::finish();
}
