// C11 — WebSocket framing: the real WebSocket::receive()/send() run over scripted in-memory connections (vnet) against an
// independent RFC 6455 framer/deframer; every payload length, mask pattern, fragmentation with interleaved pings, every
// 2-byte header x extended length with every cut; and the client/server handshake under all interleavings (vsched).
#include <asl/WebSocket.h>
#include <asl/Socket.h>
#include <asl/Thread.h>
#include <set>
#include "vf.h"
#include "aslx.h"
#include "vsched.h"
#include "vnet.h"
using namespace asl;
using vf::fmt;

static int W_BADALLOC, C_EVAL, C_DIST, C_EXEC, C_POINTS, W_LEN16, W_LEN64, W_MASKED, W_FRAG, W_PING_BETWEEN, W_HOSTILE_CLOSED, W_HOSTILE_MSG, W_NEG64, W_HANDSHAKE, W_PREEMPT;
static std::string g_case;
static void onFatal(const char* what, const std::string& schedule) {
	std::string w = what;
	if (w == "DIVERGED") { fprintf(stderr, "HARNESS ERROR: diverged %s\n", g_case.c_str()); _exit(2); }
	vf::violation(w == "STEP_LIMIT" ? "no_termination" : w == "DEADLOCK" ? "deadlock" : "livelock", std::string(what) + " in " + g_case + (schedule.size() < 400 ? " schedule " + schedule : ""), g_case);
	vf::restart_worker();
}

// ---------------------------------------------------------------- reference RFC 6455 framer / deframer
struct Frame { bool fin; int opcode; bool masked; unsigned char key[4]; std::string payload; int lenMode; }; // lenMode 0 canonical, 1 force 16-bit, 2 force 64-bit
static std::string frameBytes(const Frame& f, uint64_t overrideLen = 0, bool useOverride = false) {
	std::string s;
	s += (char)((f.fin ? 0x80 : 0) | (f.opcode & 0x0f));
	uint64_t n = useOverride ? overrideLen : f.payload.size();
	int mode = f.lenMode; if (mode == 0) mode = n < 126 ? 0 : n < 65536 ? 1 : 2;
	if (mode == 0) s += (char)((f.masked ? 0x80 : 0) | (unsigned)n);
	else if (mode == 1) { s += (char)((f.masked ? 0x80 : 0) | 126); s += (char)(n >> 8); s += (char)n; }
	else { s += (char)((f.masked ? 0x80 : 0) | 127); for (int i = 7; i >= 0; i--) s += (char)(n >> (8 * i)); }
	if (f.masked) s.append((const char*)f.key, 4);
	for (size_t i = 0; i < f.payload.size(); i++) s += f.masked ? (char)(f.payload[i] ^ f.key[i & 3]) : f.payload[i];
	return s;
}
// parses one frame from the start of s; returns bytes consumed or 0 if malformed/incomplete
static size_t parseFrame(const std::string& s, Frame& f, bool* canonical) {
	if (s.size() < 2) return 0;
	f.fin = (s[0] & 0x80) != 0; f.opcode = s[0] & 0x0f; f.masked = (s[1] & 0x80) != 0;
	uint64_t n = s[1] & 0x7f; size_t p = 2; *canonical = true;
	if (n == 126) { if (s.size() < 4) return 0; n = ((unsigned char)s[2] << 8) | (unsigned char)s[3]; p = 4; if (n < 126) *canonical = false; }
	else if (n == 127) { if (s.size() < 10) return 0; n = 0; for (int i = 0; i < 8; i++) n = (n << 8) | (unsigned char)s[2 + i]; p = 10; if (n < 65536) *canonical = false; }
	if (f.masked) { if (s.size() < p + 4) return 0; memcpy(f.key, s.data() + p, 4); p += 4; }
	if (s.size() < p + n) return 0;
	f.payload.assign(s.data() + p, n);
	if (f.masked) for (size_t i = 0; i < n; i++) f.payload[i] ^= f.key[i & 3];
	return p + n;
}
static std::string pattern(size_t n, int seed) { std::string s(n, 0); unsigned x = 2463534242u + seed * 77; for (size_t i = 0; i < n; i++) { x ^= x << 13; x ^= x >> 17; x ^= x << 5; s[i] = (char)(x >> 8); } if (n) s[0] = (char)(0x41 + seed); return s; }

// ---------------------------------------------------------------- receive side
struct RecvOut { std::vector<std::string> msgs; int emptyReturns; bool negLen; std::string asan; int closedAtEnd; std::string written; };
static RecvOut runReceive(const std::vector<std::string>& chunks, bool asClient, int maxCalls, int readMax) {
	RecvOut o; o.emptyReturns = 0; o.negLen = false; o.closedAtEnd = 0;
	auto body = [&]() {
		vf::asan_clear();
		vnet::reset(); vnet::enable(true); vnet::set_limits(readMax, 0);
		int fd = vnet::scripted(chunks);
		{
			Socket s(fd);
			WebSocket ws(s, asClient);
			ws._random.seed(12345);
			for (int i = 0; i < maxCalls; i++) {
				if (ws.closed()) break;
				try {
					WebSocketMsg m = ws.receive();
					if (m.length() < 0) o.negLen = true;
					if (m.length() > 0) { ByteArray b = m; o.msgs.push_back(std::string((const char*)b.data(), b.length())); } else o.emptyReturns++;
				} catch (std::bad_alloc&) { vf::add(W_BADALLOC); break; } // an announced length that cannot be allocated is resource exhaustion, not a memory error
			}
			o.closedAtEnd = ws.closed();
		}
		o.written = vnet::written(fd);
		vnet::enable(false);
		if (vf::asan_tripped()) o.asan = vf::asan_what();
	};
	vsched::states_reset();
	vsched::Result x = vsched::run_once(std::vector<uint8_t>(), body, 400000);
	vf::add(C_EXEC); vf::add(C_POINTS, x.points.size()); { static int cst = vf::counter("states"); vf::add(cst, vsched::states_count()); }
	return o;
}
static void expectMsgs(const RecvOut& o, const std::vector<std::string>& exp, const std::string& kase, const std::string& what) {
	if (!o.asan.empty()) vf::violation("asan", "ASan " + o.asan + " in receive(): " + what, kase);
	if (o.negLen) vf::violation("negative_length", "receive() returned a message of negative length: " + what, kase);
	if (o.msgs.size() != exp.size()) { vf::violation("message_count", fmt("%d message(s) received instead of %d: ", (int)o.msgs.size(), (int)exp.size()) + what + (o.msgs.empty() ? "" : fmt(" (first has %d bytes)", (int)o.msgs[0].size())), kase); return; }
	for (size_t i = 0; i < exp.size(); i++) if (o.msgs[i] != exp[i]) { size_t d = 0; while (d < exp[i].size() && d < o.msgs[i].size() && exp[i][d] == o.msgs[i][d]) d++; vf::violation("message_bytes", fmt("message %d differs (length %d vs %d, first difference at byte %d): ", (int)i + 1, (int)o.msgs[i].size(), (int)exp[i].size(), (int)d) + what, kase); return; }
}
static Frame mkFrame(bool fin, int op, bool masked, const std::string& payload, unsigned key = 0x37fa213d, int lenMode = 0) { Frame f; f.fin = fin; f.opcode = op; f.masked = masked; f.payload = payload; f.lenMode = lenMode; f.key[0] = key >> 24; f.key[1] = key >> 16; f.key[2] = key >> 8; f.key[3] = key; return f; }

static void lenCase(int len, int variant, const std::string& kase) {
	g_case = kase; vf::cur(kase); vf::add(C_EVAL); vf::add(C_DIST);
	bool masked = variant & 1; int delivery = variant >> 1; // 0 whole, 1 two chunks (header | rest), 2 read(1)-limited for short ones
	std::string p = pattern(len, len % 7);
	Frame f = mkFrame(true, 2, masked, p, 0x00ff8001u + len);
	std::string bytes = frameBytes(f) + frameBytes(mkFrame(true, 1, masked, "END"));
	if (len >= 126 && len < 65536) vf::add(W_LEN16); if (len >= 65536) vf::add(W_LEN64); if (masked) vf::add(W_MASKED);
	std::vector<std::string> ch;
	if (delivery == 1) { size_t cut = std::min<size_t>(bytes.size(), 3 + (len % 11)); ch.push_back(bytes.substr(0, cut)); ch.push_back(bytes.substr(cut)); } else ch.push_back(bytes);
	RecvOut o = runReceive(ch, !masked, 3, delivery == 2 ? 1 : 0);
	std::vector<std::string> exp; exp.push_back(p); exp.push_back("END");
	expectMsgs(o, exp, kase, fmt("binary frame with %d-byte payload, %s, delivery %d", len, masked ? "masked" : "unmasked", delivery));
}
static void maskCase(int len, int m, const std::string& kase) {
	g_case = kase; vf::cur(kase); vf::add(C_EVAL); vf::add(C_DIST); vf::add(W_MASKED);
	static const unsigned char mv[] = { 0x00, 0x01, 0x80, 0xff };
	unsigned key = (mv[m & 3] << 24) | (mv[(m >> 2) & 3] << 16) | (mv[(m >> 4) & 3] << 8) | mv[(m >> 6) & 3];
	std::string p = pattern(len, m);
	std::vector<std::string> ch(1, frameBytes(mkFrame(true, 1, true, p, key)));
	RecvOut o = runReceive(ch, false, 2, 0);
	expectMsgs(o, std::vector<std::string>(1, p), kase, fmt("text frame, %d bytes, mask key %08x", len, key));
}
// message of length n split into k frames at given cut positions, with a ping inserted before frame index pingAt (-1 none)
static void fragCase(int n, int cuts, int pingAt, bool masked, const std::string& kase) {
	g_case = kase; vf::cur(kase); vf::add(C_EVAL); vf::add(C_DIST); vf::add(W_FRAG);
	std::string p = pattern(n, 3);
	// cuts: base-(n+1) digits c1<=c2<=c3 (up to 3 cut points => up to 4 frames, zero-length fragments allowed)
	int c[3]; int x = cuts; for (int i = 0; i < 3; i++) { c[i] = x % (n + 1); x /= (n + 1); }
	if (!(c[0] <= c[1] && c[1] <= c[2])) return;
	std::vector<std::string> parts; int prev = 0; for (int i = 0; i < 3; i++) { parts.push_back(p.substr(prev, c[i] - prev)); prev = c[i]; } parts.push_back(p.substr(prev));
	std::string bytes;
	for (size_t i = 0; i < parts.size(); i++) {
		if ((int)i == pingAt) { bytes += frameBytes(mkFrame(true, 9, masked, "pi")); if (i > 0) vf::add(W_PING_BETWEEN); }
		bytes += frameBytes(mkFrame(i + 1 == parts.size(), i == 0 ? 2 : 0, masked, parts[i]));
	}
	if (pingAt == (int)parts.size()) bytes += frameBytes(mkFrame(true, 9, masked, "pi"));
	bytes += frameBytes(mkFrame(true, 1, masked, "END"));
	RecvOut o = runReceive(std::vector<std::string>(1, bytes), !masked, 8, 0);
	std::vector<std::string> exp; exp.push_back(p); exp.push_back("END");
	expectMsgs(o, exp, kase, fmt("%d-byte message in fragments %d|%d|%d|%d, ping before fragment %d", n, (int)parts[0].size(), (int)parts[1].size(), (int)parts[2].size(), (int)parts[3].size(), pingAt));
	// every ping must be answered by a pong with the same payload
	if (pingAt >= 0 && o.asan.empty()) { Frame pf; bool canon; if (!parseFrame(o.written, pf, &canon) || pf.opcode != 10 || pf.payload != "pi") vf::violation("pong", "ping not answered by a pong carrying its payload: " + kase, kase); }
}
// hostile input: 2-byte header, extended length field, optional mask and a few payload bytes, then end of stream at `cut`
static void hostileCase(int b0, int b1, int ext, int cut, int delivery, const std::string& kase) {
	g_case = kase; vf::cur(kase); vf::add(C_EVAL); vf::add(C_DIST);
	static const uint64_t exts[] = { 0, 125, 126, 65535, 65536, 0x7fffffffULL, 0x80000000ULL, 0xffffffffULL, 0x100000000ULL, 0x8000000000000000ULL, 0xffffffffffffffffULL, 5 };
	std::string s; s += (char)b0; s += (char)b1;
	int l7 = b1 & 0x7f; uint64_t e = exts[ext];
	if (l7 == 126) { s += (char)(e >> 8); s += (char)e; } else if (l7 == 127) { for (int i = 7; i >= 0; i--) s += (char)(e >> (8 * i)); if ((e & 0x80000000ULL) && e < 0x100000000ULL) vf::add(W_NEG64); }
	if (b1 & 0x80) s += "\x11\x22\x33\x44";
	s += "payload-bytes";
	if (cut < (int)s.size()) s.resize(cut);
	std::vector<std::string> ch;
	if (delivery == 0) ch.push_back(s); else for (size_t i = 0; i < s.size(); i++) ch.push_back(s.substr(i, 1));
	RecvOut o = runReceive(ch, false, 3, 0);
	if (!o.asan.empty()) vf::violation("asan", fmt("ASan %s in receive() on hostile frame %s", o.asan.c_str(), vf::hex(s).c_str()), kase);
	if (o.negLen) vf::violation("negative_length", "receive() returned a message of negative length on hostile frame " + vf::hex(s), kase);
	if (o.msgs.empty()) vf::add(W_HOSTILE_CLOSED); else vf::add(W_HOSTILE_MSG);
}
// send side: output of the real send() parsed by the reference deframer
static void sendCase(int len, bool asClient, int type, const std::string& kase) {
	g_case = kase; vf::cur(kase); vf::add(C_EVAL); vf::add(C_DIST);
	std::string p = pattern(len, 5), written, asan;
	auto body = [&]() {
		vf::asan_clear(); vnet::reset(); vnet::enable(true); vnet::set_limits(0, (len % 3 == 0) ? 7 : 0);
		std::vector<std::string> none(1, std::string(1, 'x')); // keep the connection open (one unread byte) so that closed() is false
		int fd = vnet::scripted(none);
		{ Socket s(fd); WebSocket ws(s, asClient); ws._random.seed(777 + len);
		  if (type == 0) ws.send(ByteArray((const byte*)p.data(), (int)p.size())); else ws.send((const byte*)p.data(), (int)p.size(), WebSocket::FRAME_TEXT); }
		written = vnet::written(fd); vnet::enable(false);
		if (vf::asan_tripped()) asan = vf::asan_what();
	};
	vsched::Result x = vsched::run_once(std::vector<uint8_t>(), body, 400000);
	vf::add(C_EXEC); vf::add(C_POINTS, x.points.size());
	std::string what = fmt("send() of %d bytes as %s", len, asClient ? "client" : "server");
	if (!asan.empty()) vf::violation("asan", "ASan " + asan + " in " + what, kase);
	Frame f; bool canon = false; size_t used = parseFrame(written, f, &canon);
	if (!used || used != written.size()) { vf::violation("send_framing", what + fmt(": output of %d bytes is not exactly one well-formed frame", (int)written.size()), kase); return; }
	if (f.payload != p) vf::violation("send_payload", what + ": payload after unmasking differs", kase);
	if (!f.fin || f.opcode != (type == 0 ? 2 : 1) || f.masked != asClient || !canon) vf::violation("send_header", what + fmt(": fin %d opcode %d masked %d canonical-length %d", (int)f.fin, f.opcode, (int)f.masked, (int)canon), kase);
}

// ---------------------------------------------------------------- handshake + echo under all interleavings
static std::string sha1b64(const std::string& in); // reference, below
struct EchoServer : public WebSocketServer { std::vector<std::string> seen; void serve(WebSocket& ws) { for (int i = 0; i < 3 && !ws.closed(); i++) { WebSocketMsg m = ws.receive(); if (m.length() > 0) { ByteArray b = m; seen.push_back(std::string((const char*)b.data(), b.length())); ws.send(ByteArray(b)); } } } };
struct Acceptor : public Thread {
	EchoServer* srv; Socket* lst; int served;
	void run() { Socket c = lst->accept(); if (c.handle() >= 0) { ((SocketServer*)srv)->serve(c); served++; } }
};
static void handshakeJob(int bound, int payloadLen, const std::string* replay) {
	std::string kase = fmt("handshake:%d:%d", bound, payloadLen); g_case = kase; vf::cur(kase);
	std::string verdict;
	auto body = [&]() {
		vf::asan_clear(); vnet::reset(8 + payloadLen); vnet::enable(true); vnet::set_limits(0, 0);
		verdict.clear();
		{
			EchoServer srv; Socket lst; lst.bind("127.0.0.1", 9000); lst.listen(2);
			Acceptor acc; acc.srv = &srv; acc.lst = &lst; acc.served = 0; acc.start();
			std::string reply; bool ok; std::string p = pattern(payloadLen, 9);
			{
				WebSocket ws; ws._random.seed(4242);
				ok = ws.connect("127.0.0.1", 9000);
				if (ok) { ws.send(ByteArray((const byte*)p.data(), (int)p.size())); WebSocketMsg m = ws.receive(); ByteArray b = m; reply.assign((const char*)b.data(), b.length()); ws.close(); }
			}
			acc.join();
			if (!ok) verdict += "client connect() failed; ";
			else { if (srv.seen.size() != 1 || srv.seen[0] != p) verdict += "server did not receive the client's message exactly once; "; if (reply != p) verdict += fmt("client received %d bytes instead of its %d-byte echo; ", (int)reply.size(), payloadLen); }
			lst.close();
		}
		if (vnet::misuse()) verdict += fmt("%d operation(s) on closed descriptors; ", vnet::misuse());
		vnet::enable(false);
		if (vf::asan_tripped()) verdict += "ASan " + vf::asan_what() + "; ";
	};
	auto after = [&](const vsched::Result& x) { vf::add(C_EXEC); vf::add(C_POINTS, x.points.size()); vf::add(W_HANDSHAKE); if (x.preemptions) vf::add(W_PREEMPT); if (!verdict.empty()) vf::violation("handshake", verdict + "schedule " + x.trace(), kase + "|" + x.trace()); };
	vsched::set_early_timeouts(false); // a handshake that fails because a read timed out on a slow peer is not a framing error
	if (replay) { vsched::Result x = vsched::run_once(vsched::parse_schedule(*replay), body, 100000); after(x); vsched::set_early_timeouts(true); return; }
	vsched::ExploreStats st = vsched::explore(body, after, bound, 0, 100000);
	{ static int cst = vf::counter("states"); vf::add(cst, st.distinct_states); }
	vsched::set_early_timeouts(true);
}
// accept key on the wire: a scripted client request with a known key; the server's 101 response must carry the RFC 6455 accept value
static void acceptKeyCase(int k, const std::string& kase) {
	g_case = kase; vf::cur(kase); vf::add(C_EVAL); vf::add(C_DIST);
	std::string key = k == 0 ? "dGhlIHNhbXBsZSBub25jZQ==" : vf::fmt("%016dAAAAAA==", k * 7919);
	std::string req = "GET /chat HTTP/1.1\r\nHost: h\r\nUpgrade: websocket\r\nConnection: Upgrade\r\nSec-WebSocket-Key: " + key + "\r\nSec-WebSocket-Version: 13\r\n\r\n";
	std::string written, asan;
	auto body = [&]() { vf::asan_clear(); vnet::reset(); vnet::enable(true); int fd = vnet::scripted(std::vector<std::string>(1, req)); { EchoServer srv; Socket c(fd); ((SocketServer&)srv).serve(c); } written = vnet::written(fd); vnet::enable(false); if (vf::asan_tripped()) asan = vf::asan_what(); };
	vsched::Result x = vsched::run_once(std::vector<uint8_t>(), body, 100000); vf::add(C_EXEC); vf::add(C_POINTS, x.points.size());
	std::string want = "Sec-WebSocket-Accept: " + sha1b64(key + "258EAFA5-E914-47DA-95CA-C5AB0DC85B11") + "\r\n";
	if (!asan.empty()) vf::violation("asan", "ASan " + asan + " in server handshake", kase);
	if (written.find("HTTP/1.1 101") != 0 || written.find(want) == std::string::npos) vf::violation("accept_key", "server handshake response for key " + key + " does not carry '" + want.substr(0, want.size() - 2) + "': " + vf::hex(written.substr(0, 200)), kase);
}

// ---- reference SHA-1 + base64 (std only; RFC 6455 sample vector asserted at start-up)
static std::string sha1b64(const std::string& in) {
	uint32_t h[5] = { 0x67452301, 0xEFCDAB89, 0x98BADCFE, 0x10325476, 0xC3D2E1F0 };
	std::string m = in; uint64_t bits = (uint64_t)in.size() * 8; m += (char)0x80; while (m.size() % 64 != 56) m += (char)0; for (int i = 7; i >= 0; i--) m += (char)(bits >> (8 * i));
	for (size_t o = 0; o < m.size(); o += 64) {
		uint32_t w[80]; for (int i = 0; i < 16; i++) w[i] = ((unsigned char)m[o + 4 * i] << 24) | ((unsigned char)m[o + 4 * i + 1] << 16) | ((unsigned char)m[o + 4 * i + 2] << 8) | (unsigned char)m[o + 4 * i + 3];
		for (int i = 16; i < 80; i++) { uint32_t t = w[i - 3] ^ w[i - 8] ^ w[i - 14] ^ w[i - 16]; w[i] = (t << 1) | (t >> 31); }
		uint32_t a = h[0], b = h[1], c = h[2], d = h[3], e = h[4];
		for (int i = 0; i < 80; i++) { uint32_t f, k; if (i < 20) { f = (b & c) | (~b & d); k = 0x5A827999; } else if (i < 40) { f = b ^ c ^ d; k = 0x6ED9EBA1; } else if (i < 60) { f = (b & c) | (b & d) | (c & d); k = 0x8F1BBCDC; } else { f = b ^ c ^ d; k = 0xCA62C1D6; } uint32_t t = ((a << 5) | (a >> 27)) + f + e + k + w[i]; e = d; d = c; c = (b << 30) | (b >> 2); b = a; a = t; }
		h[0] += a; h[1] += b; h[2] += c; h[3] += d; h[4] += e;
	}
	unsigned char dg[21]; for (int i = 0; i < 5; i++) { dg[4 * i] = h[i] >> 24; dg[4 * i + 1] = h[i] >> 16; dg[4 * i + 2] = h[i] >> 8; dg[4 * i + 3] = h[i]; } dg[20] = 0;
	static const char* A = "ABCDEFGHIJKLMNOPQRSTUVWXYZabcdefghijklmnopqrstuvwxyz0123456789+/"; std::string out;
	for (int i = 0; i < 18; i += 3) { unsigned v = (dg[i] << 16) | (dg[i + 1] << 8) | dg[i + 2]; out += A[v >> 18]; out += A[(v >> 12) & 63]; out += A[(v >> 6) & 63]; out += A[v & 63]; }
	{ unsigned v = (dg[18] << 16) | (dg[19] << 8); out += A[v >> 18]; out += A[(v >> 12) & 63]; out += A[(v >> 6) & 63]; out += '='; }
	return out;
}

static void run_case(const std::string& k) {
	int a, b, c, d, e;
	if (sscanf(k.c_str(), "len:%d:%d", &a, &b) == 2) lenCase(a, b, k);
	else if (sscanf(k.c_str(), "mask:%d:%d", &a, &b) == 2) maskCase(a, b, k);
	else if (sscanf(k.c_str(), "frag:%d:%d:%d:%d", &a, &b, &c, &d) == 4) fragCase(a, b, c, d != 0, k);
	else if (sscanf(k.c_str(), "host:%d:%d:%d:%d:%d", &a, &b, &c, &d, &e) == 5) hostileCase(a, b, c, d, e, k);
	else if (sscanf(k.c_str(), "send:%d:%d:%d", &a, &b, &c) == 3) sendCase(a, b != 0, c, k);
	else if (sscanf(k.c_str(), "akey:%d", &a) == 1) acceptKeyCase(a, k);
	else if (sscanf(k.c_str(), "handshake:%d:%d", &a, &b) == 2) { std::string sched; size_t bar = k.find('|'); if (bar != std::string::npos) sched = k.substr(bar + 1); handshakeJob(a, b, bar == std::string::npos ? 0 : &sched); }
}

int main(int argc, char** argv) {
	vf::init(argc, argv, "C11", "s_c11_ws");
	C_EVAL = vf::counter("evaluations"); C_DIST = vf::counter("distinct_nontrivial"); C_EXEC = vf::counter("traces"); C_POINTS = vf::counter("transitions"); vf::counter("states");
	W_BADALLOC = vf::counter("w.absurd_lengths_refused_by_allocator"); W_LEN16 = vf::counter("w.frames_with_16bit_length"); W_LEN64 = vf::counter("w.frames_with_64bit_length"); W_MASKED = vf::counter("w.masked_frames"); W_FRAG = vf::counter("w.fragmented_messages"); W_PING_BETWEEN = vf::counter("w.ping_between_fragments");
	W_HOSTILE_CLOSED = vf::counter("w.hostile_inputs_without_message"); W_HOSTILE_MSG = vf::counter("w.hostile_inputs_yielding_a_message"); W_NEG64 = vf::counter("w.length_fields_with_bit31_set"); W_HANDSHAKE = vf::counter("w.handshake_executions"); W_PREEMPT = vf::counter("w.executions_with_preemption");
	vsched::set_fatal_handler(onFatal);
	vsched::set_state_probe(vnet::state_hash);
	if (sha1b64("dGhlIHNhbXBsZSBub25jZQ==258EAFA5-E914-47DA-95CA-C5AB0DC85B11") != "s3pPLMBiTxaQ9kYGzzhZRbK+xOo=") { fprintf(stderr, "HARNESS ERROR: reference SHA-1/base64 fails the RFC 6455 vector\n"); return 2; }
	if (vf::opt.replay) { vf::parallel(1, [&](uint64_t) { run_case(vf::opt.kase); }); return vf::finish(); }
	bool T = vf::opt.thorough();
	// (1) payload lengths
	std::vector<int> lens;
	if (T) for (int n = 1; n <= 70000; n++) lens.push_back(n);
	else { for (int n = 1; n <= 3000; n++) lens.push_back(n); for (int n = 65000; n <= 66100; n++) lens.push_back(n); lens.push_back(16000); lens.push_back(16001); lens.push_back(32768); lens.push_back(70000); }
	vf::parallel(lens.size(), [&](uint64_t i) { int nv = lens[i] <= 300 ? 6 : 4; for (int v = 0; v < nv; v++) run_case(fmt("len:%d:%d", lens[i], v)); }, 8);
	// (2) masks
	vf::parallel(256, [&](uint64_t m) { for (int len = 1; len <= 9; len++) run_case(fmt("mask:%d:%d", len, (int)m)); });
	// (3) fragmentation with pings
	for (int n = 1; n <= (T ? 6 : 5); n++) { int nc = (n + 1) * (n + 1) * (n + 1); vf::parallel(nc, [&](uint64_t cuts) { for (int ping = -1; ping <= 4; ping++) for (int mk = 0; mk < 2; mk++) run_case(fmt("frag:%d:%d:%d:%d", n, (int)cuts, ping, mk)); }, 4); }
	// (4) hostile headers: every first byte x second bytes around the length encodings x extended lengths x every cut
	{
		std::vector<int> b1s; for (int i = 0; i < 256; i++) b1s.push_back(i);
		vf::parallel(256 * b1s.size(), [&](uint64_t i) {
			int b0 = (int)(i % 256), b1 = b1s[i / 256]; int l7 = b1 & 0x7f; int next = l7 == 126 ? 5 : l7 == 127 ? 12 : 1; int hdr = 2 + (l7 == 126 ? 2 : l7 == 127 ? 8 : 0) + ((b1 & 0x80) ? 4 : 0);
			for (int e = 0; e < next; e++) { int ext = l7 == 126 ? (e == 4 ? 11 : e) : e; for (int cut = 0; cut <= hdr + 13; cut += (cut < hdr + 2 ? 1 : 11)) for (int dl = 0; dl < (T ? 2 : 1); dl++) run_case(fmt("host:%d:%d:%d:%d:%d", b0, b1, ext, cut, dl)); }
		}, 4);
	}
	// (5) send side
	vf::parallel(lens.size(), [&](uint64_t i) { if (T && lens[i] > 400 && lens[i] % 64 > 2 && !(lens[i] > 65400 && lens[i] < 65700)) return; for (int role = 0; role < 2; role++) for (int ty = 0; ty < 2; ty++) run_case(fmt("send:%d:%d:%d", lens[i], role, ty)); }, 8);
	// (6) handshake: accept key on the wire, and client <-> server with an echoed message under all interleavings within the bound
	vf::parallel(64, [&](uint64_t k) { run_case(fmt("akey:%d", (int)k)); });
	{ int lensH[] = { 1, 5, 126 }; int nb = T ? 3 : 2; vf::parallel(3 * nb, [&](uint64_t i) { handshakeJob((int)(i % nb), lensH[i / nb], 0); }); }
	vf::sample("binary frame of 65536 bytes, masked with key 01ff8001, followed by text frame END; delivered whole / header|rest / read(1)");
	vf::sample("5-byte message fragmented 2|0|1|2 with a ping before fragment 2; hostile frame 8f ff 00 00 00 00 80 00 00 00 cut at every byte");
	vf::sample("WebSocket::connect(127.0.0.1:9000) against WebSocketServer::serve over a 9-byte pipe, echo of a 126-byte message, all schedules with <= 1 preemption");
	return vf::finish();
}
