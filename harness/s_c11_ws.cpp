// C11 — WebSocket framing: the real WebSocket::receive()/send() run over scripted in-memory connections (vnet) against an
// independent RFC 6455 framer/deframer. Every received stream is first interpreted by the reference deframer (the MODEL: which
// messages are wholly contained, which pings must be answered, whether a Close frame ends it, whether the stream is malformed),
// then the real receive() loop is run on it and compared: payload lengths, mask patterns, fragmentation with interleaved control
// frames (ping / pong / close, one or two per stream), every stream cut at every byte offset, non-canonical length forms, every
// 2-byte header x extended length with every cut; the documented accessors of the returned message; send() in all overloads and
// frame types; the server handshake in many request shapes (also through HttpServer::link), connect() against a scripted server
// whose response is cut at every byte; and the client/server handshake + echo under all interleavings (vsched).
// Object re-use: one client WebSocket / one WebSocketServer lives through every history of uses up to a depth (refused and rejected connects, exchanges,
// connections ended by either side) and is then probed with every length form in both directions: it must frame like a fresh object.
#include <asl/WebSocket.h>
#include <asl/HttpServer.h>
#include <asl/Socket.h>
#include <asl/Thread.h>
#include <asl/Var.h>
#include <set>
#include <map>
#include "vf.h"
#include "aslx.h"
#include "vsched.h"
#include "vnet.h"
using namespace asl;
using vf::fmt;

static int W_BADALLOC, C_EVAL, C_DIST, C_EXEC, C_POINTS, W_LEN16, W_LEN64, W_MASKED, W_FRAG, W_PING_BETWEEN, W_HOSTILE_CLOSED, W_HOSTILE_MSG, W_NEG64, W_HANDSHAKE, W_PREEMPT;
static int W_CUT, W_CUT_INFRAME, W_CUT_MIDMSG, W_CLOSE, W_CLOSE_REASON, W_CLOSE_MID, W_PONG_IN, W_PING_EMPTY, W_PING125, W_TWO_CTL, W_ACC, W_NUL, W_NONCANON, W_NONCANON_ACC, W_CLOSE_REASON_RET, W_BIGFRAG, W_BIGLEN, W_CHUNKED,
	W_RH_CLIENT, W_RH_COMPARED, W_RH_SENT, W_RH_REFUSED, W_RH_BADRESP, W_RH_RECONNECT, W_RH_SERVER, W_RH_SRV_LATER, W_RH_PRE, W_RH_BOTH,
	W_SEND_FORMS, W_VAR, W_AKX, W_AKX_NOSPACE, W_AKX_HTTP, W_CONN, W_CONN_FAIL, W_CONN_OK, W_ECHO_BIG, W_HOSTILE_STRICT, W_PONGS_CHECKED, W_CLOSE_CODE;
static std::string g_case;
// the mask/key source is seeded so that replays see the same keys; no verdict depends on the key values. A library without a generator per object is not seeded.
template <class W> static auto seedMask(W& ws, unsigned s, int) -> decltype(seedMask(ws, s), void()) { ws._random.seed(s, 0); }
template <class W> static void seedMask(W&, unsigned, long) {}
static void onFatal(const char* what, const std::string& schedule) {
	std::string w = what;
	if (w == "DIVERGED") { fprintf(stderr, "HARNESS ERROR: diverged %s\n", g_case.c_str()); _exit(2); }
	vf::violation(w == "STEP_LIMIT" ? "no_termination" : w == "DEADLOCK" ? "deadlock" : "livelock", std::string(what) + " in " + g_case + (schedule.size() < 400 ? " schedule " + schedule : ""), g_case);
	vf::restart_worker();
}
// a failure class listed as "known:" is counted, not reported (every class has its own exact signature)
static int g_reports; // report() calls of this process (a history of uses stops at its first failure)
static void report(const std::string& sig, const std::string& desc, const std::string& kase) { g_reports++; if (vf::known(sig)) vf::known_hit(sig, desc + "; case " + kase); else vf::violation(sig, desc, kase); }

// ---------------------------------------------------------------- reference RFC 6455 framer / deframer
struct Frame { bool fin; int rsv; int opcode; bool masked; unsigned char key[4]; std::string payload; int lenMode; }; // lenMode 0 canonical, 1 force 16-bit, 2 force 64-bit
static std::string frameBytes(const Frame& f, uint64_t overrideLen = 0, bool useOverride = false) {
	std::string s;
	s += (char)((f.fin ? 0x80 : 0) | (f.opcode & 0x0f));
	uint64_t n = useOverride ? overrideLen : f.payload.size();
	int mode = f.lenMode; if (mode == 0) mode = n < 126 ? 0 : n < 65536 ? 1 : 2;
	if (mode == 0) s += (char)((f.masked ? 0x80 : 0) | (unsigned)n);
	else if (mode == 1) { s += (char)((f.masked ? 0x80 : 0) | 126); s += (char)(n >> 8); s += (char)n; }
	else { s += (char)((f.masked ? 0x80 : 0) | 127); for (int i = 7; i >= 0; i--) s += (char)(n >> (8 * i)); }
	if (f.masked) s.append((const char*)f.key, 4);
	size_t at = s.size(); s.append(f.payload);
	if (f.masked) for (size_t i = 0; i < f.payload.size(); i++) s[at + i] = (char)(f.payload[i] ^ f.key[i & 3]);
	return s;
}
// parses one frame at offset `at` of s; returns bytes consumed or 0 if the stream ends inside the frame
static size_t parseFrameAt(const std::string& s, size_t at, Frame& f, bool* canonical) {
	size_t av = s.size() - at; const unsigned char* q = (const unsigned char*)s.data() + at;
	if (av < 2) return 0;
	f.fin = (q[0] & 0x80) != 0; f.rsv = (q[0] >> 4) & 7; f.opcode = q[0] & 0x0f; f.masked = (q[1] & 0x80) != 0; f.lenMode = 0;
	uint64_t n = q[1] & 0x7f; size_t p = 2; *canonical = true;
	if (n == 126) { if (av < 4) return 0; n = (q[2] << 8) | q[3]; p = 4; if (n < 126) *canonical = false; }
	else if (n == 127) { if (av < 10) return 0; n = 0; for (int i = 0; i < 8; i++) n = (n << 8) | q[2 + i]; p = 10; if (n < 65536 || (n >> 63)) *canonical = false; }
	if (f.masked) { if (av < p + 4) return 0; memcpy(f.key, q + p, 4); p += 4; }
	if (n > av - p) return 0;
	f.payload.assign((const char*)q + p, (size_t)n);
	if (f.masked) for (size_t i = 0; i < n; i++) f.payload[i] ^= f.key[i & 3];
	return p + (size_t)n;
}
static size_t parseFrame(const std::string& s, Frame& f, bool* canonical) { return parseFrameAt(s, 0, f, canonical); }
static std::string pattern(size_t n, int seed) { std::string s(n, 0); unsigned x = 2463534242u + seed * 77; for (size_t i = 0; i < n; i++) { x ^= x << 13; x ^= x >> 17; x ^= x << 5; s[i] = (char)(x >> 8); } if (n) s[0] = (char)(0x41 + seed); return s; }

// payload of a TEXT message: valid UTF-8 (a text message is UTF-8 by definition, RFC 6455 5.6/8.1, and a receiver may fail the connection on anything else), still with
// NUL, with bytes >= 0x80 (sequences of 2, 3 and 4 bytes at their smallest and largest code points) and of exactly n bytes
static std::string textPattern(size_t n, int seed) {
	static const char* const multi[] = { "\xc3\xa9", "\xdf\xbf", "\xc2\x80", "\xe2\x82\xac", "\xef\xbf\xbd", "\xe0\xa0\x80", "\xed\x9f\xbf", "\xf0\x9f\x98\x80", "\xf4\x8f\xbf\xbf", "\xf0\x90\x80\x80" };
	std::string s; s.reserve(n); unsigned x = 2463534242u + seed * 77;
	if (n) s += (char)(0x21 + ((unsigned)seed) % 94);
	while (s.size() < n) {
		x ^= x << 13; x ^= x >> 17; x ^= x << 5; unsigned r = x >> 8; size_t left = n - s.size();
		if ((r & 3) == 0) { const char* m = multi[(r >> 2) % 10]; size_t l = strlen(m); if (l <= left) { s += m; continue; } }
		s += (char)((r >> 6) & 0x7f);
	}
	return s;
}
static bool isUtf8(const std::string& s) { // reference validator for the generator above (asserted at start-up)
	for (size_t i = 0; i < s.size();) {
		unsigned c = (unsigned char)s[i]; int k = c < 0x80 ? 0 : c >= 0xc2 && c <= 0xdf ? 1 : (c & 0xf0) == 0xe0 ? 2 : c >= 0xf0 && c <= 0xf4 ? 3 : -1;
		if (k < 0 || i + k >= s.size()) return false;
		for (int j = 1; j <= k; j++) if (((unsigned char)s[i + j] & 0xc0) != 0x80) return false;
		unsigned d = (unsigned char)s[i + (k ? 1 : 0)];
		if ((c == 0xe0 && d < 0xa0) || (c == 0xed && d > 0x9f) || (c == 0xf0 && d < 0x90) || (c == 0xf4 && d > 0x8f)) return false;
		i += k + 1;
	}
	return true;
}

// what a peer got from a sender of the given role, as its receiver sees it: every frame whole, reserved bits clear, canonical length, mask bit of the role; the fragments of a
// message reassembled under the opcode of its first frame (the statement covers fragmented and unfragmented messages alike: how a sender splits a message is its choice);
// control frames final and <= 125 bytes, listed where they stand; one Close frame as the very last frame is the closing handshake, not a message (*closeSent).
// An error text starting with "frame " is a wrong header, any other a broken framing.
static size_t parseFrameAt(const std::string& s, size_t at, Frame& f, bool* canonical);
static std::string parseSent(const std::string& got, bool fromClient, std::vector<std::pair<int, std::string> >& items, bool* closeSent = 0) {
	size_t pos = 0; int nf = 0; bool inMsg = false; int op0 = 0; std::string cur; if (closeSent) *closeSent = false;
	while (pos < got.size()) {
		Frame f; bool canon; size_t used = parseFrameAt(got, pos, f, &canon); nf++;
		if (!used) return fmt("the %d bytes sent are not whole frames (frame %d starts at byte %d)", (int)got.size(), nf, (int)pos);
		if (f.rsv || f.masked != fromClient || !canon || (f.opcode >= 8 && !f.fin)) return fmt("frame %d sent: fin %d rsv %d opcode %d masked %d canonical-length %d", nf, (int)f.fin, f.rsv, f.opcode, (int)f.masked, (int)canon);
		pos += used;
		if (f.opcode >= 8) {
			if (f.payload.size() > 125) return fmt("control frame %d sent with %d bytes", nf, (int)f.payload.size());
			if (f.opcode == 8 && pos == got.size() && !inMsg && f.payload.size() != 1) { if (closeSent) *closeSent = true; break; }
			items.push_back(std::make_pair(f.opcode, f.payload)); continue;
		}
		if ((f.opcode == 0) != inMsg) return fmt("frame %d sent: opcode %d %s", nf, f.opcode, inMsg ? "inside a fragmented message" : "(continuation) without a message");
		if (!inMsg) { op0 = f.opcode; cur.clear(); inMsg = true; }
		cur += f.payload;
		if (f.fin) { items.push_back(std::make_pair(op0, cur)); inMsg = false; }
	}
	if (inMsg) return fmt("the %d frame(s) sent end inside a fragmented message", nf);
	return "";
}

// ---- the model: what a receiver of this byte stream (followed by end of stream) must observe
struct Model {
	std::vector<std::string> msgs;   // non-empty messages wholly contained, in order (up to a Close frame)
	std::vector<std::string> pings;  // payloads of the pings to answer (up to a Close frame)
	bool strict;                     // false: the stream contains a malformed frame (reserved bits/opcode, wrong mask bit for the role, control frame fragmented or > 125 bytes, continuation without start, ...): only the safety clause applies
	bool noncanon;                   // a length is not in its minimal form: a receiver may refuse it, but what it delivers must be right
	bool closeSeen, hasCode, closeMid; int code; std::string reason;
	bool cutInFrame, midMsg; int frames; std::string why;
};
static Model modelOf(const std::string& s, bool asClient) {
	Model m; m.strict = true; m.noncanon = m.closeSeen = m.hasCode = m.closeMid = m.cutInFrame = m.midMsg = false; m.code = 1000; m.frames = 0;
	size_t pos = 0; bool inMsg = false; std::string cur;
	while (pos < s.size()) {
		Frame f; bool canon; size_t used = parseFrameAt(s, pos, f, &canon);
		if (!used) { m.cutInFrame = true; break; }
		m.frames++; pos += used;
		if (f.rsv) { m.strict = false; m.why = "reserved bits"; break; }
		if (f.masked == asClient) { m.strict = false; m.why = "mask bit does not fit the role"; break; }
		if (!canon) m.noncanon = true;
		if (f.opcode >= 8 && (!f.fin || f.payload.size() > 125)) { m.strict = false; m.why = "control frame fragmented or too long"; break; }
		if (f.opcode == 0 || f.opcode == 1 || f.opcode == 2) {
			if ((f.opcode == 0) != inMsg) { m.strict = false; m.why = f.opcode ? "data frame inside a fragmented message" : "continuation without a message"; break; }
			inMsg = true; cur += f.payload;
			if (f.fin) { if (!cur.empty()) m.msgs.push_back(cur); cur.clear(); inMsg = false; }
		}
		else if (f.opcode == 8) {
			if (f.payload.size() == 1) { m.strict = false; m.why = "close payload of one byte"; break; }
			m.closeSeen = true; m.closeMid = inMsg;
			if (f.payload.size() >= 2) { m.hasCode = true; m.code = ((unsigned char)f.payload[0] << 8) | (unsigned char)f.payload[1]; m.reason = f.payload.substr(2); }
			break;
		}
		else if (f.opcode == 9) m.pings.push_back(f.payload);
		else if (f.opcode == 10) {}
		else { m.strict = false; m.why = "reserved opcode"; break; }
	}
	m.midMsg = inMsg;
	return m;
}

// ---------------------------------------------------------------- receive side
struct RecvOut { std::vector<std::string> msgs; int emptyReturns; bool negLen, badAlloc; std::string asan, accessor; int closedAtEnd, code; std::string written; };
static RecvOut runReceive(const std::vector<std::string>& chunks, bool asClient, int maxCalls, int readMax) {
	RecvOut o; o.emptyReturns = 0; o.negLen = o.badAlloc = false; o.closedAtEnd = 0; o.code = 0;
	auto body = [&]() {
		vf::asan_clear();
		vnet::reset(); vnet::enable(true); vnet::set_limits(readMax, 0);
		int fd = vnet::scripted(chunks);
		{
			Socket s(fd);
			WebSocket ws(s, asClient);
			seedMask(ws, 12345, 0);
			for (int i = 0; i < maxCalls; i++) {
				if (ws.closed()) break;
				try {
					WebSocketMsg m = ws.receive();
					if (m.length() < 0) o.negLen = true;
					if (m.length() > 0) {
						ByteArray b = m; std::string d((const char*)b.data(), b.length()); o.msgs.push_back(d);
						// the documented ways to look at a message: String msg = ws.receive();  *msg;  if (msg) / if (!msg)
						String str = m; const char* z = *m; size_t want = strlen(d.c_str()), zl = strlen(z);
						if (str.length() != (int)d.size() || memcmp(*str, d.data(), d.size()) != 0) o.accessor = fmt("String(msg) has %d bytes and differs from the %d message bytes", str.length(), (int)d.size());
						else if (zl != want || memcmp(z, d.data(), want) != 0) o.accessor = fmt("*msg is a C string of %d bytes, the message text up to its first NUL has %d", (int)zl, (int)want);
						else if (!(bool)m || !m) o.accessor = "operator bool / operator! say the message is empty";
						vf::add(W_ACC); if (want != d.size()) vf::add(W_NUL);
					} else o.emptyReturns++;
				} catch (std::bad_alloc&) { vf::add(W_BADALLOC); o.badAlloc = true; break; } // an announced length that cannot be allocated is resource exhaustion, not a memory error
			}
			o.closedAtEnd = ws.closed(); o.code = ws.code();
		}
		o.written = vnet::written(fd);
		vnet::enable(false);
		if (vf::asan_tripped()) o.asan = vf::asan_what();
	};
	vsched::states_reset();
	vsched::Result x = vsched::run_once(std::vector<uint8_t>(), body, 2000000);
	vf::add(C_EXEC); vf::add(C_POINTS, x.points.size()); { static int cst = vf::counter("states"); vf::add(cst, vsched::states_count()); }
	return o;
}
static std::string ends(const Model& m) { return m.closeSeen ? (m.closeMid ? " [Close frame between fragments]" : " [ended by a Close frame]") : m.cutInFrame ? " [stream ends inside a frame]" : m.midMsg ? " [stream ends between fragments]" : ""; }
// compares an execution with the model of its stream
static void checkStream(const RecvOut& o, const Model& m, bool asClient, const std::string& kase, const std::string& what0) {
	std::string what = what0 + ends(m);
	if (!o.asan.empty()) report("asan", "ASan " + o.asan + " in receive(): " + what, kase);
	if (o.negLen) report("negative_length", "receive() returned a message of negative length: " + what, kase);
	if (!o.accessor.empty()) report("accessor", o.accessor + ": " + what, kase);
	if (!m.strict || o.badAlloc) return;
	const std::vector<std::string>& exp = m.msgs;
	if (m.noncanon) { // may be refused; whatever is delivered must be right (the reason text of a Close frame counts as sent, see below)
		std::vector<std::string> all = exp; if (m.closeSeen && !m.reason.empty()) all.push_back(m.reason);
		bool ok = o.msgs.size() <= all.size(); for (size_t i = 0; ok && i < o.msgs.size(); i++) ok = o.msgs[i] == all[i];
		if (!ok) report("message_bytes", "frames with a non-minimal length form delivered something that was not sent: " + what, kase);
		if (o.msgs.size() == exp.size() && !exp.empty()) vf::add(W_NONCANON_ACC);
		if (ok && !exp.empty()) vf::add(W_NONCANON);
		return;
	}
	size_t k = 0; while (k < exp.size() && k < o.msgs.size() && exp[k] == o.msgs[k]) k++;
	bool same = k == exp.size() && o.msgs.size() == exp.size();
	// receive() hands out the reason text of a Close frame as its return value (with closed() true and code() set): that is the library's
	// way to report the reason, it is byte-identical to what the peer sent, and it is the last thing returned
	if (!same && k == exp.size() && m.closeSeen && !m.reason.empty() && o.msgs.size() == exp.size() + 1 && o.msgs.back() == m.reason) { same = true; vf::add(W_CLOSE_REASON_RET); }
	if (same && m.closeSeen && !m.reason.empty()) vf::add(W_CLOSE_REASON);
	if (!same) {
		if (k == exp.size() && o.msgs.size() > exp.size())
			report(m.closeSeen ? "phantom_message_at_close" : "phantom_message", fmt("receive() delivered %d message(s) but only %d were completely sent; the extra one has %d bytes: ", (int)o.msgs.size(), (int)exp.size(), (int)o.msgs[k].size()) + what, kase);
		else if (o.msgs.size() != exp.size()) report("message_count", fmt("%d message(s) received instead of %d: ", (int)o.msgs.size(), (int)exp.size()) + what + (o.msgs.empty() ? "" : fmt(" (first has %d bytes)", (int)o.msgs[0].size())), kase);
		else { size_t d = 0; while (d < exp[k].size() && d < o.msgs[k].size() && exp[k][d] == o.msgs[k][d]) d++; report("message_bytes", fmt("message %d differs (length %d vs %d, first difference at byte %d): ", (int)k + 1, (int)o.msgs[k].size(), (int)exp[k].size(), (int)d) + what, kase); }
	}
	if (!o.closedAtEnd) report("eof_not_closed", "closed() is still false after the stream has ended and receive() was called again: " + what, kase);
	if (m.closeSeen && m.hasCode) { vf::add(W_CLOSE_CODE); if (o.code != m.code) report("close_code", fmt("code() is %d after a Close frame with status %d: ", o.code, m.code) + what, kase); }
	// every ping with a payload must be answered, in order, by a final pong frame with the same payload and the mask bit of the role
	{
		std::vector<std::string> want, got; for (size_t i = 0; i < m.pings.size(); i++) if (!m.pings[i].empty()) want.push_back(m.pings[i]);
		size_t pos = 0; std::string bad;
		while (pos < o.written.size() && bad.empty()) {
			Frame pf; bool canon; size_t used = parseFrameAt(o.written, pos, pf, &canon);
			if (!used) { bad = "bytes written during receive() are not whole frames"; break; }
			pos += used;
			if (pf.opcode == 8 && pf.fin && !pf.rsv && canon && pf.masked == asClient && pf.payload.size() != 1 && pf.payload.size() <= 125 && pos == o.written.size()) break; // the statement does not forbid (nor demand) the closing handshake
			if (pf.opcode != 10 || !pf.fin || pf.rsv || !canon || pf.masked != asClient) bad = fmt("frame written during receive(): opcode %d fin %d rsv %d masked %d canonical-length %d", pf.opcode, (int)pf.fin, pf.rsv, (int)pf.masked, (int)canon);
			if (!pf.payload.empty()) got.push_back(pf.payload);
		}
		if (bad.empty() && got != want) bad = fmt("%d pong(s) with payload written for %d ping(s) with payload, or payloads differ", (int)got.size(), (int)want.size());
		if (!bad.empty()) report("pong", "pings not answered by pongs carrying their payloads (" + bad + "): " + what, kase);
		if (!want.empty()) vf::add(W_PONGS_CHECKED);
	}
}
static Frame mkFrame(bool fin, int op, bool masked, const std::string& payload, unsigned key = 0x37fa213d, int lenMode = 0) { Frame f; f.fin = fin; f.rsv = 0; f.opcode = op; f.masked = masked; f.payload = payload; f.lenMode = lenMode; f.key[0] = key >> 24; f.key[1] = key >> 16; f.key[2] = key >> 8; f.key[3] = key; return f; }
static std::vector<std::string> deliver(const std::string& bytes, int delivery, size_t firstCut = 0) { // 0 whole, 1 two chunks, 2 whole (read(1)-limited by the caller), 3 chunks of 4096 bytes, 4 byte by byte
	std::vector<std::string> ch;
	if (delivery == 1) { size_t cut = std::min(bytes.size(), firstCut); if (cut) ch.push_back(bytes.substr(0, cut)); if (cut < bytes.size()) ch.push_back(bytes.substr(cut)); }
	else if (delivery == 3) for (size_t i = 0; i < bytes.size(); i += 4096) ch.push_back(bytes.substr(i, 4096));
	else if (delivery == 4) for (size_t i = 0; i < bytes.size(); i++) ch.push_back(bytes.substr(i, 1));
	else if (!bytes.empty()) ch.push_back(bytes);
	return ch;
}
static void streamCase(const std::string& bytes, const std::vector<std::string>& chunks, bool asClient, int readMax, const std::string& kase, const std::string& what) {
	Model m = modelOf(bytes, asClient);
	RecvOut o = runReceive(chunks, asClient, (int)m.msgs.size() + 3, readMax);
	checkStream(o, m, asClient, kase, what);
}

// len:<len>:<variant>[:<lenMode>] — one binary message and a text message END; variant = masked | delivery << 1
static void lenCase(int len, int variant, int lenMode, const std::string& kase) {
	g_case = kase; vf::cur(kase); vf::add(C_EVAL); vf::add(C_DIST);
	bool masked = variant & 1; int delivery = variant >> 1; // 0 whole, 1 two chunks (header | rest), 2 read(1)-limited for short ones, 3 chunks of 4096 bytes
	std::string p = pattern(len, len % 7);
	Frame f = mkFrame(true, 2, masked, p, 0x00ff8001u + len, lenMode);
	std::string bytes = frameBytes(f) + frameBytes(mkFrame(true, 1, masked, "END"));
	if (len >= 126 && len < 65536) vf::add(W_LEN16); if (len >= 65536) vf::add(W_LEN64); if (masked) vf::add(W_MASKED); if (len > 70000) vf::add(W_BIGLEN); if (delivery == 3) vf::add(W_CHUNKED);
	streamCase(bytes, deliver(bytes, delivery, 3 + (len % 11)), !masked, delivery == 2 ? 1 : 0, kase, fmt("binary frame with %d-byte payload, %s, delivery %d%s", len, masked ? "masked" : "unmasked", delivery, lenMode == 1 ? ", 16-bit length form" : lenMode == 2 ? ", 64-bit length form" : ""));
}
// cut:<len>:<variant>:<offset> — the same stream ended after <offset> bytes; variant = masked | delivery << 1 (0 whole, 1 byte by byte)
static void cutCase(int len, int variant, int offset, const std::string& kase) {
	g_case = kase; vf::cur(kase); vf::add(C_EVAL); vf::add(C_DIST);
	bool masked = variant & 1; int delivery = (variant >> 1) ? 4 : 0;
	static std::map<int, std::string> cache; // per worker process
	std::map<int, std::string>::iterator it = cache.find(len * 2 + masked);
	if (it == cache.end()) { if (cache.size() >= 8) cache.clear(); it = cache.insert(std::make_pair(len * 2 + (int)masked, frameBytes(mkFrame(true, 2, masked, pattern(len, len % 7), 0x00ff8001u + len)) + frameBytes(mkFrame(true, 1, masked, "END")))).first; }
	const std::string& full = it->second;
	if (offset > (int)full.size()) return;
	std::string bytes = full.substr(0, offset);
	Model m = modelOf(bytes, !masked);
	vf::add(W_CUT); if (m.cutInFrame) vf::add(W_CUT_INFRAME); if (masked) vf::add(W_MASKED);
	RecvOut o = runReceive(deliver(bytes, delivery), !masked, 5, 0);
	checkStream(o, m, !masked, kase, fmt("binary frame with %d-byte payload and text frame END, %s, stream of %d bytes ended after %d, delivery %d", len, masked ? "masked" : "unmasked", (int)full.size(), offset, delivery));
}
static void maskCase(int len, int m, const std::string& kase) {
	g_case = kase; vf::cur(kase); vf::add(C_EVAL); vf::add(C_DIST); vf::add(W_MASKED);
	static const unsigned char mv[] = { 0x00, 0x01, 0x80, 0xff };
	unsigned key = (mv[m & 3] << 24) | (mv[(m >> 2) & 3] << 16) | (mv[(m >> 4) & 3] << 8) | mv[(m >> 6) & 3];
	std::string bytes = frameBytes(mkFrame(true, 1, true, textPattern(len, m), key));
	streamCase(bytes, deliver(bytes, 0), false, 0, kase, fmt("text frame, %d bytes, mask key %08x", len, key));
}
// control frames that can be put between the frames of a fragmented message
static const char* ctlName[] = { "none", "ping ''", "ping 'pi'", "ping of 125 bytes", "pong 'po'", "pong ''", "close without status", "close 1000", "close 4321 'bye'" };
enum { NCTL = 9 };
static std::string ctlFrame(int kind, bool masked, unsigned key) {
	switch (kind) {
	case 1: return frameBytes(mkFrame(true, 9, masked, "", key));
	case 2: return frameBytes(mkFrame(true, 9, masked, "pi", key));
	case 3: return frameBytes(mkFrame(true, 9, masked, pattern(125, 6), key));
	case 4: return frameBytes(mkFrame(true, 10, masked, "po", key));
	case 5: return frameBytes(mkFrame(true, 10, masked, "", key));
	case 6: return frameBytes(mkFrame(true, 8, masked, "", key));
	case 7: return frameBytes(mkFrame(true, 8, masked, std::string("\x03\xe8", 2), key));
	case 8: return frameBytes(mkFrame(true, 8, masked, std::string("\x10\xe1", 2) + "bye", key));
	}
	return "";
}
// fx:<n>:<c1>:<c2>:<c3>:<op>:<mk>:<k1>:<p1>:<k2>:<p2>:<cut>:<dl> — an n-byte message (first opcode op) in 4 frames cut at c1<=c2<=c3, control frame k1 before
// frame p1 and k2 before frame p2 (position 4 = after the last fragment), then a text message END; the stream ends after <cut> bytes (-1: complete)
static void fxCase(int n, const int* c, int op, bool masked, int k1, int p1, int k2, int p2, int cut, int dl, const std::string& kase) {
	g_case = kase; vf::cur(kase); vf::add(C_EVAL);
	if (!(0 <= c[0] && c[0] <= c[1] && c[1] <= c[2] && c[2] <= n) || k1 < 0 || k1 >= NCTL || k2 < 0 || k2 >= NCTL) return;
	vf::add(C_DIST); vf::add(W_FRAG);
	std::string p = op == 1 ? textPattern(n, 3) : pattern(n, 3);
	std::vector<std::string> parts; int prev = 0; for (int i = 0; i < 3; i++) { parts.push_back(p.substr(prev, c[i] - prev)); prev = c[i]; } parts.push_back(p.substr(prev));
	std::string bytes; unsigned key = 0x37fa213d;
	for (int i = 0; i <= 4; i++) {
		if (k1 && p1 == i) { bytes += ctlFrame(k1, masked, key); key = key * 0x9e3779b1u + 0x01000193u; }
		if (k2 && p2 == i) { bytes += ctlFrame(k2, masked, key); key = key * 0x9e3779b1u + 0x01000193u; }
		if (i < 4) { bytes += frameBytes(mkFrame(i == 3, i == 0 ? op : 0, masked, parts[i], key)); key = key * 0x9e3779b1u + 0x01000193u; if (parts[i].size() >= 126) vf::add(W_BIGFRAG); }
	}
	bytes += frameBytes(mkFrame(true, 1, masked, "END", key));
	size_t full = bytes.size();
	if (cut >= 0) { if (cut > (int)full) return; bytes.resize(cut); vf::add(W_CUT); }
	Model m = modelOf(bytes, !masked);
	int ks[2] = { k1, k2 }, ps[2] = { p1, p2 };
	for (int j = 0; j < 2; j++) if (cut < 0 && ks[j]) {
		bool between = ps[j] >= 1 && ps[j] <= 3;
		if (ks[j] <= 3 && between) vf::add(W_PING_BETWEEN); if (ks[j] == 1) vf::add(W_PING_EMPTY); if (ks[j] == 3) vf::add(W_PING125); if (ks[j] == 4 || ks[j] == 5) vf::add(W_PONG_IN);
	}
	if (m.closeSeen) { vf::add(W_CLOSE); if (m.closeMid) vf::add(W_CLOSE_MID); }
	if (cut < 0 && k1 && k2) vf::add(W_TWO_CTL);
	if (cut >= 0 && m.cutInFrame) vf::add(W_CUT_INFRAME); if (cut >= 0 && !m.cutInFrame && m.midMsg && !m.closeSeen) vf::add(W_CUT_MIDMSG);
	if (masked) vf::add(W_MASKED);
	RecvOut o = runReceive(deliver(bytes, dl ? 4 : 0), !masked, 8, 0);
	std::string what = fmt("%d-byte %s message in fragments %d|%d|%d|%d, %s", n, op == 1 ? "text" : "binary", (int)parts[0].size(), (int)parts[1].size(), (int)parts[2].size(), (int)parts[3].size(), masked ? "masked" : "unmasked");
	if (k1) what += fmt(", %s before fragment %d", ctlName[k1], p1); if (k2) what += fmt(", %s before fragment %d", ctlName[k2], p2);
	if (cut >= 0) what += fmt(", stream of %d bytes ended after %d", (int)full, cut); if (dl) what += ", byte by byte";
	checkStream(o, m, !masked, kase, what);
}
// frag:<n>:<cuts>:<ping>:<mk> (older form): cuts are base-(n+1) digits, a ping 'pi' before fragment <ping> (-1 none)
static void fragCase(int n, int cuts, int pingAt, bool masked, const std::string& kase) {
	int c[3]; int x = cuts; for (int i = 0; i < 3; i++) { c[i] = x % (n + 1); x /= (n + 1); }
	fxCase(n, c, 2, masked, pingAt >= 0 ? 2 : 0, pingAt, 0, 0, -1, 0, kase);
}
// hostile input: 2-byte header, extended length field, optional mask and a few payload bytes, then end of stream at `cut`
static void hostileCase(int b0, int b1, int ext, int cut, int delivery, const std::string& kase) {
	g_case = kase; vf::cur(kase); vf::add(C_EVAL); vf::add(C_DIST);
	static const uint64_t exts[] = { 0, 125, 126, 65535, 65536, 0x7fffffffULL, 0x80000000ULL, 0xffffffffULL, 0x100000000ULL, 0x8000000000000000ULL, 0xffffffffffffffffULL, 5 };
	std::string s; s += (char)b0; s += (char)b1;
	int l7 = b1 & 0x7f; uint64_t e = exts[ext];
	if (l7 == 126) { s += (char)(e >> 8); s += (char)e; } else if (l7 == 127) { for (int i = 7; i >= 0; i--) s += (char)(e >> (8 * i)); if ((e & 0x80000000ULL) && e < 0x100000000ULL && cut >= 10) vf::add(W_NEG64); }
	if (b1 & 0x80) s += "\x11\x22\x33\x44";
	s += "payload-bytes";
	if (cut < (int)s.size()) s.resize(cut);
	bool asClient = !(b1 & 0x80); // the role for which the mask bit is right, so that well-formed but truncated frames fall under the exact comparison
	Model m = modelOf(s, asClient);
	RecvOut o = runReceive(deliver(s, delivery ? 4 : 0), asClient, (int)m.msgs.size() + 3, 0);
	if (m.strict && !m.noncanon && !o.badAlloc) vf::add(W_HOSTILE_STRICT);
	checkStream(o, m, asClient, kase, "hostile frame " + vf::hex(s) + (m.strict ? "" : " (malformed: " + m.why + ")"));
	if (o.msgs.empty()) vf::add(W_HOSTILE_CLOSED); else vf::add(W_HOSTILE_MSG);
}
// send side: output of the real send() parsed by the reference deframer
// send:<len>:<role>:<form> — 0 send(ByteArray), 1 send(ptr,len,FRAME_TEXT), 2 send(String), 3 send(const char*), 4 send(ptr,len,FRAME_BINARY), 5 FRAME_PING, 6 FRAME_PONG, 7 FRAME_CLOSE, 8 FRAME_CONT
static void sendCase(int len, bool asClient, int type, const std::string& kase) {
	g_case = kase; vf::cur(kase); vf::add(C_EVAL); vf::add(C_DIST);
	std::string p = type >= 1 && type <= 3 ? textPattern(len, 5) : pattern(len, 5), written, asan; // the text forms carry text
	if (type == 3) for (size_t i = 0; i < p.size(); i++) if (!p[i]) p[i] = 'n'; // a C string cannot carry NUL
	if (type >= 2) vf::add(W_SEND_FORMS); if (len > 70000) vf::add(W_BIGLEN);
	auto body = [&]() {
		vf::asan_clear(); vnet::reset(); vnet::enable(true); vnet::set_limits(0, (len % 3 == 0 && len < 100000) ? 7 : 0);
		std::vector<std::string> none(1, std::string(1, 'x')); // keep the connection open (one unread byte) so that closed() is false
		int fd = vnet::scripted(none);
		{ Socket s(fd); WebSocket ws(s, asClient); seedMask(ws, 777 + len, 0);
		  const byte* d = (const byte*)p.data(); int n = (int)p.size();
		  switch (type) {
		  case 0: ws.send(ByteArray(d, n)); break;
		  case 1: ws.send(d, n, WebSocket::FRAME_TEXT); break;
		  case 2: ws.send(String(p.data(), n)); break;
		  case 3: ws.send(p.c_str()); break;
		  case 4: ws.send(d, n, WebSocket::FRAME_BINARY); break;
		  case 5: ws.send(d, n, WebSocket::FRAME_PING); break;
		  case 6: ws.send(d, n, WebSocket::FRAME_PONG); break;
		  case 7: ws.send(d, n, WebSocket::FRAME_CLOSE); break;
		  case 8: ws.send(d, n, WebSocket::FRAME_CONT); break;
		  } }
		written = vnet::written(fd); vnet::enable(false);
		if (vf::asan_tripped()) asan = vf::asan_what();
	};
	vsched::Result x = vsched::run_once(std::vector<uint8_t>(), body, 2000000);
	vf::add(C_EXEC); vf::add(C_POINTS, x.points.size());
	static const char* forms[] = { "send(ByteArray)", "send(ptr,len,FRAME_TEXT)", "send(String)", "send(const char*)", "send(ptr,len,FRAME_BINARY)", "send(ptr,len,FRAME_PING)", "send(ptr,len,FRAME_PONG)", "send(ptr,len,FRAME_CLOSE)", "send(ptr,len,FRAME_CONT)" };
	static const int opcodes[] = { 2, 1, 1, 1, 2, 9, 10, 8, -1 }; // FRAME_CONT: the library cannot send non-final frames, the property says nothing about it: framing and payload only
	std::string what = fmt("%s of %d bytes as %s", forms[type], len, asClient ? "client" : "server");
	if (!asan.empty()) report("asan", "ASan " + asan + " in " + what, kase);
	if (opcodes[type] == 1 || opcodes[type] == 2) { // a data message: exactly one message on the wire, in one frame or in fragments
		std::vector<std::pair<int, std::string> > it; bool closeSent = false; std::string bad = parseSent(written, asClient, it, &closeSent);
		if (!bad.empty()) { report(bad.compare(0, 6, "frame ") == 0 ? "send_header" : "send_framing", what + ": " + bad, kase); return; }
		if (it.size() != 1 || closeSent) { report("send_framing", what + fmt(": output of %d bytes is not exactly one well-formed message (%d message(s) or control frames)", (int)written.size(), (int)it.size() + closeSent), kase); return; }
		if (it[0].second != p) report("send_payload", what + ": payload after unmasking differs", kase);
		if (it[0].first != opcodes[type]) report("send_header", what + fmt(": opcode %d", it[0].first), kase);
		return;
	}
	Frame f; bool canon = false; size_t used = parseFrame(written, f, &canon);
	if (!used || used != written.size()) { report("send_framing", what + fmt(": output of %d bytes is not exactly one well-formed frame", (int)written.size()), kase); return; }
	if (f.payload != p) report("send_payload", what + ": payload after unmasking differs", kase);
	if (!f.fin || f.rsv || (opcodes[type] >= 0 && f.opcode != opcodes[type]) || f.masked != asClient || !canon) report("send_header", what + fmt(": fin %d rsv %d opcode %d masked %d canonical-length %d", (int)f.fin, f.rsv, f.opcode, (int)f.masked, (int)canon), kase);
}
// sendv:<k>:<role> — send(Var): the text frame must carry the JSON text; fed to a receiver of the other role it must convert back to an equal Var
static void sendVarCase(int k, bool asClient, const std::string& kase) {
	g_case = kase; vf::cur(kase); vf::add(C_EVAL); vf::add(C_DIST); vf::add(W_VAR);
	static const char* json[] = { "10", "\"hi\"", "[1,2,3]", "{\"a\":1}", "true", 0 };
	std::string written, asan, back; bool equal = false, docok = true;
	auto body = [&]() {
		vf::asan_clear(); vnet::reset(); vnet::enable(true); vnet::set_limits(0, 0);
		Var v;
		switch (k) { case 0: v = 10; break; case 1: v = "hi"; break; case 2: v = Var::ARRAY; v << 1 << 2 << 3; break; case 3: v = Var("a", 1); break; case 4: v = true; break; default: v = Var("type", "info")("n", 10); }
		int fd = vnet::scripted(std::vector<std::string>(1, "x"));
		{ Socket s(fd); WebSocket ws(s, asClient); seedMask(ws, 31 + k, 0); ws.send(v); }
		written = vnet::written(fd);
		int fd2 = vnet::scripted(std::vector<std::string>(1, written));
		{ Socket s(fd2); WebSocket ws(s, !asClient); WebSocketMsg m = ws.receive(); Var w = m; equal = w == v; ByteArray b = m; back.assign((const char*)b.data(), b.length());
		  if (k == 5) docok = w["type"].toString() == "info" && (int)w["n"] == 10 && w.length() == 2; }
		vnet::enable(false);
		if (vf::asan_tripped()) asan = vf::asan_what();
	};
	vsched::Result x = vsched::run_once(std::vector<uint8_t>(), body, 100000);
	vf::add(C_EXEC); vf::add(C_POINTS, x.points.size());
	std::string what = fmt("send(Var) number %d as %s", k, asClient ? "client" : "server");
	if (!asan.empty()) report("asan", "ASan " + asan + " in " + what, kase);
	Frame f; f.opcode = -1;
	{ std::vector<std::pair<int, std::string> > it; bool closeSent = false; std::string bad = parseSent(written, asClient, it, &closeSent);
	  if (!bad.empty()) { report(bad.compare(0, 6, "frame ") == 0 ? "send_header" : "send_framing", what + ": " + bad, kase); return; }
	  if (it.size() != 1 || closeSent) { report("send_framing", what + ": output is not exactly one well-formed message", kase); return; }
	  f.opcode = it[0].first; f.payload = it[0].second; }
	if (f.opcode != 1) report("send_header", what + fmt(": opcode %d", f.opcode), kase);
	std::string compact; for (size_t i = 0; i < f.payload.size(); i++) if (!strchr(" \t\r\n", f.payload[i])) compact += f.payload[i];
	if (json[k < 5 ? k : 5] && compact != json[k]) report("send_payload", what + ": text frame carries '" + f.payload + "' instead of the JSON text " + json[k], kase);
	if (back != f.payload || !equal || !docok) report("var_message", what + ": the message '" + f.payload + "' received by the peer and converted with operator Var is not equal to the Var sent", kase);
}

// ---------------------------------------------------------------- handshake + echo under all interleavings
static std::string sha1b64(const std::string& in); // reference, below
struct EchoServer : public WebSocketServer { std::vector<std::string> seen; void serve(WebSocket& ws) { for (int i = 0; i < 3 && !ws.closed(); i++) { WebSocketMsg m = ws.receive(); if (m.length() > 0) { ByteArray b = m; seen.push_back(std::string((const char*)b.data(), b.length())); ws.send(ByteArray(b)); } } } };
struct Acceptor : public Thread {
	EchoServer* srv; Socket* lst; int served;
	void run() { Socket c = lst->accept(); if (c.handle() >= 0) { ((SocketServer*)srv)->serve(c); served++; } }
};
static void handshakeJob(int bound, int payloadLen, const std::string* replay, int pipe = 0) {
	std::string kase = pipe ? fmt("echo:%d:%d", payloadLen, pipe) : fmt("handshake:%d:%d", bound, payloadLen); g_case = kase; vf::cur(kase); vf::add(C_EVAL); vf::add(C_DIST);
	std::string verdict, misuse;
	auto body = [&]() {
		vf::asan_clear(); vnet::reset(pipe ? pipe : 8 + payloadLen); vnet::enable(true); vnet::set_limits(0, 0);
		verdict.clear(); misuse.clear();
		{
			EchoServer srv; Socket lst; lst.bind("127.0.0.1", 9000); lst.listen(2);
			Acceptor acc; acc.srv = &srv; acc.lst = &lst; acc.served = 0; acc.start();
			std::string reply; bool ok; std::string p = pattern(payloadLen, 9);
			{
				WebSocket ws; seedMask(ws, 4242, 0);
				ok = ws.connect("127.0.0.1", 9000);
				if (ok) { ws.send(ByteArray((const byte*)p.data(), (int)p.size())); WebSocketMsg m = ws.receive(); ByteArray b = m; reply.assign((const char*)b.data(), b.length()); ws.close(); }
			}
			acc.join();
			if (!ok) verdict += "client connect() failed; ";
			else { if (srv.seen.size() != 1 || srv.seen[0] != p) verdict += "server did not receive the client's message exactly once; "; if (reply != p) verdict += fmt("client received %d bytes instead of its %d-byte echo; ", (int)reply.size(), payloadLen); }
			lst.close();
		}
		if (vnet::misuse()) misuse = fmt("%d operation(s) on closed descriptors; ", vnet::misuse());
		vnet::enable(false);
		if (vf::asan_tripped()) verdict += "ASan " + vf::asan_what() + "; ";
	};
	auto after = [&](const vsched::Result& x) {
		vf::add(C_EXEC); vf::add(C_POINTS, x.points.size()); vf::add(pipe ? W_ECHO_BIG : W_HANDSHAKE); if (x.preemptions) vf::add(W_PREEMPT);
		std::string sch = pipe ? std::string("default schedule") : "schedule " + x.trace(), rk = pipe ? kase : kase + "|" + x.trace(); // echo:* runs the default (non-preemptive) schedule only
		if (!verdict.empty()) report("handshake", verdict + sch, rk);
		else if (!misuse.empty()) report("closed_descriptor_use", misuse + sch, rk);
	};
	vsched::set_early_timeouts(false); // a handshake that fails because a read timed out on a slow peer is not a framing error
	if (replay || pipe) { vsched::Result x = vsched::run_once(replay ? vsched::parse_schedule(*replay) : std::vector<uint8_t>(), body, pipe ? 4000000 : 100000); after(x); vsched::set_early_timeouts(true); return; }
	vsched::ExploreStats st = vsched::explore(body, after, bound, 0, 100000);
	{ static int cst = vf::counter("states"); vf::add(cst, st.distinct_states); }
	vsched::set_early_timeouts(true);
}
// the values of the field `name` (compared without case, RFC 7230 3.2) in a header block, optional whitespace around the value removed
static std::vector<std::string> fieldValues(const std::string& block, const std::string& name) {
	std::vector<std::string> r; size_t pos = block.find("\r\n"); // behind the status line
	while (pos != std::string::npos && pos + 2 < block.size()) {
		size_t a = pos + 2, e = block.find("\r\n", a); std::string line = block.substr(a, e == std::string::npos ? std::string::npos : e - a); pos = e;
		size_t c = line.find(':'); if (c != name.size()) continue;
		bool eq = true; for (size_t i = 0; i < c && eq; i++) eq = tolower((unsigned char)line[i]) == tolower((unsigned char)name[i]);
		if (!eq) continue;
		size_t b = c + 1, z = line.size(); while (b < z && (line[b] == ' ' || line[b] == '\t')) b++; while (z > b && (line[z - 1] == ' ' || line[z - 1] == '\t')) z--;
		r.push_back(line.substr(b, z - b));
	}
	return r;
}
static bool carriesAccept(const std::string& headerBlock, const std::string& key) { std::vector<std::string> v = fieldValues(headerBlock, "Sec-WebSocket-Accept"); return v.size() == 1 && v[0] == sha1b64(key + "258EAFA5-E914-47DA-95CA-C5AB0DC85B11"); }
// accept key on the wire: a scripted client request with a known key; the server's 101 response must carry the RFC 6455 accept value.
// akey:<k> is the single classic shape; akx:<k>:<casing>:<sep>:<conn>:<via> varies what RFC 7230 leaves free: the case of the field names
// (0 as in the RFC, 1 lower, 2 upper), the optional whitespace after the colon (0 ": ", 1 ":", 2 ":  ", 3 ":\t"), other tokens in Connection,
// and the entry point (0 WebSocketServer on its own port, 1 a WebSocketServer linked to an HttpServer); a masked text frame follows the request
// and must come back as the echo behind the response
static void acceptKeyCase(int k, int casing, int sep, int conn, int via, bool ext, const std::string& kase) {
	g_case = kase; vf::cur(kase); vf::add(C_EVAL); vf::add(C_DIST);
	std::string key = k == 0 ? "dGhlIHNhbXBsZSBub25jZQ==" : vf::fmt("%016dAAAAAA==", k * 7919);
	static const char* seps[] = { ": ", ":", ":  ", ":\t" }; static const char* conns[] = { "Upgrade", "keep-alive, Upgrade" };
	const char* names[] = { "Host", "Upgrade", "Connection", "Sec-WebSocket-Key", "Sec-WebSocket-Version" }; std::string vals[] = { "h", "websocket", conns[conn], key, "13" };
	std::string req = "GET /chat HTTP/1.1\r\n";
	for (int i = 0; i < 5; i++) { std::string nm = names[i]; for (size_t j = 0; j < nm.size(); j++) nm[j] = casing == 1 ? (char)tolower(nm[j]) : casing == 2 ? (char)toupper(nm[j]) : nm[j]; req += nm + seps[sep] + vals[i] + "\r\n"; }
	req += "\r\n";
	if (ext) { vf::add(W_AKX); if (sep == 1) vf::add(W_AKX_NOSPACE); if (via) vf::add(W_AKX_HTTP); req += frameBytes(mkFrame(true, 1, true, "ping!", 0x0badf00du + k)); }
	std::string written, asan;
	auto body = [&]() {
		vf::asan_clear(); vnet::reset(); vnet::enable(true); int fd = vnet::scripted(std::vector<std::string>(1, req));
		{ EchoServer srv; Socket c(fd); if (via) { HttpServer http; http.link(srv); ((SocketServer&)http).serve(c); } else ((SocketServer&)srv).serve(c); }
		written = vnet::written(fd); vnet::enable(false); if (vf::asan_tripped()) asan = vf::asan_what();
	};
	vsched::set_early_timeouts(false);
	vsched::Result x = vsched::run_once(std::vector<uint8_t>(), body, 100000); vf::add(C_EXEC); vf::add(C_POINTS, x.points.size());
	vsched::set_early_timeouts(true);
	std::string want = "Sec-WebSocket-Accept: " + sha1b64(key + "258EAFA5-E914-47DA-95CA-C5AB0DC85B11") + "\r\n"; // for the message only
	std::string shape = ext ? fmt(" (field names %s, '%s' after the name, Connection: %s, %s)", casing == 1 ? "lower case" : casing == 2 ? "upper case" : "as in the RFC", sep == 3 ? ":\\t" : seps[sep], conns[conn], via ? "through HttpServer::link" : "WebSocketServer") : "";
	if (!asan.empty()) report("asan", "ASan " + asan + " in server handshake" + shape, kase);
	size_t he = written.find("\r\n\r\n");
	if (written.find("HTTP/1.1 101") != 0 || he == std::string::npos || !carriesAccept(written.substr(0, he + 2), key)) { report("accept_key", "server handshake response for key " + key + shape + " does not carry '" + want.substr(0, want.size() - 2) + "': " + vf::hex(written.substr(0, 200)), kase); return; }
	bool echoed = true;
	if (ext) { std::vector<std::pair<int, std::string> > it; echoed = parseSent(written.substr(he + 4), false, it).empty() && it.size() == 1 && it[0].first == 2 && it[0].second == "ping!"; }
	if (!echoed) report("handshake", "the frame that followed the handshake request" + shape + " was not echoed behind the response: " + vf::hex(written.substr(he + 4, 60)), kase);
}
// conn:<kind>:<cut> — WebSocket::connect() against a listener that answers the request with a fixed response ended after <cut> bytes (-1: complete, then a text
// frame; the client's reply is read back). connect() may only succeed when the whole header block of a 101 response with the two upgrade fields has arrived.
static std::string respOf(int kind, const std::string& acc) {
	switch (kind) {
	case 0: return "HTTP/1.1 101 Switching Protocols\r\nUpgrade: websocket\r\nConnection: Upgrade\r\nSec-WebSocket-Accept: " + acc + "\r\n\r\n";
	case 1: return "HTTP/1.1 101 Switching Protocols\r\nServer: x\r\nConnection: keep-alive, Upgrade\r\nUpgrade: websocket\r\nSec-WebSocket-Accept: " + acc + "\r\nSec-WebSocket-Protocol: chat\r\n\r\n";
	case 2: return "HTTP/1.1 200 OK\r\nContent-Type: text/plain\r\nContent-Length: 2\r\n\r\nhi";
	case 3: return "HTTP/1.1 400 Bad request\r\n\r\nNot a WebSocket request";
	case 4: return "HTTP/1.1 101 Switching Protocols\r\nConnection: Upgrade\r\nSec-WebSocket-Accept: " + acc + "\r\n\r\n"; // no Upgrade field
	case 5: return "HTTP/1.1 101 Switching Protocols\r\nUpgrade: websocket\r\nSec-WebSocket-Accept: " + acc + "\r\n\r\n"; // no Connection field
	case 6: return "HTTP/1.1 301 Moved\r\nLocation: /x\r\nUpgrade: websocket\r\nConnection: Upgrade\r\n\r\n";
	}
	return "\r\n\r\n";
}
enum { NRESP = 8 };
struct RawPeer : public Thread {
	Socket* lst; int kind, cut; std::string req, got; size_t full; bool okKind;
	void run() {
		Socket c = lst->accept(); if (c.handle() < 0) return;
		for (int i = 0; i < 40; i++) { String l = c.readLine(); if (l.length() == 0) break; req += std::string(*l, l.length()) + "\n"; if (l == "\r") break; }
		std::string key; { size_t a = req.find("Sec-WebSocket-Key: "); if (a != std::string::npos) { a += 19; size_t b = req.find('\r', a); key = req.substr(a, b - a); } }
		std::string acc = sha1b64(key + "258EAFA5-E914-47DA-95CA-C5AB0DC85B11"), r;
		r = respOf(kind, acc);
		full = r.size(); okKind = kind <= 1;
		if (cut >= 0 && cut < (int)r.size()) r.resize(cut);
		if (okKind && cut < 0) r += frameBytes(mkFrame(true, 1, false, "hello"));
		if (!r.empty()) c.write(r.data(), (int)r.size());
		if (okKind && cut < 0) for (;;) { char ch; int n = c.read(&ch, 1); if (n <= 0) break; got += ch; }
		c.close();
	}
};
static void connectCase(int kind, int cut, const std::string& kase) {
	g_case = kase; vf::cur(kase); vf::add(C_EVAL); vf::add(C_DIST); vf::add(W_CONN);
	std::string verdict, asan; bool ok = false; size_t full = 0; bool okKind = false;
	auto body = [&]() {
		vf::asan_clear(); vnet::reset(); vnet::enable(true); vnet::set_limits(0, 0); verdict.clear();
		{
			Socket lst; lst.bind("127.0.0.1", 9000); lst.listen(2);
			RawPeer peer; peer.lst = &lst; peer.kind = kind; peer.cut = cut; peer.full = 0; peer.okKind = false; peer.start();
			std::string reply; bool closedAfter = true;
			{
				WebSocket ws; seedMask(ws, 99, 0);
				ok = ws.connect("127.0.0.1", 9000);
				if (ok && cut < 0) { WebSocketMsg m = ws.receive(); ByteArray b = m; reply.assign((const char*)b.data(), b.length()); ws.send(String("from-client")); }
				if (!ok) closedAfter = ws.closed();
				ws.close();
			}
			peer.join(); full = peer.full; okKind = peer.okKind;
			if (!ok && !closedAfter) verdict += "connect() failed but closed() is false; ";
			if (ok && cut < 0) {
				if (reply != "hello") verdict += fmt("the text frame sent behind the 101 response arrived as %d bytes; ", (int)reply.size());
				std::vector<std::pair<int, std::string> > fr; std::string bad = parseSent(peer.got, true, fr);
				if (!bad.empty() || fr.size() != 1 || fr[0].first != 1 || fr[0].second != "from-client") verdict += "the client's text message did not reach the peer as one masked text message (" + (bad.empty() ? fmt("%d message(s)", (int)fr.size()) : bad) + "); ";
			}
			lst.close();
		}
		vnet::enable(false);
		if (vf::asan_tripped()) asan = vf::asan_what();
	};
	vsched::set_early_timeouts(false);
	vsched::Result x = vsched::run_once(std::vector<uint8_t>(), body, 200000); vf::add(C_EXEC); vf::add(C_POINTS, x.points.size());
	vsched::set_early_timeouts(true);
	std::string what = fmt("connect() to a server answering with response %d%s", kind, cut < 0 ? "" : fmt(" ended after %d of %d bytes", cut, (int)full).c_str());
	if (!asan.empty()) report("asan", "ASan " + asan + " in " + what, kase);
	bool complete = cut < 0 || cut >= (int)full;
	bool mayOk = okKind && (complete || cut >= (int)full - 1); // without the very last LF every field has still arrived
	bool mustOk = okKind && complete;
	if (ok) vf::add(W_CONN_OK); else vf::add(W_CONN_FAIL);
	if (ok && !mayOk) verdict += "connect() returned true; ";
	if (!ok && mustOk) verdict += "connect() returned false; ";
	if (!verdict.empty()) report("connect_result", verdict + what, kase);
}

// ---------------------------------------------------------------- object re-use histories
// The families above build a fresh WebSocket (or server) for every case and use it once. Here ONE object lives through a history of uses and
// is then probed with the framing that matters (payload lengths on both sides of the 7-bit / 16-bit / 64-bit length forms, a message fragmented
// across the 16- and 64-bit forms, a ping) in the role of the object: a re-used object must frame exactly like a fresh one (the empty history).
// one execution under the default schedule; the state probe (a hash over all bytes in flight at every schedule point) is off: states are not counted here
static void runHist(const std::function<void()>& body) {
	vsched::set_early_timeouts(false); vsched::set_state_probe(0);
	vsched::Result x = vsched::run_once(std::vector<uint8_t>(), body, 4000000); vf::add(C_EXEC); vf::add(C_POINTS, x.points.size());
	vsched::set_state_probe(vnet::state_hash); vsched::set_early_timeouts(true);
}
static const int PROBE[] = { 1, 125, 126, 300, 65535, 65536, 70000 }; enum { NPROBE = 7 };
static std::string fragProbe(bool masked, bool withPing, unsigned key) { // a text message of 126 + 65536 bytes in two frames (16-bit and 64-bit length form), optionally a ping 'pi' in between
	std::string p = textPattern(126 + 65536, 4), s = frameBytes(mkFrame(false, 1, masked, p.substr(0, 126), key));
	if (withPing) s += frameBytes(mkFrame(true, 9, masked, "pi", key + 1));
	return s + frameBytes(mkFrame(true, 0, masked, p.substr(126), key + 2));
}
static const std::string& probeStream(bool masked, bool withPing, bool withClose) {
	static std::string cache[8]; std::string& s = cache[masked * 4 + withPing * 2 + withClose]; if (!s.empty()) return s; // per worker process
	static const unsigned keys[] = { 0x37fa213du, 0x00ff8001u, 0x01000000u, 0xffffffffu, 0x80000001u, 0x00000100u, 0xa5a55a5au };
	for (int i = 0; i < NPROBE; i++) s += frameBytes(mkFrame(true, 2, masked, pattern(PROBE[i], PROBE[i] % 7), keys[i]));
	s += fragProbe(masked, withPing, 0x11223344u) + frameBytes(mkFrame(true, 1, masked, "END", 0x0badf00du));
	if (withClose) s += frameBytes(mkFrame(true, 8, masked, std::string("\x03\xe8", 2), 0x5eed5eedu));
	return s;
}
static std::string histName(const std::string& ops) { return ops.empty() ? std::string("fresh object") : "object after the history [" + ops + "]"; }

// environment model: the name "nohost.invalid" (RFC 2606) does not resolve, and no resolver is asked; every other lookup goes to the C library
#include <netdb.h>
#include <dlfcn.h>
extern "C" int getaddrinfo(const char* node, const char* service, const struct addrinfo* hints, struct addrinfo** res) {
	static int (*real)(const char*, const char*, const struct addrinfo*, struct addrinfo**) = 0; if (!real) *(void**)&real = dlsym(RTLD_NEXT, "getaddrinfo");
	if (node && !strcmp(node, "nohost.invalid")) return EAI_NONAME;
	return real(node, service, hints, res);
}
// ---- client role: one WebSocket object, every use is one attempt to connect (with what follows on that connection)
//  R connect() to a port where nobody listens (refused at TCP level)      W connect("wss://...") (refused: built without TLS)      C close()
//  B the server answers 400     G it answers with a blank line     T its 101 response ends inside the header block     U 101 response without Upgrade field
//  X 101, text frame 'hello' received, text message sent, close()        P 101, 300-byte frame and Close frame 4321 'bye' received
//  E 101, 65536-byte frame received, then the server drops the connection        M 101, frame announcing 300 bytes of which 100 arrive
//  F 101, first fragment of a message, then the server drops the connection
//  D connect() to a host name that does not resolve (the resolver is modelled: see getaddrinfo below)      S connect() to [::1] where nobody listens (the socket changes its address family)
static const char CH_OPS[] = "RDSWCBGTUXPEMF";
struct HPeer : public Thread {
	Socket* lst; int kind, cut; std::string extra; bool readBack; bool accepted; std::string got;
	void run() {
		Socket c = lst->accept(); if (c.handle() < 0) return; accepted = true;
		std::string req; for (int i = 0; i < 40; i++) { String l = c.readLine(); if (l.length() == 0) break; req += std::string(*l, l.length()) + "\n"; if (l == "\r") break; }
		std::string key; { size_t a = req.find("Sec-WebSocket-Key: "); if (a != std::string::npos) { a += 19; size_t b = req.find('\r', a); key = req.substr(a, b - a); } }
		std::string r = respOf(kind, sha1b64(key + "258EAFA5-E914-47DA-95CA-C5AB0DC85B11"));
		if (cut >= 0 && cut < (int)r.size()) r.resize(cut);
		r += extra;
		if (!r.empty()) c.write(r.data(), (int)r.size());
		if (readBack) for (;;) { char buf[4096]; int n = c.read(buf, sizeof buf); if (n <= 0) break; got.append(buf, n); }
		c.close();
	}
};
// one connection attempt of `ws` to a scripted server on port 9000; client(ok) is the client's side of it. The listener lives for this use only.
template <class F> static void withPeer(WebSocket& ws, int kind, int cut, const std::string& extra, bool readBack, std::string& got, F client) {
	Socket lst; lst.bind("127.0.0.1", 9000); lst.listen(2);
	HPeer peer; peer.lst = &lst; peer.kind = kind; peer.cut = cut; peer.extra = extra; peer.readBack = readBack; peer.accepted = false; peer.start();
	bool ok = ws.connect("127.0.0.1", 9000);
	client(ok);
	if (!peer.accepted) { Socket d; d.connect("127.0.0.1", 9000); d.close(); } // never leave the peer thread waiting in accept()
	peer.join(); got = peer.got; lst.close();
}
// receive() until the connection is closed; the result is compared like a scripted stream (the peer of these uses closes after its last byte)
static void recvAll(WebSocket& ws, int maxCalls, RecvOut& o) {
	o.emptyReturns = 0; o.negLen = o.badAlloc = false; o.closedAtEnd = 0; o.code = 0;
	for (int i = 0; i < maxCalls && !ws.closed(); i++) {
		try { WebSocketMsg m = ws.receive(); if (m.length() < 0) o.negLen = true; if (m.length() > 0) { ByteArray b = m; o.msgs.push_back(std::string((const char*)b.data(), b.length())); } else o.emptyReturns++; }
		catch (std::bad_alloc&) { o.badAlloc = true; break; }
	}
	o.closedAtEnd = ws.closed(); o.code = ws.code();
}
static void clientHistCase(const std::string& ops, const std::string& kase) {
	g_case = kase; vf::cur(kase); vf::add(C_EVAL); vf::add(C_DIST);
	for (size_t i = 0; i < ops.size(); i++) if (!strchr(CH_OPS, ops[i])) { fprintf(stderr, "s_c11_ws: unknown use '%c' in %s\n", ops[i], kase.c_str()); exit(2); }
	std::string asan; int before = g_reports, compared = 0, sentChecked = 0;
	auto body = [&]() {
		vf::asan_clear(); vnet::reset(); vnet::enable(true); vnet::set_limits(0, 0);
		{
			WebSocket ws; seedMask(ws, 2024, 0);
			std::string done;
			auto failed = [&]() { return g_reports != before; };
			auto mustFail = [&](bool ok, const std::string& what) { if (ok || !ws.closed()) report("connect_result", std::string(ok ? "connect() returned true" : "connect() failed but closed() is false") + ": " + what + ", " + histName(done), kase); if (ok) ws.close(); };
			// a use whose server closes after its last byte: everything received is compared with the model of the stream
			auto halfDuplex = [&](int kind, const std::string& stream, const std::string& what) {
				std::string got; Model m = modelOf(stream, true);
				withPeer(ws, kind, -1, stream, false, got, [&](bool ok) {
					std::string w = what + ", " + histName(done);
					if (!ok) { report("connect_result", "connect() returned false: " + w, kase); ws.close(); return; }
					RecvOut o; recvAll(ws, (int)m.msgs.size() + 3, o); compared += (int)o.msgs.size();
					checkStream(o, m, true, kase, w); });
			};
			for (size_t i = 0; i <= ops.size() && !failed(); i++) {
				char op = i < ops.size() ? ops[i] : '!'; std::string got;
				switch (op) {
				case 'R': mustFail(ws.connect("127.0.0.1", 9001), "connect() to a port without listener"); break;
				case 'D': mustFail(ws.connect("nohost.invalid", 9000), "connect() to a host name that does not resolve"); break;
				case 'S': mustFail(ws.connect("ws://[::1]:9001"), "connect() to an IPv6 address and port without listener"); break;
				case 'W':
#ifndef ASL_TLS
					mustFail(ws.connect("wss://127.0.0.1:9000"), "connect() to a wss: URL without TLS support");
#endif
					break;
				case 'C': ws.close(); if (!ws.closed()) report("eof_not_closed", "closed() is false after close(), " + histName(done), kase); break;
				case 'B': case 'G': case 'T': case 'U': {
					int kind = op == 'B' ? 3 : op == 'G' ? 7 : op == 'T' ? 0 : 4;
					withPeer(ws, kind, op == 'T' ? 40 : -1, "", false, got, [&](bool ok) { mustFail(ok, fmt("connect() to a server answering with response %d%s", kind, op == 'T' ? " ended after 40 bytes" : "")); });
					break; }
				case 'X':
					withPeer(ws, 0, -1, frameBytes(mkFrame(true, 1, false, "hello")), true, got, [&](bool ok) {
						if (!ok) { report("connect_result", "connect() returned false: server answering 101, " + histName(done), kase); ws.close(); return; }
						RecvOut o; recvAll(ws, 1, o);
						if (o.msgs.size() != 1 || o.msgs[0] != "hello") report("message_bytes", fmt("the text frame 'hello' sent behind the 101 response arrived as %d message(s)", (int)o.msgs.size()) + ", " + histName(done), kase);
						ws.send(String("from-client")); ws.close(); });
					if (!failed()) { std::vector<std::pair<int, std::string> > fr; std::string bad = parseSent(got, true, fr); if (bad.empty() && (fr.size() != 1 || fr[0].first != 1 || fr[0].second != "from-client")) bad = fmt("%d frame(s) instead of the text frame 'from-client'", (int)fr.size());
						if (!bad.empty()) report("send_framing", "send(String) as client, " + histName(done) + ": " + bad, kase); }
					break;
				case 'P': halfDuplex(1, frameBytes(mkFrame(true, 2, false, pattern(300, 2))) + ctlFrame(8, false, 0), "300-byte binary frame and Close frame 4321 'bye' from the server"); break;
				case 'E': halfDuplex(0, frameBytes(mkFrame(true, 2, false, pattern(65536, 1))), "65536-byte binary frame from the server, which then drops the connection"); break;
				case 'M': halfDuplex(0, frameBytes(mkFrame(true, 2, false, pattern(300, 3))).substr(0, 104), "frame announcing 300 bytes of which 100 arrive"); break;
				case 'F': halfDuplex(0, frameBytes(mkFrame(false, 1, false, "frag")), "first fragment of a text message, then the server drops the connection"); break;
				case '!': { // the probe: (a) everything a server can send, compared with the model; (b) a ping answered and every probe length sent by the client
					halfDuplex(1, probeStream(false, false, true), "probe: binary frames of 1, 125, 126, 300, 65535, 65536, 70000 bytes, a text message in fragments 126|65536, text frame END and Close frame 1000 from the server");
					if (failed()) break;
					std::string in = frameBytes(mkFrame(true, 9, false, "pi")) + frameBytes(mkFrame(true, 2, false, pattern(126, 0))) + frameBytes(mkFrame(true, 2, false, pattern(65536, 6)));
					withPeer(ws, 0, -1, in, true, got, [&](bool ok) {
						if (!ok) { report("connect_result", "connect() returned false: server answering 101, " + histName(done), kase); ws.close(); return; }
						RecvOut o; recvAll(ws, 2, o); compared += (int)o.msgs.size();
						if (o.msgs.size() != 2 || o.msgs[0] != pattern(126, 0) || o.msgs[1] != pattern(65536, 6)) report("message_bytes", fmt("probe: ping 'pi', 126-byte and 65536-byte binary frames from the server arrived as %d message(s)%s", (int)o.msgs.size(), o.msgs.empty() ? "" : fmt(", the first of %d bytes", (int)o.msgs[0].size()).c_str()) + ", " + histName(done), kase);
						else for (int k = 0; k < NPROBE; k++) { std::string p = pattern(PROBE[k], 5); ws.send(ByteArray((const byte*)p.data(), (int)p.size())); }
						ws.close(); });
					if (failed()) break;
					std::vector<std::pair<int, std::string> > fr; std::string bad = parseSent(got, true, fr);
					if (bad.empty() && (fr.empty() || fr[0].first != 10 || fr[0].second != "pi")) { report("pong", "probe: the ping 'pi' was not answered by a pong 'pi' before anything else was sent, " + histName(done), kase); break; }
					if (bad.empty() && fr.size() != 1 + NPROBE) bad = fmt("%d frames instead of %d", (int)fr.size() - 1, (int)NPROBE);
					for (int k = 0; bad.empty() && k < NPROBE; k++) { if (fr[k + 1].first != 2) bad = fmt("opcode %d for the binary message of %d bytes", fr[k + 1].first, PROBE[k]); else if (fr[k + 1].second != pattern(PROBE[k], 5)) bad = fmt("payload of the %d-byte message differs after unmasking (%d bytes)", PROBE[k], (int)fr[k + 1].second.size()); sentChecked++; }
					if (!bad.empty()) report("send_framing", "probe: send(ByteArray) of 1, 125, 126, 300, 65535, 65536, 70000 bytes as client, " + histName(done) + ": " + bad, kase);
					break; }
				}
				if (i < ops.size()) done += op;
			}
			ws.close();
		}
		vnet::enable(false);
		if (vf::asan_tripped()) asan = vf::asan_what();
	};
	runHist(body);
	if (!asan.empty()) report("asan", "ASan " + asan + " in the uses of a client " + histName(ops), kase);
	vf::add(W_RH_CLIENT);
	if (!ops.empty() && g_reports == before) {
		vf::add(W_RH_COMPARED, compared); vf::add(W_RH_SENT, sentChecked);
		if (ops.find_first_of("RDS") != std::string::npos) vf::add(W_RH_REFUSED); if (ops.find_first_of("BGTU") != std::string::npos) vf::add(W_RH_BADRESP); if (ops.find_first_of("XPEMF") != std::string::npos) vf::add(W_RH_RECONNECT);
	}
}

// ---- server role: one WebSocketServer object (optionally linked to one HttpServer object) serves a history of connections, one after the other
//  N plain HTTP request     L request with a header line without colon     Z connection without a byte     H upgrade request ending inside the header block
//  X upgrade, masked binary frames of 126 and 65536 bytes, Close 1000        P upgrade asking for a protocol, text frame 'hello', Close 4321 'bye'
//  E upgrade, 300-byte frame, connection dropped       M upgrade, frame announcing 300 bytes of which 100 arrive       F upgrade, first fragment, connection dropped
//  K upgrade, unmasked frame (not allowed from a client: safety only)
static const char SH_OPS[] = "NLZHXPEMFK";
struct HistServer : public WebSocketServer {
	std::vector<std::string> seen; int code, calls, limit; bool closedEnd;
	HistServer() : code(0), calls(0), limit(64), closedEnd(false) {}
	void serve(WebSocket& ws) { calls++; int n = 0; for (int i = 0; i < 64 && n < limit && !ws.closed(); i++) { WebSocketMsg m = ws.receive(); if (m.length() > 0) { ByteArray b = m; seen.push_back(std::string((const char*)b.data(), b.length())); ws.send(ByteArray(b)); n++; } } closedEnd = n < limit ? ws.closed() : true; code = ws.code(); }
};
static std::string wsRequest(const std::string& key, bool proto) { return "GET /chat HTTP/1.1\r\nHost: h\r\nUpgrade: websocket\r\nConnection: Upgrade\r\nSec-WebSocket-Key: " + key + "\r\n" + (proto ? "Sec-WebSocket-Protocol: chat\r\n" : "") + "Sec-WebSocket-Version: 13\r\n\r\n"; }
static void serverHistCase(int via, int pre, const std::string& ops, const std::string& kase) {
	g_case = kase; vf::cur(kase); vf::add(C_EVAL);
	for (size_t i = 0; i < ops.size(); i++) if (!strchr(SH_OPS, ops[i])) { fprintf(stderr, "s_c11_ws: unknown use '%c' in %s\n", ops[i], kase.c_str()); exit(2); }
	if (pre && !via) return; // a plain request before the upgrade on the same connection needs the HttpServer
	vf::add(C_DIST);
	std::string asan; int before = g_reports, compared = 0;
	auto body = [&]() {
		vf::asan_clear(); vnet::reset(); vnet::enable(true); vnet::set_limits(0, 0);
		{
			HistServer srv; HttpServer http; if (via) http.link(srv);
			std::string done;
			for (size_t i = 0; i <= ops.size() && g_reports == before; i++) {
				char op = i < ops.size() ? ops[i] : '!';
				std::string key = fmt("%016dAAAAAA==", (int)(i + 1) * 7919), frames, in, what; bool isWs = true, proto = false;
				switch (op) {
				case 'N': in = "GET /index HTTP/1.1\r\nHost: h\r\n\r\n"; isWs = false; break;
				case 'L': in = "GET /chat HTTP/1.1\r\nUpgrade: websocket\r\nbroken line\r\n\r\n"; isWs = false; break;
				case 'Z': isWs = false; break;
				case 'H': in = wsRequest(key, false).substr(0, 60); isWs = false; break;
				case 'X': frames = frameBytes(mkFrame(true, 2, true, pattern(126, 1), 0x00ff8001u)) + frameBytes(mkFrame(true, 2, true, pattern(65536, 2), 0x80000001u)) + ctlFrame(7, true, 0x5eed5eedu); what = "masked binary frames of 126 and 65536 bytes and Close frame 1000"; break;
				case 'P': proto = true; frames = frameBytes(mkFrame(true, 1, true, "hello", 0x01020304u)) + ctlFrame(8, true, 0x5eed5eedu); what = "masked text frame 'hello' and Close frame 4321 'bye'"; break;
				case 'E': frames = frameBytes(mkFrame(true, 2, true, pattern(300, 2), 0xa5a55a5au)); what = "masked 300-byte frame, then the client drops the connection"; break;
				case 'M': frames = frameBytes(mkFrame(true, 2, true, pattern(300, 3), 0xa5a55a5au)).substr(0, 108); what = "masked frame announcing 300 bytes of which 100 arrive"; break;
				case 'F': frames = frameBytes(mkFrame(false, 1, true, "frag", 0x01020304u)); what = "first fragment of a text message, then the client drops the connection"; break;
				case 'K': frames = frameBytes(mkFrame(true, 2, false, pattern(126, 1))); what = "unmasked 126-byte frame"; break;
				case '!': frames = probeStream(true, true, true); what = "probe: masked binary frames of 1, 125, 126, 300, 65535, 65536, 70000 bytes, a text message in fragments 126|65536 with a ping in between, text frame END and Close frame 1000"; break;
				}
				if (isWs) in = wsRequest(key, proto) + frames;
				if (op == '!' && pre) in = "GET /index HTTP/1.1\r\nHost: h\r\nConnection: keep-alive\r\n\r\n" + in;
				srv.seen.clear(); srv.closedEnd = false; srv.code = 0; int calls0 = srv.calls;
				int fd = vnet::scripted(in.empty() ? std::vector<std::string>() : std::vector<std::string>(1, in));
				{ Socket c(fd); if (via) ((SocketServer&)http).serve(c); else ((SocketServer&)srv).serve(c); }
				std::string written = vnet::written(fd);
				if (isWs) {
					std::string w = what + (op == '!' && pre ? " behind a plain request on the same connection" : "") + (via ? ", through HttpServer::link" : "") + ", server " + histName(done);
					std::string want = "Sec-WebSocket-Accept: " + sha1b64(key + "258EAFA5-E914-47DA-95CA-C5AB0DC85B11") + "\r\n"; // for the message only
					size_t h0 = written.find("HTTP/1.1 101"), he = h0 == std::string::npos ? h0 : written.find("\r\n\r\n", h0);
					if (h0 == std::string::npos || (h0 != 0 && !(op == '!' && pre)) || he == std::string::npos || !carriesAccept(written.substr(h0, he + 2 - h0), key)) { report("accept_key", "server handshake response for key " + key + " does not carry '" + want.substr(0, want.size() - 2) + "': " + vf::hex(written.substr(0, 200)) + ": " + w, kase); break; }
					if (srv.calls != calls0 + 1) { report("handshake", fmt("serve(WebSocket&) was called %d times for one connection: ", srv.calls - calls0) + w, kase); break; }
					Model m = modelOf(frames, false);
					RecvOut o; o.msgs = srv.seen; o.emptyReturns = 0; o.negLen = o.badAlloc = false; o.closedAtEnd = srv.closedEnd; o.code = srv.code;
					// what the server wrote behind its response: pongs (compared by checkStream) and the echoes
					std::string rest = written.substr(he + 4), echoes; std::vector<std::string> echoed; size_t pos = 0; bool whole = true;
					while (pos < rest.size()) { Frame f; bool canon; size_t used = parseFrameAt(rest, pos, f, &canon); if (!used) { whole = false; break; } if (f.opcode == 10 || f.opcode == 8) o.written += rest.substr(pos, used); else { echoes += rest.substr(pos, used); echoed.push_back(f.payload); } pos += used; }
					checkStream(o, m, false, kase, w);
					if (m.strict && g_reports == before) {
						std::vector<std::pair<int, std::string> > it; std::string bad = whole ? parseSent(echoes, false, it) : std::string("bytes that are no frame"); bool okEcho = bad.empty() && it.size() == m.msgs.size();
						for (size_t k = 0; okEcho && k < it.size(); k++) okEcho = it[k].first == 2 && it[k].second == m.msgs[k];
						if (!okEcho) report("handshake", fmt("the %d message(s) were not echoed behind the response as %d unmasked binary messages with canonical lengths (%d frame(s) written%s): ", (int)m.msgs.size(), (int)m.msgs.size(), (int)echoed.size(), bad.empty() ? "" : (", " + bad).c_str()) + w, kase);
						compared += (int)m.msgs.size();
					}
				}
				if (i < ops.size()) done += op;
			}
		}
		vnet::enable(false);
		if (vf::asan_tripped()) asan = vf::asan_what();
	};
	runHist(body);
	if (!asan.empty()) report("asan", "ASan " + asan + " in the connections served by a server " + histName(ops), kase);
	vf::add(W_RH_SERVER);
	if (g_reports == before) { if (!ops.empty()) { vf::add(W_RH_SRV_LATER); vf::add(W_RH_COMPARED, compared); } if (pre) vf::add(W_RH_PRE); }
}

// ---- library client object against library server object, both re-used: R connect() refused, X echo of a 126-byte message then close() by the client,
// Y echo of a 300-byte message after which the server ends the connection; then every probe length is echoed
static const char CS_OPS[] = "RXY";
struct LoopAcceptor : public Thread {
	HistServer* srv; Socket* lst; volatile bool stop; std::vector<int> limits; int n;
	void run() { for (n = 0; ; n++) { Socket c = lst->accept(); if (stop || c.handle() < 0) return; srv->limit = n < (int)limits.size() ? limits[n] : 64; ((SocketServer*)srv)->serve(c); } }
};
static void bothHistCase(const std::string& ops, const std::string& kase) {
	g_case = kase; vf::cur(kase); vf::add(C_EVAL); vf::add(C_DIST);
	for (size_t i = 0; i < ops.size(); i++) if (!strchr(CS_OPS, ops[i])) { fprintf(stderr, "s_c11_ws: unknown use '%c' in %s\n", ops[i], kase.c_str()); exit(2); }
	std::string asan, verdict; int compared = 0;
	auto body = [&]() {
		vf::asan_clear(); vnet::reset(); vnet::enable(true); vnet::set_limits(0, 0); verdict.clear(); compared = 0;
		{
			HistServer srv; Socket lst; lst.bind("127.0.0.1", 9000); lst.listen(4);
			LoopAcceptor acc; acc.srv = &srv; acc.lst = &lst; acc.stop = false; acc.n = 0;
			for (size_t i = 0; i < ops.size(); i++) if (ops[i] != 'R') acc.limits.push_back(ops[i] == 'Y' ? 1 : 64);
			acc.start();
			std::vector<std::string> sent;
			{
				WebSocket ws; seedMask(ws, 777, 0); std::string done;
				auto echo = [&](int len, int seed) { std::string p = pattern(len, seed); sent.push_back(p); ws.send(ByteArray((const byte*)p.data(), (int)p.size())); WebSocketMsg m = ws.receive(); ByteArray b = m; compared++;
					if (b.length() != len || memcmp(b.data(), p.data(), len) != 0) verdict += fmt("client received %d bytes instead of its %d-byte echo (%s); ", b.length(), len, histName(done).c_str()); };
				for (size_t i = 0; i <= ops.size() && verdict.empty(); i++) {
					char op = i < ops.size() ? ops[i] : '!';
					if (op == 'R') { if (ws.connect("127.0.0.1", 9001) || !ws.closed()) verdict += "connect() to a port without listener did not fail; "; }
					else if (!ws.connect("127.0.0.1", 9000)) verdict += "client connect() failed (" + histName(done) + "); ";
					else if (op == 'X') { echo(126, 1); ws.close(); }
					else if (op == 'Y') { echo(300, 2); WebSocketMsg m = ws.receive(); if (m.length() != 0 || !ws.closed()) verdict += "the client does not see that the server ended the connection; "; }
					else { for (int k = 0; k < NPROBE && verdict.empty(); k++) echo(PROBE[k], k); ws.close(); }
					if (i < ops.size()) done += op;
				}
				ws.close();
			}
			acc.stop = true; { Socket d; d.connect("127.0.0.1", 9000); d.close(); }
			acc.join(); lst.close();
			if (verdict.empty() && srv.seen != sent) verdict += fmt("the server received %d message(s), %d were sent, or their bytes differ; ", (int)srv.seen.size(), (int)sent.size());
		}
		if (vnet::misuse()) verdict += fmt("%d operation(s) on closed descriptors; ", vnet::misuse());
		vnet::enable(false);
		if (vf::asan_tripped()) asan = vf::asan_what();
	};
	runHist(body);
	if (!asan.empty()) report("asan", "ASan " + asan + " in client and server " + histName(ops), kase);
	if (!verdict.empty()) report("handshake", verdict + "library client and server objects, " + histName(ops), kase);
	vf::add(W_RH_BOTH); if (!ops.empty() && verdict.empty()) vf::add(W_RH_COMPARED, compared);
}

// ---- reference SHA-1 + base64 (std only; RFC 6455 sample vector asserted at start-up)
static std::string sha1b64(const std::string& in) {
	uint32_t h[5] = { 0x67452301, 0xEFCDAB89, 0x98BADCFE, 0x10325476, 0xC3D2E1F0 };
	std::string m = in; uint64_t bits = (uint64_t)in.size() * 8; m += (char)0x80; while (m.size() % 64 != 56) m += (char)0; for (int i = 7; i >= 0; i--) m += (char)(bits >> (8 * i));
	for (size_t o = 0; o < m.size(); o += 64) {
		uint32_t w[80]; for (int i = 0; i < 16; i++) w[i] = ((unsigned char)m[o + 4 * i] << 24) | ((unsigned char)m[o + 4 * i + 1] << 16) | ((unsigned char)m[o + 4 * i + 2] << 8) | (unsigned char)m[o + 4 * i + 3];
		for (int i = 16; i < 80; i++) { uint32_t t = w[i - 3] ^ w[i - 8] ^ w[i - 14] ^ w[i - 16]; w[i] = (t << 1) | (t >> 31); }
		uint32_t a = h[0], b = h[1], c = h[2], d = h[3], e = h[4];
		for (int i = 0; i < 80; i++) { uint32_t f, k; if (i < 20) { f = (b & c) | (~b & d); k = 0x5A827999; } else if (i < 40) { f = b ^ c ^ d; k = 0x6ED9EBA1; } else if (i < 60) { f = (b & c) | (b & d) | (c & d); k = 0x8F1BBCDC; } else { f = b ^ c ^ d; k = 0xCA62C1D6; } uint32_t t = ((a << 5) | (a >> 27)) + f + e + k + w[i]; e = d; d = c; c = (b << 30) | (b >> 2); b = a; a = t; }
		h[0] += a; h[1] += b; h[2] += c; h[3] += d; h[4] += e;
	}
	unsigned char dg[21]; for (int i = 0; i < 5; i++) { dg[4 * i] = h[i] >> 24; dg[4 * i + 1] = h[i] >> 16; dg[4 * i + 2] = h[i] >> 8; dg[4 * i + 3] = h[i]; } dg[20] = 0;
	static const char* A = "ABCDEFGHIJKLMNOPQRSTUVWXYZabcdefghijklmnopqrstuvwxyz0123456789+/"; std::string out;
	for (int i = 0; i < 18; i += 3) { unsigned v = (dg[i] << 16) | (dg[i + 1] << 8) | dg[i + 2]; out += A[v >> 18]; out += A[(v >> 12) & 63]; out += A[(v >> 6) & 63]; out += A[v & 63]; }
	{ unsigned v = (dg[18] << 16) | (dg[19] << 8); out += A[v >> 18]; out += A[(v >> 12) & 63]; out += A[(v >> 6) & 63]; out += '='; }
	return out;
}

static void run_case(const std::string& k) {
	int a, b, c, d, e, v[12];
	if (sscanf(k.c_str(), "len:%d:%d:%d", &a, &b, &c) == 3) lenCase(a, b, c, k);
	else if (sscanf(k.c_str(), "len:%d:%d", &a, &b) == 2) lenCase(a, b, 0, k);
	else if (sscanf(k.c_str(), "cut:%d:%d:%d", &a, &b, &c) == 3) cutCase(a, b, c, k);
	else if (sscanf(k.c_str(), "mask:%d:%d", &a, &b) == 2) maskCase(a, b, k);
	else if (sscanf(k.c_str(), "frag:%d:%d:%d:%d", &a, &b, &c, &d) == 4) fragCase(a, b, c, d != 0, k);
	else if (sscanf(k.c_str(), "fx:%d:%d:%d:%d:%d:%d:%d:%d:%d:%d:%d:%d", &v[0], &v[1], &v[2], &v[3], &v[4], &v[5], &v[6], &v[7], &v[8], &v[9], &v[10], &v[11]) == 12) fxCase(v[0], v + 1, v[4], v[5] != 0, v[6], v[7], v[8], v[9], v[10], v[11], k);
	else if (sscanf(k.c_str(), "host:%d:%d:%d:%d:%d", &a, &b, &c, &d, &e) == 5) hostileCase(a, b, c, d, e, k);
	else if (sscanf(k.c_str(), "send:%d:%d:%d", &a, &b, &c) == 3) sendCase(a, b != 0, c, k);
	else if (sscanf(k.c_str(), "sendv:%d:%d", &a, &b) == 2) sendVarCase(a, b != 0, k);
	else if (sscanf(k.c_str(), "akey:%d", &a) == 1) acceptKeyCase(a, 0, 0, 0, 0, false, k);
	else if (sscanf(k.c_str(), "akx:%d:%d:%d:%d:%d", &a, &b, &c, &d, &e) == 5) acceptKeyCase(a, b, c, d, e, true, k);
	else if (sscanf(k.c_str(), "conn:%d:%d", &a, &b) == 2) connectCase(a, b, k);
	else if (sscanf(k.c_str(), "echo:%d:%d", &a, &b) == 2) handshakeJob(0, a, 0, b);
	else if (sscanf(k.c_str(), "handshake:%d:%d", &a, &b) == 2) { std::string sched; size_t bar = k.find('|'); if (bar != std::string::npos) sched = k.substr(bar + 1); handshakeJob(a, b, bar == std::string::npos ? 0 : &sched); }
	else if (k.compare(0, 3, "ch:") == 0) clientHistCase(k.substr(3) == "-" ? std::string() : k.substr(3), k);
	else if (sscanf(k.c_str(), "sh:%d:%d:", &a, &b) == 2) { std::string o = k.substr(k.rfind(':') + 1); serverHistCase(a, b, o == "-" ? std::string() : o, k); }
	else if (k.compare(0, 3, "cs:") == 0) bothHistCase(k.substr(3) == "-" ? std::string() : k.substr(3), k);
	else { fprintf(stderr, "s_c11_ws: unknown case '%s'\n", k.c_str()); exit(2); }
}
// all nondecreasing triples over the given cut values
static std::vector<std::vector<int> > triples(const std::vector<int>& vals) { std::vector<std::vector<int> > r; for (size_t i = 0; i < vals.size(); i++) for (size_t j = i; j < vals.size(); j++) for (size_t l = j; l < vals.size(); l++) { std::vector<int> t; t.push_back(vals[i]); t.push_back(vals[j]); t.push_back(vals[l]); r.push_back(t); } return r; }
static std::vector<int> upto(int n) { std::vector<int> v; for (int i = 0; i <= n; i++) v.push_back(i); return v; }
// all strings over the alphabet up to the given length ("-" is the empty one)
static std::vector<std::string> histories(const char* alphabet, int depth) { std::vector<std::string> r(1, "-"), level(1, ""); for (int d = 1; d <= depth; d++) { std::vector<std::string> next; for (size_t i = 0; i < level.size(); i++) for (const char* c = alphabet; *c; c++) next.push_back(level[i] + *c); r.insert(r.end(), next.begin(), next.end()); level = next; } return r; }
static size_t streamSize(int len, bool masked) { return 2 + (len < 126 ? 0 : len < 65536 ? 2 : 8) + (masked ? 4 : 0) + len + 2 + (masked ? 4 : 0) + 3; }

// wall seconds per family, kept in the part file (info.phase_seconds)
static std::string g_phases; static double g_t0;
static void phase(const char* name) { double t = vf::now_s(); if (!g_phases.empty()) g_phases += ", "; g_phases += fmt("\"%s\": %.1f", name, t - g_t0); g_t0 = t; }
int main(int argc, char** argv) {
	vf::init(argc, argv, "C11", "s_c11_ws"); g_t0 = vf::now_s();
	C_EVAL = vf::counter("evaluations"); C_DIST = vf::counter("distinct_nontrivial"); C_EXEC = vf::counter("traces"); C_POINTS = vf::counter("transitions"); vf::counter("states");
	W_BADALLOC = vf::counter("w.absurd_lengths_refused_by_allocator"); W_LEN16 = vf::counter("w.frames_with_16bit_length"); W_LEN64 = vf::counter("w.frames_with_64bit_length"); W_MASKED = vf::counter("w.masked_frames"); W_FRAG = vf::counter("w.fragmented_messages"); W_PING_BETWEEN = vf::counter("w.ping_between_fragments");
	W_HOSTILE_CLOSED = vf::counter("w.hostile_inputs_without_message"); W_HOSTILE_MSG = vf::counter("w.hostile_inputs_yielding_a_message"); W_NEG64 = vf::counter("w.length_fields_with_bit31_set"); W_HANDSHAKE = vf::counter("w.handshake_executions"); W_PREEMPT = vf::counter("w.executions_with_preemption");
	W_CUT = vf::counter("w.truncated_streams"); W_CUT_INFRAME = vf::counter("w.streams_ending_inside_a_frame"); W_CUT_MIDMSG = vf::counter("w.streams_ending_between_fragments"); W_CLOSE = vf::counter("w.streams_with_close_frame"); W_CLOSE_REASON = vf::counter("w.close_frames_with_reason_text_compared"); W_CLOSE_REASON_RET = vf::counter("w.close_reason_returned_by_receive"); W_CLOSE_MID = vf::counter("w.close_between_fragments"); W_CLOSE_CODE = vf::counter("w.close_codes_compared");
	W_PONG_IN = vf::counter("w.pong_frames_received"); W_PING_EMPTY = vf::counter("w.empty_pings"); W_PING125 = vf::counter("w.pings_of_125_bytes"); W_TWO_CTL = vf::counter("w.streams_with_two_control_frames"); W_PONGS_CHECKED = vf::counter("w.streams_with_pongs_compared");
	W_ACC = vf::counter("w.messages_seen_through_string_accessors"); W_NUL = vf::counter("w.messages_with_nul_seen_through_accessors"); W_NONCANON = vf::counter("w.noncanonical_length_forms_compared"); W_NONCANON_ACC = vf::counter("w.noncanonical_length_forms_accepted"); W_BIGFRAG = vf::counter("w.fragments_of_126_bytes_or_more"); W_BIGLEN = vf::counter("w.payloads_above_70000"); W_CHUNKED = vf::counter("w.payloads_in_4096_byte_chunks");
	W_SEND_FORMS = vf::counter("w.send_overloads_and_frame_types"); W_VAR = vf::counter("w.var_messages"); W_AKX = vf::counter("w.handshake_request_shapes"); W_AKX_NOSPACE = vf::counter("w.requests_without_space_after_colon"); W_AKX_HTTP = vf::counter("w.handshakes_through_httpserver_link");
	W_CONN = vf::counter("w.connects_to_scripted_server"); W_CONN_FAIL = vf::counter("w.connects_refused"); W_CONN_OK = vf::counter("w.connects_accepted"); W_ECHO_BIG = vf::counter("w.large_echoes_over_a_filling_pipe"); W_HOSTILE_STRICT = vf::counter("w.hostile_streams_compared_exactly");
	W_RH_CLIENT = vf::counter("w.reuse_client_histories"); W_RH_COMPARED = vf::counter("w.reuse_messages_compared_on_reused_objects"); W_RH_SENT = vf::counter("w.reuse_frames_sent_by_reused_clients"); W_RH_REFUSED = vf::counter("w.reuse_connected_after_refused_connect");
	W_RH_BADRESP = vf::counter("w.reuse_connected_after_rejected_handshake"); W_RH_RECONNECT = vf::counter("w.reuse_connected_again_after_a_connection"); W_RH_SERVER = vf::counter("w.reuse_server_histories"); W_RH_SRV_LATER = vf::counter("w.reuse_server_probed_after_earlier_connections");
	W_RH_PRE = vf::counter("w.reuse_upgrade_behind_plain_request_on_same_connection"); W_RH_BOTH = vf::counter("w.reuse_client_and_server_histories");
	vsched::set_fatal_handler(onFatal);
	vsched::set_state_probe(vnet::state_hash);
	if (sha1b64("dGhlIHNhbXBsZSBub25jZQ==258EAFA5-E914-47DA-95CA-C5AB0DC85B11") != "s3pPLMBiTxaQ9kYGzzhZRbK+xOo=") { fprintf(stderr, "HARNESS ERROR: reference SHA-1/base64 fails the RFC 6455 vector\n"); return 2; }
	for (int n = 0; n <= 300; n++) for (int sd = 0; sd < 8; sd++) { std::string tp = textPattern(n, sd * 37); if (tp.size() != (size_t)n || !isUtf8(tp) || isUtf8(tp + "\xc0") || isUtf8("\xed\xa0\x80")) { fprintf(stderr, "HARNESS ERROR: textPattern(%d) is not UTF-8 of that length\n", n); return 2; } }
	if (vf::opt.replay) { vf::parallel(1, [&](uint64_t) { run_case(vf::opt.kase); }); return vf::finish(); }
	bool T = vf::opt.thorough();
	// (1) payload lengths
	std::vector<int> lens;
	if (T) for (int n = 1; n <= 70000; n++) lens.push_back(n);
	else { for (int n = 1; n <= 3000; n++) lens.push_back(n); for (int n = 65000; n <= 66100; n++) lens.push_back(n); lens.push_back(16000); lens.push_back(16001); lens.push_back(32768); lens.push_back(70000); }
	vf::parallel(lens.size(), [&](uint64_t i) { int nv = lens[i] <= 300 ? 6 : 4; for (int v = 0; v < nv; v++) run_case(fmt("len:%d:%d", lens[i], v)); }, 8);
	phase("lengths");
	// (1b) lengths above 70000, also with the payload arriving in 4096-byte chunks; boundary lengths in chunks
	{
		std::vector<int> big; big.push_back(1 << 17); big.push_back((1 << 20) - 1); big.push_back(1 << 20); big.push_back((1 << 20) + 1); big.push_back(1 << 22); if (T) { big.push_back(70001); big.push_back((1 << 22) + 1); big.push_back(3000000); }
		int bnd[] = { 125, 126, 127, 4095, 4096, 4097, 65535, 65536, 65537, 70000 };
		vf::parallel(big.size() * 6 + 10 * 2, [&](uint64_t i) { if (i < big.size() * 6) { int v = (int)(i % 6); run_case(fmt("len:%d:%d", big[i / 6], v < 4 ? v : v + 2)); } else { uint64_t j = i - big.size() * 6; run_case(fmt("len:%d:%d", bnd[j / 2], 6 + (int)(j % 2))); } });
	}
	phase("big_lengths");
	// (1c) non-minimal length forms (16-bit form for lengths < 126, 64-bit form for lengths < 65536)
	vf::parallel(T ? 1000 : 300, [&](uint64_t i) { int len = (int)i + 1; for (int mode = 1; mode <= 2; mode++) for (int v = 0; v < 6; v++) if (v < 4 || len <= 300) run_case(fmt("len:%d:%d:%d", len, v, mode)); }, 4);
	phase("noncanonical");
	// (1d) every stream of (1) for short messages and at the 16/64-bit boundary, ended at every byte offset
	{
		int smallMax = T ? 600 : 300, bw = T ? 64 : 24;
		vf::parallel(smallMax, [&](uint64_t i) { int len = (int)i + 1; for (int mk = 0; mk < 2; mk++) { int n = (int)streamSize(len, mk); for (int off = 0; off <= n; off++) { run_case(fmt("cut:%d:%d:%d", len, mk, off)); if (len <= bw) run_case(fmt("cut:%d:%d:%d", len, mk | 2, off)); } } });
		int bl[] = { 65535, 65536 };
		std::vector<std::string> jobs;
		for (int b = 0; b < 2; b++) for (int mk = 0; mk < 2; mk++) { int n = (int)streamSize(bl[b], mk); for (int off = 0; off <= n; off++) if (T || off <= 40 || off >= n - 40 || off % 4093 == 0 || off % 4096 <= 1) jobs.push_back(fmt("cut:%d:%d:%d", bl[b], mk, off)); }
		vf::parallel(jobs.size(), [&](uint64_t i) { run_case(jobs[i]); }, 64);
	}
	phase("cut_streams");
	// (2) masks
	vf::parallel(256, [&](uint64_t m) { for (int len = 1; len <= 9; len++) run_case(fmt("mask:%d:%d", len, (int)m)); });
	phase("masks");
	// (3) fragmentation with pings (older form: binary message, one ping 'pi')
	for (int n = 1; n <= (T ? 6 : 5); n++) { int nc = (n + 1) * (n + 1) * (n + 1); vf::parallel(nc, [&](uint64_t cuts) { for (int ping = -1; ping <= 4; ping++) for (int mk = 0; mk < 2; mk++) run_case(fmt("frag:%d:%d:%d:%d", n, (int)cuts, ping, mk)); }, 4); }
	phase("frag_old");
	// (3b) every fragmentation with one control frame of every kind (pings of 0, 2, 125 bytes, pongs, Close frames) at every position, text and binary
	for (int n = 1; n <= (T ? 6 : 5); n++) { std::vector<std::vector<int> > tr = triples(upto(n)); vf::parallel(tr.size(), [&](uint64_t t) { for (int op = 1; op <= 2; op++) for (int mk = 0; mk < 2; mk++) { for (int k1 = 1; k1 < NCTL; k1++) for (int p1 = 0; p1 <= 4; p1++) run_case(fmt("fx:%d:%d:%d:%d:%d:%d:%d:%d:0:0:-1:0", n, tr[t][0], tr[t][1], tr[t][2], op, mk, k1, p1)); if (op == 1) run_case(fmt("fx:%d:%d:%d:%d:%d:%d:0:0:0:0:-1:0", n, tr[t][0], tr[t][1], tr[t][2], op, mk)); } }); }
	phase("frag_one_control");
	// (3c) two control frames in one stream
	for (int n = 1; n <= (T ? 4 : 2); n++) { std::vector<std::vector<int> > tr = triples(upto(n)); vf::parallel(tr.size() * 64, [&](uint64_t j) { uint64_t t = j / 64; int k1 = 1 + (int)(j % 64) / 8, k2 = 1 + (int)(j % 8); for (int op = (T ? 1 : 2); op <= 2; op++) for (int mk = 0; mk < 2; mk++) for (int p1 = 0; p1 <= 4; p1++) for (int p2 = p1; p2 <= 4; p2++) run_case(fmt("fx:%d:%d:%d:%d:%d:%d:%d:%d:%d:%d:-1:0", n, tr[t][0], tr[t][1], tr[t][2], op, mk, k1, p1, k2, p2)); }); }
	phase("frag_two_controls");
	// (3d) fragmented streams with and without a control frame, ended at every byte offset (whole, and byte by byte for the shortest)
	for (int n = 1; n <= (T ? 4 : 3); n++) {
		std::vector<std::vector<int> > tr = triples(upto(n)); static const int qk[] = { 0, 2, 4, 6, 8 };
		vf::parallel(tr.size() * (T ? NCTL : 5), [&](uint64_t j) {
			uint64_t t = j / (T ? NCTL : 5); int k1 = T ? (int)(j % NCTL) : qk[j % 5];
			for (int op = (T ? 1 : 2); op <= 2; op++) for (int mk = 0; mk < 2; mk++) for (int p1 = 0; p1 <= (k1 ? 4 : 0); p1++) {
				int total = n + 4 * 2 + 5 + (mk ? 20 : 0) + (k1 ? 2 + (mk ? 4 : 0) + (k1 == 3 ? 125 : k1 == 2 || k1 == 4 || k1 == 7 ? 2 : k1 == 8 ? 5 : 0) : 0);
				for (int off = 0; off <= total; off++) for (int dl = 0; dl < (n <= 2 ? 2 : 1); dl++) run_case(fmt("fx:%d:%d:%d:%d:%d:%d:%d:%d:0:0:%d:%d", n, tr[t][0], tr[t][1], tr[t][2], op, mk, k1, p1, off, dl));
			}
		});
	}
	phase("frag_cut");
	// (3e) fragments at and above the 16-bit and 64-bit length forms
	{
		std::vector<std::string> jobs; std::vector<int> ns; ns.push_back(126); ns.push_back(65536); if (T) { ns.push_back(127); ns.push_back(70000); }
		for (size_t q = 0; q < ns.size(); q++) {
			int n = ns[q]; std::set<int> cs; int cand[] = { 0, 1, 125, 126, 65535, 65536, n - 1, n }; for (int i = 0; i < 8; i++) if (cand[i] <= n) cs.insert(cand[i]);
			std::vector<std::vector<int> > tr = triples(std::vector<int>(cs.begin(), cs.end()));
			for (size_t t = 0; t < tr.size(); t++) for (int op = 1; op <= 2; op++) for (int mk = 0; mk < 2; mk++) for (int k1 = 0; k1 <= 2; k1 += 2) jobs.push_back(fmt("fx:%d:%d:%d:%d:%d:%d:%d:2:0:0:-1:0", n, tr[t][0], tr[t][1], tr[t][2], op, mk, k1));
		}
		vf::parallel(jobs.size(), [&](uint64_t i) { run_case(jobs[i]); }, 4);
	}
	phase("frag_big");
	// (4) hostile headers: every first byte x second bytes around the length encodings x extended lengths x every cut
	{
		std::vector<int> b1s; for (int i = 0; i < 256; i++) b1s.push_back(i);
		vf::parallel(256 * b1s.size(), [&](uint64_t i) {
			int b0 = (int)(i % 256), b1 = b1s[i / 256]; int l7 = b1 & 0x7f; int next = l7 == 126 ? 5 : l7 == 127 ? 12 : 1; int hdr = 2 + (l7 == 126 ? 2 : l7 == 127 ? 8 : 0) + ((b1 & 0x80) ? 4 : 0);
			for (int e = 0; e < next; e++) { int ext = l7 == 126 ? (e == 4 ? 11 : e) : e; for (int cut = 0; cut <= hdr + 13; cut += (cut < hdr + 2 ? 1 : 11)) for (int dl = 0; dl < (T ? 2 : 1); dl++) run_case(fmt("host:%d:%d:%d:%d:%d", b0, b1, ext, cut, dl)); }
		}, 4);
	}
	phase("hostile");
	// (5) send side: all overloads and frame types
	vf::parallel(lens.size(), [&](uint64_t i) { if (T && lens[i] > 400 && lens[i] % 64 > 2 && !(lens[i] > 65400 && lens[i] < 65700)) return; for (int role = 0; role < 2; role++) for (int ty = 0; ty < 9; ty++) if (ty < 2 || lens[i] <= 300 || lens[i] == 65535 || lens[i] == 65536) if (ty < 5 || ty == 8 || lens[i] <= 125) run_case(fmt("send:%d:%d:%d", lens[i], role, ty)); }, 8);
	{ int big[] = { 1 << 17, (1 << 20) - 1, 1 << 20, (1 << 20) + 1, 1 << 22 }; vf::parallel(5 * 2 * 3, [&](uint64_t i) { run_case(fmt("send:%d:%d:%d", big[i / 6], (int)(i % 2), (int)(i / 2 % 3))); }); }
	vf::parallel(12, [&](uint64_t i) { run_case(fmt("sendv:%d:%d", (int)(i / 2), (int)(i % 2))); });
	phase("send");
	// (6) handshake: accept key on the wire in every request shape, connect() against scripted responses ended at every byte, large echoes over a pipe that
	// fills, and client <-> server with an echoed message under all interleavings within the bound
	vf::parallel(64, [&](uint64_t k) { run_case(fmt("akey:%d", (int)k)); });
	vf::parallel(64 * 3, [&](uint64_t j) { for (int sep = 0; sep < 4; sep++) for (int conn = 0; conn < 2; conn++) for (int via = 0; via < 2; via++) run_case(fmt("akx:%d:%d:%d:%d:%d", (int)(j / 3), (int)(j % 3), sep, conn, via)); });
	{ std::vector<std::string> jobs; for (int kind = 0; kind < NRESP; kind++) { int n = (int)respOf(kind, std::string(28, 'A')).size(); for (int cut = -1; cut <= n; cut++) jobs.push_back(fmt("conn:%d:%d", kind, cut)); } vf::parallel(jobs.size(), [&](uint64_t j) { run_case(jobs[j]); }, 8); }
	{ int el[] = { 70001, (1 << 20) + 1, 1 << 22 }, ep[] = { 4096, 1 << 20 }; vf::parallel(T ? 6 : 4, [&](uint64_t i) { run_case(fmt("echo:%d:%d", el[i / 2], ep[i % 2])); }); }
	phase("handshake_shapes_connect_echo");
	{ int lensH[] = { 1, 5, 126 }; int nb = T ? 3 : 2; vf::parallel(3 * nb, [&](uint64_t i) { handshakeJob((int)(i % nb), lensH[i / nb], 0); }); }
	phase("handshake_interleavings");
	// (7) object re-use: every history of uses up to the depth of the tier, then the probe
	{
		int depth = T ? 3 : 2;
		std::vector<std::string> jobs, hs;
		hs = histories(CH_OPS, depth); for (size_t i = 0; i < hs.size(); i++) jobs.push_back("ch:" + hs[i]);
		vf::parallel(jobs.size(), [&](uint64_t i) { run_case(jobs[i]); }, 2); phase("reuse_client"); jobs.clear();
		hs = histories(SH_OPS, depth); for (size_t i = 0; i < hs.size(); i++) for (int v = 0; v < 3; v++) jobs.push_back(fmt("sh:%d:%d:", v ? 1 : 0, v == 2 ? 1 : 0) + hs[i]);
		vf::parallel(jobs.size(), [&](uint64_t i) { run_case(jobs[i]); }, 2); phase("reuse_server"); jobs.clear();
		hs = histories(CS_OPS, depth + 1); for (size_t i = 0; i < hs.size(); i++) jobs.push_back("cs:" + hs[i]);
		vf::parallel(jobs.size(), [&](uint64_t i) { run_case(jobs[i]); }, 2); phase("reuse_client_and_server");
	} vf::setinfo("phase_seconds", "{" + g_phases + "}");
	vf::sample("binary frame of 65536 bytes, masked with key 01ff8001, followed by text frame END; delivered whole / header|rest / read(1) / in 4096-byte chunks; the same stream ended after every number of bytes");
	vf::sample("5-byte text message fragmented 2|0|1|2 with a ping of 125 bytes before fragment 2 and a Close frame (4321 'bye') before fragment 3; hostile frame 8f ff 00 00 00 00 80 00 00 00 cut at every byte");
	vf::sample("request 'sec-websocket-key:<key>' (lower case, no space) with 'Connection: keep-alive, Upgrade' through HttpServer::link; connect() to a server whose 101 response ends after 57 bytes");
	vf::sample("WebSocket::connect(127.0.0.1:9000) against WebSocketServer::serve over a 9-byte pipe, echo of a 126-byte message, all schedules with <= 1 preemption");
	vf::sample("one WebSocket object: connect() refused (nobody listens), connect() answered with 400, then connect() accepted: frames of 1..70000 bytes, fragments 126|65536, ping, Close 1000 received and seven lengths sent; one WebSocketServer serving a truncated upgrade, a connection ended by Close 4321, then the probe connection");
	return vf::finish();
}
