// C07 — Xml::decode is total and safe; Xml::encode -> Xml::decode preserves the tree.
//  (1) decode on every string over a 16-symbol character alphabet up to a length bound, on every byte-prefix of every
//      sequence of 23 markup tokens up to a length bound, on every truncation / 1-edit (2-edit neighbourhood) of a few
//      documents with prolog, DOCTYPE, comments, PIs, CDATA and references: must return (CPU-time limit per work item), ASan silent with the
//      input's slack poisoned, result null or a tree whose every child(i).parent() is the containing element.
//  (2) every element tree up to a node bound (tags {a,b}, attribute subsets of {x,y}, values/text over 9..15 strings) and
//      linear chains to depth 12: decode(encode(compact)) == tree modulo merging adjacent text / dropping whitespace-only
//      text; the same for the indented output when every text node is the sole child of its element.
//  (3) extension families: numeric character references (every spelling over {x 0 1 8 f F -}, boundary codes), element
//      nesting / sibling counts far beyond the tree bounds (parametric, iterative oracle), every well-formed name character
//      in the four name positions, values/texts over a reference-and-whitespace alphabet and over all bytes, attribute
//      insertion orders, field lengths around the String inline boundary.
#include <asl/Xml.h>
#include <signal.h>
#include <sys/time.h>
#include "vf.h"
#include "aslx.h"
using namespace asl;
using vf::fmt;

static int C_EVAL, C_DIST, W_NULL, W_TREE, W_LINKS, W_DEEP, W_TEXTCHILD, W_ATTR, W_COMMENT, W_PI, W_DOCTYPE, W_CDATA, W_REF, W_XMLDECL, W_EMPTYEND, W_MULTIBYTE,
	W_RT_COMPACT, W_RT_INDENT, W_RT_MERGE, W_RT_DROP, W_RT_DROP_NONEMPTY, W_RT_ESC_TEXT, W_RT_ESC_ATTR, W_RT_DEPTH12, W_RT_NONASCII, W_DUP, W_ENUMTREE, W_ENUMLINKS;

// ---------------------------------------------------------------- observation of an asl tree (public API only)
struct N {
	bool text; std::string s; // tag or text
	std::vector<std::pair<std::string, std::string> > at; // sorted by name
	std::vector<N> k;
	N() : text(false) {}
	bool operator==(const N& o) const { return text == o.text && s == o.s && at == o.at && k == o.k; }
};
static N T(const std::string& t) { N n; n.text = true; n.s = t; return n; }
static N E(const std::string& t) { N n; n.s = t; return n; }

struct Walk { uint64_t links; int depth; bool text, attr; Walk() : links(0), depth(0), text(false), attr(false) {} };
// every child's parent() must be the element that contains it (whole tree). Iterative (explicit stack of handles), so that the
// harness itself does not limit the nesting depth; the index path is only spelled out for a failure.
struct WalkFrame { Xml e; int i; WalkFrame(const Xml& x) : e(x), i(0) {} };
static bool walk(const Xml& root, Walk& w, std::string& why) {
	static std::vector<WalkFrame> st;
	st.clear();
	st.push_back(WalkFrame(root));
	bool ok = true;
	while (ok && !st.empty()) {
		if ((int)st.size() > w.depth) w.depth = (int)st.size();
		WalkFrame& f = st.back();
		if (f.i == 0 && !f.e.isText() && f.e.attribs().length() > 0) w.attr = true;
		if (f.i >= f.e.numChildren()) { st.pop_back(); continue; }
		Xml c = f.e.child(f.i++);
		const char* bad = 0;
		if (c.isnull()) bad = " is a null handle";
		else {
			if (c.isText()) w.text = true;
			w.links++;
			Xml p = c.parent();
			if (!(p == f.e)) bad = p.isnull() ? " has no parent()" : " has a parent() that is not the element containing it";
		}
		if (bad) {
			std::string cp;
			for (size_t k = 0; k < st.size() && k < 40; k++) cp += fmt("/%d", st[k].i - 1);
			if (st.size() > 40) cp += fmt("/... (depth %d)", (int)st.size());
			why = "child " + cp + bad; ok = false; break;
		}
		st.push_back(WalkFrame(c)); // invalidates f
	}
	st.clear(); // releases the handles: nothing of the tree is kept alive past this call
	return ok;
}
static N observe(const Xml& e) {
	N n;
	if (e.isText()) { n.text = true; n.s = vfx::S(e.text()); return n; }
	n.s = vfx::S(e.tag());
	const Map<>& at = e.attribs();
	foreach2(String& name, String& value, at) n.at.push_back(std::make_pair(vfx::S(name), vfx::S(value)));
	for (int i = 0; i < e.numChildren(); i++) n.k.push_back(observe(e.child(i)));
	return n;
}
static bool sameAttrs(const Xml& e, const N& n) {
	const Map<>& at = e.attribs();
	if (at.length() != (int)n.at.size()) return false;
	foreach2(String& name, String& value, at) {
		bool found = false;
		for (size_t i = 0; i < n.at.size() && !found; i++)
			found = name.length() == (int)n.at[i].first.size() && !memcmp(*name, n.at[i].first.data(), n.at[i].first.size()) && value.length() == (int)n.at[i].second.size() && !memcmp(*value, n.at[i].second.data(), n.at[i].second.size());
		if (!found) return false;
	}
	return true;
}
static bool same(const Xml& e, const N& n) {
	if (e.isText() != n.text) return false;
	if (n.text) { const String& t = e.text(); return t.length() == (int)n.s.size() && !memcmp(*t, n.s.data(), n.s.size()); }
	const String& tag = e.tag();
	if (tag.length() != (int)n.s.size() || memcmp(*tag, n.s.data(), n.s.size())) return false;
	if (!sameAttrs(e, n) || e.numChildren() != (int)n.k.size()) return false;
	for (int i = 0; i < e.numChildren(); i++) if (!same(e.child(i), n.k[i])) return false;
	return true;
}
static Xml build(const N& n) {
	if (n.text) return XmlText(vfx::A(n.s));
	Xml e(vfx::A(n.s));
	for (size_t i = 0; i < n.at.size(); i++) e.setAttr(vfx::A(n.at[i].first), vfx::A(n.at[i].second));
	for (size_t i = 0; i < n.k.size(); i++) e << build(n.k[i]);
	return e;
}

// ---------------------------------------------------------------- (1) decode: total, safe, parent links
static bool contains(const std::string& s, const char* t) { return s.find(t) != std::string::npos; }

static bool g_want_explen = false; // reference families: observe how many bytes the value under test has in the decoded tree
static int g_last_explen = -1;     // attribute x of the root if present, else the root's first child if it is a text; -1: neither / null
static void decode_one(const std::string& txt, bool distinct) {
	static std::string kase;
	static const char* hx = "0123456789abcdef";
	kase.assign("dec:");
	for (size_t i = 0; i < txt.size(); i++) { unsigned char c = txt[i]; kase += hx[c >> 4]; kase += hx[c & 15]; }
	vf::cur(kase); vf::cur_sig("decode_crash");
	vf::add(C_EVAL); if (distinct) vf::add(C_DIST);
	String s = vfx::A(txt);
	vf::asan_clear();
	bool isnull; Walk w; std::string why; bool ok = true;
	{
		vfx::Flush fl(s);
		Xml r = Xml::decode(s);
		isnull = !r;
		if (!r.isnull()) ok = walk(r, w, why);
		if (g_want_explen) {
			g_last_explen = -1;
			if (!isnull && !r.isText()) {
				if (r.has("x")) g_last_explen = r["x"].length();
				else if (r.numChildren() > 0 && r.child(0).isText()) g_last_explen = r.child(0).text().length();
				else if (r.numChildren() == 0) g_last_explen = 0;
			}
		}
	}
	if (vf::asan_tripped()) { vf::violation("decode_asan", "ASan " + vf::asan_what() + " in Xml::decode(" + vf::jstr(txt) + ")", kase); vf::asan_clear(); }
	if (!ok) vf::violation("decode_parent", "Xml::decode(" + vf::jstr(txt) + "): " + why, kase);
	if (isnull) { vf::add(W_NULL); }
	else {
		vf::add(W_TREE); vf::add(W_LINKS, w.links);
		if (distinct) { vf::add(W_ENUMTREE); if (w.links) vf::add(W_ENUMLINKS); }
		if (w.depth >= 3) vf::add(W_DEEP);
		if (w.text) vf::add(W_TEXTCHILD);
		if (w.attr) vf::add(W_ATTR);
		if (contains(txt, "-->")) vf::add(W_COMMENT);
		if (contains(txt, "<?p") && contains(txt, "?>")) vf::add(W_PI);
		if (contains(txt, "<!D")) vf::add(W_DOCTYPE);
		if (contains(txt, "<![CDATA[")) vf::add(W_CDATA);
		if (contains(txt, "&#") || contains(txt, "&lt;") || contains(txt, "&bad;")) vf::add(W_REF);
		if (txt.compare(0, 5, "<?xml") == 0) vf::add(W_XMLDECL);
		if (contains(txt, "\xc3\xa9")) vf::add(W_MULTIBYTE);
	}
	if (contains(txt, "</>")) vf::add(W_EMPTYEND);
}

// "terminates": a generous limit on the CPU time of one work item (never reached by a terminating decoder: an item is a few
// CPU-seconds of work at most). ITIMER_PROF counts the CPU time of this worker process only, so a loaded machine cannot
// trip it; the guard disarms on every way out of the item.
static void on_limit(int) { vf::cur_sig("no_termination"); _exit(14); }
static int ITEM_CPU_S = 1200; // C07_ITEMLIMIT: development knob (to watch the limit fire on a looping mutant without waiting 20 minutes)
struct ItemLimit {
	explicit ItemLimit(int cpu_s) { set(cpu_s); }
	~ItemLimit() { set(0); }
	static void set(int s) { itimerval it; memset(&it, 0, sizeof it); it.it_value.tv_sec = s; setitimer(ITIMER_PROF, &it, 0); }
};

static const char* CH[] = { "<", ">", "/", "!", "?", "-", "&", ";", "#", "x", "a", "=", "\"", "'", " ", "\xc3\xa9" };
static const int NCH = 16;
static const char* TOK[] = { "<a", "</a", "</", ">", "/>", " x=", "\"", "'", "v", "&lt;", "&#38;", "&#x26;", "&bad;", "&", "<!--", "-->", "<?p ", "?>", "<!D", "<![CDATA[", "]]>", "t", " " };
static const int NTOK = 23;
static std::vector<std::string> PIECES; // distinct non-empty byte-prefixes of the tokens (a sequence cut inside its last token)
static void mkpieces() {
	std::set<std::string> seen;
	for (int t = 0; t < NTOK; t++) { std::string tk = TOK[t]; for (size_t k = 1; k <= tk.size(); k++) if (seen.insert(tk.substr(0, k)).second) PIECES.push_back(tk.substr(0, k)); }
}
// number of alphabet symbols if the string is made of alphabet symbols only, else -1
static int charSpaceLen(const std::string& s) {
	int n = 0;
	for (size_t i = 0; i < s.size(); n++) {
		if ((unsigned char)s[i] == 0xc3 && i + 1 < s.size() && (unsigned char)s[i + 1] == 0xa9) { i += 2; continue; }
		if (!strchr("<>/!?-&;#xa=\"' ", s[i])) return -1;
		i++;
	}
	return n;
}
static bool g_capped = false;
static bool out_of_time(const char* what) {
	if (!vf::deadline_passed()) return false;
	if (!g_capped) { g_capped = true; vf::cap_hit(std::string(what) + ": deadline reached, remaining items skipped"); }
	return true;
}

static void char_strings(int minLen, int maxLen) {
	uint64_t items = (uint64_t)NCH * NCH * NCH;
	vf::parallel(items, [&](uint64_t pre) {
		ItemLimit lim(ITEM_CPU_S);
		if (out_of_time("char strings")) return;
		if (pre == 0 && minLen == 0) {
			decode_one("", true);
			for (int a = 0; a < NCH; a++) { decode_one(CH[a], true); if (maxLen >= 2) for (int b = 0; b < NCH; b++) decode_one(std::string(CH[a]) + CH[b], true); }
		}
		std::string base = std::string(CH[pre / (NCH * NCH)]) + CH[pre / NCH % NCH] + CH[pre % NCH];
		std::string s;
		for (int len = std::max(3, minLen); len <= maxLen; len++) {
			uint64_t rest = 1; for (int i = 3; i < len; i++) rest *= NCH;
			for (uint64_t r = 0; r < rest; r++) {
				s = base; uint64_t x = r;
				for (int i = 3; i < len; i++) { s += CH[x % NCH]; x /= NCH; }
				decode_one(s, true);
			}
		}
	}, 4);
}
// the XML declaration skip: "<?xml" followed by every string over the alphabet
static void xmldecl_strings(int maxLen) {
	vf::parallel((uint64_t)NCH * NCH, [&](uint64_t pre) {
		ItemLimit lim(ITEM_CPU_S);
		if (out_of_time("xml declaration strings")) return;
		const std::string head = "<?xml";
		if (pre == 0) { decode_one(head, true); for (int a = 0; a < NCH; a++) decode_one(head + CH[a], true); }
		std::string base = head + CH[pre / NCH] + CH[pre % NCH], s;
		for (int len = 2; len <= maxLen; len++) {
			uint64_t rest = 1; for (int i = 2; i < len; i++) rest *= NCH;
			for (uint64_t r = 0; r < rest; r++) {
				s = base; uint64_t x = r;
				for (int i = 2; i < len; i++) { s += CH[x % NCH]; x /= NCH; }
				decode_one(s, true);
			}
		}
	}, 4);
}
// every byte-prefix of every token sequence of at most maxTok tokens = (sequence of k < maxTok tokens) + piece
static void token_one_prefix(const std::string& p, int charLen) {
	std::string s;
	for (size_t i = 0; i < PIECES.size(); i++) {
		s = p; s += PIECES[i];
		int cl = charSpaceLen(s);
		bool dup = cl >= 0 && cl <= charLen;
		if (dup) vf::add(W_DUP);
		decode_one(s, !dup);
	}
}
// minK..maxK = number of complete tokens before the (possibly cut) last one
static void token_strings(int minK, int maxK, int charLen) {
	uint64_t items = maxK < 3 ? 1 : (uint64_t)NTOK * NTOK * NTOK;
	vf::parallel(items, [&](uint64_t pre) {
		ItemLimit lim(ITEM_CPU_S);
		if (out_of_time("token sequences")) return;
		if (pre == 0 && minK == 0) { // prefixes of 0, 1, 2 tokens
			token_one_prefix("", charLen);
			for (int a = 0; a < NTOK && maxK >= 1; a++) { token_one_prefix(TOK[a], charLen); for (int b = 0; b < NTOK && maxK >= 2; b++) token_one_prefix(std::string(TOK[a]) + TOK[b], charLen); }
		}
		std::string base = std::string(TOK[pre / (NTOK * NTOK)]) + TOK[pre / NTOK % NTOK] + TOK[pre % NTOK];
		std::string p;
		for (int k = std::max(3, minK); k <= maxK; k++) {
			uint64_t rest = 1; for (int i = 3; i < k; i++) rest *= NTOK;
			for (uint64_t r = 0; r < rest; r++) {
				p = base; uint64_t x = r;
				for (int i = 3; i < k; i++) { p += TOK[x % NTOK]; x /= NTOK; }
				token_one_prefix(p, charLen);
			}
		}
	}, 2);
}

// nesting: every sequence of whole tags / text runs (deeper element stacks, end tags that close more than was opened, mixed content)
static const char* ST[] = { "<a>", "<b>", "</a>", "</b>", "</>", "<a/>", "<b x=\"&#38;\" y='v'>", "t", " ", "&amp;", "<!--c-->" };
static const int NST = 11;
static void struct_strings(int maxTok) {
	vf::parallel((uint64_t)NST * NST * NST, [&](uint64_t pre) {
		ItemLimit lim(ITEM_CPU_S);
		if (out_of_time("tag sequences")) return;
		if (pre == 0) for (int a = 0; a < NST; a++) for (int b = 0; b < NST; b++) decode_one(std::string(ST[a]) + ST[b], true); // single tokens are byte-prefixes of the fine token pass or alphabet strings
		std::string base = std::string(ST[pre / (NST * NST)]) + ST[pre / NST % NST] + ST[pre % NST], s;
		for (int k = 3; k <= maxTok; k++) {
			uint64_t rest = 1; for (int i = 3; i < k; i++) rest *= NST;
			for (uint64_t r = 0; r < rest; r++) {
				s = base; uint64_t x = r;
				for (int i = 3; i < k; i++) { s += ST[x % NST]; x /= NST; }
				decode_one(s, true);
			}
		}
	}, 4);
}

// documents for the truncation / edit neighbourhood
static std::vector<std::string> templates() {
	std::vector<std::string> t;
	t.push_back("<?xml version=\"1.0\"?><!DOCTYPE a [<!ENTITY e \"v\">]><a x=\"1\" y='&quot;2'><!-- c --><b>t&lt;&#38;&#x26;\xc3\xa9</b><?p q?><![CDATA[x]]><c/></a>");
	t.push_back("<a><b x = \"&amp;\" /><!----> v <b>&bad;</b></a>");
	t.push_back("<?p q?><a:b-c.d _e=\"\"></a:b-c.d>");
	return t;
}
static bool edit(std::string& s, int pos, int kind, const char* c) { // 0 substitute, 1 delete, 2 insert before
	if (kind == 1) { if (pos >= (int)s.size()) return false; s.erase(pos, 1); return true; }
	if (kind == 0) { if (pos >= (int)s.size()) return false; s.replace(pos, 1, c); return true; }
	if (pos > (int)s.size()) return false;
	s.insert(pos, c); return true;
}
static void template_edits(bool thorough) {
	std::vector<std::string> tp = templates();
	struct Job { int t, pos; };
	std::vector<Job> jobs;
	for (size_t t = 0; t < tp.size(); t++) for (int p = 0; p <= (int)tp[t].size(); p++) { Job j = { (int)t, p }; jobs.push_back(j); }
	int reach = thorough ? 12 : 3;
	vf::parallel(jobs.size(), [&](uint64_t ji) {
		ItemLimit lim(ITEM_CPU_S);
		if (out_of_time("template edits")) return;
		const std::string& base = tp[jobs[ji].t]; int p1 = jobs[ji].pos;
		decode_one(base.substr(0, p1), false);
		for (int k1 = 0; k1 < 3; k1++) for (int c1 = 0; c1 < (k1 == 1 ? 1 : NCH); c1++) {
			std::string s1 = base;
			if (!edit(s1, p1, k1, CH[c1])) continue;
			decode_one(s1, false);
			int lim = std::min((int)s1.size(), p1 + reach);
			for (int p2 = p1; p2 <= lim; p2++)
				for (int k2 = 0; k2 < 3; k2++) for (int c2 = 0; c2 < (k2 == 1 ? 1 : NCH); c2++) {
					std::string s2 = s1;
					if (!edit(s2, p2, k2, CH[c2])) continue;
					decode_one(s2, false);
				}
		}
	});
}

// arbitrary bytes: every string of at most maxLen non-NUL bytes; every single byte substituted / inserted at every position of the documents
static void byte_strings(int maxLen) {
	vf::parallel(255, [&](uint64_t i) {
		ItemLimit lim(ITEM_CPU_S);
		if (out_of_time("byte strings")) return;
		std::string s(1, (char)(i + 1));
		decode_one(s, charSpaceLen(s) < 0);
		if (maxLen >= 2) for (int b = 1; b < 256; b++) {
			std::string s2 = s + (char)b;
			decode_one(s2, charSpaceLen(s2) < 0);
			if (maxLen >= 3) for (int c = 1; c < 256; c++) { std::string s3 = s2 + (char)c; decode_one(s3, charSpaceLen(s3) < 0); }
		}
	});
}
static void template_bytes() {
	std::vector<std::string> tp = templates();
	struct Job { int t, pos; };
	std::vector<Job> jobs;
	for (size_t t = 0; t < tp.size(); t++) for (int p = 0; p <= (int)tp[t].size(); p++) { Job j = { (int)t, p }; jobs.push_back(j); }
	vf::parallel(jobs.size(), [&](uint64_t ji) {
		ItemLimit lim(ITEM_CPU_S);
		const std::string& base = tp[jobs[ji].t]; int p = jobs[ji].pos;
		for (int b = 1; b < 256; b++) {
			char c[2] = { (char)b, 0 };
			for (int kind = 0; kind <= 2; kind += 2) { std::string s = base; if (edit(s, p, kind, c)) decode_one(s, false); }
		}
	}, 4);
}

// ---------------------------------------------------------------- (2) round trip
// value / text table. The first NV entries are the original table (chains and the "rtt:" trees index it); the all-shapes pass
// "rtu:" adds the two non-empty whitespace-only texts (NVB); the full-label pass (stage A) uses all NVA entries: also spellings that
// look like references or already escaped text
static const char* VALS[] = { "", "v", "&", "<", ">", "\"", "'", "\xc3\xa9", " v ", " ", "\n", "&amp;", "&#38;", "&lt", "a;" };
static const int NV = 9, NVB = 11, NVA = 15;

static bool isws(const std::string& s) { for (size_t i = 0; i < s.size(); i++) if (s[i] != ' ' && s[i] != '\n' && s[i] != '\r' && s[i] != '\t') return false; return true; }
// the two readings of "up to merging adjacent text nodes and dropping whitespace-only text": merge then drop / drop then merge
static bool g_dropped_nonempty; // set by normal(): a dropped whitespace-only text had at least one byte
static N normal(const N& n, int order, bool* merged = 0, bool* dropped = 0) {
	if (n.text) return n;
	N r; r.s = n.s; r.at = n.at;
	std::sort(r.at.begin(), r.at.end());
	std::vector<N> k;
	for (size_t i = 0; i < n.k.size(); i++) {
		if (n.k[i].text) {
			if (order == 1 && isws(n.k[i].s)) { if (dropped) *dropped = true; if (!n.k[i].s.empty()) g_dropped_nonempty = true; continue; }
			if (!k.empty() && k.back().text) { k.back().s += n.k[i].s; if (merged) *merged = true; }
			else k.push_back(n.k[i]);
		}
		else k.push_back(normal(n.k[i], order, merged, dropped));
	}
	for (size_t i = 0; i < k.size(); i++) {
		if (k[i].text && isws(k[i].s)) { if (dropped) *dropped = true; if (!k[i].s.empty()) g_dropped_nonempty = true; continue; }
		r.k.push_back(k[i]);
	}
	return r;
}
static bool soleText(const N& n) {
	for (size_t i = 0; i < n.k.size(); i++) { if (n.k[i].text && n.k.size() != 1) return false; if (!soleText(n.k[i])) return false; }
	return true;
}
static int depthOf(const N& n) { int d = 0; for (size_t i = 0; i < n.k.size(); i++) d = std::max(d, depthOf(n.k[i])); return d + 1; }
static bool needsEsc(const std::string& s) { return s.find_first_of("&<>\"'") != std::string::npos; }
static void facts(const N& n, bool& escText, bool& escAttr, bool& nonascii) {
	if (n.text) { if (needsEsc(n.s)) escText = true; if (contains(n.s, "\xc3")) nonascii = true; return; }
	for (size_t i = 0; i < n.at.size(); i++) { if (needsEsc(n.at[i].second)) escAttr = true; if (contains(n.at[i].second, "\xc3")) nonascii = true; }
	for (size_t i = 0; i < n.k.size(); i++) facts(n.k[i], escText, escAttr, nonascii);
}
// case string: T<hex text>; | E<hex tag>[<hex name>=<hex value>,...](children)
static void hexa(const std::string& s, std::string& o) { static const char* hx = "0123456789abcdef"; for (size_t i = 0; i < s.size(); i++) { unsigned char c = s[i]; o += hx[c >> 4]; o += hx[c & 15]; } }
static void ser(const N& n, std::string& o) {
	if (n.text) { o += 'T'; hexa(n.s, o); o += ';'; return; }
	o += 'E'; hexa(n.s, o); o += '[';
	for (size_t i = 0; i < n.at.size(); i++) { hexa(n.at[i].first, o); o += '='; hexa(n.at[i].second, o); o += ','; }
	o += "](";
	for (size_t i = 0; i < n.k.size(); i++) ser(n.k[i], o);
	o += ")";
}
static bool parse(const char*& p, N& n) {
	if (*p == 'T') { const char* e = strchr(p, ';'); if (!e) return false; n = T(vf::unhex(std::string(p + 1, e))); p = e + 1; return true; }
	if (*p != 'E') return false;
	const char* e = strchr(p, '['); if (!e) return false;
	n = E(vf::unhex(std::string(p + 1, e))); p = e + 1;
	while (*p && *p != ']') { const char* q = strchr(p, '='); const char* c = q ? strchr(q, ',') : 0; if (!c) return false; n.at.push_back(std::make_pair(vf::unhex(std::string(p, q)), vf::unhex(std::string(q + 1, c)))); p = c + 1; }
	if (*p != ']' || p[1] != '(') return false;
	p += 2;
	while (*p && *p != ')') { N c; if (!parse(p, c)) return false; n.k.push_back(c); }
	if (*p != ')') return false;
	p++; return true;
}
static void show(const N& n, std::string& o) {
	if (n.text) { o += "'" + n.s + "'"; return; }
	o += "<" + n.s;
	for (size_t i = 0; i < n.at.size(); i++) o += " " + n.at[i].first + "='" + n.at[i].second + "'";
	o += ">{";
	for (size_t i = 0; i < n.k.size(); i++) { if (i) o += ", "; show(n.k[i], o); }
	o += "}";
}
static std::string show(const N& n) { std::string o; show(n, o); return o; }

static void roundtrip(const N& m, bool distinct, const std::string* tokcase = 0) {
	static std::string kase;
	if (tokcase) kase = *tokcase; else { kase.assign("rt:"); ser(m, kase); }
	vf::cur(kase); vf::cur_sig("roundtrip_crash");
	vf::add(C_EVAL); if (distinct) vf::add(C_DIST);
	bool merged = false, dropped = false;
	g_dropped_nonempty = false;
	N exp0 = normal(m, 0, &merged, &dropped);
	if (merged) vf::add(W_RT_MERGE);
	if (dropped) vf::add(W_RT_DROP);
	if (g_dropped_nonempty) vf::add(W_RT_DROP_NONEMPTY);
	bool et = false, ea = false, na = false; facts(m, et, ea, na);
	if (et) vf::add(W_RT_ESC_TEXT);
	if (ea) vf::add(W_RT_ESC_ATTR);
	if (na) vf::add(W_RT_NONASCII);
	if (depthOf(m) >= 12) vf::add(W_RT_DEPTH12);
	vf::asan_clear();
	bool sole = soleText(m);
	for (int formatted = 0; formatted <= (sole ? 1 : 0); formatted++) {
		const char* mode = formatted ? "indented" : "compact";
		std::string text, why; bool null = false, linksok = true, exact = false; N got;
		{
			Xml e = build(m);
			String enc = Xml::encode(e, formatted != 0);
			vfx::Flush fl(enc);
			Xml back = Xml::decode(enc);
			if (!back) null = true;
			else {
				Walk w; linksok = walk(back, w, why); vf::add(W_LINKS, w.links);
				exact = same(back, exp0); // exp0 is in normal form: an exact match needs no normalisation of the decoded side
				if (!exact) got = observe(back);
			}
			if (!exact || !linksok) text = vfx::S(enc);
		}
		vf::add(formatted ? W_RT_INDENT : W_RT_COMPACT);
		if (vf::asan_tripped()) { vf::violation("roundtrip_asan", "ASan " + vf::asan_what() + fmt(" in %s encode/decode of ", mode) + show(m), kase); vf::asan_clear(); }
		if (null) { vf::violation("roundtrip_reject", fmt("Xml::decode returns a null element for the %s output ", mode) + vf::jstr(text) + " of " + show(m), kase); continue; }
		if (!linksok) vf::violation("decode_parent", fmt("decoded %s output ", mode) + vf::jstr(text) + ": " + why, kase);
		if (exact) continue;
		N g0 = normal(got, 0), g1 = normal(got, 1), exp1 = normal(m, 1);
		if (!(g0 == exp0) && !(g1 == exp1) && !(g0 == exp1) && !(g1 == exp0))
			vf::violation(formatted ? "roundtrip_indented" : "roundtrip_compact", fmt("%s output ", mode) + vf::jstr(text) + " decodes to " + show(got) + ", original " + show(m), kase);
	}
}

// labels
static N elemLabel(int tag, int sub, int vx, int vy) { // sub: bit0 = x, bit1 = y
	N e = E(tag ? "b" : "a");
	if (sub & 1) e.at.push_back(std::make_pair(std::string("x"), std::string(VALS[vx])));
	if (sub & 2) e.at.push_back(std::make_pair(std::string("y"), std::string(VALS[vy])));
	return e;
}
// all element labels: tag x (no attr | x=NVA | y=NVA | x,y=NVA^2)
static std::vector<N> allElemLabels() {
	std::vector<N> l;
	for (int t = 0; t < 2; t++) {
		l.push_back(elemLabel(t, 0, 0, 0));
		for (int v = 0; v < NVA; v++) l.push_back(elemLabel(t, 1, v, 0));
		for (int v = 0; v < NVA; v++) l.push_back(elemLabel(t, 2, 0, v));
		for (int v = 0; v < NVA; v++) for (int u = 0; u < NVA; u++) l.push_back(elemLabel(t, 3, v, u));
	}
	return l;
}
// stage A: every tree with <= 2 nodes over the full label sets; maxNodes 3: also every 3-node tree whose two non-root nodes range over the
// full label sets and whose root ranges over the 8 labels tag x attribute subset
static bool reducedRoot(const N& e) { for (size_t i = 0; i < e.at.size(); i++) if (e.at[i].second != (e.at[i].first == "x" ? "&" : "\"")) return false; return true; }
static void stageA(int maxNodes) {
	static std::vector<N> EL = allElemLabels();
	std::vector<N> NL = EL; // any node: element or text
	for (int v = 0; v < NVA; v++) NL.push_back(T(VALS[v]));
	size_t ne = EL.size(), nn = NL.size();
	vf::parallel(ne, [&](uint64_t r) {
		ItemLimit lim(ITEM_CPU_S);
		if (out_of_time("round trip, full labels")) return;
		roundtrip(EL[r], true);
		for (size_t c = 0; c < nn; c++) {
			N t = EL[r]; t.k.push_back(NL[c]); roundtrip(t, true);
			if (maxNodes < 3 || !reducedRoot(EL[r])) continue;
			for (size_t d = 0; d < nn; d++) {
				N t2 = t; t2.k.push_back(NL[d]); roundtrip(t2, true);          // two children
				if (c < ne) { N t3 = t; t3.k[0].k.push_back(NL[d]); roundtrip(t3, true); } // child and grandchild
			}
		}
	});
}
// stage B: every tree shape with minNodes..maxNodes nodes; element labels tag x attribute subset (values rotate through the first nv
// entries of VALS by occurrence), text labels the first nv entries of VALS. Trees are generated as pre-order token strings:
// 0..7 open element, 8..8+nv-1 text, 8+nv close. Case strings: "rtt:" for nv = 9 (original format), "rtu:" for nv = 11.
struct Gen {
	int nlabels; // element labels used: 8 = tag x {none, x, y, x+y}; 4 = a, b, a[x], b[x,y]
	int nv;      // texts used
	int minNodes, maxNodes; size_t limit; // limit: stop descending at this many tokens (prefix collection); 0 = none
	int needFrom; // > 0: only trees containing a text token >= needFrom are emitted (the others belong to another pass)
	std::vector<int> tok; int open, nodes, have;
	std::function<void(const std::vector<int>&, bool)> emit; // (tokens, complete)
	Gen() : nv(NV), needFrom(0), have(0) {}
	void rec() {
		if (open == 0 && nodes > 0) { if (nodes >= minNodes && (!needFrom || have)) emit(tok, true); return; }
		if (limit && tok.size() >= limit) { emit(tok, false); return; }
		if (open > 0) { tok.push_back(8 + nv); open--; rec(); open++; tok.pop_back(); }
		if (nodes >= maxNodes) return;
		static const int L4[] = { 0, 1, 2, 7 };
		for (int li = 0; li < nlabels; li++) { int l = nlabels == 8 ? li : L4[li]; tok.push_back(l); open++; nodes++; rec(); nodes--; open--; tok.pop_back(); }
		if (open > 0) for (int t = 0; t < nv; t++) { bool nw = needFrom && 8 + t >= needFrom; tok.push_back(8 + t); nodes++; have += nw; rec(); have -= nw; nodes--; tok.pop_back(); }
	}
	void start(const std::vector<int>& prefix) {
		tok = prefix; open = 0; nodes = 0; have = 0;
		for (size_t i = 0; i < tok.size(); i++) { if (tok[i] < 8) { open++; nodes++; } else if (tok[i] < 8 + nv) { nodes++; if (needFrom && tok[i] >= needFrom) have++; } else open--; }
		rec();
	}
};
static N fromTokens(const std::vector<int>& tok, int nv) {
	int rot = 0; for (size_t i = 0; i < tok.size(); i++) rot += (tok[i] >= 8 + nv ? 17 : tok[i]) + 1; // the close token counts as 17 whatever nv is
	int occ = 0;
	std::vector<N> st;
	N root;
	for (size_t i = 0; i < tok.size(); i++) {
		int t = tok[i];
		if (t < 8) { int sub = t >> 1; int vx = (rot + occ) % nv; if (sub & 1) occ++; int vy = (rot + occ) % nv; if (sub & 2) occ++; st.push_back(elemLabel(t & 1, sub, vx, vy)); }
		else if (t < 8 + nv) { if (st.empty()) return N(); st.back().k.push_back(T(VALS[t - 8])); }
		else { if (st.empty()) return N(); N e = std::move(st.back()); st.pop_back(); if (st.empty()) root = std::move(e); else st.back().k.push_back(std::move(e)); }
	}
	return root;
}
static int c_trees;
static std::string tokCase(const std::vector<int>& t, int nv) { std::string tc = nv == NV ? "rtt:" : "rtu:"; for (size_t j = 0; j < t.size(); j++) tc += (char)('a' + t[j]); return tc; }
static int nodesOf(const std::vector<int>& t, int nv) { int n = 0; for (size_t i = 0; i < t.size(); i++) if (t[i] < 8 + nv) n++; return n; }
static uint64_t stageB(int minNodes, int maxNodes, int nlabels, int distinctFrom, int nv = NV) {
	std::vector<std::vector<int> > items; std::vector<char> complete;
	int needFrom = nv == NV ? 0 : 8 + NV; // the wider text table: only the trees that contain one of the added texts
	Gen g; g.nlabels = nlabels; g.nv = nv; g.minNodes = minNodes; g.maxNodes = maxNodes; g.limit = 4;
	g.emit = [&](const std::vector<int>& t, bool c) { items.push_back(t); complete.push_back(c); };
	g.start(std::vector<int>()); // prefix collection does not filter: needFrom is applied by the workers
	uint64_t before = vf::get(c_trees);
	vf::parallel(items.size(), [&](uint64_t i) {
		ItemLimit lim(ITEM_CPU_S);
		if (out_of_time("round trip, all shapes")) return;
		if (complete[i]) {
			bool has = !needFrom; for (size_t j = 0; j < items[i].size(); j++) if (needFrom && items[i][j] >= needFrom && items[i][j] < 8 + nv) has = true;
			if (!has) return;
			std::string tc = tokCase(items[i], nv); roundtrip(fromTokens(items[i], nv), nodesOf(items[i], nv) >= distinctFrom, &tc); vf::add(c_trees); return;
		}
		Gen w; w.nlabels = nlabels; w.nv = nv; w.minNodes = minNodes; w.maxNodes = maxNodes; w.limit = 0; w.needFrom = needFrom;
		std::string tc;
		w.emit = [&](const std::vector<int>& t, bool) { tc = tokCase(t, nv); roundtrip(fromTokens(t, nv), nodesOf(t, nv) >= distinctFrom, &tc); vf::add(c_trees); };
		w.start(items[i]);
	}, 4);
	return vf::get(c_trees) - before;
}
// stage C: linear chains a > b > a > ... to depth 12, leaf none or one text, attributes on every level; plus every truncation of the compact text
static N chain(int depth, int leaf, int sub, int voff, bool rich) {
	N cur; bool have = false;
	for (int lv = depth - 1; lv >= 0; lv--) {
		N e = elemLabel(lv & 1, sub, (voff + 2 * lv) % NV, (voff + 2 * lv + 1) % NV);
		if (rich) { // other well-formed names: ':' '_' '-' '.' digits, non-ASCII
			e.s = (lv & 1) ? "_\xc3\xa9" "9" : "a:B-c.d1_\xc3\xa9";
			for (size_t i = 0; i < e.at.size(); i++) e.at[i].first = e.at[i].first == "x" ? "x:Y-z.w_1" : "\xc3\xa9" "y";
		}
		if (have) e.k.push_back(cur); else if (leaf > 0) e.k.push_back(T(VALS[leaf - 1]));
		cur = e; have = true;
	}
	return cur;
}
static void stageC(int distinctFromDepth) {
	vf::parallel(12 * (NV + 1), [&](uint64_t i) {
		ItemLimit lim(ITEM_CPU_S);
		int depth = (int)(i / (NV + 1)) + 1, leaf = (int)(i % (NV + 1));
		for (int rich = 0; rich < 2; rich++) for (int sub = 0; sub < 4; sub++) for (int voff = 0; voff < (sub ? NV : 1); voff++) {
			N m = chain(depth, leaf, sub, voff, rich != 0);
			roundtrip(m, rich || depth >= distinctFromDepth);
			if (voff > 1) continue;
			std::string text;
			{ Xml e = build(m); text = vfx::S(Xml::encode(e, false)); }
			for (size_t cut = 0; cut <= text.size(); cut++) decode_one(text.substr(0, cut), false);
		}
	});
}

// ---------------------------------------------------------------- (3) extension families
static std::string rep(const std::string& s, int n) { std::string r; r.reserve(s.size() * (size_t)n); for (int i = 0; i < n; i++) r += s; return r; }
static std::string brief(const std::string& t) { return t.size() <= 160 ? vf::jstr(t) : vf::jstr(t.substr(0, 60)) + fmt(" ... (%d bytes) ... ", (int)t.size()) + vf::jstr(t.substr(t.size() - 30)); }

// ---- (3a) numeric character references: the expansion buffer char bytes[5] (Xml.cpp CHAR_REF) and the 1/2/3/4-byte branches of utf32toUtf8
static const char* RCTX[][2] = { { "<a>&#", ";</a>" }, { "<a x=\"&#", ";\"/>" }, { "<a x='&#", ";'/>" } };
static int W_REFLEN[5], W_REFCASES;
// decode of one reference spelling in one context; witness: number of bytes the reference expanded to (observed on the decoded tree)
static void ref_one(int ctx, const std::string& spelling) {
	std::string txt = std::string(RCTX[ctx][0]) + spelling + RCTX[ctx][1];
	vf::add(W_REFCASES);
	decode_one(txt, true);
	if (g_last_explen >= 0) vf::add(W_REFLEN[std::min(g_last_explen, 4)]);
}
static const char* RCH[] = { "x", "0", "1", "8", "f", "F", "-" };
static const int NRCH = 7;
static void ref_strings(int maxLen) {
	g_want_explen = true;
	vf::parallel((uint64_t)NRCH * NRCH * NRCH, [&](uint64_t pre) {
		ItemLimit lim(ITEM_CPU_S);
		if (out_of_time("character references")) return;
		if (pre == 0) for (int ctx = 0; ctx < 3; ctx++) {
			ref_one(ctx, "");
			for (int a = 0; a < NRCH; a++) { ref_one(ctx, RCH[a]); for (int b = 0; b < NRCH; b++) ref_one(ctx, std::string(RCH[a]) + RCH[b]); }
		}
		std::string base = std::string(RCH[pre / (NRCH * NRCH)]) + RCH[pre / NRCH % NRCH] + RCH[pre % NRCH], s;
		for (int len = 3; len <= maxLen; len++) {
			uint64_t rest = 1; for (int i = 3; i < len; i++) rest *= NRCH;
			for (uint64_t r = 0; r < rest; r++) {
				s = base; uint64_t x = r;
				for (int i = 3; i < len; i++) { s += RCH[x % NRCH]; x /= NRCH; }
				for (int ctx = 0; ctx < 3; ctx++) ref_one(ctx, s);
			}
		}
	}, 4);
	g_want_explen = false;
}
// boundary codes of every branch of the UTF-8 writer and of the int conversions, in every spelling
static void ref_boundaries() {
	static const unsigned long long V[] = { 0, 1, 9, 0x7f, 0x80, 0x7ff, 0x800, 0xd7ff, 0xd800, 0xdfff, 0xfffe, 0xffff, 0x10000, 0x10ffff, 0x110000, 0x1fffff, 0x200000,
		0x3ffffff, 0x4000000, 0x7fffffff, 0x80000000ULL, 0xffffff00ULL, 0xffffffffULL, 0x100000000ULL, 0x100000041ULL, 0x7fffffffffffffffULL, 0x8000000000000000ULL, 0xffffffffffffffffULL };
	static const char* F[] = { "%llu", "x%llx", "x%llX", "X%llx", "-%llu", "x-%llx", "+%llu", "x+%llx", "00000000000000000000%llu", "x00000000000000000000%llx", "%llu0000000000", "x%llx00000000", " %llu", "x %llx", "%llug", "x%llxg", "x0x%llx" };
	std::vector<std::string> sp;
	for (size_t v = 0; v < sizeof V / sizeof *V; v++) for (size_t f = 0; f < sizeof F / sizeof *F; f++) sp.push_back(fmt(F[f], V[v]));
	static const char* G[] = { "x", "xg", "x;", "#", "x#", "&", "x&#x41", "<", "x<", "x>", "\"", "'", "\xc3\xa9", "x\xc3\xa9", "99999999999999999999999999999999", "xffffffffffffffffffffffffffffffff" };
	for (size_t g = 0; g < sizeof G / sizeof *G; g++) sp.push_back(G[g]);
	g_want_explen = true;
	vf::parallel(sp.size(), [&](uint64_t i) { ItemLimit lim(ITEM_CPU_S); for (int ctx = 0; ctx < 3; ctx++) ref_one(ctx, sp[i]); }, 8);
	g_want_explen = false;
}

// ---- (3b) nesting depth and sibling count. Case strings are parametric ("nest:<family>:<n>"): the inputs are far longer than the
// crash-attribution slot. All harness code on this path is iterative; what recurses is the library (encode(), node destruction).
static int NESTMAX = 4096;  // deepest element nesting enumerated (see level_note: beyond it the library's recursion needs more than the default 8 MB stack)
static int WIDEMAX = 65536; // largest sibling count / open-element count without nesting
static int W_NEST, W_NEST_D64, W_NEST_DMAX, W_NEST_WMAX, W_NEST_RT, W_NEST_RT_DMAX, W_NEST_NULL;
enum { NF_CLOSED, NF_OPEN, NF_WIDE, NF_MIXED, NF_EXCESS, NF_ATTR_TEXT, NF_TEXTRUNS, NF_MANYATTR, NF_HALFCLOSED, NF_RT_CHAIN, NF_RT_WIDE, NF_COUNT };
static bool nest_is_deep(int fam) { return fam == NF_CLOSED || fam == NF_MIXED || fam == NF_EXCESS || fam == NF_ATTR_TEXT || fam == NF_HALFCLOSED || fam == NF_RT_CHAIN; }
static std::string nest_text(int fam, int n) {
	switch (fam) {
	case NF_CLOSED: return rep("<a>", n) + rep("</a>", n);                       // element stack n+1, result nested n deep
	case NF_OPEN: return rep("<a>", n);                                          // element stack n+1, nothing attached
	case NF_WIDE: return "<a>" + rep("<b/>", n) + "</a>";                        // n siblings
	case NF_MIXED: return rep("<a>t", n) + rep("</a>", n);                       // text and an element on every level
	case NF_EXCESS: return rep("<a>", n) + rep("</a>", n + 1);                   // one end tag more than was opened, after a deep tree was built
	case NF_ATTR_TEXT: return rep("<b x='&amp;' y=\"1\">", n) + rep("t</b>", n); // attributes on every level, text after the child
	case NF_TEXTRUNS: return "<a>" + rep("t<!---->", n) + "</a>";                // n text children
	case NF_MANYATTR: { std::string s = "<a"; for (int i = 0; i < n; i++) s += fmt(" x%d='%d'", (i * 7919) % n, i); return s + "/>"; } // n attributes in scrambled order
	case NF_HALFCLOSED: return rep("<a>", n) + rep("</a>", n / 2);               // input ends with half of the stack still open
	}
	return "";
}
static void nest_decode(int fam, int n) {
	std::string kase = fmt("nest:%d:%d", fam, n);
	vf::cur(kase); vf::cur_sig("decode_crash");
	vf::add(C_EVAL); vf::add(C_DIST); vf::add(W_NEST);
	std::string txt = nest_text(fam, n);
	String s = vfx::A(txt);
	vf::asan_clear();
	bool isnull; Walk w; std::string why; bool ok = true;
	{
		vfx::Flush fl(s);
		Xml r = Xml::decode(s);
		isnull = !r;
		if (!r.isnull()) ok = walk(r, w, why);
	}
	if (vf::asan_tripped()) { vf::violation("decode_asan", "ASan " + vf::asan_what() + " in Xml::decode(" + brief(txt) + ")", kase); vf::asan_clear(); }
	if (!ok) vf::violation("decode_parent", "Xml::decode(" + brief(txt) + "): " + why, kase);
	vf::add(W_LINKS, w.links);
	if (isnull) { vf::add(W_NULL); vf::add(W_NEST_NULL); return; }
	vf::add(W_TREE);
	if (w.depth >= 64) vf::add(W_NEST_D64);
	if (w.depth >= NESTMAX) vf::add(W_NEST_DMAX);
	if (w.links >= (uint64_t)WIDEMAX && w.depth <= 3) vf::add(W_NEST_WMAX);
}
// round trip of a chain n deep / of an element with n children, built through the public API, compared level by level with the
// formula that built it (no tree model: nothing in the harness recurses)
static std::string lvTag(int lv) { return lv & 1 ? "b" : "a:B-c.d1_\xc3\xa9"; }
static const char* NEST_LEAF = " <&>\xc3\xa9 ";
static Xml nest_build(int fam, int n) {
	if (fam == NF_RT_CHAIN) {
		Xml cur(vfx::A(lvTag(n - 1)));
		cur.setAttr("x", VALS[(n - 1) % NV]); if ((n - 1) & 1) cur.setAttr("y", VALS[(n + 2) % NV]);
		cur << XmlText(String(NEST_LEAF));
		for (int lv = n - 2; lv >= 0; lv--) {
			Xml e(vfx::A(lvTag(lv)));
			e.setAttr("x", VALS[lv % NV]); if (lv & 1) e.setAttr("y", VALS[(lv + 3) % NV]);
			e << cur;
			cur = e;
		}
		return cur;
	}
	Xml root("a");
	for (int i = 0; i < n; i++) {
		if (i % 3 == 0) { Xml c("b"); c.setAttr("x", String(i)); root << c; }
		else if (i % 3 == 1) { Xml c("a"); c << XmlText(vfx::A(fmt("%d&", i))); root << c; }
		else { Xml c("b"); c << Xml("a"); root << c; }
	}
	return root;
}
static bool strEq(const String& a, const std::string& b) { return a.length() == (int)b.size() && !memcmp(*a, b.data(), b.size()); }
static bool attrIs(const Xml& e, const char* name, const std::string& v) { return e.has(name) && strEq(e[name], v); }
static bool nest_matches(const Xml& root, int fam, int n, std::string& why) {
	if (fam == NF_RT_CHAIN) {
		Xml cur = root;
		for (int lv = 0; lv < n; lv++) {
			if (cur.isText() || !strEq(cur.tag(), lvTag(lv))) { why = fmt("level %d: wrong tag", lv); return false; }
			if (cur.attribs().length() != ((lv & 1) ? 2 : 1) || !attrIs(cur, "x", VALS[lv % NV]) || ((lv & 1) && !attrIs(cur, "y", VALS[(lv + 3) % NV]))) { why = fmt("level %d: wrong attributes", lv); return false; }
			if (cur.numChildren() != 1) { why = fmt("level %d: %d children instead of 1", lv, cur.numChildren()); return false; }
			Xml next = cur.child(0);
			if (lv == n - 1) { if (!next.isText() || !strEq(next.text(), NEST_LEAF)) { why = "wrong leaf text"; return false; } }
			else if (next.isText()) { why = fmt("level %d: text instead of the child element", lv); return false; }
			cur = next;
		}
		return true;
	}
	if (root.isText() || !strEq(root.tag(), "a") || root.attribs().length() != 0) { why = "wrong root"; return false; }
	if (root.numChildren() != n) { why = fmt("%d children instead of %d", root.numChildren(), n); return false; }
	for (int i = 0; i < n; i++) {
		const Xml& c = root.child(i);
		bool ok;
		if (c.isText()) ok = false;
		else if (i % 3 == 0) ok = strEq(c.tag(), "b") && c.attribs().length() == 1 && attrIs(c, "x", fmt("%d", i)) && c.numChildren() == 0;
		else if (i % 3 == 1) ok = strEq(c.tag(), "a") && c.attribs().length() == 0 && c.numChildren() == 1 && c.child(0).isText() && strEq(c.child(0).text(), fmt("%d&", i));
		else ok = strEq(c.tag(), "b") && c.attribs().length() == 0 && c.numChildren() == 1 && !c.child(0).isText() && strEq(c.child(0).tag(), "a") && c.child(0).numChildren() == 0 && c.child(0).attribs().length() == 0;
		if (!ok) { why = fmt("child %d differs", i); return false; }
	}
	return true;
}
static void nest_roundtrip(int fam, int n) {
	std::string kase = fmt("nest:%d:%d", fam, n);
	vf::cur(kase); vf::cur_sig("roundtrip_crash");
	vf::add(C_EVAL); vf::add(C_DIST); vf::add(W_NEST); vf::add(W_NEST_RT);
	if (fam == NF_RT_CHAIN && n >= NESTMAX) vf::add(W_NEST_RT_DMAX);
	if (fam == NF_RT_WIDE && n >= WIDEMAX) vf::add(W_NEST_WMAX);
	vf::asan_clear();
	const char* what = fam == NF_RT_CHAIN ? "chain of depth" : "element with child count";
	// the indented text of a chain grows with n^2 (one tab per level and line): indented only up to depth 1024 (1 MB)
	for (int formatted = 0; formatted <= ((fam == NF_RT_CHAIN && n > 1024) ? 0 : 1); formatted++) {
		const char* mode = formatted ? "indented" : "compact";
		std::string why, lwhy, text; bool null = false, linksok = true, match = true;
		{
			Xml e = nest_build(fam, n);
			String enc = Xml::encode(e, formatted != 0);
			vfx::Flush fl(enc);
			Xml back = Xml::decode(enc);
			if (!back) null = true;
			else { Walk w; linksok = walk(back, w, lwhy); vf::add(W_LINKS, w.links); match = nest_matches(back, fam, n, why); }
			if (null || !match || !linksok) text = vfx::S(enc);
		}
		vf::add(formatted ? W_RT_INDENT : W_RT_COMPACT);
		if (vf::asan_tripped()) { vf::violation("roundtrip_asan", "ASan " + vf::asan_what() + fmt(" in %s encode/decode of the %s %d", mode, what, n), kase); vf::asan_clear(); }
		if (null) { vf::violation("roundtrip_reject", fmt("Xml::decode returns a null element for the %s output ", mode) + brief(text) + fmt(" of the %s %d", what, n), kase); continue; }
		if (!linksok) vf::violation("decode_parent", fmt("decoded %s output ", mode) + brief(text) + ": " + lwhy, kase);
		if (!match) vf::violation(formatted ? "roundtrip_indented" : "roundtrip_compact", fmt("%s output ", mode) + brief(text) + fmt(" of the %s %d decodes to a different tree: ", what, n) + why, kase);
	}
}
static void nest_case(int fam, int n) { if (fam < NF_RT_CHAIN) nest_decode(fam, n); else nest_roundtrip(fam, n); }
static std::vector<int> nest_sizes(int fam) {
	std::vector<int> v;
	for (int n = 1; n <= 70; n++) v.push_back(n);
	static const int big[] = { 127, 128, 129, 255, 256, 257, 1023, 1024, 1025, 4095, 4096, 16384, 65536 };
	int lim = nest_is_deep(fam) ? NESTMAX : fam == NF_MANYATTR ? std::min(WIDEMAX, 4096) : WIDEMAX; // n attributes cost n^2 moves in the sorted Map
	for (size_t i = 0; i < sizeof big / sizeof *big; i++) if (big[i] <= lim) v.push_back(big[i]);
	if (v.back() != lim && lim > 70) v.push_back(lim);
	return v;
}
static void nesting() {
	struct Job { int fam, n; };
	std::vector<Job> jobs;
	for (int fam = 0; fam < NF_COUNT; fam++) { std::vector<int> sz = nest_sizes(fam); for (size_t i = 0; i < sz.size(); i++) { Job j = { fam, sz[i] }; jobs.push_back(j); } }
	std::stable_sort(jobs.begin(), jobs.end(), [](const Job& a, const Job& b) { return a.n < b.n; }); // the small ones first: the first reported counterexamples are minimal
	vf::parallel(jobs.size(), [&](uint64_t i) { ItemLimit lim(ITEM_CPU_S); if (out_of_time("nesting")) return; nest_case(jobs[i].fam, jobs[i].n); });
}

// ---- (3c) name characters: every well-formed name character (XML 1.0 5th ed. NameStartChar / NameChar, UTF-8 encoded) in the four
// name positions the decoder tests separately: first / later character of a tag, first / later character of an attribute name
static bool isNameStart(unsigned c) {
	return c == ':' || c == '_' || (c >= 'A' && c <= 'Z') || (c >= 'a' && c <= 'z') || (c >= 0xC0 && c <= 0xD6) || (c >= 0xD8 && c <= 0xF6) || (c >= 0xF8 && c <= 0x2FF) ||
		(c >= 0x370 && c <= 0x37D) || (c >= 0x37F && c <= 0x1FFF) || (c >= 0x200C && c <= 0x200D) || (c >= 0x2070 && c <= 0x218F) || (c >= 0x2C00 && c <= 0x2FEF) ||
		(c >= 0x3001 && c <= 0xD7FF) || (c >= 0xF900 && c <= 0xFDCF) || (c >= 0xFDF0 && c <= 0xFFFD) || (c >= 0x10000 && c <= 0xEFFFF);
}
static bool isNameChar(unsigned c) { return isNameStart(c) || c == '-' || c == '.' || (c >= '0' && c <= '9') || c == 0xB7 || (c >= 0x300 && c <= 0x36F) || (c >= 0x203F && c <= 0x2040); }
static std::string utf8(unsigned c) {
	std::string s;
	if (c < 0x80) s += (char)c;
	else if (c < 0x800) { s += (char)(0xC0 | c >> 6); s += (char)(0x80 | (c & 63)); }
	else if (c < 0x10000) { s += (char)(0xE0 | c >> 12); s += (char)(0x80 | (c >> 6 & 63)); s += (char)(0x80 | (c & 63)); }
	else { s += (char)(0xF0 | c >> 18); s += (char)(0x80 | (c >> 12 & 63)); s += (char)(0x80 | (c >> 6 & 63)); s += (char)(0x80 | (c & 63)); }
	return s;
}
static int W_NAME_START, W_NAME_REST, W_NAME_4BYTE, W_NAME_ILLEGAL;
static void name_chars(bool thorough) {
	// quick: every name character of the basic plane plus the first and last code point of every 4-byte lead byte; thorough: all of them
	std::vector<unsigned> cps;
	for (unsigned c = 1; c <= 0xEFFFF; c++) {
		if (!isNameChar(c)) continue;
		bool edge = c == 0x10000 || c == 0x3FFFF || c == 0x40000 || c == 0x7FFFF || c == 0x80000 || c == 0xBFFFF || c == 0xC0000 || c == 0xEFFFF;
		if (c < 0x10000 || thorough || edge) cps.push_back(c);
	}
	const size_t CH = 64;
	vf::parallel((cps.size() + CH - 1) / CH, [&](uint64_t it) {
		ItemLimit lim(ITEM_CPU_S);
		if (out_of_time("name characters")) return;
		for (size_t i = it * CH; i < cps.size() && i < (it + 1) * CH; i++) {
			std::string c = utf8(cps[i]);
			if (cps[i] >= 0x10000) vf::add(W_NAME_4BYTE);
			if (isNameStart(cps[i])) {
				vf::add(W_NAME_START);
				roundtrip(E(c), c != "a" && c != "b"); // those two are in the tree passes
				N a = E("a"); a.at.push_back(std::make_pair(c, std::string("v"))); roundtrip(a, c != "x" && c != "y");
				roundtrip(E(c + "z"), true); // followed by the upper end of the ASCII letters
			}
			vf::add(W_NAME_REST);
			roundtrip(E("a" + c), true);
			N a = E("a"); a.at.push_back(std::make_pair("a" + c, std::string("v"))); roundtrip(a, true);
			N b = E("Z" + c + "A"); b.at.push_back(std::make_pair("z" + c + "Z", std::string("v"))); b.k.push_back(T("t")); roundtrip(b, true);
		}
	});
	// every byte (legal or not) in the name positions: decode only
	vf::parallel(255, [&](uint64_t i) {
		ItemLimit lim(ITEM_CPU_S);
		std::string c(1, (char)(i + 1));
		static const char* P[][2] = { { "<", "/>" }, { "<a", "/>" }, { "<a ", "=\"v\"/>" }, { "<a a", "=\"v\"/>" }, { "</", ">" }, { "<a></a", ">" }, { "<a ", "/>" }, { "<a x", "/>" } };
		for (size_t k = 0; k < sizeof P / sizeof *P; k++) { decode_one(std::string(P[k][0]) + c + P[k][1], true); vf::add(W_NAME_ILLEGAL); }
		decode_one("<" + c + "></" + c + ">", true); decode_one("<a" + c + "></a" + c + ">", true);
	}, 8);
}

// ---- (3d) values and texts: every string over an alphabet of reference, escape and whitespace symbols, and every byte / byte pair,
// as the sole text of an element and as an attribute value
static const char* VCH[] = { "&", ";", "#", "l", "t", "3", "8", "<", ">", "\"", "'", " ", "\n", "\t", "\r", "\xc3\xa9" };
static const int NVCH = 16;
static int W_VAL, W_VAL_REFLIKE, W_VAL_CTRL, W_VAL_HIGH;
static void value_one(const std::string& v, bool distinct) {
	vf::add(W_VAL);
	size_t amp = v.find('&'); if (amp != std::string::npos && v.find(';', amp) != std::string::npos) vf::add(W_VAL_REFLIKE);
	bool ctrl = false, high = false;
	for (size_t i = 0; i < v.size(); i++) { unsigned char c = v[i]; if (c < 0x20 || c == 0x7f) ctrl = true; if (c >= 0x80) high = true; }
	if (ctrl) vf::add(W_VAL_CTRL);
	if (high) vf::add(W_VAL_HIGH);
	N t = E("a"); t.k.push_back(T(v)); roundtrip(t, distinct);
	N a = E("a"); a.at.push_back(std::make_pair(std::string("x"), v)); roundtrip(a, distinct);
}
static bool inValueTable(const std::string& v) { for (int i = 0; i < NVA; i++) if (v == VALS[i]) return true; return false; } // then both trees are in stage A
static bool overValueAlphabet(const std::string& v) { // a string of at most 2 bytes that value_strings enumerates
	if (v == "\xc3\xa9") return true;
	for (size_t i = 0; i < v.size(); i++) if (!strchr("&;#lt38<>\"' \n\t\r", v[i])) return false;
	return true;
}
static void value_strings(int maxLen) {
	vf::parallel((uint64_t)NVCH * NVCH, [&](uint64_t pre) {
		ItemLimit lim(ITEM_CPU_S);
		if (out_of_time("value strings")) return;
		if (pre == 0) for (int a = 0; a < NVCH; a++) value_one(VCH[a], !inValueTable(VCH[a])); // "" is in the value table of the tree passes
		std::string base = std::string(VCH[pre / NVCH]) + VCH[pre % NVCH], s;
		for (int len = 2; len <= maxLen; len++) {
			uint64_t rest = 1; for (int i = 2; i < len; i++) rest *= NVCH;
			for (uint64_t r = 0; r < rest; r++) {
				s = base; uint64_t x = r;
				for (int i = 2; i < len; i++) { s += VCH[x % NVCH]; x /= NVCH; }
				value_one(s, !inValueTable(s));
			}
		}
	}, 2);
}
static void value_bytes() {
	vf::parallel(255, [&](uint64_t i) {
		ItemLimit lim(ITEM_CPU_S);
		if (out_of_time("value bytes")) return;
		std::string s(1, (char)(i + 1));
		value_one(s, !overValueAlphabet(s));
		for (int b = 1; b < 256; b++) { std::string s2 = s + (char)b; value_one(s2, !overValueAlphabet(s2)); }
	});
}

// ---- (3e) attribute sets: every arrangement of every non-empty subset of five names that are prefixes / case variants of each other,
// set in that order through setAttr (insertion before, between and after existing keys of the sorted Map), and the same orders
// written by hand for the decoder (decode: safety and parent links only, the statement does not cover its content)
static int W_ATTR_ORDERS;
static void attr_orders() {
	static const char* NM[] = { "x", "xx", "X", "y", "_" };
	static const char* VL[] = { "1", "<2>", "", "&amp;", " 5 " };
	std::vector<std::vector<int> > arr;
	std::function<void(std::vector<int>&, int)> rec = [&](std::vector<int>& cur, int used) {
		if (!cur.empty()) arr.push_back(cur);
		for (int i = 0; i < 5; i++) if (!(used & 1 << i)) { cur.push_back(i); rec(cur, used | 1 << i); cur.pop_back(); }
	};
	std::vector<int> cur; rec(cur, 0);
	vf::parallel(arr.size(), [&](uint64_t i) {
		ItemLimit lim(ITEM_CPU_S);
		const std::vector<int>& o = arr[i];
		vf::add(W_ATTR_ORDERS);
		N e = E("a");
		for (size_t k = 0; k < o.size(); k++) e.at.push_back(std::make_pair(std::string(NM[o[k]]), std::string(VL[o[k]])));
		roundtrip(e, !(o.size() == 1 && o[0] == 3)); // <a y="&amp;amp;"/> is in the full-label pass
		N e2 = e; e2.k.push_back(T("t")); roundtrip(e2, true);
		std::string t1 = "<a", t2 = "<a";
		for (size_t k = 0; k < o.size(); k++) { t1 += std::string(" ") + NM[o[k]] + "=\"" + (o[k] == 1 ? "&lt;2&gt;" : VL[o[k]]) + "\""; t2 += std::string("\n") + NM[o[k]] + " = '" + (o[k] == 1 ? "&lt;2&gt;" : VL[o[k]]) + "' "; }
		decode_one(t1 + "/>", true); decode_one(t2 + ">t</a>", true);
		if (o.size() == 2) decode_one(t1 + std::string(" ") + NM[o[0]] + "='again'/>", true); // a repeated name
	}, 4);
}

// ---- (3f) field lengths around the inline capacity of asl::String (ASL_STR_SPACE = 16) and the first heap growth steps
static int W_LEN_CASES, W_LEN_HEAP;
static void field_lengths() {
	static const int L[] = { 1, 14, 15, 16, 17, 18, 31, 32, 33, 63, 64, 65, 127, 128, 129 };
	const int NL = sizeof L / sizeof *L;
	vf::parallel((uint64_t)NL * 6 * 2, [&](uint64_t i) {
		ItemLimit lim(ITEM_CPU_S);
		int len = L[i / 12], field = (int)(i / 2 % 6), var = (int)(i % 2); // field 4 = all four at once, 5 = the tag without attributes (the tag is ended by '>' and '/' instead of a blank)
		std::string plain, name, special;
		for (int k = 0; k < len; k++) plain += (char)('a' + k % 26);
		name = plain; if (var && len >= 3) { name[len - 2] = '\xc3'; name[len - 1] = '\xa9'; } else if (var) name[len - 1] = '_';
		special = plain; if (var) { special[0] = '&'; special[len - 1] = '<'; if (len > 4) special[len / 2] = '"'; }
		N e = E(field == 0 || field >= 4 ? name : "a");
		if (field != 5) e.at.push_back(std::make_pair(field == 1 || field == 4 ? name : std::string("x"), field == 2 || field == 4 ? special : std::string("v")));
		if (field == 5) roundtrip(e, !(len == 1 && !var)); // empty element
		e.k.push_back(T(field == 3 || field == 4 ? special : std::string("t")));
		vf::add(W_LEN_CASES); if (len >= 16) vf::add(W_LEN_HEAP);
		roundtrip(e, true);
		N o = E("o"); o.k.push_back(e); o.k.push_back(e); roundtrip(o, true); // the same as a nested, repeated child (indentation in front of it)
	}, 4);
}

static void run_case(const std::string& k) {
	if (k.compare(0, 4, "dec:") == 0) decode_one(vf::unhex(k.substr(4)), true);
	else if (k.compare(0, 4, "rtt:") == 0 || k.compare(0, 4, "rtu:") == 0) { std::vector<int> t; for (size_t i = 4; i < k.size(); i++) t.push_back(k[i] - 'a'); roundtrip(fromTokens(t, k[2] == 't' ? NV : NVB), true, &k); }
	else if (k.compare(0, 5, "nest:") == 0) { int fam = -1, n = 0; if (sscanf(k.c_str(), "nest:%d:%d", &fam, &n) == 2 && fam >= 0 && fam < NF_COUNT && n > 0) nest_case(fam, n); else { fprintf(stderr, "bad case string\n"); _exit(2); } }
	else if (k.compare(0, 3, "rt:") == 0) { N n; const char* p = k.c_str() + 3; if (parse(p, n)) roundtrip(n, true); else { fprintf(stderr, "bad case string\n"); _exit(2); } }
}

int main(int argc, char** argv) {
	vf::init(argc, argv, "C07", "c07_xml");
	C_EVAL = vf::counter("evaluations"); C_DIST = vf::counter("distinct_nontrivial");
	W_NULL = vf::counter("w.decode_returned_null"); W_TREE = vf::counter("w.decode_returned_tree"); W_LINKS = vf::counter("w.parent_links_checked");
	W_DEEP = vf::counter("w.decoded_tree_depth_ge_3"); W_TEXTCHILD = vf::counter("w.decoded_tree_with_text_child"); W_ATTR = vf::counter("w.decoded_tree_with_attribute");
	W_COMMENT = vf::counter("w.accepted_input_with_comment_end"); W_PI = vf::counter("w.accepted_input_with_pi"); W_DOCTYPE = vf::counter("w.accepted_input_with_doctype_start");
	W_CDATA = vf::counter("w.accepted_input_with_cdata_start"); W_REF = vf::counter("w.accepted_input_with_reference"); W_XMLDECL = vf::counter("w.accepted_input_with_xml_declaration");
	W_EMPTYEND = vf::counter("w.inputs_containing_empty_end_tag"); W_MULTIBYTE = vf::counter("w.accepted_input_with_non_ascii");
	W_DUP = vf::counter("token_strings_also_in_char_space");
	W_ENUMTREE = vf::counter("w.enumerated_strings_decoding_to_a_tree"); W_ENUMLINKS = vf::counter("w.enumerated_strings_decoding_to_a_tree_with_children");
	W_RT_COMPACT = vf::counter("w.roundtrip_compact"); W_RT_INDENT = vf::counter("w.roundtrip_indented"); W_RT_MERGE = vf::counter("w.roundtrip_adjacent_text_merged");
	W_RT_DROP = vf::counter("w.roundtrip_whitespace_text_dropped"); W_RT_ESC_TEXT = vf::counter("w.roundtrip_text_needing_escape"); W_RT_ESC_ATTR = vf::counter("w.roundtrip_attribute_needing_escape");
	W_RT_DEPTH12 = vf::counter("w.roundtrip_depth_12"); W_RT_NONASCII = vf::counter("w.roundtrip_non_ascii");
	W_RT_DROP_NONEMPTY = vf::counter("w.roundtrip_nonempty_whitespace_text_dropped");
	c_trees = vf::counter("roundtrip_shape_trees");
	W_REFCASES = vf::counter("w.charref_cases");
	for (int i = 0; i < 5; i++) W_REFLEN[i] = vf::counter(fmt("w.charref_value_decoded_to_%d_bytes", i).c_str());
	W_NEST = vf::counter("w.nest_cases"); W_NEST_NULL = vf::counter("w.nest_decode_returned_null"); W_NEST_D64 = vf::counter("w.nest_decoded_depth_ge_64");
	W_NEST_DMAX = vf::counter("w.nest_decoded_depth_ge_max"); W_NEST_WMAX = vf::counter("w.nest_children_ge_max"); W_NEST_RT = vf::counter("w.nest_roundtrips");
	W_NEST_RT_DMAX = vf::counter("w.nest_roundtrip_depth_ge_max");
	W_NAME_START = vf::counter("w.name_start_chars"); W_NAME_REST = vf::counter("w.name_chars"); W_NAME_4BYTE = vf::counter("w.name_chars_4_byte"); W_NAME_ILLEGAL = vf::counter("w.name_position_byte_decodes");
	W_VAL = vf::counter("w.value_cases"); W_VAL_REFLIKE = vf::counter("w.value_looks_like_reference"); W_VAL_CTRL = vf::counter("w.value_with_control_byte"); W_VAL_HIGH = vf::counter("w.value_with_high_byte");
	W_ATTR_ORDERS = vf::counter("w.attribute_insertion_orders"); W_LEN_CASES = vf::counter("w.field_length_cases"); W_LEN_HEAP = vf::counter("w.field_length_ge_16");
	mkpieces();
	signal(SIGPROF, on_limit);
	if (vf::opt.replay) { vf::parallel(1, [&](uint64_t) { ItemLimit lim(600); run_case(vf::opt.kase); }); return vf::finish(); }
	bool TH = vf::opt.thorough();
	const char* e; // the C07_* variables are development knobs (smaller bounds for mutation runs); the registered commands do not set them
	int charLen = (e = getenv("C07_CHARLEN")) ? atoi(e) : TH ? 6 : 5;
	int tokLen = (e = getenv("C07_TOKLEN")) ? atoi(e) : TH ? 6 : 5;
	int fullNodes = (e = getenv("C07_FULLNODES")) ? atoi(e) : TH ? 3 : 2;
	int byteLen = TH ? 3 : 2;
	int structLen = (e = getenv("C07_STRUCTLEN")) ? atoi(e) : TH ? 7 : 6;
	int shapeNodes = (e = getenv("C07_SHAPENODES")) ? atoi(e) : 5;      // all shapes, 8 element labels
	int shapeNodes4 = (e = getenv("C07_SHAPENODES4")) ? atoi(e) : TH ? 6 : 5; // all shapes, 4 element labels (only sizes beyond shapeNodes)
	int refLen = (e = getenv("C07_REFLEN")) ? atoi(e) : TH ? 8 : 6;         // character reference spellings over 7 symbols
	int valueLen = (e = getenv("C07_VALUELEN")) ? atoi(e) : TH ? 5 : 4;     // values / texts over 16 symbols
	int wsNodes = (e = getenv("C07_WSNODES")) ? atoi(e) : 5;                // all shapes with the 11-text table (quick: 4 element labels, thorough: 8)
	int wsLabels = TH ? 8 : 4;
	if ((e = getenv("C07_ITEMLIMIT"))) ITEM_CPU_S = atoi(e);
	if ((e = getenv("C07_NESTMAX"))) NESTMAX = atoi(e);                     // experiments only: deeper nesting than the registered bound
	double t0 = vf::now_s(), t1;
	// shortest inputs first, so that the first reported counterexamples are minimal
	char_strings(0, std::min(charLen, 4));
	token_strings(0, std::min(tokLen - 1, 2), charLen);
	t1 = vf::now_s(); vf::setinfo("t_short_inputs", fmt("%.1f", t1 - t0)); t0 = t1;
	stageA(fullNodes);
	t1 = vf::now_s(); vf::setinfo("t_rt_full", fmt("%.1f", t1 - t0)); t0 = t1;
	ref_boundaries();
	attr_orders();
	name_chars(TH);
	t1 = vf::now_s(); vf::setinfo("t_names", fmt("%.1f", t1 - t0)); t0 = t1;
	value_bytes();
	value_strings(valueLen);
	field_lengths();
	t1 = vf::now_s(); vf::setinfo("t_values", fmt("%.1f", t1 - t0)); t0 = t1;
	nesting();
	t1 = vf::now_s(); vf::setinfo("t_nesting", fmt("%.1f", t1 - t0)); t0 = t1;
	uint64_t nshape = stageB(3, shapeNodes, 8, fullNodes + 1); // in the thorough tier some 3-node trees are also in stage A: not counted as distinct
	if (shapeNodes4 > shapeNodes) nshape += stageB(shapeNodes + 1, shapeNodes4, 4, 0);
	t1 = vf::now_s(); vf::setinfo("t_rt_shapes", fmt("%.1f", t1 - t0)); t0 = t1;
	uint64_t nshapeWs = stageB(3, wsNodes, wsLabels, fullNodes + 1, NVB); // the trees that contain a non-empty whitespace-only text
	t1 = vf::now_s(); vf::setinfo("t_rt_shapes_ws", fmt("%.1f", t1 - t0)); t0 = t1;
	stageC(shapeNodes4 + 1);
	t1 = vf::now_s(); vf::setinfo("t_rt_chains", fmt("%.1f", t1 - t0)); t0 = t1;
	ref_strings(refLen);
	t1 = vf::now_s(); vf::setinfo("t_charrefs", fmt("%.1f", t1 - t0)); t0 = t1;
	template_edits(TH);
	template_bytes();
	struct_strings(structLen);
	byte_strings(byteLen);
	t1 = vf::now_s(); vf::setinfo("t_templates", fmt("%.1f", t1 - t0)); t0 = t1;
	xmldecl_strings(charLen - 1);
	if (charLen > 4) char_strings(5, charLen);
	t1 = vf::now_s(); vf::setinfo("t_chars", fmt("%.1f", t1 - t0)); t0 = t1;
	if (tokLen - 1 >= 3) token_strings(3, tokLen - 1, charLen);
	t1 = vf::now_s(); vf::setinfo("t_tokens", fmt("%.1f", t1 - t0)); t0 = t1;
	vf::setinfo("bounds", fmt("{\"tag_sequence_len\": %d, \"byte_len\": %d, \"char_len\": %d, \"token_len\": %d, \"pieces\": %d, \"full_label_nodes\": %d, \"shape_nodes\": %d, \"shape_nodes_4_labels\": %d, \"shape_trees\": %llu, \"ws_shape_nodes\": %d, \"ws_shape_labels\": %d, \"ws_shape_trees\": %llu, \"charref_len\": %d, \"value_len\": %d, \"nest_max_depth\": %d, \"nest_max_width\": %d}", structLen, byteLen, charLen, tokLen, (int)PIECES.size(), fullNodes, shapeNodes, shapeNodes4, (unsigned long long)nshape, wsNodes, wsLabels, (unsigned long long)nshapeWs, refLen, valueLen, NESTMAX, WIDEMAX));
	vf::sample("Xml::decode of every string over {< > / ! ? - & ; # x a = \" ' space \\u00e9} up to the length bound, e.g. \"</>\", \"<a/>\", \"<a a=''>\", \"&#x;<\"");
	vf::sample("Xml::decode of every byte-prefix of every token sequence, e.g. \"<a x=\\\"&#38;\\\"><!--t--><?p ?>t</a>\" and \"<a x='&#x2\"");
	vf::sample("round trip of <a x='&' y='\\u00e9'>{'<', <b>{' v '}, '', '>'} (compact) and of <a>{<b x='\"'>{' v '}, <b>{}} (compact and indented)");
	vf::sample("chain a>b>a>...>b to depth 12 with x,y on every level and a text leaf: compact + indented round trip, decode of every truncation of the compact text");
	vf::sample("Xml::decode of \"<a x='&#\" S \";'/>\" for every S over {x 0 1 8 f F -}, e.g. S = x10FFFF, -1, x-8, 88888888; of <a>^4096 </a>^4096 and <a> <b/>^65536 </a>");
	vf::sample("round trip of <a>{'&#38;'}, <a x='&lt'>{}, <a>{'\\r\\n'}, <a x='\\x01\\xff'>{}, of <\u4e2dz/>, of <a> with attributes set in the order xx, _, x, X, y, and of a chain 4096 deep");
	// a family that ran but never reached the branch it exists for is a harness error (exit 2), not a pass
	std::string vacuous;
	if (!vf::deadline_passed() && vf::nviolations() == 0) {
		int req[] = { W_NULL, W_TREE, W_RT_MERGE, W_RT_DROP_NONEMPTY, W_RT_DEPTH12, W_REFLEN[0], W_REFLEN[1], W_REFLEN[2], W_REFLEN[3], W_REFLEN[4], W_NEST_NULL, W_NEST_DMAX, W_NEST_WMAX,
			W_NEST_RT_DMAX, W_NAME_START, W_NAME_REST, W_NAME_4BYTE, W_NAME_ILLEGAL, W_VAL_REFLIKE, W_VAL_CTRL, W_VAL_HIGH, W_ATTR_ORDERS, W_LEN_HEAP };
		const char* nm[] = { "decode_returned_null", "decode_returned_tree", "roundtrip_adjacent_text_merged", "roundtrip_nonempty_whitespace_text_dropped", "roundtrip_depth_12", "charref 0 bytes", "charref 1 byte", "charref 2 bytes", "charref 3 bytes", "charref 4 bytes",
			"nest_decode_returned_null", "nest_decoded_depth_ge_max", "nest_children_ge_max", "nest_roundtrip_depth_ge_max", "name_start_chars", "name_chars", "name_chars_4_byte", "name_position_byte_decodes", "value_looks_like_reference", "value_with_control_byte", "value_with_high_byte",
			"attribute_insertion_orders", "field_length_ge_16" };
		for (size_t i = 0; i < sizeof req / sizeof *req; i++) if (vf::get(req[i]) == 0) vacuous += std::string(vacuous.empty() ? "" : ", ") + nm[i];
	}
	int rc = vf::finish();
	if (!vacuous.empty()) { fprintf(stderr, "c07_xml: witness counter(s) zero: %s\n", vacuous.c_str()); return 2; }
	return rc;
}
