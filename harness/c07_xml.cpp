// C07 — Xml::decode is total and safe; Xml::encode -> Xml::decode preserves the tree.
//  (1) decode on every string over a 16-symbol character alphabet up to a length bound, on every byte-prefix of every
//      sequence of 23 markup tokens up to a length bound, on every truncation / 1-edit (2-edit neighbourhood) of a few
//      documents with prolog, DOCTYPE, comments, PIs, CDATA and references: must return (alarm), ASan silent with the
//      input's slack poisoned, result null or a tree whose every child(i).parent() is the containing element.
//  (2) every element tree up to a node bound (tags {a,b}, attribute subsets of {x,y}, values/text over 9 strings) and
//      linear chains to depth 12: decode(encode(compact)) == tree modulo merging adjacent text / dropping whitespace-only
//      text; the same for the indented output when every text node is the sole child of its element.
#include <asl/Xml.h>
#include <signal.h>
#include "vf.h"
#include "aslx.h"
using namespace asl;
using vf::fmt;

static int C_EVAL, C_DIST, W_NULL, W_TREE, W_LINKS, W_DEEP, W_TEXTCHILD, W_ATTR, W_COMMENT, W_PI, W_DOCTYPE, W_CDATA, W_REF, W_XMLDECL, W_EMPTYEND, W_MULTIBYTE,
	W_RT_COMPACT, W_RT_INDENT, W_RT_MERGE, W_RT_DROP, W_RT_ESC_TEXT, W_RT_ESC_ATTR, W_RT_DEPTH12, W_RT_NONASCII, W_DUP, W_ENUMTREE, W_ENUMLINKS;

// ---------------------------------------------------------------- observation of an asl tree (public API only)
struct N {
	bool text; std::string s; // tag or text
	std::vector<std::pair<std::string, std::string> > at; // sorted by name
	std::vector<N> k;
	N() : text(false) {}
	bool operator==(const N& o) const { return text == o.text && s == o.s && at == o.at && k == o.k; }
};
static N T(const std::string& t) { N n; n.text = true; n.s = t; return n; }
static N E(const std::string& t) { N n; n.s = t; return n; }

struct Walk { uint64_t links; int depth; bool text, attr; Walk() : links(0), depth(0), text(false), attr(false) {} };
// every child's parent() must be the element that contains it (whole tree)
static bool walk(const Xml& e, int depth, Walk& w, std::string& why, const std::string& path) {
	if (depth > w.depth) w.depth = depth;
	if (!e.isText() && e.attribs().length() > 0) w.attr = true;
	for (int i = 0; i < e.numChildren(); i++) {
		const Xml& c = e.child(i);
		std::string cp = path + fmt("/%d", i);
		if (c.isnull()) { why = "child " + cp + " is a null handle"; return false; }
		if (c.isText()) w.text = true;
		w.links++;
		Xml p = c.parent();
		if (!(p == e)) { why = "child " + cp + (p.isnull() ? " has no parent()" : " has a parent() that is not the element containing it"); return false; }
		if (!walk(c, depth + 1, w, why, cp)) return false;
	}
	return true;
}
static N observe(const Xml& e) {
	N n;
	if (e.isText()) { n.text = true; n.s = vfx::S(e.text()); return n; }
	n.s = vfx::S(e.tag());
	const Map<>& at = e.attribs();
	foreach2(String& name, String& value, at) n.at.push_back(std::make_pair(vfx::S(name), vfx::S(value)));
	for (int i = 0; i < e.numChildren(); i++) n.k.push_back(observe(e.child(i)));
	return n;
}
static bool sameAttrs(const Xml& e, const N& n) {
	const Map<>& at = e.attribs();
	if (at.length() != (int)n.at.size()) return false;
	foreach2(String& name, String& value, at) {
		bool found = false;
		for (size_t i = 0; i < n.at.size() && !found; i++)
			found = name.length() == (int)n.at[i].first.size() && !memcmp(*name, n.at[i].first.data(), n.at[i].first.size()) && value.length() == (int)n.at[i].second.size() && !memcmp(*value, n.at[i].second.data(), n.at[i].second.size());
		if (!found) return false;
	}
	return true;
}
static bool same(const Xml& e, const N& n) {
	if (e.isText() != n.text) return false;
	if (n.text) { const String& t = e.text(); return t.length() == (int)n.s.size() && !memcmp(*t, n.s.data(), n.s.size()); }
	const String& tag = e.tag();
	if (tag.length() != (int)n.s.size() || memcmp(*tag, n.s.data(), n.s.size())) return false;
	if (!sameAttrs(e, n) || e.numChildren() != (int)n.k.size()) return false;
	for (int i = 0; i < e.numChildren(); i++) if (!same(e.child(i), n.k[i])) return false;
	return true;
}
static Xml build(const N& n) {
	if (n.text) return XmlText(vfx::A(n.s));
	Xml e(vfx::A(n.s));
	for (size_t i = 0; i < n.at.size(); i++) e.setAttr(vfx::A(n.at[i].first), vfx::A(n.at[i].second));
	for (size_t i = 0; i < n.k.size(); i++) e << build(n.k[i]);
	return e;
}

// ---------------------------------------------------------------- (1) decode: total, safe, parent links
static bool contains(const std::string& s, const char* t) { return s.find(t) != std::string::npos; }

static void decode_one(const std::string& txt, bool distinct) {
	static std::string kase;
	static const char* hx = "0123456789abcdef";
	kase.assign("dec:");
	for (size_t i = 0; i < txt.size(); i++) { unsigned char c = txt[i]; kase += hx[c >> 4]; kase += hx[c & 15]; }
	vf::cur(kase); vf::cur_sig("decode_crash");
	vf::add(C_EVAL); if (distinct) vf::add(C_DIST);
	String s = vfx::A(txt);
	vf::asan_clear();
	bool isnull; Walk w; std::string why; bool ok = true;
	{
		vfx::Flush fl(s);
		Xml r = Xml::decode(s);
		isnull = !r;
		if (!r.isnull()) ok = walk(r, 1, w, why, "");
	}
	if (vf::asan_tripped()) { vf::violation("decode_asan", "ASan " + vf::asan_what() + " in Xml::decode(" + vf::jstr(txt) + ")", kase); vf::asan_clear(); }
	if (!ok) vf::violation("decode_parent", "Xml::decode(" + vf::jstr(txt) + "): " + why, kase);
	if (isnull) { vf::add(W_NULL); }
	else {
		vf::add(W_TREE); vf::add(W_LINKS, w.links);
		if (distinct) { vf::add(W_ENUMTREE); if (w.links) vf::add(W_ENUMLINKS); }
		if (w.depth >= 3) vf::add(W_DEEP);
		if (w.text) vf::add(W_TEXTCHILD);
		if (w.attr) vf::add(W_ATTR);
		if (contains(txt, "-->")) vf::add(W_COMMENT);
		if (contains(txt, "<?p") && contains(txt, "?>")) vf::add(W_PI);
		if (contains(txt, "<!D")) vf::add(W_DOCTYPE);
		if (contains(txt, "<![CDATA[")) vf::add(W_CDATA);
		if (contains(txt, "&#") || contains(txt, "&lt;") || contains(txt, "&bad;")) vf::add(W_REF);
		if (txt.compare(0, 5, "<?xml") == 0) vf::add(W_XMLDECL);
		if (contains(txt, "\xc3\xa9")) vf::add(W_MULTIBYTE);
	}
	if (contains(txt, "</>")) vf::add(W_EMPTYEND);
}

// "terminates": a generous per-item alarm (never reached by a terminating decoder: an item is well under a second of work)
static void on_alarm(int) { vf::cur_sig("no_termination"); _exit(14); }

static const char* CH[] = { "<", ">", "/", "!", "?", "-", "&", ";", "#", "x", "a", "=", "\"", "'", " ", "\xc3\xa9" };
static const int NCH = 16;
static const char* TOK[] = { "<a", "</a", "</", ">", "/>", " x=", "\"", "'", "v", "&lt;", "&#38;", "&#x26;", "&bad;", "&", "<!--", "-->", "<?p ", "?>", "<!D", "<![CDATA[", "]]>", "t", " " };
static const int NTOK = 23;
static std::vector<std::string> PIECES; // distinct non-empty byte-prefixes of the tokens (a sequence cut inside its last token)
static void mkpieces() {
	std::set<std::string> seen;
	for (int t = 0; t < NTOK; t++) { std::string tk = TOK[t]; for (size_t k = 1; k <= tk.size(); k++) if (seen.insert(tk.substr(0, k)).second) PIECES.push_back(tk.substr(0, k)); }
}
// number of alphabet symbols if the string is made of alphabet symbols only, else -1
static int charSpaceLen(const std::string& s) {
	int n = 0;
	for (size_t i = 0; i < s.size(); n++) {
		if ((unsigned char)s[i] == 0xc3 && i + 1 < s.size() && (unsigned char)s[i + 1] == 0xa9) { i += 2; continue; }
		if (!strchr("<>/!?-&;#xa=\"' ", s[i])) return -1;
		i++;
	}
	return n;
}
static bool g_capped = false;
static bool out_of_time(const char* what) {
	if (!vf::deadline_passed()) return false;
	if (!g_capped) { g_capped = true; vf::cap_hit(std::string(what) + ": deadline reached, remaining items skipped"); }
	return true;
}

static void char_strings(int minLen, int maxLen) {
	uint64_t items = (uint64_t)NCH * NCH * NCH;
	vf::parallel(items, [&](uint64_t pre) {
		alarm(1200);
		if (out_of_time("char strings")) return;
		if (pre == 0 && minLen == 0) {
			decode_one("", true);
			for (int a = 0; a < NCH; a++) { decode_one(CH[a], true); if (maxLen >= 2) for (int b = 0; b < NCH; b++) decode_one(std::string(CH[a]) + CH[b], true); }
		}
		std::string base = std::string(CH[pre / (NCH * NCH)]) + CH[pre / NCH % NCH] + CH[pre % NCH];
		std::string s;
		for (int len = std::max(3, minLen); len <= maxLen; len++) {
			uint64_t rest = 1; for (int i = 3; i < len; i++) rest *= NCH;
			for (uint64_t r = 0; r < rest; r++) {
				s = base; uint64_t x = r;
				for (int i = 3; i < len; i++) { s += CH[x % NCH]; x /= NCH; }
				decode_one(s, true);
			}
		}
		alarm(0);
	}, 4);
}
// the XML declaration skip: "<?xml" followed by every string over the alphabet
static void xmldecl_strings(int maxLen) {
	vf::parallel((uint64_t)NCH * NCH, [&](uint64_t pre) {
		alarm(1200);
		if (out_of_time("xml declaration strings")) return;
		const std::string head = "<?xml";
		if (pre == 0) { decode_one(head, true); for (int a = 0; a < NCH; a++) decode_one(head + CH[a], true); }
		std::string base = head + CH[pre / NCH] + CH[pre % NCH], s;
		for (int len = 2; len <= maxLen; len++) {
			uint64_t rest = 1; for (int i = 2; i < len; i++) rest *= NCH;
			for (uint64_t r = 0; r < rest; r++) {
				s = base; uint64_t x = r;
				for (int i = 2; i < len; i++) { s += CH[x % NCH]; x /= NCH; }
				decode_one(s, true);
			}
		}
		alarm(0);
	}, 4);
}
// every byte-prefix of every token sequence of at most maxTok tokens = (sequence of k < maxTok tokens) + piece
static void token_one_prefix(const std::string& p, int charLen) {
	std::string s;
	for (size_t i = 0; i < PIECES.size(); i++) {
		s = p; s += PIECES[i];
		int cl = charSpaceLen(s);
		bool dup = cl >= 0 && cl <= charLen;
		if (dup) vf::add(W_DUP);
		decode_one(s, !dup);
	}
}
// minK..maxK = number of complete tokens before the (possibly cut) last one
static void token_strings(int minK, int maxK, int charLen) {
	uint64_t items = maxK < 3 ? 1 : (uint64_t)NTOK * NTOK * NTOK;
	vf::parallel(items, [&](uint64_t pre) {
		alarm(1200);
		if (out_of_time("token sequences")) return;
		if (pre == 0 && minK == 0) { // prefixes of 0, 1, 2 tokens
			token_one_prefix("", charLen);
			for (int a = 0; a < NTOK && maxK >= 1; a++) { token_one_prefix(TOK[a], charLen); for (int b = 0; b < NTOK && maxK >= 2; b++) token_one_prefix(std::string(TOK[a]) + TOK[b], charLen); }
		}
		std::string base = std::string(TOK[pre / (NTOK * NTOK)]) + TOK[pre / NTOK % NTOK] + TOK[pre % NTOK];
		std::string p;
		for (int k = std::max(3, minK); k <= maxK; k++) {
			uint64_t rest = 1; for (int i = 3; i < k; i++) rest *= NTOK;
			for (uint64_t r = 0; r < rest; r++) {
				p = base; uint64_t x = r;
				for (int i = 3; i < k; i++) { p += TOK[x % NTOK]; x /= NTOK; }
				token_one_prefix(p, charLen);
			}
		}
		alarm(0);
	}, 2);
}

// nesting: every sequence of whole tags / text runs (deeper element stacks, end tags that close more than was opened, mixed content)
static const char* ST[] = { "<a>", "<b>", "</a>", "</b>", "</>", "<a/>", "<b x=\"&#38;\" y='v'>", "t", " ", "&amp;", "<!--c-->" };
static const int NST = 11;
static void struct_strings(int maxTok) {
	vf::parallel((uint64_t)NST * NST * NST, [&](uint64_t pre) {
		alarm(1200);
		if (out_of_time("tag sequences")) return;
		if (pre == 0) for (int a = 0; a < NST; a++) for (int b = 0; b < NST; b++) decode_one(std::string(ST[a]) + ST[b], true); // single tokens are byte-prefixes of the fine token pass or alphabet strings
		std::string base = std::string(ST[pre / (NST * NST)]) + ST[pre / NST % NST] + ST[pre % NST], s;
		for (int k = 3; k <= maxTok; k++) {
			uint64_t rest = 1; for (int i = 3; i < k; i++) rest *= NST;
			for (uint64_t r = 0; r < rest; r++) {
				s = base; uint64_t x = r;
				for (int i = 3; i < k; i++) { s += ST[x % NST]; x /= NST; }
				decode_one(s, true);
			}
		}
		alarm(0);
	}, 4);
}

// documents for the truncation / edit neighbourhood
static std::vector<std::string> templates() {
	std::vector<std::string> t;
	t.push_back("<?xml version=\"1.0\"?><!DOCTYPE a [<!ENTITY e \"v\">]><a x=\"1\" y='&quot;2'><!-- c --><b>t&lt;&#38;&#x26;\xc3\xa9</b><?p q?><![CDATA[x]]><c/></a>");
	t.push_back("<a><b x = \"&amp;\" /><!----> v <b>&bad;</b></a>");
	t.push_back("<?p q?><a:b-c.d _e=\"\"></a:b-c.d>");
	return t;
}
static bool edit(std::string& s, int pos, int kind, const char* c) { // 0 substitute, 1 delete, 2 insert before
	if (kind == 1) { if (pos >= (int)s.size()) return false; s.erase(pos, 1); return true; }
	if (kind == 0) { if (pos >= (int)s.size()) return false; s.replace(pos, 1, c); return true; }
	if (pos > (int)s.size()) return false;
	s.insert(pos, c); return true;
}
static void template_edits(bool thorough) {
	std::vector<std::string> tp = templates();
	struct Job { int t, pos; };
	std::vector<Job> jobs;
	for (size_t t = 0; t < tp.size(); t++) for (int p = 0; p <= (int)tp[t].size(); p++) { Job j = { (int)t, p }; jobs.push_back(j); }
	int reach = thorough ? 12 : 3;
	vf::parallel(jobs.size(), [&](uint64_t ji) {
		alarm(1200);
		if (out_of_time("template edits")) return;
		const std::string& base = tp[jobs[ji].t]; int p1 = jobs[ji].pos;
		decode_one(base.substr(0, p1), false);
		for (int k1 = 0; k1 < 3; k1++) for (int c1 = 0; c1 < (k1 == 1 ? 1 : NCH); c1++) {
			std::string s1 = base;
			if (!edit(s1, p1, k1, CH[c1])) continue;
			decode_one(s1, false);
			int lim = std::min((int)s1.size(), p1 + reach);
			for (int p2 = p1; p2 <= lim; p2++)
				for (int k2 = 0; k2 < 3; k2++) for (int c2 = 0; c2 < (k2 == 1 ? 1 : NCH); c2++) {
					std::string s2 = s1;
					if (!edit(s2, p2, k2, CH[c2])) continue;
					decode_one(s2, false);
				}
		}
		alarm(0);
	});
}

// arbitrary bytes: every string of at most maxLen non-NUL bytes; every single byte substituted / inserted at every position of the documents
static void byte_strings(int maxLen) {
	vf::parallel(255, [&](uint64_t i) {
		alarm(1200);
		if (out_of_time("byte strings")) return;
		std::string s(1, (char)(i + 1));
		decode_one(s, charSpaceLen(s) < 0);
		if (maxLen >= 2) for (int b = 1; b < 256; b++) {
			std::string s2 = s + (char)b;
			decode_one(s2, charSpaceLen(s2) < 0);
			if (maxLen >= 3) for (int c = 1; c < 256; c++) { std::string s3 = s2 + (char)c; decode_one(s3, charSpaceLen(s3) < 0); }
		}
		alarm(0);
	});
}
static void template_bytes() {
	std::vector<std::string> tp = templates();
	struct Job { int t, pos; };
	std::vector<Job> jobs;
	for (size_t t = 0; t < tp.size(); t++) for (int p = 0; p <= (int)tp[t].size(); p++) { Job j = { (int)t, p }; jobs.push_back(j); }
	vf::parallel(jobs.size(), [&](uint64_t ji) {
		alarm(1200);
		const std::string& base = tp[jobs[ji].t]; int p = jobs[ji].pos;
		for (int b = 1; b < 256; b++) {
			char c[2] = { (char)b, 0 };
			for (int kind = 0; kind <= 2; kind += 2) { std::string s = base; if (edit(s, p, kind, c)) decode_one(s, false); }
		}
		alarm(0);
	}, 4);
}

// ---------------------------------------------------------------- (2) round trip
static const char* VALS[] = { "", "v", "&", "<", ">", "\"", "'", "\xc3\xa9", " v " };
static const int NV = 9;

static bool isws(const std::string& s) { for (size_t i = 0; i < s.size(); i++) if (s[i] != ' ' && s[i] != '\n' && s[i] != '\r' && s[i] != '\t') return false; return true; }
// the two readings of "up to merging adjacent text nodes and dropping whitespace-only text": merge then drop / drop then merge
static N normal(const N& n, int order, bool* merged = 0, bool* dropped = 0) {
	if (n.text) return n;
	N r; r.s = n.s; r.at = n.at;
	std::sort(r.at.begin(), r.at.end());
	std::vector<N> k;
	for (size_t i = 0; i < n.k.size(); i++) {
		if (n.k[i].text) {
			if (order == 1 && isws(n.k[i].s)) { if (dropped) *dropped = true; continue; }
			if (!k.empty() && k.back().text) { k.back().s += n.k[i].s; if (merged) *merged = true; }
			else k.push_back(n.k[i]);
		}
		else k.push_back(normal(n.k[i], order, merged, dropped));
	}
	for (size_t i = 0; i < k.size(); i++) {
		if (k[i].text && isws(k[i].s)) { if (dropped) *dropped = true; continue; }
		r.k.push_back(k[i]);
	}
	return r;
}
static bool soleText(const N& n) {
	for (size_t i = 0; i < n.k.size(); i++) { if (n.k[i].text && n.k.size() != 1) return false; if (!soleText(n.k[i])) return false; }
	return true;
}
static int depthOf(const N& n) { int d = 0; for (size_t i = 0; i < n.k.size(); i++) d = std::max(d, depthOf(n.k[i])); return d + 1; }
static bool needsEsc(const std::string& s) { return s.find_first_of("&<>\"'") != std::string::npos; }
static void facts(const N& n, bool& escText, bool& escAttr, bool& nonascii) {
	if (n.text) { if (needsEsc(n.s)) escText = true; if (contains(n.s, "\xc3")) nonascii = true; return; }
	for (size_t i = 0; i < n.at.size(); i++) { if (needsEsc(n.at[i].second)) escAttr = true; if (contains(n.at[i].second, "\xc3")) nonascii = true; }
	for (size_t i = 0; i < n.k.size(); i++) facts(n.k[i], escText, escAttr, nonascii);
}
// case string: T<hex text>; | E<hex tag>[<hex name>=<hex value>,...](children)
static void hexa(const std::string& s, std::string& o) { static const char* hx = "0123456789abcdef"; for (size_t i = 0; i < s.size(); i++) { unsigned char c = s[i]; o += hx[c >> 4]; o += hx[c & 15]; } }
static void ser(const N& n, std::string& o) {
	if (n.text) { o += 'T'; hexa(n.s, o); o += ';'; return; }
	o += 'E'; hexa(n.s, o); o += '[';
	for (size_t i = 0; i < n.at.size(); i++) { hexa(n.at[i].first, o); o += '='; hexa(n.at[i].second, o); o += ','; }
	o += "](";
	for (size_t i = 0; i < n.k.size(); i++) ser(n.k[i], o);
	o += ")";
}
static bool parse(const char*& p, N& n) {
	if (*p == 'T') { const char* e = strchr(p, ';'); if (!e) return false; n = T(vf::unhex(std::string(p + 1, e))); p = e + 1; return true; }
	if (*p != 'E') return false;
	const char* e = strchr(p, '['); if (!e) return false;
	n = E(vf::unhex(std::string(p + 1, e))); p = e + 1;
	while (*p && *p != ']') { const char* q = strchr(p, '='); const char* c = q ? strchr(q, ',') : 0; if (!c) return false; n.at.push_back(std::make_pair(vf::unhex(std::string(p, q)), vf::unhex(std::string(q + 1, c)))); p = c + 1; }
	if (*p != ']' || p[1] != '(') return false;
	p += 2;
	while (*p && *p != ')') { N c; if (!parse(p, c)) return false; n.k.push_back(c); }
	if (*p != ')') return false;
	p++; return true;
}
static void show(const N& n, std::string& o) {
	if (n.text) { o += "'" + n.s + "'"; return; }
	o += "<" + n.s;
	for (size_t i = 0; i < n.at.size(); i++) o += " " + n.at[i].first + "='" + n.at[i].second + "'";
	o += ">{";
	for (size_t i = 0; i < n.k.size(); i++) { if (i) o += ", "; show(n.k[i], o); }
	o += "}";
}
static std::string show(const N& n) { std::string o; show(n, o); return o; }

static void roundtrip(const N& m, bool distinct, const std::string* tokcase = 0) {
	static std::string kase;
	if (tokcase) kase = *tokcase; else { kase.assign("rt:"); ser(m, kase); }
	vf::cur(kase); vf::cur_sig("roundtrip_crash");
	vf::add(C_EVAL); if (distinct) vf::add(C_DIST);
	bool merged = false, dropped = false;
	N exp0 = normal(m, 0, &merged, &dropped);
	if (merged) vf::add(W_RT_MERGE);
	if (dropped) vf::add(W_RT_DROP);
	bool et = false, ea = false, na = false; facts(m, et, ea, na);
	if (et) vf::add(W_RT_ESC_TEXT);
	if (ea) vf::add(W_RT_ESC_ATTR);
	if (na) vf::add(W_RT_NONASCII);
	if (depthOf(m) >= 12) vf::add(W_RT_DEPTH12);
	vf::asan_clear();
	bool sole = soleText(m);
	for (int formatted = 0; formatted <= (sole ? 1 : 0); formatted++) {
		const char* mode = formatted ? "indented" : "compact";
		std::string text, why; bool null = false, linksok = true, exact = false; N got;
		{
			Xml e = build(m);
			String enc = Xml::encode(e, formatted != 0);
			vfx::Flush fl(enc);
			Xml back = Xml::decode(enc);
			if (!back) null = true;
			else {
				Walk w; linksok = walk(back, 1, w, why, ""); vf::add(W_LINKS, w.links);
				exact = same(back, exp0); // exp0 is in normal form: an exact match needs no normalisation of the decoded side
				if (!exact) got = observe(back);
			}
			if (!exact || !linksok) text = vfx::S(enc);
		}
		vf::add(formatted ? W_RT_INDENT : W_RT_COMPACT);
		if (vf::asan_tripped()) { vf::violation("roundtrip_asan", "ASan " + vf::asan_what() + fmt(" in %s encode/decode of ", mode) + show(m), kase); vf::asan_clear(); }
		if (null) { vf::violation("roundtrip_reject", fmt("Xml::decode returns a null element for the %s output ", mode) + vf::jstr(text) + " of " + show(m), kase); continue; }
		if (!linksok) vf::violation("decode_parent", fmt("decoded %s output ", mode) + vf::jstr(text) + ": " + why, kase);
		if (exact) continue;
		N g0 = normal(got, 0), g1 = normal(got, 1), exp1 = normal(m, 1);
		if (!(g0 == exp0) && !(g1 == exp1) && !(g0 == exp1) && !(g1 == exp0))
			vf::violation(formatted ? "roundtrip_indented" : "roundtrip_compact", fmt("%s output ", mode) + vf::jstr(text) + " decodes to " + show(got) + ", original " + show(m), kase);
	}
}

// labels
static N elemLabel(int tag, int sub, int vx, int vy) { // sub: bit0 = x, bit1 = y
	N e = E(tag ? "b" : "a");
	if (sub & 1) e.at.push_back(std::make_pair(std::string("x"), std::string(VALS[vx])));
	if (sub & 2) e.at.push_back(std::make_pair(std::string("y"), std::string(VALS[vy])));
	return e;
}
// all 200 element labels: tag x (no attr | x=9 | y=9 | x,y=81)
static std::vector<N> allElemLabels() {
	std::vector<N> l;
	for (int t = 0; t < 2; t++) {
		l.push_back(elemLabel(t, 0, 0, 0));
		for (int v = 0; v < NV; v++) l.push_back(elemLabel(t, 1, v, 0));
		for (int v = 0; v < NV; v++) l.push_back(elemLabel(t, 2, 0, v));
		for (int v = 0; v < NV; v++) for (int u = 0; u < NV; u++) l.push_back(elemLabel(t, 3, v, u));
	}
	return l;
}
// stage A: every tree with <= 2 nodes over the full label sets; maxNodes 3: also every 3-node tree whose two non-root nodes range over the
// full label sets and whose root ranges over the 8 labels tag x attribute subset
static bool reducedRoot(const N& e) { for (size_t i = 0; i < e.at.size(); i++) if (e.at[i].second != (e.at[i].first == "x" ? "&" : "\"")) return false; return true; }
static void stageA(int maxNodes) {
	static std::vector<N> EL = allElemLabels();
	std::vector<N> NL = EL; // any node: element or text
	for (int v = 0; v < NV; v++) NL.push_back(T(VALS[v]));
	size_t ne = EL.size(), nn = NL.size();
	vf::parallel(ne, [&](uint64_t r) {
		alarm(1200);
		if (out_of_time("round trip, full labels")) return;
		roundtrip(EL[r], true);
		for (size_t c = 0; c < nn; c++) {
			N t = EL[r]; t.k.push_back(NL[c]); roundtrip(t, true);
			if (maxNodes < 3 || !reducedRoot(EL[r])) continue;
			for (size_t d = 0; d < nn; d++) {
				N t2 = t; t2.k.push_back(NL[d]); roundtrip(t2, true);          // two children
				if (c < ne) { N t3 = t; t3.k[0].k.push_back(NL[d]); roundtrip(t3, true); } // child and grandchild
			}
		}
		alarm(0);
	});
}
// stage B: every tree shape with minNodes..maxNodes nodes; element labels tag x attribute subset (values rotate through VALS by
// occurrence), text labels all of VALS. Trees are generated as pre-order token strings: 0..7 open element, 8..16 text, 17 close.
struct Gen {
	int nlabels; // element labels used: 8 = tag x {none, x, y, x+y}; 4 = a, b, a[x], b[x,y]
	int minNodes, maxNodes; size_t limit; // limit: stop descending at this many tokens (prefix collection); 0 = none
	std::vector<int> tok; int open, nodes;
	std::function<void(const std::vector<int>&, bool)> emit; // (tokens, complete)
	void rec() {
		if (open == 0 && nodes > 0) { if (nodes >= minNodes) emit(tok, true); return; }
		if (limit && tok.size() >= limit) { emit(tok, false); return; }
		if (open > 0) { tok.push_back(17); open--; rec(); open++; tok.pop_back(); }
		if (nodes >= maxNodes) return;
		static const int L4[] = { 0, 1, 2, 7 };
		for (int li = 0; li < nlabels; li++) { int l = nlabels == 8 ? li : L4[li]; tok.push_back(l); open++; nodes++; rec(); nodes--; open--; tok.pop_back(); }
		if (open > 0) for (int t = 0; t < NV; t++) { tok.push_back(8 + t); nodes++; rec(); nodes--; tok.pop_back(); }
	}
	void start(const std::vector<int>& prefix) {
		tok = prefix; open = 0; nodes = 0;
		for (size_t i = 0; i < tok.size(); i++) { if (tok[i] < 8) { open++; nodes++; } else if (tok[i] < 17) nodes++; else open--; }
		rec();
	}
};
static N fromTokens(const std::vector<int>& tok) {
	int rot = 0; for (size_t i = 0; i < tok.size(); i++) rot += tok[i] + 1;
	int occ = 0;
	std::vector<N> st;
	N root;
	for (size_t i = 0; i < tok.size(); i++) {
		int t = tok[i];
		if (t < 8) { int sub = t >> 1; int vx = (rot + occ) % NV; if (sub & 1) occ++; int vy = (rot + occ) % NV; if (sub & 2) occ++; st.push_back(elemLabel(t & 1, sub, vx, vy)); }
		else if (t < 17) st.back().k.push_back(T(VALS[t - 8]));
		else { N e = std::move(st.back()); st.pop_back(); if (st.empty()) root = std::move(e); else st.back().k.push_back(std::move(e)); }
	}
	return root;
}
static int c_trees;
static std::string tokCase(const std::vector<int>& t) { std::string tc = "rtt:"; for (size_t j = 0; j < t.size(); j++) tc += (char)('a' + t[j]); return tc; }
static int nodesOf(const std::vector<int>& t) { int n = 0; for (size_t i = 0; i < t.size(); i++) if (t[i] < 17) n++; return n; }
static uint64_t stageB(int minNodes, int maxNodes, int nlabels, int distinctFrom) {
	std::vector<std::vector<int> > items; std::vector<char> complete;
	Gen g; g.nlabels = nlabels; g.minNodes = minNodes; g.maxNodes = maxNodes; g.limit = 4;
	g.emit = [&](const std::vector<int>& t, bool c) { items.push_back(t); complete.push_back(c); };
	g.start(std::vector<int>());
	vf::parallel(items.size(), [&](uint64_t i) {
		alarm(1200);
		if (out_of_time("round trip, all shapes")) return;
		if (complete[i]) { std::string tc = tokCase(items[i]); roundtrip(fromTokens(items[i]), nodesOf(items[i]) >= distinctFrom, &tc); vf::add(c_trees); return; }
		Gen w; w.nlabels = nlabels; w.minNodes = minNodes; w.maxNodes = maxNodes; w.limit = 0;
		std::string tc;
		w.emit = [&](const std::vector<int>& t, bool) { tc.assign("rtt:"); for (size_t j = 0; j < t.size(); j++) tc += (char)('a' + t[j]); roundtrip(fromTokens(t), nodesOf(t) >= distinctFrom, &tc); vf::add(c_trees); };
		w.start(items[i]);
		alarm(0);
	}, 4);
	return vf::get(c_trees);
}
// stage C: linear chains a > b > a > ... to depth 12, leaf none or one text, attributes on every level; plus every truncation of the compact text
static N chain(int depth, int leaf, int sub, int voff, bool rich) {
	N cur; bool have = false;
	for (int lv = depth - 1; lv >= 0; lv--) {
		N e = elemLabel(lv & 1, sub, (voff + 2 * lv) % NV, (voff + 2 * lv + 1) % NV);
		if (rich) { // other well-formed names: ':' '_' '-' '.' digits, non-ASCII
			e.s = (lv & 1) ? "_\xc3\xa9" "9" : "a:B-c.d1_\xc3\xa9";
			for (size_t i = 0; i < e.at.size(); i++) e.at[i].first = e.at[i].first == "x" ? "x:Y-z.w_1" : "\xc3\xa9" "y";
		}
		if (have) e.k.push_back(cur); else if (leaf > 0) e.k.push_back(T(VALS[leaf - 1]));
		cur = e; have = true;
	}
	return cur;
}
static void stageC(int distinctFromDepth) {
	vf::parallel(12 * (NV + 1), [&](uint64_t i) {
		alarm(1200);
		int depth = (int)(i / (NV + 1)) + 1, leaf = (int)(i % (NV + 1));
		for (int rich = 0; rich < 2; rich++) for (int sub = 0; sub < 4; sub++) for (int voff = 0; voff < (sub ? NV : 1); voff++) {
			N m = chain(depth, leaf, sub, voff, rich != 0);
			roundtrip(m, rich || depth >= distinctFromDepth);
			if (voff > 1) continue;
			std::string text;
			{ Xml e = build(m); text = vfx::S(Xml::encode(e, false)); }
			for (size_t cut = 0; cut <= text.size(); cut++) decode_one(text.substr(0, cut), false);
		}
		alarm(0);
	});
}

static void run_case(const std::string& k) {
	if (k.compare(0, 4, "dec:") == 0) decode_one(vf::unhex(k.substr(4)), true);
	else if (k.compare(0, 4, "rtt:") == 0) { std::vector<int> t; for (size_t i = 4; i < k.size(); i++) t.push_back(k[i] - 'a'); roundtrip(fromTokens(t), true, &k); }
	else if (k.compare(0, 3, "rt:") == 0) { N n; const char* p = k.c_str() + 3; if (parse(p, n)) roundtrip(n, true); else { fprintf(stderr, "bad case string\n"); _exit(2); } }
}

int main(int argc, char** argv) {
	vf::init(argc, argv, "C07", "c07_xml");
	C_EVAL = vf::counter("evaluations"); C_DIST = vf::counter("distinct_nontrivial");
	W_NULL = vf::counter("w.decode_returned_null"); W_TREE = vf::counter("w.decode_returned_tree"); W_LINKS = vf::counter("w.parent_links_checked");
	W_DEEP = vf::counter("w.decoded_tree_depth_ge_3"); W_TEXTCHILD = vf::counter("w.decoded_tree_with_text_child"); W_ATTR = vf::counter("w.decoded_tree_with_attribute");
	W_COMMENT = vf::counter("w.accepted_input_with_comment_end"); W_PI = vf::counter("w.accepted_input_with_pi"); W_DOCTYPE = vf::counter("w.accepted_input_with_doctype_start");
	W_CDATA = vf::counter("w.accepted_input_with_cdata_start"); W_REF = vf::counter("w.accepted_input_with_reference"); W_XMLDECL = vf::counter("w.accepted_input_with_xml_declaration");
	W_EMPTYEND = vf::counter("w.inputs_containing_empty_end_tag"); W_MULTIBYTE = vf::counter("w.accepted_input_with_non_ascii");
	W_DUP = vf::counter("token_strings_also_in_char_space");
	W_ENUMTREE = vf::counter("w.enumerated_strings_decoding_to_a_tree"); W_ENUMLINKS = vf::counter("w.enumerated_strings_decoding_to_a_tree_with_children");
	W_RT_COMPACT = vf::counter("w.roundtrip_compact"); W_RT_INDENT = vf::counter("w.roundtrip_indented"); W_RT_MERGE = vf::counter("w.roundtrip_adjacent_text_merged");
	W_RT_DROP = vf::counter("w.roundtrip_whitespace_text_dropped"); W_RT_ESC_TEXT = vf::counter("w.roundtrip_text_needing_escape"); W_RT_ESC_ATTR = vf::counter("w.roundtrip_attribute_needing_escape");
	W_RT_DEPTH12 = vf::counter("w.roundtrip_depth_12"); W_RT_NONASCII = vf::counter("w.roundtrip_non_ascii");
	c_trees = vf::counter("roundtrip_shape_trees");
	mkpieces();
	signal(SIGALRM, on_alarm);
	if (vf::opt.replay) { vf::parallel(1, [&](uint64_t) { alarm(600); run_case(vf::opt.kase); }); return vf::finish(); }
	bool TH = vf::opt.thorough();
	const char* e; // the C07_* variables are development knobs (smaller bounds for mutation runs); the registered commands do not set them
	int charLen = (e = getenv("C07_CHARLEN")) ? atoi(e) : TH ? 6 : 5;
	int tokLen = (e = getenv("C07_TOKLEN")) ? atoi(e) : TH ? 6 : 5;
	int fullNodes = (e = getenv("C07_FULLNODES")) ? atoi(e) : TH ? 3 : 2;
	int byteLen = TH ? 3 : 2;
	int structLen = (e = getenv("C07_STRUCTLEN")) ? atoi(e) : TH ? 7 : 6;
	int shapeNodes = (e = getenv("C07_SHAPENODES")) ? atoi(e) : 5;      // all shapes, 8 element labels
	int shapeNodes4 = (e = getenv("C07_SHAPENODES4")) ? atoi(e) : TH ? 6 : 5; // all shapes, 4 element labels (only sizes beyond shapeNodes)
	double t0 = vf::now_s(), t1;
	// shortest inputs first, so that the first reported counterexamples are minimal
	char_strings(0, std::min(charLen, 4));
	token_strings(0, std::min(tokLen - 1, 2), charLen);
	t1 = vf::now_s(); vf::setinfo("t_short_inputs", fmt("%.1f", t1 - t0)); t0 = t1;
	stageA(fullNodes);
	t1 = vf::now_s(); vf::setinfo("t_rt_full", fmt("%.1f", t1 - t0)); t0 = t1;
	uint64_t nshape = stageB(3, shapeNodes, 8, fullNodes + 1); // in the thorough tier some 3-node trees are also in stage A: not counted as distinct
	if (shapeNodes4 > shapeNodes) nshape = stageB(shapeNodes + 1, shapeNodes4, 4, 0);
	t1 = vf::now_s(); vf::setinfo("t_rt_shapes", fmt("%.1f", t1 - t0)); t0 = t1;
	stageC(shapeNodes4 + 1);
	t1 = vf::now_s(); vf::setinfo("t_rt_chains", fmt("%.1f", t1 - t0)); t0 = t1;
	template_edits(TH);
	template_bytes();
	struct_strings(structLen);
	byte_strings(byteLen);
	t1 = vf::now_s(); vf::setinfo("t_templates", fmt("%.1f", t1 - t0)); t0 = t1;
	xmldecl_strings(charLen - 1);
	if (charLen > 4) char_strings(5, charLen);
	t1 = vf::now_s(); vf::setinfo("t_chars", fmt("%.1f", t1 - t0)); t0 = t1;
	if (tokLen - 1 >= 3) token_strings(3, tokLen - 1, charLen);
	t1 = vf::now_s(); vf::setinfo("t_tokens", fmt("%.1f", t1 - t0)); t0 = t1;
	vf::setinfo("bounds", fmt("{\"tag_sequence_len\": %d, \"byte_len\": %d, \"char_len\": %d, \"token_len\": %d, \"pieces\": %d, \"full_label_nodes\": %d, \"shape_nodes\": %d, \"shape_nodes_4_labels\": %d, \"shape_trees\": %llu}", structLen, byteLen, charLen, tokLen, (int)PIECES.size(), fullNodes, shapeNodes, shapeNodes4, (unsigned long long)nshape));
	vf::sample("Xml::decode of every string over {< > / ! ? - & ; # x a = \" ' space \\u00e9} up to the length bound, e.g. \"</>\", \"<a/>\", \"<a a=''>\", \"&#x;<\"");
	vf::sample("Xml::decode of every byte-prefix of every token sequence, e.g. \"<a x=\\\"&#38;\\\"><!--t--><?p ?>t</a>\" and \"<a x='&#x2\"");
	vf::sample("round trip of <a x='&' y='\\u00e9'>{'<', <b>{' v '}, '', '>'} (compact) and of <a>{<b x='\"'>{' v '}, <b>{}} (compact and indented)");
	vf::sample("chain a>b>a>...>b to depth 12 with x,y on every level and a text leaf: compact + indented round trip, decode of every truncation of the compact text");
	return vf::finish();
}
