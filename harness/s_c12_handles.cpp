// C12 — shared handles and atomic counters under every interleaving.
// ONE source, TWO binaries:
//   s_c12_handles (flavour asan, links vsched): real asl::Thread workers run straight-line handle / counter programs under the
//     deterministic scheduler; every schedule (within the preemption bound) of every program tuple is executed.
//   t_c12_race (flavour tsan; t_c12_race.cpp defines C12_RACE_PASS and includes this file): the SAME program tuples plus
//     16-thread contention runs, free-running under ThreadSanitizer. It keeps the scheduler's assumption honest: the scheduler
//     sees only hooked points, so an access that is not atomic / lock protected is invisible to it but is a TSan report here.
// Every worker owns its handles; a sequential model predicts which object every handle designates after every operation
// (payload tags), so "stays alive" is checked as "the handle still shows the payload the model says, undamaged".
#include <asl/Array.h>
#include <asl/Map.h>
#include <asl/HashMap.h>
#include <asl/Pointer.h>
#include <asl/Shared.h>
#include <asl/Thread.h>
#include <asl/Mutex.h>
#include <sched.h>
#include <set>
#include "vf.h"
#ifndef C12_RACE_PASS
#include "vsched.h"
#endif
using namespace asl;
using vf::fmt;

#ifdef C12_RACE_PASS
#define BUMP(x) __atomic_fetch_add(&(x), 1, __ATOMIC_RELAXED) // relaxed: adds no happens-before edge, is no race of our own
static inline void c12_yield() { sched_yield(); }
#else
#define BUMP(x) ((x)++) // only touched while holding the scheduler baton
static inline void c12_yield() { vsched::point(); }
#endif

// ---------------------------------------------------------------- payload with observable life cycle
static int g_ctor, g_dtor, g_bad;
static const void* g_orig; // address of the head payload of the shared object of the current execution
static int g_freeby;       // scheduler id of the thread that destroyed it (0 main, 1.. workers)
struct TBase { virtual ~TBase() {} };
struct Tracked : TBase {
	int magic; int* heap;
	explicit Tracked(int tag = 7) : magic(0x600d), heap(new int(tag)) { BUMP(g_ctor); }
	Tracked(const Tracked& o) : TBase(), magic(0x600d), heap(new int(*o.heap)) { BUMP(g_ctor); }
	Tracked& operator=(const Tracked& o) { *heap = *o.heap; return *this; }
	~Tracked() {
		if (magic != 0x600d) BUMP(g_bad);
		magic = 0xdead; delete heap; BUMP(g_dtor);
#ifndef C12_RACE_PASS
		if (this == g_orig) g_freeby = vsched::self();
#endif
	}
	bool operator==(const Tracked& o) const { return *heap == *o.heap; }
	bool operator!=(const Tracked& o) const { return !(*this == o); }
	bool operator<(const Tracked&) const { return false; }
};
static inline int ptag(const Tracked& t) { return t.magic == 0x600d ? *t.heap : -2; }

// ---------------------------------------------------------------- handle kinds
// tags: the shared object made by main has head tag 10 (recursive kinds: a second node 11 behind it); an object a worker
// makes gets an even tag >= 100. tag(h): -1 = null / empty handle, -2 = damaged or unexpected shape.
typedef Array<Tracked> KArr;
typedef Map<int, Tracked> KMap;
typedef HashMap<int, Tracked> KHash;
typedef Shared<Tracked> KSh;
ASL_SMART_CLASS(Obj, SmartObject) { public: Tracked t; ASL_SMART_INNER_DEF(Obj); };
class Obj : public SmartObject { public: ASL_SMART_DEF(Obj, SmartObject) };
// recursive kinds: the object holds a handle of its own type, so "own = <handle stored inside the object own releases>" exists
struct Node { Tracked t; Shared<Node> next; explicit Node(int tag) : t(tag) {} };
typedef Shared<Node> KList;
class ONode; struct ONode_;
class ONode : public SmartObject { public: ASL_SMART_DECL(ONode, SmartObject) };
struct ONode_ : public SmartObject_ { Tracked t; ONode next; ONode_() : next((SmartObject_*)0) {} ASL_SMART_INNER_DECL(ONode) };
ASL_SMART_INNER_IMPL(ONode)
ONode::ONode() : SmartObject(new ONode_) {}
ONode ONode::clone() const { return ONode(_()->clone()); }
struct HNode { Tracked t; HashMap<int, HNode> kids; HNode() : kids(1) {} explicit HNode(int tag) : t(tag), kids(1) {} };
typedef HashMap<int, HNode> KHRec;
struct ANode { Tracked t; Array<ANode> kids; ANode() {} explicit ANode(int tag) : t(tag) {} };
typedef Array<ANode> KARec;

enum Op { COPY, ASSIGN_LO, ASSIGN_OL, DROP_L, DROP_O, FRESH, POP, SELF, DUP, NULLIFY, RAWSET, UPDOWN, CONVASSIGN, ASCOPY, CLONE, NOPS };
static const char OPC[] = "cloxdfpsunrvwak";
static const char* OPN[] = { "local=copy(own)", "local=own", "own=local", "drop local", "drop own", "own=fresh object", "own=<handle stored in own's object>", "own=own",
	"own.dup()", "own=null", "own=new T (raw pointer)", "local=copy(Shared<Base>(own).as<T>())", "b=own (Shared<Base>); local=b.as<T>()", "local=copy(own.as<Obj>())", "own.clone() made and dropped" };
#define M(o) (1u << (o))
static const unsigned BASEOPS = M(COPY) | M(ASSIGN_LO) | M(ASSIGN_OL) | M(DROP_L) | M(DROP_O) | M(FRESH);

template <class H> struct HXD { // kind-specific operations: defaults (never enabled for kinds that do not override them)
	static void pop(H&) {} static void dup(H&) {} static void nullify(H&) {} static void rawset(H&, int) {}
	static H* updown(const H&) { return 0; } static void convassign(H&, const H&) {} static H* ascopy(H&) { return 0; } static int clone(const H&) { return -2; }
};
template <class H> struct HK;
template <> struct HK<KArr> : HXD<KArr> { enum { ops = BASEOPS | M(SELF) | M(DUP), rec = 0 }; static const char* name() { return "Array<Tracked>"; }
	static KArr make(int tag) { KArr a; a << Tracked(tag); return a; }
	static int tag(const KArr& h) { return h.length() == 0 ? -1 : h.length() == 1 ? ptag(h[0]) : -2; }
	static const void* orig(const KArr& h) { return &h[0]; }
	static void dup(KArr& h) { h.dup(); } };
template <> struct HK<KMap> : HXD<KMap> { enum { ops = BASEOPS | M(SELF) | M(DUP), rec = 0 }; static const char* name() { return "Map<int,Tracked>"; }
	static KMap make(int tag) { KMap m; m[1] = Tracked(tag); return m; }
	static int tag(const KMap& h) { const Tracked* a = h.find(1); return h.length() == 0 ? -1 : (h.length() == 1 && a) ? ptag(*a) : -2; } // find(): the const operator[] owns a static default T
	static const void* orig(const KMap& h) { return h.find(1); }
	static void dup(KMap& h) { h.dup(); } };
template <> struct HK<KHash> : HXD<KHash> { enum { ops = BASEOPS | M(SELF) | M(DUP), rec = 0 }; static const char* name() { return "HashMap<int,Tracked>"; }
	static KHash make(int tag) { KHash m(4); m[1] = Tracked(tag); m[5] = Tracked(tag); return m; } // keys 1 and 5 chain in one bin
	static int tag(const KHash& h) { if (h.length() == 0) return -1; const Tracked* a = h.find(1); const Tracked* b = h.find(5); return (h.length() == 2 && a && b && ptag(*a) == ptag(*b)) ? ptag(*a) : -2; }
	static const void* orig(const KHash& h) { return h.find(1); }
	static void dup(KHash& h) { h.dup(); } };
template <> struct HK<KSh> : HXD<KSh> { enum { ops = BASEOPS | M(SELF) | M(NULLIFY) | M(RAWSET) | M(UPDOWN) | M(CONVASSIGN), rec = 0 }; static const char* name() { return "Shared<Tracked>"; }
	static KSh make(int tag) { return KSh(new Tracked(tag)); }
	static int tag(const KSh& h) { return h.operator bool() ? ptag(*h) : -1; } // public API only: how the handle stores core and pointer is the library's business
	static const void* orig(const KSh& h) { return h.get(); }
	static void nullify(KSh& h) { h = KSh(); }
	static void rawset(KSh& h, int tag) { h = new Tracked(tag); }
	static KSh* updown(const KSh& own) { Shared<TBase> b(own); return new KSh(b.as<Tracked>()); }
	static void convassign(KSh& local, const KSh& own) { Shared<TBase> b; b = own; local = b.as<Tracked>(); } };
template <> struct HK<Obj> : HXD<Obj> { enum { ops = BASEOPS | M(SELF) | M(NULLIFY) | M(ASCOPY) | M(CLONE), rec = 0 }; static const char* name() { return "SmartObject-derived"; }
	static Obj make(int tag) { Obj o; *o._()->t.heap = tag; return o; }
	static int tag(const Obj& h) { return !h.isnull() ? ptag(h._()->t) : -1; }
	static const void* orig(const Obj& h) { return &h._()->t; }
	static void nullify(Obj& h) { h = Obj((SmartObject_*)0); }
	static Obj* ascopy(Obj& own) { return new Obj(own.as<Obj>()); }
	static int clone(const Obj& own) { Obj c = own.clone(); return c.is(own) ? -2 : tag(c); } };
template <> struct HK<KList> : HXD<KList> { enum { ops = BASEOPS | M(POP), rec = 1 }; static const char* name() { return "Shared<Node> list"; }
	static KList make(int tag) { KList a(new Node(tag)), b(new Node(tag + 1)); a->next = b; return a; }
	static int tag(const KList& h) { return h.operator bool() ? ptag(h->t) : -1; }
	static const void* orig(const KList& h) { return &h->t; }
	static void pop(KList& h) { if (h.operator bool()) h = h->next; } };
template <> struct HK<ONode> : HXD<ONode> { enum { ops = BASEOPS | M(POP), rec = 1 }; static const char* name() { return "SmartObject-derived list"; }
	static ONode make(int tag) { ONode a, b; *a._()->t.heap = tag; *b._()->t.heap = tag + 1; a._()->next = b; return a; }
	static int tag(const ONode& h) { return !h.isnull() ? ptag(h._()->t) : -1; }
	static const void* orig(const ONode& h) { return &h._()->t; }
	static void pop(ONode& h) { if (!h.isnull()) h = h._()->next; } };
template <> struct HK<KHRec> : HXD<KHRec> { enum { ops = BASEOPS | M(POP), rec = 1 }; static const char* name() { return "HashMap<int,Node{HashMap}>"; }
	static KHRec make(int tag) { KHRec m(2); HNode n1(tag), n2(tag + 1); n1.kids[1] = n2; m[1] = n1; return m; }
	static int tag(const KHRec& h) { if (h.length() == 0) return -1; const HNode* a = h.find(1); return h.length() == 1 && a ? ptag(a->t) : -2; }
	static const void* orig(const KHRec& h) { return &h.find(1)->t; }
	static void pop(KHRec& h) { if (h.length()) h = h[1].kids; } };
template <> struct HK<KARec> : HXD<KARec> { enum { ops = BASEOPS | M(POP), rec = 1 }; static const char* name() { return "Array<Node{Array}>"; }
	static KARec make(int tag) { KARec a; ANode n1(tag), n2(tag + 1); n1.kids << n2; a << n1; return a; }
	static int tag(const KARec& h) { return h.length() == 0 ? -1 : h.length() == 1 ? ptag(h[0].t) : -2; }
	static const void* orig(const KARec& h) { return &h[0].t; }
	static void pop(KARec& h) { if (h.length()) h = h[0].kids; } };
enum { NKINDS = 9 };
static const unsigned KOPS[NKINDS] = { HK<KArr>::ops, HK<KMap>::ops, HK<KHash>::ops, HK<KSh>::ops, HK<Obj>::ops, HK<KList>::ops, HK<ONode>::ops, HK<KHRec>::ops, HK<KARec>::ops };
static const bool KREC[NKINDS] = { false, false, false, false, false, true, true, true, true };
static const char* KNAME[NKINDS] = { "Array", "Map", "HashMap", "Shared", "SmartObject", "SharedList", "SmartObjectList", "HashMapRec", "ArrayRec" };

// ---------------------------------------------------------------- sequential model of one worker's handles
typedef std::vector<int> Prog;
struct MS { bool own, local; int ot, lt; };
static bool opEnabled(int op, const MS& s, unsigned mask) {
	if (!(mask & M(op))) return false;
	switch (op) {
	case COPY: case ASCOPY: return s.own && !s.local;
	case UPDOWN: return s.own && !s.local && s.ot != -1; // Shared<T2>(null) and null.as<>() dereference the null core by design
	case ASSIGN_LO: case ASSIGN_OL: return s.own && s.local;
	case CONVASSIGN: return s.own && s.local && s.ot != -1;
	case DROP_L: return s.local;
	case POP: case CLONE: return s.own && s.ot != -1;
	default: return s.own;
	}
}
static MS opApply(MS s, int op, bool rec, int freshTag) {
	switch (op) {
	case COPY: case ASCOPY: case UPDOWN: s.local = true; s.lt = s.ot; break;
	case ASSIGN_LO: case CONVASSIGN: s.lt = s.ot; break;
	case ASSIGN_OL: s.ot = s.lt; break;
	case DROP_L: s.local = false; break;
	case DROP_O: s.own = false; break;
	case FRESH: case RAWSET: s.ot = freshTag; break;
	case POP: s.ot = (rec && s.ot % 2 == 0) ? s.ot + 1 : -1; break;
	case NULLIFY: s.ot = -1; break;
	default: break; // SELF, DUP, CLONE: own designates an object with the same tag
	}
	return s;
}
static bool opRedundant(const Prog& cur, int op) {
	if (cur.empty()) return false;
	int last = cur.back();
	if ((last == FRESH || last == RAWSET) && (op == FRESH || op == RAWSET || op == NULLIFY)) return true; // replaces an object nobody else has seen
	if (last == NULLIFY && op == NULLIFY) return true;
	if ((op == SELF || op == DUP || op == CLONE) && last == op) return true;
	return false;
}
static MS ms0() { MS s; s.own = true; s.local = false; s.ot = 10; s.lt = -3; return s; }
static void genProgs(unsigned mask, bool rec, int maxLen, MS s, Prog cur, std::vector<Prog>& out) {
	out.push_back(cur);
	if ((int)cur.size() == maxLen) return;
	for (int op = 0; op < NOPS; op++) {
		if (!opEnabled(op, s, mask) || opRedundant(cur, op)) continue;
		Prog n = cur; n.push_back(op);
		genProgs(mask, rec, maxLen, opApply(s, op, rec, 100 + 2 * (int)cur.size()), n, out);
	}
}
static bool hasOp(const Prog& p, int op) { for (size_t i = 0; i < p.size(); i++) if (p[i] == op) return true; return false; }
static std::string progStr(const Prog& p) { std::string s; for (size_t i = 0; i < p.size(); i++) s += (i ? "; " : "") + std::string(OPN[p[i]]); return s.empty() ? "(nothing)" : s; }
static std::string progCode(const Prog& p, bool digits) { std::string s; for (size_t i = 0; i < p.size(); i++) s += digits ? (char)('0' + p[i]) : OPC[p[i]]; return s.empty() ? "-" : s; }

struct Step { int op, eo, el, fresh; }; // expected tags of own / local after the op (-3: no such handle)
typedef std::vector<Step> Plan;
static Plan makePlan(const Prog& p, bool rec, int widx) {
	Plan pl; MS s = ms0();
	for (size_t i = 0; i < p.size(); i++) { Step st; st.op = p[i]; st.fresh = 100 + 20 * widx + 2 * (int)i; s = opApply(s, p[i], rec, st.fresh); st.eo = s.own ? s.ot : -3; st.el = s.local ? s.lt : -3; pl.push_back(st); }
	return pl;
}

static int g_go; // race pass start line: relaxed, so it adds no happens-before edge
template <class H>
struct Worker : public Thread {
	H* own; H* local; const Plan* plan; int wrong;
	Worker() : own(0), local(0), plan(0), wrong(0) {}
	void check(const Step& st) {
		if ((own != 0) != (st.eo != -3) || (local != 0) != (st.el != -3)) { wrong++; return; }
		if (own && HK<H>::tag(*own) != st.eo) wrong++;
		if (local && HK<H>::tag(*local) != st.el) wrong++;
	}
	void run() {
#ifdef C12_RACE_PASS
		for (int spin = 0; spin < 200000 && !__atomic_load_n(&g_go, __ATOMIC_RELAXED); spin++) {}
#endif
		for (size_t i = 0; i < plan->size(); i++) {
			const Step& st = (*plan)[i];
			switch (st.op) {
			case COPY: local = new H(*own); break;
			case ASSIGN_LO: *local = *own; break;
			case ASSIGN_OL: *own = *local; break;
			case DROP_L: delete local; local = 0; break;
			case DROP_O: delete own; own = 0; break;
			case FRESH: *own = HK<H>::make(st.fresh); break;
			case POP: HK<H>::pop(*own); break;
			case SELF: { H& alias = *own; *own = alias; } break;
			case DUP: HK<H>::dup(*own); break;
			case NULLIFY: HK<H>::nullify(*own); break;
			case RAWSET: HK<H>::rawset(*own, st.fresh); break;
			case UPDOWN: local = HK<H>::updown(*own); break;
			case CONVASSIGN: HK<H>::convassign(*local, *own); break;
			case ASCOPY: local = HK<H>::ascopy(*own); break;
			case CLONE: if (HK<H>::clone(*own) != st.eo) wrong++; break;
			}
			check(st);
		}
		delete local; local = 0; delete own; own = 0;
	}
};

// ---------------------------------------------------------------- counters
// payload of Atomic<T>: every read-modify-write yields between its read and its write, so an operator of Atomic<T> that does not
// hold the lock loses an update in some schedule
struct Counter { int v; Counter(int x = 0) : v(x) {}
	Counter& rmw(int d, int mul) { int t = v; c12_yield(); v = t * mul + d; return *this; }
	Counter& operator+=(int d) { return rmw(d, 1); } Counter& operator-=(int d) { return rmw(-d, 1); } Counter& operator*=(int d) { return rmw(0, d); }
	Counter& operator/=(int d) { int t = v; c12_yield(); v = t / d; return *this; }
	Counter& operator<<(int d) { return rmw(d, 1); }                                   // "append d"
	Counter& operator>>(int& out) { int t = v; c12_yield(); out = t; v = t - 1; return *this; } // "take one"
	Counter& operator++() { return rmw(1, 1); } Counter& operator--() { return rmw(-1, 1); }
	Counter operator++(int) { Counter c = *this; rmw(1, 1); return c; } Counter operator--(int) { Counter c = *this; rmw(-1, 1); return c; }
	operator int() const { return v; } };
enum { NATOPS = 10 };
static const int ATDELTA[NATOPS] = { 1, -1, 3, -2, 0, 1, -1, 0, 4, -1 };
static const char* ATNAME[NATOPS] = { "++a", "--a", "a+=3", "a-=2", "a*=1", "a++", "a--", "a/=1", "a<<4", "a>>x" };
struct CountWorker : public Thread {
	AtomicCount* ac; Atomic<Counter>* at; const Prog* prog; int reps;
	CountWorker() : ac(0), at(0), prog(0), reps(1) {}
	void run() {
#ifdef C12_RACE_PASS
		for (int spin = 0; spin < 200000 && !__atomic_load_n(&g_go, __ATOMIC_RELAXED); spin++) {}
#endif
		for (int r = 0; r < reps; r++) for (size_t i = 0; i < prog->size(); i++) {
			int op = (*prog)[i];
			if (ac) { if (op == 0) ++*ac; else --*ac; }
			else { int x = 0; switch (op) { case 0: ++*at; break; case 1: --*at; break; case 2: *at += 3; break; case 3: *at -= 2; break; case 4: *at *= 1; break;
				case 5: (*at)++; break; case 6: (*at)--; break; case 7: *at /= 1; break; case 8: *at << 4; break; default: *at >> x; break; } }
		}
	}
};
static int counterExpected(bool atomicT, const std::vector<Prog>& progs, int reps = 1) {
	int e = 10;
	for (size_t i = 0; i < progs.size(); i++) for (size_t j = 0; j < progs[i].size(); j++) e += reps * (atomicT ? ATDELTA[progs[i][j]] : (progs[i][j] == 0 ? 1 : -1));
	return e;
}
static std::string counterStr(bool atomicT, const Prog& p) { std::string s; for (size_t i = 0; i < p.size(); i++) s += (i ? "; " : "") + std::string(atomicT ? ATNAME[p[i]] : p[i] == 0 ? "++c" : "--c"); return s; }
static void genCounterProgs(int nops, int maxLen, std::vector<Prog>& out) {
	out.clear();
	for (int len = 1; len <= maxLen; len++) { int n = 1; for (int i = 0; i < len; i++) n *= nops; for (int x = 0; x < n; x++) { Prog p; int y = x; for (int i = 0; i < len; i++) { p.push_back(y % nops); y /= nops; } out.push_back(p); } }
}

// ---------------------------------------------------------------- job table (shared by both passes)
struct Job { int family; int kind; std::vector<Prog> progs; int bound; }; // family 0 = handles, 1 = AtomicCount, 2 = Atomic<Counter>, 3 = contention run (race pass), 4 = TSan positive control
static std::string jobName(const Job& j) {
	std::string s = fmt("f%d.k%d.b%d.", j.family, j.kind, j.bound);
	for (size_t i = 0; i < j.progs.size(); i++) s += (i ? "_" : "") + progCode(j.progs[i], j.family != 0);
	return s;
}
static bool parseJob(const std::string& name, Job& j) {
	int f, k, b, off = 0;
	if (sscanf(name.c_str(), "f%d.k%d.b%d.%n", &f, &k, &b, &off) < 3 || !off) return false;
	j.family = f; j.kind = k; j.bound = b; j.progs.clear();
	if (f < 0 || f > 4 || k < 0 || (f == 0 && k >= NKINDS)) return false;
	Prog cur; bool any = false;
	for (size_t i = off; i <= name.size(); i++) {
		char c = i < name.size() ? name[i] : '_';
		if (c == '_') { if (any) j.progs.push_back(cur); cur.clear(); any = false; continue; }
		any = true;
		if (c == '-') continue;
		if (f == 0) { const char* p = strchr(OPC, c); if (!p || !c) return false; cur.push_back((int)(p - OPC)); }
		else { if (c < '0' || c > '9') return false; cur.push_back(c - '0'); }
	}
	return !j.progs.empty() || f >= 3;
}
static std::string jobDesc(const Job& j) {
	std::string d;
	for (size_t i = 0; i < j.progs.size(); i++) d += fmt("%sT%d: ", i ? " || " : "", (int)i + 1) + (j.family == 0 ? progStr(j.progs[i]) : counterStr(j.family == 2, j.progs[i]));
	return d;
}
static int progCost(const Prog& p) { int c = 1; for (size_t i = 0; i < p.size(); i++) c += (p[i] == DROP_L || p[i] == DROP_O) ? 1 : 3; return c; }
static bool jobCostlier(const Job& a, const Job& b) {
	long ca = 1, cb = 1;
	for (size_t i = 0; i < a.progs.size(); i++) ca *= progCost(a.progs[i]);
	for (size_t i = 0; i < b.progs.size(); i++) cb *= progCost(b.progs[i]);
	ca <<= 2 * (a.bound < 0 ? 3 : a.bound); cb <<= 2 * (b.bound < 0 ? 3 : b.bound);
	return ca > cb;
}
static int envInt(const char* n, int def) { const char* v = getenv(n); return v && *v ? atoi(v) : def; }
static const unsigned COREOPS = BASEOPS | M(SELF) | M(POP);
static int nSpecific(const Prog& p) { int n = 0; for (size_t i = 0; i < p.size(); i++) if (!(COREOPS & M(p[i]))) n++; return n; }
// preemption bound for a pair / triple of handle programs in this tier (-2: not enumerated). "Specific" operations are the ones only
// some kinds have (dup, null, raw pointer, converted handles, as<>, clone); the core alphabet is copy, assign both ways, drops,
// fresh object, self-assignment and assignment from a handle stored inside the object.
static int pairBound(bool T, int kind, const Prog& a, const Prog& b) {
	int L = (int)std::max(a.size(), b.size()), l = (int)std::min(a.size(), b.size()), sa = nSpecific(a), sb = nSpecific(b);
	bool twoCounts = kind == 2 || kind == 7; // HashMap: two reference counts per handle, twice the atomic steps
	if (!T) {
		if (L <= 2 && sa <= 1 && sb <= 1) return (L + l <= 3 || (sa + sb == 0 && !twoCounts)) ? 2 : 1;
		if (L == 3 && l <= 2 && sa + sb == 0) return 1;
		return -2;
	}
	if (L <= 2) return 2;
	if (L == 3 && l <= 2 && sa <= 1 && sb <= 1) return (twoCounts || (sa + sb > 0 && l > 1)) ? 1 : 2;
	if (L == 3 && sa + sb == 0) return (kind == 0 || kind == 3 || kind == 4) ? 2 : 1;
	if (L == 4 && l <= 2 && sa + sb == 0) return 1;
	return -2;
}
static int tripleBound(bool T, int kind, const Prog& a, const Prog& b, const Prog& c) {
	int tot = (int)(a.size() + b.size() + c.size());
	if (nSpecific(a) + nSpecific(b) + nSpecific(c)) return -2;
	if (!T) return tot <= (kind == 7 ? 3 : 4) ? 1 : -2;
	if (kind == 2 || kind == 7) return tot <= 2 ? 2 : tot <= 4 ? 1 : -2;
	return tot <= 2 ? 2 : 1;
}
struct Bounds { int acLen, acTriLen, acTriBound, atBound; };
static Bounds tierBounds(bool T) { Bounds b; b.acLen = T ? 4 : 3; b.acTriLen = T ? 2 : 1; b.acTriBound = T ? 3 : 2; b.atBound = envInt("C12_AB", T ? 2 : 1); return b; }
static std::vector<Prog> g_cp1, g_cp2;
static void buildJobs(bool T, std::vector<Job>& jobs) {
	Bounds B = tierBounds(T);
	for (int k = 0; k < NKINDS; k++) {
		std::vector<Prog> P; genProgs(KOPS[k], KREC[k], T ? 4 : 3, ms0(), Prog(), P);
		// Recursive kinds: only tuples with an "own = handle stored in own's object" somewhere (the others are the flat kind's).
		for (size_t a = 0; a < P.size(); a++) for (size_t b = a; b < P.size(); b++) {
			if (KREC[k] && !hasOp(P[a], POP) && !hasOp(P[b], POP)) continue;
			Job j; j.family = 0; j.kind = k; j.bound = pairBound(T, k, P[a], P[b]);
			if (j.bound == -2) continue;
			j.progs.push_back(P[a]); j.progs.push_back(P[b]); jobs.push_back(j);
		}
		// three workers (+ main): multisets of three core-alphabet programs of <= 2 ops
		std::vector<Prog> S; genProgs(KOPS[k] & COREOPS, KREC[k], 2, ms0(), Prog(), S);
		for (size_t a = 0; a < S.size(); a++) for (size_t b = a; b < S.size(); b++) for (size_t c = b; c < S.size(); c++) {
			if (KREC[k] && !hasOp(S[a], POP) && !hasOp(S[b], POP) && !hasOp(S[c], POP)) continue;
			Job j; j.family = 0; j.kind = k; j.bound = tripleBound(T, k, S[a], S[b], S[c]);
			if (j.bound == -2) continue;
			j.progs.push_back(S[a]); j.progs.push_back(S[b]); j.progs.push_back(S[c]); jobs.push_back(j);
		}
	}
	// AtomicCount: every pair of ++/-- programs under ALL schedules; triples bounded
	genCounterProgs(2, B.acLen, g_cp1);
	for (size_t a = 0; a < g_cp1.size(); a++) for (size_t b = a; b < g_cp1.size(); b++) { Job j; j.family = 1; j.kind = 0; j.progs.push_back(g_cp1[a]); j.progs.push_back(g_cp1[b]); j.bound = g_cp1[a].size() + g_cp1[b].size() <= (T ? 5u : 4u) ? -1 : T ? 3 : 2; jobs.push_back(j); }
	{ std::vector<Prog> s; genCounterProgs(2, B.acTriLen, s); for (size_t a = 0; a < s.size(); a++) for (size_t b = a; b < s.size(); b++) for (size_t c = b; c < s.size(); c++) { Job j; j.family = 1; j.kind = 0; j.progs.push_back(s[a]); j.progs.push_back(s[b]); j.progs.push_back(s[c]); j.bound = B.acTriBound; jobs.push_back(j); } }
	// Atomic<Counter>: every pair of programs over the ten read-modify-write operators
	genCounterProgs(NATOPS, 2, g_cp2);
	for (size_t a = 0; a < g_cp2.size(); a++) for (size_t b = a; b < g_cp2.size(); b++) { Job j; j.family = 2; j.kind = 0; j.progs.push_back(g_cp2[a]); j.progs.push_back(g_cp2[b]); j.bound = (g_cp2[a].size() == 1 && g_cp2[b].size() == 1) ? (T ? -1 : 3) : B.atBound; jobs.push_back(j); }
	{ Job j; j.family = 2; j.kind = 0; j.bound = T ? 2 : 1; for (int t = 0; t < 3; t++) j.progs.push_back(Prog(1, 0)); for (int a = 0; a < NATOPS; a++) for (int b = a; b < NATOPS; b++) for (int c = b; c < NATOPS; c++) { j.progs[0][0] = a; j.progs[1][0] = b; j.progs[2][0] = c; jobs.push_back(j); } }
	if (getenv("C12_BOUND")) for (size_t i = 0; i < jobs.size(); i++) jobs[i].bound = atoi(getenv("C12_BOUND"));
	if (getenv("C12_ONLY")) { std::vector<Job> q; for (size_t i = 0; i < jobs.size(); i++) if (jobName(jobs[i]).find(getenv("C12_ONLY")) != std::string::npos) q.push_back(jobs[i]); jobs.swap(q); }
	std::stable_sort(jobs.begin(), jobs.end(), jobCostlier); // expensive tuples first: short tail when the items are handed out
}
// each worker process (and the threads it creates) stays on one CPU: a hand-off between two threads of an execution is then a
// local context switch instead of a cross-CPU wake-up (measured 17x faster on this machine). Placement only; verdicts unaffected.
static void pinOnce() {
	static pid_t done = 0;
	if (done == getpid() || getenv("C12_NOPIN")) return;
	done = getpid();
	cpu_set_t all; CPU_ZERO(&all);
	if (sched_getaffinity(0, sizeof all, &all) != 0) return;
	int n = CPU_COUNT(&all); if (n < 1) return;
	int want = (vf::worker_id() > 0 ? vf::worker_id() - 1 : 0) % n, seen = 0;
	for (int c = 0; c < CPU_SETSIZE; c++) if (CPU_ISSET(c, &all)) { if (seen++ == want) { cpu_set_t one; CPU_ZERO(&one); CPU_SET(c, &one); sched_setaffinity(0, sizeof one, &one); return; } }
}
#ifndef C12_RACE_PASS
// ================================================================ scheduler pass
static int C_EXEC, C_POINTS, C_JOBS, W_PREEMPT, C_STATES, C_BLIND, C_RECHECK, W_ATOM[NKINDS], W_ATOM_AC, W_LOCK_AT, W_FREEBY[4], W_OP[NOPS], W_ATOP[NATOPS], W_LONG, W_TRIPLE_ASSIGN;
#ifdef ASL_VERIF_HAVE_COUNT_READ_POINT
static int W_RCREAD;
#endif
static std::string g_case;
static long g_execsInProcess; // the sanitizer runtime keeps a record per thread ever created and searches them linearly: a worker process is replaced after a few thousand executions
static void onFatal(const char* what, const std::string& schedule) {
	std::string w = what; for (size_t i = 0; i < w.size(); i++) w[i] = (char)tolower(w[i]);
	if (w == "diverged") { fprintf(stderr, "HARNESS ERROR: schedule replay diverged (%s | %s)\n", g_case.c_str(), schedule.c_str()); _exit(2); }
	vf::violation(w, std::string(what) + " under schedule " + schedule, g_case + "|" + schedule);
	vf::restart_worker();
}
// schedule points of the library's atomic steps in one execution: kind 1 is ASL_VP_ATOMIC and also the scheduler's own point at
// pthread_create, of which an execution has exactly one per worker. A count may legitimately be handled by other visible steps: a
// read of the count (kind 21, e.g. "count is 1: I am the only owner, free without counting down") or a mutex acquisition (kind 4,
// a lock-protected count; asl::Thread start/join lock nothing, so every lock point of a handle execution is the library's). The
// vacuity guard of the handle jobs therefore counts all three: what it must notice is a count that passes NO schedule point.
static int atomicPoints(const vsched::Result& x, size_t nworkers, int* locks, int* reads) {
	int n = 0; *locks = 0; *reads = 0;
	for (size_t i = 0; i < x.points.size(); i++) { int k = x.points[i].kind; if (k == 1) n++; else if (k == 4) ++*locks; else if (k == 21) ++*reads; }
	n -= (int)nworkers;
	return n < 0 ? 0 : n;
}

template <class H>
static void handleJob(const Job& job, const std::string& kase, const std::string* replay) {
	g_case = kase;
	size_t n = job.progs.size();
	std::vector<Plan> plans(n);
	for (size_t i = 0; i < n; i++) plans[i] = makePlan(job.progs[i], HK<H>::rec, (int)i);
	std::string outcome; outcome.reserve(256);
	auto body = [&]() {
		g_ctor = g_dtor = g_bad = 0; g_orig = 0; g_freeby = -1;
		vf::asan_clear();
		uint64_t heap0 = vf::heap_bytes();
		int live = 0, bad = 0, wrong = 0;
		{
			H* h0 = new H(HK<H>::make(10));
			g_orig = HK<H>::orig(*h0);
			std::vector<Worker<H>*> w(n);
			for (size_t i = 0; i < n; i++) { w[i] = new Worker<H>(); w[i]->own = new H(*h0); w[i]->plan = &plans[i]; }
			for (size_t i = 0; i < n; i++) w[i]->start();
			if (HK<H>::tag(*h0) != 10) wrong++;
			delete h0; // main drops its handle concurrently with the workers
			for (size_t i = 0; i < n; i++) w[i]->join();
			for (size_t i = 0; i < n; i++) { wrong += w[i]->wrong; delete w[i]; }
			live = g_ctor - g_dtor; bad = g_bad;
		}
		long long dh = (long long)(vf::heap_bytes() - heap0);
		char buf[200]; snprintf(buf, sizeof buf, "live=%d bad=%d wrong=%d heap=%+lld asan=%s", live, bad, wrong, dh, vf::asan_tripped() ? vf::asan_what().c_str() : "-");
		outcome = buf;
	};
	auto after = [&](const vsched::Result& x) {
		vf::add(C_EXEC); vf::add(C_POINTS, x.points.size()); if (x.preemptions) vf::add(W_PREEMPT); g_execsInProcess++;
		bool okLife = outcome.find("live=0 bad=0 wrong=0 ") == 0 && outcome.find(" asan=-") != std::string::npos;
		bool ok = okLife && outcome.find("heap=+0 ") != std::string::npos;
		if (okLife && !ok) { // a lazily built static first reached under this schedule allocates once: only a delta that repeats is a leak
			vf::add(C_RECHECK);
			std::string first = outcome;
			vsched::run_once(x.choices, body);
			ok = outcome.find("live=0 bad=0 wrong=0 heap=+0 asan=-") == 0;
			if (!ok) outcome = first + " (repeated: " + outcome + ")";
		}
		if (!ok) { vf::violation("handle_lifetime", fmt("%s, programs [%s]: %s under schedule %s", HK<H>::name(), jobDesc(job).c_str(), outcome.c_str(), x.trace().c_str()), kase + "|" + x.trace()); return; }
		int locks, reads, at = atomicPoints(x, n, &locks, &reads);
		vf::add(W_ATOM[job.kind], at + reads + locks);
		if (at + reads + locks < 2 * (int)n + 1) vf::add(C_BLIND); // n copies made by main + n + 1 handles dropped, each at least one visible step on the count (atomic update, count read or lock): fewer = the library's ref counts no longer pass the hooked operations
#ifdef ASL_VERIF_HAVE_COUNT_READ_POINT
		vf::add(W_RCREAD, reads);
#endif
		if (g_freeby >= 0 && g_freeby < 4) vf::add(W_FREEBY[g_freeby]);
		for (size_t i = 0; i < n; i++) for (size_t k = 0; k < job.progs[i].size(); k++) vf::add(W_OP[job.progs[i][k]]);
	};
	if (replay) { vsched::run_once(std::vector<uint8_t>(), body); vsched::Result x = vsched::run_once(vsched::parse_schedule(*replay), body); after(x); return; }
	{ vsched::run_once(std::vector<uint8_t>(), body); } // warm-up execution (lazily built statics): not judged
	vsched::ExploreStats st = vsched::explore(body, after, job.bound);
	if (getenv("VF_DEBUG")) fprintf(stderr, "job %s: exec %llu points %llu maxpts %llu\n", kase.c_str(), (unsigned long long)st.executions, (unsigned long long)st.points, (unsigned long long)st.max_points);
	vf::add(C_JOBS);
	if (n == 2 && job.bound == 1) vf::add(W_LONG);
	if (n == 3) for (size_t i = 0; i < n; i++) if (hasOp(job.progs[i], ASSIGN_OL) || hasOp(job.progs[i], ASSIGN_LO)) { vf::add(W_TRIPLE_ASSIGN); break; }
	vf::note(fmt("traces:handles:%s:%d-threads:bound%d", KNAME[job.kind], (int)n, job.bound), st.executions);
	vf::add(C_STATES, st.distinct_states); if (st.states_saturated) vf::note("state_table_saturated");
	if (!st.complete) vf::cap_hit("execution cap in " + kase);
}

static void counterJob(const Job& job, const std::string& kase, const std::string* replay) {
	g_case = kase;
	bool atomicT = job.family == 2;
	int result = 0;
	auto body = [&]() {
		AtomicCount ac(10); Atomic<Counter> at; at = Counter(10);
		std::vector<CountWorker*> w(job.progs.size());
		for (size_t i = 0; i < w.size(); i++) { w[i] = new CountWorker(); w[i]->ac = atomicT ? 0 : &ac; w[i]->at = atomicT ? &at : 0; w[i]->prog = &job.progs[i]; }
		for (size_t i = 0; i < w.size(); i++) w[i]->start();
		for (size_t i = 0; i < w.size(); i++) { w[i]->join(); delete w[i]; }
		result = atomicT ? (~at).v : (int)ac;
	};
	int expected = counterExpected(atomicT, job.progs);
	int minAtomic = 0; for (size_t i = 0; i < job.progs.size(); i++) minAtomic += (int)job.progs[i].size();
	auto after = [&](const vsched::Result& x) {
		vf::add(C_EXEC); vf::add(C_POINTS, x.points.size()); if (x.preemptions) vf::add(W_PREEMPT); g_execsInProcess++;
		if (result != expected) { vf::violation("lost_update", fmt("%s programs [%s]: final value %d, expected %d, under schedule %s", atomicT ? "Atomic<Counter>" : "AtomicCount", jobDesc(job).c_str(), result, expected, x.trace().c_str()), kase + "|" + x.trace()); return; }
		int locks, reads, at = atomicPoints(x, job.progs.size(), &locks, &reads);
		if (atomicT) { vf::add(W_LOCK_AT, locks); for (size_t i = 0; i < job.progs.size(); i++) for (size_t k = 0; k < job.progs[i].size(); k++) vf::add(W_ATOP[job.progs[i][k]]); }
		else {
			vf::add(W_ATOM_AC, at); if (at < minAtomic) vf::add(C_BLIND); // atomic updates only, as before: the one lock point of these executions is the harness's own `at = Counter(10)`
#ifdef ASL_VERIF_HAVE_COUNT_READ_POINT
			vf::add(W_RCREAD, reads); // the final read of the counter: shows that reads are schedule points even when no handle operation of the library reads a count
#endif
		}
	};
	if (replay) { vsched::Result x = vsched::run_once(vsched::parse_schedule(*replay), body); after(x); return; }
	vsched::ExploreStats st = vsched::explore(body, after, job.bound);
	vf::add(C_JOBS);
	vf::note(fmt("traces:%s:%d-threads:bound%d", atomicT ? "Atomic<Counter>" : "AtomicCount", (int)job.progs.size(), job.bound), st.executions);
	vf::add(C_STATES, st.distinct_states); if (st.states_saturated) vf::note("state_table_saturated");
	if (!st.complete) vf::cap_hit("execution cap in " + kase);
}

static void runJob(const Job& j, const std::string* replay) {
	pinOnce();
	std::string kase = jobName(j);
	vf::cur(kase + " " + jobDesc(j));
	vf::cur_sig("crash_or_hang");
	alarm(envInt("C12_JOB_ALARM", 900)); // a library broken badly enough to loop without reaching a schedule point must not hang the check: the worker dies, the tuple is reported
	if (j.family == 0) {
		switch (j.kind) {
		case 0: handleJob<KArr>(j, kase, replay); break;
		case 1: handleJob<KMap>(j, kase, replay); break;
		case 2: handleJob<KHash>(j, kase, replay); break;
		case 3: handleJob<KSh>(j, kase, replay); break;
		case 4: handleJob<Obj>(j, kase, replay); break;
		case 5: handleJob<KList>(j, kase, replay); break;
		case 6: handleJob<ONode>(j, kase, replay); break;
		case 7: handleJob<KHRec>(j, kase, replay); break;
		default: handleJob<KARec>(j, kase, replay); break;
		}
	} else counterJob(j, kase, replay);
	alarm(0);
	if (!replay && g_execsInProcess > envInt("C12_RESTART", 4000)) vf::restart_worker();
}

int main(int argc, char** argv) {
	vf::init(argc, argv, "C12", "s_c12_handles");
	C_EXEC = vf::counter("traces"); C_POINTS = vf::counter("transitions"); C_JOBS = vf::counter("program_tuples"); W_PREEMPT = vf::counter("w.executions_with_preemption"); C_STATES = vf::counter("states");
	C_BLIND = vf::counter("executions_with_too_few_atomic_points"); C_RECHECK = vf::counter("heap_delta_rechecks");
	for (int k = 0; k < NKINDS; k++) W_ATOM[k] = vf::counter(fmt("w.atomic_points.%s", KNAME[k]).c_str());
	W_ATOM_AC = vf::counter("w.atomic_points.AtomicCount"); W_LOCK_AT = vf::counter("w.lock_points.Atomic<Counter>");
	{ const char* who[4] = { "main", "T1", "T2", "T3" }; for (int i = 0; i < 4; i++) W_FREEBY[i] = vf::counter(fmt("w.final_free_by.%s", who[i]).c_str()); }
	for (int o = 0; o < NOPS; o++) W_OP[o] = vf::counter(fmt("w.op.%c.%s", OPC[o], OPN[o]).c_str());
	for (int o = 0; o < NATOPS; o++) W_ATOP[o] = vf::counter(fmt("w.atomic_op.%s", ATNAME[o]).c_str());
	W_LONG = vf::counter("w.pairs_with_longest_programs_bound1"); W_TRIPLE_ASSIGN = vf::counter("w.triples_with_assignment");
#ifdef ASL_VERIF_HAVE_COUNT_READ_POINT
	W_RCREAD = vf::counter("w.refcount_read_points");
#endif
	vsched::set_fatal_handler(onFatal);
	bool T = vf::opt.thorough();
	if (vf::opt.replay) {
		std::string k = vf::opt.kase, sched;
		size_t bar = k.find('|'); if (bar != std::string::npos) { sched = k.substr(bar + 1); k = k.substr(0, bar); }
		size_t sp = k.find(' '); if (sp != std::string::npos) k = k.substr(0, sp);
		Job j;
		if (!parseJob(k, j) || j.family > 2) { fprintf(stderr, "HARNESS ERROR: cannot parse case '%s'\n", k.c_str()); return 2; }
		// a case without a schedule comes from a worker that died (the parent knows the tuple, not the schedule): re-explore the tuple
		vf::parallel(1, [&](uint64_t) { runJob(j, sched.empty() ? 0 : &sched); });
		return vf::finish();
	}
	std::vector<Job> jobs;
	buildJobs(T, jobs);
	if (getenv("C12_LIST")) { std::map<std::string, int> cnt; for (size_t i = 0; i < jobs.size(); i++) cnt[fmt("f%d.k%d.n%d.b%d", jobs[i].family, jobs[i].kind, (int)jobs[i].progs.size(), jobs[i].bound)]++; for (std::map<std::string, int>::iterator it = cnt.begin(); it != cnt.end(); ++it) printf("%s %d\n", it->first.c_str(), it->second); return 0; }
	vf::parallel(jobs.size(), [&](uint64_t i) { if (vf::deadline_passed()) { vf::cap_hit("deadline"); return; } runJob(jobs[i], 0); });
	vf::setinfo("program_tables", fmt("{\"jobs\": %d, \"atomiccount_programs\": %d, \"atomic_counter_programs\": %d}", (int)jobs.size(), (int)g_cp1.size(), (int)g_cp2.size()));
	vf::sample("Array<Tracked>: T1: local=copy(own); own=local || T2: drop own  (main drops its handle concurrently) - all schedules with <= 2 preemptions");
	vf::sample("HashMap<int,Node{HashMap}>: T1: own=<handle stored in own's object> || T2: own=own; drop own");
	vf::sample("Atomic<Counter>: T1: a++; a/=1 || T2: a<<4; a>>x with Counter yielding between its read and write");
	int rc = vf::finish();
	if (rc == 0 && vf::get(C_BLIND)) { fprintf(stderr, "HARNESS ERROR: %llu execution(s) showed fewer schedule points on reference counts (atomic updates + count reads + lock acquisitions) than handles were copied and dropped: the library's reference counts no longer go through the hooked atomicInc/atomicDec/atomicGet or a mutex, the exploration is blind\n", (unsigned long long)vf::get(C_BLIND)); return 2; }
	return rc;
}
#endif
#ifdef C12_RACE_PASS
// ================================================================ ThreadSanitizer pass (free-running; not an exploration)
extern "C" {
int __tsan_get_report_data(void* report, const char** description, int* count, int* stack_count, int* mop_count, int* loc_count, int* mutex_count, int* thread_count, int* unique_tid_count, void** sleep_trace, unsigned long trace_size);
}
static int g_reports;
static char g_what[160];
extern "C" void __tsan_on_report(void* report) {
	const char* d = 0; int count, sc, mc, lc, mtc, tc, ut; void* sl[1];
	__tsan_get_report_data(report, &d, &count, &sc, &mc, &lc, &mtc, &tc, &ut, sl, 1);
	if (!__atomic_load_n(&g_reports, __ATOMIC_RELAXED) && d) { snprintf(g_what, sizeof g_what, "%s", d); }
	__atomic_fetch_add(&g_reports, 1, __ATOMIC_RELAXED);
}
extern "C" const char* __tsan_default_options() { return "halt_on_error=0:exitcode=0:report_signal_unsafe=0:history_size=4:die_after_fork=0:print_summary=0"; }
static int g_violationsInProcess; // after a violation the process state cannot be trusted (nothing quarantines a freed block here): the worker is replaced
static void raceViolation(const std::string& sig, const std::string& desc, const std::string& kase) { g_violationsInProcess++; vf::violation(sig, desc, kase); }
static int C_RUNS, C_TUPLES, C_REPORTS, W_CONTROL, C_CONTROL_FAIL, W_STRESS_OPS, W_STRESS_RUNS, W_RACE_KIND[NKINDS], W_RACE_TRIPLES;

// in-run positive control: a deliberately racy pair in the harness's own code. If the detector does not report it, a clean
// result of this pass means nothing (detector not linked / report callback not invoked / reports suppressed).
static int g_racy;
struct RacyWorker : public Thread { void run() { for (int i = 0; i < 1000; i++) g_racy = g_racy + 1; } };
static void controlOnce() {
	static pid_t done = 0;
	if (done == getpid()) return;
	done = getpid();
	__atomic_store_n(&g_reports, 0, __ATOMIC_RELAXED);
	{ RacyWorker a, b; a.start(); b.start(); a.join(); b.join(); }
	int r = __atomic_load_n(&g_reports, __ATOMIC_RELAXED);
	if (r > 0) vf::add(W_CONTROL, r); else vf::add(C_CONTROL_FAIL);
	__atomic_store_n(&g_reports, 0, __ATOMIC_RELAXED); g_what[0] = 0;
}
static bool raceVerdict(const std::string& what, const std::string& desc, const std::string& kase) {
	int r = __atomic_load_n(&g_reports, __ATOMIC_RELAXED);
	if (!r) return false;
	vf::add(C_REPORTS, r);
	raceViolation("data_race", fmt("%s, [%s] free-running under ThreadSanitizer: %d report(s), first: %s", what.c_str(), desc.c_str(), r, g_what), kase);
	return true;
}

template <class H>
static void raceHandleJob(const Job& job, const std::string& kase, int reps) {
	size_t n = job.progs.size();
	std::vector<Plan> plans(n);
	for (size_t i = 0; i < n; i++) plans[i] = makePlan(job.progs[i], HK<H>::rec, (int)i);
	for (int r = 0; r < reps; r++) {
		g_ctor = g_dtor = g_bad = 0; __atomic_store_n(&g_reports, 0, __ATOMIC_RELAXED); g_what[0] = 0;
		__atomic_store_n(&g_go, 0, __ATOMIC_RELAXED);
		int wrong = 0;
		{
			H* h0 = new H(HK<H>::make(10));
			std::vector<Worker<H>*> w(n);
			for (size_t i = 0; i < n; i++) { w[i] = new Worker<H>(); w[i]->own = new H(*h0); w[i]->plan = &plans[i]; }
			for (size_t i = 0; i < n; i++) w[i]->start();
			__atomic_store_n(&g_go, 1, __ATOMIC_RELAXED);
			if (HK<H>::tag(*h0) != 10) wrong++;
			delete h0;
			for (size_t i = 0; i < n; i++) w[i]->join();
			for (size_t i = 0; i < n; i++) { wrong += w[i]->wrong; delete w[i]; }
		}
		vf::add(C_RUNS);
		int live = g_ctor - g_dtor;
		if (raceVerdict(HK<H>::name(), jobDesc(job), kase)) return;
		if (live != 0 || g_bad || wrong) { raceViolation("handle_lifetime", fmt("%s, programs [%s] free-running: live=%d bad=%d wrong=%d", HK<H>::name(), jobDesc(job).c_str(), live, (int)g_bad, wrong), kase); return; }
	}
	vf::add(W_RACE_KIND[job.kind]); if (n == 3) vf::add(W_RACE_TRIPLES);
}
static void raceCounterJob(const Job& job, const std::string& kase, int reps, int nthreads, int loops) {
	bool atomicT = job.family == 2 || (job.family == 3 && job.kind == NKINDS + 1);
	std::vector<Prog> progs = job.progs;
	if (nthreads) { progs.clear(); Prog p; if (atomicT) for (int o = 0; o < NATOPS; o++) p.push_back(o); else { p.push_back(0); p.push_back(0); p.push_back(1); } for (int t = 0; t < nthreads; t++) { progs.push_back(p); std::rotate(p.begin(), p.begin() + 1, p.end()); } }
	int expected = counterExpected(atomicT, progs, loops);
	for (int r = 0; r < reps; r++) {
		__atomic_store_n(&g_reports, 0, __ATOMIC_RELAXED); g_what[0] = 0; __atomic_store_n(&g_go, 0, __ATOMIC_RELAXED);
		int result;
		{
			AtomicCount ac(10); Atomic<Counter> at; at = Counter(10);
			std::vector<CountWorker*> w(progs.size());
			for (size_t i = 0; i < w.size(); i++) { w[i] = new CountWorker(); w[i]->ac = atomicT ? 0 : &ac; w[i]->at = atomicT ? &at : 0; w[i]->prog = &progs[i]; w[i]->reps = loops; }
			for (size_t i = 0; i < w.size(); i++) w[i]->start();
			__atomic_store_n(&g_go, 1, __ATOMIC_RELAXED);
			for (size_t i = 0; i < w.size(); i++) { w[i]->join(); delete w[i]; }
			result = atomicT ? (~at).v : (int)ac;
		}
		vf::add(C_RUNS);
		if (nthreads) { vf::add(W_STRESS_RUNS); vf::add(W_STRESS_OPS, (uint64_t)progs.size() * progs[0].size() * loops); }
		std::string what = fmt("%s, %d threads", atomicT ? "Atomic<Counter>" : "AtomicCount", (int)progs.size());
		std::string desc = nthreads ? fmt("%d repetitions of %s per thread", loops, counterStr(atomicT, progs[0]).c_str()) : jobDesc(job);
		if (raceVerdict(what, desc, kase)) return;
		if (result != expected) { raceViolation("lost_update", fmt("%s [%s] free-running: final value %d, expected %d", what.c_str(), desc.c_str(), result, expected), kase); return; }
	}
}
// contention run: 16 workers hammer the reference count of ONE shared object with copies, assignments both ways, self-assignment
// and drops for `iters` rounds each while main drops its handle
template <class H>
struct StressWorker : public Thread {
	H* own; int iters, wrong;
	void run() {
		for (int spin = 0; spin < 200000 && !__atomic_load_n(&g_go, __ATOMIC_RELAXED); spin++) {}
		for (int i = 0; i < iters; i++) {
			H* local = new H(*own);
			*local = *own; *own = *local;
			{ H& alias = *own; *own = alias; }
			if ((i & 255) == 0 && HK<H>::tag(*local) != 10) wrong++;
			delete local;
			if ((i & 63) == 63) { H* t = new H(*own); delete own; own = t; }
		}
		if (HK<H>::tag(*own) != 10) wrong++;
		delete own; own = 0;
	}
};
template <class H>
static void stressJob(const std::string& kase, int iters) {
	enum { NT = 16 };
	g_ctor = g_dtor = g_bad = 0; __atomic_store_n(&g_reports, 0, __ATOMIC_RELAXED); g_what[0] = 0; __atomic_store_n(&g_go, 0, __ATOMIC_RELAXED);
	int wrong = 0;
	{
		H* h0 = new H(HK<H>::make(10));
		std::vector<StressWorker<H>*> w(NT);
		for (int i = 0; i < NT; i++) { w[i] = new StressWorker<H>(); w[i]->own = new H(*h0); w[i]->iters = iters; w[i]->wrong = 0; }
		for (int i = 0; i < NT; i++) w[i]->start();
		__atomic_store_n(&g_go, 1, __ATOMIC_RELAXED);
		delete h0;
		for (int i = 0; i < NT; i++) w[i]->join();
		for (int i = 0; i < NT; i++) { wrong += w[i]->wrong; delete w[i]; }
	}
	vf::add(C_RUNS); vf::add(W_STRESS_RUNS); vf::add(W_STRESS_OPS, (uint64_t)NT * iters * 5);
	int live = g_ctor - g_dtor;
	std::string desc = fmt("16 threads x %d rounds of copy, local=own, own=local, own=own, drop on one object", iters);
	if (raceVerdict(HK<H>::name(), desc, kase)) return;
	if (live != 0 || g_bad || wrong) raceViolation("handle_lifetime", fmt("%s, %s, free-running: live=%d bad=%d wrong=%d", HK<H>::name(), desc.c_str(), live, (int)g_bad, wrong), kase);
}
static void runJob(const Job& j, int reps, bool T) {
	controlOnce();
	std::string kase = jobName(j);
	vf::cur(kase + " " + jobDesc(j));
	vf::add(C_TUPLES);
	vf::cur_sig("crash_or_hang");
	if (j.family == 4) return; // the control itself (runs once in every worker process)
	int iters = envInt("C12_STRESS", T ? 20000 : 2000);
	int k = j.kind;
	alarm(envInt("C12_JOB_ALARM", j.family == 3 ? 900 : 120)); // free-running threads of a broken library may spin on a corrupted structure: the worker dies, the tuple is reported
#define C12_DISPATCH(F, ...) switch (k) { case 0: F<KArr>(__VA_ARGS__); break; case 1: F<KMap>(__VA_ARGS__); break; case 2: F<KHash>(__VA_ARGS__); break; case 3: F<KSh>(__VA_ARGS__); break; case 4: F<Obj>(__VA_ARGS__); break; \
	case 5: F<KList>(__VA_ARGS__); break; case 6: F<ONode>(__VA_ARGS__); break; case 7: F<KHRec>(__VA_ARGS__); break; default: F<KARec>(__VA_ARGS__); break; }
	if (j.family == 0) { C12_DISPATCH(raceHandleJob, j, kase, reps) }
	else if (j.family == 3 && k < NKINDS) { C12_DISPATCH(stressJob, kase, iters) }
	else if (j.family == 3) raceCounterJob(j, kase, 1, 16, k == NKINDS ? iters * 4 : iters / 4);
	else raceCounterJob(j, kase, reps, 0, 1);
	alarm(0);
	if (g_violationsInProcess) vf::restart_worker();
}

int main(int argc, char** argv) {
	vf::init(argc, argv, "C12", "t_c12_race");
	C_RUNS = vf::counter("tsan_executions"); C_TUPLES = vf::counter("tsan_program_tuples"); C_REPORTS = vf::counter("tsan_reports");
	W_CONTROL = vf::counter("w.tsan_control_reports"); C_CONTROL_FAIL = vf::counter("tsan_control_not_reported");
	W_STRESS_RUNS = vf::counter("w.tsan_contention_runs_16_threads"); W_STRESS_OPS = vf::counter("w.tsan_contention_operations");
	for (int k = 0; k < NKINDS; k++) W_RACE_KIND[k] = vf::counter(fmt("w.tsan_clean_tuples.%s", KNAME[k]).c_str());
	W_RACE_TRIPLES = vf::counter("w.tsan_clean_triples");
	bool T = vf::opt.thorough();
	int reps = envInt("C12_REPS", 2);
	if (vf::opt.replay) {
		std::string k = vf::opt.kase; size_t sp = k.find(' '); if (sp != std::string::npos) k = k.substr(0, sp);
		Job j;
		if (!parseJob(k, j)) { fprintf(stderr, "HARNESS ERROR: cannot parse case '%s'\n", k.c_str()); return 2; }
		vf::parallel(1, [&](uint64_t) { runJob(j, 20, T); });
		return vf::finish();
	}
	std::vector<Job> jobs;
	buildJobs(T, jobs);
	for (int k = 0; k < NKINDS + 2; k++) { Job j; j.family = 3; j.kind = k; j.bound = 0; jobs.insert(jobs.begin(), j); } // the 16-thread runs first
	{ Job j; j.family = 4; j.kind = 0; j.bound = 0; jobs.insert(jobs.begin(), j); }
	vf::parallel(jobs.size(), [&](uint64_t i) { if (vf::deadline_passed()) { vf::cap_hit("deadline"); return; } runJob(jobs[i], (T || (jobs[i].progs.size() == 2 && jobs[i].bound == 2)) ? reps : 1, T); }, 8);
	vf::setinfo("role", "\"assumption check for the scheduler-based part: every program tuple of that part, and 16-thread contention runs, free-running under ThreadSanitizer; not an exploration\"");
	int rc = vf::finish();
	if (vf::get(C_CONTROL_FAIL) || !vf::get(W_CONTROL)) { fprintf(stderr, "HARNESS ERROR: ThreadSanitizer did not report the deliberately racy pair of the in-run control (%llu worker process(es) without a report): a clean result of this pass means nothing\n", (unsigned long long)vf::get(C_CONTROL_FAIL)); return 2; }
	return rc;
}
#endif
