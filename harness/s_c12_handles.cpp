// C12 — shared handles and atomic counters under every interleaving: real asl::Thread workers run straight-line handle
// programs / counter programs under the vsched scheduler; every schedule of each program tuple is enumerated.
#include <asl/Array.h>
#include <asl/Map.h>
#include <asl/HashMap.h>
#include <asl/Pointer.h>
#include <asl/Shared.h>
#include <asl/Thread.h>
#include <asl/Mutex.h>
#include <set>
#include "vf.h"
#include "vsched.h"
using namespace asl;
using vf::fmt;

// ---------------------------------------------------------------- payload with observable life cycle
static volatile int g_ctor, g_dtor, g_bad, g_early; // accessed only while holding the scheduler baton
struct Tracked {
	int magic; int* heap;
	Tracked() : magic(0x600d), heap(new int(7)) { g_ctor++; }
	Tracked(const Tracked& o) : magic(0x600d), heap(new int(*o.heap)) { g_ctor++; }
	Tracked& operator=(const Tracked& o) { *heap = *o.heap; return *this; }
	~Tracked() { if (magic != 0x600d) g_bad++; magic = 0xdead; delete heap; g_dtor++; }
	bool operator==(const Tracked& o) const { return *heap == *o.heap; }
	bool operator!=(const Tracked& o) const { return !(*this == o); }
	bool operator<(const Tracked&) const { return false; }
};
ASL_SMART_CLASS(Obj, SmartObject) { public: Tracked t; ASL_SMART_INNER_DEF(Obj); };
class Obj : public SmartObject { public: ASL_SMART_DEF(Obj, SmartObject) };

// handle kinds
template <class H> struct HK;
template <> struct HK<Array<Tracked> > { static Array<Tracked> make() { Array<Tracked> a; a << Tracked(); return a; } static bool alive(const Array<Tracked>& h) { return h.length() == 1 && h[0].magic == 0x600d; } static const char* name() { return "Array<Tracked>"; } enum { payloads = 1 }; };
template <> struct HK<Map<int, Tracked> > { static Map<int, Tracked> make() { Map<int, Tracked> m; m[1] = Tracked(); return m; } static bool alive(const Map<int, Tracked>& h) { return h.length() == 1 && h[1].magic == 0x600d; } static const char* name() { return "Map<int,Tracked>"; } enum { payloads = 1 }; };
template <> struct HK<HashMap<int, int> > { static HashMap<int, int> make() { HashMap<int, int> m(4); m[1] = 5; m[5] = 6; return m; } static bool alive(const HashMap<int, int>& h) { return h.length() == 2 && h[5] == 6; } static const char* name() { return "HashMap<int,int>"; } enum { payloads = 0 }; };
template <> struct HK<Shared<Tracked> > { static Shared<Tracked> make() { return Shared<Tracked>(new Tracked()); } static bool alive(const Shared<Tracked>& h) { return h->magic == 0x600d; } static const char* name() { return "Shared<Tracked>"; } enum { payloads = 1 }; };
// a two-node list whose nodes hold the handle to their successor: "own = own->next" assigns from a handle that lives inside the object the destination releases
struct Node { Tracked t; Shared<Node> next; };
typedef Shared<Node> List;
template <> struct HK<List> { static List make() { List a(new Node()), b(new Node()); a->next = b; return a; } static bool alive(const List& h) { return !h._p || h->t.magic == 0x600d; } static const char* name() { return "Shared<Node> list"; } enum { payloads = 2 }; };
template <class H> static void popHead(H&) {}
template <> void popHead<List>(List& h) { if (h._p) h = h->next; }
template <> struct HK<Obj> { static Obj make() { return Obj(); } static bool alive(const Obj& h) { return h._()->t.magic == 0x600d; } static const char* name() { return "SmartObject-derived"; } enum { payloads = 1 }; };

enum Op { COPY, ASSIGN_LO, ASSIGN_OL, DROP_L, DROP_O, FRESH, POP };
static const char* OPN[] = { "local=copy(own)", "local=own", "own=local", "drop local", "drop own", "own=fresh object", "own=own->next" };
typedef std::vector<int> Prog;
static void genProgs(int maxLen, bool own, bool local, Prog cur, std::vector<Prog>& out, bool withPop = false) {
	out.push_back(cur);
	if ((int)cur.size() == maxLen) return;
	for (int op = 0; op < (withPop ? 7 : 6); op++) {
		bool ok = op == COPY ? (own && !local) : op == ASSIGN_LO || op == ASSIGN_OL ? (own && local) : op == DROP_L ? local : own;
		if (!ok) continue;
		if (op == FRESH && !cur.empty() && cur.back() == FRESH) continue;
		Prog n = cur; n.push_back(op);
		genProgs(maxLen, op == DROP_O ? false : own, op == COPY ? true : op == DROP_L ? false : local, n, out, withPop);
	}
}
static std::string progStr(const Prog& p) { std::string s; for (size_t i = 0; i < p.size(); i++) s += (i ? "; " : "") + std::string(OPN[p[i]]); return s.empty() ? "(nothing)" : s; }

template <class H>
struct Worker : public Thread {
	H* own; H* local; const Prog* prog; int early;
	Worker() : own(0), local(0), prog(0), early(0) {}
	void check() { if ((own && !HK<H>::alive(*own)) || (local && !HK<H>::alive(*local))) early++; }
	void run() {
		for (size_t i = 0; i < prog->size(); i++) {
			switch ((*prog)[i]) {
			case COPY: local = new H(*own); break;
			case ASSIGN_LO: *local = *own; break;
			case ASSIGN_OL: *own = *local; break;
			case DROP_L: delete local; local = 0; break;
			case DROP_O: delete own; own = 0; break;
			case FRESH: *own = HK<H>::make(); break;
			case POP: popHead(*own); break;
			}
			check();
		}
		delete local; local = 0; delete own; own = 0;
	}
};

static int C_EXEC, C_POINTS, C_JOBS, W_PREEMPT, C_STATES;
static std::string g_case;
static void onFatal(const char* what, const std::string& schedule) {
	std::string w = what; for (size_t i = 0; i < w.size(); i++) w[i] = (char)tolower(w[i]);
	if (w == "diverged") { fprintf(stderr, "HARNESS ERROR: schedule replay diverged (%s | %s)\n", g_case.c_str(), schedule.c_str()); _exit(2); }
	vf::violation(w, std::string(what) + " under schedule " + schedule, g_case + "|" + schedule);
	vf::restart_worker();
}

// one family instance: n worker programs over handle kind H
template <class H>
static void handleJob(const std::vector<const Prog*>& progs, const std::string& kase, int bound, const std::string* replay) {
	g_case = kase;
	std::set<std::string> outcomes;
	struct Ctx { std::string outcome; } ctx;
	auto body = [&]() {
		g_ctor = g_dtor = g_bad = 0;
		vf::asan_clear();
		ctx.outcome.clear(); ctx.outcome.reserve(256);
		uint64_t heap0 = vf::heap_bytes();
		int live = 0, bad = 0, early = 0, base = 0;
		{
			size_t n = progs.size();
			H* h0 = new H(HK<H>::make());
			base = g_ctor - g_dtor; // live payload instances belonging to the shared object (temporaries are gone)
			std::vector<Worker<H>*> w(n);
			for (size_t i = 0; i < n; i++) { w[i] = new Worker<H>(); w[i]->own = new H(*h0); w[i]->prog = progs[i]; }
			for (size_t i = 0; i < n; i++) w[i]->start();
			bool mainEarly = !HK<H>::alive(*h0);
			delete h0; // main drops its handle concurrently with the workers
			for (size_t i = 0; i < n; i++) w[i]->join();
			early = mainEarly ? 1 : 0;
			for (size_t i = 0; i < n; i++) { early += w[i]->early; delete w[i]; }
			live = g_ctor - g_dtor; bad = g_bad;
		}
		long long dh = (long long)(vf::heap_bytes() - heap0);
		char buf[200]; snprintf(buf, sizeof buf, "live=%d bad=%d early=%d base=%d heap=%+lld asan=%s", live, bad, early, base, dh, vf::asan_tripped() ? vf::asan_what().c_str() : "-");
		ctx.outcome = buf;
	};
	std::string expected;
	auto after = [&](const vsched::Result& x) {
		vf::add(C_EXEC); vf::add(C_POINTS, x.points.size()); if (x.preemptions) vf::add(W_PREEMPT);
		outcomes.insert(ctx.outcome);
		bool ok = ctx.outcome.find("live=0 bad=0 early=0") == 0 && ctx.outcome.find("heap=+0 asan=-") != std::string::npos;
		if (!ok) vf::violation("handle_lifetime", fmt("%s, programs [%s]: %s under schedule %s", HK<H>::name(), kase.c_str(), ctx.outcome.c_str(), x.trace().c_str()), kase + "|" + x.trace());
	};
	if (replay) { vsched::run_once(std::vector<uint8_t>(), body); vsched::Result x = vsched::run_once(vsched::parse_schedule(*replay), body); after(x); return; }
	// warm-up execution (lazily built statics) whose outcome is not judged for the heap delta
	{ vsched::run_once(std::vector<uint8_t>(), body); }
	vsched::ExploreStats st = vsched::explore(body, after, bound);
	if (getenv("VF_DEBUG")) fprintf(stderr, "job %s: exec %llu points %llu maxpts %llu\n", kase.c_str(), (unsigned long long)st.executions, (unsigned long long)st.points, (unsigned long long)st.max_points);
	vf::add(C_JOBS);
	vf::note(fmt("traces:handles:%s:%d-threads", HK<H>::name(), (int)progs.size()), st.executions);
	vf::add(C_STATES, st.distinct_states); if (st.states_saturated) vf::note("state_table_saturated");
	vf::note(fmt("outcomes:%s", HK<H>::name()), outcomes.size());
	if (!st.complete) vf::cap_hit("execution cap in " + kase);
}

// ---------------------------------------------------------------- counters
struct Counter { int v; Counter(int x = 0) : v(x) {}
	Counter& operator+=(int d) { int t = v; vsched::point(); v = t + d; return *this; }
	Counter& operator-=(int d) { int t = v; vsched::point(); v = t - d; return *this; }
	Counter& operator*=(int d) { int t = v; vsched::point(); v = t * d; return *this; }
	Counter& operator++() { return *this += 1; } Counter& operator--() { return *this -= 1; }
	Counter operator++(int) { Counter c = *this; *this += 1; return c; } Counter operator--(int) { Counter c = *this; *this -= 1; return c; }
	operator int() const { return v; } };
struct CountWorker : public Thread {
	AtomicCount* ac; Atomic<Counter>* at; const Prog* prog;
	void run() {
		for (size_t i = 0; i < prog->size(); i++) {
			int op = (*prog)[i];
			if (ac) { if (op == 0) ++*ac; else --*ac; }
			else { switch (op) { case 0: ++*at; break; case 1: --*at; break; case 2: *at += 3; break; case 3: *at -= 2; break; default: *at *= 1; } }
		}
	}
};
static void counterJob(bool atomicT, const std::vector<const Prog*>& progs, const std::string& kase, int bound, const std::string* replay) {
	g_case = kase;
	int result = 0;
	auto body = [&]() {
		AtomicCount ac(10); Atomic<Counter> at; at = Counter(10);
		std::vector<CountWorker*> w(progs.size());
		for (size_t i = 0; i < w.size(); i++) { w[i] = new CountWorker(); w[i]->ac = atomicT ? 0 : &ac; w[i]->at = atomicT ? &at : 0; w[i]->prog = progs[i]; }
		for (size_t i = 0; i < w.size(); i++) w[i]->start();
		for (size_t i = 0; i < w.size(); i++) { w[i]->join(); delete w[i]; }
		result = atomicT ? (~at).v : (int)ac;
	};
	int expected = 10;
	for (size_t i = 0; i < progs.size(); i++) for (size_t j = 0; j < progs[i]->size(); j++) { int op = (*progs[i])[j]; expected += atomicT ? (op == 0 ? 1 : op == 1 ? -1 : op == 2 ? 3 : op == 3 ? -2 : 0) : (op == 0 ? 1 : -1); }
	std::set<int> outcomes;
	auto after = [&](const vsched::Result& x) {
		vf::add(C_EXEC); vf::add(C_POINTS, x.points.size()); if (x.preemptions) vf::add(W_PREEMPT);
		outcomes.insert(result);
		if (result != expected) vf::violation("lost_update", fmt("%s programs [%s]: final value %d, expected %d, under schedule %s", atomicT ? "Atomic<Counter>" : "AtomicCount", kase.c_str(), result, expected, x.trace().c_str()), kase + "|" + x.trace());
	};
	if (replay) { vsched::Result x = vsched::run_once(vsched::parse_schedule(*replay), body); after(x); return; }
	vsched::ExploreStats st = vsched::explore(body, after, bound);
	vf::add(C_JOBS);
	vf::note(atomicT ? "traces:Atomic<Counter>" : "traces:AtomicCount", st.executions);
	vf::add(C_STATES, st.distinct_states); if (st.states_saturated) vf::note("state_table_saturated");
	if (!st.complete) vf::cap_hit("execution cap in " + kase);
}

// ---------------------------------------------------------------- job table
struct Job { int family; int kind; std::vector<int> prog; int bound; }; // family 0 = handles, 1 = AtomicCount, 2 = Atomic<Counter>
static std::vector<Prog> HP, HPL, CP1, CP2;
static std::string jobName(const Job& j) { std::string s = fmt("f%d.k%d.b%d", j.family, j.kind, j.bound); for (size_t i = 0; i < j.prog.size(); i++) s += fmt(".%d", j.prog[i]); return s; }
static void runJob(const Job& j, const std::string* replay) {
	std::vector<const Prog*> ps;
	const std::vector<Prog>& table = j.family == 0 ? (j.kind == 5 ? HPL : HP) : j.family == 1 ? CP1 : CP2;
	for (size_t i = 0; i < j.prog.size(); i++) ps.push_back(&table[j.prog[i]]);
	std::string desc;
	for (size_t i = 0; i < ps.size(); i++) desc += fmt("%sT%d: ", i ? " || " : "", (int)i + 1) + (j.family == 0 ? progStr(*ps[i]) : vf::hist_str(vf::Hist(ps[i]->begin(), ps[i]->end())));
	std::string kase = jobName(j);
	vf::cur(kase + " " + desc);
	if (j.family == 0) {
		switch (j.kind) {
		case 0: handleJob<Array<Tracked> >(ps, kase, j.bound, replay); break;
		case 1: handleJob<Map<int, Tracked> >(ps, kase, j.bound, replay); break;
		case 2: handleJob<HashMap<int, int> >(ps, kase, j.bound, replay); break;
		case 3: handleJob<Shared<Tracked> >(ps, kase, j.bound, replay); break;
		case 5: handleJob<List>(ps, kase, j.bound, replay); break;
		default: handleJob<Obj>(ps, kase, j.bound, replay); break;
		}
	} else counterJob(j.family == 2, ps, kase, j.bound, replay);
}
static void genCounterProgs(int nops, int maxLen, std::vector<Prog>& out) {
	out.clear();
	for (int len = 1; len <= maxLen; len++) { int n = 1; for (int i = 0; i < len; i++) n *= nops; for (int x = 0; x < n; x++) { Prog p; int y = x; for (int i = 0; i < len; i++) { p.push_back(y % nops); y /= nops; } out.push_back(p); } }
}

int main(int argc, char** argv) {
	vf::init(argc, argv, "C12", "s_c12_handles");
	C_EXEC = vf::counter("traces"); C_POINTS = vf::counter("transitions"); C_JOBS = vf::counter("program_tuples"); W_PREEMPT = vf::counter("w.executions_with_preemption"); C_STATES = vf::counter("states");
	vsched::set_fatal_handler(onFatal);
	bool T = vf::opt.thorough();
	genProgs(T ? 3 : 2, true, false, Prog(), HP);
	genProgs(T ? 3 : 2, true, false, Prog(), HPL, true);
	genCounterProgs(2, T ? 4 : 3, CP1);
	genCounterProgs(5, 2, CP2);
	std::vector<Job> jobs;
	// two threads (+ main): every pair of handle programs, every handle kind, all schedules with <= 2 preemptions
	for (int k = 0; k < 6; k++) { size_t np = k == 5 ? HPL.size() : HP.size(); for (size_t a = 0; a < np; a++) for (size_t b = a; b < np; b++) { Job j; j.family = 0; j.kind = k; j.prog.push_back((int)a); j.prog.push_back((int)b); j.bound = 2; jobs.push_back(j); } }
	// three threads: every triple of programs of <= 1 (quick) / 2 (thorough) ops, preemption bound 2 / 3
	{ std::vector<Prog> small; genProgs(1, true, false, Prog(), small); size_t n = small.size();
	  for (int k = 0; k < 5; k++) for (size_t a = 0; a < n; a++) for (size_t b = a; b < n; b++) for (size_t c = b; c < n; c++) { Job j; j.family = 0; j.kind = k; j.prog.push_back((int)a); j.prog.push_back((int)b); j.prog.push_back((int)c); j.bound = T ? 2 : 1; jobs.push_back(j); } }
	// AtomicCount: every pair of ++/-- programs; Atomic<Counter>: every pair of programs over ++ -- += -= *=
	for (size_t a = 0; a < CP1.size(); a++) for (size_t b = a; b < CP1.size(); b++) { Job j; j.family = 1; j.kind = 0; j.prog.push_back((int)a); j.prog.push_back((int)b); size_t tot = CP1[a].size() + CP1[b].size(), mx = std::max(CP1[a].size(), CP1[b].size()); j.bound = tot <= (T ? 8u : 6u) ? -1 : 2; (void)mx; jobs.push_back(j); }
	for (size_t a = 0; a < CP2.size(); a++) for (size_t b = a; b < CP2.size(); b++) { Job j; j.family = 2; j.kind = 0; j.prog.push_back((int)a); j.prog.push_back((int)b); j.bound = T ? -1 : 3; jobs.push_back(j); }
	{ std::vector<Prog> one; genCounterProgs(2, 1, one); for (size_t a = 0; a < 2; a++) for (size_t b = 0; b < 2; b++) for (size_t c = 0; c < 2; c++) { Job j; j.family = 1; j.kind = 0; j.prog.push_back((int)a); j.prog.push_back((int)b); j.prog.push_back((int)c); j.bound = T ? 3 : 2; jobs.push_back(j); } }
	if (getenv("C12_BOUND")) for (size_t i = 0; i < jobs.size(); i++) jobs[i].bound = atoi(getenv("C12_BOUND"));
	if (getenv("C12_ONLY")) { std::vector<Job> q; for (size_t i = 0; i < jobs.size(); i++) if (jobName(jobs[i]).find(getenv("C12_ONLY")) == 0) q.push_back(jobs[i]); jobs.swap(q); }
	if (vf::opt.replay) {
		std::string k = vf::opt.kase, sched;
		size_t bar = k.find('|'); if (bar != std::string::npos) { sched = k.substr(bar + 1); k = k.substr(0, bar); }
		size_t sp = k.find(' '); if (sp != std::string::npos) k = k.substr(0, sp);
		for (size_t i = 0; i < jobs.size(); i++) if (jobName(jobs[i]) == k) { vf::parallel(1, [&](uint64_t) { runJob(jobs[i], &sched); }); break; }
		return vf::finish();
	}
	vf::parallel(jobs.size(), [&](uint64_t i) { if (vf::deadline_passed()) { vf::cap_hit("deadline"); return; } runJob(jobs[i], 0); });
	vf::setinfo("program_tables", fmt("{\"handle_programs\": %d, \"atomiccount_programs\": %d, \"atomic_counter_programs\": %d, \"jobs\": %d}", (int)HP.size(), (int)CP1.size(), (int)CP2.size(), (int)jobs.size()));
	vf::sample("Array<Tracked>: T1: local=copy(own); own=local || T2: drop own  (main drops its handle concurrently) - all schedules");
	vf::sample("Atomic<Counter>: T1: a += 3; a *= 1 || T2: --a; a -= 2 with Counter yielding between its read and write");
	return vf::finish();
}
