// C17 — File / TextFile return exactly the bytes, text and lines that were written; Directory copy/move preserve content.
//  (a) every table content x every writing API x every reading API (fresh objects), oracle = POSIX read + reference splitter
//  (b) every line length 0..N around the 255-byte fgets chunk of TextFile::readLine, x line ends x position x filling
//  (c) UTF-8 / UTF-16LE / UTF-16BE BOM files of every short scalar sequence -> text() as UTF-8
//  (d) binary contents around the stdio / copy block sizes
//  (e) Directory::copy / move (File::copy / move) x destination kinds x rename() answering 0 / EXDEV / EACCES (interposed)
//  (f) explicit-state BFS over histories of write / append / open / close / read operations on one path (vf::Bfs)
// Extensions after the coverage review (reviews/C17.md):
//  (a,d) every written file is also read through File objects that carry stat data obtained elsewhere (Directory::files(), copies of an
//        object with a cached size, objects that knew another file before); readLine('\n') on CR-free texts; the idiom while(f.readLine(s))
//  (b) line lengths around 4096, 8192 and 65536    (c) a wider scalar alphabet at lengths <= 2 (3), repeated up to 3000 times
//  (e) destinations that resolve to the source itself (same path, own directory, hard link, symbolic link, dir/./name); sources that stop
//      being readable (fread interposed: call k fails with a kernel error; /proc/self/mem; a directory)
//  (f) open() on an object that is already open (with and without unflushed bytes), open(RW) with reads and overwriting writes, size() of the
//      writing object, a piece longer than the stdio buffer, pieces that form a UTF-8 BOM together
// Extension after a missed seeded change (seeded/C17-4: Directory::copy left a hole for every all-zero 64 KiB block and so lost a zero tail
// that ends at a block boundary): every family above uses ONE position-dependent content per size, so a path that is taken only for
// special content was never taken.
//  (g) content classes x sizes: 23 classes (all 00 / all 41 / all FF, zero tail of 1 or 2 copy blocks / of one stdio buffer / of one byte, zero head,
//      zero middle block, zeros but the last / first byte, a block equal to the previous block, ^Z at every block start, CR LF across every block
//      boundary, only LF / CR LF / CR, identical lines) x sizes around 1, 255, 4096 and every multiple of 65536 up to 4 (64) blocks
//      x { every byte writer and a POSIX writer that leaves real holes -> every reader } and x { copy, move by rename, move by EXDEV fallback }
//      x 7 destinations (new, longer, directory, and four existing files of the same size: identical, differing in the last / first / middle byte)
//      x 2 APIs x source stored densely / with real holes.
// Oracle side uses POSIX calls and std:: only.
#include <asl/File.h>
#include <asl/TextFile.h>
#include <asl/Directory.h>
#include <fcntl.h>
#include <sys/stat.h>
#include <unistd.h>
#include <errno.h>
#include <dlfcn.h>
#include <dirent.h>
#include <sys/resource.h>
#include "vf.h"
#include "aslx.h"
using namespace asl;
using vf::fmt;

// ---------------------------------------------------------------- rename() interposition (link-time)
static int g_rename_errno = 0; // 0 = forward to libc, otherwise fail with this errno
static int g_rename_calls = 0;
extern "C" int rename(const char* a, const char* b) __THROW {
	typedef int (*fn_t)(const char*, const char*);
	static fn_t real = 0;
	g_rename_calls++;
	if (g_rename_errno) { errno = g_rename_errno; return -1; }
	if (!real) real = (fn_t)dlsym(RTLD_NEXT, "rename");
	return real(a, b);
}

// ---------------------------------------------------------------- fread() interposition (link-time): a source that stops being readable
// The k-th fread() after arming is made to fail by a REAL kernel error: the descriptor under the FILE is replaced (dup2) by a
// directory descriptor, so that glibc's read() answers EISDIR and glibc itself sets the error indicator of the FILE.
static int g_fread_fail_at = 0; // 0 = forward; k = the k-th call from now fails
static int g_fread_calls = 0, g_fread_faults = 0;
extern "C" size_t fread(void* p, size_t sz, size_t n, FILE* f) {
	typedef size_t (*fn_t)(void*, size_t, size_t, FILE*);
	static fn_t real = 0;
	if (!real) real = (fn_t)dlsym(RTLD_NEXT, "fread");
	if (g_fread_fail_at && ++g_fread_calls == g_fread_fail_at) {
		int bad = ::open("/", O_RDONLY | O_DIRECTORY);
		if (bad >= 0) { dup2(bad, fileno(f)); ::close(bad); }
		size_t r = real(p, sz, n, f);
		if (ferror(f)) g_fread_faults++;
		return r;
	}
	return real(p, sz, n, f);
}

// ---------------------------------------------------------------- POSIX side (oracle)
static std::string g_dir; static pid_t g_dirpid = 0;
static const std::string& wdir() { // one private directory per process (workers are forked)
	pid_t p = getpid();
	if (p != g_dirpid) { g_dirpid = p; g_dir = vf::scratch_dir() + fmt("/w%d", (int)p); mkdir(g_dir.c_str(), 0700); }
	return g_dir;
}
static bool p_read(const std::string& p, std::string& out) {
	out.clear();
	int fd = ::open(p.c_str(), O_RDONLY);
	if (fd < 0) return false;
	static char buf[1 << 16]; ssize_t n;
	while ((n = ::read(fd, buf, sizeof buf)) > 0) out.append(buf, (size_t)n);
	::close(fd);
	return true;
}
static void p_write(const std::string& p, const std::string& d) {
	int fd = ::open(p.c_str(), O_WRONLY | O_CREAT | O_TRUNC, 0600);
	if (fd < 0) { fprintf(stderr, "c17: cannot create %s\n", p.c_str()); _exit(2); }
	size_t o = 0;
	while (o < d.size()) { ssize_t n = ::write(fd, d.data() + o, d.size() - o); if (n <= 0) { fprintf(stderr, "c17: short write on %s\n", p.c_str()); _exit(2); } o += (size_t)n; }
	::close(fd);
}
// the same bytes, but every 4096-byte page of zeros is left out (a hole where the file system supports holes); *holes = the file really has fewer blocks than bytes
static bool zero_range(const std::string& d, size_t off, size_t len) { for (size_t i = 0; i < len; i++) if (d[off + i]) return false; return true; }
static bool has_zero_page(const std::string& d) { for (size_t o = 0; o + 4096 <= d.size(); o += 4096) if (zero_range(d, o, 4096)) return true; return false; }
static void p_write_sparse(const std::string& p, const std::string& d, bool* holes) {
	int fd = ::open(p.c_str(), O_WRONLY | O_CREAT | O_TRUNC, 0600);
	if (fd < 0) { fprintf(stderr, "c17: cannot create %s\n", p.c_str()); _exit(2); }
	for (size_t o = 0; o < d.size(); o += 4096) {
		size_t len = std::min((size_t)4096, d.size() - o);
		if (len == 4096 && zero_range(d, o, len)) continue;
		if (::pwrite(fd, d.data() + o, len, (off_t)o) != (ssize_t)len) { fprintf(stderr, "c17: short write on %s\n", p.c_str()); _exit(2); }
	}
	if (::ftruncate(fd, (off_t)d.size()) != 0) { fprintf(stderr, "c17: cannot set the length of %s\n", p.c_str()); _exit(2); }
	struct stat st;
	if (holes) *holes = ::fstat(fd, &st) == 0 && (long long)st.st_blocks * 512 < (long long)d.size();
	::close(fd);
}
static bool p_exists(const std::string& p) { struct stat st; return ::stat(p.c_str(), &st) == 0; }
static bool p_isdir(const std::string& p) { struct stat st; return ::stat(p.c_str(), &st) == 0 && S_ISDIR(st.st_mode); }

// reference: split at LF, remove one CR before each LF
static std::vector<std::string> ref_lines(const std::string& t) {
	std::vector<std::string> v;
	size_t b = 0;
	for (;;) {
		size_t q = t.find('\n', b);
		if (q == std::string::npos) { v.push_back(t.substr(b)); break; }
		size_t e = q;
		if (e > b && t[e - 1] == '\r') e--;
		v.push_back(t.substr(b, e - b));
		b = q + 1;
	}
	return v;
}
static bool has_nul(const std::string& s) { return s.find('\0') != std::string::npos; }
static bool starts_with_bom(const std::string& s) {
	if (s.size() >= 2 && (unsigned char)s[0] == 0xff && (unsigned char)s[1] == 0xfe) return true;
	if (s.size() >= 2 && (unsigned char)s[0] == 0xfe && (unsigned char)s[1] == 0xff) return true;
	return s.size() >= 3 && (unsigned char)s[0] == 0xef && (unsigned char)s[1] == 0xbb && (unsigned char)s[2] == 0xbf;
}
static std::string brief(const std::string& s) { // for messages
	if (s.size() <= 24) return fmt("%d bytes [", (int)s.size()) + vf::hex(s) + "]";
	return fmt("%d bytes [", (int)s.size()) + vf::hex(s.substr(0, 10)) + ".." + vf::hex(s.substr(s.size() - 10)) + "]";
}
static std::string firstdiff(const std::string& got, const std::string& exp) {
	size_t i = 0; while (i < got.size() && i < exp.size() && got[i] == exp[i]) i++;
	return fmt("got %s, expected %s, first difference at offset %d", brief(got).c_str(), brief(exp).c_str(), (int)i);
}

// ---------------------------------------------------------------- content generators
// NUL-free, CR/LF-free filler that depends on the position and includes bytes >= 0x80
static char fillc(size_t i) {
	unsigned char c = (unsigned char)(33 + (i * 7 + i / 251) % 94);
	if (i % 13 == 5) c = (unsigned char)(0x80 + (i * 11) % 128);
	return (char)c;
}
static std::string bin_pattern(size_t n, int pat) {
	std::string s(n, 0);
	for (size_t i = 0; i < n; i++) {
		unsigned char c;
		switch (pat) {
		case 0: c = (unsigned char)(((uint32_t)i * 2654435761u) >> 13) ^ (unsigned char)(i >> 16); break; // all byte values incl. NUL, differs per 64K block
		case 1: c = 0; break;
		case 2: c = 0xff; break;
		case 3: c = i % 3 == 0 ? '\n' : i % 3 == 1 ? '\r' : 0x1a; break; // line ends and ^Z must not be translated
		default: c = i == 0 ? 0xef : i == 1 ? 0xbb : (unsigned char)(i * 31); break; // partial UTF-8 BOM
		}
		s[i] = (char)c;
	}
	return s;
}
static const int LEN_TABLE[] = { 0, 1, 2, 3, 254, 255, 256, 509, 510, 511, 1000, 4097, 65537, 200000, 1048577 };
static const int NLEN_ALL = sizeof LEN_TABLE / sizeof *LEN_TABLE;
static const int NLEN_QUICK = NLEN_ALL - 2; // the two largest only in the thorough tier
static const int K_TABLE[] = { 1, 3, 100, 253, 254, 255, 256, 600 };
static const int NK = sizeof K_TABLE / sizeof *K_TABLE;
enum { SH_LF, SH_CRLF, SH_LONECR, SH_NOFINAL, SH_EMPTY, NSHAPE };
static const char* SHAPE_NAME[] = { "LF", "CRLF", "loneCR", "noFinalNewline", "emptyLines" };
// text of exactly L bytes made of lines of K characters in the given shape
static std::string make_text(int L, int shape, int K) {
	std::string t;
	size_t li = 0;
	while ((int)t.size() < L) {
		int k = shape == SH_EMPTY ? (li % 4 == 3 ? K : 0) : K;
		for (int j = 0; j < k; j++) { char c = fillc(t.size()); if (shape == SH_LONECR && j % 5 == 2) c = '\r'; t += c; }
		if (shape == SH_CRLF || (shape == SH_EMPTY && li % 2)) t += "\r\n";
		else if (shape == SH_LONECR && li % 3 != 2) t += "\r"; // old-Mac line end: not a line end for the splitter
		else t += "\n";
		li++;
	}
	t.resize((size_t)L);
	if (L > 0) {
		if (shape == SH_NOFINAL) { if (t[L - 1] == '\n') t[L - 1] = 'z'; }
		else t[L - 1] = '\n';
	}
	return t;
}
// special texts: partial BOM prefixes (must be returned as written), only line ends, lone bytes
static std::vector<std::string> special_texts() {
	std::vector<std::string> v;
	v.push_back("\xef"); v.push_back("\xef\xbb"); v.push_back("\xef\xbb" "A"); v.push_back("\xef\xbb" "Abc\n");
	v.push_back("\xff"); v.push_back("\xfe"); v.push_back("\xff" "A"); v.push_back("\xfe" "A"); v.push_back("\xef\xbf\xbb");
	v.push_back("\r"); v.push_back("\n"); v.push_back("\r\n"); v.push_back("\n\r"); v.push_back("\r\r\n"); v.push_back("\n\n"); v.push_back("\r\n\r\n"); v.push_back("a\rb"); v.push_back("a\r\nb\r");
	v.push_back(std::string(253, 'x') + "\r\n"); v.push_back(std::string(254, 'x') + "\r\n"); v.push_back(std::string(253, 'x') + "\r"); v.push_back(std::string(254, 'x') + "\r" + "y");
	return v;
}

// ---------------------------------------------------------------- counters
static int C_EVAL, C_DIST, C_PYCHK;
static int W_CHUNK_EXACT, W_CHUNK_MULTI, W_CRLF_SPLIT_BY_CHUNK, W_NOFINAL, W_EMPTY_FILE, W_LONE_CR_KEPT, W_HEAP_REALLOC_LINE, W_BOM8, W_BOM16LE, W_BOM16BE, W_SURROGATE, W_FOLD16, W_PARTIAL_BOM,
	W_COPY_MULTIBLOCK, W_COPY_EXACT_BLOCK, W_COPY_TO_DIR, W_COPY_OVER_LONGER, W_RENAME_INTERCEPTED, W_MOVE_RENAME_OK, W_MOVE_EXDEV, W_MOVE_EACCES, W_MOVE_DEVFULL, W_APPEND_EXISTING, W_TRUNCATE_EXISTING, W_READ_SHORT, W_BIG,
	W_H_REUSED_OBJECT_READ, W_H_CACHED_SIZE_THEN_WRITE, W_H_APPEND_OPEN, W_H_STREAM_READ, W_H_EOF_SEEN, W_H_CR_LF_ACROSS_WRITES,
	// extensions after the coverage review
	W_COPY_ALIAS, W_MOVE_ALIAS, W_MOVE_ALIAS_EXDEV, W_COPY_DEVFULL, W_FREAD_FAULT, W_COPY_READ_FAULT, W_MOVE_READ_FAULT, W_COPY_UNREADABLE_SOURCE,
	W_INFO_FROM_LISTING, W_INFO_COPIED, W_INFO_REPOINTED, W_BOMX, W_BOM_OVER_STDIO_BUFFER, W_BOM_RESULT_ON_HEAP, W_BOM_INNER_FEFF, W_LINE_OVER_4096, W_LINE_OVER_65536,
	W_READLINE_CHAR, W_READLINE_BOOL_IDIOM, W_READLINE_FALSE_AT_END,
	// content classes
	W_CC_READ, W_CC_READ_TEXT, W_CC_READ_ZTAIL_AT_BLOCK_END, W_CC_READ_HOLES, W_CC_COPY, W_CC_MOVE_RENAME, W_CC_MOVE_EXDEV, W_CC_ZERO_LAST_BLOCK, W_CC_ZERO_INNER_BLOCK, W_CC_BLOCK_REPEATED, W_CC_CONST_BLOCK,
	W_CC_HOLES, W_CC_DEST_IDENTICAL, W_CC_DEST_ONE_BYTE_DIFFERS, W_CC_CTRLZ_BLOCK_START, W_CC_CRLF_ACROSS_BLOCKS, W_CC_IDENTICAL_LINES,
	W_H_OPEN_WHILE_OPEN, W_H_OPEN_WHILE_UNFLUSHED, W_H_SIZE_WHILE_WRITING, W_H_SIZE_CACHE_OUTDATED, W_H_RW_READ, W_H_RW_OVERWRITE, W_H_RW_EXTEND, W_H_BOM_LED, W_H_OVER_STDIO_BUFFER;

static void bad(const char* sig, const std::string& desc, const std::string& kase) { vf::violation(sig, desc, kase); }
static bool asan_check(const std::string& what, const std::string& kase) {
	if (!vf::asan_tripped()) return true;
	bad("asan", "ASan " + vf::asan_what() + " during " + what, kase);
	vf::asan_clear();
	return false;
}

// ---------------------------------------------------------------- writers (every API of the statement, fresh objects)
enum { WR_FPUT, WR_FWRITE, WR_FSTREAM_BA, WR_FSTREAM_S, WR_FSTREAM_C, WR_TPUT, WR_TWRITE, WR_TAPPEND, WR_TSTREAM_S, WR_TSTREAM_C, WR_TWRITE_TAPPEND, WR_FAPPEND_PARTS, WR_TOPEN_STREAM_PARTS, NWRITER };
static const char* WRITER_NAME[] = { "File(p).put(bytes)", "File f(p,WRITE); f.write(ptr,n)", "File f(p,WRITE); f << ByteArray", "File f(p,WRITE); f << String", "File f(p,WRITE); f << const char*",
	"TextFile(p).put(s)", "TextFile(p).write(s)", "TextFile(p).append(s)", "TextFile(p) << String", "TextFile(p) << const char*", "TextFile(p).write(s1); TextFile(p).append(s2)",
	"File f(p,APPEND); f.write x3", "TextFile f(p,WRITE); f << s1 << s2 << .." };
static bool writer_appends(int w) { return w == WR_TAPPEND || w == WR_FAPPEND_PARTS; }
static bool writer_needs_nul_free(int w) { return w == WR_FSTREAM_C || w == WR_TSTREAM_C; }
static ByteArray BA(const std::string& s) { return ByteArray((const byte*)s.data(), (int)s.size()); }
static std::string SB(const ByteArray& b) { return std::string((const char*)b.data(), (size_t)b.length()); }

// returns "" or a description of a wrong return value
static std::string do_write(int w, const std::string& path, const std::string& d) {
	String p = vfx::A(path);
	int n = (int)d.size();
	switch (w) {
	case WR_FPUT: { bool ok = File(p).put(BA(d)); if (!ok) return "put() returned false"; break; }
	case WR_FWRITE: { File f(p, File::WRITE); if (!f) return "File(p, WRITE) not open"; int m = f.write(d.data(), n); if (m != n) return fmt("write(p,%d) returned %d", n, m); break; }
	case WR_FSTREAM_BA: { File f(p, File::WRITE); if (!f) return "File(p, WRITE) not open"; f << BA(d); break; }
	case WR_FSTREAM_S: { File f(p, File::WRITE); if (!f) return "File(p, WRITE) not open"; f << vfx::A(d); break; }
	case WR_FSTREAM_C: { File f(p, File::WRITE); if (!f) return "File(p, WRITE) not open"; f << d.c_str(); break; }
	case WR_TPUT: { bool ok = TextFile(p).put(vfx::A(d)); if (!ok) return "TextFile::put returned false"; break; }
	case WR_TWRITE: { bool ok = TextFile(p).write(vfx::A(d)); if (!ok) return "TextFile::write returned false"; break; }
	case WR_TAPPEND: { bool ok = TextFile(p).append(vfx::A(d)); if (!ok) return "TextFile::append returned false"; break; }
	case WR_TSTREAM_S: { TextFile(p) << vfx::A(d); break; }
	case WR_TSTREAM_C: { TextFile(p) << d.c_str(); break; }
	case WR_TWRITE_TAPPEND: { size_t h = d.size() / 2; bool ok = TextFile(p).write(vfx::A(d.substr(0, h))); bool ok2 = TextFile(p).append(vfx::A(d.substr(h))); if (!ok || !ok2) return "TextFile::write/append returned false"; break; }
	case WR_FAPPEND_PARTS: {
		File f(p, File::APPEND); if (!f) return "File(p, APPEND) not open";
		size_t a = d.size() / 3, b = d.size() - d.size() / 4;
		int m = f.write(d.data(), (int)a) + f.write(d.data() + a, (int)(b - a)) + f.write(d.data() + b, (int)(d.size() - b));
		if (m != n) return fmt("three write() calls returned %d in total, expected %d", m, n);
		break; }
	case WR_TOPEN_STREAM_PARTS: {
		TextFile f(p, File::WRITE); if (!f) return "TextFile(p, WRITE) not open";
		for (size_t o = 0; o < d.size(); o += 100) f << vfx::A(d.substr(o, 100));
		break; }
	}
	return "";
}

// ---------------------------------------------------------------- readers
// a defect class that is expected to fire on very many cases is listed a few times per worker only; every occurrence is counted
static int C_REPEATS;
static void bad_limited(const char* sig, const std::string& desc, const std::string& kase) {
	static std::map<std::string, int> full; // per process: the run-wide budget of this signature is used up
	if (!full[sig]) for (int i = 0; i < 4; i++) { // the first four occurrences of the whole run are listed (marker files in the scratch directory)
		int fd = ::open((vf::scratch_dir() + fmt("/listed.%s.%d", sig, i)).c_str(), O_WRONLY | O_CREAT | O_EXCL, 0600);
		if (fd >= 0) { ::close(fd); bad(sig, desc, kase); return; }
	}
	full[sig] = 1;
	if (vf::opt.replay) { bad(sig, desc, kase); return; }
	vf::add(C_REPEATS); vf::note(std::string("repeats_not_listed:") + sig);
}
// line readers, shared by the tables and the line-length sweep. variants (bit mask):
//  0 lines()   1 while(!f.end()) f.readLine()   2 readLine(s), s reused   3 readLine(s), fresh s
//  4 the idiom while(f.readLine(s)): every line except the empty one behind the last LF (the result is false only if nothing was read)
//  5 while(!f.end()) f.readLine('\n') for CR-free texts: plain split at LF
static void check_line_readers(const std::string& path, const std::string& E, unsigned variants, const std::string& ctx, const std::string& kase) {
	String p = vfx::A(path);
	std::vector<std::string> ref = ref_lines(E);
	for (int variant = 0; variant < 6; variant++) {
		if (!((variants >> variant) & 1)) continue;
		if (variant == 5 && (E.find('\r') != std::string::npos || E.size() > 70000)) continue;
		std::vector<std::string> got, exp = ref;
		const char* nm = "";
		const char* sig = variant == 0 ? "lines" : variant == 4 ? "readLine_result" : variant == 5 ? "readLine_char" : "readLine";
		int guard = (int)ref.size() + 5;
		std::string boolerr;
		if (variant == 0) { nm = "lines()"; Array<String> a = TextFile(p).lines(); for (int i = 0; i < a.length(); i++) got.push_back(vfx::S(a[i])); }
		else if (variant == 1) { nm = "while(!f.end()) f.readLine()"; TextFile f(p); while (!f.end() && guard-- > 0) got.push_back(vfx::S(f.readLine())); }
		else if (variant == 2 || variant == 3) {
			nm = variant == 2 ? "TextFile f(p,READ); String s; while(!f.end()) f.readLine(s) (s reused)" : "TextFile f(p,READ); while(!f.end()) { String s; f.readLine(s); }";
			TextFile f(p, File::READ); String s0;
			while (!f.end() && guard-- > 0) {
				String s1; String& s = variant == 2 ? s0 : s1;
				bool r = f.readLine(s);
				got.push_back(vfx::S(s));
				if (!r) vf::add(W_READLINE_FALSE_AT_END);
				if (!r && s.length() > 0 && boolerr.empty()) boolerr = fmt("readLine(s) call %d returned false although it delivered a line of %d characters", (int)got.size(), s.length());
			}
		}
		else if (variant == 4) {
			nm = "TextFile f(p,READ); String s; while(f.readLine(s)) use(s)"; TextFile f(p, File::READ); String s;
			bool last = true;
			while (guard-- > 0 && (last = f.readLine(s))) got.push_back(vfx::S(s));
			// the empty line behind the last LF (or the one line of an empty file) may be announced or not: the statement fixes the sequence
			// of lines, not the result for a call that finds nothing but the end of the file. Every other line must be delivered.
			if (exp.back().empty() && got.size() + 1 == exp.size()) exp.pop_back();
			if (!last) vf::add(W_READLINE_FALSE_AT_END); // what s holds after false is not specified: a line consumed by that call is missing in the sequence compared below
			vf::add(W_READLINE_BOOL_IDIOM);
		}
		else { nm = "TextFile f(p); while(!f.end()) f.readLine('\\n')"; TextFile f(p); while (!f.end() && guard-- > 0) got.push_back(vfx::S(f.readLine('\n'))); vf::add(W_READLINE_CHAR); }
		vf::add(C_EVAL);
		if (!boolerr.empty()) bad_limited("readLine_result", boolerr + ctx, kase);
		if (got.size() != exp.size()) {
			std::string d = fmt("%s gave %d lines, expected %d%s", nm, (int)got.size(), (int)exp.size(), ctx.c_str());
			if (variant == 4) bad_limited(sig, d + (got.size() + 1 == exp.size() ? fmt(" (the last line, %d characters without a final newline, is reported as 'no line')", (int)exp.back().size()) : std::string()), kase);
			else bad(sig, d, kase);
			continue;
		}
		for (size_t i = 0; i < exp.size(); i++) if (got[i] != exp[i]) { bad(sig, fmt("%s line %d%s: ", nm, (int)i, ctx.c_str()) + firstdiff(got[i], exp[i]), kase); break; }
	}
}
// File objects that carry stat data obtained elsewhere: through a directory listing, copied from another object, re-pointed
struct ReadOpts { bool text, lines, small_chunks; };
static const char OTHER_CONTENT[] = "OTHER!\n"; // a second file of another size next to the one under test
static std::string other_path() {
	std::string o = wdir() + "/other.bin";
	static pid_t made = 0;
	if (made != getpid() || !p_exists(o)) { p_write(o, OTHER_CONTENT); made = getpid(); }
	return o;
}
static void check_info_carriers(const std::string& path, const std::string& E, const ReadOpts& ro, const std::string& kase) {
	String p = vfx::A(path), o = vfx::A(other_path());
	int n = (int)E.size();
	bool txt = ro.text && !has_nul(E) && !starts_with_bom(E);
	{ // the objects Directory::files() builds (stat data taken while listing)
		Directory d(vfx::A(wdir()));
		const Array<File> fs = d.files();
		int at = -1;
		for (int i = 0; i < fs.length(); i++) if (vfx::S(fs[i].path()) == path) at = i;
		vf::add(C_EVAL);
		if (at < 0) bad("listing", fmt("Directory(dir).files() (%d entries) does not list the file just written", fs.length()), kase);
		else {
			vf::add(W_INFO_FROM_LISTING);
			File f = fs[at];
			Long sz = f.size(); if (sz != (Long)n) bad("size", fmt("size() of the File from Directory::files() = %lld after writing %d bytes", (long long)sz, n), kase);
			ByteArray c = f.content(); if (SB(c) != E) bad("content", "content() of the File from Directory::files(): " + firstdiff(SB(c), E), kase);
			if (txt) { TextFile t(fs[at]); String s = t.text(); if (vfx::S(s) != E) bad("text", "TextFile(File from Directory::files()).text(): " + firstdiff(vfx::S(s), E), kase); }
		}
	}
	{ // copies of an object that has cached stat data
		File f(p); Long sz = f.size(); vf::add(C_EVAL); vf::add(W_INFO_COPIED);
		if (sz != (Long)n) bad("size", fmt("size() = %lld after writing %d bytes", (long long)sz, n), kase);
		File g(f); { ByteArray c = g.content(); if (SB(c) != E) bad("content", "File f(p); f.size(); File g(f); g.content(): " + firstdiff(SB(c), E), kase); }
		File h; h = f; { ByteArray c = h.firstBytes(n + 1); if (SB(c) != E) bad("firstBytes", "File f(p); f.size(); File h; h = f; h.firstBytes(n+1): " + firstdiff(SB(c), E), kase); if (h.size() != (Long)n) bad("size", fmt("h = f; h.size() = %lld, %d bytes were written", (long long)h.size(), n), kase); }
		if (txt) { TextFile t(f); String s = t.text(); if (vfx::S(s) != E) bad("text", "File f(p); f.size(); TextFile t(f); t.text(): " + firstdiff(vfx::S(s), E), kase); }
		{ ByteArray c = f.content(); if (SB(c) != E) bad("content", "File f(p); f.size(); f.content(): " + firstdiff(SB(c), E), kase); }
	}
	{ // objects that knew another file before
		vf::add(C_EVAL); vf::add(W_INFO_REPOINTED);
		File a(o); Long so = a.size();
		if (so != (Long)(sizeof OTHER_CONTENT - 1)) bad("size", fmt("size() of the neighbour file = %lld", (long long)so), kase);
		a = File(p);
		{ ByteArray c = a.content(); if (SB(c) != E) bad("content", "File a(other); a.size(); a = File(p); a.content(): " + firstdiff(SB(c), E), kase); }
		File b(o); b.size();
		if (!b.open(p, File::READ)) bad("read", "File b(other); b.open(p, READ) returned false", kase);
		else {
			Long sb = b.size(); ByteArray c = b.content();
			if (sb != (Long)n) bad_limited("stale_cached_size", fmt("File b(other); b.size(); b.open(p, READ); b.size() = %lld: that is the size of the other file, %d bytes were written to p", (long long)sb, n), kase);
			if (SB(c) != E) bad_limited("stale_cached_size", "File b(other); b.size(); b.open(p, READ); b.content(): " + firstdiff(SB(c), E), kase);
		}
		if (txt) {
			TextFile t(o); t.size();
			if (t.open(p, File::READ)) { String s = t.text(); if (vfx::S(s) != E) bad_limited("stale_cached_size", "TextFile t(other); t.size(); t.open(p, READ); t.text(): " + firstdiff(vfx::S(s), E), kase); }
		}
	}
}
// all reading APIs on the file at path, expected content E; fresh object for each
static void check_readers(const std::string& path, const std::string& E, const ReadOpts& ro, const std::string& kase) {
	String p = vfx::A(path);
	int n = (int)E.size();
	std::string disk;
	if (!p_read(path, disk)) { bad("disk_bytes", "the file does not exist after writing", kase); return; }
	vf::add(C_EVAL);
	if (disk != E) { bad("disk_bytes", "bytes on disk (POSIX read) differ from what was written: " + firstdiff(disk, E), kase); return; }
	{ Long sz = File(p).size(); vf::add(C_EVAL); if (sz != (Long)n) bad("size", fmt("size() = %lld after writing %d bytes", (long long)sz, n), kase); }
	{ ByteArray c = File(p).content(); vf::add(C_EVAL); if (SB(c) != E) bad("content", "content(): " + firstdiff(SB(c), E), kase); }
	{
		int ks[] = { 0, 1, 2, 3, 254, 255, 256, n - 1, n, n + 1, n + 70000 };
		for (size_t i = 0; i < sizeof ks / sizeof *ks; i++) {
			int k = ks[i]; if (k < 0) continue;
			ByteArray c = File(p).firstBytes(k); vf::add(C_EVAL);
			if (k > n) vf::add(W_READ_SHORT);
			std::string e = E.substr(0, (size_t)std::min(k, n));
			if (SB(c) != e) bad("firstBytes", fmt("firstBytes(%d): ", k) + firstdiff(SB(c), e), kase);
		}
	}
	{
		int cs[] = { n, 255, 4097, 65536, 1 };
		for (size_t i = 0; i < sizeof cs / sizeof *cs; i++) {
			int c = cs[i];
			if (c <= 0) continue;
			if (c == 1 && (!ro.small_chunks || n > 700)) continue;
			if (c == 255 && n > 300000) continue;
			File f(p, File::READ);
			if (!f) { bad("read", "File(p, READ) not open", kase); break; }
			std::string got, buf((size_t)c, 0);
			bool okc = true; int rounds = 0;
			for (;;) {
				int r = f.read(&buf[0], c);
				int expect = std::min(c, n - (int)got.size());
				if (r != expect) { bad("read", fmt("read(buf,%d) at offset %d returned %d, expected %d", c, (int)got.size(), r, expect), kase); okc = false; break; }
				if (r <= 0) break;
				got.append(buf.data(), (size_t)r);
				if (++rounds > n + 2) break;
			}
			vf::add(C_EVAL);
			if (okc && got != E) bad("read", fmt("read() in chunks of %d: ", c) + firstdiff(got, E), kase);
		}
	}
	if (ro.text && !has_nul(E) && !starts_with_bom(E)) {
		{ String t = TextFile(p).text(); vf::add(C_EVAL); if (vfx::S(t) != E) bad("text", "text(): " + firstdiff(vfx::S(t), E), kase); }
		{ TextFile f(p, File::READ); String t = f.text(); vf::add(C_EVAL); if (vfx::S(t) != E) bad("text", "TextFile f(p, READ); f.text(): " + firstdiff(vfx::S(t), E), kase); }
	}
	if (ro.lines && !has_nul(E)) check_line_readers(path, E, 0x3f, "", kase);
	check_info_carriers(path, E, ro, kase);
}
static void line_witnesses(const std::string& E) {
	if (has_nul(E)) return;
	if (E.empty()) vf::add(W_EMPTY_FILE);
	if (!E.empty() && E[E.size() - 1] != '\n') vf::add(W_NOFINAL);
	size_t b = 0;
	for (;;) {
		size_t q = E.find('\n', b);
		size_t raw = (q == std::string::npos ? E.size() : q) - b; // characters before the LF (incl. a CR)
		if (raw > 0 && raw % 254 == 0) vf::add(W_CHUNK_EXACT);
		if (raw > 254) vf::add(W_CHUNK_MULTI);
		if (raw >= 1016) vf::add(W_HEAP_REALLOC_LINE);
		if (q != std::string::npos && raw > 0 && raw % 254 == 0 && E[q - 1] == '\r') vf::add(W_CRLF_SPLIT_BY_CHUNK); // CR is the last byte of a chunk, LF the first of the next
		if (q == std::string::npos) break;
		b = q + 1;
	}
	for (size_t i = 0; i < E.size(); i++) if (E[i] == '\r' && (i + 1 == E.size() || E[i + 1] != '\n')) { vf::add(W_LONE_CR_KEPT); break; }
}

// ---------------------------------------------------------------- (a) table content x writer
static std::string junk_pre() { std::string j; for (int i = 0; i < 1500; i++) j += (i % 50 == 49) ? '\n' : (char)('A' + i % 26); return j; }
static void check_rw(const std::string& text, int writer, const std::string& kase) {
	vf::cur(kase);
	vf::asan_clear();
	if (writer_needs_nul_free(writer) && has_nul(text)) return;
	std::string path = wdir() + "/f.txt";
	for (int pre = 0; pre < 2; pre++) {
		::unlink(path.c_str());
		std::string E = text;
		if (pre) { p_write(path, junk_pre()); if (writer_appends(writer)) { E = junk_pre() + text; vf::add(W_APPEND_EXISTING); } else vf::add(W_TRUNCATE_EXISTING); }
		std::string werr = do_write(writer, path, text);
		if (!werr.empty()) bad("write_result", std::string(WRITER_NAME[writer]) + ": " + werr, kase);
		ReadOpts ro = { true, true, true };
		check_readers(path, E, ro, kase);
		if (!pre) line_witnesses(E);
		asan_check(std::string(WRITER_NAME[writer]) + " + readers", kase);
	}
	vf::add(C_DIST);
	::unlink(path.c_str());
}

// ---------------------------------------------------------------- (b) every line length
static const char* EOLS[] = { "\n", "\r\n", "", "\r", "\r\r\n" };
enum { NEOL = 5, NPOS = 4, NFILL = 2 };
static std::string make_line_text(int n, int eol, int pos, int fill) {
	std::string line;
	for (int i = 0; i < n; i++) {
		char c = fillc((size_t)i + 17);
		if (fill == 1 && (i % 254 == 252 || i % 254 == 253 || i % 254 == 0)) c = '\r'; // lone CRs on both sides of every chunk boundary
		line += c;
	}
	std::string t;
	if (pos == 1) t = "short\n";
	if (pos == 3) { for (int i = 0; i < 300; i++) t += fillc((size_t)i); t += "\r\n"; }
	t += line; t += EOLS[eol];
	if (pos == 2) t += "tail";
	if (pos == 3) t += "\n";
	return t;
}
static void check_line(int n, int eol, int pos, int fill) {
	std::string kase = fmt("line:%d:%d:%d:%d", n, eol, pos, fill);
	vf::cur(kase);
	vf::asan_clear();
	std::string text = make_line_text(n, eol, pos, fill);
	std::string path = wdir() + "/l.txt";
	::unlink(path.c_str());
	std::string werr = do_write((n + eol) % 2 ? WR_TWRITE : WR_TSTREAM_S, path, text);
	if (!werr.empty()) bad("write_result", werr, kase);
	std::string disk; p_read(path, disk);
	if (disk != text) { bad("disk_bytes", "bytes on disk differ from what was written: " + firstdiff(disk, text), kase); return; }
	// only the text-level readers here (the byte-level ones are covered by the tables)
	String p = vfx::A(path);
	{ String t = TextFile(p).text(); vf::add(C_EVAL); if (vfx::S(t) != text) bad("text", "text(): " + firstdiff(vfx::S(t), text), kase); }
	check_line_readers(path, text, 0x37, fmt(" (line of %d chars, end %s)", n, vf::hex(EOLS[eol]).c_str()), kase); // all variants but the fresh-String one
	if (n > 4096) vf::add(W_LINE_OVER_4096);
	if (n > 65536) vf::add(W_LINE_OVER_65536);
	line_witnesses(text);
	vf::add(C_DIST);
	asan_check("line readers", kase);
	::unlink(path.c_str());
}

// ---------------------------------------------------------------- (c) BOM files
// CR, LF and code points whose UTF-16 units merely contain the bytes 0D / 0A (low byte, high byte, both, low surrogate DC0D)
static const uint32_t SCALARS[] = { 0x41, 0xE9, 0x20AC, 0x1F600, 0x0D, 0x0A, 0x010D, 0x0D0A, 0x1F40D, 0x0A00 };
enum { NSCALAR = 10 };
static void utf8_put(std::string& s, uint32_t c) {
	if (c < 0x80) s += (char)c;
	else if (c < 0x800) { s += (char)(0xC0 | (c >> 6)); s += (char)(0x80 | (c & 0x3F)); }
	else if (c < 0x10000) { s += (char)(0xE0 | (c >> 12)); s += (char)(0x80 | ((c >> 6) & 0x3F)); s += (char)(0x80 | (c & 0x3F)); }
	else { s += (char)(0xF0 | (c >> 18)); s += (char)(0x80 | ((c >> 12) & 0x3F)); s += (char)(0x80 | ((c >> 6) & 0x3F)); s += (char)(0x80 | (c & 0x3F)); }
}
static void utf16_put(std::string& s, uint32_t c, bool be) {
	uint16_t u[2]; int n = 1;
	if (c < 0x10000) u[0] = (uint16_t)c; else { c -= 0x10000; u[0] = (uint16_t)(0xD800 + (c >> 10)); u[1] = (uint16_t)(0xDC00 + (c & 0x3FF)); n = 2; }
	for (int i = 0; i < n; i++) { if (be) { s += (char)(u[i] >> 8); s += (char)(u[i] & 0xFF); } else { s += (char)(u[i] & 0xFF); s += (char)(u[i] >> 8); } }
}
static std::vector<uint32_t> bom_seq(int len, int idx) { std::vector<uint32_t> v; for (int i = 0; i < len; i++) { v.push_back(SCALARS[idx % NSCALAR]); idx /= NSCALAR; } return v; }
static void bom_build(int enc, const std::vector<uint32_t>& seq, std::string& raw, std::string& expect, std::string* unfolded = 0) {
	raw.clear(); expect.clear();
	std::string u8; for (size_t i = 0; i < seq.size(); i++) utf8_put(u8, seq[i]);
	if (unfolded) *unfolded = u8;
	if (enc == 0) { raw = "\xef\xbb\xbf" + u8; expect = u8; return; }
	raw = enc == 1 ? "\xff\xfe" : "\xfe\xff";
	for (size_t i = 0; i < seq.size(); i++) utf16_put(raw, seq[i], enc == 2);
	// anchored mechanism: the UTF-16 reader folds CR LF into LF
	for (size_t i = 0; i < u8.size(); i++) { if (u8[i] == '\r' && i + 1 < u8.size() && u8[i + 1] == '\n') continue; expect += u8[i]; }
}
static void check_bom_seq(int enc, const std::vector<uint32_t>& seq, int via, const std::string& kase) {
	vf::cur(kase);
	vf::asan_clear();
	// expect = the text with CR LF folded to LF (what the UTF-16 reader of the library does today), plain = the text as it is: the statement
	// asks for "the same text in UTF-8", so both are accepted (each as a whole: a text folded in some places only is neither)
	std::string raw, expect, plain; bom_build(enc, seq, raw, expect, &plain);
	std::string path = wdir() + "/b.txt";
	::unlink(path.c_str());
	if (via == 0) p_write(path, raw); else if (!File(vfx::A(path)).put(BA(raw))) bad("write_result", "put() returned false", kase);
	std::string disk; p_read(path, disk);
	if (disk != raw) { bad("disk_bytes", "bytes on disk differ from what was written: " + firstdiff(disk, raw), kase); return; }
	String p = vfx::A(path);
	const char* en[] = { "UTF-8", "UTF-16LE", "UTF-16BE" };
	std::string rawd = raw.size() <= 64 ? vf::hex(raw) : brief(raw);
	{ String t = TextFile(p).text(); vf::add(C_EVAL); if (vfx::S(t) != expect && vfx::S(t) != plain) bad("bom_text", fmt("text() of a %s BOM file %s: ", en[enc], rawd.c_str()) + firstdiff(vfx::S(t), expect), kase); }
	{ TextFile f(p, File::READ); String t = f.text(); vf::add(C_EVAL); if (vfx::S(t) != expect && vfx::S(t) != plain) bad("bom_text", fmt("TextFile f(p,READ); f.text() of a %s BOM file %s: ", en[enc], rawd.c_str()) + firstdiff(vfx::S(t), expect), kase); }
	{ ByteArray c = File(p).content(); vf::add(C_EVAL); if (SB(c) != raw) bad("content", "content() of a BOM file: " + firstdiff(SB(c), raw), kase); }
	vf::add(enc == 0 ? W_BOM8 : enc == 1 ? W_BOM16LE : W_BOM16BE);
	for (size_t i = 0; i < seq.size(); i++) if (seq[i] > 0xFFFF && enc) { vf::add(W_SURROGATE); break; }
	for (size_t i = 0; enc && i + 1 < seq.size(); i++) if (seq[i] == 0x0D && seq[i + 1] == 0x0A) { vf::add(W_FOLD16); break; }
	for (size_t i = 0; i < seq.size(); i++) if (seq[i] == 0xFEFF) { vf::add(W_BOM_INNER_FEFF); break; }
	if (raw.size() > 4096) vf::add(W_BOM_OVER_STDIO_BUFFER);
	if (expect.size() > 15) vf::add(W_BOM_RESULT_ON_HEAP);
	vf::add(C_DIST);
	asan_check("text() of a BOM file", kase);
	::unlink(path.c_str());
}
static void check_bom(int enc, int len, int idx, int via) { check_bom_seq(enc, bom_seq(len, idx), via, fmt("bom:%d:%d:%d:%d", enc, len, idx, via)); }
// second family: a wider alphabet (an inner U+FEFF, U+FFFE, the boundaries of the 1/2/3/4-byte UTF-8 forms and of the surrogate gap) at
// lengths <= 2 (3), each sequence repeated so that the results leave String's inline buffer, the wchar_t array regrows and the
// file crosses the stdio buffer
static const uint32_t SCALARS_X[] = { 0x41, 0xE9, 0x20AC, 0x1F600, 0x0D, 0x0A, 0x010D, 0x0D0A, 0x1F40D, 0x0A00, 0xFEFF, 0xFFFE, 0x7F, 0x80, 0x7FF, 0x800, 0xD7FF, 0xE000, 0xFFFF, 0x10FFFF };
enum { NSCALAR_X = 20 };
static const int BOMX_REPS[] = { 1, 6, 100, 3000 };
enum { NBOMX_REP = 4 };
static std::vector<uint32_t> bomx_seq(int len, int idx, int rep) {
	std::vector<uint32_t> u, v;
	for (int i = 0; i < len; i++) { u.push_back(SCALARS_X[idx % NSCALAR_X]); idx /= NSCALAR_X; }
	for (int r = 0; r < rep; r++) v.insert(v.end(), u.begin(), u.end());
	return v;
}
static void check_bomx(int enc, int len, int idx, int rep, int via) { vf::add(W_BOMX); check_bom_seq(enc, bomx_seq(len, idx, rep), via, fmt("bomx:%d:%d:%d:%d:%d", enc, len, idx, rep, via)); }

// ---------------------------------------------------------------- (d) binary contents
static void check_bin(long size, int pat, int writer) {
	std::string kase = fmt("bin:%ld:%d:%d", size, pat, writer);
	vf::cur(kase);
	vf::asan_clear();
	std::string d = bin_pattern((size_t)size, pat);
	std::string path = wdir() + "/f.bin";
	::unlink(path.c_str());
	std::string werr = do_write(writer, path, d);
	if (!werr.empty()) bad("write_result", std::string(WRITER_NAME[writer]) + ": " + werr, kase);
	ReadOpts ro = { false, false, size <= 700 };
	check_readers(path, d, ro, kase);
	if (size >= (1 << 20)) vf::add(W_BIG);
	if (pat == 4 && size >= 3) vf::add(W_PARTIAL_BOM);
	vf::add(C_DIST);
	asan_check(std::string(WRITER_NAME[writer]) + " + binary readers", kase);
	::unlink(path.c_str());
}

// ---------------------------------------------------------------- (g) content classes
// Every other family writes ONE position-dependent content per size, so a path of the library that is taken only for special content
// (a block of zeros left as a hole, a block equal to the previous one, a constant block, ^Z / CR LF at a block edge, a destination that
// "already looks the same") is never taken there. Here the size grid is crossed with a fixed table of content classes.
static const long CB = 65536; // copy block of Directory::copy
static unsigned char nzc(size_t i) { return (unsigned char)(1 + (((((uint32_t)i * 2654435761u) >> 13) ^ ((uint32_t)(i >> 16) * 37u)) % 255)); } // never 00, differs from block to block
enum { CK_CYCLE, CK_ZTAIL, CK_ZHEAD, CK_ZMID, CK_ZBUTLAST, CK_ZBUTFIRST, CK_REPEAT, CK_LINES };
struct CClass { const char* name; int kind; long u; const char* cyc; };
static const CClass CC[] = {
	{ "all bytes 00", CK_CYCLE, 1, "\x00" },
	{ "all bytes 41", CK_CYCLE, 1, "A" },
	{ "all bytes FF", CK_CYCLE, 1, "\xff" },
	{ "non-zero bytes, the last 65536 bytes zero", CK_ZTAIL, 65536, 0 },
	{ "non-zero bytes, the last 131072 bytes zero", CK_ZTAIL, 131072, 0 },
	{ "the first 65536 bytes zero, then non-zero bytes", CK_ZHEAD, 65536, 0 },
	{ "non-zero bytes, bytes 65536..131071 zero", CK_ZMID, 65536, 0 },
	{ "non-zero bytes, the last 4096 bytes zero", CK_ZTAIL, 4096, 0 },
	{ "the first 4096 bytes zero, then non-zero bytes", CK_ZHEAD, 4096, 0 },
	{ "non-zero bytes, bytes 4096..8191 zero", CK_ZMID, 4096, 0 },
	{ "non-zero bytes, the last byte zero", CK_ZTAIL, 1, 0 },
	{ "the first byte zero, then non-zero bytes", CK_ZHEAD, 1, 0 },
	{ "zeros, the last byte 01", CK_ZBUTLAST, 1, 0 },
	{ "byte 01, then zeros", CK_ZBUTFIRST, 1, 0 },
	{ "one non-zero 65536-byte block repeated", CK_REPEAT, 65536, 0 },
	{ "one non-zero 4096-byte block repeated", CK_REPEAT, 4096, 0 },
	{ "1A 00 0A 0D repeated (^Z first and CR last in every block)", CK_CYCLE, 4, "\x1a\x00\x0a\x0d" },
	{ "0A 1A FF 0D repeated (CR LF across every block boundary)", CK_CYCLE, 4, "\x0a\x1a\xff\x0d" },
	{ "only LF", CK_CYCLE, 1, "\n" },
	{ "only CR LF", CK_CYCLE, 2, "\r\n" },
	{ "only CR", CK_CYCLE, 1, "\r" },
	{ "identical lines of 253 characters + LF", CK_LINES, 254, "\n" },
	{ "identical lines of 254 characters + CR LF", CK_LINES, 256, "\r\n" },
};
enum { NCC = sizeof CC / sizeof *CC };
static std::string cc_content(int cls, long size) {
	const CClass& c = CC[cls];
	size_t n = (size_t)size, u = (size_t)c.u;
	std::string s(n, 0);
	for (size_t i = 0; i < n; i++) {
		unsigned char b = 0;
		switch (c.kind) {
		case CK_CYCLE: b = (unsigned char)c.cyc[i % u]; break;
		case CK_ZTAIL: b = i + u >= n ? 0 : nzc(i); break;
		case CK_ZHEAD: b = i < u ? 0 : nzc(i); break;
		case CK_ZMID: b = i >= u && i < 2 * u ? 0 : nzc(i); break;
		case CK_ZBUTLAST: b = i + 1 == n ? 1 : 0; break;
		case CK_ZBUTFIRST: b = i == 0 ? 1 : 0; break;
		case CK_REPEAT: b = nzc(i % u); break;
		case CK_LINES: { size_t j = i % u, e = strlen(c.cyc); b = j >= u - e ? (unsigned char)c.cyc[j - (u - e)] : (unsigned char)fillc(j); break; }
		}
		s[i] = (char)b;
	}
	return s;
}
static const long CC_SIZES[] = { 1, 2, 254, 255, 256, 4095, 4096, 4097, 8192, 12288, 65535, 65536, 65537, 131071, 131072, 131073, 196608, 196609, 262144,
	/* thorough */ 262145, 524288, 1048576, 1048577, 4194304 };
enum { NCC_SIZE_QUICK = 19, NCC_SIZE_ALL = sizeof CC_SIZES / sizeof *CC_SIZES };
// the (class, size) pairs that are pairwise different contents (at small sizes many classes coincide: the first one is kept)
struct CCJob { int cls; long size; };
static std::vector<CCJob> cc_jobs(bool thorough) {
	std::vector<CCJob> v;
	for (int si = 0; si < (thorough ? (int)NCC_SIZE_ALL : (int)NCC_SIZE_QUICK); si++) {
		std::vector<std::string> kept;
		for (int c = 0; c < NCC; c++) {
			std::string d = cc_content(c, CC_SIZES[si]);
			if (std::find(kept.begin(), kept.end(), d) != kept.end()) continue;
			kept.push_back(d);
			CCJob j = { c, CC_SIZES[si] }; v.push_back(j);
		}
	}
	return v;
}
static std::string cc_desc(int cls, long size, bool sparse) { return fmt("%ld bytes (%s%s)", size, CC[cls].name, sparse ? "; the source is stored with holes" : ""); }
// readers: the content written by every byte writer (and by POSIX, densely / leaving holes) -> every reader
static const int CC_WRITERS[] = { -1, -2, WR_FPUT, WR_FWRITE, WR_FSTREAM_BA, WR_FSTREAM_S, WR_TWRITE, WR_FAPPEND_PARTS }; // -1 POSIX write, -2 POSIX pwrite leaving holes
enum { NCC_WRITER = sizeof CC_WRITERS / sizeof *CC_WRITERS };
static void check_cc_read(int cls, long size, int writer) {
	std::string kase = fmt("ccr:%d:%ld:%d", cls, size, writer);
	vf::cur(kase);
	vf::asan_clear();
	std::string d = cc_content(cls, size);
	if (writer == -2 && !has_zero_page(d)) return;
	std::string path = wdir() + "/c.bin";
	::unlink(path.c_str());
	bool holes = false;
	if (writer == -1) p_write(path, d);
	else if (writer == -2) p_write_sparse(path, d, &holes);
	else { std::string werr = do_write(writer, path, d); if (!werr.empty()) bad("write_result", std::string(WRITER_NAME[writer]) + " of " + cc_desc(cls, size, false) + ": " + werr, kase); }
	ReadOpts ro = { true, size <= (vf::opt.thorough() ? 300000 : 70000), size <= 700 }; // the line readers up to 65537 (quick) / 262145 bytes (thorough)
	check_readers(path, d, ro, kase);
	vf::add(W_CC_READ); vf::add(C_DIST);
	if (holes) vf::add(W_CC_READ_HOLES);
	if (!has_nul(d)) vf::add(W_CC_READ_TEXT);
	if (CC[cls].kind == CK_LINES && size > 2 * CC[cls].u) vf::add(W_CC_IDENTICAL_LINES);
	if (size % 4096 == 0 && zero_range(d, (size_t)size - 4096, 4096)) vf::add(W_CC_READ_ZTAIL_AT_BLOCK_END);
	asan_check(std::string(writer < 0 ? "POSIX write" : WRITER_NAME[writer]) + " + readers of " + CC[cls].name, kase);
	::unlink(path.c_str());
}
// ---------------------------------------------------------------- (e) copy / move
static const long COPY_SIZES[] = { 0, 1, 65535, 65536, 65537, 131072, 131073 };
enum { NCOPYSIZE = 7 };
// destinations D_SAME_PATH.. resolve to the source file itself
// D_EX_*: only in the content-class family (g): an existing file of the SAME size (and the same second of modification) that is identical / differs in one byte
enum { D_NEW, D_EXISTING_LONGER, D_DIR, D_DIR_WITH_SAME_NAME, D_DEVFULL, D_SAME_PATH, D_OWN_DIR, D_HARDLINK, D_SYMLINK, D_DOT_ALIAS, NDEST,
	D_EX_SAME = NDEST, D_EX_LASTDIFF, D_EX_FIRSTDIFF, D_EX_MIDDIFF, NDEST_ALL };
static const char* DEST_NAME[] = { "new file name", "existing longer file", "existing directory", "existing directory holding a file of the same name", "/dev/full (destination device has no space)",
	"the source path itself", "the directory that holds the source", "a hard link to the source", "a symbolic link to the source", "the source path spelled dir/./name",
	"an existing file with the same content", "an existing file of the same size that differs in the last byte", "an existing file of the same size that differs in the first byte", "an existing file of the same size that differs in the middle byte" };
static bool dest_is_source(int dest) { return dest >= D_SAME_PATH && dest <= D_DOT_ALIAS; }
// content-class family: what a copy / move case exercises (how: 0 copy, 1 move by rename, 2 move by copy and delete)
static void cc_witness(const std::string& c, bool holes, int dest, int how) {
	vf::add(how == 0 ? W_CC_COPY : how == 1 ? W_CC_MOVE_RENAME : W_CC_MOVE_EXDEV);
	if (holes) vf::add(W_CC_HOLES);
	if (dest == D_EX_SAME) vf::add(W_CC_DEST_IDENTICAL);
	if (dest == D_EX_LASTDIFF || dest == D_EX_FIRSTDIFF || dest == D_EX_MIDDIFF) vf::add(W_CC_DEST_ONE_BYTE_DIFFERS);
	if (how == 1) return; // the bytes do not pass through the copy loop
	size_t n = c.size();
	bool zl = false, zi = false, rp = false, cb = false, cz = false, crlf = false;
	for (size_t o = 0; o + CB <= n; o += CB) {
		bool z = zero_range(c, o, CB);
		if (z && o + CB == n) zl = true;  // the loop ends with a read of 0 bytes behind a block of zeros
		if (z && o + CB < n) zi = true;
		if (!z && o >= (size_t)CB && memcmp(c.data() + o, c.data() + o - CB, CB) == 0) rp = true;
		if (!z && c[o] == c[o + CB - 1] && memcmp(c.data() + o, c.data() + o + 1, CB - 1) == 0) cb = true;
	}
	for (size_t o = 0; o < n; o += CB) { if ((unsigned char)c[o] == 0x1a) cz = true; if (o && c[o - 1] == '\r' && c[o] == '\n') crlf = true; }
	if (zl) vf::add(W_CC_ZERO_LAST_BLOCK);
	if (zi) vf::add(W_CC_ZERO_INNER_BLOCK);
	if (rp) vf::add(W_CC_BLOCK_REPEATED);
	if (cb) vf::add(W_CC_CONST_BLOCK);
	if (cz) vf::add(W_CC_CTRLZ_BLOCK_START);
	if (crlf) vf::add(W_CC_CRLF_ACROSS_BLOCKS);
}
static void rm_tree(const std::string& d) { // no shell: the content-class family makes tens of thousands of scratch trees
	struct stat st;
	if (::lstat(d.c_str(), &st) != 0) return;
	if (!S_ISDIR(st.st_mode)) { ::unlink(d.c_str()); return; }
	std::vector<std::string> names;
	if (DIR* dir = opendir(d.c_str())) { while (dirent* en = readdir(dir)) { std::string n = en->d_name; if (n != "." && n != "..") names.push_back(n); } closedir(dir); }
	for (size_t i = 0; i < names.size(); i++) rm_tree(d + "/" + names[i]);
	::rmdir(d.c_str());
}
struct CopyEnv { std::string root, src, to, final_dst, content, old; bool dst_preexists, holes; };
static bool copy_env(long size, int dest, CopyEnv& e, const std::string* content = 0, bool sparse = false) {
	e.root = wdir() + "/cp";
	rm_tree(e.root);
	mkdir(e.root.c_str(), 0700);
	e.src = e.root + "/src.bin";
	e.content = content ? *content : bin_pattern((size_t)size, 0);
	e.holes = false;
	if (sparse) p_write_sparse(e.src, e.content, &e.holes); else p_write(e.src, e.content);
	e.old = std::string((size_t)size + 1000, 'J');
	e.dst_preexists = false;
	switch (dest) {
	case D_NEW: e.to = e.final_dst = e.root + "/dst.bin"; break;
	case D_EXISTING_LONGER: e.to = e.final_dst = e.root + "/dst.bin"; p_write(e.to, e.old); e.dst_preexists = true; break;
	case D_DIR: e.to = e.root + "/sub"; mkdir(e.to.c_str(), 0700); e.final_dst = e.to + "/src.bin"; break;
	case D_DIR_WITH_SAME_NAME: e.to = e.root + "/sub"; mkdir(e.to.c_str(), 0700); e.final_dst = e.to + "/src.bin"; p_write(e.final_dst, e.old); e.dst_preexists = true; break;
	case D_DEVFULL: e.to = e.final_dst = "/dev/full"; { struct stat st; if (::stat("/dev/full", &st) != 0 || !S_ISCHR(st.st_mode)) return false; } break;
	case D_SAME_PATH: e.to = e.final_dst = e.src; e.dst_preexists = true; break;
	case D_OWN_DIR: e.to = e.root; e.final_dst = e.src; e.dst_preexists = true; break;
	case D_HARDLINK: e.to = e.final_dst = e.root + "/hl.bin"; if (::link(e.src.c_str(), e.to.c_str()) != 0) return false; e.dst_preexists = true; break;
	case D_SYMLINK: e.to = e.final_dst = e.root + "/sl.bin"; if (::symlink("src.bin", e.to.c_str()) != 0) return false; e.dst_preexists = true; break;
	case D_DOT_ALIAS: e.to = e.final_dst = e.root + "/./src.bin"; e.dst_preexists = true; break;
	case D_EX_SAME: case D_EX_LASTDIFF: case D_EX_FIRSTDIFF: case D_EX_MIDDIFF:
		if (size == 0 && dest != D_EX_SAME) return false;
		e.old = e.content;
		if (dest != D_EX_SAME) { size_t at = dest == D_EX_LASTDIFF ? (size_t)size - 1 : dest == D_EX_FIRSTDIFF ? 0 : (size_t)size / 2; e.old[at] = (char)(e.old[at] ^ 0x55); }
		e.to = e.final_dst = e.root + "/dst.bin"; p_write(e.to, e.old); e.dst_preexists = true; break;
	}
	return true;
}
static void check_copy(long size, int dest, int api, int cls = -1, bool sparse = false) {
	std::string kase = cls < 0 ? fmt("copy:%ld:%d:%d", size, dest, api) : fmt("ccc:%d:%ld:%d:%d:%d", cls, size, dest, api, (int)sparse);
	vf::cur(kase);
	vf::asan_clear();
	CopyEnv e;
	std::string ccd, szs = fmt("%ld bytes", size);
	if (cls >= 0) { ccd = cc_content(cls, size); szs = cc_desc(cls, size, sparse); if (sparse && !has_zero_page(ccd)) return; }
	if (!copy_env(size, dest, e, cls >= 0 ? &ccd : 0, sparse)) return;
	bool ok = api == 0 ? Directory::copy(vfx::A(e.src), vfx::A(e.to)) : File(vfx::A(e.src)).copy(vfx::A(e.to));
	vf::add(C_EVAL); vf::add(C_DIST);
	std::string s, d;
	const char* an = api == 0 ? "Directory::copy" : "File::copy";
	if (!p_read(e.src, s) || s != e.content)
		bad(dest_is_source(dest) ? "copy_onto_itself" : "copy_source_changed", fmt("%s of %s to %s: the source no longer holds its content (%s; the call returned %s)", an, szs.c_str(), DEST_NAME[dest], s.empty() ? "it is empty or missing" : firstdiff(s, e.content).c_str(), ok ? "true" : "false"), kase);
	if (dest_is_source(dest)) {
		// the destination is the source: whatever the call answers, the content must still be there (checked above)
		vf::add(W_COPY_ALIAS);
	} else if (dest == D_DEVFULL) {
		vf::add(W_COPY_DEVFULL);
		// nothing can be stored there: a copy that reports success did not preserve the content anywhere but in the source
		if (ok && size > 0) bad("copy_reports_success_on_write_error", fmt("%s of %ld bytes to /dev/full (every write fails with ENOSPC) returned true", an, size), kase);
	} else {
		if (!ok) bad("copy_result", fmt("%s of %s to %s returned false", an, szs.c_str(), DEST_NAME[dest]), kase);
		if (!p_read(e.final_dst, d)) bad("copy_content", fmt("%s of %s to %s: destination %s does not exist", an, szs.c_str(), DEST_NAME[dest], e.final_dst.c_str()), kase);
		else if (d != e.content) bad("copy_content", fmt("%s of %s to %s%s: ", an, szs.c_str(), DEST_NAME[dest], ok ? " returned true" : "") + firstdiff(d, e.content), kase);
		if (cls >= 0) cc_witness(e.content, e.holes, dest, 0);
		if (size > 65536) vf::add(W_COPY_MULTIBLOCK);
		if (size > 0 && size % 65536 == 0) vf::add(W_COPY_EXACT_BLOCK);
		if (dest == D_DIR || dest == D_DIR_WITH_SAME_NAME) vf::add(W_COPY_TO_DIR);
		if (e.dst_preexists) vf::add(W_COPY_OVER_LONGER);
	}
	asan_check("copy", kase);
	rm_tree(e.root);
}
static const int RENAME_ERRNO[] = { 0, EXDEV, EACCES };
static const char* RENAME_NAME[] = { "rename() succeeds", "rename() fails with EXDEV", "rename() fails with EACCES" };
// which rename() answers a real kernel can give for a destination kind
static bool move_case_exists(int dest, int rmode) {
	if (dest == D_DEVFULL) return rmode == 0;   // the real rename() answers EXDEV there by itself
	if (dest == D_SYMLINK) return true;         // the link may live on another file system than the file it names
	if (dest_is_source(dest)) return rmode == 0; // the same directory entry / a hard link is never on another file system
	return true;
}
static void check_move(long size, int dest, int rmode, int api, int cls = -1, bool sparse = false) {
	std::string kase = cls < 0 ? fmt("move:%ld:%d:%d:%d", size, dest, rmode, api) : fmt("ccm:%d:%ld:%d:%d:%d:%d", cls, size, dest, rmode, api, (int)sparse);
	vf::cur(kase);
	vf::asan_clear();
	CopyEnv e;
	if (!move_case_exists(dest, rmode)) return;
	std::string ccd, szs = fmt("%ld bytes", size);
	if (cls >= 0) { ccd = cc_content(cls, size); szs = cc_desc(cls, size, sparse); if (sparse && !has_zero_page(ccd)) return; }
	if (!copy_env(size, dest, e, cls >= 0 ? &ccd : 0, sparse)) return;
	int calls0 = g_rename_calls;
	g_rename_errno = RENAME_ERRNO[rmode];
	bool ok = api == 0 ? Directory::move(vfx::A(e.src), vfx::A(e.to)) : File(vfx::A(e.src)).move(vfx::A(e.to));
	g_rename_errno = 0;
	bool intercepted = g_rename_calls > calls0;
	if (intercepted) vf::add(W_RENAME_INTERCEPTED);
	vf::add(C_EVAL); vf::add(C_DIST);
	const char* an = api == 0 ? "Directory::move" : "File::move";
	std::string what = fmt("%s of %s to %s when %s", an, szs.c_str(), DEST_NAME[dest], RENAME_NAME[rmode]);
	std::string s, d;
	bool src_there = p_read(e.src, s), src_ok = src_there && s == e.content;
	if (dest == D_DEVFULL) {
		vf::add(W_MOVE_DEVFULL);
		if (size == 0) { asan_check("move", kase); rm_tree(e.root); return; } // nothing to lose
		// the destination cannot hold the bytes: the only place where the content can be preserved is the source
		if (!src_ok) bad("move_source_deleted_after_failed_copy", what + " (cross-device fallback; writes to the destination fail with ENOSPC): the source was deleted although the copy failed - the content exists nowhere" + (ok ? " (returned true)" : " (returned false)"), kase);
		else if (ok) bad("move_result", what + " returned true although nothing was moved", kase);
		asan_check("move", kase); rm_tree(e.root); return;
	}
	bool dst_there = p_read(e.final_dst, d), dst_ok = dst_there && d == e.content;
	if (dest_is_source(dest)) {
		// the destination names the source file: the content must afterwards be found under the destination name (true), or still
		// under the source name (false); which names remain is the kernel's business (rename of a file onto itself / its hard link does nothing)
		if (intercepted) { vf::add(W_MOVE_ALIAS); if (rmode == 1) vf::add(W_MOVE_ALIAS_EXDEV); }
		if (!dst_ok && !src_ok) bad("move_onto_itself", what + ": the content is neither under the source nor under the destination name" + (ok ? " (returned true)" : " (returned false)") + (src_there ? "; source: " + firstdiff(s, e.content) : std::string("; source missing")), kase);
		else if (ok && !dst_ok) bad("move_onto_itself", what + " returned true but the destination name does not hold the content", kase);
		asan_check("move", kase); rm_tree(e.root); return;
	}
	// true: the content is under the destination name and the source name is gone (documented: "moves or renames"); false: the content is
	// still under the source name. When rename() is refused (EACCES) the library may give up - then nothing may have changed - or get the
	// file there another way (copy and delete): the statement only asks that the content is preserved.
	if (intercepted) vf::add(rmode == 0 ? W_MOVE_RENAME_OK : rmode == 1 ? W_MOVE_EXDEV : W_MOVE_EACCES);
	if (intercepted && cls >= 0 && rmode != 2) cc_witness(e.content, e.holes, dest, rmode == 0 ? 1 : 2);
	bool dst_untouched = e.dst_preexists ? (dst_there && d == e.old) : !dst_there;
	if (rmode == 2 && !ok && src_ok && dst_untouched) { /* refused, nothing changed */ }
	else if (!dst_ok && !src_ok) bad("move_lost_content", what + ": neither source nor destination holds the content" + (dst_there ? "; destination: " + firstdiff(d, e.content) : std::string("; destination missing")), kase);
	else if (!dst_ok) {
		if (rmode == 2) bad(ok ? "move_result" : "move_content", what + (ok ? " returned true but the destination does not hold the content" : ": the destination was modified although the move was refused"), kase);
		else bad("move_content", what + ": " + (dst_there ? "destination differs: " + firstdiff(d, e.content) : std::string("destination missing, source untouched")) + (ok ? " (returned true)" : ""), kase);
	} else {
		// a copy at the destination with the source kept and the answer false (e.g. the source could not be deleted) loses nothing and says so
		if (src_there && ok) bad("move_source_left", what + " returned true: destination written but the source still exists", kase);
		else if (!src_there && !ok) bad("move_reports_failure_after_moving", what + ": the file was moved (destination holds the content, source is gone) but the call returned false", kase);
	}
	asan_check("move", kase);
	rm_tree(e.root);
}
// ---- a source that cannot be read (to the end)
// (1) the k-th fread() of the copy loop fails with a kernel error (interposed, see the top of the file): the destination cannot be
//     complete, so copy must not answer true, and the cross-device fallback of move must keep the source
static void check_readfault(long size, int dest, int api, int k, bool move) {
	std::string kase = fmt("%s:%ld:%d:%d:%d", move ? "moverf" : "copyrf", size, dest, api, k);
	vf::cur(kase);
	vf::asan_clear();
	CopyEnv e;
	if (!copy_env(size, dest, e)) return;
	int faults0 = g_fread_faults;
	g_fread_calls = 0; g_fread_fail_at = k;
	if (move) g_rename_errno = EXDEV;
	bool ok;
	if (move) ok = api == 0 ? Directory::move(vfx::A(e.src), vfx::A(e.to)) : File(vfx::A(e.src)).move(vfx::A(e.to));
	else ok = api == 0 ? Directory::copy(vfx::A(e.src), vfx::A(e.to)) : File(vfx::A(e.src)).copy(vfx::A(e.to));
	g_fread_fail_at = 0; g_rename_errno = 0;
	vf::add(C_EVAL); vf::add(C_DIST);
	if (g_fread_faults == faults0) { asan_check("copy with a read error", kase); rm_tree(e.root); return; } // the loop ended before call k (no witness)
	vf::add(W_FREAD_FAULT); vf::add(move ? W_MOVE_READ_FAULT : W_COPY_READ_FAULT);
	const char* an = move ? (api == 0 ? "Directory::move" : "File::move") : (api == 0 ? "Directory::copy" : "File::copy");
	std::string what = fmt("%s of %ld bytes to %s%s when read call %d on the source fails (EISDIR from the kernel, error indicator set)", an, size, DEST_NAME[dest], move ? " (rename() answers EXDEV: copy and delete)" : "", k);
	std::string s, d;
	bool src_there = p_read(e.src, s), src_ok = src_there && s == e.content;
	bool dst_there = p_read(e.final_dst, d), dst_ok = dst_there && d == e.content;
	if (!move) {
		if (!src_ok) bad("copy_source_changed", what + ": the source no longer holds its content", kase);
		if (ok && !dst_ok) bad("copy_read_error_ignored", what + ": returned true, but the destination " + (dst_there ? "is not the content: " + firstdiff(d, e.content) : std::string("does not exist")) + " - the read error was taken for the end of the file", kase);
	} else {
		if (!src_ok && !dst_ok) bad("move_read_error_lost_content", what + ": the source was deleted although the copy is incomplete - the content exists nowhere (returned " + (ok ? "true" : "false") + "; destination " + (dst_there ? firstdiff(d, e.content) : std::string("missing")) + ")", kase);
		else if (ok && !dst_ok) bad("move_read_error_lost_content", what + ": returned true but the destination does not hold the content", kase);
	}
	asan_check("copy with a read error", kase);
	rm_tree(e.root);
}
// (2) sources whose very first read fails without any interposition: /proc/self/mem (EIO at offset 0), a directory (EISDIR)
enum { SRC_PROCMEM, SRC_DIRECTORY, NBADSRC };
static const char* BADSRC_NAME[] = { "/proc/self/mem (read at offset 0 fails with EIO)", "a directory (fopen succeeds, read fails with EISDIR)" };
static void check_badsource(int kind, int dest, int api) {
	std::string kase = fmt("copysrc:%d:%d:%d", kind, dest, api);
	vf::cur(kase);
	vf::asan_clear();
	CopyEnv e;
	if (!copy_env(1, dest, e)) return;
	std::string from = kind == SRC_PROCMEM ? std::string("/proc/self/mem") : e.root + "/srcdir";
	if (kind == SRC_DIRECTORY) mkdir(from.c_str(), 0700);
	{ // the oracle's own look: open works, read fails
		int fd = ::open(from.c_str(), O_RDONLY); char c;
		bool unreadable = fd >= 0 && ::read(fd, &c, 1) < 0;
		if (fd >= 0) ::close(fd);
		if (!unreadable) { rm_tree(e.root); return; }
	}
	bool ok = api == 0 ? Directory::copy(vfx::A(from), vfx::A(e.to)) : File(vfx::A(from)).copy(vfx::A(e.to));
	vf::add(C_EVAL); vf::add(C_DIST); vf::add(W_COPY_UNREADABLE_SOURCE);
	if (ok) bad("copy_read_error_ignored", fmt("%s from %s to %s returned true: not one byte of the source could be read", api == 0 ? "Directory::copy" : "File::copy", BADSRC_NAME[kind], DEST_NAME[dest]), kase);
	asan_check("copy from an unreadable source", kase);
	rm_tree(e.root);
}

// ---------------------------------------------------------------- (f) histories on one path
enum { HIST_LONG_PIECE = 4200 }; // filler characters of the long piece
struct HistSys {
	enum Mode { CL, RD, WR, AP, RW };
	enum K { FW_PUT, FW_FWRITE, FW_FSTREAM_S, FW_FSTREAM_C, FW_TPUT, FW_TAPPEND, FW_TSTREAM, FW_FAPPEND,
		F_OPEN_W, F_OPEN_A, F_OPEN_R, F_CLOSE, F_FLUSH, F_PUT, F_APPEND, F_STREAM, F_WRITEP, F_BPUT,
		F_CONTENT, F_TEXT, F_LINES, F_SIZE, F_FIRST, F_READLOOP, F_READ, F_READLINE, F_SEEK0, F_OPEN_RW };
	struct Op { int k, a; };
	std::vector<Op> ops;
	std::vector<std::string> pieces;
	TextFile* F;
	std::string path;
	// model. cached/csize: f.size(), content() or text() asked the file system for the size when the file had csize bytes (an
	// implementation may keep that answer until close()); rwlast: last transfer on a read+write handle (0 none/positioned, 1 read, 2 write)
	std::string L; bool exists; int mode; bool cached; size_t csize; size_t pos; int eof; bool flushed; int rwlast;
	// eof: what end() has to answer. 0 false: bytes (or the empty line behind the last LF) are still to come - the documented loop
	// while(!f.end()) must go on; 1 true: a read came up short / the last line was delivered - that loop must stop; 2 not determined:
	// after a read of exactly the bytes that were left, and after the one-shot readers content() / text() / lines() / firstBytes(k >= size)
	// (which may read to the end in one exact request, in blocks until a short one, or clamp k): nothing is said about end() there
	enum { EOF_NO, EOF_YES, EOF_ANY };
	// The search is level-synchronous: every history of a level is one stored history h plus one op, and h itself was run (and observed
	// after its last step) one level earlier. Observations do not touch the long-lived object, so while a level is expanded only the
	// state after the new op is observed; predict() is called exactly there (after h was replayed, before h+op runs). Replays of a case
	// string and confirmation runs never call predict(): they observe after every step.
	int steps; int observe_at;

	HistSys() : F(0), exists(false), mode(CL), cached(false), csize(0), pos(0), eof(EOF_NO), flushed(true), rwlast(0), steps(0), observe_at(-1) {
		pieces.push_back("");
		pieces.push_back("\xbf"); // one byte; completes the partial BOM below to EF BB BF
		pieces.push_back("bc\n");
		pieces.push_back("d\r\ne\r");
		pieces.push_back(std::string(254, 'x'));
		{ std::string s = "\n"; for (int i = 0; i < HIST_LONG_PIECE; i++) s += fillc((size_t)i); s += "\r\n"; pieces.push_back(s); }
		pieces.push_back(std::string("\x00\x01\xff\n\r\x00", 6));
		pieces.push_back("\xef\xbb"); // partial UTF-8 BOM: text() must rewind and return it
		int np = (int)pieces.size();
		int wk[] = { FW_PUT, FW_FWRITE, FW_FSTREAM_S, FW_FSTREAM_C, FW_TPUT, FW_TAPPEND, FW_TSTREAM, FW_FAPPEND };
		for (size_t i = 0; i < sizeof wk / sizeof *wk; i++) for (int p = 0; p < np; p++) { if (wk[i] == FW_FSTREAM_C && has_nul(pieces[p])) continue; add(wk[i], p); }
		add(F_OPEN_W); add(F_OPEN_A); add(F_OPEN_R); add(F_CLOSE); add(F_FLUSH);
		int fk[] = { F_PUT, F_APPEND, F_STREAM, F_WRITEP, F_BPUT };
		for (size_t i = 0; i < sizeof fk / sizeof *fk; i++) for (int p = 0; p < np; p++) add(fk[i], p);
		add(F_CONTENT); add(F_TEXT); add(F_LINES); add(F_SIZE); add(F_FIRST, 1); add(F_FIRST, 300); add(F_READLOOP);
		add(F_READ, 1); add(F_READ, 100); add(F_READ, 1000); add(F_READLINE); add(F_SEEK0);
		add(F_OPEN_RW); // appended last: the op numbers of older case strings stay valid
	}
	void add(int k, int a = 0) { Op o = { k, a }; ops.push_back(o); }
	int nops() { return (int)ops.size(); }
	void reset() {
		delete F; F = 0;
		if (!path.empty()) ::unlink(path.c_str());
		path = wdir() + "/h.txt";
		::unlink(path.c_str());
		std::string().swap(L);
		exists = false; mode = CL; cached = false; csize = 0; pos = 0; eof = EOF_NO; flushed = true; rwlast = 0; steps = 0;
		F = new TextFile(vfx::A(path));
	}
	bool pristine() const { return mode == CL && !cached; }
	bool writing() const { return mode == WR || mode == AP || mode == RW; }
	static bool bom16(const std::string& s) { return s.size() >= 2 && (((unsigned char)s[0] == 0xff && (unsigned char)s[1] == 0xfe) || ((unsigned char)s[0] == 0xfe && (unsigned char)s[1] == 0xff)); }
	// what text() has to return for raw content s: a UTF-8 BOM is not part of the text
	static std::string as_text(const std::string& s) { return starts_with_bom(s) && !bom16(s) ? s.substr(3) : s; }
	bool enabled(int op) {
		const Op& o = ops[op];
		bool fresh_read = mode == CL || (mode == RD && pos == 0 && eof == EOF_NO);
		switch (o.k) {
		case FW_PUT: case FW_FWRITE: case FW_FSTREAM_S: case FW_FSTREAM_C: case FW_TPUT: case FW_TAPPEND: case FW_TSTREAM: case FW_FAPPEND:
			return pristine(); // a second object writes only while the long-lived one holds neither a handle nor cached stat data
		case F_OPEN_W: case F_OPEN_A: return true; // also on an open object: the handle it holds is closed first, nothing written through it is lost
		case F_OPEN_R: case F_OPEN_RW: return exists;
		case F_CLOSE: return mode != CL || cached;
		case F_FLUSH: return writing() && !flushed;
		case F_PUT: case F_WRITEP: if (mode == RW) return rwlast != 1; // C: no output directly after input without a positioning call
			return o.k == F_PUT ? (mode == CL || mode == WR || mode == AP) : (mode == WR || mode == AP);
		case F_APPEND: case F_STREAM: case F_BPUT: return mode == CL || mode == WR || mode == AP;
		case F_CONTENT: case F_FIRST: return exists && fresh_read;
		case F_TEXT: return exists && fresh_read && !bom16(L);
		case F_LINES: case F_READLOOP: return exists && fresh_read && !has_nul(L);
		case F_SIZE: return exists && (mode == CL || mode == RD || flushed); // of a writing object: once its bytes are flushed
		case F_READ: return mode == RD || (mode == RW && rwlast != 2);
		case F_SEEK0: return mode == RD || mode == RW;
		case F_READLINE: return mode == RD && !has_nul(L);
		}
		return false;
	}
	// defect classes the unchanged library is known to hit: the failing steps are reported under these exact signatures
	const char* predict(int op) {
		const Op& o = ops[op];
		observe_at = steps + 1;
		if ((o.k == F_OPEN_W || o.k == F_OPEN_A || o.k == F_OPEN_R || o.k == F_OPEN_RW) && mode != CL) return "open_without_close";
		if ((o.k == F_SIZE || o.k == F_CONTENT || o.k == F_TEXT) && cached && csize != L.size()) return "stale_cached_size";
		return 0;
	}
	std::string pname(int a) { const std::string& p = pieces[a]; return p.size() <= 6 ? "\"" + vf::hex(p) + "\"h" : fmt("<%d bytes %s..>", (int)p.size(), vf::hex(p.substr(0, 3)).c_str()); }
	std::string opname(int op) {
		const Op& o = ops[op];
		switch (o.k) {
		case FW_PUT: return "File(p).put(" + pname(o.a) + ")";
		case FW_FWRITE: return "{File g(p,WRITE); g.write(" + pname(o.a) + ")}";
		case FW_FSTREAM_S: return "{File g(p,WRITE); g << String " + pname(o.a) + "}";
		case FW_FSTREAM_C: return "{File g(p,WRITE); g << (const char*)" + pname(o.a) + "}";
		case FW_TPUT: return "TextFile(p).put(" + pname(o.a) + ")";
		case FW_TAPPEND: return "TextFile(p).append(" + pname(o.a) + ")";
		case FW_TSTREAM: return "TextFile(p) << " + pname(o.a);
		case FW_FAPPEND: return "{File g(p,APPEND); g.write(" + pname(o.a) + ")}";
		case F_OPEN_W: return "f.open(WRITE)";
		case F_OPEN_A: return "f.open(APPEND)";
		case F_OPEN_R: return "f.open(READ)";
		case F_OPEN_RW: return "f.open(RW)";
		case F_CLOSE: return "f.close()";
		case F_FLUSH: return "f.flush()";
		case F_PUT: return "f.put(String " + pname(o.a) + ")";
		case F_APPEND: return "f.append(" + pname(o.a) + ")";
		case F_STREAM: return "f << " + pname(o.a);
		case F_WRITEP: return "f.File::write(ptr " + pname(o.a) + ")";
		case F_BPUT: return "f.File::put(bytes " + pname(o.a) + ")";
		case F_CONTENT: return "f.content()";
		case F_TEXT: return "f.text()";
		case F_LINES: return "f.lines()";
		case F_SIZE: return "f.size()";
		case F_FIRST: return fmt("f.firstBytes(%d)", o.a);
		case F_READLOOP: return "while(!f.end()) f.readLine()";
		case F_READ: return fmt("f.read(buf,%d)", o.a);
		case F_READLINE: return "f.readLine()";
		case F_SEEK0: return "f.seek(0)";
		}
		return "?";
	}
	void wrote(const std::string& p) {
		if (p.empty()) return;
		if (mode == RW) { // overwrites from the current offset, extends behind the end
			if (pos + p.size() > L.size()) vf::add(W_H_RW_EXTEND);
			L.replace(pos, std::min(p.size(), L.size() - pos), p); pos += p.size(); rwlast = 2; vf::add(W_H_RW_OVERWRITE);
		} else {
			if (!L.empty() && L[L.size() - 1] == '\r' && p[0] == '\n') vf::add(W_H_CR_LF_ACROSS_WRITES);
			L += p;
		}
		flushed = false;
		if (L.size() > 4096) vf::add(W_H_OVER_STDIO_BUFFER);
		if (starts_with_bom(L)) vf::add(W_H_BOM_LED);
	}
	// open() on an object that holds a handle: that handle is closed, so everything written through it is in the file
	void reopened() { if (mode != CL) { vf::add(W_H_OPEN_WHILE_OPEN); if (!flushed) vf::add(W_H_OPEN_WHILE_UNFLUSHED); } flushed = true; pos = 0; eof = EOF_NO; rwlast = 0; }
	bool apply(int op, std::string& err) {
		const Op& o = ops[op];
		const std::string& pc = pieces[(o.k <= FW_FAPPEND || (o.k >= F_PUT && o.k <= F_BPUT)) ? o.a : 0];
		String P = vfx::A(path);
		switch (o.k) {
		case FW_PUT: { std::string e = do_write(WR_FPUT, path, pc); if (!e.empty()) { err = e; return false; } L = pc; exists = true; break; }
		case FW_FWRITE: { std::string e = do_write(WR_FWRITE, path, pc); if (!e.empty()) { err = e; return false; } L = pc; exists = true; break; }
		case FW_FSTREAM_S: { std::string e = do_write(WR_FSTREAM_S, path, pc); if (!e.empty()) { err = e; return false; } L = pc; exists = true; break; }
		case FW_FSTREAM_C: { std::string e = do_write(WR_FSTREAM_C, path, pc); if (!e.empty()) { err = e; return false; } L = pc; exists = true; break; }
		case FW_TPUT: { std::string e = do_write(WR_TPUT, path, pc); if (!e.empty()) { err = e; return false; } L = pc; exists = true; break; }
		case FW_TSTREAM: { std::string e = do_write(WR_TSTREAM_S, path, pc); if (!e.empty()) { err = e; return false; } L = pc; exists = true; break; }
		case FW_TAPPEND: { std::string e = do_write(WR_TAPPEND, path, pc); if (!e.empty()) { err = e; return false; } if (exists) vf::add(W_H_APPEND_OPEN); L += pc; exists = true; break; }
		case FW_FAPPEND: { File g(P, File::APPEND); if (!g) { err = "File(p, APPEND) not open"; return false; } int m = g.write(pc.data(), (int)pc.size()); if (m != (int)pc.size()) { err = "write() count"; return false; } L += pc; exists = true; break; }
		case F_OPEN_W: reopened(); if (!F->open(File::WRITE)) { err = "open(WRITE) returned false"; return false; } std::string().swap(L); exists = true; mode = WR; break;
		case F_OPEN_A: reopened(); if (!F->open(File::APPEND)) { err = "open(APPEND) returned false"; return false; } exists = true; mode = AP; break;
		case F_OPEN_R: reopened(); if (!F->open(File::READ)) { err = "open(READ) returned false"; return false; } mode = RD; break;
		case F_OPEN_RW: reopened(); if (!F->open(File::RW)) { err = "open(RW) returned false"; return false; } mode = RW; break;
		case F_CLOSE: F->close(); mode = CL; cached = false; pos = 0; eof = EOF_NO; flushed = true; rwlast = 0; break;
		case F_FLUSH: F->flush(); flushed = true; rwlast = 0; break;
		case F_PUT: case F_STREAM: case F_BPUT: {
			if (cached) vf::add(W_H_CACHED_SIZE_THEN_WRITE);
			bool ok = true;
			if (o.k == F_PUT) ok = F->put(vfx::A(pc)); else if (o.k == F_STREAM) *F << vfx::A(pc); else ok = F->File::put(BA(pc));
			if (!ok) { err = "put() returned false"; return false; }
			if (mode == CL) { std::string().swap(L); mode = WR; exists = true; flushed = true; }
			wrote(pc);
			break; }
		case F_APPEND: {
			if (cached) vf::add(W_H_CACHED_SIZE_THEN_WRITE);
			if (!F->append(vfx::A(pc))) { err = "append() returned false"; return false; }
			if (mode == CL) { if (exists) vf::add(W_H_APPEND_OPEN); mode = AP; exists = true; flushed = true; }
			wrote(pc);
			break; }
		case F_WRITEP: { int m = F->File::write(pc.data(), (int)pc.size()); if (m != (int)pc.size()) { err = fmt("write(ptr,%d) returned %d", (int)pc.size(), m); return false; } wrote(pc); break; }
		case F_CONTENT: { if (cached && csize != L.size()) vf::add(W_H_SIZE_CACHE_OUTDATED); ByteArray c = F->content(); if (SB(c) != L) { err = "f.content(): " + firstdiff(SB(c), L); return false; } mode = RD; pos = L.size(); eof = EOF_ANY; cached = true; csize = L.size(); vf::add(W_H_REUSED_OBJECT_READ); break; }
		case F_TEXT: {
			if (cached && csize != L.size()) vf::add(W_H_SIZE_CACHE_OUTDATED);
			String t = F->text(); std::string e = as_text(L);
			if (vfx::S(t) != e) { err = "f.text(): " + firstdiff(vfx::S(t), e); return false; }
			mode = RD; pos = L.size(); eof = EOF_ANY;
			cached = true; csize = L.size(); vf::add(W_H_REUSED_OBJECT_READ); break; }
		case F_LINES: case F_READLOOP: {
			std::vector<std::string> ref = ref_lines(L), got;
			if (o.k == F_LINES) { Array<String> a = F->lines(); for (int i = 0; i < a.length(); i++) got.push_back(vfx::S(a[i])); }
			else { int guard = (int)ref.size() + 5; while (!F->end() && guard-- > 0) got.push_back(vfx::S(F->readLine())); }
			if (got != ref) { size_t i = 0; while (i < got.size() && i < ref.size() && got[i] == ref[i]) i++; err = fmt("%s gave %d lines, reference %d; first differing line %d", o.k == F_LINES ? "f.lines()" : "readLine loop", (int)got.size(), (int)ref.size(), (int)i) + (i < got.size() && i < ref.size() ? ": " + firstdiff(got[i], ref[i]) : std::string()); return false; }
			mode = RD; pos = L.size(); eof = o.k == F_READLOOP ? EOF_YES : EOF_ANY; vf::add(W_H_REUSED_OBJECT_READ); // the loop above ended because end() said so
			break; }
		case F_SIZE: {
			if (writing()) vf::add(W_H_SIZE_WHILE_WRITING);
			if (cached && csize != L.size()) vf::add(W_H_SIZE_CACHE_OUTDATED);
			Long s = F->size(); if (s != (Long)L.size()) { err = fmt("f.size() = %lld, %d bytes were written", (long long)s, (int)L.size()); return false; } cached = true; csize = L.size(); break; }
		case F_FIRST: { ByteArray c = F->firstBytes(o.a); std::string e = L.substr(0, (size_t)o.a); if (SB(c) != e) { err = fmt("f.firstBytes(%d): ", o.a) + firstdiff(SB(c), e); return false; } mode = RD; pos = e.size(); eof = (size_t)o.a < L.size() ? EOF_NO : EOF_ANY; break; }
		case F_READ: { std::string buf((size_t)o.a, 0); int r = F->read(&buf[0], o.a); std::string e = L.substr(pos, (size_t)o.a); if (r != (int)e.size() || buf.substr(0, (size_t)std::max(r, 0)) != e) { err = fmt("f.read(buf,%d) at offset %d returned %d: ", o.a, (int)pos, r) + firstdiff(buf.substr(0, (size_t)std::max(r, 0)), e); return false; } if ((size_t)o.a > L.size() - pos) eof = EOF_YES; else if ((size_t)o.a == L.size() - pos) eof = EOF_ANY; pos += e.size(); vf::add(W_H_STREAM_READ); if (mode == RW) { rwlast = 1; vf::add(W_H_RW_READ); } break; }
		case F_READLINE: {
			String s = F->readLine();
			size_t q = L.find('\n', pos);
			std::string e;
			if (q == std::string::npos) { e = L.substr(pos); pos = L.size(); eof = EOF_YES; }
			else { size_t en = q; if (en > pos && L[en - 1] == '\r') en--; e = L.substr(pos, en - pos); pos = q + 1; }
			if (vfx::S(s) != e) { err = "f.readLine(): " + firstdiff(vfx::S(s), e); return false; }
			vf::add(W_H_STREAM_READ);
			break; }
		case F_SEEK0: F->seek(0); pos = 0; eof = EOF_NO; if (mode == RW) { flushed = true; rwlast = 0; } break; // positioning writes the buffered bytes out
		}
		steps++;
		if (observe_at >= 0 && steps != observe_at) return true;
		return observe(err);
	}
	bool observe(std::string& err) {
		if (mode == RD || mode == RW) {
			bool e = F->end();
			if (e) vf::add(W_H_EOF_SEEN);
			if (eof != EOF_ANY && e != (eof == EOF_YES)) { err = fmt("f.end() = %d, expected %d (offset %d of %d)", (int)e, (int)eof, (int)pos, (int)L.size()); return false; }
		}
		if (!exists) return true;
		if (mode == CL || mode == RD || flushed) {
			std::string disk;
			if (!p_read(path, disk)) { err = "file does not exist"; return false; }
			if (disk != L) { err = "bytes on disk (POSIX read): " + firstdiff(disk, L); return false; }
		}
		if (mode == CL || mode == RD) { // independent fresh objects see exactly what was written
			String P = vfx::A(path);
			{ Long s = File(P).size(); if (s != (Long)L.size()) { err = fmt("File(p).size() = %lld, %d bytes were written", (long long)s, (int)L.size()); return false; } }
			{ ByteArray c = File(P).content(); if (SB(c) != L) { err = "File(p).content(): " + firstdiff(SB(c), L); return false; } }
			{ ByteArray c = File(P).firstBytes(2); if (SB(c) != L.substr(0, 2)) { err = "File(p).firstBytes(2): " + firstdiff(SB(c), L.substr(0, 2)); return false; } }
			if (!bom16(L)) { String t = TextFile(P).text(); if (vfx::S(t) != as_text(L)) { err = "TextFile(p).text(): " + firstdiff(vfx::S(t), as_text(L)); return false; } }
			if (!has_nul(L)) {
				std::vector<std::string> ref = ref_lines(L), got;
				Array<String> a = TextFile(P).lines();
				for (int i = 0; i < a.length(); i++) got.push_back(vfx::S(a[i]));
				if (got != ref) { err = fmt("TextFile(p).lines() gave %d lines, reference %d", (int)got.size(), (int)ref.size()); return false; }
			}
		}
		return true;
	}
	std::string canon() {
		// model state + the implementation state the model does not define (handle present, cached stat size): merging is sound only if these agree
		// (where the model leaves end() open, the flag the implementation really holds is part of the state; _info is a private field, read
		// only to keep states with different cached stat data apart - never compared)
		bool open_now = !!*F;
		int ef = eof != EOF_ANY ? eof : (open_now && (mode == RD || mode == RW)) ? 2 + (int)F->File::end() : 2;
		return fmt("%d|%d|%d|%d|%d|%d|r%d|h%d|i%lld|", (int)exists, mode, (int)cached, (int)(mode == RD || mode == RW ? pos : 0), ef, (int)flushed, rwlast, (int)open_now, (long long)F->_info.size) + L;
	}
};

// ---------------------------------------------------------------- python cross-check of the two references
static bool python_crosscheck(int bomlen) {
	std::string fn = vf::scratch_dir() + "/ref_in.txt";
	FILE* f = fopen(fn.c_str(), "w");
	if (!f) return false;
	uint64_t n = 0;
	for (int enc = 0; enc < 3; enc++) for (int len = 0; len <= bomlen; len++) {
		int cnt = 1; for (int i = 0; i < len; i++) cnt *= NSCALAR;
		for (int idx = 0; idx < cnt; idx++) { std::string raw, ex; bom_build(enc, bom_seq(len, idx), raw, ex); fprintf(f, "B %d -%s -%s\n", enc, vf::hex(raw).c_str(), vf::hex(ex).c_str()); n++; }
	}
	// the second BOM family: every sequence at every repetition count but the largest; the largest for sequences of <= 1 scalar
	for (int enc = 0; enc < 3; enc++) for (int len = 0; len <= 2; len++) for (int ri = 0; ri < NBOMX_REP; ri++) {
		if (BOMX_REPS[ri] > 100 && len > 1) continue;
		int cnt = 1; for (int i = 0; i < len; i++) cnt *= NSCALAR_X;
		for (int idx = 0; idx < cnt; idx++) { std::string raw, ex; bom_build(enc, bomx_seq(len, idx, BOMX_REPS[ri]), raw, ex); fprintf(f, "B %d -%s -%s\n", enc, vf::hex(raw).c_str(), vf::hex(ex).c_str()); n++; }
	}
	std::vector<std::string> texts = special_texts();
	for (int li = 0; li < NLEN_ALL && LEN_TABLE[li] <= 5000; li++) for (int sh = 0; sh < NSHAPE; sh++) for (int ki = 0; ki < NK; ki++) texts.push_back(make_text(LEN_TABLE[li], sh, K_TABLE[ki]));
	for (int nn = 0; nn <= 600; nn += 1) for (int eol = 0; eol < NEOL; eol++) texts.push_back(make_line_text(nn, eol, nn % NPOS, nn % NFILL));
	for (size_t i = 0; i < texts.size(); i++) {
		std::vector<std::string> r = ref_lines(texts[i]);
		fprintf(f, "S -%s", vf::hex(texts[i]).c_str());
		for (size_t j = 0; j < r.size(); j++) fprintf(f, " -%s", vf::hex(r[j]).c_str());
		fprintf(f, "\n"); n++;
	}
	fclose(f);
	std::string cmd = "python3 /verif/tools/ref_c17.py '" + fn + "' 2>&1";
	FILE* p = popen(cmd.c_str(), "r");
	if (!p) return false;
	std::string out; char buf[512];
	while (fgets(buf, sizeof buf, p)) out += buf;
	int rc = pclose(p);
	::unlink(fn.c_str());
	while (!out.empty() && out[out.size() - 1] == '\n') out.resize(out.size() - 1);
	vf::setinfo("python_cross_check", vf::jstr(out.size() > 1000 ? out.substr(out.size() - 1000) : out));
	if (rc != 0) { fprintf(stderr, "HARNESS ERROR: C++ references disagree with python3 (codecs / bytes.split):\n%s\n", out.c_str()); return false; }
	vf::add(C_PYCHK, n);
	return true;
}

// ---------------------------------------------------------------- case replay
static bool late(const char* phase) { if (!vf::deadline_passed()) return false; vf::cap_hit(std::string("deadline before phase: ") + phase); return true; }
static std::string table_text(int li, int sh, int ki) { return make_text(LEN_TABLE[li], sh, K_TABLE[ki]); }
static void run_case(const std::string& k) {
	if (k.compare(0, 3, "rw:") == 0) { int li, sh, ki, w; if (sscanf(k.c_str() + 3, "%d:%d:%d:%d", &li, &sh, &ki, &w) == 4) check_rw(table_text(li, sh, ki), w, k); }
	else if (k.compare(0, 4, "rws:") == 0) { int i, w; if (sscanf(k.c_str() + 4, "%d:%d", &i, &w) == 2) check_rw(special_texts()[(size_t)i], w, k); }
	else if (k.compare(0, 5, "line:") == 0) { int n, e, p, f; if (sscanf(k.c_str() + 5, "%d:%d:%d:%d", &n, &e, &p, &f) == 4) check_line(n, e, p, f); }
	else if (k.compare(0, 5, "bomx:") == 0) { int e, l, i, r, v; if (sscanf(k.c_str() + 5, "%d:%d:%d:%d:%d", &e, &l, &i, &r, &v) == 5) check_bomx(e, l, i, r, v); }
	else if (k.compare(0, 7, "copyrf:") == 0 || k.compare(0, 7, "moverf:") == 0) { long s; int d, a, kk; if (sscanf(k.c_str() + 7, "%ld:%d:%d:%d", &s, &d, &a, &kk) == 4) check_readfault(s, d, a, kk, k[0] == 'm'); }
	else if (k.compare(0, 8, "copysrc:") == 0) { int sk, d, a; if (sscanf(k.c_str() + 8, "%d:%d:%d", &sk, &d, &a) == 3) check_badsource(sk, d, a); }
	else if (k.compare(0, 4, "bom:") == 0) { int e, l, i, v; if (sscanf(k.c_str() + 4, "%d:%d:%d:%d", &e, &l, &i, &v) == 4) check_bom(e, l, i, v); }
	else if (k.compare(0, 4, "bin:") == 0) { long s; int p, w; if (sscanf(k.c_str() + 4, "%ld:%d:%d", &s, &p, &w) == 3) check_bin(s, p, w); }
	else if (k.compare(0, 4, "ccr:") == 0) { int c, w; long s; if (sscanf(k.c_str() + 4, "%d:%ld:%d", &c, &s, &w) == 3 && c >= 0 && c < NCC) check_cc_read(c, s, w); }
	else if (k.compare(0, 4, "ccc:") == 0) { int c, d, a, sp; long s; if (sscanf(k.c_str() + 4, "%d:%ld:%d:%d:%d", &c, &s, &d, &a, &sp) == 5 && c >= 0 && c < NCC) check_copy(s, d, a, c, sp != 0); }
	else if (k.compare(0, 4, "ccm:") == 0) { int c, d, r, a, sp; long s; if (sscanf(k.c_str() + 4, "%d:%ld:%d:%d:%d:%d", &c, &s, &d, &r, &a, &sp) == 6 && c >= 0 && c < NCC) check_move(s, d, r, a, c, sp != 0); }
	else if (k.compare(0, 5, "copy:") == 0) { long s; int d, a; if (sscanf(k.c_str() + 5, "%ld:%d:%d", &s, &d, &a) == 3) check_copy(s, d, a); }
	else if (k.compare(0, 5, "move:") == 0) { long s; int d, r, a; if (sscanf(k.c_str() + 5, "%ld:%d:%d:%d", &s, &d, &r, &a) == 4) check_move(s, d, r, a); }
}

static double cpu_s() {
	double t = 0; struct rusage ru; int who[] = { RUSAGE_SELF, RUSAGE_CHILDREN };
	for (int i = 0; i < 2; i++) if (getrusage(who[i], &ru) == 0) t += ru.ru_utime.tv_sec + ru.ru_stime.tv_sec + (ru.ru_utime.tv_usec + ru.ru_stime.tv_usec) / 1e6;
	return t;
}
int main(int argc, char** argv) {
	vf::init(argc, argv, "C17", "c17_files");
	C_EVAL = vf::counter("evaluations"); C_DIST = vf::counter("distinct_nontrivial");
	int cS = vf::counter("states"), cT = vf::counter("transitions"), cTr = vf::counter("traces");
	C_PYCHK = vf::counter("reference_records_cross_checked_with_python");
	W_CHUNK_EXACT = vf::counter("w.line_of_exact_multiple_of_254"); W_CHUNK_MULTI = vf::counter("w.line_longer_than_one_fgets_chunk"); W_CRLF_SPLIT_BY_CHUNK = vf::counter("w.crlf_split_by_chunk_boundary");
	W_NOFINAL = vf::counter("w.no_final_newline"); W_EMPTY_FILE = vf::counter("w.empty_file"); W_LONE_CR_KEPT = vf::counter("w.lone_cr_in_text"); W_HEAP_REALLOC_LINE = vf::counter("w.line_over_1016_bytes_string_realloc");
	W_BOM8 = vf::counter("w.bom_utf8"); W_BOM16LE = vf::counter("w.bom_utf16le"); W_BOM16BE = vf::counter("w.bom_utf16be"); W_SURROGATE = vf::counter("w.utf16_surrogate_pair"); W_FOLD16 = vf::counter("w.utf16_crlf_folded"); W_PARTIAL_BOM = vf::counter("w.partial_bom_prefix_binary");
	W_COPY_MULTIBLOCK = vf::counter("w.copy_more_than_one_64k_block"); W_COPY_EXACT_BLOCK = vf::counter("w.copy_exact_multiple_of_64k"); W_COPY_TO_DIR = vf::counter("w.copy_into_directory"); W_COPY_OVER_LONGER = vf::counter("w.copy_over_longer_file");
	W_RENAME_INTERCEPTED = vf::counter("w.rename_intercepted"); W_MOVE_RENAME_OK = vf::counter("w.move_by_rename"); W_MOVE_EXDEV = vf::counter("w.move_exdev_fallback"); W_MOVE_EACCES = vf::counter("w.move_refused_eacces"); W_MOVE_DEVFULL = vf::counter("w.move_to_full_device");
	W_APPEND_EXISTING = vf::counter("w.append_to_existing"); W_TRUNCATE_EXISTING = vf::counter("w.overwrite_longer_existing"); W_READ_SHORT = vf::counter("w.read_beyond_end_short_count"); W_BIG = vf::counter("w.content_1MiB_or_more");
	W_H_REUSED_OBJECT_READ = vf::counter("w.hist_one_shot_read_through_long_lived_object"); W_H_CACHED_SIZE_THEN_WRITE = vf::counter("w.hist_write_after_cached_size"); W_H_APPEND_OPEN = vf::counter("w.hist_append_to_existing");
	W_H_STREAM_READ = vf::counter("w.hist_stream_read_steps"); W_H_EOF_SEEN = vf::counter("w.hist_end_true_observed"); W_H_CR_LF_ACROSS_WRITES = vf::counter("w.hist_cr_and_lf_from_different_writes");
	C_REPEATS = vf::counter("repeats_of_a_listed_violation_not_listed_again");
	W_COPY_ALIAS = vf::counter("w.copy_destination_is_the_source"); W_MOVE_ALIAS = vf::counter("w.move_destination_is_the_source"); W_MOVE_ALIAS_EXDEV = vf::counter("w.move_exdev_through_link_to_source");
	W_COPY_DEVFULL = vf::counter("w.copy_to_full_device"); W_FREAD_FAULT = vf::counter("w.fread_fault_delivered"); W_COPY_READ_FAULT = vf::counter("w.copy_source_read_error"); W_MOVE_READ_FAULT = vf::counter("w.move_exdev_source_read_error");
	W_COPY_UNREADABLE_SOURCE = vf::counter("w.copy_from_unreadable_source");
	W_INFO_FROM_LISTING = vf::counter("w.read_through_directory_listing_object"); W_INFO_COPIED = vf::counter("w.read_through_copy_of_object_with_cached_size"); W_INFO_REPOINTED = vf::counter("w.read_through_repointed_object");
	W_BOMX = vf::counter("w.bom_wide_alphabet_repeated"); W_BOM_OVER_STDIO_BUFFER = vf::counter("w.bom_file_over_4096_bytes"); W_BOM_RESULT_ON_HEAP = vf::counter("w.bom_text_over_15_bytes"); W_BOM_INNER_FEFF = vf::counter("w.bom_inner_feff");
	W_LINE_OVER_4096 = vf::counter("w.line_over_4096"); W_LINE_OVER_65536 = vf::counter("w.line_over_65536");
	W_READLINE_CHAR = vf::counter("w.readline_char_loops"); W_READLINE_BOOL_IDIOM = vf::counter("w.readline_bool_idiom_loops"); W_READLINE_FALSE_AT_END = vf::counter("w.readline_returned_false");
	W_H_OPEN_WHILE_OPEN = vf::counter("w.hist_open_on_open_object"); W_H_OPEN_WHILE_UNFLUSHED = vf::counter("w.hist_open_on_object_with_unflushed_bytes"); W_H_SIZE_WHILE_WRITING = vf::counter("w.hist_size_of_writing_object");
	W_H_SIZE_CACHE_OUTDATED = vf::counter("w.hist_size_asked_again_after_content_changed"); W_H_RW_READ = vf::counter("w.hist_rw_read"); W_H_RW_OVERWRITE = vf::counter("w.hist_rw_overwrite"); W_H_RW_EXTEND = vf::counter("w.hist_rw_write_behind_end");
	W_CC_READ = vf::counter("w.cc_written_and_read_back"); W_CC_READ_TEXT = vf::counter("w.cc_nul_free_content_through_text_readers"); W_CC_READ_ZTAIL_AT_BLOCK_END = vf::counter("w.cc_read_zero_page_at_the_very_end");
	W_CC_READ_HOLES = vf::counter("w.cc_read_file_with_real_holes"); W_CC_COPY = vf::counter("w.cc_copy"); W_CC_MOVE_RENAME = vf::counter("w.cc_move_by_rename"); W_CC_MOVE_EXDEV = vf::counter("w.cc_move_exdev_fallback");
	W_CC_ZERO_LAST_BLOCK = vf::counter("w.cc_copy_loop_last_whole_block_zero_size_exact_multiple"); W_CC_ZERO_INNER_BLOCK = vf::counter("w.cc_copy_loop_zero_block_followed_by_data");
	W_CC_BLOCK_REPEATED = vf::counter("w.cc_copy_loop_block_equal_to_previous"); W_CC_CONST_BLOCK = vf::counter("w.cc_copy_loop_constant_nonzero_block"); W_CC_HOLES = vf::counter("w.cc_copy_source_with_real_holes");
	W_CC_DEST_IDENTICAL = vf::counter("w.cc_destination_already_identical"); W_CC_DEST_ONE_BYTE_DIFFERS = vf::counter("w.cc_destination_same_size_one_byte_differs");
	W_CC_CTRLZ_BLOCK_START = vf::counter("w.cc_copy_loop_ctrl_z_first_in_block"); W_CC_CRLF_ACROSS_BLOCKS = vf::counter("w.cc_copy_loop_cr_lf_across_blocks"); W_CC_IDENTICAL_LINES = vf::counter("w.cc_identical_lines");
	W_H_BOM_LED = vf::counter("w.hist_content_led_by_utf8_bom"); W_H_OVER_STDIO_BUFFER = vf::counter("w.hist_content_over_4096");
	bool T = vf::opt.thorough();
	HistSys hs;
	std::string phases; double t_phase = vf::now_s();
	std::string cphases; double c_phase = cpu_s();
	auto phase_done = [&](const char* name) {
		double t = vf::now_s(); phases += fmt("%s\"%s\": %.1f", phases.empty() ? "" : ", ", name, t - t_phase); t_phase = t; vf::setinfo("phase_wall_s", "{" + phases + "}");
		double c = cpu_s(); cphases += fmt("%s\"%s\": %.1f", cphases.empty() ? "" : ", ", name, c - c_phase); c_phase = c; vf::setinfo("phase_cpu_s", "{" + cphases + "}"); // user + system, this process and its reaped workers
	};
	if (vf::opt.replay) {
		const std::string& k = vf::opt.kase;
		vf::parallel(1, [&](uint64_t) {
			if (k.compare(0, 5, "hist:") == 0) vf::Bfs<HistSys>(hs, "hist").replay(k);
			else run_case(k);
		});
		return vf::finish();
	}
	const int BOMLEN = T ? 5 : 4;
	if (!python_crosscheck(BOMLEN)) { vf::finish(); return 2; }
	phase_done("python_cross_check");

	// (a) table x writers, special texts x writers
	if (!late("table"))
	{
		std::vector<std::string> sp = special_texts();
		const int NLEN = T ? NLEN_ALL : NLEN_QUICK;
		uint64_t ntab = (uint64_t)NLEN * NSHAPE * NK;
		vf::parallel(ntab + sp.size(), [&](uint64_t i) {
			for (int w = 0; w < NWRITER; w++) {
				if (i < ntab) { int ki = (int)(i % NK), sh = (int)(i / NK % NSHAPE), li = (int)(i / NK / NSHAPE); check_rw(table_text(li, sh, ki), w, fmt("rw:%d:%d:%d:%d", li, sh, ki, w)); }
				else check_rw(sp[(size_t)(i - ntab)], w, fmt("rws:%d:%d", (int)(i - ntab), w));
			}
		});
		phase_done("table");
		vf::setinfo("table", fmt("{\"lengths\": %d, \"shapes\": %d, \"line_lengths\": %d, \"special_texts\": %d, \"writers\": %d}", NLEN, NSHAPE, NK, (int)sp.size(), (int)NWRITER));
	}
	// (b) every line length
	if (!late("line lengths"))
	{
		int maxn = T ? 2100 : 1300;
		std::vector<int> ns;
		for (int n = 0; n <= maxn; n++) ns.push_back(n);
		// around the sizes a larger chunk constant or the stdio buffer would make critical: 4096, 8192, 65536 (and 4095-byte fgets chunks: 4094, 8189)
		for (int n = 4092; n <= 4098; n++) ns.push_back(n);
		for (int n = 8187; n <= 8194; n++) ns.push_back(n);
		for (int n = 65533; n <= 65538; n++) ns.push_back(n);
		vf::parallel(ns.size(), [&](uint64_t i) {
			for (int eol = 0; eol < NEOL; eol++) for (int pos = 0; pos < NPOS; pos++) for (int fill = 0; fill < NFILL; fill++) check_line(ns[i], eol, pos, fill);
		}, 4);
		phase_done("line_lengths");
		vf::setinfo("line_lengths", fmt("\"0..%d complete + 4092..4098, 8187..8194, 65533..65538 x %d line ends x %d positions x %d fillings\"", maxn, (int)NEOL, (int)NPOS, (int)NFILL));
	}
	// (c) BOM files
	if (!late("BOM files"))
	{
		struct J { int enc, len, idx; };
		std::vector<J> js;
		for (int enc = 0; enc < 3; enc++) for (int len = 0; len <= BOMLEN; len++) { int cnt = 1; for (int i = 0; i < len; i++) cnt *= NSCALAR; for (int idx = 0; idx < cnt; idx++) { J j = { enc, len, idx }; js.push_back(j); } }
		vf::parallel(js.size(), [&](uint64_t i) { check_bom(js[i].enc, js[i].len, js[i].idx, 0); check_bom(js[i].enc, js[i].len, js[i].idx, 1); }, 16);
		// wider alphabet, repeated; one repetition count after the other, the small ones first: a tree that already fails there (an
		// overflow is reported by ASan once per byte) is not run through the 3000-fold texts as well - the run has failed anyway
		struct X { int enc, len, idx, rep; };
		uint64_t nx = 0, viol0 = vf::nviolations();
		for (int ri = 0; ri < NBOMX_REP; ri++) {
			if (BOMX_REPS[ri] > 6 && vf::nviolations() > viol0) { vf::cap_hit(fmt("bomx: repetition counts >= %d skipped after violations in the shorter BOM texts", BOMX_REPS[ri])); break; }
			std::vector<X> xs;
			for (int enc = 0; enc < 3; enc++) for (int len = 0; len <= (T ? 3 : 2); len++) {
				if (len == 3 && BOMX_REPS[ri] > 6) continue;
				int cnt = 1; for (int i = 0; i < len; i++) cnt *= NSCALAR_X;
				for (int idx = 0; idx < cnt; idx++) { X x = { enc, len, idx, BOMX_REPS[ri] }; xs.push_back(x); }
			}
			vf::parallel(xs.size(), [&](uint64_t i) { check_bomx(xs[i].enc, xs[i].len, xs[i].idx, xs[i].rep, 0); check_bomx(xs[i].enc, xs[i].len, xs[i].idx, xs[i].rep, 1); }, 8);
			nx += xs.size();
		}
		phase_done("bom");
		vf::setinfo("bom_wide", fmt("\"every sequence of <= %d scalars over the 20-scalar alphabet {.., U+FEFF, U+FFFE, U+7F, U+80, U+7FF, U+800, U+D7FF, U+E000, U+FFFF, U+10FFFF} repeated 1/6/100/3000 times (length 3: 1/6) x 3 encodings x 2 ways of writing: %d cases\"", T ? 3 : 2, (int)nx * 2));
		vf::setinfo("bom", fmt("\"every sequence of <= %d scalars over {A, e-acute, euro, U+1F600, CR, LF, U+010D, U+0D0A, U+1F40D, U+0A00} x UTF-8/UTF-16LE/UTF-16BE x written by POSIX / File::put\"", BOMLEN));
	}
	// (d) binary contents
	if (!late("binary contents"))
	{
		std::vector<long> sizes;
		long base[] = { 0, 1, 2, 3, 254, 255, 256, 509, 510, 511, 1000, 4095, 4096, 4097, 8191, 8192, 8193, 65535, 65536, 65537, 131071, 131072, 131073, 200000, (1 << 20) + 1 };
		for (size_t i = 0; i < sizeof base / sizeof *base; i++) sizes.push_back(base[i]);
		if (T) { sizes.push_back(199999); sizes.push_back((4 << 20) - 1); sizes.push_back(16 << 20); }
		int bw[] = { WR_FPUT, WR_FWRITE, WR_FSTREAM_BA, WR_FSTREAM_S, WR_TWRITE, WR_FAPPEND_PARTS };
		struct J { long s; int pat, w; };
		std::vector<J> js;
		for (size_t si = 0; si < sizes.size(); si++) for (int pat = 0; pat < 5; pat++) for (size_t wi = 0; wi < sizeof bw / sizeof *bw; wi++) {
			if (sizes[si] > 200000 && (pat != 0 || wi > 1)) continue; // the big ones: position-dependent bytes through put / write only
			J j = { sizes[si], pat, bw[wi] }; js.push_back(j);
		}
		for (long sz = 0; sz <= (T ? 4200 : 1100); sz++) { bool in = false; for (size_t si = 0; si < sizes.size(); si++) if (sizes[si] == sz) in = true; if (!in) { J j = { sz, 0, WR_FPUT }; js.push_back(j); J k = { sz, 3, WR_FWRITE }; js.push_back(k); } }
		vf::parallel(js.size(), [&](uint64_t i) { check_bin(js[i].s, js[i].pat, js[i].w); });
		phase_done("binary");
	}
	// (e) copy / move
	if (!late("copy/move"))
	{
		struct J { long s; int dest, rmode, api; bool move; };
		std::vector<J> js;
		std::vector<long> sizes(COPY_SIZES, COPY_SIZES + NCOPYSIZE);
		if (T) { sizes.push_back(4095); sizes.push_back(4096); sizes.push_back(196608); sizes.push_back((1 << 20) + 3); }
		for (size_t si = 0; si < sizes.size(); si++) for (int dest = 0; dest < NDEST; dest++) for (int api = 0; api < 2; api++) {
			J c = { sizes[si], dest, 0, api, false }; js.push_back(c);
			for (int rm = 0; rm < 3; rm++) { J m = { sizes[si], dest, rm, api, true }; js.push_back(m); }
		}
		vf::parallel(js.size(), [&](uint64_t i) { if (js[i].move) check_move(js[i].s, js[i].dest, js[i].rmode, js[i].api); else check_copy(js[i].s, js[i].dest, js[i].api); });
		// a source that cannot be read to the end: read call k of the copy loop fails (interposed fread, real EISDIR)
		struct R { long s; int dest, api, k; bool move; };
		std::vector<R> rs;
		long rsz[] = { 1, 65536, 65537, 131073 };
		int rdest[] = { D_NEW, D_EXISTING_LONGER, D_DIR };
		for (size_t si = 0; si < sizeof rsz / sizeof *rsz; si++) for (int k = 1; k <= 3; k++) {
			if ((long)(k - 1) * 65536 > rsz[si]) continue; // the loop makes size/65536 + 1 read calls
			for (size_t di = 0; di < 3; di++) for (int api = 0; api < 2; api++) for (int mv = 0; mv < 2; mv++) { R r = { rsz[si], rdest[di], api, k, mv != 0 }; rs.push_back(r); }
		}
		vf::parallel(rs.size(), [&](uint64_t i) { check_readfault(rs[i].s, rs[i].dest, rs[i].api, rs[i].k, rs[i].move); });
		// sources whose first read fails by themselves
		vf::parallel((uint64_t)NBADSRC * 3 * 2, [&](uint64_t i) { int rd[] = { D_NEW, D_EXISTING_LONGER, D_DIR }; check_badsource((int)(i / 6), rd[i / 2 % 3], (int)(i % 2)); });
		phase_done("copy_move");
	}
	// (g) content classes x sizes
	if (!late("content classes"))
	{
		std::vector<CCJob> cj = cc_jobs(T);
		vf::parallel(cj.size() * NCC_WRITER, [&](uint64_t i) { const CCJob& j = cj[(size_t)(i / NCC_WRITER)]; check_cc_read(j.cls, j.size, CC_WRITERS[i % NCC_WRITER]); });
		phase_done("content_classes_readers");
		static const int cd[] = { D_NEW, D_EXISTING_LONGER, D_DIR, D_EX_SAME, D_EX_LASTDIFF, D_EX_FIRSTDIFF, D_EX_MIDDIFF };
		const int ncd = sizeof cd / sizeof *cd;
		vf::parallel(cj.size() * 2, [&](uint64_t i) {
			const CCJob& j = cj[(size_t)(i / 2)]; int api = (int)(i % 2);
			for (int sp = 0; sp < 2; sp++) for (int di = 0; di < ncd; di++) {
				check_copy(j.size, cd[di], api, j.cls, sp != 0);
				check_move(j.size, cd[di], 0, api, j.cls, sp != 0);
				check_move(j.size, cd[di], 1, api, j.cls, sp != 0);
			}
		});
		phase_done("content_classes_copy_move");
		std::string szl; for (int i = 0; i < (T ? (int)NCC_SIZE_ALL : (int)NCC_SIZE_QUICK); i++) szl += fmt(i ? ",%ld" : "%ld", CC_SIZES[i]);
		vf::setinfo("content_classes", fmt("{\"classes\": %d, \"sizes\": [%s], \"distinct_contents\": %d, \"writers_incl_posix_dense_and_with_holes\": %d, \"destinations\": %d, \"copy_move_forms\": \"copy, move by rename, move by EXDEV fallback x 2 APIs x source dense / with holes\"}", (int)NCC, szl.c_str(), (int)cj.size(), (int)NCC_WRITER, ncd));
	}
	// (f) histories
	{
		vf::Bfs<HistSys> b(hs, "hist");
		vf::BfsResult r = b.run(T ? 6 : 5, 0);
		std::string pd;
		for (size_t i = 0; i < r.per_depth.size(); i++) pd += fmt(i ? ",%llu" : "%llu", (unsigned long long)r.per_depth[i]);
		vf::setinfo("hist", fmt("{\"depth_completed\": %d, \"states\": %llu, \"transitions\": %llu, \"new_states_per_depth\": [%s], \"op_alphabet\": %d}", r.depth_done, (unsigned long long)r.states, (unsigned long long)r.transitions, pd.c_str(), hs.nops()));
		vf::add(cS, r.states); vf::add(cT, r.transitions); vf::add(cTr, r.traces);
		phase_done("histories");
		hs.reset(); delete hs.F; hs.F = 0;
	}
	vf::sample("rw: text of 510 bytes, CRLF lines of 253 chars, written by 'TextFile(p).write(s1); TextFile(p).append(s2)' over an existing longer file; read by POSIX, size, content, firstBytes(0,1,2,3,254,255,256,n-1,n,n+1,n+70000), read() in chunks of n/255/4097/65536/1, text(), lines(), three readLine loops");
	vf::sample("line: 'short\\n' + line of 508 chars with CRs at offsets 252,253,254 + '\\r\\r\\n' -> lines(), readLine loops, text()");
	vf::sample("bom: FF FE 3D D8 00 DE 0D 00 0A 00 (UTF-16LE U+1F600 CR LF) -> text() == F0 9F 98 80 0A");
	vf::sample("move: Directory::move of 65537 bytes into an existing directory when rename() fails with EXDEV (interposed)");
	vf::sample("copy: File::copy of 65537 bytes to a symbolic link that names the source itself -> the source must keep its 65537 bytes");
	vf::sample("moverf: Directory::move of 131073 bytes when rename() answers EXDEV and the third fread of the copy loop fails with EISDIR -> the source must survive");
	vf::sample("bomx: FE FF + (FE FF D8 3D DE 00) x 3000 (UTF-16BE, inner U+FEFF and U+1F600, 36002 bytes) -> text() == (EF BB BF F0 9F 98 80) x 3000");
	vf::sample("line: line of 65536 chars + CR LF + 'tail' -> lines(), readLine loops, while(f.readLine(s)), text()");
	vf::sample("ccc: Directory::copy of 131072 bytes (non-zero bytes, the last 65536 bytes zero) to a new file name -> 131072 bytes at the destination");
	vf::sample("ccm: File::move of 65536 zero bytes stored with holes to an existing file of the same size that differs in the last byte, when rename() fails with EXDEV");
	vf::sample("ccr: 262144 bytes 0A 1A FF 0D repeated, written by File f(p,APPEND); f.write x3 -> size, content, firstBytes, read() in chunks of n/255/4097/65536, text(), lines(), readLine loops, stat-data carriers");
	vf::sample("hist: f.open(WRITE) ; f.put(String <4203 bytes>) ; f.open(APPEND) ; f.size() ; f.put(\"bf\"h)  (open on an open object with unflushed bytes, size of a writing object)");
	return vf::finish();
}
