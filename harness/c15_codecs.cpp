// C15 — Base64, hex, percent-encoding / URL query, SHA-1: bounded-exhaustive input enumeration on the real
// asl code against small RFC 4648 / FIPS 180-4 / RFC 3986 references (std:: only). The references are
// themselves cross-checked against python3's base64, binascii, urllib.parse and hashlib on a large
// deterministic subset in every run (tools/ref_c15.py), so the trusted base is python's stdlib.
// Before the passes the harness proves its memory oracle live (asan_selftest); witness counters (w.*) count inputs that reached the code under test.
#include <asl/util.h>
#include <asl/Http.h>
#include <asl/SHA1.h>
#include <asl/Map.h>
#include <unistd.h>
#include <errno.h>
#include <sys/mman.h>
#include <sys/wait.h>
#include "vf.h"
#include "aslx.h"
using namespace asl;
using vf::fmt;
typedef std::string Bytes;

// ------------------------------------------------------------------------------------------------
// references (independent of asl)
// ------------------------------------------------------------------------------------------------
static const char B64[] = "ABCDEFGHIJKLMNOPQRSTUVWXYZabcdefghijklmnopqrstuvwxyz0123456789+/";

static std::string ref_b64enc(const Bytes& d) { // RFC 4648 section 4
	std::string o;
	o.reserve((d.size() + 2) / 3 * 4);
	size_t i = 0;
	for (; i + 3 <= d.size(); i += 3) {
		unsigned v = ((unsigned char)d[i] << 16) | ((unsigned char)d[i + 1] << 8) | (unsigned char)d[i + 2];
		o += B64[v >> 18]; o += B64[(v >> 12) & 63]; o += B64[(v >> 6) & 63]; o += B64[v & 63];
	}
	size_t rem = d.size() - i;
	if (rem == 1) {
		unsigned v = (unsigned char)d[i] << 16;
		o += B64[v >> 18]; o += B64[(v >> 12) & 63]; o += "==";
	} else if (rem == 2) {
		unsigned v = ((unsigned char)d[i] << 16) | ((unsigned char)d[i + 1] << 8);
		o += B64[v >> 18]; o += B64[(v >> 12) & 63]; o += B64[(v >> 6) & 63]; o += '=';
	}
	return o;
}
static int b64val(char c) { const char* p = c ? strchr(B64, c) : 0; return p ? (int)(p - B64) : -1; }
// strict, canonical RFC 4648 decoder (no whitespace): false when the text is not the encoding of any array
static bool ref_b64dec(const std::string& t, Bytes& out) {
	out.clear();
	if (t.size() % 4) return false;
	for (size_t i = 0; i < t.size(); i += 4) {
		bool last = i + 4 == t.size();
		int a = b64val(t[i]), b = b64val(t[i + 1]), c = b64val(t[i + 2]), d = b64val(t[i + 3]);
		if (a < 0 || b < 0) return false;
		if (c < 0) { // "xx=="
			if (!last || t[i + 2] != '=' || t[i + 3] != '=' || (b & 15)) return false;
			out += (char)((a << 2) | (b >> 4));
		} else if (d < 0) { // "xxx="
			if (!last || t[i + 3] != '=' || (c & 3)) return false;
			out += (char)((a << 2) | (b >> 4)); out += (char)(((b & 15) << 4) | (c >> 2));
		} else {
			out += (char)((a << 2) | (b >> 4)); out += (char)(((b & 15) << 4) | (c >> 2)); out += (char)(((c & 3) << 6) | d);
		}
	}
	return true;
}
static bool is_ws(char c) { return c == ' ' || c == '\t' || c == '\r' || c == '\n'; }
static std::string strip_ws(const std::string& s) { std::string o; for (size_t i = 0; i < s.size(); i++) if (!is_ws(s[i])) o += s[i]; return o; }

static std::string ref_hexenc(const Bytes& d) {
	static const char* dg = "0123456789abcdef";
	std::string o; o.reserve(d.size() * 2);
	for (size_t i = 0; i < d.size(); i++) { o += dg[(unsigned char)d[i] >> 4]; o += dg[(unsigned char)d[i] & 15]; }
	return o;
}
static int hexval(char c) { return c >= '0' && c <= '9' ? c - '0' : c >= 'a' && c <= 'f' ? c - 'a' + 10 : c >= 'A' && c <= 'F' ? c - 'A' + 10 : -1; }
static bool ref_hexdec(const std::string& t, Bytes& out) {
	out.clear();
	if (t.size() % 2) return false;
	for (size_t i = 0; i < t.size(); i += 2) {
		int a = hexval(t[i]), b = hexval(t[i + 1]);
		if (a < 0 || b < 0) return false;
		out += (char)(a * 16 + b);
	}
	return true;
}

// RFC 3986 percent-encoding: unreserved characters and the mode's extra set stay, everything else becomes %XX
static const char* URL_EXTRA[2] = { ";/?:@&=+$,#!*'()", "!*'()" }; // [0] = like JS encodeURI, [1] = like encodeURIComponent
static std::string ref_quote(const Bytes& s, int component) {
	static const char* dg = "0123456789ABCDEF";
	std::string o;
	for (size_t i = 0; i < s.size(); i++) {
		unsigned char c = s[i];
		bool keep = (c >= 'A' && c <= 'Z') || (c >= 'a' && c <= 'z') || (c >= '0' && c <= '9') || c == '-' || c == '.' || c == '_' || c == '~' || (c && strchr(URL_EXTRA[component], c));
		if (keep) o += (char)c; else { o += '%'; o += dg[c >> 4]; o += dg[c & 15]; }
	}
	return o;
}
static Bytes ref_unquote(const std::string& s) {
	Bytes o;
	for (size_t i = 0; i < s.size(); i++) {
		if (s[i] == '%' && i + 2 < s.size() && hexval(s[i + 1]) >= 0 && hexval(s[i + 2]) >= 0) { o += (char)(hexval(s[i + 1]) * 16 + hexval(s[i + 2])); i += 2; }
		else o += s[i];
	}
	return o;
}

// RFC 3986 sections 2.1-2.3: a percent-encoded text is made of unreserved characters, reserved characters and %XX triplets (two hex digits of either
// case) and of nothing else: no NUL or other control byte, no space, no byte >= 0x7f, no '%' that does not start a triplet
static bool uri_char(unsigned char c) { return (c >= 'A' && c <= 'Z') || (c >= 'a' && c <= 'z') || (c >= '0' && c <= '9') || (c && strchr("-._~:/?#[]@!$&'()*+,;=", c)); }
static bool ref_pct_valid(const std::string& s) {
	for (size_t i = 0; i < s.size(); i++) {
		if (s[i] == '%') { if (i + 2 < s.size() && hexval(s[i + 1]) >= 0 && hexval(s[i + 2]) >= 0) i += 2; else return false; }
		else if (!uri_char((unsigned char)s[i])) return false;
	}
	return true;
}
// bytes at which a test for "unreserved character" can go wrong: NUL (the terminator of a character set given as a C string), the first and last control,
// 7-bit and 8-bit values, both ends of '0'-'9', 'A'-'Z', 'a'-'z' and of the single characters '-', '.', '_', '~', and their neighbours in ASCII
static const char ABND[] = "\x00\x01,-./09:@AZ[^_`az{}~\x7f\x80\xff";
enum { NBND = sizeof ABND - 1 };
static bool is_bnd(unsigned char c) { return memchr(ABND, c, NBND) != 0; }

// FIPS 180-4 SHA-1
static inline uint32_t rotl(uint32_t x, int n) { return (x << n) | (x >> (32 - n)); }
__attribute__((no_sanitize_address)) static void sha1_block(uint32_t H[5], const unsigned char* p) {
	uint32_t W[80];
	for (int t = 0; t < 16; t++) W[t] = ((uint32_t)p[4 * t] << 24) | ((uint32_t)p[4 * t + 1] << 16) | ((uint32_t)p[4 * t + 2] << 8) | p[4 * t + 3];
	for (int t = 16; t < 80; t++) W[t] = rotl(W[t - 3] ^ W[t - 8] ^ W[t - 14] ^ W[t - 16], 1);
	uint32_t a = H[0], b = H[1], c = H[2], d = H[3], e = H[4];
	for (int t = 0; t < 80; t++) {
		uint32_t f, k;
		if (t < 20) { f = (b & c) ^ (~b & d); k = 0x5a827999; }
		else if (t < 40) { f = b ^ c ^ d; k = 0x6ed9eba1; }
		else if (t < 60) { f = (b & c) ^ (b & d) ^ (c & d); k = 0x8f1bbcdc; }
		else { f = b ^ c ^ d; k = 0xca62c1d6; }
		uint32_t T = rotl(a, 5) + f + e + k + W[t];
		e = d; d = c; c = rotl(b, 30); b = a; a = T;
	}
	H[0] += a; H[1] += b; H[2] += c; H[3] += d; H[4] += e;
}
static Bytes ref_sha1(const unsigned char* p, size_t n) {
	uint32_t H[5] = { 0x67452301, 0xefcdab89, 0x98badcfe, 0x10325476, 0xc3d2e1f0 };
	size_t i = 0;
	for (; i + 64 <= n; i += 64) sha1_block(H, p + i);
	unsigned char tail[128];
	memset(tail, 0, sizeof tail);
	size_t rem = n - i;
	memcpy(tail, p + i, rem);
	tail[rem] = 0x80;
	size_t tl = rem + 1 + 8 <= 64 ? 64 : 128;
	uint64_t bits = (uint64_t)n * 8;
	for (int k = 0; k < 8; k++) tail[tl - 1 - k] = (unsigned char)(bits >> (8 * k));
	sha1_block(H, tail);
	if (tl == 128) sha1_block(H, tail + 64);
	Bytes o;
	for (int k = 0; k < 5; k++) { o += (char)(H[k] >> 24); o += (char)(H[k] >> 16); o += (char)(H[k] >> 8); o += (char)H[k]; }
	return o;
}
static Bytes ref_sha1(const Bytes& m) { return ref_sha1((const unsigned char*)m.data(), m.size()); }

// deterministic contents per length: 0 zeros, 1 0xFF, 2 counting pattern, 3 fixed pseudo-random, 4 pseudo-random without NUL bytes
enum { NKIND = 4 };
static Bytes content(size_t len, int kind) {
	Bytes b(len, kind == 1 ? (char)0xff : (char)0);
	if (kind == 2) for (size_t i = 0; i < len; i++) b[i] = (char)((i * 7 + len) & 0xff);
	if (kind >= 3) {
		uint64_t x = 0x9e3779b97f4a7c15ULL ^ ((uint64_t)len * 0xbf58476d1ce4e5b9ULL + 0x1234567);
		for (size_t i = 0; i < len; i++) {
			x ^= x >> 12; x ^= x << 25; x ^= x >> 27;
			unsigned v = (unsigned)((x * 0x2545f4914f6cdd1dULL) >> 56);
			b[i] = (char)(kind == 4 ? v % 255 + 1 : v);
		}
	}
	return b;
}

// ------------------------------------------------------------------------------------------------
// plumbing: counters, flood control, sanitizer oracle, isolation of memory-corrupting failures
// ------------------------------------------------------------------------------------------------
static int C_EVAL, C_DISTINCT, C_RESTARTS, C_SKIPPED, C_SKIP_POISON;
static int W_TAIL[3], W_WS, W_WS_PAD, W_LT4, W_LEFTOVER, W_PADONLY, W_PADMID, W_JUNK, W_BADRES_EMPTY, W_BADRES_NONEMPTY, W_NLT;
static int W_HEX_ODD, W_HEX_EVEN, W_HEX_ODD7, W_HEX_NONHEX, W_HEX_VALID;
static int W_URL_ESC, W_URL_PLAIN, W_URL_MODE, W_URL_MALFORMED, W_Q_EMPTYV, W_Q_TWO, W_Q_SPECIAL;
static int W_SHA_1BLK, W_SHA_2BLK, W_SHA_EDGE, W_SHA_DIRECT, W_SHA_LARGE;
static int N_URL_STD, N_B64_LARGE;
// witnesses of the extensions (coverage review): fixed-size Array_ overloads, bytes >= 0x80 / control bytes in the decoders, whitespace with an
// explicit length, URL texts beyond the inline String buffer, larger dictionaries, decoder values on mixed-case text, messages >= 256 MiB, oracle self-test
static int W_ARRN, W_ARR20, W_B64_HI, W_B64_CTL, W_HEX_HI, W_HEX_CTL, W_WS_N, W_WS_N4, W_URL_LONG, W_URL_IN16, W_Q_3, W_Q_LONGV, W_HEX_MIXED, W_URL_WELL, W_URL_LOWER;
// witnesses of the NUL / boundary-byte extension (strings with embedded NUL bytes through the URL families, form of the encoded text)
static int W_B64_STR_NUL, W_SHA_STR_NUL, W_B64_TXT_NUL, W_HEX_TXT_NUL;
static int W_URL_NUL, W_URL_NUL_LONG, W_URL_BND, W_URL_FORM, W_URLDEC_NUL, N_URLDEC_RAWNUL, W_Q_NULV, W_Q_NULK, W_Q_NULK0, W_Q_NUL3, W_Q_FORM, W_Q_BND, N_Q_SAMEKEY;
static int W_SHA_HUGE, W_SHA_HIGHWORD, W_SELF_READ, W_SELF_WRITE, W_SELF_POISON, W_SELF_GUARD, W_SELF_SLACK_OK, W_SELF_SLACK_DEP, N_SLACK_RERUN;

// One defect fails on millions of enumerated inputs: the first few failures of each class (counted across all processes in
// shared memory) are written out as violations, further ones of the same class are only counted ("failures.<sig>").
static const char* SIGS[] = { "b64_encode", "b64_decode", "b64_ws", "b64_neg_length", "b64_oob", "b64_explicit_len", "hex_encode", "hex_decode", "hex_decode_upper", "hex_neg_length", "hex_oob",
                              "url_roundtrip", "url_encode_form", "url_decode_value", "url_oob", "query_roundtrip", "sha1", "sha1_huge_message", "sha_oob", "crash" };
enum { NSIGS = sizeof SIGS / sizeof *SIGS, PER_SIG = 4 };
static int C_SIG[NSIGS];
static void bad(const char* sig, const std::string& desc, const std::string& kase) {
	int k = 0;
	while (k < NSIGS && strcmp(SIGS[k], sig)) k++;
	if (k < NSIGS) {
		vf::add(C_SIG[k]);
		if (!vf::opt.replay && vf::get(C_SIG[k]) > PER_SIG) return;
	}
	vf::violation(sig, desc, kase);
}

// Calling forms of the code under test. A form whose failures corrupt memory (sanitizer WRITE / free errors) is exercised in a
// sacrificial sub-process that is discarded after the first such failure (DESIGN 3.3); after FORM_LIMIT of them the form is no
// longer exercised in this run (reported as a cap: the run is then not exhaustive), so that one defect cannot cost hours or
// hide the other forms.
enum Form { F_ENCODE, F_B64_STRING, F_B64_CHARP, F_B64_N_NUL, F_B64_N_TIGHT, F_HEX_EVEN, F_HEX_ODD, F_URL, F_QUERY, F_SHA, NFORMS };
static const char* FORM_NAME[NFORMS] = { "encodeBase64/encodeHex", "decodeBase64(String)", "decodeBase64(char*)", "decodeBase64(char*, n < strlen)", "decodeBase64(unterminated buffer, n)",
                                         "decodeHex(even length)", "decodeHex(odd length)", "Url::encode/decode", "Url::params/parseQuery", "SHA1::hash" };
enum { FORM_LIMIT = 40 };
struct Iso { volatile uint64_t idx; char kase[1800]; char sig[64]; };
enum { MAXZERO = 16 };
struct IsoShared { Iso iso[80]; volatile uint32_t form_poison[NFORMS]; unsigned char zref[MAXZERO][20]; volatile uint64_t zlen[MAXZERO]; };
static IsoShared* SH;
static bool g_poisoned = false;
static int g_form = 0;

#if defined(__SANITIZE_ADDRESS__)
extern "C" void __asan_set_error_report_callback(void (*)(const char*));
#endif
static volatile int a_flag = 0, a_corrupting = 0, a_notslack = 0; // a_notslack: a finding other than a read of manually poisoned memory (the slack vfx::Flush poisons)
static char a_msg[160];
static void asan_cb(const char* report) { // replaces vf's callback: additionally tells reads (harmless for later cases) from writes / bad frees
	a_flag = 1;
	if (!strstr(report, "READ of size")) a_corrupting = 1;
	if (!strstr(report, "READ of size") || !strstr(report, "use-after-poison")) a_notslack = 1;
	if (a_msg[0]) return;
	const char* p = strstr(report, "AddressSanitizer: ");
	p = p ? p + 18 : report;
	size_t i = 0;
	while (p[i] && p[i] != '\n' && i < sizeof(a_msg) - 1) { a_msg[i] = p[i]; i++; }
	a_msg[i] = 0;
	char* q = strstr(a_msg, " on address"); if (q) *q = 0;
	q = strstr(a_msg, ": 0x"); if (q) *q = 0;
	q = strstr(a_msg, " (pc "); if (q) *q = 0;
	if (strstr(report, "WRITE of size")) strncat(a_msg, " (WRITE)", sizeof(a_msg) - strlen(a_msg) - 1);
	else if (strstr(report, "READ of size")) strncat(a_msg, " (READ)", sizeof(a_msg) - strlen(a_msg) - 1);
}
static void asan_clear() { a_flag = 0; a_corrupting = 0; a_notslack = 0; a_msg[0] = 0; }

static void setcur(const std::string& kase, const char* crash_sig) { // publish the case before touching asl code
	vf::cur(kase); vf::cur_sig(crash_sig);
	if (vf::in_worker()) {
		Iso& me = SH->iso[vf::worker_id()];
		size_t n = kase.size() < sizeof(me.kase) - 1 ? kase.size() : sizeof(me.kase) - 1;
		memcpy(me.kase, kase.data(), n); me.kase[n] = 0;
		strncpy(me.sig, crash_sig, sizeof(me.sig) - 1);
	}
	asan_clear();
}
static void setsig(const char* crash_sig) { vf::cur_sig(crash_sig); if (vf::in_worker()) strncpy(SH->iso[vf::worker_id()].sig, crash_sig, sizeof(SH->iso[0].sig) - 1); }
// may this form be exercised now?
static bool form_on(Form f) {
	if (vf::opt.replay) return true;
	if (g_poisoned) { vf::add(C_SKIP_POISON); return false; } // this process already saw a memory-corrupting failure: it only winds down (the rest of the case is counted, not run)
	if (SH->form_poison[f] >= FORM_LIMIT) { vf::add(C_SKIPPED); return false; }
	g_form = f;
	return true;
}
// descriptions are only built when something failed (W(...) wraps the expression in a lambda)
#define W(expr) [&]() -> std::string { return expr; }
template <class D>
static bool asan(const char* sig, D what, const std::string& kase) {
	if (!a_flag) return false;
	bad(sig, "AddressSanitizer: " + std::string(a_msg[0] ? a_msg : "error") + " in " + what(), kase);
	if (a_corrupting && !g_poisoned) { g_poisoned = true; __sync_fetch_and_add(&SH->form_poison[g_form], 1); }
	asan_clear();
	return true;
}

// run fn(i) for every i in [0,total): sharded over the worker pool in blocks; each block runs in a sub-process of its worker,
// which is replaced (continuing at the next index) when it was poisoned by a memory-corrupting failure or died
template <class F>
static void run_cases(uint64_t total, F fn) {
	if (!total) return;
	uint64_t blk = (total + 191) / 192;
	uint64_t nblk = (total + blk - 1) / blk;
	vf::parallel(nblk, [&](uint64_t b) {
		uint64_t lo = b * blk, hi = lo + blk < total ? lo + blk : total;
		Iso& me = SH->iso[vf::worker_id()];
		while (lo < hi) {
			fflush(stdout); fflush(stderr);
			me.kase[0] = 0; strcpy(me.sig, "crash");
			pid_t pid = fork();
			if (pid < 0) { perror("c15: fork"); _exit(2); }
			if (pid == 0) {
				for (uint64_t i = lo; i < hi; i++) { me.idx = i; fn(i); if (g_poisoned) _exit(77); }
				_exit(0);
			}
			int st = 0;
			while (waitpid(pid, &st, 0) < 0 && errno == EINTR) {}
			if (WIFEXITED(st) && WEXITSTATUS(st) == 0) break;
			if (!(WIFEXITED(st) && WEXITSTATUS(st) == 77)) // died: attribute to the published case, go on with the next one
				bad(me.sig, WIFSIGNALED(st) ? fmt("process died: killed by signal %d", WTERMSIG(st)) : fmt("process died: exit status %d", WEXITSTATUS(st)), me.kase);
			vf::add(C_RESTARTS);
			lo = me.idx + 1;
		}
	});
}

static std::string show(const std::string& s) { // printable rendering
	std::string o = "\"";
	for (size_t i = 0; i < s.size() && i < 48; i++) {
		unsigned char c = s[i];
		if (c == '\n') o += "\\n"; else if (c == '\r') o += "\\r"; else if (c == '\t') o += "\\t"; else if (c == '"' || c == '\\') { o += '\\'; o += (char)c; }
		else if (c < 0x20 || c >= 0x7f) o += fmt("\\x%02x", c); else o += (char)c;
	}
	o += "\"";
	if (s.size() > 48) o += fmt("...(%d bytes)", (int)s.size());
	return o;
}
static std::string showarr(const ByteArray& r) {
	if (r.length() < 0) return fmt("<array of length %d>", r.length());
	int n = r.length() < 24 ? r.length() : 24;
	return fmt("[%d bytes] %s%s", r.length(), vf::hex(r.data(), n).c_str(), n < r.length() ? "..." : "");
}
static bool same(const ByteArray& r, const Bytes& d) { return r.length() == (int)d.size() && (d.empty() || memcmp(r.data(), d.data(), d.size()) == 0); }
// exact-size heap copy without terminator: any access beyond the n bytes is an ASan error
struct Tight {
	byte* p;
	explicit Tight(const Bytes& b) { p = (byte*)malloc(b.size()); if (b.size()) memcpy(p, b.data(), b.size()); }
	~Tight() { free(p); }
};

// A String argument is handed to the code under test with the rest of its own buffer (the bytes after the terminating NUL) poisoned (vfx::Flush), so that
// an index running past the text is seen even where the buffer is larger than the text. But that slack belongs to the String: a library that copies a
// String's whole buffer (a fixed-size copy of the inline array, a copy that keeps the capacity) or scans it a word at a time stays in bounds. So a call
// whose only findings are reads of poisoned slack is not judged on them: it is run again with the slack readable and filled with two different byte
// patterns (valid symbols of every codec here / '%'). A genuine out-of-bounds access shows in those runs as well (redzones are untouched); if the two
// results differ, the result was computed from bytes behind the terminator and the finding stands; otherwise the reads were harmless and the result
// is judged like any other.
static bool same_result(const String& a, const String& b) { return vfx::S(a) == vfx::S(b); }
static bool same_result(const ByteArray& a, const ByteArray& b) { return a.length() == b.length() && (a.length() <= 0 || memcmp(a.data(), b.data(), a.length()) == 0); }
static bool same_result(const SHA1::Hash& a, const SHA1::Hash& b) { return memcmp(&a[0], &b[0], 20) == 0; }
static bool same_result(const Dic<>& a, const Dic<>& b) {
	std::map<Bytes, Bytes> x, y;
	foreach2(String& k, const String& v, a) x[vfx::S(k)] = vfx::S(v);
	foreach2(String& k2, const String& v2, b) y[vfx::S(k2)] = vfx::S(v2);
	return x == y && a.length() == b.length();
}
template <class F>
static auto flush_call(const String& s, F call) -> decltype(call()) {
	char* slack; size_t nslack;
	{
		vfx::Flush fl(s);
		slack = fl.b; nslack = fl.n;
		decltype(call()) r = call();
		if (!a_flag || a_notslack || !nslack) return r;
	}
	vf::add(N_SLACK_RERUN);
	memset(slack, 'F', nslack);
	asan_clear();
	decltype(call()) r1 = call();
	if (a_flag) return r1;
	memset(slack, '%', nslack);
	decltype(call()) r2 = call();
	if (a_flag) return r2;
	if (!same_result(r1, r2)) {
		a_flag = 1;
		strncpy(a_msg, "use-after-poison (READ) of the String's buffer behind its terminating NUL, and the result depends on those bytes", sizeof(a_msg) - 1);
	}
	return r1;
}

// ------------------------------------------------------------------------------------------------
// (A) byte arrays: encode == standard text, decode(text) == bytes, every calling form
// ------------------------------------------------------------------------------------------------
template <class D>
static void decoded_is(const ByteArray& r, const Bytes& d, const char* sig, D what, const std::string& kase) {
	vf::add(C_EVAL);
	if (r.length() < 0) { bad("b64_neg_length", what() + " returned an array of length " + fmt("%d", r.length()), kase); asan_clear(); return; }
	if (asan(strcmp(sig, "b64_explicit_len") == 0 ? sig : "b64_oob", what, kase)) return;
	if (!same(r, d)) bad(sig, what() + " = " + showarr(r) + ", expected [" + fmt("%d", (int)d.size()) + " bytes] " + vf::hex(d.substr(0, 24)), kase);
}
// the Array_<byte,N> overloads (how a SHA1::Hash is printed). The object is a heap block of its own (N bytes as Array_ stands), so that a longer read is out of bounds;
// a length other than N also gives a different text
template <int N>
static void check_fixed(const Bytes& d, const std::string& text, const std::string& htext, const std::string& kase) {
	Array_<byte, N>* a = new Array_<byte, N>;
	memcpy(a->ptr(), d.data(), N);
	const Array_<byte, N>& ca = *a;
	String e = encodeBase64(ca);
	String h = encodeHex(ca);
	vf::add(C_EVAL, 2);
	vf::add(W_ARRN); if (N == 20) vf::add(W_ARR20);
	if (!asan("b64_oob", W(fmt("encodeBase64 / encodeHex(Array_<byte,%d> ", N) + vf::hex(d) + ")"), kase)) {
		if (vfx::S(e) != text) bad("b64_encode", fmt("encodeBase64(Array_<byte,%d> ", N) + vf::hex(d) + ") = " + show(vfx::S(e)) + ", RFC 4648 text is " + show(text), kase);
		if (vfx::S(h) != htext) bad("hex_encode", fmt("encodeHex(Array_<byte,%d> ", N) + vf::hex(d) + ") = " + show(vfx::S(h)) + ", expected " + show(htext), kase);
	}
	delete a;
}
static void check_array(const Bytes& d, const std::string& kase, bool full) {
	setcur(kase, "crash");
	vf::add(C_DISTINCT);
	int n = (int)d.size();
	const std::string text = ref_b64enc(d), htext = ref_hexenc(d);
	if (form_on(F_ENCODE)) {
		Tight t(d);
		String e = encodeBase64(t.p, n);
		vf::add(C_EVAL);
		vf::add(W_TAIL[d.size() % 3]);
		if (!asan("b64_oob", W("encodeBase64(ptr," + fmt("%d", n) + ")"), kase) && vfx::S(e) != text)
			bad("b64_encode", "encodeBase64(" + vf::hex(d.substr(0, 24)) + (n > 24 ? "..." : "") + fmt(" [%d bytes]) = ", n) + show(vfx::S(e)) + ", RFC 4648 text is " + show(text), kase);
		String h = encodeHex(t.p, n);
		vf::add(C_EVAL);
		if (!asan("hex_oob", W("encodeHex(ptr," + fmt("%d", n) + ")"), kase) && vfx::S(h) != htext)
			bad("hex_encode", "encodeHex(" + vf::hex(d.substr(0, 24)) + fmt(" [%d bytes]) = ", n) + show(vfx::S(h)) + ", expected " + show(htext), kase);
		if (full) {
			ByteArray a(t.p, n);
			String e2 = encodeBase64(a), h2 = encodeHex(a);
			vf::add(C_EVAL, 2);
			if (!asan("b64_oob", W("encodeBase64(ByteArray)"), kase) && (vfx::S(e2) != text || vfx::S(h2) != htext))
				bad(vfx::S(e2) != text ? "b64_encode" : "hex_encode", "encodeBase64/encodeHex(ByteArray of " + fmt("%d", n) + " bytes) = " + show(vfx::S(e2)) + " / " + show(vfx::S(h2)), kase);
			if (n <= 4096) { // String form: a counted byte string, NUL bytes included
				String s = vfx::A(d);
				String e3 = flush_call(s, [&]() { return encodeBase64(s); });
				vf::add(C_EVAL);
				if (memchr(d.data(), 0, d.size())) vf::add(W_B64_STR_NUL);
				if (!asan("b64_oob", W("encodeBase64(String)"), kase) && vfx::S(e3) != text) bad("b64_encode", "encodeBase64(String " + show(d) + ") = " + show(vfx::S(e3)) + ", RFC 4648 text is " + show(text), kase);
			}
			switch (n) { // fixed-size array overloads
			case 1: check_fixed<1>(d, text, htext, kase); break;
			case 2: check_fixed<2>(d, text, htext, kase); break;
			case 3: check_fixed<3>(d, text, htext, kase); break;
			case 4: check_fixed<4>(d, text, htext, kase); break;
			case 20: check_fixed<20>(d, text, htext, kase); break;
			default: break;
			}
		}
	}
	if (form_on(F_B64_STRING)) { // decoding is exercised on the standard text, so it does not depend on asl's encoder
		String t = vfx::A(text);
		decoded_is(flush_call(t, [&]() { return decodeBase64(t); }), d, "b64_decode", W("decodeBase64(String " + show(text) + ")"), kase);
	}
	if (form_on(F_HEX_EVEN)) {
		String t = vfx::A(htext);
		ByteArray r = flush_call(t, [&]() { return decodeHex(t); });
		vf::add(C_EVAL);
		if (r.length() < 0) bad("hex_neg_length", "decodeHex(" + show(htext) + ") returned length " + fmt("%d", r.length()), kase);
		else if (!asan("hex_oob", W("decodeHex(" + show(htext) + ")"), kase) && !same(r, d)) bad("hex_decode", "decodeHex(" + show(htext) + ") = " + showarr(r) + ", expected " + vf::hex(d.substr(0, 24)), kase);
	}
	if (!full) return;
	if (form_on(F_B64_CHARP)) {
		{ vfx::FlushBuf fb(text); decoded_is(decodeBase64(fb.p), d, "b64_decode", W("decodeBase64(char* " + show(text) + ")"), kase); }
		{ vfx::FlushBuf fb(text); decoded_is(decodeBase64(fb.p, (int)text.size()), d, "b64_decode", W("decodeBase64(char* " + show(text) + fmt(", %d)", (int)text.size())), kase); }
	}
	if (n > 6) { // longer texts: the usual line-wrapped layouts (short texts get every insertion in pass W)
		const char* seps[] = { "\r\n", "\n", " " };
		int every[] = { 76, 64, 1 };
		for (int l = 0; l < 3; l++) {
			std::string w;
			for (size_t i = 0; i < text.size(); i++) { if (i && i % every[l] == 0) w += seps[l]; w += text[i]; }
			w += seps[l];
			auto lay = [&]() { return fmt("text of %d bytes with %s every %d characters", n, l == 0 ? "CRLF" : l == 1 ? "LF" : "a space", every[l]); };
			setsig("crash");
			if (form_on(F_B64_STRING)) {
				String t = vfx::A(w);
				decoded_is(flush_call(t, [&]() { return decodeBase64(t); }), d, "b64_ws", W("decodeBase64(" + lay() + ") " + show(w)), kase);
				vf::add(W_WS);
			}
			if (n > 4096) continue; // the explicit-length forms of the layouts: every length of the per-length sweep
			int wn = (int)w.size();
			setsig("b64_explicit_len");
			if (form_on(F_B64_N_NUL)) { // the wrapped text is the first wn characters of a longer buffer
				vfx::FlushBuf fb(w + "QUJDRA==");
				decoded_is(decodeBase64(fb.p, wn), d, "b64_explicit_len", W("decodeBase64(char* " + lay() + fmt(" followed by \"QUJDRA==\", n=%d) ", wn) + show(w)), kase);
				vf::add(W_WS_N); if (w.size() >= text.size() + 4) vf::add(W_WS_N4);
			}
			if (form_on(F_B64_N_TIGHT)) {
				Tight tt(w);
				decoded_is(decodeBase64((const char*)tt.p, wn), d, "b64_explicit_len", W("decodeBase64(unterminated buffer, " + lay() + fmt(", n=%d) ", wn) + show(w)), kase);
				vf::add(W_WS_N);
			}
		}
	}
	setsig("b64_explicit_len"); // a crash from here on is the explicit-length form running past n
	if (form_on(F_B64_N_NUL)) { // explicit length shorter than the NUL-terminated buffer: only the first n characters are the text
		vfx::FlushBuf fb(text + "QUJDRA==");
		vf::add(W_NLT);
		decoded_is(decodeBase64(fb.p, (int)text.size()), d, "b64_explicit_len", W("decodeBase64(char* " + show(text + "QUJDRA==") + fmt(", n=%d)", (int)text.size())), kase);
	}
	if (form_on(F_B64_N_TIGHT)) { // explicit length on a buffer that holds exactly n characters (no terminator)
		Tight tt(text);
		decoded_is(decodeBase64((const char*)tt.p, (int)text.size()), d, "b64_explicit_len", W("decodeBase64(unterminated buffer " + show(text) + fmt(", n=%d)", (int)text.size())), kase);
	}
}

// ------------------------------------------------------------------------------------------------
// (W) whitespace-interleaved valid Base64 text
// ------------------------------------------------------------------------------------------------
static void check_ws_text(const std::string& w, const std::string& kase) {
	setcur(kase, "crash");
	Bytes d;
	std::string st = strip_ws(w);
	if (!ref_b64dec(st, d)) return; // replay of a hand-written case that is not valid Base64: nothing is demanded here
	vf::add(C_DISTINCT);
	size_t nws = w.size() - st.size();
	size_t eq = w.find('=');
	bool wspad = eq != std::string::npos && (w.find_first_of(" \t\r\n", eq) != std::string::npos || (eq && is_ws(w[eq - 1])));
	bool seen = false; // the witnesses count texts that reached the decoder in at least one form
	auto witness = [&]() { if (seen) return; seen = true; if (nws) vf::add(W_WS); if (wspad) vf::add(W_WS_PAD); };
	if (form_on(F_B64_STRING)) { String t = vfx::A(w); decoded_is(flush_call(t, [&]() { return decodeBase64(t); }), d, "b64_ws", W("decodeBase64(String " + show(w) + ")"), kase); witness(); }
	if (form_on(F_B64_CHARP)) { vfx::FlushBuf fb(w); decoded_is(decodeBase64(fb.p), d, "b64_ws", W("decodeBase64(char* " + show(w) + ")"), kase); witness(); }
	// explicit length: the text (whitespace included) is exactly the first |w| characters at the pointer
	int wn = (int)w.size();
	setsig("b64_explicit_len");
	if (form_on(F_B64_N_NUL)) {
		vfx::FlushBuf fb(w + "QUJDRA==");
		decoded_is(decodeBase64(fb.p, wn), d, "b64_explicit_len", W("decodeBase64(char* " + show(w + "QUJDRA==") + fmt(", n=%d)", wn)), kase);
		witness(); if (nws) vf::add(W_WS_N); if (nws >= 4) vf::add(W_WS_N4);
	}
	if (form_on(F_B64_N_TIGHT)) {
		Tight tt(w);
		decoded_is(decodeBase64((const char*)tt.p, wn), d, "b64_explicit_len", W("decodeBase64(unterminated buffer " + show(w) + fmt(", n=%d)", wn)), kase);
		witness(); if (nws) vf::add(W_WS_N);
	}
}
static const char WS[] = " \n\r\t";
// all ways of inserting up to k whitespace characters into text (insertion points non-decreasing)
static void ws_insertions(std::vector<std::string>& out, const std::string& text, int k, size_t from, const std::string& cur, size_t consumed) {
	out.push_back(cur + text.substr(consumed));
	if (k == 0) return;
	for (size_t pos = from; pos <= text.size(); pos++)
		for (int c = 0; c < 4; c++)
			ws_insertions(out, text, k - 1, pos, cur + text.substr(consumed, pos - consumed) + WS[c], pos);
}

// ------------------------------------------------------------------------------------------------
// (M) arbitrary / malformed Base64 text: terminates, stays in bounds, length >= 0
// ------------------------------------------------------------------------------------------------
template <class D>
static void malformed_result(const ByteArray& r, const char* oobsig, D what, const std::string& kase) {
	vf::add(C_EVAL);
	if (r.length() < 0) { bad("b64_neg_length", what() + " returned an array of length " + fmt("%d", r.length()), kase); asan_clear(); return; }
	if (asan(oobsig, what, kase)) return;
	vf::add(r.length() ? W_BADRES_NONEMPTY : W_BADRES_EMPTY);
}
static void check_b64_text(const std::string& s) {
	std::string kase = "b64bad:" + vf::hex(s);
	setcur(kase, "crash");
	vf::add(C_DISTINCT);
	int L = (int)s.size(), sym = 0, pads = 0, junk = 0; bool padmid = false;
	for (int i = 0; i < L; i++) {
		char c = s[i];
		if (is_ws(c)) continue;
		sym++;
		if (c == '=') pads++; else { if (pads) padmid = true; if (b64val(c) < 0) junk++; }
	}
	bool hi = false, ctl = false; // bytes outside printable ASCII: they index the upper half of the inverse table / go through the char classifiers
	for (int i = 0; i < L; i++) { unsigned char c = s[i]; if (c >= 0x80) hi = true; if (c == 0x7f || (c < 0x20 && !is_ws((char)c))) ctl = true; }
	bool nul = s.find('\0') != std::string::npos; // a NUL byte inside the text (String and explicit-length forms take all L bytes; the char* form sees the text up to it)
	bool seen = false; // the witnesses count texts that reached the decoder in at least one form
	auto witness = [&]() {
		if (seen) return;
		seen = true;
		if (L < 4) vf::add(W_LT4);
		if (sym % 4) vf::add(W_LEFTOVER);
		if (pads && pads == sym) vf::add(W_PADONLY);
		if (padmid) vf::add(W_PADMID);
		if (junk) vf::add(W_JUNK);
		if (hi) vf::add(W_B64_HI);
		if (ctl) vf::add(W_B64_CTL);
		if (nul) vf::add(W_B64_TXT_NUL);
	};
	if (form_on(F_B64_STRING)) { String t = vfx::A(s); malformed_result(flush_call(t, [&]() { return decodeBase64(t); }), "b64_oob", W("decodeBase64(String " + show(s) + ")"), kase); witness(); }
	vfx::FlushBuf fb(s);
	if (form_on(F_B64_CHARP)) { malformed_result(decodeBase64(fb.p), "b64_oob", W("decodeBase64(char* " + show(s) + ")"), kase); witness(); }
	setsig("b64_explicit_len");
	for (int n = 0; n < L; n++) { // the text is the first n characters of a longer NUL-terminated buffer
		if (!form_on(F_B64_N_NUL)) break;
		malformed_result(decodeBase64(fb.p, n), "b64_explicit_len", W("decodeBase64(char* " + show(s) + fmt(", n=%d)", n)), kase);
		vf::add(W_NLT);
	}
	if (form_on(F_B64_N_TIGHT)) {
		Tight tt(s);
		malformed_result(decodeBase64((const char*)tt.p, L), "b64_explicit_len", W("decodeBase64(unterminated buffer " + show(s) + fmt(", n=%d)", L)), kase);
		witness();
	}
}

// ------------------------------------------------------------------------------------------------
// (H) arbitrary hex text
// ------------------------------------------------------------------------------------------------
static void check_hex_text(const std::string& s) {
	std::string kase = "hexbad:" + vf::hex(s);
	setcur(kase, "crash");
	vf::add(C_DISTINCT);
	bool lower = true, anyhex = true, hi = false, ctl = false;
	for (size_t i = 0; i < s.size(); i++) {
		unsigned char c = s[i];
		if (!((c >= '0' && c <= '9') || (c >= 'a' && c <= 'f'))) lower = false;
		if (hexval(s[i]) < 0) anyhex = false;
		if (c >= 0x80) hi = true;
		if (c == 0x7f || (c < 0x20 && !is_ws((char)c))) ctl = true;
	}
	if (!form_on(s.size() % 2 ? F_HEX_ODD : F_HEX_EVEN)) return;
	String t = vfx::A(s);
	ByteArray r = flush_call(t, [&]() { return decodeHex(t); });
	vf::add(C_EVAL);
	// witnesses: texts that reached the decoder
	if (s.size() % 2) { vf::add(W_HEX_ODD); if (s.size() >= 7) vf::add(W_HEX_ODD7); } else vf::add(W_HEX_EVEN);
	if (!anyhex) vf::add(W_HEX_NONHEX);
	if (hi) vf::add(W_HEX_HI);
	if (ctl) vf::add(W_HEX_CTL);
	if (s.find('\0') != std::string::npos) vf::add(W_HEX_TXT_NUL);
	if (r.length() < 0) { bad("hex_neg_length", "decodeHex(" + show(s) + ") returned length " + fmt("%d", r.length()), kase); asan_clear(); return; }
	if (asan("hex_oob", W("decodeHex(" + show(s) + ")" + (s.size() % 2 ? fmt(" (odd length %d)", (int)s.size()) : std::string())), kase)) return;
	Bytes d;
	if (lower && ref_hexdec(s, d)) { // s is the lowercase-hex text of d
		vf::add(W_HEX_VALID);
		if (!same(r, d)) bad("hex_decode", "decodeHex(" + show(s) + ") = " + showarr(r) + ", expected " + vf::hex(d.substr(0, 24)), kase);
	} else if (ref_hexdec(s, d)) { // complete pairs of hex digits with upper-case letters among them: the same bytes (own signature: the statement only names the lowercase text)
		vf::add(W_HEX_MIXED);
		if (!same(r, d)) bad("hex_decode_upper", "decodeHex(" + show(s) + ") = " + showarr(r) + ", expected " + vf::hex(d.substr(0, 24)), kase);
	}
}

// ------------------------------------------------------------------------------------------------
// (U) Url::encode / decode, (Q) params / parseQuery
// ------------------------------------------------------------------------------------------------
// deterministic URL-ish contents of a given length: 0 only characters that are never escaped, 1 only characters that are escaped in component
// mode (among them '%', '+', '&', '=', UTF-8 and control bytes), 2 alternating, 3 like 2 with a NUL byte at every third position (i = 1, 4, 7, ...; the
// position moves with the length), 4 only NUL bytes
enum { NUPAT = 5 };
static Bytes url_content(size_t len, int pat) {
	static const char PL[] = "abcXYZ019-_.~", ES[] = " %+&=/\xc3\xa9\x01\"<\xff?#";
	Bytes b(len, 'a');
	if (pat == 4) return Bytes(len, '\0');
	for (size_t i = 0; i < len; i++) {
		bool plain = pat == 0 || (pat >= 2 && i % 2 == 0);
		b[i] = plain ? PL[(i * 5 + len) % (sizeof PL - 1)] : ES[(i * 3 + len) % (sizeof ES - 1)];
		if (pat == 3 && (i + len) % 3 == 1) b[i] = '\0';
	}
	return b;
}
static void check_url(const Bytes& s, int mode, const std::string& kase0 = std::string()) {
	std::string kase = kase0.empty() ? fmt("url:%d:", mode) + vf::hex(s) : kase0;
	setcur(kase, "crash");
	vf::add(C_DISTINCT);
	if (!form_on(F_URL)) return;
	vf::add(C_EVAL);
	String in = vfx::A(s);
	String e = flush_call(in, [&]() { return Url::encode(in, mode != 0); });
	if (asan("url_oob", W("Url::encode(" + show(s) + fmt(", %d)", mode)), kase)) return;
	String d = flush_call(e, [&]() { return Url::decode(e); });
	if (asan("url_oob", W("Url::decode(" + show(vfx::S(e)) + ")"), kase)) return;
	std::string es = vfx::S(e);
	bool nul = s.find('\0') != std::string::npos, bnd = false;
	for (size_t i = 0; i < s.size(); i++) if (is_bnd((unsigned char)s[i])) bnd = true;
	if (nul) { vf::add(W_URL_NUL); if (s.size() >= ASL_STR_SPACE) vf::add(W_URL_NUL_LONG); }
	if (bnd) vf::add(W_URL_BND);
	// the encoded text is a C string of percent-encoded form: no raw NUL (strlen == length), nothing but URL characters and %XX triplets
	vf::add(W_URL_FORM);
	if (strlen(*e) != (size_t)e.length() || !ref_pct_valid(es))
		bad("url_encode_form", "Url::encode(" + show(s) + fmt(", component=%d) = ", mode) + show(es) + fmt(" (length %d, strlen %d)", e.length(), (int)strlen(*e)) +
		    (strlen(*e) != (size_t)e.length() ? ": a raw NUL byte in the encoded text" : ": not a percent-encoded text (RFC 3986 characters and %XX only)"), kase);
	if (es == s) vf::add(W_URL_PLAIN); else vf::add(W_URL_ESC);
	if (mode == 1 && es != ref_quote(s, 0)) vf::add(W_URL_MODE);
	if (es == ref_quote(s, mode)) vf::add(N_URL_STD); // informational: the statement only demands the round trip
	if (es.size() >= ASL_STR_SPACE) vf::add(W_URL_LONG); // the encoded text does not fit the String's inline buffer
	if (s.size() >= ASL_STR_SPACE) vf::add(W_URL_IN16);
	if (vfx::S(d) != s) bad("url_roundtrip", "Url::decode(Url::encode(" + show(s) + fmt(", component=%d)) : encoded ", mode) + show(es) + " decodes to " + show(vfx::S(d)), kase);
}
static void check_urldec(const std::string& s) {
	std::string kase = "urldec:" + vf::hex(s);
	setcur(kase, "crash");
	vf::add(C_DISTINCT);
	if (!form_on(F_URL)) return;
	vf::add(C_EVAL);
	String in = vfx::A(s);
	String d = flush_call(in, [&]() { return Url::decode(in); });
	if (asan("url_oob", W("Url::decode(" + show(s) + ")"), kase)) return;
	bool well = true, lowerhex = false; // every '%' followed by two hex digits?
	for (size_t i = 0; i < s.size(); i++)
		if (s[i] == '%') {
			if (i + 2 < s.size() && hexval(s[i + 1]) >= 0 && hexval(s[i + 2]) >= 0) { if (s[i + 1] >= 'a' || s[i + 2] >= 'a') lowerhex = true; i += 2; }
			else well = false;
		}
	if (!well) { vf::add(W_URL_MALFORMED); return; } // a truncated or non-hex escape was met: no value is demanded for it
	// a raw NUL byte in the text: Url::encode never produces one (url_encode_form) and asl's String functions are free to treat the text as a C string there
	// (parseQuery's own replace / split do): the call was made and stayed in bounds, no value is demanded. "%00" is a different matter and is compared.
	if (s.find('\0') != std::string::npos) { vf::add(N_URLDEC_RAWNUL); return; }
	Bytes exp = ref_unquote(s);
	if (exp.find('\0') != std::string::npos) vf::add(W_URLDEC_NUL); // "%00": an asl::String holds the decoded NUL like any other byte
	// well-formed percent-coded text, hex digits of either case (own signature: the statement judges decode on encode's output, which is upper case)
	vf::add(W_URL_WELL); if (lowerhex) vf::add(W_URL_LOWER);
	if (vfx::S(d) != exp) bad("url_decode_value", "Url::decode(" + show(s) + ") = " + show(vfx::S(d)) + ", RFC 3986 gives " + show(exp), kase);
}
typedef std::vector<std::pair<Bytes, Bytes> > Entries;
// dictionaries of 3 or 4 entries with longer values: E entries (keys: four fixed keys with separators, for E = 3 without number `sub`; variant 2: long keys
// of distinct lengths), values of length L: variant 0 all alike, variant 1 of lengths L, L+1, 40-L (or 0), 0 with different contents; variant 3: the four
// keys with a NUL byte after their first byte, inside, at their end and first of all (a\0z, b&\0, %\0=, \0k k), values as in variant 1. pat as in url_content
// (3, 4: values with NUL bytes)
static Entries query_gen(int E, int sub, int pat, int L, int var) {
	static const char* K4[] = { "a", "b&", "%=", "k k" };
	static const Bytes K4N[] = { Bytes("a\0z", 3), Bytes("b&\0", 3), Bytes("%\0=", 3), Bytes("\0k k", 4) };
	Entries en;
	int j = 0;
	bool nulkeys = var == 3, longnul = var == 4;
	if (var == 3) var = 1; // values as in variant 1
	if (var == 4) var = 0; // variant 4: long keys of distinct lengths with NUL bytes in them, values as in variant 0
	for (int i = 0; i < 4 && j < E; i++) {
		if (E == 3 && i == sub) continue;
		Bytes key = var == 2 ? url_content(L + 1 + i, (pat + i) % 3) : nulkeys ? K4N[i] : longnul ? url_content(L + 2 + i, 3) : Bytes(K4[i]);
		int p1 = pat < 3 ? (pat + 1) % 3 : pat, p2 = pat < 3 ? (pat + 2) % 3 : 7 - pat; // patterns 3 and 4 (NUL bytes) stay among themselves
		Bytes val = var != 1 ? url_content(L, pat) : j == 0 ? url_content(L, pat) : j == 1 ? url_content(L + 1, p1) : j == 2 ? url_content(L <= 40 ? 40 - L : 0, p2) : Bytes();
		en.push_back(std::make_pair(key, val));
		j++;
	}
	return en;
}
static void check_query(const Entries& en, const std::string& kase0 = std::string()) {
	std::string kase = kase0.empty() ? "query" : kase0;
	for (size_t i = 0; i < en.size() && kase0.empty(); i++) kase += ":" + vf::hex(en[i].first) + ":" + vf::hex(en[i].second);
	setcur(kase, "crash");
	vf::add(C_DISTINCT);
	if (!form_on(F_QUERY)) return;
	vf::add(C_EVAL);
	std::map<Bytes, Bytes> model;
	Dic<> d;
	// a Dic orders and identifies its keys as C strings: two keys that agree up to their first NUL byte are one key, so such a list of entries is not a
	// dictionary with that many entries (the smaller dictionary it collapses to is enumerated on its own): counted, nothing demanded
	for (size_t i = 0; i < en.size(); i++)
		for (size_t j = 0; j < i; j++)
			if (strcmp(en[i].first.c_str(), en[j].first.c_str()) == 0) { vf::add(N_Q_SAMEKEY); return; }
	auto ddf = [&]() { std::string x = "{"; for (size_t i = 0; i < en.size(); i++) x += (i ? ", " : "") + show(en[i].first) + ": " + show(en[i].second); return x + "}"; };
	for (size_t i = 0; i < en.size(); i++) {
		d[vfx::A(en[i].first)] = vfx::A(en[i].second);
		model[en[i].first] = en[i].second;
		if (en[i].second.empty()) vf::add(W_Q_EMPTYV);
		if ((en[i].first + en[i].second).find_first_of("&=+ %") != std::string::npos) vf::add(W_Q_SPECIAL);
		if (en[i].second.size() >= ASL_STR_SPACE) vf::add(W_Q_LONGV);
	}
	bool nulv = false, nulk = false, nulk0 = false, bnd = false;
	for (size_t i = 0; i < en.size(); i++) {
		if (en[i].second.find('\0') != std::string::npos) nulv = true;
		if (en[i].first.find('\0') != std::string::npos) nulk = true;
		if (en[i].first[0] == '\0') nulk0 = true;
		for (size_t k = 0; k < en[i].first.size() + en[i].second.size(); k++) { unsigned char c = k < en[i].first.size() ? en[i].first[k] : en[i].second[k - en[i].first.size()]; if (c == 0x7f || c == 0x80 || c == 0xff || c == '^' || c == '`' || c == '{' || c == '[') bnd = true; }
	}
	if (nulv) vf::add(W_Q_NULV);
	if (nulk) vf::add(W_Q_NULK);
	if (nulk0) vf::add(W_Q_NULK0);
	if (bnd) vf::add(W_Q_BND);
	if ((nulv || nulk) && model.size() >= 3) vf::add(W_Q_NUL3);
	if ((size_t)d.length() != en.size() || model.size() != en.size()) { fprintf(stderr, "c15: %s: the Dic built from %d entries with distinct keys has %d entries (harness error)\n", kase.c_str(), (int)en.size(), d.length()); _exit(2); }
	if (model.size() >= 2) vf::add(W_Q_TWO);
	if (model.size() >= 3) vf::add(W_Q_3);
	String p = Url::params(d);
	if (asan("url_oob", W("Url::params(" + ddf() + ")"), kase)) return;
	// the query string is a C string of percent-encoded form, like the output of Url::encode it is made of
	vf::add(W_Q_FORM);
	if (strlen(*p) != (size_t)p.length() || !ref_pct_valid(vfx::S(p)))
		bad("url_encode_form", "Url::params(" + ddf() + ") = " + show(vfx::S(p)) + fmt(" (length %d, strlen %d)", p.length(), (int)strlen(*p)) +
		    (strlen(*p) != (size_t)p.length() ? ": a raw NUL byte in the query string" : ": not a percent-encoded text (RFC 3986 characters and %XX only)"), kase);
	Dic<> q = flush_call(p, [&]() { return Url::parseQuery(p); });
	if (asan("url_oob", W("Url::parseQuery(" + show(vfx::S(p)) + ")"), kase)) return;
	std::map<Bytes, Bytes> got;
	foreach2(String& k, const String& v, q) got[vfx::S(k)] = vfx::S(v);
	if (got != model || (size_t)q.length() != model.size()) {
		std::string gg = "{";
		for (std::map<Bytes, Bytes>::iterator it = got.begin(); it != got.end(); ++it) gg += (gg.size() > 1 ? ", " : "") + show(it->first) + ": " + show(it->second);
		bad("query_roundtrip", "Url::parseQuery(Url::params(" + ddf() + ")): query string " + show(vfx::S(p)) + " parses to " + gg + fmt("} (%d entries)", q.length()), kase);
	}
}

// ------------------------------------------------------------------------------------------------
// (S) SHA-1
// ------------------------------------------------------------------------------------------------
static void check_sha(const Bytes& m, const std::string& kase, bool forms) {
	setcur(kase, "crash");
	vf::add(C_DISTINCT);
	size_t n = m.size(), r = n % 64;
	if (!form_on(F_SHA)) return;
	Bytes exp = ref_sha1(m);
	{
		Tight t(m);
		SHA1::Hash h = SHA1::hash(t.p, (int)n);
		vf::add(C_EVAL);
		// witnesses: messages that were hashed
		vf::add(r <= 55 ? W_SHA_1BLK : W_SHA_2BLK);
		if (r == 55 || r == 56 || r == 63 || r == 0) vf::add(W_SHA_EDGE);
		if (n >= 128) vf::add(W_SHA_DIRECT);
		if (n >= (1u << 20)) vf::add(W_SHA_LARGE);
		if (!asan("sha_oob", W(fmt("SHA1::hash(ptr, %d)", (int)n)), kase) && memcmp(&h[0], exp.data(), 20) != 0)
			bad("sha1", fmt("SHA1::hash(%d-byte message ", (int)n) + vf::hex(m.substr(0, 16)) + (n > 16 ? "..." : "") + ") = " + vf::hex(&h[0], 20) + ", FIPS 180-4 gives " + vf::hex(exp), kase);
	}
	if (!forms || !form_on(F_SHA)) return;
	{
		ByteArray a((const byte*)m.data(), (int)n);
		SHA1::Hash h = SHA1::hash(a);
		vf::add(C_EVAL);
		if (!asan("sha_oob", W("SHA1::hash(ByteArray)"), kase) && memcmp(&h[0], exp.data(), 20) != 0) bad("sha1", fmt("SHA1::hash(ByteArray of %d bytes) = ", (int)n) + vf::hex(&h[0], 20) + ", FIPS 180-4 gives " + vf::hex(exp), kase);
	}
	bool hasnul = memchr(m.data(), 0, n) != 0;
	if (form_on(F_SHA)) { // String form: the message is the String's length() bytes, NUL bytes included
		String s = vfx::A(m);
		SHA1::Hash h = flush_call(s, [&]() { return SHA1::hash(s); });
		vf::add(C_EVAL);
		if (hasnul) vf::add(W_SHA_STR_NUL);
		if (!asan("sha_oob", W("SHA1::hash(String)"), kase) && memcmp(&h[0], exp.data(), 20) != 0)
			bad("sha1", fmt("SHA1::hash(String of %d bytes%s ", (int)n, hasnul ? " with NUL bytes" : "") + vf::hex(m.substr(0, 16)) + (n > 16 ? "..." : "") + ") = " + vf::hex(&h[0], 20) + ", FIPS 180-4 gives " + vf::hex(exp), kase);
	}
	if (!hasnul && form_on(F_SHA)) { // C string form
		vfx::FlushBuf fb(m);
		SHA1::Hash h2 = SHA1::hash((const char*)fb.p);
		vf::add(C_EVAL);
		if (!asan("sha_oob", W("SHA1::hash(char*)"), kase) && memcmp(&h2[0], exp.data(), 20) != 0)
			bad("sha1", fmt("SHA1::hash(char* of %d bytes) = ", (int)n) + vf::hex(&h2[0], 20) + ", FIPS 180-4 gives " + vf::hex(exp), kase);
	}
}

// Messages of 256 MiB and more (the bit length no longer fits 31 / 32 bits): all-zero content, pointer form only. The message is a read-only
// anonymous mapping (never written, so it costs no memory) that ends exactly at an inaccessible page: a read past the end kills the process,
// which is reported as a violation of this case.
struct ZeroMap {
	unsigned char* base; size_t total; const unsigned char* p;
	explicit ZeroMap(size_t len) {
		size_t pg = (size_t)sysconf(_SC_PAGESIZE), body = (len + pg - 1) / pg * pg;
		total = body + pg;
		base = (unsigned char*)mmap(0, total, PROT_READ, MAP_PRIVATE | MAP_ANONYMOUS | MAP_NORESERVE, -1, 0);
		if (base == MAP_FAILED) { fprintf(stderr, "c15: mmap of %lu bytes failed\n", (unsigned long)total); _exit(2); }
		mprotect(base + body, pg, PROT_NONE);
		p = base + body - len;
	}
	~ZeroMap() { munmap(base, total); }
};
static std::vector<size_t> zero_lengths(bool thorough) {
	std::vector<size_t> v;
	const size_t b28 = (size_t)1 << 28, b29 = (size_t)1 << 29;
	v.push_back(b28 - 1); v.push_back(b28); v.push_back(b28 + 1); v.push_back(b29 + 1);
	if (thorough) { v.push_back(b29 - 1); v.push_back(b29); v.push_back(b29 + b28); v.push_back(2 * b29 + 1); v.push_back(4 * b29 - 1); } // ... to the largest int
	return v;
}
static Bytes zero_ref(size_t len) { // reference digest: computed once in the parent (and confirmed by python) when it is one of the registered lengths
	for (int i = 0; SH && i < MAXZERO; i++) if (len && SH->zlen[i] == len) return Bytes((const char*)SH->zref[i], 20);
	ZeroMap z(len);
	return ref_sha1(z.p, len);
}
static void check_sha_zero(size_t len) {
	std::string kase = fmt("shazero:%lu", (unsigned long)len);
	setcur(kase, "crash");
	vf::add(C_DISTINCT);
	if (len > 0x7fffffffu) { fprintf(stderr, "c15: %s: the length does not fit the int parameter\n", kase.c_str()); exit(2); }
	if (!form_on(F_SHA)) return;
	Bytes exp = zero_ref(len);
	ZeroMap z(len);
	setsig("sha_oob");
	SHA1::Hash h = SHA1::hash(z.p, (int)len);
	setsig("crash");
	vf::add(C_EVAL);
	size_t r = len % 64;
	vf::add(r <= 55 ? W_SHA_1BLK : W_SHA_2BLK);
	if (r == 55 || r == 56 || r == 63 || r == 0) vf::add(W_SHA_EDGE);
	vf::add(W_SHA_DIRECT); vf::add(W_SHA_LARGE);
	if (len >= ((size_t)1 << 28)) vf::add(W_SHA_HUGE);
	if (len >> 29) vf::add(W_SHA_HIGHWORD); // 8 * len >= 2^32: a correct bit count has a non-zero high word
	if (!asan("sha_oob", W(fmt("SHA1::hash(ptr, %lu)", (unsigned long)len)), kase) && memcmp(&h[0], exp.data(), 20) != 0)
		bad(len >= ((size_t)1 << 28) ? "sha1_huge_message" : "sha1", fmt("SHA1::hash(%lu zero bytes [8 * length = 0x%llx]) = ", (unsigned long)len, (unsigned long long)len * 8) + vf::hex(&h[0], 20) + ", FIPS 180-4 gives " + vf::hex(exp), kase);
}

// The memory oracle must be live, otherwise every "stays in bounds" judgement is vacuous: deliberate overruns of the three buffer kinds the harness
// uses (exact-size block, String with poisoned slack, NUL-terminated exact-size block) and one 1-byte write overrun must each be reported through the
// callback and classified as read / write. Runs in a sacrificial sub-process.
static void asan_selftest() {
	setcur("selftest", "crash");
	volatile unsigned char sink = 0;
	{ Tight t(Bytes("abc")); volatile const unsigned char* q = t.p; asan_clear(); sink = sink + q[3]; if (a_flag && !a_corrupting && strstr(a_msg, "heap-buffer-overflow")) vf::add(W_SELF_READ); }
	{ String s = vfx::A("abc"); vfx::Flush fl(s); volatile const char* q = *s; asan_clear(); sink = sink + q[5]; if (a_flag && !a_corrupting) vf::add(W_SELF_POISON); }
	{ String s = vfx::A(Bytes(40, 'x')); vfx::Flush fl(s); volatile const char* q = *s; asan_clear(); sink = sink + q[41]; if (a_flag && !a_corrupting) vf::add(W_SELF_POISON); }
	{ // reads of a String's own slack: harmless when the result does not depend on them (whole-buffer copy), a finding when it does (index past the text)
		String s = vfx::A("abc"), s40 = vfx::A(Bytes(40, 'x'));
		asan_clear();
		String c = flush_call(s, [&]() { char tmp[8]; const volatile char* q = *s; for (int i = 0; i < 8; i++) tmp[i] = q[i]; return String(tmp, s.length()); }); // copies 4 bytes of slack too
		if (!a_flag && vfx::S(c) == "abc") vf::add(W_SELF_SLACK_OK);
		asan_clear();
		String e = flush_call(s, [&]() { const volatile char* q = *s; char x = q[s.length() + 2]; return String(&x, 1); });
		if (a_flag && !a_corrupting && strstr(a_msg, "depends")) vf::add(W_SELF_SLACK_DEP);
		asan_clear();
		String g = flush_call(s40, [&]() { const volatile char* q = *s40; char x = q[s40.length() + 1]; return String(&x, 1); }); // heap String: slack or redzone, a finding either way
		if (a_flag && !a_corrupting) vf::add(W_SELF_SLACK_DEP);
		asan_clear();
	}
	{ vfx::FlushBuf fb("abc"); volatile const char* q = fb.p; asan_clear(); sink = sink + q[4]; if (a_flag && !a_corrupting) vf::add(W_SELF_READ); }
	{ // the inaccessible page behind a mapped message: the overrun must kill the (grand)child
		fflush(stdout); fflush(stderr);
		pid_t pid = fork();
		if (pid == 0) { ZeroMap z(5000); volatile const unsigned char* q = z.p; sink = sink + q[4999]; sink = sink + q[5000]; _exit(0); }
		int st = 0;
		while (pid > 0 && waitpid(pid, &st, 0) < 0 && errno == EINTR) {}
		if (pid > 0 && !(WIFEXITED(st) && WEXITSTATUS(st) == 0)) vf::add(W_SELF_GUARD);
	}
	{ Tight t(Bytes(24, 'x')); volatile unsigned char* q = t.p; asan_clear(); q[24] = 1; if (a_flag && a_corrupting && strstr(a_msg, "WRITE")) vf::add(W_SELF_WRITE); }
	asan_clear();
	_exit(0); // the write overrun may have damaged allocator metadata: no destructors, no further cases in this process
}

// ------------------------------------------------------------------------------------------------
// enumeration helpers
// ------------------------------------------------------------------------------------------------
static const char A64[] = "A/+= \n!z";       // Base64 symbols, padding, whitespace, junk
static const char AHEX[] = "09aFg ";         // hex digits of both cases, a non-digit, whitespace
static const char AURL[] = "a %+&=/\xc3\xa9\x01~";
static const char AUDEC[] = "%a0Fg+\xc3";
// the same alphabets with the NUL byte (an asl::String is counted, String(ptr, n): it holds a NUL like any other byte)
static const char AURL0[] = "a %+&=/\xc3\xa9\x01~\0", AUDEC0[] = "%a0Fg+\xc3\0";
enum { NURL0 = sizeof AURL0 - 1, NUDEC0 = sizeof AUDEC0 - 1 };
static uint64_t ipow(uint64_t b, int e) { uint64_t r = 1; while (e-- > 0) r *= b; return r; }
static std::string nth(const char* alpha, int na, int len, uint64_t idx) { // most significant symbol first
	std::string s(len, ' ');
	for (int i = len - 1; i >= 0; i--) { s[i] = alpha[idx % na]; idx /= na; }
	return s;
}
// the idx-th string in shortlex order over alpha (idx 0 = empty string)
static std::string shortlex(const char* alpha, uint64_t idx) {
	int na = (int)strlen(alpha), len = 0;
	uint64_t n = 1;
	while (idx >= n) { idx -= n; n *= na; len++; }
	return nth(alpha, na, len, idx);
}
// alphabets given with their size (they may contain NUL)
static std::string shortlex(const char* alpha, int na, uint64_t idx) {
	int len = 0;
	uint64_t n = 1;
	while (idx >= n) { idx -= n; n *= na; len++; }
	return nth(alpha, na, len, idx);
}
static uint64_t count_upto(int na, int maxlen) { uint64_t t = 0; for (int l = 0; l <= maxlen; l++) t += ipow(na, l); return t; }
static std::vector<Bytes> strings_upto(const char* alpha, int na, int maxlen) {
	std::vector<Bytes> v;
	uint64_t n = count_upto(na, maxlen);
	for (uint64_t i = 0; i < n; i++) v.push_back(shortlex(alpha, na, i));
	return v;
}
static uint64_t count_upto(const char* alpha, int maxlen) { uint64_t t = 0; for (int l = 0; l <= maxlen; l++) t += ipow(strlen(alpha), l); return t; }
static std::vector<Bytes> strings_upto(const char* alpha, int maxlen) {
	std::vector<Bytes> v;
	uint64_t n = count_upto(alpha, maxlen);
	for (uint64_t i = 0; i < n; i++) v.push_back(shortlex(alpha, i));
	return v;
}
static std::vector<size_t> big_lengths(int maxlog) { std::vector<size_t> v; for (int k = 11; k <= maxlog; k++) { v.push_back(((size_t)1 << k) - 1); v.push_back((size_t)1 << k); v.push_back(((size_t)1 << k) + 1); } return v; }
static Bytes bytes2(int a, int b) { Bytes d(2, (char)a); d[1] = (char)b; return d; }

// ------------------------------------------------------------------------------------------------
// references vs python3 stdlib
// ------------------------------------------------------------------------------------------------
static std::string hx(const std::string& s) { return s.empty() ? "-" : vf::hex(s); }
static void xfile(FILE* f, int& nfile, const char* kind, const std::string& in, const std::string& exp) {
	std::string a = vf::scratch_dir() + fmt("/x%d.in", nfile), b = vf::scratch_dir() + fmt("/x%d.exp", nfile);
	nfile++;
	FILE* g = fopen(a.c_str(), "wb"); fwrite(in.data(), 1, in.size(), g); fclose(g);
	g = fopen(b.c_str(), "wb"); fwrite(exp.data(), 1, exp.size(), g); fclose(g);
	fprintf(f, "F:%s %s %s\n", kind, a.c_str(), b.c_str());
}
static void crosscheck_python() {
	std::string fn = vf::scratch_dir() + "/cases.txt";
	FILE* f = fopen(fn.c_str(), "w");
	if (!f) { fprintf(stderr, "c15: cannot write %s\n", fn.c_str()); exit(2); }
	uint64_t lines = 0;
	int nfile = 0;
	std::vector<Bytes> arrays;
	arrays.push_back(Bytes());
	for (int a = 0; a < 256; a++) arrays.push_back(Bytes(1, (char)a));
	for (int a = 0; a < 256; a++) for (int b = 0; b < 256; b++) arrays.push_back(bytes2(a, b));
	for (int a = 0; a < 64; a++) for (int b = 0; b < 64; b++) { Bytes d(3, (char)(a * 4 + 1)); d[1] = (char)(b * 4 + 2); d[2] = (char)(a * 64 + b); arrays.push_back(d); }
	for (size_t len = 0; len <= 1024; len++) for (int k = 0; k < NKIND; k++) arrays.push_back(content(len, k));
	for (size_t len = 65534; len <= 65538; len++) arrays.push_back(content(len, 3));
	for (size_t i = 0; i < arrays.size(); i++) {
		const Bytes& d = arrays[i];
		std::string t = ref_b64enc(d), h = ref_hexenc(d);
		Bytes back, hback;
		if (!ref_b64dec(t, back) || back != d || !ref_hexdec(h, hback) || hback != d) { fprintf(stderr, "c15: reference decoder does not invert reference encoder on %s\n", vf::hex(d.substr(0, 16)).c_str()); exit(2); }
		fprintf(f, "b64e %s %s\nb64d %s %s\nhexe %s %s\nhexd %s %s\n", hx(d).c_str(), hx(t).c_str(), hx(t).c_str(), hx(d).c_str(), hx(d).c_str(), hx(h).c_str(), hx(h).c_str(), hx(d).c_str());
		fprintf(f, "sha1 %s %s\n", hx(d).c_str(), hx(ref_sha1(d)).c_str());
		lines += 5;
		if (d.size() <= 6 || (d.size() <= 96 && i % 4 == 3)) { // whitespace is discarded by the standard decoder as by strip_ws()
			for (size_t pos = 0; pos <= t.size(); pos++) {
				std::string w = t.substr(0, pos) + WS[pos % 4] + t.substr(pos) + WS[(pos + 1) % 4];
				if (strip_ws(w) != t) { fprintf(stderr, "c15: strip_ws broken\n"); exit(2); }
				fprintf(f, "b64d %s %s\n", hx(w).c_str(), hx(d).c_str()); lines++;
				if (d.size() > 2) pos += 2;
			}
		}
	}
	{ // large inputs through files
		Bytes d = content((1u << 20) + 1, 3), e = content(1u << 22, 3);
		xfile(f, nfile, "b64e", d, ref_b64enc(d)); xfile(f, nfile, "b64e", e, ref_b64enc(e)); xfile(f, nfile, "hexe", d, ref_hexenc(d));
		xfile(f, nfile, "sha1", d, ref_sha1(d)); xfile(f, nfile, "sha1", e, ref_sha1(e));
		Bytes g = content(1u << 23, 3), g1 = content((1u << 23) - 9, 2);
		xfile(f, nfile, "sha1", g, ref_sha1(g)); xfile(f, nfile, "sha1", g1, ref_sha1(g1));
		lines += 7;
	}
	for (int i = 0; i < MAXZERO; i++) // all-zero messages of 256 MiB and more: python hashes the same number of zero bytes
		if (SH->zlen[i]) { fprintf(f, "Z:sha1 %llu %s\n", (unsigned long long)SH->zlen[i], vf::hex(SH->zref[i], 20).c_str()); lines++; }
	{ // hex text with upper-case digits
		std::vector<Bytes> hs = strings_upto("09aFbC", 4);
		for (size_t i = 0; i < hs.size(); i++) { Bytes d; if (hs[i].empty() || !ref_hexdec(hs[i], d)) continue; fprintf(f, "hexd %s %s\n", hx(hs[i]).c_str(), hx(d).c_str()); lines++; }
	}
	for (size_t len = 1025; len <= 4200; len += 61) { Bytes d = content(len, 3); fprintf(f, "sha1 %s %s\n", hx(d).c_str(), hx(ref_sha1(d)).c_str()); lines++; }
	// percent-coding: every single byte, every string <= 3 over the URL alphabet, both modes; decoding of well-formed text
	// (alphabets with the NUL byte; every pair over the boundary bytes); the validity predicate on the quoted texts, on the raw strings and on the decoder texts
	std::vector<Bytes> us = strings_upto(AURL0, NURL0, 3);
	for (int c = 0; c < 256; c++) us.push_back(Bytes(1, (char)c));
	{ std::vector<Bytes> ub = strings_upto(ABND, NBND, 2); us.insert(us.end(), ub.begin() + 1, ub.end()); }
	for (int pat = 0; pat < NUPAT; pat++) { us.push_back(url_content(40, pat)); us.push_back(url_content(41, pat)); us.push_back(url_content(42, pat)); }
	for (size_t i = 0; i < us.size(); i++) {
		for (int mode = 0; mode < 2; mode++) {
			std::string q = ref_quote(us[i], mode);
			if (ref_unquote(q) != us[i]) { fprintf(stderr, "c15: reference unquote does not invert reference quote\n"); exit(2); }
			if (!ref_pct_valid(q)) { fprintf(stderr, "c15: reference quote gives a text the reference validity predicate rejects\n"); exit(2); }
			fprintf(f, "urlq%d %s %s\nurlu %s %s\nurlok %s 01\n", mode, hx(us[i]).c_str(), hx(q).c_str(), hx(q).c_str(), hx(us[i]).c_str(), hx(q).c_str());
			lines += 3;
		}
		fprintf(f, "urlok %s %s\n", hx(us[i]).c_str(), ref_pct_valid(us[i]) ? "01" : "00"); lines++;
	}
	std::vector<Bytes> ud = strings_upto(AUDEC0, NUDEC0, 4); // also malformed escapes: python leaves them as they are, like ref_unquote
	for (size_t i = 0; i < ud.size(); i++) { fprintf(f, "urlu %s %s\nurlok %s %s\n", hx(ud[i]).c_str(), hx(ref_unquote(ud[i])).c_str(), hx(ud[i]).c_str(), ref_pct_valid(ud[i]) ? "01" : "00"); lines += 2; }
	fclose(f);
	std::string out = vf::scratch_dir() + "/python.out";
	std::string cmd = "python3 /verif/tools/ref_c15.py '" + fn + "' > '" + out + "' 2>&1";
	int rc = system(cmd.c_str());
	std::string txt;
	if (FILE* g = fopen(out.c_str(), "r")) { char buf[4096]; size_t k; while ((k = fread(buf, 1, sizeof buf, g)) > 0) txt.append(buf, k); fclose(g); }
	if (!WIFEXITED(rc) || WEXITSTATUS(rc) != 0 || txt.find(fmt("total %llu mismatches 0", (unsigned long long)lines)) == std::string::npos) {
		fprintf(stderr, "c15: the C++ reference implementations disagree with python3's stdlib (or python3 failed, rc=%d):\n%s\n", rc, txt.substr(0, 3000).c_str());
		exit(2);
	}
	vf::setinfo("reference_cases_confirmed_by_python_stdlib", fmt("%llu", (unsigned long long)lines));
	std::string kinds;
	size_t p = 0;
	while ((p = txt.find("ok ", p)) != std::string::npos) { size_t e = txt.find('\n', p); kinds += (kinds.empty() ? "" : ", ") + txt.substr(p + 3, e - p - 3); p = e; }
	vf::setinfo("python_confirmed_per_kind", vf::jstr(kinds));
	for (int i = 0; i < nfile; i++) { remove((vf::scratch_dir() + fmt("/x%d.in", i)).c_str()); remove((vf::scratch_dir() + fmt("/x%d.exp", i)).c_str()); }
	remove(fn.c_str()); remove(out.c_str());
}

// ------------------------------------------------------------------------------------------------
static Entries parse_query_case(const std::string& k) {
	Entries en;
	std::vector<std::string> f;
	size_t p = 5;
	while (p < k.size() && k[p] == ':') { size_t e = k.find(':', p + 1); if (e == std::string::npos) e = k.size(); f.push_back(k.substr(p + 1, e - p - 1)); p = e; }
	for (size_t i = 0; i + 1 < f.size(); i += 2) en.push_back(std::make_pair(vf::unhex(f[i]), vf::unhex(f[i + 1])));
	return en;
}
static void run_case(const std::string& k) {
	if (k.compare(0, 6, "bytes:") == 0) check_array(vf::unhex(k.substr(6)), k, true);
	else if (k.compare(0, 4, "gen:") == 0) { unsigned long len; int kind; sscanf(k.c_str() + 4, "%lu:%d", &len, &kind); check_array(content(len, kind), k, true); }
	else if (k.compare(0, 6, "b64ws:") == 0) check_ws_text(vf::unhex(k.substr(6)), k);
	else if (k.compare(0, 7, "b64bad:") == 0) check_b64_text(vf::unhex(k.substr(7)));
	else if (k.compare(0, 7, "hexbad:") == 0) check_hex_text(vf::unhex(k.substr(7)));
	else if (k.compare(0, 4, "url:") == 0) check_url(vf::unhex(k.substr(6)), k[4] - '0');
	else if (k.compare(0, 7, "urldec:") == 0) check_urldec(vf::unhex(k.substr(7)));
	else if (k.compare(0, 7, "urlgen:") == 0) { int mode = 0, pat = 0, len = 0; sscanf(k.c_str() + 7, "%d:%d:%d", &mode, &pat, &len); check_url(url_content(len, pat), mode, k); }
	else if (k.compare(0, 9, "querygen:") == 0) { int E = 3, sub = 0, pat = 0, L = 0, var = 0; sscanf(k.c_str() + 9, "%d:%d:%d:%d:%d", &E, &sub, &pat, &L, &var); check_query(query_gen(E, sub, pat, L, var), k); }
	else if (k.compare(0, 8, "shazero:") == 0) check_sha_zero(strtoull(k.c_str() + 8, 0, 10));
	else if (k.compare(0, 5, "query") == 0) check_query(parse_query_case(k));
	else if (k.compare(0, 4, "sha:") == 0) check_sha(vf::unhex(k.substr(4)), k, true);
	else if (k.compare(0, 7, "shagen:") == 0) { unsigned long len; int kind; sscanf(k.c_str() + 7, "%lu:%d", &len, &kind); check_sha(content(len, kind), k, true); }
	else { fprintf(stderr, "c15: unknown case '%s'\n", k.c_str()); exit(2); }
}

static std::string laps; static double lap_t;
static void lap(const char* name) { double t = vf::now_s(); laps += fmt("%s%s %.1f", laps.empty() ? "" : ", ", name, t - lap_t); lap_t = t; vf::setinfo("seconds_per_pass", vf::jstr(laps)); }

int main(int argc, char** argv) {
	vf::init(argc, argv, "C15", "c15_codecs");
	lap_t = vf::now_s();
	SH = (IsoShared*)mmap(0, sizeof(IsoShared), PROT_READ | PROT_WRITE, MAP_SHARED | MAP_ANONYMOUS, -1, 0);
	if (SH == MAP_FAILED) { perror("c15: mmap"); return 2; }
	memset(SH, 0, sizeof(IsoShared));
#if defined(__SANITIZE_ADDRESS__)
	__asan_set_error_report_callback(asan_cb);
#endif
	C_EVAL = vf::counter("evaluations"); C_DISTINCT = vf::counter("distinct_nontrivial");
	W_TAIL[0] = vf::counter("w.b64_len_mod3_0_no_padding"); W_TAIL[1] = vf::counter("w.b64_len_mod3_1_two_pads"); W_TAIL[2] = vf::counter("w.b64_len_mod3_2_one_pad");
	W_WS = vf::counter("w.b64_valid_text_with_whitespace"); W_WS_PAD = vf::counter("w.b64_whitespace_next_to_or_after_padding");
	W_LT4 = vf::counter("w.b64_text_shorter_than_4"); W_LEFTOVER = vf::counter("w.b64_symbol_count_not_multiple_of_4"); W_PADONLY = vf::counter("w.b64_padding_only_text");
	W_PADMID = vf::counter("w.b64_padding_before_symbols"); W_JUNK = vf::counter("w.b64_text_with_junk"); W_BADRES_EMPTY = vf::counter("w.b64_arbitrary_text_gave_empty"); W_BADRES_NONEMPTY = vf::counter("w.b64_arbitrary_text_gave_bytes");
	W_NLT = vf::counter("w.b64_explicit_n_less_than_strlen");
	W_HEX_ODD = vf::counter("w.hex_odd_length"); W_HEX_EVEN = vf::counter("w.hex_even_length"); W_HEX_ODD7 = vf::counter("w.hex_odd_length_beyond_min_capacity"); W_HEX_NONHEX = vf::counter("w.hex_text_with_non_digit"); W_HEX_VALID = vf::counter("w.hex_valid_lowercase_compared");
	W_URL_ESC = vf::counter("w.url_something_escaped"); W_URL_PLAIN = vf::counter("w.url_nothing_escaped"); W_URL_MODE = vf::counter("w.url_component_mode_escapes_more"); W_URL_MALFORMED = vf::counter("w.url_decode_truncated_or_nonhex_escape");
	W_Q_EMPTYV = vf::counter("w.query_empty_value"); W_Q_TWO = vf::counter("w.query_two_entries"); W_Q_SPECIAL = vf::counter("w.query_key_or_value_with_separator_plus_space_percent");
	W_SHA_1BLK = vf::counter("w.sha_padding_fits_last_block"); W_SHA_2BLK = vf::counter("w.sha_padding_needs_extra_block"); W_SHA_EDGE = vf::counter("w.sha_len_mod64_in_55_56_63_0"); W_SHA_DIRECT = vf::counter("w.sha_blocks_hashed_in_place"); W_SHA_LARGE = vf::counter("w.sha_message_1MiB_or_more");
	for (int k = 0; k < NSIGS; k++) C_SIG[k] = vf::counter((std::string("failures.") + SIGS[k]).c_str());
	C_RESTARTS = vf::counter("subprocesses_replaced_after_memory_corruption_or_death"); C_SKIPPED = vf::counter("calls_skipped_after_form_limit");
	N_URL_STD = vf::counter("url_encode_equals_rfc3986_reference"); N_B64_LARGE = vf::counter("arrays_longer_than_4096");
	C_SKIP_POISON = vf::counter("calls_skipped_in_a_case_after_its_memory_corrupting_failure");
	W_ARRN = vf::counter("w.encode_fixed_size_Array__overloads"); W_ARR20 = vf::counter("w.encode_fixed_size_Array__of_20_bytes");
	W_B64_HI = vf::counter("w.b64_text_with_byte_0x80_or_above_decoded"); W_B64_CTL = vf::counter("w.b64_text_with_control_byte_or_DEL_decoded");
	W_HEX_HI = vf::counter("w.hex_text_with_byte_0x80_or_above_decoded"); W_HEX_CTL = vf::counter("w.hex_text_with_control_byte_or_DEL_decoded");
	W_WS_N = vf::counter("w.b64_whitespace_text_with_explicit_length"); W_WS_N4 = vf::counter("w.b64_text_with_4_or_more_whitespace_and_explicit_length_in_longer_buffer");
	W_URL_LONG = vf::counter("w.url_encoded_text_beyond_inline_string_buffer"); W_URL_IN16 = vf::counter("w.url_input_of_16_bytes_or_more");
	W_Q_3 = vf::counter("w.query_three_or_more_entries"); W_Q_LONGV = vf::counter("w.query_value_of_16_bytes_or_more");
	W_HEX_MIXED = vf::counter("w.hex_valid_with_uppercase_compared"); W_URL_WELL = vf::counter("w.url_decode_wellformed_text_value_compared"); W_URL_LOWER = vf::counter("w.url_decode_lowercase_escape_value_compared");
	W_B64_STR_NUL = vf::counter("w.encodeBase64_String_form_with_NUL_byte"); W_SHA_STR_NUL = vf::counter("w.sha_String_form_with_NUL_byte");
	W_B64_TXT_NUL = vf::counter("w.b64_text_with_NUL_byte_decoded"); W_HEX_TXT_NUL = vf::counter("w.hex_text_with_NUL_byte_decoded");
	W_URL_NUL = vf::counter("w.url_input_with_NUL_byte_encoded_and_decoded"); W_URL_NUL_LONG = vf::counter("w.url_input_of_16_bytes_or_more_with_NUL_byte");
	W_URL_BND = vf::counter("w.url_input_with_byte_at_an_edge_of_the_unreserved_set"); W_URL_FORM = vf::counter("w.url_encoded_text_judged_for_percent_encoded_form");
	W_URLDEC_NUL = vf::counter("w.url_decode_result_with_NUL_byte_compared"); N_URLDEC_RAWNUL = vf::counter("url_decode_wellformed_texts_with_raw_NUL_run_but_value_not_demanded");
	W_Q_NULV = vf::counter("w.query_value_with_NUL_byte"); W_Q_NULK = vf::counter("w.query_key_with_NUL_byte"); W_Q_NULK0 = vf::counter("w.query_key_starting_with_NUL_byte");
	W_Q_NUL3 = vf::counter("w.query_three_or_more_entries_with_NUL_bytes"); W_Q_FORM = vf::counter("w.query_string_judged_for_percent_encoded_form");
	W_Q_BND = vf::counter("w.query_key_or_value_with_DEL_0x80_0xff_or_unsafe_neighbour_of_a_letter_range");
	N_Q_SAMEKEY = vf::counter("query_entry_lists_skipped_keys_equal_as_C_strings");
	W_SHA_HUGE = vf::counter("w.sha_message_256MiB_or_more"); W_SHA_HIGHWORD = vf::counter("w.sha_bit_length_needs_high_count_word");
	W_SELF_READ = vf::counter("w.selftest_asan_reports_read_overrun"); W_SELF_WRITE = vf::counter("w.selftest_asan_reports_write_overrun_as_corrupting");
	W_SELF_SLACK_OK = vf::counter("w.selftest_harmless_read_of_own_string_slack_not_reported"); W_SELF_SLACK_DEP = vf::counter("w.selftest_result_depending_on_string_slack_reported");
	N_SLACK_RERUN = vf::counter("calls_run_again_with_readable_slack_after_reads_of_poisoned_string_slack");
	W_SELF_POISON = vf::counter("w.selftest_asan_reports_read_of_poisoned_string_slack"); W_SELF_GUARD = vf::counter("w.selftest_guard_page_kills_overrun_of_mapped_message");
	if (vf::opt.replay) { vf::parallel(1, [&](uint64_t) { run_case(vf::opt.kase); }); return vf::finish(); }
	bool T = vf::opt.thorough();

	// ---- the memory oracle is live (otherwise: harness error, nothing below would mean anything) ------
	if (!vf::have_asan()) { fprintf(stderr, "c15: built without AddressSanitizer: the in-bounds part of the property cannot be judged\n"); return 2; }
	run_cases(1, [&](uint64_t) { asan_selftest(); });
	if (vf::get(W_SELF_READ) != 2 || vf::get(W_SELF_WRITE) != 1 || vf::get(W_SELF_POISON) != 2 || vf::get(W_SELF_GUARD) != 1 || vf::get(W_SELF_SLACK_OK) != 1 || vf::get(W_SELF_SLACK_DEP) != 2 || vf::nviolations()) {
		fprintf(stderr, "c15: AddressSanitizer self-test failed (read overruns reported %d/2, write overrun %d/1, poisoned slack %d/2, guard page %d/1, harmless slack read let through %d/1, slack-dependent result reported %d/2): the memory oracle is not live\n",
		        (int)vf::get(W_SELF_READ), (int)vf::get(W_SELF_WRITE), (int)vf::get(W_SELF_POISON), (int)vf::get(W_SELF_GUARD), (int)vf::get(W_SELF_SLACK_OK), (int)vf::get(W_SELF_SLACK_DEP));
		return 2;
	}
	// reference digests of the huge all-zero messages (in parallel; each worker reads its own mapping), confirmed by python below
	{
		std::vector<size_t> zl = zero_lengths(T);
		if (zl.size() > MAXZERO) { fprintf(stderr, "c15: MAXZERO\n"); return 2; }
		vf::parallel(zl.size(), [&](uint64_t i) { size_t len = zl[zl.size() - 1 - i]; ZeroMap z(len); Bytes r = ref_sha1(z.p, len); memcpy(SH->zref[zl.size() - 1 - i], r.data(), 20); });
		for (size_t i = 0; i < zl.size(); i++) SH->zlen[i] = zl[i];
	}
	lap("selftest+zero-refs");
	crosscheck_python();
	lap("python");

	// ---- (A) byte arrays ------------------------------------------------------------------------
	// every array of length <= 2, all calling forms
	run_cases(1 + 256 + 65536, [&](uint64_t i) {
		Bytes d = i == 0 ? Bytes() : i <= 256 ? Bytes(1, (char)(i - 1)) : bytes2((int)((i - 257) >> 8), (int)((i - 257) & 255));
		check_array(d, "bytes:" + vf::hex(d), true);
	});
	lap("arrays<=2");
	// every array of length 3 (= every group of four Base64 symbols). quick: the 2^22 arrays whose last byte has the same low two bits
	// as the middle byte (bits 2..7 take all values, so every symbol position still takes all 64 values)
	run_cases(T ? 1u << 24 : 1u << 22, [&](uint64_t i) {
		Bytes d(3, 0);
		if (T) { d[0] = (char)(i >> 16); d[1] = (char)(i >> 8); d[2] = (char)i; }
		else { d[0] = (char)(i >> 14); d[1] = (char)(i >> 6); d[2] = (char)(((i & 63) << 2) | ((i >> 6) & 3)); }
		check_array(d, "bytes:" + vf::hex(d), false);
	});
	lap("arrays3");
	// every length 0..Lmax with four contents, all forms and line-wrapped layouts
	int Lmax = T ? 4096 : 1024;
	run_cases((uint64_t)(Lmax + 1) * NKIND, [&](uint64_t it) { size_t len = it / NKIND; int k = (int)(it % NKIND); check_array(content(len, k), fmt("gen:%lu:%d", (unsigned long)len, k), true); });
	lap("lengths");
	// lengths 2^k-1, 2^k, 2^k+1 up to 4 MiB
	{
		std::vector<size_t> bl = big_lengths(22);
		int nk = T ? 3 : 1;
		run_cases(bl.size() * nk, [&](uint64_t it) {
			size_t len = bl[bl.size() - 1 - it / nk]; int k = 3 - (int)(it % nk); // largest first (load balance)
			if (len > 4096) vf::add(N_B64_LARGE);
			check_array(content(len, k), fmt("gen:%lu:%d", (unsigned long)len, k), true);
		});
	}
	lap("big");
	if (vf::deadline_passed()) vf::cap_hit("deadline after the byte-array pass");

	// ---- (W) whitespace at every position of short texts -----------------------------------------
	{
		std::vector<std::string> texts;
		std::vector<Bytes> ws;
		ws.push_back(Bytes());
		for (int a = 0; a < 256; a += T ? 1 : 5) ws.push_back(Bytes(1, (char)a));
		for (size_t len = 2; len <= 6; len++) for (int k = 0; k < NKIND; k++) ws.push_back(content(len, k));
		for (size_t i = 0; i < ws.size(); i++) ws_insertions(texts, ref_b64enc(ws[i]), T ? 3 : 2, 0, "", 0);
		for (size_t i = 0; i < ws.size(); i++) // four and more whitespace characters (a whole group's worth): after every symbol, as a run at either end and in the middle
			for (int c = 0; c < 4; c++) {
				std::string t = ref_b64enc(ws[i]), a, run(4, WS[c]), mixed = std::string(WS, 4) + WS[c];
				for (size_t k = 0; k < t.size(); k++) { a += t[k]; a += WS[(c + k) % 4]; }
				texts.push_back(a); texts.push_back(run + t); texts.push_back(t + run); texts.push_back(t.substr(0, t.size() / 2) + mixed + t.substr(t.size() / 2));
			}
		run_cases(texts.size(), [&](uint64_t i) { check_ws_text(texts[i], "b64ws:" + vf::hex(texts[i])); });
	}
	lap("whitespace");

	// ---- (M) arbitrary Base64 text (shortest first, so the minimal failing texts are the ones written out) ----
	run_cases(count_upto(A64, 5), [&](uint64_t i) { check_b64_text(shortlex(A64, i)); });
	for (int len = 6; len <= (T ? 9 : 8); len++) {
		if (vf::deadline_passed()) { vf::cap_hit(fmt("deadline before Base64 texts of length %d", len)); break; }
		run_cases(ipow(8, len), [&](uint64_t i) { check_b64_text(nth(A64, 8, len, i)); });
	}
	lap("b64texts");
	// ---- (H) arbitrary hex text --------------------------------------------------------------------
	run_cases(count_upto(AHEX, 5), [&](uint64_t i) { check_hex_text(shortlex(AHEX, i)); });
	for (int len = 6; len <= (T ? 10 : 8); len++) {
		if (vf::deadline_passed()) { vf::cap_hit(fmt("deadline before hex texts of length %d", len)); break; }
		run_cases(ipow(6, len), [&](uint64_t i) { check_hex_text(nth(AHEX, 6, len, i)); });
	}
	run_cases((T ? 1200 : 300) * 4, [&](uint64_t it) { // longer texts of every length, odd and even: digits only / a non-digit at the end / start / an upper-case digit
		uint64_t len = it / 4; int v = (int)(it % 4);
		if (len == 0 && v) return;
		std::string s;
		for (uint64_t i = 0; i < len; i++) s += "0123456789abcdef"[(i * 5 + len) & 15];
		if (v == 1) s[len - 1] = 'g'; else if (v == 2) s[0] = ' '; else if (v == 3) s[len / 2] = 'F';
		check_hex_text(s);
	});
	lap("hextexts");
	// ---- (B) every byte value in the decoders: all 1- and 2-byte texts over 0..255; every byte 0..255 substituted at every position of three fixed texts ----
	{
		std::vector<std::string> tb, th;
		for (int a = 0; a < 256; a++) tb.push_back(std::string(1, (char)a)); // 0x00 included: a String text is counted, the explicit-length forms too
		for (int a = 0; a < 256; a++) for (int b = 0; b < 256; b++) tb.push_back(bytes2(a, b));
		th = tb;
		const char* b64base[] = { "QUJDREVG", "QUJDRA==", "A!=z\n+/ " }, *hexbase[] = { "0a1b2c3d", "0a1B2c3", "0g 1-2Z!" }; // valid / padded / junk; valid / odd (7) / junk
		for (int k = 0; k < 3; k++)
			for (int v = 0; v < 256; v++) {
				for (size_t pos = 0; pos < strlen(b64base[k]); pos++) { std::string t = b64base[k]; t[pos] = (char)v; tb.push_back(t); }
				for (size_t pos = 0; pos < strlen(hexbase[k]); pos++) { std::string t = hexbase[k]; t[pos] = (char)v; th.push_back(t); }
			}
		run_cases(tb.size(), [&](uint64_t i) { check_b64_text(tb[i]); });
		run_cases(th.size(), [&](uint64_t i) { check_hex_text(th[i]); });
	}
	lap("allbytes");

	// ---- (U) percent-coding ------------------------------------------------------------------------
	// (strings are counted byte strings: the NUL byte is a member of every alphabet here)
	run_cases(count_upto(NURL0, T ? 6 : 5) * 2, [&](uint64_t i) { check_url(shortlex(AURL0, NURL0, i / 2), (int)(i % 2)); });
	run_cases((256 + 256 * 256) * 2, [&](uint64_t i) { // every single byte and every pair of bytes, 0x00 included
		uint64_t j = i / 2;
		Bytes s = j < 256 ? Bytes(1, (char)j) : bytes2((int)((j - 256) >> 8), (int)((j - 256) & 255));
		check_url(s, (int)(i % 2));
	});
	// every string over the bytes at which a classification "unreserved or not" can go wrong (ABND)
	run_cases(count_upto(NBND, T ? 4 : 3) * 2, [&](uint64_t i) { check_url(shortlex(ABND, NBND, i / 2), (int)(i % 2)); });
	{ // every byte value at every position of two texts that do not fit the String's inline buffer (nothing escaped / escapes around it)
		const Bytes base[2] = { Bytes("abcXYZ019-_.~abcXYZ019-_"), Bytes("a b%c+d&e=f/g\xc3\xa9h\x01i~j?k#") };
		uint64_t n0 = base[0].size() * 256, n1 = base[1].size() * 256;
		run_cases((n0 + n1) * 2, [&](uint64_t i) {
			uint64_t j = i / 2; int b = j < n0 ? 0 : 1; if (b) j -= n0;
			Bytes s = base[b]; s[j / 256] = (char)(j % 256);
			check_url(s, (int)(i % 2));
		});
	}
	run_cases(count_upto(NUDEC0, T ? 7 : 6), [&](uint64_t i) { check_urldec(shortlex(AUDEC0, NUDEC0, i)); });
	if (T) run_cases(ipow(7, 8), [&](uint64_t i) { check_urldec(nth(AUDEC, 7, 8, i)); }); // length 8 over the alphabet without NUL
	{ // every length 0..Umax (far beyond the String's inline buffer) x {nothing escaped, everything escaped, alternating, with NUL bytes, only NUL bytes} x both modes
		uint64_t Umax = T ? 2000 : 300;
		run_cases((Umax + 1) * NUPAT * 2, [&](uint64_t i) {
			int len = (int)(i / (NUPAT * 2)), pat = (int)(i % (NUPAT * 2) / 2), mode = (int)(i % 2);
			check_url(url_content(len, pat), mode, fmt("urlgen:%d:%d:%d", mode, pat, len));
		});
	}
	lap("url");
	// ---- (Q) query dictionaries ----------------------------------------------------------------------
	{
		std::vector<Bytes> keys = strings_upto(AURL0, NURL0, 3), vals = strings_upto(AURL0, NURL0, T ? 3 : 2); // NUL bytes in keys (also as first byte) and values
		keys.erase(keys.begin()); // non-empty keys
		run_cases(keys.size() * vals.size() + 1, [&](uint64_t i) {
			Entries e;
			if (i < keys.size() * vals.size()) e.push_back(std::make_pair(keys[i / vals.size()], vals[i % vals.size()])); // else: the empty dictionary
			check_query(e);
		});
		{ // one entry over the boundary bytes (key <= 2, value <= 1)
			std::vector<Bytes> kb = strings_upto(ABND, NBND, 2), vb = strings_upto(ABND, NBND, 1);
			kb.erase(kb.begin());
			run_cases(kb.size() * vb.size(), [&](uint64_t i) { Entries e; e.push_back(std::make_pair(kb[i / vb.size()], vb[i % vb.size()])); check_query(e); });
		}
		std::vector<Bytes> k2 = strings_upto(AURL0, NURL0, 2), v2 = strings_upto(AURL0, NURL0, 1);
		k2.erase(k2.begin());
		v2.push_back(Bytes("a\0b", 3)); v2.push_back(Bytes("\0\0", 2));
		if (T) { v2.push_back("a="); v2.push_back("&a"); v2.push_back("%2"); v2.push_back("+ "); v2.push_back("\xc3\xa9"); v2.push_back(Bytes("=\0&", 3)); }
		std::vector<std::pair<int, int> > pairs;
		for (size_t i = 0; i < k2.size(); i++) for (size_t j = i + 1; j < k2.size(); j++) pairs.push_back(std::make_pair((int)i, (int)j));
		uint64_t nv = v2.size();
		run_cases(pairs.size() * nv * nv, [&](uint64_t i) {
			uint64_t p = i / (nv * nv), a = i / nv % nv, b = i % nv;
			Entries e; e.push_back(std::make_pair(k2[pairs[p].first], v2[a])); e.push_back(std::make_pair(k2[pairs[p].second], v2[b]));
			check_query(e);
			if (a == 0 && b == 1) { Entries r; r.push_back(e[1]); r.push_back(e[0]); check_query(r); } // insertion order must not matter
		});
	}
	{ // 3 and 4 entries, values (and keys) of every length 0..Qmax
		int Qmax = T ? 120 : 40;
		const int NV = 5; // variants 3, 4: keys with NUL bytes; patterns 3, 4: values with NUL bytes
		run_cases((uint64_t)5 * NUPAT * NV * (Qmax + 1), [&](uint64_t i) {
			int L = (int)(i % (Qmax + 1)), var = (int)(i / (Qmax + 1) % NV), pat = (int)(i / (Qmax + 1) / NV % NUPAT), sub = (int)(i / (Qmax + 1) / NV / NUPAT); // sub 0..3: three entries, 4: all four
			int E = sub == 4 ? 4 : 3;
			check_query(query_gen(E, sub, pat, L, var), fmt("querygen:%d:%d:%d:%d:%d", E, sub, pat, L, var));
		});
	}
	lap("query");
	if (vf::deadline_passed()) vf::cap_hit("deadline after the URL pass");

	// ---- (S) SHA-1 -----------------------------------------------------------------------------------
	run_cases(1 + 256 + 65536, [&](uint64_t i) { // every message of length <= 2
		Bytes d = i == 0 ? Bytes() : i <= 256 ? Bytes(1, (char)(i - 1)) : bytes2((int)((i - 257) >> 8), (int)((i - 257) & 255));
		check_sha(d, "sha:" + vf::hex(d), true);
	});
	int Smax = T ? 8192 : 1024; // every length (all padding cases many times over), five contents
	run_cases((uint64_t)(Smax + 1) * 5, [&](uint64_t it) { size_t len = it / 5; int k = (int)(it % 5); check_sha(content(len, k), fmt("shagen:%lu:%d", (unsigned long)len, k), true); });
	{
		std::vector<size_t> sl = big_lengths(23);
		for (size_t l = 65530; l <= 65600; l++) sl.push_back(l);
		for (int k = 20; k <= 23; k++) for (int d = 54; d <= 65; d++) sl.push_back(((size_t)1 << k) - 64 + d); // padding edges on large messages
		std::sort(sl.begin(), sl.end());
		int nk = T ? 3 : 1;
		run_cases(sl.size() * nk, [&](uint64_t it) {
			size_t len = sl[sl.size() - 1 - it / nk]; int k = it % nk == 0 ? 3 : it % nk == 1 ? 4 : 2;
			check_sha(content(len, k), fmt("shagen:%lu:%d", (unsigned long)len, k), len < (1u << 21));
		});
	}
	lap("sha1");
	{ // 256 MiB and more: bit lengths around 2^31 and 2^32 (largest first)
		std::vector<size_t> zl = zero_lengths(T);
		vf::parallel(zl.size(), [&](uint64_t i) { check_sha_zero(zl[zl.size() - 1 - i]); });
	}
	lap("sha1-huge");

	for (int f = 0; f < NFORMS; f++) {
		if (SH->form_poison[f] >= FORM_LIMIT) vf::cap_hit(fmt("%s: no longer exercised after %d memory-corrupting failures", FORM_NAME[f], (int)FORM_LIMIT));
		if (SH->form_poison[f]) vf::setinfo(std::string("memory_corrupting_failures:") + FORM_NAME[f], fmt("%u", SH->form_poison[f]));
	}
	vf::sample("bytes:f0ff -> encodeBase64 == \"8P8=\" (RFC 4648), encodeHex == \"f0ff\" (pointer, ByteArray, String and Array_<byte,2> forms; Array_<byte,N> for N = 1,2,3,4,20), decodeBase64(String / char* / char*,n / unterminated buffer,n) and decodeHex give back f0ff");
	vf::sample("b64ws: \"8 P\\n8\\t=\" and every other placement of <= 2 (thorough 3) of {space,LF,CR,TAB} in the texts of arrays <= 6 bytes, plus whitespace after every symbol and runs of 4-5 at the start, end and middle, each as String, char*, (char* in a longer buffer, n) and (unterminated buffer, n); CRLF/76, LF/64 and space/1 layouts for every length (explicit-length forms up to 4096 bytes)");
	vf::sample("b64bad: every string <= 8 over \"A/+= \\n!z\" e.g. \"=====\", \"A=A=\", \"!z\\n=\"; every 1- and 2-byte string over 0x00..0xff; every byte 0x00..0xff at every position of \"QUJDREVG\", \"QUJDRA==\", \"A!=z\\n+/ \"; through decodeBase64(String), (char*), (char*, every n < strlen), (unterminated, n)");
	vf::sample("hexbad: every string <= 8 over \"09aFg \" e.g. \"0a9\" (odd), \"0g\", \"a a\", \"0F\" (value compared); every length 0..299 of digit strings; every 1- and 2-byte string over 0x00..0xff; every byte at every position of \"0a1b2c3d\", \"0a1B2c3\", \"0g 1-2Z!\"");
	vf::sample("url: Url::decode(Url::encode(s, mode)) == s and Url::encode(s, mode) is a C string of RFC 3986 characters and %XX (no raw NUL) for every s <= 5 over {a,space,%,+,&,=,/,0xC3,0xA9,0x01,~,0x00}, every 1- and 2-byte string over 0x00..0xff, every s <= 3 over 24 bytes at the edges of the unreserved set (0x00 0x01 , - . / 0 9 : @ A Z [ ^ _ ` a z { } ~ 0x7f 0x80 0xff), every byte at every position of two 24/28-byte texts, every length 0..300 x {plain, all escaped, alternating, with NUL bytes, only NUL bytes}; urldec: every string <= 6 over \"%a0Fg+\\xc3\\0\" (value compared when every % has two hex digits, %00 included)");
	vf::sample("query: Url::parseQuery(Url::params({\"a&\": \"=\", \"%+\": \"\"})), ({\"k\\0\": \"a\\0b\"}) and every other dictionary of 0, 1 (key <= 3, value <= 2) or 2 (keys <= 2, values <= 1) entries over the 12 bytes with NUL; 1 entry over the 24 edge bytes; 3 and 4 entries over keys {a, b&, %=, k k}, {a\\0z, b&\\0, %\\0=, \\0k k} or long keys (with and without NUL) with values of every length 0..40 (with and without NUL bytes)");
	vf::sample("sha: every message <= 2 bytes; every length 0..1024 x 5 contents; 2^k-1,2^k,2^k+1 up to 8 MiB; 65530..65600; lengths = 54..65 mod 64 near 1,2,4,8 MiB; zero messages of 2^28-1, 2^28, 2^28+1, 2^29+1 bytes (thorough: to 2^31-1)");
	return vf::finish();
}
