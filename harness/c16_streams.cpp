// C16 — endian-aware binary streams: complete enumeration of short sequences of typed items
// (scalars, strings, arrays) x value patterns x byte order per position, pushed through the real
// StreamBuffer -> StreamBufferReader, File -> File, Socket -> Socket (in-memory Socket_ subclass, and
// an AF_UNIX socketpair for the real Socket_::read/write loops). Oracle: a plain C++ reference
// serializer (memcpy + byte reverse) for the exact bytes; values read back must be bit-identical.
// Channel variants: partial transfers on the socketpair (::read/::recv/::send/::write interposed below and capped
// at k bytes per call), the non-blocking early return, byte-block readers and skip, File objects whose order is set
// before open / that are reopened in mid-stream, a Socket whose order is set through a second handle; the buffer
// written into itself (sb << *sb) and a 2400-byte item that puts the buffer on its realloc growth path.
#include <asl/StreamBuffer.h>
#include <asl/File.h>
#include <asl/Socket.h>
#include <sys/socket.h>
#include <sys/stat.h>
#include <sys/ioctl.h>
#include <dlfcn.h>
#include <unistd.h>
#include <errno.h>
#include <limits>
#include "vf.h"
#include "aslx.h"
using vf::fmt;

// ---------------------------------------------------------------------------------------------
// item alphabet (oracle side: plain data, no asl types)
enum Ty { U8, I8, I16, U16, I32, U32, I64, U64, F32, F64, BOOL, C8, NTY }; // C8 = plain char (its own overloads)
static const int TYSIZE[NTY] = { 1, 1, 2, 2, 4, 4, 8, 8, 4, 8, 1, 1 };
static const char* TYNAME[NTY] = { "u8", "i8", "i16", "u16", "i32", "u32", "i64", "u64", "f32", "f64", "bool", "char" };
enum Kind { SCALAR, ARRAY, STRING, CSTR, LSTRING, SELF }; // SELF: the StreamBuffer written into itself (sb << *sb), a ByteArray holding the stream so far
enum Pat { P_DIST, P_MIN, P_MAX, P_QNAN, P_SNAN, P_MIX, NPAT };
static const char* PATNAME[NPAT] = { "d", "min", "max", "qnan", "snan", "mix" };
enum Ord { O_BIG, O_LITTLE, O_NATIVE };
static const char ORDCH[3] = { 'B', 'L', 'N' };
static const asl::Endian ORDASL[3] = { asl::ENDIAN_BIG, asl::ENDIAN_LITTLE, asl::ENDIAN_NATIVE };

struct Item {
	Kind kind; Ty ty; int n; Pat pat;
	int var; // LSTRING only: the String read into is fresh (0), holds 10 chars inline (1), holds 60 chars on the heap (2)
	std::string name() const {
		switch (kind) {
		case SCALAR: return std::string(TYNAME[ty]) + "." + PATNAME[pat];
		case ARRAY: return fmt("a%d.%s.%s", n, TYNAME[ty], PATNAME[pat]);
		case STRING: return fmt("s%d", n);
		case CSTR: return fmt("c%d", n);
		case SELF: return "self";
		default: return fmt("ls%d%s", n, var == 1 ? "i" : var == 2 ? "h" : "");
		}
	}
};
static bool parse_item(const std::string& s, Item& it) {
	it.kind = SCALAR; it.ty = U8; it.n = 1; it.pat = P_DIST; it.var = 0;
	if (s.empty()) return false;
	if (s == "self") { it.kind = SELF; it.n = 0; return true; }
	if ((s[0] == 's' || s[0] == 'c') && s.size() > 1 && isdigit((unsigned char)s[1])) { it.kind = s[0] == 's' ? STRING : CSTR; it.n = atoi(s.c_str() + 1); return true; }
	if (s.compare(0, 2, "ls") == 0) { it.kind = LSTRING; it.n = atoi(s.c_str() + 2); char e = s[s.size() - 1]; it.var = e == 'i' ? 1 : e == 'h' ? 2 : 0; return true; }
	std::string rest = s;
	if (s[0] == 'a') {
		it.kind = ARRAY; it.n = atoi(s.c_str() + 1);
		size_t p = s.find('.'); if (p == std::string::npos) return false;
		rest = s.substr(p + 1);
	}
	size_t p = rest.find('.'); if (p == std::string::npos) return false;
	std::string t = rest.substr(0, p), q = rest.substr(p + 1);
	int ti = -1, pi = -1;
	for (int i = 0; i < NTY; i++) if (t == TYNAME[i]) ti = i;
	for (int i = 0; i < NPAT; i++) if (q == PATNAME[i]) pi = i;
	if (ti < 0 || pi < 0) return false;
	it.ty = (Ty)ti; it.pat = (Pat)pi;
	return true;
}

static bool host_big() { uint16_t x = 1; unsigned char c; memcpy(&c, &x, 1); return c == 0; }
static const bool HOST_BIG = host_big();
static bool must_swap(int ord) { return ord == O_NATIVE ? false : ((ord == O_BIG) != HOST_BIG); }

// native-order object representation of one element with a fixed pattern
template <class T> static void put_native(char* p, T v) { memcpy(p, &v, sizeof(T)); }
static void elem_pattern(Ty ty, Pat pat, char* p) {
	bool mn = pat == P_MIN || pat == P_QNAN;
	switch (ty) {
	case U8: put_native<uint8_t>(p, mn ? 0 : 0xff); break;
	case I8: put_native<int8_t>(p, mn ? std::numeric_limits<int8_t>::min() : std::numeric_limits<int8_t>::max()); break;
	case I16: put_native<int16_t>(p, mn ? std::numeric_limits<int16_t>::min() : std::numeric_limits<int16_t>::max()); break;
	case U16: put_native<uint16_t>(p, mn ? 0 : 0xffff); break;
	case I32: put_native<int32_t>(p, mn ? std::numeric_limits<int32_t>::min() : std::numeric_limits<int32_t>::max()); break;
	case U32: put_native<uint32_t>(p, mn ? 0 : 0xffffffffu); break;
	case I64: put_native<int64_t>(p, mn ? std::numeric_limits<int64_t>::min() : std::numeric_limits<int64_t>::max()); break;
	case U64: put_native<uint64_t>(p, mn ? 0 : ~(uint64_t)0); break;
	case C8: put_native<char>(p, mn ? std::numeric_limits<char>::min() : std::numeric_limits<char>::max()); break;
	case F32:
		if (pat == P_MIN) put_native<float>(p, -std::numeric_limits<float>::max());
		else if (pat == P_MAX) put_native<float>(p, std::numeric_limits<float>::max());
		else put_native<uint32_t>(p, pat == P_QNAN ? 0x7fc12345u : 0xff812346u); // quiet / negative signalling NaN with payload
		break;
	case F64:
		if (pat == P_MIN) put_native<double>(p, -std::numeric_limits<double>::max());
		else if (pat == P_MAX) put_native<double>(p, std::numeric_limits<double>::max());
		else put_native<uint64_t>(p, pat == P_QNAN ? 0x7ff8123456789abcULL : 0xfff0123456789abdULL);
		break;
	default: put_native<uint8_t>(p, mn ? 0 : 1); break; // bool: false / true
	}
}
static bool is_float(Ty t) { return t == F32 || t == F64; }

// native bytes of all elements of an item; ctr = running byte counter of the sequence (position-distinct bytes)
static void item_native(const Item& it, unsigned& ctr, std::string& out) {
	out.clear();
	if (it.kind != SCALAR && it.kind != ARRAY) { // strings: bytes 1..251, never NUL
		for (int i = 0; i < it.n; i++) out.push_back((char)(ctr++ % 251 + 1));
		return;
	}
	int sz = TYSIZE[it.ty];
	out.resize((size_t)it.n * sz);
	for (int j = 0; j < it.n; j++) {
		char* p = &out[(size_t)j * sz];
		Pat pat = it.pat;
		if (pat == P_MIX) { static const Pat ci[3] = { P_MIN, P_DIST, P_MAX }, cf[3] = { P_QNAN, P_DIST, P_SNAN }; pat = (is_float(it.ty) ? cf : ci)[j % 3]; }
		if (pat == P_DIST) {
			if (it.ty == BOOL) p[0] = (char)((ctr++ & 1) ? 0 : 1);
			else for (int k = 0; k < sz; k++) p[k] = (char)(ctr++ % 251 + 1);
		} else elem_pattern(it.ty, pat, p);
	}
}

// reference serializer: the exact bytes the statement demands for this item in this byte order
static void ref_serialize(const Item& it, int ord, const std::string& nat, std::string& out) {
	bool sw = must_swap(ord);
	if (it.kind == LSTRING) {
		int32_t n = it.n; char b[4]; memcpy(b, &n, 4);
		if (sw) std::reverse(b, b + 4);
		out.append(b, 4);
	}
	if (it.kind != SCALAR && it.kind != ARRAY) { out += nat; return; }
	int sz = TYSIZE[it.ty];
	for (int j = 0; j < it.n; j++) {
		char b[8]; memcpy(b, &nat[(size_t)j * sz], sz);
		if (sw) std::reverse(b, b + sz);
		out.append(b, sz);
	}
}

struct Step { Item it; int ord; };
typedef std::vector<Step> Seq;
static std::string seq_str(const Seq& s) {
	std::string r;
	for (size_t i = 0; i < s.size(); i++) { if (i) r += ','; r += ORDCH[s[i].ord]; r += ':'; r += s[i].it.name(); }
	return r;
}
static bool parse_seq(const std::string& s, Seq& q) {
	q.clear();
	size_t p = 0;
	while (p < s.size()) {
		size_t e = s.find(',', p); if (e == std::string::npos) e = s.size();
		std::string t = s.substr(p, e - p);
		if (t.size() < 3 || t[1] != ':') return false;
		Step st; st.ord = t[0] == 'B' ? O_BIG : t[0] == 'L' ? O_LITTLE : O_NATIVE;
		if (!parse_item(t.substr(2), st.it)) return false;
		q.push_back(st);
		p = e + 1;
	}
	return true;
}


// ---------------------------------------------------------------------------------------------
// counters
static int C_EVAL, C_DISTINCT, C_ITEMS;
static int W_SWAP_SC, W_NOSWAP_SC, W_ARR_SWAP, W_ARR_NOSWAP, W_ARR_EMPTY, W_BYTEARR, W_SWITCH, W_DEFAULT_ORD, W_NAN, W_STR, W_LSTR, W_A100, W_L64, W_MINMAX;
// observed while running (not derived from the input): a zero here means the family never happened
static int W_CHAR, W_PARTIAL_RD, W_PARTIAL_WR, W_NONBLOCK, W_SELF, W_LSTR_FILLED,
	W_PRE_OPEN, W_REOPEN, W_HANDLE2, W_BLOCK_RD, W_REST_RD, W_SKIP, W_BIGITEM, W_LONGFILE;
// observations that depend on block sizes of the library / of stdio (realloc from 2048 bytes on, 4096-byte stdio buffer, inline capacity of
// String): reported as obs.* for the reader of the evidence, NOT witnesses: a library with other block sizes may leave them at zero
static int O_SELF_MOVED, O_GROW_SMALL, O_GROW_BIG, O_FILE_FLUSH, O_LSTR_HEAP;
enum { NLOCAL = 128 };
struct Local { uint64_t v[NLOCAL]; Local() { memset(v, 0, sizeof v); } void flush() { for (int i = 0; i < NLOCAL; i++) if (v[i]) { vf::add(i, v[i]); v[i] = 0; } } };
static Local L;
#define CNT(c) (L.v[(c)]++)

// channel variants: what a case string names before the '|'
enum { M_OP = 0, M_TPL = 1, M_BLK = 2, M_SKIP = 3 };             // reader: operator>>, read<T>(), byte-block readers read(n)/read(), skip() over all but the last item
enum { SH_CTOR = 0, SH_PRE, SH_DEF, SH_RE, SH_H2 };               // object shape (see run_file / run_mem)
static const char* HOW[4] = { ">>", "read<T>()", "read(n)/read()", "skip() then >>" };
struct Variant { const char* name; int ch, shape, k; bool nb; int mode; };
static const char* CHNAME[4] = { "buf", "file", "mem", "pair" };
static const Variant VAR[] = {
	{ "buf", 0, 0, 0, false, M_OP }, { "file", 1, SH_CTOR, 0, false, M_OP }, { "mem", 2, SH_CTOR, 0, false, M_OP }, { "pair", 3, 0, 0, false, M_OP },
	{ "file.pre", 1, SH_PRE, 0, false, M_OP },   // File f(path); f.setEndian(e); f.open(mode)
	{ "file.def", 1, SH_DEF, 0, false, M_OP },   // File f; f.setEndian(e); f.open(path, mode)
	{ "file.re", 1, SH_RE, 0, false, M_OP },     // close() + open() between every two items, the order is not set again
	{ "mem.h2", 2, SH_H2, 0, false, M_OP },      // the order is always set through a second handle of the same Socket
	{ "pair.k1", 3, 0, 1, false, M_OP }, { "pair.k2", 3, 0, 2, false, M_OP }, { "pair.k3", 3, 0, 3, false, M_OP }, { "pair.k5", 3, 0, 5, false, M_OP }, { "pair.k8", 3, 0, 8, false, M_OP },
	{ "pair.k1.blk", 3, 0, 1, false, M_BLK }, { "pair.k2.blk", 3, 0, 2, false, M_BLK }, { "pair.k3.blk", 3, 0, 3, false, M_BLK }, { "pair.k5.blk", 3, 0, 5, false, M_BLK }, { "pair.k8.blk", 3, 0, 8, false, M_BLK },
	{ "pair.nb", 3, 0, 0, true, M_OP }, { "pair.nb.blk", 3, 0, 0, true, M_BLK }, { "pair.blk", 3, 0, 0, false, M_BLK }, { "pair.skip", 3, 0, 0, false, M_SKIP },
};
enum { NVAR = sizeof VAR / sizeof VAR[0] };
static const unsigned V_BUF = 1, V_FILE = 2, V_MEM = 4, V_PAIR = 8, V_FILE_PRE = 1u << 4, V_FILE_DEF = 1u << 5, V_FILE_RE = 1u << 6, V_MEM_H2 = 1u << 7,
	V_PAIR_K1 = 1u << 8, V_PAIR_K3 = 1u << 10, V_PAIR_K = 0x1fu << 8, V_PAIR_K1BLK = 1u << 13, V_PAIR_KBLK = 0x1fu << 13,
	V_PAIR_NB = 1u << 18, V_PAIR_NBBLK = 1u << 19, V_PAIR_BLK = 1u << 20, V_PAIR_SKIP = 1u << 21;
static int C_VAR[NVAR];

// ---------------------------------------------------------------------------------------------
// partial transfers: ::read / ::recv / ::send / ::write of this executable (asl is linked statically, so these are the
// ones Socket_ calls) forward to the real functions; while a cap is set, a call on one of the two socketpair
// descriptors transfers at most g_cap_k bytes, as a stream socket is allowed to.
static int g_cap_fd[2] = { -1, -1 };
static int g_cap_k = 0;
static inline bool capped(int fd, size_t n) { return g_cap_k > 0 && (fd == g_cap_fd[0] || fd == g_cap_fd[1]) && n > (size_t)g_cap_k; }
// the oracle side of the pair: everything asl has sent so far. Taken off the pair after every send of asl
// (hundreds of 1-byte sends would otherwise fill the kernel's send buffer and block this single thread).
static std::string g_pair_got;
static bool g_drain_on = false;
typedef ssize_t (*RecvF)(int, void*, size_t, int);
static RecvF real_recv() { static RecvF f = (RecvF)dlsym(RTLD_NEXT, "recv"); return f; }
static void drain(int fd, std::string& to) {
	char buf[4096]; ssize_t k;
	while ((k = real_recv()(fd, buf, sizeof buf, MSG_DONTWAIT)) > 0) to.append(buf, (size_t)k);
}
extern "C" {
ssize_t read(int fd, void* b, size_t n) {
	typedef ssize_t (*F)(int, void*, size_t); static F real = (F)dlsym(RTLD_NEXT, "read");
	if (capped(fd, n)) { n = (size_t)g_cap_k; CNT(W_PARTIAL_RD); }
	return real(fd, b, n);
}
ssize_t recv(int fd, void* b, size_t n, int fl) {
	if (capped(fd, n)) { n = (size_t)g_cap_k; CNT(W_PARTIAL_RD); }
	return real_recv()(fd, b, n, fl);
}
ssize_t send(int fd, const void* b, size_t n, int fl) {
	typedef ssize_t (*F)(int, const void*, size_t, int); static F real = (F)dlsym(RTLD_NEXT, "send");
	if (capped(fd, n)) { n = (size_t)g_cap_k; CNT(W_PARTIAL_WR); }
	ssize_t r = real(fd, b, n, fl);
	if (g_drain_on && fd == g_cap_fd[0]) drain(g_cap_fd[1], g_pair_got);
	return r;
}
ssize_t write(int fd, const void* b, size_t n) {
	typedef ssize_t (*F)(int, const void*, size_t); static F real = (F)dlsym(RTLD_NEXT, "write");
	if (capped(fd, n)) { n = (size_t)g_cap_k; CNT(W_PARTIAL_WR); }
	ssize_t r = real(fd, b, n);
	if (g_drain_on && fd == g_cap_fd[0]) drain(g_cap_fd[1], g_pair_got);
	return r;
}
}

// ---------------------------------------------------------------------------------------------
// the asl side: typed writers / readers
template <class T> struct CT { typedef T type; };
#define TY_DISPATCH(ty, F, ...) \
	switch (ty) { \
	case U8: F<asl::byte>(__VA_ARGS__); break; case I8: F<signed char>(__VA_ARGS__); break; \
	case I16: F<short>(__VA_ARGS__); break; case U16: F<unsigned short>(__VA_ARGS__); break; \
	case I32: F<int>(__VA_ARGS__); break; case U32: F<unsigned>(__VA_ARGS__); break; \
	case I64: F<asl::Long>(__VA_ARGS__); break; case U64: F<asl::ULong>(__VA_ARGS__); break; \
	case F32: F<float>(__VA_ARGS__); break; case F64: F<double>(__VA_ARGS__); break; \
	case C8: F<char>(__VA_ARGS__); break; \
	default: F<bool>(__VA_ARGS__); break; }

template <class T, class S> static void w_scalar(S& s, const char* nat) { T v; memcpy(&v, nat, sizeof(T)); s << v; }
static int g_arg_modified = -1; // index of the first element of the written array that changed under the write
template <class T, class S> static void w_array(S& s, const char* nat, int n) {
	asl::Array<T> a(n);
	for (int j = 0; j < n; j++) memcpy(&a[j], nat + (size_t)j * sizeof(T), sizeof(T));
	asl::Array<T> other = a; // a second handle to the same values, as a caller that keeps its data would have
	s << a;
	// the operator takes a const array: the values (seen through either handle) must be what they were, or the next write of them differs
	for (int j = 0; j < n && g_arg_modified < 0; j++) if (memcmp(&other[j], nat + (size_t)j * sizeof(T), sizeof(T)) != 0 || memcmp(&a[j], nat + (size_t)j * sizeof(T), sizeof(T)) != 0) g_arg_modified = j;
}
static void w_self(asl::StreamBuffer& s) { s << *s; } // the documented way to hand the content on (socket << *buffer), here with the buffer itself as the sink
template <class S> static void w_self(S&) {}         // SELF items only run on the buf channel
template <class S> static void write_item(S& s, const Item& it, const std::string& nat) {
	switch (it.kind) {
	case SCALAR: TY_DISPATCH(it.ty, w_scalar, s, nat.data()); break;
	case ARRAY: TY_DISPATCH(it.ty, w_array, s, nat.data(), it.n); break;
	case STRING: s << asl::String(nat.data(), it.n); break;
	case CSTR: s << nat.c_str(); break;
	case SELF: w_self(s); break;
	default: s << (int)it.n << asl::String(nat.data(), it.n); break;
	}
}

// reading: operator>> (alt=false) or read<T>() (alt=true); arrays are read back element by element (no array reader exists)
template <class T, class R> static void r_elems(R& r, char* out, int n, bool alt) {
	for (int j = 0; j < n; j++) {
		T v;
		if (alt) v = r.template read<T>(); else r >> v;
		memcpy(out + (size_t)j * sizeof(T), &v, sizeof(T));
	}
}
static void r_bytes(asl::StreamBufferReader& r, int n, std::string& out) { asl::ByteArray b = r.read(n); out.assign((const char*)b.data(), b.length()); }
static void r_bytes(asl::File& f, int n, std::string& out) { out.assign((size_t)n, '\x5a'); int k = f.read(n ? &out[0] : (char*)"", n); out.resize(k < 0 ? 0 : k); }
static void r_bytes(asl::Socket& s, int n, std::string& out) { asl::String x = s.readString(n); out.assign(*x, x.length()); }
// byte-block readers: read(n) -> ByteArray, and read() = everything that is left (only asked for the last item)
static void r_block(asl::StreamBufferReader& r, int n, bool rest, std::string& out) { asl::ByteArray b = rest ? r.read() : r.read(n); out.assign((const char*)b.data(), b.length()); CNT(W_BLOCK_RD); if (rest) CNT(W_REST_RD); }
static void r_block(asl::Socket& s, int n, bool rest, std::string& out) { asl::ByteArray b = rest ? s.read() : s.read(n); out.assign((const char*)b.data(), b.length()); CNT(W_BLOCK_RD); if (rest) CNT(W_REST_RD); }
static void r_block(asl::File& f, int n, bool, std::string& out) { r_bytes(f, n, out); } // File has no ByteArray reader
// length-prefixed strings: operator>>(String&) of File and Socket, into a String that is fresh / holds inline content / holds heap content
static void lstr_target(asl::String& x, int var) {
	if (var == 1) x = "0123456789";
	else if (var == 2) x = "a previous value of sixty characters, stored on the heap....";
	if (var) CNT(W_LSTR_FILLED);
}
static void lstr_result(const asl::String& x, int n, std::string& out) {
	{ const char* c = *x; if (c < (const char*)&x || c >= (const char*)(&x + 1)) CNT(O_LSTR_HEAP); } // characters outside the object: not the inline storage
	if (x.length() != n) { out = fmt("<String of length %d>", x.length()); return; }
	out.assign(*x, strlen(*x)); // as a C string: the terminator must sit right after the n bytes (the payload never contains NUL)
}
static void r_lstr(asl::StreamBufferReader& r, std::string& out, const Item& it) {
	int n = 0x5a5a5a5a; r >> n;
	if (n != it.n) { out = fmt("<length prefix read as %d>", n); return; }
	r_bytes(r, n, out);
}
static void r_lstr(asl::File& f, std::string& out, const Item& it) { asl::String x; lstr_target(x, it.var); f >> x; lstr_result(x, it.n, out); }
static void r_lstr(asl::Socket& s, std::string& out, const Item& it) { asl::String x; lstr_target(x, it.var); s >> x; lstr_result(x, it.n, out); }

static bool bytes_like(const Item& it) { return (it.kind == ARRAY && it.ty == U8) || it.kind == STRING || it.kind == CSTR || it.kind == SELF; }
template <class R> static void read_item(R& r, const Item& it, std::string& out, int mode, bool rest = false) {
	if (mode == M_BLK && bytes_like(it)) r_block(r, it.n, rest, out);
	else if (it.kind == SCALAR || it.kind == ARRAY) {
		out.assign((size_t)it.n * TYSIZE[it.ty], '\x5a');
		char* o = out.empty() ? (char*)"" : &out[0];
		TY_DISPATCH(it.ty, r_elems, r, o, it.n, mode == M_TPL);
	}
	else if (it.kind == LSTRING) r_lstr(r, out, it);
	else r_bytes(r, it.n, out);
}

// The byte order of an object on which none was ever set is not fixed by the statement. It is taken from the library by a probe (one
// 16-bit value through a fresh object of each kind and shape, at start-up); sequences that start in that order leave it unset.
// D_*: the Ord a fresh object is in. When the probe shows the host order, the documented name of it is used (LITTLE for the buffer classes,
// NATIVE for File and Socket).
static int D_BUFW = O_LITTLE, D_BUFR = O_LITTLE, D_FILE[3] = { O_NATIVE, O_NATIVE, O_NATIVE }, D_MEM = O_NATIVE, D_PAIR = O_NATIVE;
static int probe_ord(const std::string& got, int documented) { // got = what `<< (unsigned short)0x0102` produced
	bool big = got == std::string("\x01\x02", 2);
	return big == HOST_BIG ? documented : (HOST_BIG ? O_LITTLE : O_BIG);
}

// in-memory socket: subclass of the real Socket_ (DESIGN §3.4); the stream operators of Socket go through these virtuals
struct Pipe { std::string data; size_t rpos; Pipe() : rpos(0) {} };
struct MemSocket_ : public asl::Socket_ {
	Pipe *in, *out;
	MemSocket_(Pipe* i, Pipe* o) : in(i), out(o) {}
	int handle() const { return 1000; }
	bool disconnected() { return false; }
	void close() {}
	int available() { return in ? (int)(in->data.size() - in->rpos) : 0; }
	bool waitInput(double) { return available() > 0; }
	int read(void* p, int n) { // a blocking stream socket delivers all n bytes; at end of stream it delivers what is left
		int a = available(); if (n > a) n = a;
		if (n > 0) { memcpy(p, in->data.data() + in->rpos, n); in->rpos += n; }
		return n;
	}
	int write(const void* p, int n) { if (out && n > 0) out->data.append((const char*)p, n); return n; }
};

// ---------------------------------------------------------------------------------------------
// one case = one sequence through one channel
struct Prepared {
	Seq seq;
	std::vector<std::string> nat;      // native bytes per item
	std::vector<size_t> off;           // expected stream offset after each item
	std::string exp;                   // expected stream
};
static void prepare(const Seq& q, Prepared& P) {
	P.seq = q; P.nat.resize(q.size()); P.off.resize(q.size()); P.exp.clear();
	unsigned ctr = 0;
	for (size_t i = 0; i < q.size(); i++) {
		if (q[i].it.kind == SELF) { P.nat[i] = P.exp; P.seq[i].it.n = (int)P.exp.size(); ctr += (unsigned)P.exp.size(); } // the value written is the stream so far
		else item_native(q[i].it, ctr, P.nat[i]);
		ref_serialize(P.seq[i].it, q[i].ord, P.nat[i], P.exp);
		P.off[i] = P.exp.size();
	}
}
static size_t item_bytes(const Prepared& P, size_t i) { return P.off[i] - (i ? P.off[i - 1] : 0); }
static bool extras(const Seq& q) { return q.size() <= 2 || q.size() >= 64; } // the additional reader passes (read<T>() on File, read(n)/read(), skip) run on the short and on the 64-item sequences
static const char* kindword(const Item& it) { return it.kind == SCALAR ? "scalar" : it.kind == ARRAY ? "array" : it.kind == SELF ? "self" : "string"; }
static std::string clip(const std::string& h) { return h.size() > 96 ? h.substr(0, 96) + fmt("...(%d bytes)", (int)h.size() / 2) : h; }

static void report_bytes(const char* ch, const Prepared& P, const std::string& got, const std::string& kase) {
	// first item whose byte range differs
	size_t i = 0, b = 0;
	for (; i < P.seq.size(); i++) {
		size_t e = P.off[i];
		if (got.size() < e || got.compare(b, e - b, P.exp, b, e - b) != 0) break;
		b = e;
	}
	if (i == P.seq.size()) i = P.seq.size() - 1; // only trailing garbage
	const Step& st = P.seq[i];
	std::string sig = fmt("%s.bytes.%s.%s", ch, kindword(st.it), must_swap(st.ord) ? "swap" : "noswap");
	size_t e = P.off[i];
	std::string gi = got.size() > b ? got.substr(b, (i + 1 == P.seq.size() ? std::string::npos : e - b)) : std::string();
	vf::violation(sig, fmt("%s: item %d (%c:%s) wrote %s, expected %s; whole stream %d bytes, expected %d", ch, (int)i + 1, ORDCH[st.ord], st.it.name().c_str(),
		clip(vf::hex(gi)).c_str(), clip(vf::hex(P.exp.substr(b, e - b))).c_str(), (int)got.size(), (int)P.exp.size()), kase);
}
static void check_arg(const char* ch, const Prepared& P, size_t i, const std::string& kase) {
	if (g_arg_modified < 0) return;
	const Step& st = P.seq[i];
	vf::violation(fmt("%s.argument.%s.%s", ch, kindword(st.it), must_swap(st.ord) ? "swap" : "noswap"), fmt("%s: writing item %d (%c:%s) changed the caller's array (element %d differs after <<): a later write of the same array produces other bytes", ch, (int)i + 1, ORDCH[st.ord], st.it.name().c_str(), g_arg_modified), kase);
	g_arg_modified = -1;
}
static void report_len(const char* ch, const Prepared& P, size_t i, long got, const std::string& kase) {
	const Step& st = P.seq[i];
	size_t b = i ? P.off[i - 1] : 0;
	std::string sig = fmt("%s.bytes.%s.%s", ch, kindword(st.it), must_swap(st.ord) ? "swap" : "noswap");
	vf::violation(sig, fmt("%s: after writing item %d (%c:%s) the stream holds %ld bytes, expected %d (item must add %d)", ch, (int)i + 1, ORDCH[st.ord], st.it.name().c_str(), got, (int)P.off[i], (int)(P.off[i] - b)), kase);
}
static void report_value(const char* ch, const char* how, const Prepared& P, size_t i, const std::string& got, const std::string& kase) {
	const Step& st = P.seq[i];
	std::string sig = fmt("%s.values.%s.%s", ch, kindword(st.it), must_swap(st.ord) ? "swap" : "noswap");
	vf::violation(sig, fmt("%s (%s): item %d (%c:%s) read back as %s, written value was %s (native bytes)", ch, how, (int)i + 1, ORDCH[st.ord], st.it.name().c_str(), clip(vf::hex(got)).c_str(), clip(vf::hex(P.nat[i])).c_str()), kase);
}
static void report_rest(const char* ch, const char* how, long rest, const std::string& kase) {
	vf::violation(fmt("%s.consumed", ch), fmt("%s (%s): after reading every item back %ld byte(s) of the stream are left / reader not at end", ch, how, rest), kase);
}
static bool asan_check(const char* ch, const char* phase, const std::string& kase) {
	if (!vf::asan_tripped()) return false;
	vf::violation(fmt("%s.asan", ch), fmt("%s: ASan %s while %s", ch, vf::asan_what().c_str(), phase), kase);
	vf::asan_clear();
	return true;
}

// --- StreamBuffer -> StreamBufferReader
static void run_buf(const Prepared& P, const std::string& kase) {
	const Seq& q = P.seq;
	CNT(C_EVAL);
	bool bytes_ok = true, ex = extras(q);
	asl::StreamBuffer* sbp = q[0].ord == D_BUFW ? new asl::StreamBuffer() : new asl::StreamBuffer(ORDASL[q[0].ord]); // D_BUFW: the order a fresh buffer is in (LITTLE as documented)
	if (q[0].ord == D_BUFW) CNT(W_DEFAULT_ORD);
	asl::StreamBuffer& sb = *sbp;
	for (size_t i = 0; i < q.size(); i++) {
		if (i && q[i].ord != q[i - 1].ord) sb.setEndian(ORDASL[q[i].ord]);
		int len0 = sb.length(); const asl::byte* blk0 = sb.data(); // length and block before the write (observation only, public accessors)
		write_item(sb, q[i].it, P.nat[i]); check_arg("buf", P, i, kase);
		if (sb.data() != blk0) { if (len0 >= 2048) CNT(O_GROW_BIG); else CNT(O_GROW_SMALL); } // the block moved: the buffer grew (today reserve() reallocs in place of malloc+copy from 2048 bytes on)
		if (q[i].it.kind == SELF) { CNT(W_SELF); if (sb.data() != blk0) CNT(O_SELF_MOVED); }
		if (bytes_ok && (size_t)sb.length() != P.off[i]) { bytes_ok = false; report_len("buf", P, i, sb.length(), kase); }
	}
	if (asan_check("buf", "writing", kase)) bytes_ok = false;
	else if (bytes_ok && (P.exp.size() != (size_t)sb.length() || memcmp(sb.data(), P.exp.data(), P.exp.size()) != 0)) {
		bytes_ok = false; report_bytes("buf", P, std::string((const char*)sb.data(), sb.length()), kase);
	}
	std::string got;
	// (1) reader over the StreamBuffer's own content, operator>>
	if (bytes_ok) {
		asl::StreamBufferReader* rp = q[0].ord == D_BUFR ? new asl::StreamBufferReader(*sb) : new asl::StreamBufferReader(*sb, ORDASL[q[0].ord]);
		asl::StreamBufferReader& r = *rp;
		for (size_t i = 0; i < q.size(); i++) {
			if (i && q[i].ord != q[i - 1].ord) r.setEndian(ORDASL[q[i].ord]);
			read_item(r, q[i].it, got, M_OP);
			if (got != P.nat[i]) { report_value("buf", "StreamBufferReader(ByteArray) >>", P, i, got, kase); break; }
			if (i + 1 == q.size() && r.length() != 0) report_rest("buf", "StreamBufferReader(ByteArray)", r.length(), kase); // every byte consumed; what bool(r) says at the end is not demanded
		}
		delete rp;
		asan_check("buf", "reading with operator>>", kase);
	}
	delete sbp;
	// (2) reader over the reference bytes placed flush against the end of a heap block: read<T>(); on the short and the 64-item
	//     sequences also (3) read(n) for byte arrays and strings with read() for the last one, (4) skip() over all but the last item
	for (int mode = M_TPL; mode <= (ex ? M_SKIP : M_TPL); mode++) {
		if (mode == M_SKIP && q.size() < 2) break;
		size_t n = P.exp.size();
		asl::byte* blk = (asl::byte*)malloc(n ? n : 1);
		memcpy(blk, P.exp.data(), n);
		asl::StreamBufferReader r(blk, (int)n, ORDASL[q[0].ord]);
		for (size_t i = 0; i < q.size(); i++) {
			bool last = i + 1 == q.size();
			if (i && q[i].ord != q[i - 1].ord) r.setEndian(ORDASL[q[i].ord]);
			if (mode == M_SKIP && !last) { r.skip((int)item_bytes(P, i)); CNT(W_SKIP); continue; }
			read_item(r, q[i].it, got, mode == M_SKIP ? M_OP : mode, last);
			if (got != P.nat[i]) { report_value("buf", fmt("StreamBufferReader(ptr,n) %s", HOW[mode]).c_str(), P, i, got, kase); break; }
			if (last && r.length() != 0) report_rest("buf", fmt("StreamBufferReader(ptr,n) %s", HOW[mode]).c_str(), r.length(), kase);
		}
		free(blk);
		asan_check("buf", fmt("reading with %s", HOW[mode]).c_str(), kase);
	}
}

// --- File -> File
static std::string g_path;
static bool slurp(const std::string& path, std::string& out) {
	out.clear();
	FILE* f = fopen(path.c_str(), "rb"); if (!f) return false;
	char buf[4096]; size_t k;
	while ((k = fread(buf, 1, sizeof buf, f)) > 0) out.append(buf, k);
	fclose(f); return true;
}
// shapes: SH_CTOR File f(path, mode) then setEndian; SH_PRE File f(path); setEndian; open(mode); SH_DEF File f; setEndian; open(path, mode);
// SH_RE as SH_CTOR with close() + open(APPEND / READ + seek) between every two items. The order is a setting of the object:
// it is set once (when it is not File's default NATIVE) and again only where the sequence switches it.
static asl::File* file_open(int shape, asl::File::OpenMode mode, int ord, bool writing) {
	asl::String path = vfx::A(g_path);
	asl::File* f;
	bool ok;
	if (shape == SH_PRE || shape == SH_DEF) {
		f = shape == SH_PRE ? new asl::File(path) : new asl::File();
		if (ord != D_FILE[shape]) { f->setEndian(ORDASL[ord]); CNT(W_PRE_OPEN); }
		ok = shape == SH_PRE ? f->open(mode) : f->open(path, mode);
	}
	else {
		f = new asl::File(path, mode);
		ok = (bool)*f;
		if (ord != D_FILE[SH_CTOR]) f->setEndian(ORDASL[ord]);
	}
	if (ord == D_FILE[shape == SH_PRE || shape == SH_DEF ? shape : SH_CTOR] && writing) CNT(W_DEFAULT_ORD); // the order a fresh File is in (NATIVE as documented) is left unset
	if (!ok) { fprintf(stderr, "c16: cannot open scratch file %s\n", g_path.c_str()); _exit(2); }
	return f;
}
static void run_file(const Prepared& P, const std::string& kase, int shape) {
	const Seq& q = P.seq;
	CNT(C_EVAL);
	if (g_path.empty()) g_path = vf::scratch_dir() + fmt("/c16.%d.%d.bin", vf::worker_id(), (int)getpid());
	bool bytes_ok = true;
	{
		asl::File* fp = file_open(shape, asl::File::WRITE, q[0].ord, true);
		asl::File& f = *fp;
		for (size_t i = 0; i < q.size(); i++) {
			if (i && shape == SH_RE) { f.close(); if (!f.open(asl::File::APPEND)) { fprintf(stderr, "c16: cannot reopen scratch file\n"); _exit(2); } CNT(W_REOPEN); }
			if (i && q[i].ord != q[i - 1].ord) f.setEndian(ORDASL[q[i].ord]);
			write_item(f, q[i].it, P.nat[i]); check_arg("file", P, i, kase);
			if (bytes_ok && shape != SH_RE && (size_t)f.position() != P.off[i]) { bytes_ok = false; report_len("file", P, i, (long)f.position(), kase); }
			if (P.off[i] > 4096 && shape != SH_RE) { if (i + 1 == q.size()) CNT(W_LONGFILE); struct stat st; if (fstat(fileno(f.stdio()), &st) == 0 && st.st_size > 0) CNT(O_FILE_FLUSH); } // stdio emptied its buffer in mid-stream (depends on its buffer size)
		}
		delete fp; // destructor closes
	}
	if (asan_check("file", "writing", kase)) bytes_ok = false;
	std::string got;
	if (!slurp(g_path, got)) { fprintf(stderr, "c16: cannot reopen scratch file\n"); _exit(2); }
	if (got != P.exp) {
		if (bytes_ok) report_bytes("file", P, got, kase);
		bytes_ok = false;
		FILE* w = fopen(g_path.c_str(), "wb"); // the reader is then checked on the reference bytes
		if (w) { fwrite(P.exp.data(), 1, P.exp.size(), w); fclose(w); }
	}
	for (int alt = 0; alt < 2; alt++) {
		asl::File* fp = file_open(shape, asl::File::READ, q[0].ord, false);
		asl::File& f = *fp;
		for (size_t i = 0; i < q.size(); i++) {
			if (i && shape == SH_RE) { f.close(); if (!f.open(asl::File::READ)) { fprintf(stderr, "c16: cannot reopen scratch file\n"); _exit(2); } f.seek((asl::Long)P.off[i - 1]); }
			if (i && q[i].ord != q[i - 1].ord) f.setEndian(ORDASL[q[i].ord]);
			read_item(f, q[i].it, got, alt ? M_TPL : M_OP);
			if (got != P.nat[i]) { report_value("file", alt ? "File read<T>()" : "File >>", P, i, got, kase); break; }
			if (i + 1 == q.size()) {
				long pos = (long)f.position();
				char c; int k = f.read(&c, 1);
				if (pos != (long)P.exp.size() || k > 0) report_rest("file", "File", (long)P.exp.size() - pos, kase); // every byte consumed and none beyond; what read() returns and end() says at the end of the file is not demanded
			}
		}
		delete fp;
		if (!extras(q)) break; // read<T>() is a one-line wrapper of >>: it is exercised on every sequence of length <= 2 and on the 64-item ones
	}
	asan_check("file", "reading", kase);
}

// --- Socket -> Socket over the in-memory Socket_ (SH_H2: every setEndian goes through a second handle of the same socket)
static void run_mem(const Prepared& P, const std::string& kase, int shape) {
	const Seq& q = P.seq;
	CNT(C_EVAL);
	Pipe pipe;
	bool bytes_ok = true;
	{
		asl::Socket w(new MemSocket_(0, &pipe));
		asl::Socket w2 = w;
		asl::Socket& ws = shape == SH_H2 ? w2 : w;
		if (q[0].ord != D_MEM) { ws.setEndian(ORDASL[q[0].ord]); if (shape == SH_H2) CNT(W_HANDLE2); } else CNT(W_DEFAULT_ORD);
		for (size_t i = 0; i < q.size(); i++) {
			if (i && q[i].ord != q[i - 1].ord) { ws.setEndian(ORDASL[q[i].ord]); if (shape == SH_H2) CNT(W_HANDLE2); }
			write_item(w, q[i].it, P.nat[i]); check_arg("mem", P, i, kase);
			if (bytes_ok && pipe.data.size() != P.off[i]) { bytes_ok = false; report_len("mem", P, i, (long)pipe.data.size(), kase); }
		}
	}
	if (asan_check("mem", "writing", kase)) bytes_ok = false;
	if (pipe.data != P.exp) { if (bytes_ok) report_bytes("mem", P, pipe.data, kase); pipe.data = P.exp; }
	std::string got;
	for (int mode = M_OP; mode <= (extras(q) ? M_SKIP : M_TPL); mode++) {
		if (mode == M_SKIP && q.size() < 2) break;
		pipe.rpos = 0;
		asl::Socket r(new MemSocket_(&pipe, 0));
		asl::Socket r2 = r;
		asl::Socket& rs = shape == SH_H2 ? r2 : r;
		if (q[0].ord != D_MEM) rs.setEndian(ORDASL[q[0].ord]);
		for (size_t i = 0; i < q.size(); i++) {
			bool last = i + 1 == q.size();
			if (i && q[i].ord != q[i - 1].ord) rs.setEndian(ORDASL[q[i].ord]);
			if (mode == M_SKIP && !last) { r.skip((int)item_bytes(P, i)); CNT(W_SKIP); continue; }
			read_item(r, q[i].it, got, mode == M_SKIP ? M_OP : mode, last);
			if (got != P.nat[i]) { report_value("mem", fmt("Socket %s", HOW[mode]).c_str(), P, i, got, kase); break; }
			if (last && r.available() != 0) report_rest("mem", fmt("Socket %s", HOW[mode]).c_str(), r.available(), kase);
		}
	}
	asan_check("mem", "reading", kase);
}

// --- Socket -> Socket over an AF_UNIX socketpair (the real Socket_::write / read / available)
// Single-threaded: the oracle side drains the pair after every item (and after every send of asl), then puts the stream back with one plain send() for the reading phase.
// Variants: V.k > 0 caps every ::send / ::read of asl on the pair at k bytes (partial transfers: the loops of Socket_::write /
// Socket_::read have to continue where the call stopped); V.nb marks both sockets non-blocking for asl (one call per transfer,
// its count handed through; nothing is capped, so every transfer is complete); V.mode selects the readers.
static void run_pair(const Prepared& P, const std::string& kase, const Variant& V) {
	const Seq& q = P.seq;
	CNT(C_EVAL);
	int fd[2];
	if (socketpair(AF_UNIX, SOCK_STREAM, 0, fd) != 0) { fprintf(stderr, "c16: socketpair failed\n"); _exit(2); }
	struct timeval tv; tv.tv_sec = 20; tv.tv_usec = 0; // safety net only: a send that blocks becomes a harness error, never a verdict
	setsockopt(fd[0], SOL_SOCKET, SO_SNDTIMEO, &tv, sizeof tv);
	g_cap_fd[0] = fd[0]; g_cap_fd[1] = fd[1]; g_cap_k = 0;
	bool bytes_ok = true;
	{
		asl::Socket w(fd[0]), r(fd[1]); // each Socket_ owns and closes its descriptor
		if (V.nb) { w.setBlocking(false); r.setBlocking(false); CNT(W_NONBLOCK); }
		if (q[0].ord != D_PAIR) { w.setEndian(ORDASL[q[0].ord]); r.setEndian(ORDASL[q[0].ord]); }
		std::string& got = g_pair_got;
		got.clear();
		for (size_t i = 0; i < q.size(); i++) {
			if (i && q[i].ord != q[i - 1].ord) w.setEndian(ORDASL[q[i].ord]);
			g_cap_k = V.k; g_drain_on = true;
			write_item(w, q[i].it, P.nat[i]);
			g_cap_k = 0; g_drain_on = false;
			check_arg("pair", P, i, kase);
			if (w.error() != 0 && (errno == EAGAIN || errno == EWOULDBLOCK)) { fprintf(stderr, "c16: socketpair send buffer exhausted in %s\n", kase.c_str()); _exit(2); }
			drain(fd[1], got);
			if (bytes_ok && got.size() != P.off[i]) { bytes_ok = false; report_len("pair", P, i, (long)got.size(), kase); }
		}
		if (asan_check("pair", "writing", kase)) bytes_ok = false;
		if (got != P.exp && bytes_ok) report_bytes("pair", P, got, kase);
		if (!P.exp.empty() && send(fd[0], P.exp.data(), P.exp.size(), MSG_NOSIGNAL) != (ssize_t)P.exp.size()) { fprintf(stderr, "c16: socketpair refill failed\n"); _exit(2); }
		shutdown(fd[0], SHUT_WR); // an over-read then sees end of stream instead of blocking
		bool zero_before = false; // a zero-length read leaves the socket's error flag set (not demanded), after which available() and so read() without a count are void
		for (size_t i = 0; i < q.size(); i++) {
			bool last = i + 1 == q.size();
			if (i && q[i].ord != q[i - 1].ord) r.setEndian(ORDASL[q[i].ord]);
			g_cap_k = V.k;
			if (V.mode == M_SKIP && !last) { r.skip((int)item_bytes(P, i)); g_cap_k = 0; CNT(W_SKIP); continue; }
			read_item(r, q[i].it, got, V.mode == M_SKIP ? M_OP : V.mode, last && !zero_before);
			g_cap_k = 0;
			if (item_bytes(P, i) == 0 || (q[i].it.kind == LSTRING && q[i].it.n == 0)) zero_before = true;
			if (got != P.nat[i]) { report_value("pair", fmt("Socket %s", HOW[V.mode]).c_str(), P, i, got, kase); break; }
			if (last) {
				char c; ssize_t rest = recv(fd[1], &c, 1, MSG_PEEK | MSG_DONTWAIT);
				if (rest != 0) report_rest("pair", "Socket", (long)rest, kase); // (the error flag is not demanded: a zero-length read sets it)
			}
		}
	}
	g_cap_fd[0] = g_cap_fd[1] = -1;
	asan_check("pair", "reading", kase);
}

// the order of a fresh object of every kind and shape, from one 16-bit value written (read, for the reader) through it
static void probe_defaults() {
	const unsigned short v = 0x0102;
	{ asl::StreamBuffer sb; sb << v; D_BUFW = probe_ord(std::string((const char*)sb.data(), sb.length()), O_LITTLE); }
	{ asl::ByteArray b(2); b[0] = 1; b[1] = 2; asl::StreamBufferReader r(b); unsigned short x = 0; r >> x; D_BUFR = x == 0x0102 ? O_BIG : O_LITTLE; }
	g_path = vf::scratch_dir() + fmt("/c16.probe.%d.bin", (int)getpid());
	for (int shape = SH_CTOR; shape <= SH_DEF; shape++) {
		asl::String path = vfx::A(g_path);
		std::string got;
		bool ok;
		if (shape == SH_CTOR) { asl::File f(path, asl::File::WRITE); ok = (bool)f; if (ok) f << v; }
		else if (shape == SH_PRE) { asl::File f(path); ok = f.open(asl::File::WRITE); if (ok) f << v; }
		else { asl::File f; ok = f.open(path, asl::File::WRITE); if (ok) f << v; }
		if (!ok) { fprintf(stderr, "c16: cannot open scratch file %s\n", g_path.c_str()); _exit(2); }
		slurp(g_path, got);
		D_FILE[shape] = probe_ord(got, O_NATIVE);
	}
	unlink(g_path.c_str()); g_path.clear();
	{ Pipe pipe; { asl::Socket w(new MemSocket_(0, &pipe)); w << v; } D_MEM = probe_ord(pipe.data, O_NATIVE); }
	{
		int fd[2];
		if (socketpair(AF_UNIX, SOCK_STREAM, 0, fd) != 0) { fprintf(stderr, "c16: socketpair failed\n"); _exit(2); }
		std::string got;
		{ asl::Socket w(fd[0]), r(fd[1]); w << v; drain(fd[1], got); }
		D_PAIR = probe_ord(got, O_NATIVE);
	}
	vf::setinfo("fresh_object_order", fmt("\"StreamBuffer %c, StreamBufferReader %c, File %c/%c/%c, Socket %c/%c\"", ORDCH[D_BUFW], ORDCH[D_BUFR], ORDCH[D_FILE[0]], ORDCH[D_FILE[1]], ORDCH[D_FILE[2]], ORDCH[D_MEM], ORDCH[D_PAIR]));
	if (vf::asan_tripped()) vf::asan_clear(); // the probe is no case: whatever it trips is reported by the cases themselves
}

static void witnesses(const Prepared& P, int nch) {
	const Seq& q = P.seq;
	bool sw = false;
	for (size_t i = 0; i < q.size(); i++) {
		const Item& it = q[i].it;
		bool s = must_swap(q[i].ord);
		L.v[C_ITEMS] += nch;
		if (i && q[i].ord != q[i - 1].ord) sw = true;
		if (it.kind == SCALAR) { if (s) CNT(W_SWAP_SC); else CNT(W_NOSWAP_SC); }
		if (it.kind == ARRAY) {
			if (it.n == 0) CNT(W_ARR_EMPTY);
			else if (it.ty == U8) CNT(W_BYTEARR);
			else if (s) CNT(W_ARR_SWAP); else CNT(W_ARR_NOSWAP);
			if (it.n == 100) CNT(W_A100);
			if (it.n * TYSIZE[it.ty] >= 2400) CNT(W_BIGITEM);
		}
		if ((it.kind == SCALAR || it.kind == ARRAY) && it.n > 0) {
			if (is_float(it.ty) && (it.pat == P_QNAN || it.pat == P_SNAN || it.pat == P_MIX)) CNT(W_NAN);
			if (it.pat == P_MIN || it.pat == P_MAX) CNT(W_MINMAX);
			if (it.ty == C8) CNT(W_CHAR);
		}
		if (it.kind == STRING || it.kind == CSTR) CNT(W_STR);
		if (it.kind == LSTRING) CNT(W_LSTR);
	}
	if (sw) CNT(W_SWITCH);
	if (q.size() >= 64) CNT(W_L64);
}

static void run_seq(const Seq& q, unsigned mask, bool count_distinct = true) {
	static Prepared P;
	static std::string s, kase;
	for (size_t i = 0; i < q.size(); i++) {
		if (q[i].it.kind == SELF) mask &= V_BUF;                          // only a StreamBuffer can be written into itself
		if (q[i].it.kind == LSTRING && q[i].it.var != 0) mask &= ~V_BUF;  // StreamBufferReader has no String reader: no target String there
	}
	if (q.size() < 2) mask &= ~(V_FILE_RE | V_PAIR_SKIP);
	if (!mask) return;
	s = seq_str(q);
	kase = "*|"; kase += s;
	vf::cur(kase);
	prepare(q, P);
	if (count_distinct) CNT(C_DISTINCT);
	int nch = 0;
	for (int v = 0; v < NVAR; v++) {
		if (!(mask & (1u << v))) continue;
		const Variant& V = VAR[v];
		kase.replace(0, kase.find('|'), V.name);
		vf::cur(kase);
		CNT(C_VAR[v]); nch++;
		switch (V.ch) {
		case 0: run_buf(P, kase); break;
		case 1: run_file(P, kase, V.shape); break;
		case 2: run_mem(P, kase, V.shape); break;
		default: run_pair(P, kase, V); break;
		}
	}
	witnesses(P, nch);
}

static unsigned chmask_of(const std::string& c) {
	for (int v = 0; v < NVAR; v++) if (c == VAR[v].name) return 1u << v;
	return V_BUF | V_FILE | V_MEM | V_PAIR;
}

// ---------------------------------------------------------------------------------------------
// alphabets
static Item mk(Kind k, Ty t, int n, Pat p) { Item it; it.kind = k; it.ty = t; it.n = n; it.pat = p; it.var = 0; return it; }
static std::vector<Item> alphabet(int level) { // 3 = full (with the macro items: 100-element arrays, 40-byte strings, every char item), 2 = large, 1 = medium, 0 = reduced
	std::vector<Item> a;
	const int NT = level >= 3 ? NTY : C8; // plain char: all its items in the full alphabet, its scalar in the medium and large ones
	// scalars, simplest first
	for (int t = 0; t < NT; t++) a.push_back(mk(SCALAR, (Ty)t, 1, t == BOOL ? P_MAX : P_DIST));
	a.push_back(mk(STRING, U8, 5, P_DIST));
	for (int t = 0; t < NT; t++) {
		if (level == 0 && (t == I8 || t == U16 || t == U32 || t == I64)) continue; // reduced: one array type per element size and signedness class
		a.push_back(mk(ARRAY, (Ty)t, 3, level >= 1 && t != BOOL ? P_MIX : P_DIST));
	}
	a.push_back(mk(ARRAY, I32, 0, P_DIST));
	a.push_back(mk(ARRAY, F64, 1, P_SNAN));
	if (level >= 1) {
		for (int t = 0; t < NT; t++) { a.push_back(mk(SCALAR, (Ty)t, 1, P_MIN)); if (t != BOOL) a.push_back(mk(SCALAR, (Ty)t, 1, P_MAX)); }
		a.push_back(mk(SCALAR, F32, 1, P_QNAN)); a.push_back(mk(SCALAR, F32, 1, P_SNAN));
		a.push_back(mk(SCALAR, F64, 1, P_QNAN)); a.push_back(mk(SCALAR, F64, 1, P_SNAN));
		a.push_back(mk(STRING, U8, 0, P_DIST));
		a.push_back(mk(LSTRING, U8, 5, P_DIST));
		a.push_back(mk(CSTR, U8, 3, P_DIST));
		if (level < 3) a.push_back(mk(SCALAR, C8, 1, P_DIST));
	}
	if (level >= 2) {
		a.push_back(mk(STRING, U8, 1, P_DIST)); a.push_back(mk(LSTRING, U8, 0, P_DIST)); a.push_back(mk(CSTR, U8, 0, P_DIST));
		if (level >= 3) { a.push_back(mk(STRING, U8, 40, P_DIST)); a.push_back(mk(LSTRING, U8, 40, P_DIST)); } // 40 > inline capacity of asl::String
		for (int t = 0; t < NT; t++) {
			if (t != I32) a.push_back(mk(ARRAY, (Ty)t, 0, P_DIST));
			a.push_back(mk(ARRAY, (Ty)t, 1, P_DIST));
			a.push_back(mk(ARRAY, (Ty)t, 1, P_MIN));
			if (t != BOOL) a.push_back(mk(ARRAY, (Ty)t, 1, P_MAX));
			if (is_float((Ty)t)) { a.push_back(mk(ARRAY, (Ty)t, 1, P_QNAN)); if (t != F64) a.push_back(mk(ARRAY, (Ty)t, 1, P_SNAN)); }
			if (t != BOOL) a.push_back(mk(ARRAY, (Ty)t, 3, P_DIST));
			if (level >= 3) a.push_back(mk(ARRAY, (Ty)t, 100, P_DIST));
		}
	}
	return a;
}
// the two special items: a 2400-byte array (as three 100-element u64 arrays in a row: it takes the buffer's allocation past the
// 2048 bytes from which growth reallocs) and the buffer written into itself
static std::vector<Item> with_specials(std::vector<Item> a) { a.push_back(mk(ARRAY, U64, 300, P_DIST)); a.push_back(mk(SELF, U8, 0, P_DIST)); return a; }
enum { NSPECIAL = 2 };

// all sequences of exactly len steps over alphabet a x 3 orders; nspecial > 0: only those that contain one of the last nspecial items of a
static void pass(const char* name, const std::vector<Item>& a, int len, unsigned chmask, int nspecial = 0) {
	if (vf::deadline_passed()) { vf::cap_hit(fmt("%s: deadline", name)); return; }
	const uint64_t K = a.size() * 3, KS = (a.size() - (size_t)nspecial) * 3; // choices c >= KS are the special items
	int outer = len < 2 ? len : 2;
	uint64_t nouter = 1, ninner = 1, nplain = 1;
	for (int i = 0; i < outer; i++) nouter *= K;
	for (int i = outer; i < len; i++) ninner *= K;
	for (int i = 0; i < len; i++) nplain *= KS;
	vf::parallel(nouter, [&](uint64_t idx) {
		if (vf::deadline_passed()) return;
		Seq q(len);
		uint64_t x = idx;
		bool sp_outer = false;
		for (int i = outer - 1; i >= 0; i--) { uint64_t c = x % K; x /= K; q[i].it = a[c / 3]; q[i].ord = (int)(c % 3); if (c >= KS) sp_outer = true; }
		for (uint64_t in = 0; in < ninner; in++) {
			uint64_t y = in;
			bool sp = sp_outer;
			for (int i = len - 1; i >= outer; i--) { uint64_t c = y % K; y /= K; q[i].it = a[c / 3]; q[i].ord = (int)(c % 3); if (c >= KS) sp = true; }
			if (nspecial && !sp) continue;
			run_seq(q, chmask);
		}
		L.flush();
	}, len < 2 ? 8 : 16);
	if (vf::deadline_passed()) vf::cap_hit(fmt("%s: deadline", name));
	vf::setinfo(fmt("pass.%s", name), fmt("{\"alphabet_items\":%d,\"orders\":3,\"length\":%d,\"sequences\":%llu}", (int)a.size(), len, (unsigned long long)(nouter * ninner - (nspecial ? nplain : 0))));
}

int main(int argc, char** argv) {
	vf::init(argc, argv, "C16", "c16_streams");
	C_EVAL = vf::counter("evaluations"); C_DISTINCT = vf::counter("distinct_nontrivial"); C_ITEMS = vf::counter("items_streamed");
	for (int i = 0; i < NVAR; i++) C_VAR[i] = vf::counter(fmt("cases.%s", VAR[i].name).c_str());
	W_SWAP_SC = vf::counter("w.scalar_swapped_order"); W_NOSWAP_SC = vf::counter("w.scalar_native_order");
	W_ARR_SWAP = vf::counter("w.array_swapping_branch"); W_ARR_NOSWAP = vf::counter("w.array_block_write_branch");
	W_ARR_EMPTY = vf::counter("w.array_empty"); W_BYTEARR = vf::counter("w.bytearray_overload");
	W_SWITCH = vf::counter("w.order_switched_midstream"); W_DEFAULT_ORD = vf::counter("w.default_order_never_set");
	W_NAN = vf::counter("w.nan_payload_items"); W_MINMAX = vf::counter("w.min_max_items"); W_STR = vf::counter("w.string_items"); W_LSTR = vf::counter("w.length_prefixed_string_items");
	W_A100 = vf::counter("w.array_len100"); W_L64 = vf::counter("w.sequences_of_64_items");
	W_CHAR = vf::counter("w.plain_char_items");
	W_PARTIAL_RD = vf::counter("w.partial_read"); W_PARTIAL_WR = vf::counter("w.partial_write"); W_NONBLOCK = vf::counter("w.nonblocking_socket_cases");
	W_SELF = vf::counter("w.buffer_written_into_itself"); O_SELF_MOVED = vf::counter("obs.self_write_moved_the_block");
	O_GROW_SMALL = vf::counter("obs.buf_block_moved_below_2048"); O_GROW_BIG = vf::counter("obs.buf_block_moved_from_2048_up");
	W_BIGITEM = vf::counter("w.items_of_2400_bytes"); W_LONGFILE = vf::counter("w.file_streams_over_4096_bytes");
	O_FILE_FLUSH = vf::counter("obs.file_flushed_in_midstream");
	W_LSTR_FILLED = vf::counter("w.lstring_read_into_filled_string"); O_LSTR_HEAP = vf::counter("obs.lstring_result_on_heap");
	W_PRE_OPEN = vf::counter("w.file_order_set_before_open"); W_REOPEN = vf::counter("w.file_reopened_midstream"); W_HANDLE2 = vf::counter("w.order_set_through_second_handle");
	W_BLOCK_RD = vf::counter("w.byte_block_reads"); W_REST_RD = vf::counter("w.read_all_remaining"); W_SKIP = vf::counter("w.skips");
	if (W_SKIP >= NLOCAL) { fprintf(stderr, "c16: too many counters\n"); return 2; }
	probe_defaults();

	if (vf::opt.replay) {
		vf::parallel(1, [&](uint64_t) {
			size_t p = vf::opt.kase.find('|');
			Seq q;
			if (p == std::string::npos || !parse_seq(vf::opt.kase.substr(p + 1), q) || q.empty()) { fprintf(stderr, "c16: bad case string\n"); _exit(2); }
			run_seq(q, chmask_of(vf::opt.kase.substr(0, p)));
			L.flush();
		});
		return vf::finish();
	}
	bool T = vf::opt.thorough();
	const unsigned BASE = V_BUF | V_FILE | V_MEM | V_PAIR, MAIN = V_BUF | V_FILE | V_MEM;
	// single items: every object shape, every cap of the partial transfers with both readers, the non-blocking sockets
	const unsigned ONE = BASE | V_FILE_PRE | V_FILE_DEF | V_MEM_H2 | V_PAIR_K | V_PAIR_KBLK | V_PAIR_NB | V_PAIR_NBBLK | V_PAIR_BLK;
	// pairs of items: reopen between them, the order switched through the second handle, skip over the first, one cap (all caps in the thorough tier)
	const unsigned TWO = BASE | V_FILE_RE | V_MEM_H2 | V_PAIR_SKIP | V_PAIR_BLK | (T ? V_PAIR_K | V_FILE_PRE : V_PAIR_K3);
	const unsigned LONG = BASE | V_FILE_RE | V_MEM_H2 | V_PAIR_SKIP | V_PAIR_BLK | V_PAIR_K3 | V_PAIR_K1BLK;
	std::vector<Item> full = alphabet(3), large = alphabet(2), mid = alphabet(1), red = alphabet(0);
	vf::setinfo("alphabet_full", fmt("%d", (int)full.size())); vf::setinfo("alphabet_large", fmt("%d", (int)large.size())); vf::setinfo("alphabet_medium", fmt("%d", (int)mid.size())); vf::setinfo("alphabet_reduced", fmt("%d", (int)red.size()));
	vf::setinfo("host_byte_order", HOST_BIG ? "\"big\"" : "\"little\"");
	vf::setinfo("channel_variants", fmt("%d", (int)NVAR));

	// (a) all sequences of length 1 and 2 over the full alphabet, all four channels and their variants
	pass("len1_full", full, 1, ONE);
	pass("len2_full", full, 2, TWO);

	// (b) every array length 0..100 of every element type, every string and length-prefixed string of length 0..100 (the latter read
	//     into a fresh, an inline-filled and a heap-filled String), each byte order, all channels and the single-item variants
	vf::parallel((uint64_t)NTY * 101, [&](uint64_t i) {
		int t = (int)(i / 101), n = (int)(i % 101);
		for (int o = 0; o < 3; o++) {
			Seq q(1); q[0].it = mk(ARRAY, (Ty)t, n, P_DIST); q[0].ord = o;
			bool dup = n == 0 || n == 1 || n == 3 || n == 100; // already counted in the length-1 pass
			run_seq(q, ONE, !dup);
			if (t == 0) {
				q[0].it = mk(STRING, U8, n, P_DIST); run_seq(q, ONE, !(n == 0 || n == 1 || n == 5 || n == 40));
				for (int var = 0; var < 3; var++) { q[0].it = mk(LSTRING, U8, n, P_DIST); q[0].it.var = var; run_seq(q, ONE, !(var == 0 && (n == 0 || n == 5 || n == 40))); }
			}
		}
		L.flush();
	}, 8);

	// (c) sequences of 64 items: the full alphabet cyclically from every start, three order schedules
	vf::parallel((uint64_t)full.size() * 3, [&](uint64_t i) {
		size_t start = (size_t)(i / 3); int sched = (int)(i % 3);
		Seq q(64);
		for (int k = 0; k < 64; k++) {
			q[k].it = full[(start + (size_t)k * (sched == 2 ? 7 : 1)) % full.size()];
			q[k].ord = sched == 0 ? k % 3 : sched == 1 ? (k / 5) % 3 : (k * k + (int)start) % 3; // switch at every position / every 5th / irregular
		}
		run_seq(q, LONG);
		L.flush();
	}, 4);

	// (d) length 3: medium alphabet in the quick tier, large alphabet in the thorough tier; length 4 (thorough): reduced alphabet
	if (!T) pass("len3_medium", mid, 3, MAIN);
	else {
		pass("len3_large", large, 3, MAIN);
		pass("len4_reduced", red, 4, MAIN);
	}

	// (e) the same alphabets plus the two special items (2400-byte array, the buffer written into itself): every sequence that
	//     contains at least one of them; those with the self-write on the StreamBuffer only, the others on the three main channels
	{
		std::vector<Item> fullS = with_specials(full), largeS = with_specials(large), midS = with_specials(mid);
		pass("len1_special", fullS, 1, MAIN, NSPECIAL);
		pass("len2_special", fullS, 2, MAIN, NSPECIAL);
		pass(T ? "len3_special_large" : "len3_special_medium", T ? largeS : midS, 3, MAIN, NSPECIAL);
	}

	// written-out samples
	{
		Seq q(3); Prepared P;
		q[0].it = mk(SCALAR, I16, 1, P_DIST); q[0].ord = O_BIG; q[1].it = mk(ARRAY, I32, 3, P_MIX); q[1].ord = O_LITTLE; q[2].it = mk(SCALAR, F64, 1, P_QNAN); q[2].ord = O_NATIVE;
		prepare(q, P);
		vf::sample("buf|" + seq_str(q) + " -> expected stream " + vf::hex(P.exp));
		q[1].it = mk(LSTRING, U8, 5, P_DIST); q[1].ord = O_BIG; prepare(q, P);
		vf::sample("file|" + seq_str(q) + " -> expected stream " + vf::hex(P.exp));
		q.resize(1); q[0].it = mk(ARRAY, F32, 3, P_MIX); q[0].ord = O_BIG; prepare(q, P);
		vf::sample("mem|" + seq_str(q) + " -> expected stream " + vf::hex(P.exp));
		q.resize(2); q[0].it = mk(SCALAR, I16, 1, P_DIST); q[0].ord = O_BIG; q[1].it = mk(SELF, U8, 0, P_DIST); q[1].ord = O_BIG; prepare(q, P);
		vf::sample("buf|" + seq_str(q) + " -> expected stream " + vf::hex(P.exp));
	}
	return vf::finish();
}
