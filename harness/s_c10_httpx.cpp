// C10 — HTTP client <-> server exactness: the real Http::request client and the real HttpServer per-connection code run
// as threads over vnet (tiny pipe, tiny block sizes in the small-scope flavour) under the controlled scheduler; every
// method x body length x response shape, JSON and file/range bodies, keep-alive, two concurrent clients, raw clients and
// raw servers that fragment their bytes, all within a preemption bound.
#include <asl/HttpServer.h>
#include <asl/Http.h>
#include <asl/Socket.h>
#include <asl/Thread.h>
#include <asl/File.h>
#include <asl/Var.h>
#include <map>
#include "vf.h"
#include "aslx.h"
#include "vsched.h"
#include "vnet.h"
using namespace asl;
using vf::fmt;

static int C_EXEC, C_POINTS, C_JOBS, C_EVAL, C_DIST, W_PREEMPT, W_PARTIAL, W_RANGE206, W_RANGE416, W_JSON, W_KEEPALIVE, W_TWOCLIENTS, W_CHUNKED_REQ, W_CHUNKED_RESP, W_BIG;
static std::string g_case;
static void onFatal(const char* what, const std::string& schedule) {
	std::string w = what;
	if (w == "DIVERGED") { fprintf(stderr, "HARNESS ERROR: diverged %s\n", g_case.c_str()); _exit(2); }
	vf::violation(w == "DEADLOCK" ? "deadlock" : w == "LIVELOCK" ? "livelock" : "no_termination", std::string(what) + " in " + g_case + (schedule.size() < 600 ? " under schedule " + schedule : ""), g_case + "|" + schedule);
	vf::restart_worker();
}
static std::string bodyOf(int n, int seed) { static const char al[] = { 'a', '\r', '\n', 0, 'Z', (char)0xff, ' ', '%' }; std::string s; for (int i = 0; i < n; i++) s += al[(i * 3 + seed + i / 8) % 8]; return s; }
static std::string g_root;

struct Seen { std::string method, path, query, body; std::map<std::string, std::string> headers; };
struct Srv : public HttpServer {
	std::vector<Seen> seen;
	Srv() : HttpServer(-1) {}
	void serve(HttpRequest& q, HttpResponse& r) {
		Seen s; s.method = vfx::S(q.method()); s.path = vfx::S(q.path()); s.query = vfx::S(q.querystring());
		const ByteArray& b = q.body(); s.body.assign((const char*)b.data(), b.length());
		foreach2 (String & k, const String& v, q.headers()) s.headers[vfx::S(k)] = vfx::S(v);
		seen.push_back(s);
		String p = q.path();
		if (p == "/echo") { int code = q.query("code") ? (int)q.query("code") : 200; r.setCode(code); r.setHeader("X-Method", q.method()); r.setHeader("X-Len", String(b.length())); if (q.hasHeader("X-Token")) r.setHeader("X-Token", q.header("X-Token")); r.setHeader("X-Special", "v;=, \"q\" :/?#[]@!$&'()*+%"); r.put(b); }
		else if (p == "/len") { r.put(ByteArray((const byte*)bodyOf((int)q.query("n"), 2).data(), (int)q.query("n"))); }
		else if (p == "/json") { Var in = q.json(); Var out; out["got"] = in; out["n"] = in.ok() ? in["n"] : Var(); out["s"] = "a\"\\/\n\x01"; r.put(out); }
		else if (p == "/stream") { // body streamed with chunked transfer encoding: n bytes written in `pieces` write() calls, then the last-chunk marker
			int n = q.query("n"), pieces = max(1, (int)q.query("p")); std::string body = bodyOf(n, 7);
			r.setHeader("Transfer-Encoding", "chunked"); r.setHeader("X-Streamed", "yes");
			int done = 0; for (int i = 0; i < pieces; i++) { int m = i + 1 == pieces ? n - done : n / pieces; if (m > 0) r.write(body.data() + done, m); done += m; }
			if (n == 0) r.sendHeaders();
			r.socket() << "0\r\n\r\n";
		}
		else if (p == "/f.txt") { r.put(File((g_root + "/f.txt").c_str())); }
		else { r.setCode(404); r.put("nope"); }
	}
};
struct Acceptor : public Thread { Srv* srv; Socket* lst; int n; void run() { for (int i = 0; i < n; i++) { Socket c = lst->accept(); if (c.handle() < 0) break; ((SocketServer*)srv)->serve(c); c.close(); } } };
struct ClientT : public Thread { std::function<void()> f; void run() { f(); } };

struct Job { std::string name; int bound; std::function<std::string()> body; int cap; Job() : bound(0), cap(4) {} };

// generic runner: body returns "" when every assertion holds
static void runJob(const Job& j, const std::string* replay) {
	g_case = j.name; vf::cur(j.name);
	std::string verdict;
	auto body = [&]() {
		vf::asan_clear(); vnet::reset(j.cap); vnet::enable(true); vnet::set_limits(0, 0);
		verdict = j.body();
		if (vnet::misuse()) verdict += fmt("%d socket operation(s) on a closed descriptor; ", vnet::misuse());
		vnet::enable(false);
		if (vf::asan_tripped()) verdict += "ASan " + vf::asan_what() + "; ";
	};
	auto after = [&](const vsched::Result& x) { vf::add(C_EXEC); vf::add(C_POINTS, x.points.size()); if (x.preemptions) vf::add(W_PREEMPT); if (vnet::open_fds()) verdict += fmt("%d descriptor(s) left open; ", vnet::open_fds()); std::string sig = "http_exchange"; if (verdict.compare(0, 5, "[sig=") == 0) sig = verdict.substr(5, verdict.find(']') - 5); if (!verdict.empty()) vf::violation(sig, j.name + ": " + verdict + (x.choices.size() < 500 ? "schedule " + x.trace() : fmt("schedule of %d choices", (int)x.choices.size())), j.name + "|" + x.trace()); };
	vsched::set_early_timeouts(false);
	if (replay) { vsched::Result x = vsched::run_once(vsched::parse_schedule(*replay), body, 200000); after(x); }
	else { double t0 = vf::now_s(); vsched::ExploreStats st = vsched::explore(body, after, j.bound, 0, 200000); vf::add(C_JOBS); vf::add(C_EVAL); vf::add(C_DIST); { static int cst = vf::counter("states"); vf::add(cst, st.distinct_states); } if (getenv("VF_DEBUG")) if (FILE* df = fopen(getenv("VF_DEBUG"), "a")) fprintf(df, "JOB %s exec %llu maxpts %llu %.1fs\n", j.name.c_str(), (unsigned long long)st.executions, (unsigned long long)st.max_points, vf::now_s() - t0), fclose(df); }
	vsched::set_early_timeouts(true);
}

static std::string cmpSeen(const Seen& s, const std::string& m, const std::string& p, const std::string& q, const std::string& b) {
	std::string e;
	if (s.method != m) e += "handler saw method '" + s.method + "' instead of '" + m + "'; ";
	if (s.path != p) e += "handler saw path '" + s.path + "' instead of '" + p + "'; ";
	if (s.query != q) e += "handler saw query '" + s.query + "' instead of '" + q + "'; ";
	if (s.body != b) e += fmt("handler saw a %d-byte body instead of the %d bytes sent (%s vs %s); ", (int)s.body.size(), (int)b.size(), vf::hex(s.body).substr(0, 60).c_str(), vf::hex(b).substr(0, 60).c_str());
	return e;
}

// S1: library client <-> library server, echo
static Job echoJob(const char* method, int len, int code, int bound) {
	Job j; j.name = fmt("echo.%s.%d.%d.b%d", method, len, code, bound); j.bound = bound;
	std::string m = method;
	j.body = [m, len, code]() {
		std::string e;
		Srv srv; Socket lst; lst.bind("127.0.0.1", 8000); lst.listen(2);
		Acceptor acc; acc.srv = &srv; acc.lst = &lst; acc.n = 1; acc.start();
		std::string body = bodyOf(len, 1);
		{
			Dic<> h; h["X-Token"] = "tok 1;=,"; h["X-Empty-Ok"] = "x";
			HttpRequest req(m.c_str(), fmt("http://127.0.0.1:8000/echo?code=%d&k=a%%20b", code).c_str(), ByteArray((const byte*)body.data(), (int)body.size()), h);
			HttpResponse res = Http::request(req);
			if (res.code() != code) e += fmt("client saw status %d instead of %d; ", res.code(), code);
			const ByteArray& rb = res.body(); std::string got((const char*)rb.data(), rb.length());
			std::string want = m == "GET" && len == 0 ? "" : body;
			if (got != want) e += fmt("client received a %d-byte body instead of %d bytes; ", (int)got.size(), (int)want.size());
			if (res.header("X-Method") != m.c_str()) e += "response header X-Method lost or changed; ";
			if (res.header("x-token") != "tok 1;=,") e += "response header X-Token (case-insensitive lookup) is '" + vfx::S(res.header("x-token")) + "'; ";
			if (res.header("X-Special") != "v;=, \"q\" :/?#[]@!$&'()*+%") e += "response header with printable specials changed: '" + vfx::S(res.header("X-Special")) + "'; ";
			if (res.header("X-Len") != String(len)) e += "X-Len; ";
		}
		acc.join(); lst.close();
		if (srv.seen.size() != 1) e += fmt("handler invoked %d times; ", (int)srv.seen.size());
		else { e += cmpSeen(srv.seen[0], m, "/echo", fmt("code=%d&k=a%%20b", code), body); if (srv.seen[0].headers["X-Token"] != "tok 1;=,") e += "request header X-Token lost or changed; "; }
		return e;
	};
	return j;
}
// S1b: response streamed by the handler with chunked transfer encoding
static Job streamJob(int len, int pieces, int bound, bool big = false) {
	Job j; j.name = fmt("stream.%d.%d.b%d", len, pieces, bound); j.bound = bound; if (big) j.cap = 65536;
	j.body = [len, pieces]() {
		std::string e; Srv srv; Socket lst; lst.bind("127.0.0.1", 8000); lst.listen(2);
		Acceptor acc; acc.srv = &srv; acc.lst = &lst; acc.n = 1; acc.start();
		{
			HttpResponse res = Http::get(fmt("http://127.0.0.1:8000/stream?n=%d&p=%d", len, pieces).c_str());
			const ByteArray& rb = res.body(); std::string got((const char*)rb.data(), rb.length()), want = bodyOf(len, 7);
			if (res.code() != 200) e += fmt("client saw status %d; ", res.code());
			if (got != want) { size_t d = 0; while (d < got.size() && d < want.size() && got[d] == want[d]) d++; e += fmt("chunked response of %d bytes written in %d piece(s): client received %d bytes, first difference at byte %d; ", len, pieces, (int)got.size(), (int)d); }
			if (res.header("X-Streamed") != "yes") e += "header of a streamed response lost; ";
			vf::add(W_CHUNKED_RESP);
		}
		acc.join(); lst.close();
		return e;
	};
	return j;
}
// S2: JSON
static Job jsonJob(int n, int bound) {
	Job j; j.name = fmt("json.%d.b%d", n, bound); j.bound = bound;
	j.body = [n]() {
		std::string e; Srv srv; Socket lst; lst.bind("127.0.0.1", 8000); lst.listen(2);
		Acceptor acc; acc.srv = &srv; acc.lst = &lst; acc.n = 1; acc.start();
		{
			Var v; v["n"] = n; v["list"] = Var::array({ 1, 2.5, "x" }); v["t"] = String::repeat('j', n);
			HttpResponse res = Http::post("http://127.0.0.1:8000/json", v);
			Var r = res.json();
			if (res.code() != 200 || !r.ok()) e += fmt("JSON response not received (code %d); ", res.code());
			else { if (!(r["got"] == v)) e += "handler did not see the JSON value that was posted; "; if ((int)r["n"] != n) e += "json n; "; if (r["s"].toString() != "a\"\\/\n\x01") e += "JSON string with quotes/backslash/control characters changed on the way back; "; }
			if (!res.header("Content-Type").startsWith("application/json")) e += "Content-Type of a JSON response; ";
			vf::add(W_JSON);
		}
		acc.join(); lst.close();
		return e;
	};
	return j;
}
// S3: file body with a byte range [b,e] of a 6-byte file "012345"
static Job rangeJob(int b, int eIdx, int bound) {
	Job j; j.name = fmt("range.%d.%d.b%d", b, eIdx, bound); j.bound = bound;
	j.body = [b, eIdx]() {
		std::string e; Srv srv; Socket lst; lst.bind("127.0.0.1", 8000); lst.listen(2);
		Acceptor acc; acc.srv = &srv; acc.lst = &lst; acc.n = 1; acc.start();
		{
			Dic<> h; if (b >= 0) h["Range"] = fmt("bytes=%d-%d", b, eIdx).c_str();
			HttpResponse res = Http::get("http://127.0.0.1:8000/f.txt", h);
			const ByteArray& rb = res.body(); std::string got((const char*)rb.data(), rb.length());
			std::string file = "012345";
			if (b < 0) { if (res.code() != 200 || got != file) e += fmt("whole file: code %d, %d bytes; ", res.code(), (int)got.size()); }
			else if (b <= eIdx && b < 6) { // satisfiable (RFC 7233): last-byte-pos beyond the end is clamped
				int last = eIdx < 5 ? eIdx : 5; std::string want = file.substr(b, last - b + 1);
				vf::add(W_RANGE206);
				if (b == 0 && eIdx == 0 && res.code() == 206 && got == file) { // classified defect: (0,0) is the API's "no range" sentinel
					if (vf::known("range_0_0")) vf::known_hit("range_0_0", "GET with Range: bytes=0-0 returns the whole file"); else e += "[sig=range_0_0] range bytes=0-0 of a 6-byte file returns the whole file '012345' with status 206 instead of the first byte; ";
				}
				else if (res.code() != 206 || got != want) e += fmt("range bytes=%d-%d of a 6-byte file: status %d with body '%s', expected 206 with '%s'; ", b, eIdx, res.code(), got.c_str(), want.c_str());
				else if (res.header("Content-Range") != fmt("bytes %d-%d/6", b, last).c_str()) e += "Content-Range is '" + vfx::S(res.header("Content-Range")) + "'; ";
			} else if (b >= 6 && b <= eIdx) { vf::add(W_RANGE416); if (res.code() != 416 && !(res.code() == 200 && got == file)) e += fmt("unsatisfiable range bytes=%d-%d: status %d with %d bytes; ", b, eIdx, res.code(), (int)got.size()); }
			else { /* first > last: not a valid range specification; only termination and memory safety are required */ }
		}
		acc.join(); lst.close();
		return e;
	};
	return j;
}
// raw helpers
static void rawSend(Socket& s, const std::string& bytes, const std::vector<int>& cuts) { size_t p = 0; for (size_t i = 0; i <= cuts.size(); i++) { size_t q = i < cuts.size() ? (size_t)cuts[i] : bytes.size(); if (q > p) s.write(bytes.data() + p, (int)(q - p)); p = q; vsched::point(); } }
static std::string rawReadAll(Socket& s) { std::string r; char buf[64]; for (;;) { if (!s.waitInput(5.0)) break; int a = s.available(); if (a <= 0) break; int n = s.read(buf, a < 64 ? a : 64); if (n <= 0) break; r.append(buf, n); } return r; }
// S4/S6: raw client -> library server: request bytes cut at `cut`, optional chunked body, optional second pipelined request
static Job rawClientJob(int variant, int cut, int bound) {
	Job j; j.name = fmt("rawclient.%d.%d.b%d", variant, cut, bound); j.bound = bound; if (variant >= 2) j.cap = 4096; // a pipelining client that does not read while it writes needs room for both requests
	j.body = [variant, cut]() {
		std::string e; Srv srv; Socket lst; lst.bind("127.0.0.1", 8000); lst.listen(2);
		Acceptor acc; acc.srv = &srv; acc.lst = &lst; acc.n = 1; acc.start();
		std::string body = bodyOf(9, 3), req, second;
		if (variant == 0) req = "POST /echo?code=200 HTTP/1.1\r\nHost: h\r\nContent-Length: 9\r\nConnection: close\r\n\r\n" + body;
		else if (variant == 1) { req = "PUT /echo?code=201 HTTP/1.1\r\nHost: h\r\nTransfer-Encoding: chunked\r\nConnection: close\r\n\r\n4\r\n" + body.substr(0, 4) + "\r\n5\r\n" + body.substr(4) + "\r\n0\r\n\r\n"; vf::add(W_CHUNKED_REQ); }
		else if (variant == 2) { req = "POST /echo?code=200 HTTP/1.1\r\nHost: h\r\nContent-Length: 9\r\nConnection: keep-alive\r\n\r\n" + body; second = "GET /len?n=3 HTTP/1.1\r\nHost: h\r\nConnection: close\r\n\r\n"; vf::add(W_KEEPALIVE); }
		else { req = "POST /echo?code=200 HTTP/1.1\r\nHost: h\r\nTransfer-Encoding: chunked\r\nConnection: keep-alive\r\n\r\n4\r\n" + body.substr(0, 4) + "\r\n5\r\n" + body.substr(4) + "\r\n0\r\n\r\n"; second = "GET /len?n=3 HTTP/1.1\r\nHost: h\r\nConnection: close\r\n\r\n"; vf::add(W_KEEPALIVE); vf::add(W_CHUNKED_REQ); }
		std::string resp;
		{
			Socket c; if (!c.connect("127.0.0.1", 8000)) e += "raw client could not connect; ";
			else { std::vector<int> cuts; if (cut > 0 && cut < (int)(req + second).size()) cuts.push_back(cut); rawSend(c, req + second, cuts); resp = rawReadAll(c); c.close(); }
		}
		acc.join(); lst.close();
		size_t expect = variant >= 2 ? 2 : 1;
		if (srv.seen.size() != expect) e += fmt("handler invoked %d times instead of %d; ", (int)srv.seen.size(), (int)expect);
		else { e += cmpSeen(srv.seen[0], variant == 1 ? "PUT" : "POST", "/echo", variant == 1 ? "code=201" : "code=200", body); if (variant >= 2) e += cmpSeen(srv.seen[1], "GET", "/len", "n=3", ""); }
		// the response(s) on the wire: status line and exact body bytes
		std::string st = variant == 1 ? "HTTP/1.1 201" : "HTTP/1.1 200";
		if (resp.compare(0, st.size(), st) != 0) e += "first response status line is '" + resp.substr(0, 20) + "'; ";
		size_t hb = resp.find("\r\n\r\n");
		if (hb == std::string::npos || resp.compare(hb + 4, body.size(), body) != 0) e += "echoed body bytes differ on the wire; ";
		if (variant >= 2) { size_t p2 = resp.find("HTTP/1.1 200", hb == std::string::npos ? 0 : hb + 4 + body.size()); if (p2 == std::string::npos) e += "no response to the second pipelined request; "; else { size_t h2 = resp.find("\r\n\r\n", p2); if (h2 == std::string::npos || resp.substr(h2 + 4) != bodyOf(3, 2)) e += "second response body differs; "; } }
		return e;
	};
	return j;
}
// S7: raw server -> library client: response bytes (length-framed or chunked) cut at `cut`
struct RawServer : public Thread { Socket* lst; std::string resp; int cut; std::string gotReq; void run() { Socket c = lst->accept(); if (c.handle() < 0) return; // read the request head
		for (;;) { String l = c.readLine(); gotReq += vfx::S(l) + "\n"; if (l == "\r" || !l.ok()) break; }
		std::vector<int> cuts; if (cut > 0 && cut < (int)resp.size()) cuts.push_back(cut); rawSend(c, resp, cuts); c.close(); } };
static Job rawServerJob(int variant, int cut, int bound) {
	Job j; j.name = fmt("rawserver.%d.%d.b%d", variant, cut, bound); j.bound = bound;
	j.body = [variant, cut]() {
		std::string e; Socket lst; lst.bind("127.0.0.1", 8000); lst.listen(2);
		std::string body = bodyOf(11, 4);
		RawServer rs; rs.lst = &lst; rs.cut = cut;
		if (variant == 0) rs.resp = "HTTP/1.1 200 OK\r\nContent-Length: 11\r\nX-A: b\r\n\r\n" + body;
		else if (variant == 1) { rs.resp = "HTTP/1.1 203 Meh\r\nTransfer-Encoding: chunked\r\nX-A:b\r\n\r\n3\r\n" + body.substr(0, 3) + "\r\n8\r\n" + body.substr(3) + "\r\n0\r\n\r\n"; vf::add(W_CHUNKED_RESP); }
		else rs.resp = "HTTP/1.1 404 Not Found\r\nContent-Length: 0\r\n\r\n";
		rs.start();
		{
			HttpResponse res = Http::get("http://127.0.0.1:8000/x?y=1");
			const ByteArray& rb = res.body(); std::string got((const char*)rb.data(), rb.length());
			int code = variant == 0 ? 200 : variant == 1 ? 203 : 404;
			if (res.code() != code) e += fmt("client saw status %d instead of %d; ", res.code(), code);
			if (got != (variant == 2 ? std::string() : body)) e += fmt("client received %d body bytes instead of %d; ", (int)got.size(), variant == 2 ? 0 : 11);
			if (variant != 2 && res.header("X-A") != "b") e += "response header X-A is '" + vfx::S(res.header("X-A")) + "'; ";
		}
		rs.join(); lst.close();
		if (rs.gotReq.compare(0, 22, "GET /x?y=1 HTTP/1.1\r\n") != 0 && rs.gotReq.compare(0, 20, "GET /x?y=1 HTTP/1.1\r") != 0) e += "request line on the wire is '" + rs.gotReq.substr(0, 30) + "'; ";
		return e;
	};
	return j;
}
// S5: two concurrent library clients, the real started server (accept loop + handler threads), stop(true)
static Job twoClientsJob(int len, int bound) {
	Job j; j.name = fmt("twoclients.%d.b%d", len, bound); j.bound = bound; j.cap = 65536; // six threads: keep the number of blocking points (forced switches) small
	j.body = [len]() {
		std::string e;
		Srv* srv = new Srv(); if (!srv->bind("127.0.0.1", 8000)) e += "bind failed; ";
		srv->start(true);
		std::string got[2]; int code[2] = { 0, 0 }; std::string tok[2];
		ClientT c[2];
		for (int i = 0; i < 2; i++) {
			c[i].f = [i, len, &got, &code, &tok]() { std::string body = bodyOf(len + i, 5 + i); Dic<> h; h["X-Token"] = fmt("client-%d", i).c_str(); HttpRequest req("POST", "http://127.0.0.1:8000/echo?code=200", ByteArray((const byte*)body.data(), (int)body.size()), h); HttpResponse res = Http::request(req); code[i] = res.code(); const ByteArray& rb = res.body(); got[i].assign((const char*)rb.data(), rb.length()); tok[i] = vfx::S(res.header("X-Token")); };
			c[i].start();
		}
		c[0].join(); c[1].join();
		srv->stop(true);
		for (int i = 0; i < 2; i++) { if (code[i] != 200) e += fmt("client %d saw status %d; ", i, code[i]); if (got[i] != bodyOf(len + i, 5 + i)) e += fmt("client %d received %d bytes that are not its own %d-byte body; ", i, (int)got[i].size(), len + i); if (tok[i] != fmt("client-%d", i)) e += fmt("client %d received the token '%s'; ", i, tok[i].c_str()); }
		if (srv->seen.size() != 2) e += fmt("handler invoked %d times; ", (int)srv->seen.size());
		delete srv;
		vf::add(W_TWOCLIENTS);
		return e;
	};
	return j;
}
// S8 (real block sizes): large bodies, default schedule family only
static Job bigJob(int len, int bound) {
	Job j; j.name = fmt("big.%d.b%d", len, bound); j.bound = bound; j.cap = 65536;
	j.body = [len]() {
		std::string e; Srv srv; Socket lst; lst.bind("127.0.0.1", 8000); lst.listen(2);
		Acceptor acc; acc.srv = &srv; acc.lst = &lst; acc.n = 1; acc.start();
		std::string body = bodyOf(len, 6);
		{
			HttpRequest req("PUT", "http://127.0.0.1:8000/echo?code=200", ByteArray((const byte*)body.data(), (int)body.size()));
			HttpResponse res = Http::request(req);
			const ByteArray& rb = res.body();
			if (res.code() != 200 || rb.length() != len || memcmp(rb.data(), body.data(), len) != 0) e += fmt("%d-byte body: client got status %d and %d bytes; ", len, res.code(), rb.length());
		}
		acc.join(); lst.close();
		if (srv.seen.size() != 1 || srv.seen[0].body != body) e += fmt("%d-byte body: handler saw %d bytes; ", len, srv.seen.empty() ? -1 : (int)srv.seen[0].body.size());
		vf::add(W_BIG);
		return e;
	};
	return j;
}

int main(int argc, char** argv) {
	bool big = false; for (int i = 1; i < argc; i++) if (!strcmp(argv[i], "--big")) big = true;
	vf::init(argc, argv, "C10", big ? "s_c10_httpx_big" : "s_c10_httpx");
	C_EXEC = vf::counter("traces"); C_POINTS = vf::counter("transitions"); C_JOBS = vf::counter("scenarios"); C_EVAL = vf::counter("evaluations"); C_DIST = vf::counter("distinct_nontrivial"); vf::counter("states");
	W_PREEMPT = vf::counter("w.executions_with_preemption"); W_RANGE206 = vf::counter("w.satisfiable_ranges"); W_RANGE416 = vf::counter("w.unsatisfiable_ranges"); W_JSON = vf::counter("w.json_exchanges"); W_KEEPALIVE = vf::counter("w.keepalive_pipelined"); W_TWOCLIENTS = vf::counter("w.two_concurrent_clients"); W_CHUNKED_REQ = vf::counter("w.chunked_requests"); W_CHUNKED_RESP = vf::counter("w.chunked_responses"); W_BIG = vf::counter("w.large_bodies");
	vsched::set_fatal_handler(onFatal);
	vsched::set_state_probe(vnet::state_hash);
	g_root = vf::scratch_dir() + "/root"; if (system(("mkdir -p '" + g_root + "' && printf 012345 > '" + g_root + "/f.txt'").c_str())) {}
	bool T = vf::opt.thorough();
	std::vector<Job> jobs;
	if (big) {
		int lens[] = { 0, 1, 15999, 16000, 16001, 127999, 128000, 128001, 300 * 1024 };
		for (size_t i = 0; i < sizeof lens / sizeof *lens; i++) { jobs.push_back(bigJob(lens[i], 0)); jobs.push_back(streamJob(lens[i], 1, 0, true)); if (lens[i] > 1) jobs.push_back(streamJob(lens[i], 2, 0, true)); }
	} else {
		const char* methods[] = { "GET", "POST", "PUT" };
		for (int m = 0; m < 3; m++) for (int len = 0; len <= 20; len++) { if (m == 0 && len > 0) continue; jobs.push_back(echoJob(methods[m], len, len % 3 == 0 ? 200 : len % 3 == 1 ? 201 : 404, (T && len <= 3) ? 2 : 1)); }
		for (int len = 0; len <= 20; len++) for (int pc = 1; pc <= 3; pc += 2) jobs.push_back(streamJob(len, pc, (T && len % 4 == 0) ? 1 : 0));
		for (int n = 0; n <= (T ? 12 : 6); n += 3) jobs.push_back(jsonJob(n, 1));
		jobs.push_back(rangeJob(-1, 0, 1));
		for (int b = 0; b <= 6; b++) for (int e = 0; e <= 6; e++) jobs.push_back(rangeJob(b, e, (b + e) % 4 == 0 ? 1 : 0));
		for (int v = 0; v < 4; v++) { int n = v == 0 ? 87 : v == 1 ? 110 : v == 2 ? 140 : 170; int first = v == 3 ? 117 : -100; for (int cut = 0; cut < n; cut++) jobs.push_back(rawClientJob(v, cut, (cut % (T ? 3 : 9) == 0 || (cut > first - 14 && cut <= first + 2)) ? 1 : 0)); }
		for (int v = 0; v < 3; v++) { int n = v == 0 ? 56 : v == 1 ? 75 : 44; for (int cut = 0; cut < n; cut++) jobs.push_back(rawServerJob(v, cut, cut % (T ? 2 : 8) == 0 ? 1 : 0)); }
		for (int len = 0; len <= (T ? 9 : 3); len += 3) jobs.push_back(twoClientsJob(len, T ? 1 : 0));
	}
	if (getenv("C10_ONLY")) { std::vector<Job> q; for (size_t i = 0; i < jobs.size(); i++) if (jobs[i].name.find(getenv("C10_ONLY")) == 0) q.push_back(jobs[i]); jobs.swap(q); }
	if (vf::opt.replay) {
		std::string k = vf::opt.kase, sched; size_t bar = k.find('|'); if (bar != std::string::npos) { sched = k.substr(bar + 1); k = k.substr(0, bar); }
		for (size_t i = 0; i < jobs.size(); i++) if (jobs[i].name == k) { vf::parallel(1, [&](uint64_t) { runJob(jobs[i], &sched); }); break; }
		return vf::finish();
	}
	vf::parallel(jobs.size(), [&](uint64_t i) { if (vf::deadline_passed()) { vf::cap_hit("deadline"); return; } runJob(jobs[i], 0); });
	vf::setinfo("scenarios", fmt("%d", (int)jobs.size()));
	if (!big) { vf::sample("echo.PUT.13.201: Http::request PUT with a 13-byte body (CR LF NUL 0xff) over a 4-byte pipe, send block 8 / receive block 5, all schedules with <= 1 preemption"); vf::sample("range.2.2: GET /f.txt with Range: bytes=2-2; rawclient chunked PUT cut at every 3rd byte; rawserver chunked 203 response cut at every 2nd byte"); }
	else vf::sample("big.128001: PUT of 128001 bytes with the real 128000/16000 block sizes over a 64 KiB pipe");
	return vf::finish();
}
