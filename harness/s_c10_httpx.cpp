// C10 — HTTP client <-> server exactness: the real Http::request client and the real HttpServer per-connection code run
// as threads over vnet (tiny pipe, tiny block sizes in the small-scope flavour) under the controlled scheduler; every
// method x body length x response shape, JSON / form / file / multipart bodies, every form of byte range, redirects,
// keep-alive, two concurrent clients, raw clients and raw servers that fragment their bytes (and spell header names in
// any case), pairs of exchanges of the same kind with different content in flight at once on every body path (isolation of
// buffers, formatted strings and framing state between handler threads / client calls), all within a preemption bound.
#include <asl/HttpServer.h>
#include <asl/Http.h>
#include <asl/Socket.h>
#include <asl/Thread.h>
#include <asl/File.h>
#include <asl/Var.h>
#include <asl/JSON.h>
#include <map>
#include <algorithm>
#include <unistd.h>
#include "vf.h"
#include "aslx.h"
#include "refjson.h"
#include "vsched.h"
#include "vnet.h"
using namespace asl;
using vf::fmt;

static int C_EXEC, C_POINTS, C_JOBS, C_EVAL, C_DIST, W_PREEMPT, W_RANGE206, W_RANGE416, W_JSON, W_KEEPALIVE, W_TWOCLIENTS, W_CHUNKED_REQ, W_CHUNKED_RESP, W_BIG;
static int W_QUERYVALS, W_PCTPATH, W_FRAGMENT, W_RANGE_OPEN, W_RANGE_SUFFIX, W_RANGE_IGNORED, W_LOWER_HDR, W_REDIRECT_HOPS, W_REDIRECT_LIMIT, W_REDIRECT_OFF, W_FILE_REQ, W_MULTIPART, W_DOWNLOAD, W_FORM, W_METHODS, W_OPTIONS_AUTO, W_EXPECT_SRV, W_INTERIM_CLI, W_HTTP10, W_MISSING, W_MIXED, W_LIGHT, W_TWOLIB, W_HDR3, W_FRAGMENTED;
static inline void wit(int c) { if (c > 0) vf::add(c); } // witness counters are registered only in the part (small / --big) that can reach them
static std::string g_case;
static void onFatal(const char* what, const std::string& schedule) {
	std::string w = what;
	if (w == "DIVERGED") { fprintf(stderr, "HARNESS ERROR: diverged %s\n", g_case.c_str()); _exit(2); }
	vf::violation(w == "DEADLOCK" ? "deadlock" : w == "LIVELOCK" ? "livelock" : "no_termination", std::string(what) + " in " + g_case + (schedule.size() < 600 ? " under schedule " + schedule : ""), g_case + "|" + schedule);
	vf::restart_worker();
}
static std::string bodyOf(int n, int seed) { static const char al[] = { 'a', '\r', '\n', 0, 'Z', (char)0xff, ' ', '%' }; std::string s; for (int i = 0; i < n; i++) s += al[(i * 3 + seed + i / 8) % 8]; return s; }
static std::string g_root;
static const std::string FILE6 = "012345", FILEG = "abcdef"; // f.txt and g.html
#define BASEURL "http://127.0.0.1:8000"

// A failure that is a classified defect of the library: reported under its own signature (so that it can be listed as a
// known finding without hiding anything else). The text must come first in the verdict of the scenario.
static std::string classified(const char* sig, const std::string& desc) {
	if (vf::known(sig)) { vf::known_hit(sig, desc); return ""; }
	return std::string("[sig=") + sig + "] " + desc + "; ";
}

static std::string lower(std::string s) { for (size_t i = 0; i < s.size(); i++) s[i] = (char)tolower((unsigned char)s[i]); return s; }
// headers: field names are case-insensitive and the spelling in which the library stores them is not documented: keyed by the lower-case name
struct Seen { std::string method, path, query, body, hLower; std::map<std::string, std::string> headers, qv; };
struct Srv : public HttpServer {
	std::vector<Seen> seen;
	Srv() : HttpServer(-1) {}
	void serve(HttpRequest& q, HttpResponse& r) {
		Seen s; s.method = vfx::S(q.method()); s.path = vfx::S(q.path()); s.query = vfx::S(q.querystring());
		const ByteArray& b = q.body(); s.body.assign((const char*)b.data(), b.length());
		foreach2 (String & k, const String& v, q.headers()) s.headers[lower(vfx::S(k))] = vfx::S(v);
		foreach2 (String & k2, const String& v2, q.query()) s.qv[vfx::S(k2)] = vfx::S(v2);
		s.hLower = q.hasHeader("x-lOwEr") ? vfx::S(q.header("X-LOWER")) : std::string("<absent>");
		seen.push_back(s);
		String p = q.path();
		if (p == "/echo") { int code = q.query("code") ? (int)q.query("code") : 200; r.setCode(code); r.setHeader("X-Method", q.method()); r.setHeader("X-Len", String(b.length())); if (q.hasHeader("X-Token")) r.setHeader("X-Token", q.header("X-Token")); r.setHeader("X-Special", "v;=, \"q\" :/?#[]@!$&'()*+%"); r.put(b); }
		else if (p == "/len") { r.put(ByteArray((const byte*)bodyOf((int)q.query("n"), q.query().has("s") ? (int)q.query("s") : 2).data(), (int)q.query("n"))); }
		else if (p == "/json") { Var in = q.json(); Var out; out["got"] = in; out["n"] = in.has("n") ? in["n"] : Var(); /* no in["n"] on a value without it: that would insert into the Dic shared with out (C04 grow_while_shared) */ out["s"] = "a\"\\/\n\x01"; r.put(out); }
		else if (p == "/stream") { // body streamed with chunked transfer encoding: n bytes written in `pieces` write() calls, then the last-chunk marker
			int n = q.query("n"), pieces = max(1, (int)q.query("p")); std::string body = bodyOf(n, q.query().has("s") ? (int)q.query("s") : 7);
			r.setHeader("Transfer-Encoding", "chunked"); r.setHeader("X-Streamed", "yes");
			int done = 0; for (int i = 0; i < pieces; i++) { int m = i + 1 == pieces ? n - done : n / pieces; if (m > 0) r.write(body.data() + done, m); done += m; }
			if (n == 0) r.sendHeaders();
			r.socket() << "0\r\n\r\n";
		}
		else if (p == "/redir") { // a chain of n redirects with status c that ends at /echo
			int n = q.query("n"), c = q.query("c");
			r.setCode(c); r.setHeader("Location", n > 1 ? String(fmt(BASEURL "/redir?n=%d&c=%d", n - 1, c).c_str()) : String(BASEURL "/echo?code=201&k=end")); r.put("moved");
		}
		else if (p == "/f.txt") { r.put(File((g_root + "/f.txt").c_str())); }
		else if (p == "/g.html") { r.put(File((g_root + "/g.html").c_str())); }
		else if (p == "/missing.txt") { r.put(File((g_root + "/missing.txt").c_str())); }
		else { r.setCode(404); r.put("nope"); }
	}
};
// serves n connections one after the other; with n < 0: connections until `stop` is set (for clients that decide themselves how many connections they make)
struct Acceptor : public Thread { Srv* srv; Socket* lst; int n; volatile bool stop; Acceptor() : n(1), stop(false) {} void run() { for (int i = 0; n < 0 || i < n; i++) { if (n < 0) { while (!stop && !lst->waitInput(1.0)) {} if (stop) break; } Socket c = lst->accept(); if (c.handle() < 0) break; ((SocketServer*)srv)->serve(c); c.close(); } } };
struct ClientT : public Thread { std::function<void()> f; void run() { f(); } };

struct Job { std::string name; int bound; std::function<std::string()> body; int cap, rmax, wpre; Job() : bound(0), cap(4), rmax(0), wpre(0) {} }; // rmax: at most this many bytes per read() call (short reads), 0 = no limit; wpre: witness counter for executions with a preemption

// generic runner: body returns "" when every assertion holds
static void runJob(const Job& j, const std::string* replay) {
	g_case = j.name; vf::cur(j.name);
	std::string verdict;
	auto body = [&]() {
		vf::asan_clear(); vnet::reset(j.cap); vnet::enable(true); vnet::set_limits(j.rmax, 0);
		verdict = j.body();
		if (vnet::misuse()) verdict += fmt("%d socket operation(s) on a closed descriptor; ", vnet::misuse());
		vnet::enable(false);
		if (vf::asan_tripped()) verdict += "ASan " + vf::asan_what() + "; ";
	};
	auto after = [&](const vsched::Result& x) { vf::add(C_EXEC); vf::add(C_POINTS, x.points.size()); if (x.preemptions) { vf::add(W_PREEMPT); wit(j.wpre); } if (vnet::open_fds()) verdict += fmt("%d descriptor(s) left open; ", vnet::open_fds()); std::string sig = "http_exchange"; if (verdict.compare(0, 5, "[sig=") == 0) sig = verdict.substr(5, verdict.find(']') - 5); if (!verdict.empty()) vf::violation(sig, j.name + ": " + verdict + (x.choices.size() < 500 ? "schedule " + x.trace() : fmt("schedule of %d choices", (int)x.choices.size())), j.name + "|" + x.trace()); };
	vsched::set_early_timeouts(false);
	if (replay) { vsched::Result x = vsched::run_once(vsched::parse_schedule(*replay), body, 200000); after(x); }
	else { double t0 = vf::now_s(); vsched::ExploreStats st = vsched::explore(body, after, j.bound, 0, 200000); if (!st.complete) vf::cap_hit("schedule exploration of " + j.name + " stopped early"); vf::add(C_JOBS); vf::add(C_EVAL); vf::add(C_DIST); { static int cst = vf::counter("states"); vf::add(cst, st.distinct_states); } if (getenv("VF_DEBUG")) if (FILE* df = fopen(getenv("VF_DEBUG"), "a")) fprintf(df, "JOB %s exec %llu maxpts %llu %.1fs\n", j.name.c_str(), (unsigned long long)st.executions, (unsigned long long)st.max_points, vf::now_s() - t0), fclose(df); }
	vsched::set_early_timeouts(true);
}

static std::string cmpSeen(const Seen& s, const std::string& m, const std::string& p, const std::string& q, const std::string& b) {
	std::string e;
	if (s.method != m) e += "handler saw method '" + s.method + "' instead of '" + m + "'; ";
	if (s.path != p) e += "handler saw path '" + s.path + "' instead of '" + p + "'; ";
	if (s.query != q) e += "handler saw query '" + s.query + "' instead of '" + q + "'; ";
	if (s.body != b) e += fmt("handler saw a %d-byte body instead of the %d bytes sent (%s vs %s); ", (int)s.body.size(), (int)b.size(), vf::hex(s.body).substr(0, 60).c_str(), vf::hex(b).substr(0, 60).c_str());
	return e;
}
// decoded query values: want is "k=v|k=v" (already decoded)
static std::string cmpQuery(const Seen& s, const char* want) {
	std::map<std::string, std::string> w; std::string t = want; size_t p = 0;
	while (p <= t.size() && !t.empty()) { size_t q = t.find('|', p); if (q == std::string::npos) q = t.size(); std::string kv = t.substr(p, q - p); size_t eq = kv.find('='); w[kv.substr(0, eq)] = kv.substr(eq + 1); p = q + 1; }
	wit(W_QUERYVALS);
	if (s.qv == w) return "";
	std::string got; for (std::map<std::string, std::string>::const_iterator i = s.qv.begin(); i != s.qv.end(); ++i) got += "'" + i->first + "'='" + i->second + "' ";
	return "handler saw the decoded query values " + got + "instead of " + want + "; ";
}
struct Listener { Srv srv; Socket lst; Acceptor acc; Listener(int n = 1) { lst.bind("127.0.0.1", 8000); lst.listen(2); acc.srv = &srv; acc.lst = &lst; acc.n = n; acc.start(); } void done() { acc.stop = true; acc.join(); lst.close(); } };
static std::string bodyStr(const HttpResponse& res) { const ByteArray& rb = res.body(); return std::string((const char*)rb.data(), rb.length()); }

// S1: library client <-> library server, echo. The path is sent percent-encoded, the query has encoded values, '+', an encoded key
// and an empty value; one request header is given in lower case (headers passed to the constructor go on the wire as they are).
static const char* ECHO_Q = "&k=a%20b+c%26d&%6b2=%3D&e=";
static Job echoJob(const char* method, int len, int code, int bound) {
	Job j; j.name = fmt("echo.%s.%d.%d.b%d", method, len, code, bound); j.bound = bound;
	std::string m = method;
	j.body = [m, len, code]() {
		std::string e;
		Listener L;
		std::string body = bodyOf(len, 1);
		bool autoOptions = false;
		{
			// four headers: with exactly 3 (or 6, 12) the constructor's header copy shares the caller's Dic and the added Content-Length grows it (see hdr3Job)
			Dic<> h; h["X-Token"] = "tok 1;=,"; h["X-Empty-Ok"] = "x"; h["x-lower"] = "lv"; h["X-Four"] = "4";
			String url = fmt(BASEURL "/ec%%68o?code=%d%s", code, ECHO_Q).c_str(); ByteArray ba((const byte*)body.data(), (int)body.size());
			HttpResponse res;
			if (m == "DELETE" && len == 0) res = Http::delet(url, h);
			else if (m == "PATCH") res = Http::patch(url, ba, h);
			else { HttpRequest req(m.c_str(), url, ba, h); res = Http::request(req); }
			std::string got = bodyStr(res);
			if (res.hasHeader("Content-Length") && (int)res.header("Content-Length") != (int)got.size()) e += "client received " + fmt("%d", (int)got.size()) + " body bytes of a response that announces Content-Length " + vfx::S(res.header("Content-Length")) + "; ";
			if (m == "OPTIONS" && res.code() / 100 == 2 && res.header("X-Method") == "" && res.header("Allow").contains("OPTIONS") && got.empty()) { autoOptions = true; wit(W_OPTIONS_AUTO); } // the server answers OPTIONS itself (HttpServer::handleOptions), with any 2xx status (200 or 204 No Content)
			else {
				if (res.code() != code) e += fmt("client saw status %d instead of %d; ", res.code(), code);
				std::string want = m == "GET" && len == 0 ? "" : body;
				if (got != want) e += fmt("client received a %d-byte body instead of %d bytes; ", (int)got.size(), (int)want.size());
				if (res.header("X-Method") != m.c_str()) e += "response header X-Method lost or changed; ";
				if (res.header("x-token") != "tok 1;=,") e += "response header X-Token (case-insensitive lookup) is '" + vfx::S(res.header("x-token")) + "'; ";
				if (res.header("X-Special") != "v;=, \"q\" :/?#[]@!$&'()*+%") e += "response header with printable specials changed: '" + vfx::S(res.header("X-Special")) + "'; ";
				if (res.header("X-Len") != String(len)) e += "X-Len; ";
			}
		}
		L.done();
		Srv& srv = L.srv;
		if (autoOptions) { if (!srv.seen.empty()) e += "OPTIONS answered by the server itself and also passed to the handler; "; }
		else if (srv.seen.size() != 1) e += fmt("handler invoked %d times; ", (int)srv.seen.size());
		else {
			e += cmpSeen(srv.seen[0], m, "/echo", fmt("code=%d%s", code, ECHO_Q), body); wit(W_PCTPATH);
			e += cmpQuery(srv.seen[0], fmt("code=%d|k=a b c&d|k2==|e=", code).c_str());
			if (srv.seen[0].headers["x-token"] != "tok 1;=,") e += "request header X-Token lost or changed; ";
			if (srv.seen[0].hLower != "lv") e += "request header sent as 'x-lower: lv' is seen by the handler as '" + srv.seen[0].hLower + "'; "; else wit(W_LOWER_HDR);
			if (m != "GET" && m != "POST" && m != "PUT") wit(W_METHODS);
		}
		return e;
	};
	return j;
}
// S1a: the URL carries a fragment (with a '?' inside): the handler must see the path and the query before the '#'
static Job fragmentJob(int variant, int bound) { // variant 1: no query at all, the only '?' is inside the fragment
	Job j; j.name = variant ? fmt("fragment.%d.b%d", variant, bound) : fmt("fragment.b%d", bound); j.bound = bound;
	j.body = [variant]() {
		std::string e; Listener L; int code = variant ? 200 : 201;
		{
			HttpResponse res = Http::get(variant ? BASEURL "/echo#f?code=404" : BASEURL "/echo?code=201&x=1%23#f?y=2");
			if (res.code() != code) e += fmt("client saw status %d instead of %d; ", res.code(), code);
		}
		L.done();
		if (L.srv.seen.size() != 1) e += fmt("handler invoked %d times; ", (int)L.srv.seen.size());
		else { e += cmpSeen(L.srv.seen[0], "GET", "/echo", variant ? "" : "code=201&x=1%23", ""); e += cmpQuery(L.srv.seen[0], variant ? "" : "code=201|x=1#"); wit(W_FRAGMENT); }
		return e;
	};
	return j;
}
// S1c: a request built from a header Dic of exactly three entries and a body: the constructor keeps a shared handle on the caller's Dic
// and adds Content-Length to it, which reallocates the block under the caller (the C01 defect "grow_while_shared" reached through Http.h)
static Job hdr3Job(int bound) {
	Job j; j.name = fmt("hdr3.b%d", bound); j.bound = bound;
	j.body = []() {
		std::string e; Listener L; std::string body = bodyOf(5, 1);
		{
			Dic<> h; h["X-Token"] = "t3"; h["X-A"] = "a"; h["X-B"] = "b";
			{
				HttpRequest req("POST", BASEURL "/echo?code=201", ByteArray((const byte*)body.data(), (int)body.size()), h);
				HttpResponse res = Http::request(req);
				if (res.code() != 201 || bodyStr(res) != body || res.header("X-Token") != "t3") e += fmt("request with three headers: client saw status %d and %d bytes; ", res.code(), res.body().length());
			}
			if (h.length() != 3) e += fmt("the caller's header set has %d entries after the request was built from it; ", h.length());
		}
		if (vf::asan_tripped() && vf::asan_what().find("heap-use-after-free") != std::string::npos) { vf::asan_clear(); e = classified("headers_grow_while_shared", "HttpRequest(method, url, body, headers) with exactly 3 headers: the request shares the caller's Dic and adding Content-Length reallocates it: heap-use-after-free when the caller's Dic is used or destroyed") + e; }
		L.done();
		if (L.srv.seen.size() != 1) e += fmt("handler invoked %d times; ", (int)L.srv.seen.size()); else { e += cmpSeen(L.srv.seen[0], "POST", "/echo", "code=201", body); if (L.srv.seen[0].headers["x-b"] != "b" || L.srv.seen[0].headers["x-token"] != "t3") e += "request headers lost; "; }
		wit(W_HDR3);
		return e;
	};
	return j;
}
// S1b: response streamed by the handler with chunked transfer encoding
static Job streamJob(int len, int pieces, int bound, bool big = false) {
	Job j; j.name = fmt("stream.%d.%d.b%d", len, pieces, bound); j.bound = bound; if (big) j.cap = 65536;
	j.body = [len, pieces]() {
		std::string e; Listener L;
		{
			HttpResponse res = Http::get(fmt(BASEURL "/stream?n=%d&p=%d", len, pieces).c_str());
			std::string got = bodyStr(res), want = bodyOf(len, 7);
			if (res.code() != 200) e += fmt("client saw status %d; ", res.code());
			if (got != want) { size_t d = 0; while (d < got.size() && d < want.size() && got[d] == want[d]) d++; e += fmt("chunked response of %d bytes written in %d piece(s): client received %d bytes, first difference at byte %d; ", len, pieces, (int)got.size(), (int)d); }
			if (res.header("X-Streamed") != "yes") e += "header of a streamed response lost; ";
			wit(W_CHUNKED_RESP);
		}
		L.done();
		return e;
	};
	return j;
}
// S2: JSON
static Job jsonJob(int n, int bound) {
	Job j; j.name = fmt("json.%d.b%d", n, bound); j.bound = bound;
	j.body = [n]() {
		std::string e; Listener L;
		{
			Var v; v["n"] = n; v["list"] = Var::array({ 1, 2.5, "x" }); v["t"] = String::repeat('j', n);
			HttpResponse res = Http::post(BASEURL "/json", v);
			Var r = res.json();
			if (res.code() != 200 || !r.ok()) e += fmt("JSON response not received (code %d); ", res.code());
			else { if (!(r["got"] == v)) e += "handler did not see the JSON value that was posted; "; if ((int)r["n"] != n) e += "json n; "; if (r["s"].toString() != "a\"\\/\n\x01") e += "JSON string with quotes/backslash/control characters changed on the way back; "; }
			if (!res.header("Content-Type").startsWith("application/json")) e += "Content-Type of a JSON response; ";
			wit(W_JSON);
		}
		L.done();
		return e;
	};
	return j;
}
// S2b: a Var posted as application/x-www-form-urlencoded; the handler reads it with json() (which falls back to the query parser)
static Job formJob(int bound) {
	Job j; j.name = fmt("form.b%d", bound); j.bound = bound;
	j.body = []() {
		std::string e; Listener L;
		{
			Var v; v["a"] = "x y&z=+%"; v["b"] = "1"; v["c d"] = "e";
			Dic<> h; h["Content-Type"] = "application/x-www-form-urlencoded";
			HttpResponse res = Http::post(BASEURL "/json", v, h);
			Var r = res.json();
			if (res.code() != 200 || !r.ok()) e += fmt("response to a form post not received (code %d); ", res.code());
			else { Var g = r["got"]; if (!g.is(Var::DIC) || g.length() != 3 || g["a"].toString() != "x y&z=+%" || g["b"].toString() != "1" || g["c d"].toString() != "e") e += "handler did not see the form fields that were posted, but " + vfx::S(Json::encode(g)) + "; "; }
			wit(W_FORM);
		}
		L.done();
		if (L.srv.seen.size() == 1 && L.srv.seen[0].headers["content-type"] != "application/x-www-form-urlencoded") e += "Content-Type of the form post seen as '" + L.srv.seen[0].headers["content-type"] + "'; ";
		return e;
	};
	return j;
}
// S3: file body with a byte range of the 6-byte file "012345". RFC 7233 decides what is demanded for a Range header value:
//   first-last / first-   satisfiable when first < 6 and first <= last: 206, bytes [first, min(last,5)], Content-Range "bytes f-l/6"
//   -n (suffix)           n > 0: the last min(n,6) bytes, as 206 as above, or the whole file with 200 (a server may ignore Range)
//   first >= 6, -0        unsatisfiable: 416 with "Content-Range: bytes */6" and no body, or the whole file with 200
//   several ranges, other units, garbage: the whole file with 200 (Range ignored), or 206 multipart/byteranges
//   first > last          not a valid specification: only termination and memory safety
struct RangeWant { int kind; int first, last; }; // kind 0 whole file (no header), 1 satisfiable, 2 unsatisfiable, 3 may be ignored (whole file), 4 nothing demanded, 5 satisfiable suffix
static RangeWant rangeWant(const std::string& hv) {
	RangeWant w = { 3, 0, 0 };
	if (hv.empty()) { w.kind = 0; return w; }
	if (hv.compare(0, 6, "bytes=") != 0 || hv.find(',') != std::string::npos) return w;
	std::string sp = hv.substr(6); size_t d = sp.find('-'); if (d == std::string::npos) return w;
	std::string a = sp.substr(0, d), b = sp.substr(d + 1);
	for (size_t i = 0; i < a.size(); i++) if (!isdigit((unsigned char)a[i])) return w;
	for (size_t i = 0; i < b.size(); i++) if (!isdigit((unsigned char)b[i])) return w;
	if (a.empty()) { if (b.empty()) return w; int n = atoi(b.c_str()); if (n == 0) { w.kind = 2; return w; } w.kind = 5; w.first = n >= 6 ? 0 : 6 - n; w.last = 5; return w; }
	int f = atoi(a.c_str()), l = b.empty() ? 5 : atoi(b.c_str());
	if (!b.empty() && f > l) { w.kind = 4; return w; }
	if (f >= 6) { w.kind = 2; return w; }
	w.kind = 1; w.first = f; w.last = l > 5 ? 5 : l; return w;
}
// a 416 response may carry an explanation, but not content of the file: a piece of the file, or something that contains the whole file
static bool isFileContent(const std::string& got) { return !got.empty() && (FILE6.find(got) != std::string::npos || got.find(FILE6) != std::string::npos); }
static std::string rangeBody(const std::string& hv) {
	std::string e; Listener L;
	{
		Dic<> h; if (!hv.empty()) h["Range"] = hv.c_str();
		HttpResponse res = Http::get(BASEURL "/f.txt", h);
		std::string got = bodyStr(res), cr = vfx::S(res.header("Content-Range"));
		RangeWant w = rangeWant(hv);
		bool whole = res.code() == 200 && got == FILE6 && !res.hasHeader("Content-Range");
		std::string what = fmt("'Range: %s' on a 6-byte file: status %d, Content-Range '%s', body '%s'", hv.c_str(), res.code(), cr.c_str(), got.c_str());
		if (w.kind == 0) { if (!whole) e += fmt("whole file: code %d, %d bytes; ", res.code(), (int)got.size()); }
		else if (w.kind == 1 || w.kind == 5) {
			std::string want = FILE6.substr(w.first, w.last - w.first + 1);
			wit(w.kind == 5 ? W_RANGE_SUFFIX : W_RANGE206); if (hv[hv.size() - 1] == '-') wit(W_RANGE_OPEN);
			bool good = res.code() == 206 && got == want && cr == fmt("bytes %d-%d/6", w.first, w.last);
			if (good || (w.kind == 5 && whole)) {}
			else if (hv == "bytes=0-0" && res.code() == 206 && got == FILE6) e = classified("range_0_0", "range bytes=0-0 of a 6-byte file returns the whole file '012345' with status 206 instead of the first byte") + e; // (0,0) is the API's "no range" sentinel
			else if (w.kind == 5) e = classified("range_suffix", what + ": a suffix range (the last n bytes) is answered as if it were bytes=0-n; expected 206 with '" + want + "' or the whole file with 200") + e;
			else e += what + fmt(", expected 206 with '%s' and Content-Range 'bytes %d-%d/6'; ", want.c_str(), w.first, w.last);
		}
		else if (w.kind == 2) {
			wit(W_RANGE416);
			if (whole) {}
			else if (hv.compare(0, 7, "bytes=-") == 0 && res.code() == 206) e = classified("range_suffix", what + ": a suffix range of length 0 is answered as if it were bytes=0-0; expected 416 or the whole file with 200") + e;
			else if (res.code() == 416 && (isFileContent(got) || (res.hasHeader("Content-Range") && cr != "bytes */6"))) e = classified("range_416_body", what + ": an unsatisfiable range must be answered with 416, 'Content-Range: bytes */6' and no file content") + e;
			else if (res.code() != 416) e += what + ", expected 416; ";
		}
		else if (w.kind == 3) {
			wit(W_RANGE_IGNORED);
			if (whole || (res.code() == 206 && res.header("Content-Type").startsWith("multipart/byteranges")) || (res.code() == 206 && got == FILE6 && cr == "bytes 0-5/6")) {} // or the complete file as a (consistent) partial response
			else if (res.code() == 0) e = classified("range_no_response", what + ": a Range header the server does not support (several ranges, another unit) must be ignored, but no response is sent at all") + e;
			else e += what + ", expected the whole file with 200; ";
		}
	}
	L.done();
	return e;
}
static Job rangeJob(int b, int eIdx, int bound) {
	Job j; j.name = fmt("range.%d.%d.b%d", b, eIdx, bound); j.bound = bound;
	std::string hv = b >= 0 ? fmt("bytes=%d-%d", b, eIdx) : std::string();
	j.body = [hv]() { return rangeBody(hv); };
	return j;
}
static Job rangeHdrJob(const std::string& hv, int bound) {
	Job j; j.name = "rangeh." + hv + fmt(".b%d", bound); j.bound = bound;
	j.body = [hv]() { return rangeBody(hv); };
	return j;
}
// S3b: a file the handler names does not exist: the server answers 404 itself
static Job missingJob(int bound) {
	Job j; j.name = fmt("missing.b%d", bound); j.bound = bound;
	j.body = []() {
		std::string e; Listener L;
		{ HttpResponse res = Http::get(BASEURL "/missing.txt"); if (res.code() != 404) e += fmt("file body of a file that does not exist: client saw status %d with %d bytes instead of 404; ", res.code(), res.body().length()); if (res.hasHeader("Content-Length") && (int)res.header("Content-Length") != res.body().length()) e += "body length differs from Content-Length; "; wit(W_MISSING); }
		L.done();
		return e;
	};
	return j;
}
// S3c: file bodies from the client: PUT of a File, multipart upload(), and download() into a file (all three through putFile / the sinks)
static Job putFileJob(int bound) {
	Job j; j.name = fmt("putfile.b%d", bound); j.bound = bound;
	j.body = []() {
		std::string e; Listener L;
		{
			Dic<> h; h["X-Token"] = "t";
			HttpResponse res = Http::put(BASEURL "/echo?code=201", File((g_root + "/f.txt").c_str()), h);
			if (res.code() != 201 || bodyStr(res) != FILE6) e += fmt("PUT of a 6-byte file: client saw status %d and %d bytes back; ", res.code(), res.body().length());
			wit(W_FILE_REQ);
		}
		L.done();
		if (L.srv.seen.size() != 1) e += fmt("handler invoked %d times; ", (int)L.srv.seen.size()); else { e += cmpSeen(L.srv.seen[0], "PUT", "/echo", "code=201", FILE6); if (L.srv.seen[0].headers["content-length"] != "6") e += "Content-Length of a file body is '" + L.srv.seen[0].headers["content-length"] + "'; "; }
		return e;
	};
	return j;
}
static Job uploadJob(int bound) {
	Job j; j.name = fmt("upload.b%d", bound); j.bound = bound;
	j.body = []() {
		std::string e; Listener L;
		{
			Dic<> h; h["X-Token"] = "up";
			asl::random.seed(20240607); // the multipart boundary is drawn from the global generator: the same bytes (and state counts) in every run
			bool ok = Http::upload(BASEURL "/echo?code=200", (g_root + "/f.txt").c_str(), h);
			if (!ok) e += "upload() of an existing file to a handler that answers 200 returned false; ";
			wit(W_MULTIPART);
		}
		L.done();
		if (L.srv.seen.size() != 1) e += fmt("handler invoked %d times; ", (int)L.srv.seen.size());
		else {
			Seen& s = L.srv.seen[0]; std::string ct = s.headers["content-type"], pre = "multipart/form-data; boundary=";
			if (s.method != "POST" || s.path != "/echo") e += "upload seen as " + s.method + " " + s.path + "; ";
			if (ct.compare(0, pre.size(), pre) != 0 || ct.size() == pre.size()) e += "Content-Type of an upload is '" + ct + "'; ";
			else {
				std::string B = ct.substr(pre.size()), open = "--" + B + "\r\n", close = "\r\n--" + B + "--\r\n", b = s.body; size_t he = b.find("\r\n\r\n");
				bool good = b.compare(0, open.size(), open) == 0 && he != std::string::npos && b.size() >= he + 4 + close.size() && b.compare(b.size() - close.size(), close.size(), close) == 0;
				if (!good) e += fmt("multipart body (%d bytes) does not consist of the opening boundary, part headers, content and closing boundary announced in Content-Type: %s; ", (int)b.size(), vf::hex(b).substr(0, 400).c_str());
				else { std::string part = b.substr(open.size(), he - open.size()), content = b.substr(he + 4, b.size() - close.size() - he - 4); if (content != FILE6) e += "file content inside the multipart body is '" + content + "'; "; if (part.find("filename=\"f.txt\"") == std::string::npos) e += "part headers do not name the file; "; }
			}
			if (s.headers["content-length"] != fmt("%d", (int)s.body.size())) e += fmt("Content-Length '%s' of an upload whose body has %d bytes; ", s.headers["content-length"].c_str(), (int)s.body.size());
		}
		return e;
	};
	return j;
}
static std::string slurp(const std::string& p) { std::string r; if (FILE* f = fopen(p.c_str(), "rb")) { char b[256]; size_t n; while ((n = fread(b, 1, sizeof b, f)) > 0) r.append(b, n); fclose(f); } else r = "<no file>"; return r; }
static Job downloadJob(int what, int bound) {
	Job j; j.name = fmt("download.%d.b%d", what, bound); j.bound = bound;
	j.body = [what]() {
		std::string e; Listener L;
		std::string dst = g_root + fmt("/dl.%d", (int)getpid()); unlink(dst.c_str());
		{
			Dic<> h; if (what == 3) h["Range"] = "bytes=1-3";
			const char* url = what == 0 || what == 3 ? BASEURL "/f.txt" : what == 1 ? BASEURL "/stream?n=13&p=3" : BASEURL "/len?n=17";
			std::string want = what == 0 ? FILE6 : what == 3 ? "123" : what == 1 ? bodyOf(13, 7) : bodyOf(17, 2);
			bool ok = Http::download(url, dst.c_str(), Http::Progress(), h);
			std::string got = slurp(dst);
			if (!ok) e += "download() returned false; ";
			if (got != want) e += fmt("download() of %s stored %d bytes (%s) instead of the %d bytes served; ", url, (int)got.size(), vf::hex(got).substr(0, 60).c_str(), (int)want.size());
			wit(W_DOWNLOAD);
		}
		unlink(dst.c_str());
		L.done();
		return e;
	};
	return j;
}
// S3d: redirects: the handler answers `hops` times with status `code` and a Location, then with the echo. Each hop must see the
// method (and for 307/308 the body) again; the client observes the final response. With following switched off it observes the
// redirect itself. The library gives up after 3 hops (421 "Too many redirects"): with 4 hops either that or the final response.
static Job redirectJob(int code, int hops, bool follow, int bound) {
	Job j; j.name = fmt("redir.%d.%d.%d.b%d", code, hops, follow ? 1 : 0, bound); j.bound = bound;
	j.body = [code, hops, follow]() {
		std::string e; Listener L(-1);
		bool keepBody = code == 307 || code == 308; std::string m = keepBody ? "POST" : "GET", body = keepBody ? bodyOf(5, 2) : std::string();
		int rc;
		{
			Dic<> h; h["X-Token"] = "r";
			HttpRequest req(m.c_str(), fmt(BASEURL "/redir?n=%d&c=%d", hops, code).c_str(), h); if (keepBody) req.put(ByteArray((const byte*)body.data(), (int)body.size()));
			req.setFollowRedirects(follow);
			HttpResponse res = Http::request(req); rc = res.code();
			std::string got = bodyStr(res);
			if (!follow) { wit(W_REDIRECT_OFF); if (rc != code || got != "moved" || !res.header("Location").startsWith(BASEURL "/")) e += fmt("redirects not followed: client saw status %d, body '%s', Location '%s' instead of the %d the handler produced; ", rc, got.c_str(), *res.header("Location"), code); }
			else if (rc == 421 && hops > 3) { wit(W_REDIRECT_LIMIT); vf::note("redirect_limit_reached"); }
			else if (rc == 201 && got == body && res.header("X-Method") == m.c_str() && res.header("X-Token") == "r") { if (hops > 3) wit(W_REDIRECT_LIMIT); }
			else e += fmt("after %d redirect(s) with status %d the client saw status %d, a %d-byte body, X-Method '%s' instead of the final response (201, %d bytes, %s); ", hops, code, rc, (int)got.size(), *res.header("X-Method"), (int)body.size(), m.c_str());
		}
		L.done();
		std::vector<Seen>& s = L.srv.seen; size_t want = !follow ? 1 : rc == 421 ? 4 : hops + 1;
		if (s.size() != want) e += fmt("handler invoked %d times instead of %d; ", (int)s.size(), (int)want);
		else for (size_t i = 0; i < s.size(); i++) {
			bool last = follow && rc != 421 && i + 1 == s.size();
			e += cmpSeen(s[i], m, last ? "/echo" : "/redir", last ? "code=201&k=end" : fmt("n=%d&c=%d", hops - (int)i, code), body);
			if (s[i].headers["x-token"] != "r") e += fmt("request header lost at hop %d; ", (int)i);
			if (i > 0) wit(W_REDIRECT_HOPS);
		}
		return e;
	};
	return j;
}
// raw helpers
// the bytes are written in pieces; between two pieces the writer pauses until every other thread has done all it can do with what
// has arrived so far (a timed sleep: no preemption needed), so the reader really sees the stream end at the cut
static void rawSend(Socket& s, const std::string& bytes, const std::vector<int>& cuts) { size_t p = 0; for (size_t i = 0; i <= cuts.size(); i++) { size_t q = i < cuts.size() ? (size_t)cuts[i] : bytes.size(); if (q > p) s.write(bytes.data() + p, (int)(q - p)); p = q; if (i < cuts.size()) { usleep(1000); wit(W_FRAGMENTED); } vsched::point(); } }
static std::string rawReadAll(Socket& s) { std::string r; char buf[64]; for (;;) { if (!s.waitInput(5.0)) break; int a = s.available(); if (a <= 0) break; int n = s.read(buf, a < 64 ? a : 64); if (n <= 0) break; r.append(buf, n); } return r; }
struct RawResp { std::string proto; int code; std::map<std::string, std::string> h; std::string body; };
// splits the bytes a server wrote into responses (status line, header fields, Content-Length body; 1xx responses have no body)
static std::string parseResponses(const std::string& s, std::vector<RawResp>& out) {
	size_t p = 0;
	while (p < s.size()) {
		RawResp r; size_t eol = s.find("\r\n", p); if (eol == std::string::npos) return fmt("response %d: no status line in '%s'; ", (int)out.size(), vf::hex(s.substr(p, 40)).c_str());
		std::string st = s.substr(p, eol - p); size_t sp = st.find(' '); if (sp == std::string::npos || st.compare(0, 5, "HTTP/") != 0) return "status line '" + st.substr(0, 40) + "'; ";
		r.proto = st.substr(0, sp); r.code = atoi(st.c_str() + sp + 1); p = eol + 2;
		for (;;) { eol = s.find("\r\n", p); if (eol == std::string::npos) return fmt("response %d: header block not terminated; ", (int)out.size()); std::string l = s.substr(p, eol - p); p = eol + 2; if (l.empty()) break; size_t c = l.find(':'); if (c == std::string::npos) return "header line '" + l + "'; "; std::string v = l.substr(c + 1); while (!v.empty() && v[0] == ' ') v.erase(0, 1); r.h[lower(l.substr(0, c))] = v; }
		if (r.code / 100 != 1 && r.h.count("transfer-encoding") && lower(r.h["transfer-encoding"]) == "chunked") { // chunk-size line, data, CRLF ... last chunk "0", empty line
			for (;;) {
				eol = s.find("\r\n", p); if (eol == std::string::npos) return fmt("response %d: chunk size line not terminated; ", (int)out.size());
				std::string hx = s.substr(p, eol - p); p = eol + 2; if (hx.empty() || hx.find_first_not_of("0123456789abcdefABCDEF") != std::string::npos) return fmt("response %d: chunk size line '%s'; ", (int)out.size(), vf::hex(hx.substr(0, 20)).c_str());
				size_t n = strtoul(hx.c_str(), 0, 16);
				if (n == 0) { if (s.compare(p, 2, "\r\n") != 0) return fmt("response %d: last chunk not followed by an empty line; ", (int)out.size()); p += 2; break; }
				if (s.size() - p < n + 2 || s.compare(p + n, 2, "\r\n") != 0) return fmt("response %d: chunk announced with %d bytes is cut short or not followed by CR LF; ", (int)out.size(), (int)n);
				r.body += s.substr(p, n); p += n + 2;
			}
		}
		else if (r.code / 100 != 1) { if (!r.h.count("content-length")) return fmt("response %d has no Content-Length; ", (int)out.size()); size_t n = atoi(r.h["content-length"].c_str()); if (s.size() - p < n) return fmt("response %d announces %d body bytes, %d arrived; ", (int)out.size(), (int)n, (int)(s.size() - p)); r.body = s.substr(p, n); p += n; }
		out.push_back(r);
	}
	return "";
}
// S4/S6: raw client -> library server: request bytes cut at `cut`, optional chunked body, optional second pipelined request.
// Header names are written in lower / upper case in variants 0 and 1 (field names are case-insensitive).
static void rawClientBytes(int variant, std::string& req, std::string& second) {
	std::string body = bodyOf(9, 3), chunks = "4\r\n" + body.substr(0, 4) + "\r\n5\r\n" + body.substr(4) + "\r\n0\r\n\r\n", get3 = "GET /len?n=3 HTTP/1.1\r\nHost: h\r\nConnection: close\r\n\r\n";
	second.clear();
	if (variant == 0) req = "POST /echo?code=200 HTTP/1.1\r\nhost: h\r\ncontent-length: 9\r\nconnection: close\r\n\r\n" + body;
	else if (variant == 1) req = "PUT /echo?code=201 HTTP/1.1\r\nHost: h\r\nTRANSFER-ENCODING: chunked\r\nCONNECTION: close\r\n\r\n" + chunks;
	else if (variant == 2) { req = "POST /echo?code=200 HTTP/1.1\r\nHost: h\r\nContent-Length: 9\r\nConnection: keep-alive\r\n\r\n" + body; second = get3; }
	else if (variant == 3) { req = "POST /echo?code=200 HTTP/1.1\r\nHost: h\r\nTransfer-Encoding: chunked\r\nConnection: keep-alive\r\n\r\n" + chunks; second = get3; }
	else if (variant == 4) req = "POST /echo?code=200 HTTP/1.1\r\nHost: h\r\nExpect: 100-continue\r\nContent-Length: 9\r\nConnection: close\r\n\r\n" + body;
	else if (variant == 5) req = "GET /len?n=3 HTTP/1.0\r\n\r\n";
	else { req = "GET /missing.txt HTTP/1.1\r\nHost: h\r\nConnection: keep-alive\r\n\r\n"; second = get3; }
}
enum { RAWCLIENT_VARIANTS = 7 };
static Job rawClientJob(int variant, int cut, int bound) {
	Job j; j.name = fmt("rawclient.%d.%d.b%d", variant, cut, bound); j.bound = bound; if (variant == 2 || variant == 3 || variant == 4 || variant == 6) j.cap = 4096; // a client that does not read while it writes needs room for both requests / for the interim response
	j.body = [variant, cut]() {
		std::string e; Listener L;
		std::string body = bodyOf(9, 3), req, second; rawClientBytes(variant, req, second);
		if (variant == 1 || variant == 3) wit(W_CHUNKED_REQ);
		if (!second.empty()) wit(W_KEEPALIVE);
		std::string resp;
		{
			Socket c; if (!c.connect("127.0.0.1", 8000)) e += "raw client could not connect; ";
			else { std::vector<int> cuts; if (cut > 0 && cut < (int)(req + second).size()) cuts.push_back(cut); rawSend(c, req + second, cuts); resp = rawReadAll(c); c.close(); }
		}
		L.done();
		Srv& srv = L.srv;
		size_t expect = second.empty() ? 1 : 2;
		if (srv.seen.size() != expect) e += fmt("handler invoked %d times instead of %d; ", (int)srv.seen.size(), (int)expect);
		else {
			if (variant <= 4) e += cmpSeen(srv.seen[0], variant == 1 ? "PUT" : "POST", "/echo", variant == 1 ? "code=201" : "code=200", body);
			else if (variant == 5) e += cmpSeen(srv.seen[0], "GET", "/len", "n=3", "");
			else e += cmpSeen(srv.seen[0], "GET", "/missing.txt", "", "");
			if (!second.empty()) e += cmpSeen(srv.seen[1], "GET", "/len", "n=3", "");
			if (variant == 4 && srv.seen[0].headers["expect"] != "100-continue") e += "Expect header not seen by the handler; ";
		}
		// the response(s) on the wire: status and exact body bytes
		std::vector<RawResp> rs; std::string pe = parseResponses(resp, rs); size_t k = 0;
		if (!pe.empty()) e += "bytes written by the server: " + pe;
		else {
			if (variant == 4) { wit(W_EXPECT_SRV); if (!rs.empty() && rs[0].code == 100) k = 1; } // the interim response may be omitted when the body has already arrived
			if (variant == 5) wit(W_HTTP10);
			if (variant == 6) wit(W_MISSING);
			if (rs.size() != k + expect) e += fmt("%d response(s) on the wire instead of %d; ", (int)rs.size(), (int)(k + expect));
			else {
				int code = variant == 1 ? 201 : variant == 6 ? 404 : 200; std::string wb = variant <= 4 ? body : variant == 5 ? bodyOf(3, 2) : rs[k].body;
				if (rs[k].code != code) e += fmt("first response has status %d instead of %d; ", rs[k].code, code);
				if (rs[k].body != wb) e += "echoed body bytes differ on the wire; ";
				if (rs[k].proto != "HTTP/1.1" && !(variant == 5 && rs[k].proto == "HTTP/1.0")) e += "response protocol '" + rs[k].proto + "'; ";
				if (!second.empty() && (rs[k + 1].code != 200 || rs[k + 1].body != bodyOf(3, 2))) e += fmt("response to the second pipelined request: status %d, %d bytes; ", rs[k + 1].code, (int)rs[k + 1].body.size());
			}
		}
		return e;
	};
	return j;
}
// S7: raw server -> library client: response bytes (length-framed or chunked) cut at `cut`; header names in lower / upper case;
// variant 3 sends an interim "100 Continue" before the final response (RFC 7231 6.2: a client must be able to parse it)
struct RawServer : public Thread { Socket* lst; std::string resp; int cut; std::string gotReq; void run() { Socket c = lst->accept(); if (c.handle() < 0) return; // read the request head
		for (;;) { String l = c.readLine(); gotReq += vfx::S(l) + "\n"; if (l == "\r" || !l.ok()) break; }
		std::vector<int> cuts; if (cut > 0 && cut < (int)resp.size()) cuts.push_back(cut); rawSend(c, resp, cuts); c.close(); } };
static std::string rawServerBytes(int variant) {
	std::string body = bodyOf(11, 4);
	if (variant == 0) return "HTTP/1.1 200 OK\r\ncontent-length: 11\r\nx-a: b\r\n\r\n" + body;
	if (variant == 1) return "HTTP/1.1 203 Meh\r\nTRANSFER-ENCODING: chunked\r\nX-A:b\r\n\r\n3\r\n" + body.substr(0, 3) + "\r\n8\r\n" + body.substr(3) + "\r\n0\r\n\r\n";
	if (variant == 2) return "HTTP/1.1 404 Not Found\r\nContent-Length: 0\r\n\r\n";
	return "HTTP/1.1 100 Continue\r\n\r\nHTTP/1.1 200 OK\r\nContent-Length: 11\r\nX-A: b\r\n\r\n" + body;
}
enum { RAWSERVER_VARIANTS = 4 };
static Job rawServerJob(int variant, int cut, int bound) {
	Job j; j.name = fmt("rawserver.%d.%d.b%d", variant, cut, bound); j.bound = bound;
	j.body = [variant, cut]() {
		std::string e; Socket lst; lst.bind("127.0.0.1", 8000); lst.listen(2);
		std::string body = bodyOf(11, 4);
		RawServer rs; rs.lst = &lst; rs.cut = cut; rs.resp = rawServerBytes(variant);
		if (variant == 1) wit(W_CHUNKED_RESP);
		if (variant == 3) wit(W_INTERIM_CLI);
		rs.start();
		{
			HttpResponse res = Http::get(BASEURL "/x?y=1");
			std::string got = bodyStr(res);
			int code = variant == 0 || variant == 3 ? 200 : variant == 1 ? 203 : 404;
			if (variant == 3 && res.code() == 100) e = classified("interim_1xx", "the server sends 'HTTP/1.1 100 Continue' before its final response: the client returns status 100 with an empty body instead of the final response");
			else {
				if (res.code() != code) e += fmt("client saw status %d instead of %d; ", res.code(), code);
				if (got != (variant == 2 ? std::string() : body)) e += fmt("client received %d body bytes instead of %d; ", (int)got.size(), variant == 2 ? 0 : 11);
				if (variant != 2 && res.header("X-A") != "b") e += "response header X-A is '" + vfx::S(res.header("X-A")) + "'; ";
			}
		}
		rs.join(); lst.close();
		if (rs.gotReq.compare(0, 22, "GET /x?y=1 HTTP/1.1\r\n") != 0 && rs.gotReq.compare(0, 20, "GET /x?y=1 HTTP/1.1\r") != 0) e += "request line on the wire is '" + rs.gotReq.substr(0, 30) + "'; ";
		return e;
	};
	return j;
}
// S7b: library client that announces "Expect: 100-continue" <-> library server (which then sends an interim response)
static Job expectJob(int len, int bound) {
	Job j; j.name = fmt("expect.%d.b%d", len, bound); j.bound = bound; j.cap = 4096; // the client sends its body without waiting for the interim response: both directions need room
	j.body = [len]() {
		std::string e; Listener L; std::string body = bodyOf(len, 1);
		{
			Dic<> h; h["Expect"] = "100-continue";
			HttpResponse res = Http::post(BASEURL "/echo?code=201", ByteArray((const byte*)body.data(), (int)body.size()), h);
			wit(W_INTERIM_CLI);
			if (res.code() == 100) e = classified("interim_1xx", "POST with 'Expect: 100-continue': the client returns the interim status 100 with an empty body instead of the handler's response");
			else if (res.code() != 201 || bodyStr(res) != body) e += fmt("POST with Expect: 100-continue: client saw status %d and %d bytes instead of 201 and %d; ", res.code(), res.body().length(), len);
		}
		L.done();
		if (L.srv.seen.size() != 1) e += fmt("handler invoked %d times; ", (int)L.srv.seen.size()); else e += cmpSeen(L.srv.seen[0], "POST", "/echo", "code=201", body);
		return e;
	};
	return j;
}
// S5: two concurrent library clients against the real started server: HttpServer::start (accept loop + one handler thread per
// connection) and stop(true). Six threads: enumerated without preemption only.
// mixed: the second client fetches a byte range of a file while the first one posts (two different kinds of response in flight).
struct HandlerT : public Thread { Srv* srv; Socket c; void run() { ((SocketServer*)srv)->serve(c); c.close(); } };
static Job twoClientsJob(int len, int bound, bool mixed = false) {
	Job j; j.name = fmt(mixed ? "twomixed.%d.b%d" : "twoclients.%d.b%d", len, bound); j.bound = bound; j.cap = 65536; // a large pipe keeps the number of blocking points (forced switches) small
	j.body = [len, mixed]() {
		std::string e;
		Srv* srv = new Srv(); if (!srv->bind("127.0.0.1", 8000)) e += "bind failed; ";
		srv->start(true);
		std::string got[2], want[2]; int code[2] = { 0, 0 }; std::string tok[2], cr;
		ClientT c[2];
		for (int i = 0; i < 2; i++) {
			if (mixed && i == 1) { want[i] = "123"; c[i].f = [&got, &code, &tok, &cr]() { Dic<> h; h["Range"] = "bytes=1-3"; HttpResponse res = Http::get(BASEURL "/f.txt", h); code[1] = res.code() == 206 ? 200 : res.code() == 200 ? 206 : res.code(); got[1] = bodyStr(res); tok[1] = "client-1"; cr = vfx::S(res.header("Content-Range")); }; }
			else { want[i] = bodyOf(len + i, 5 + i); c[i].f = [i, len, &got, &code, &tok]() { std::string body = bodyOf(len + i, 5 + i); Dic<> h; h["X-Token"] = fmt("client-%d", i).c_str(); HttpRequest req("POST", BASEURL "/echo?code=200", ByteArray((const byte*)body.data(), (int)body.size()), h); HttpResponse res = Http::request(req); code[i] = res.code(); got[i] = bodyStr(res); tok[i] = vfx::S(res.header("X-Token")); }; }
			c[i].start();
		}
		c[0].join(); c[1].join();
		srv->stop(true);
		for (int i = 0; i < 2; i++) { if (code[i] != 200) e += fmt("client %d saw an unexpected status (%d); ", i, code[i]); if (got[i] != want[i]) e += fmt("client %d received %d bytes that are not the %d bytes of its own response; ", i, (int)got[i].size(), (int)want[i].size()); if (tok[i] != fmt("client-%d", i)) e += fmt("client %d received the token '%s'; ", i, tok[i].c_str()); }
		if (mixed && cr != "bytes 1-3/6") e += "the range client received Content-Range '" + cr + "'; ";
		if (srv->seen.size() != 2) e += fmt("handler invoked %d times; ", (int)srv->seen.size());
		delete srv;
		wit(mixed ? W_MIXED : W_TWOCLIENTS);
		return e;
	};
	return j;
}
// S5b: isolation at one preemption. The library code of interest runs on one side only, the other side is a raw peer that needs a
// handful of schedule points, so that every schedule with <= 1 preemption can be enumerated:
//   tworaw: two raw clients (each writes its request at once) <-> two threads running the library's per-connection server code
//   twolib: two library clients <-> two raw responders (each answers with a body and a token derived from the request it read)
struct RawClientT : public Thread { std::string req, resp; bool connected; void run() { Socket c; connected = c.connect("127.0.0.1", 8000); if (connected) { c.write(req.data(), (int)req.size()); resp = rawReadAll(c); } c.close(); } };
struct RawResponderT : public Thread { Socket c; std::string got; void run() { char buf[256]; while (got.find("\r\n\r\n") == std::string::npos) { if (!c.waitInput(5.0)) break; int a = c.available(); if (a <= 0) break; int n = c.read(buf, a < 256 ? a : 256); if (n <= 0) break; got.append(buf, n); }
		size_t t = lower(got).find("x-token: client-"); int i = t == std::string::npos ? 7 : got[t + 16] - '0'; std::string body = bodyOf(3 + i, 5 + i), r = fmt("HTTP/1.1 200 OK\r\nX-Token: client-%d\r\nContent-Length: %d\r\n\r\n", i, (int)body.size()) + body; c.write(r.data(), (int)r.size()); c.close(); } };
static Job twoRawJob(int kind, int bound) { // kind 0: two echo posts, 1: echo post + file range, 2: two minimal HTTP/1.0 requests (few schedule points)
	Job j; j.name = fmt(kind == 2 ? "tworaw.min.b%d" : kind == 1 ? "tworaw.mixed.b%d" : "tworaw.echo.b%d", bound); j.bound = bound; j.cap = 65536;
	j.body = [kind]() {
		bool mixed = kind == 1;
		std::string e; Srv srv; Socket lst; lst.bind("127.0.0.1", 8000); lst.listen(2);
		RawClientT c[2]; HandlerT hd[2]; std::string want[2];
		for (int i = 0; i < 2; i++) {
			want[i] = kind == 2 ? bodyOf(1 + i, 2) : mixed && i == 1 ? "123" : bodyOf(3 + i, 5 + i);
			c[i].req = kind == 2 ? fmt("GET /len?n=%d HTTP/1.0\r\n\r\n", 1 + i) : mixed && i == 1 ? std::string("GET /f.txt HTTP/1.1\r\nRange: bytes=1-3\r\nConnection: close\r\n\r\n") : fmt("POST /echo?code=200 HTTP/1.1\r\nX-Token: client-%d\r\nContent-Length: %d\r\nConnection: close\r\n\r\n", i, 3 + i) + want[i];
			c[i].start();
		}
		for (int i = 0; i < 2; i++) { hd[i].srv = &srv; hd[i].c = lst.accept(); hd[i].start(); }
		c[0].join(); c[1].join(); hd[0].join(); hd[1].join(); lst.close();
		for (int i = 0; i < 2; i++) {
			std::vector<RawResp> rs; std::string pe = parseResponses(c[i].resp, rs); bool file = mixed && i == 1;
			if (!c[i].connected) e += fmt("raw client %d could not connect; ", i);
			else if (!pe.empty() || rs.size() != 1) e += fmt("raw client %d received %d response(s): %s; ", i, (int)rs.size(), pe.c_str());
			else {
				if (rs[0].code != (file ? 206 : 200)) e += fmt("client %d saw status %d; ", i, rs[0].code);
				if (rs[0].body != want[i]) e += fmt("client %d received %d bytes that are not the %d bytes of its own response; ", i, (int)rs[0].body.size(), (int)want[i].size());
				if (kind == 2) { if (rs[0].h["content-length"] != fmt("%d", 1 + i)) e += fmt("client %d received headers of another response; ", i); continue; }
				if (!file && rs[0].h["x-token"] != fmt("client-%d", i)) e += fmt("client %d received the token '%s'; ", i, rs[0].h["x-token"].c_str());
				if (file && (rs[0].h["content-range"] != "bytes 1-3/6" || rs[0].h.count("x-token"))) e += "the range client received Content-Range '" + rs[0].h["content-range"] + "' / a token; ";
				if (!file && (rs[0].h.count("content-range") || rs[0].h["x-len"] != fmt("%d", 3 + i))) e += fmt("client %d received headers of another response; ", i);
			}
		}
		if (srv.seen.size() != 2) e += fmt("handler invoked %d times; ", (int)srv.seen.size());
		wit(mixed ? W_MIXED : W_TWOCLIENTS); wit(W_LIGHT);
		return e;
	};
	return j;
}
static Job twoLibJob(int bound) {
	Job j; j.name = fmt("twolib.b%d", bound); j.bound = bound; j.cap = 65536;
	j.body = []() {
		std::string e; Socket lst; lst.bind("127.0.0.1", 8000); lst.listen(2);
		ClientT c[2]; RawResponderT rr[2]; std::string got[2], tok[2]; int code[2] = { 0, 0 };
		for (int i = 0; i < 2; i++) { c[i].f = [i, &got, &tok, &code]() { Dic<> h; h["X-Token"] = fmt("client-%d", i).c_str(); HttpResponse res = Http::get(fmt(BASEURL "/r?i=%d", i).c_str(), h); code[i] = res.code(); got[i] = bodyStr(res); tok[i] = vfx::S(res.header("X-Token")); }; c[i].start(); }
		for (int i = 0; i < 2; i++) { rr[i].c = lst.accept(); rr[i].start(); }
		c[0].join(); c[1].join(); rr[0].join(); rr[1].join(); lst.close();
		for (int i = 0; i < 2; i++) { if (code[i] != 200) e += fmt("client %d saw status %d; ", i, code[i]); if (got[i] != bodyOf(3 + i, 5 + i)) e += fmt("client %d received %d bytes that are not the %d bytes of its own response; ", i, (int)got[i].size(), 3 + i); if (tok[i] != fmt("client-%d", i)) e += fmt("client %d received the token '%s'; ", i, tok[i].c_str()); }
		for (int i = 0; i < 2; i++) { size_t q = rr[i].got.find("GET /r?i="); if (q != 0 || lower(rr[i].got).find(fmt("x-token: client-%c", rr[i].got[9])) == std::string::npos) e += "a request on the wire mixes the two clients: '" + rr[i].got.substr(0, 80) + "'; "; }
		wit(W_TWOLIB);
		return e;
	};
	return j;
}
// S5c: the same two families with the raw side played by the main thread alone (three threads): both requests are in the pipes
// before the two server threads start / both responses are written back to back, so that the two library threads overlap fully and
// every schedule with <= 1 (quick) or <= 2 (thorough) preemptions is cheap to enumerate
static std::string readHead(Socket& c) { std::string got; char buf[256]; while (got.find("\r\n\r\n") == std::string::npos) { if (!c.waitInput(5.0)) break; int a = c.available(); if (a <= 0) break; int n = c.read(buf, a < 256 ? a : 256); if (n <= 0) break; got.append(buf, n); } return got; }
static Job twoSrvJob(int kind, int bound) { // kinds as in twoRawJob
	Job j; j.name = fmt(kind == 2 ? "twosrv.min.b%d" : kind == 1 ? "twosrv.mixed.b%d" : "twosrv.echo.b%d", bound); j.bound = bound; j.cap = 65536;
	j.body = [kind]() {
		bool mixed = kind == 1;
		std::string e; Srv srv; Socket lst; lst.bind("127.0.0.1", 8000); lst.listen(2);
		Socket c[2]; HandlerT hd[2]; std::string want[2], resp[2];
		for (int i = 0; i < 2; i++) {
			want[i] = kind == 2 ? bodyOf(1 + i, 2) : mixed && i == 1 ? "123" : bodyOf(3 + i, 5 + i);
			std::string req = kind == 2 ? fmt("GET /len?n=%d HTTP/1.0\r\n\r\n", 1 + i) : mixed && i == 1 ? std::string("GET /f.txt HTTP/1.1\r\nRange: bytes=1-3\r\nConnection: close\r\n\r\n") : fmt("POST /echo?code=200 HTTP/1.1\r\nX-Token: client-%d\r\nContent-Length: %d\r\nConnection: close\r\n\r\n", i, 3 + i) + want[i];
			if (!c[i].connect("127.0.0.1", 8000)) e += "could not connect; "; else c[i].write(req.data(), (int)req.size());
		}
		for (int i = 0; i < 2; i++) { hd[i].srv = &srv; hd[i].c = lst.accept(); hd[i].start(); } // connections are accepted in the order they were made
		for (int i = 0; i < 2; i++) { resp[i] = rawReadAll(c[i]); c[i].close(); }
		hd[0].join(); hd[1].join(); lst.close();
		for (int i = 0; i < 2; i++) {
			std::vector<RawResp> rs; std::string pe = parseResponses(resp[i], rs); bool file = mixed && i == 1;
			if (!pe.empty() || rs.size() != 1) e += fmt("connection %d received %d response(s): %s; ", i, (int)rs.size(), pe.c_str());
			else {
				if (rs[0].code != (file ? 206 : 200)) e += fmt("client %d saw status %d; ", i, rs[0].code);
				if (rs[0].body != want[i]) e += fmt("client %d received %d bytes that are not the %d bytes of its own response; ", i, (int)rs[0].body.size(), (int)want[i].size());
				if (kind == 2) { if (rs[0].h["content-length"] != fmt("%d", 1 + i)) e += fmt("client %d received headers of another response; ", i); continue; }
				if (!file && rs[0].h["x-token"] != fmt("client-%d", i)) e += fmt("client %d received the token '%s'; ", i, rs[0].h["x-token"].c_str());
				if (file && (rs[0].h["content-range"] != "bytes 1-3/6" || rs[0].h.count("x-token"))) e += "the range client received Content-Range '" + rs[0].h["content-range"] + "' / a token; ";
				if (!file && (rs[0].h.count("content-range") || rs[0].h["x-len"] != fmt("%d", 3 + i))) e += fmt("client %d received headers of another response; ", i);
			}
		}
		if (srv.seen.size() != 2) e += fmt("handler invoked %d times; ", (int)srv.seen.size());
		wit(mixed ? W_MIXED : W_TWOCLIENTS); wit(W_LIGHT);
		return e;
	};
	return j;
}
static Job twoCliJob(int bound) {
	Job j; j.name = fmt("twocli.b%d", bound); j.bound = bound; j.cap = 65536;
	j.body = []() {
		std::string e; Socket lst; lst.bind("127.0.0.1", 8000); lst.listen(2);
		ClientT c[2]; std::string got[2], tok[2], reqs[2]; int code[2] = { 0, 0 };
		for (int i = 0; i < 2; i++) { c[i].f = [i, &got, &tok, &code]() { Dic<> h; h["X-Token"] = fmt("client-%d", i).c_str(); HttpResponse res = Http::get(fmt(BASEURL "/r?i=%d", i).c_str(), h); code[i] = res.code(); got[i] = bodyStr(res); tok[i] = vfx::S(res.header("X-Token")); }; c[i].start(); }
		Socket s[2]; for (int i = 0; i < 2; i++) s[i] = lst.accept();
		for (int i = 0; i < 2; i++) reqs[i] = readHead(s[i]);
		for (int i = 0; i < 2; i++) { size_t t = lower(reqs[i]).find("x-token: client-"); int k = t == std::string::npos ? 7 : reqs[i][t + 16] - '0'; std::string body = bodyOf(3 + k, 5 + k), r = fmt("HTTP/1.1 200 OK\r\nX-Token: client-%d\r\nContent-Length: %d\r\n\r\n", k, (int)body.size()) + body; s[i].write(r.data(), (int)r.size()); }
		for (int i = 0; i < 2; i++) s[i].close();
		c[0].join(); c[1].join(); lst.close();
		for (int i = 0; i < 2; i++) { if (code[i] != 200) e += fmt("client %d saw status %d; ", i, code[i]); if (got[i] != bodyOf(3 + i, 5 + i)) e += fmt("client %d received %d bytes that are not the %d bytes of its own response; ", i, (int)got[i].size(), 3 + i); if (tok[i] != fmt("client-%d", i)) e += fmt("client %d received the token '%s'; ", i, tok[i].c_str()); }
		for (int i = 0; i < 2; i++) { size_t q = reqs[i].find("GET /r?i="); if (q != 0 || lower(reqs[i]).find(fmt("x-token: client-%c", reqs[i][9])) == std::string::npos) e += "a request on the wire mixes the two clients: '" + reqs[i].substr(0, 80) + "'; "; }
		wit(W_TWOLIB);
		return e;
	};
	return j;
}
// S5d: isolation of everything a message is built from, on every body path. State that two handler threads (or two client calls)
// running at the same time would share — a block buffer or a formatted string with static storage, a member of the message kept at
// module scope — shows only when two exchanges of the SAME kind with DIFFERENT content are in flight and one thread is preempted
// between filling that object and handing it to the socket (a send or a read is a schedule point, reading a file block is not).
// twosrv2.<kind>: two raw requests in the pipes <-> two threads running the per-connection server code (three threads);
// twocli2.<kind>: two library clients <-> the main thread answering both (three threads). Kinds with a body that is RECEIVED by the
// library run with short reads (at most 2 bytes per read() call), so that a receive block is filled by several calls.
struct Exch {
	std::string req; int code; std::string body; bool jsonBody;         // raw request; what must come back (jsonBody: compared as a JSON value)
	std::map<std::string, std::string> hdr; std::vector<std::string> absent; // response headers demanded (lower-case names; a value ending in '*' is a prefix) / that must not appear
	std::string m, path, query, reqBody; std::map<std::string, std::string> seenHdr; // what the handler must have seen
	Exch() : code(200), jsonBody(false), m("GET") {}
};
static std::string chunkedOf(const std::string& b, size_t first) { // b as two chunks (first, rest) and the last-chunk marker
	std::string r;
	if (first > 0 && first < b.size()) r = fmt("%x\r\n", (int)first) + b.substr(0, first) + "\r\n" + fmt("%x\r\n", (int)(b.size() - first)) + b.substr(first) + "\r\n";
	else if (!b.empty()) r = fmt("%x\r\n", (int)b.size()) + b + "\r\n";
	return r + "0\r\n\r\n";
}
static bool sameJson(const std::string& a, const std::string& b) { rj::RV x, y; return rj::parse(a, x) && rj::parse(b, y) && rj::dump(x) == rj::dump(y); }
static const char* SRV_PAIR_KINDS[] = { "file", "range", "range2", "stream", "mixchunk", "json", "chunkedreq", "echo7" };
enum { N_SRV_PAIR_KINDS = 8 };
static int W_PAIR_SRV[N_SRV_PAIR_KINDS], W_PAIR_SRV_PRE;
static Exch srvExch(const std::string& kind, int i) {
	Exch x; const std::string close = "Connection: close\r\n\r\n";
	if (kind == "file") { // two whole files with different content and type
		x.path = i ? "/g.html" : "/f.txt"; x.req = "GET " + x.path + " HTTP/1.1\r\n" + close; x.body = i ? FILEG : FILE6;
		x.hdr["content-length"] = "6"; x.hdr["content-type"] = i ? "text/html*" : "text/plain*"; x.absent.push_back("content-range");
	}
	else if (kind == "range" || kind == "range2") { // range: two offsets of the same file; range2: an open-ended range of one file, a closed range of the other
		bool two = kind == "range2"; std::string hv = two ? (i ? "bytes=1-4" : "bytes=2-") : (i ? "bytes=3-5" : "bytes=0-2");
		x.path = two && i ? "/g.html" : "/f.txt"; x.req = "GET " + x.path + " HTTP/1.1\r\nRange: " + hv + "\r\n" + close; x.seenHdr["Range"] = hv;
		x.code = 206; x.body = two ? (i ? "bcde" : "2345") : (i ? "345" : "012"); x.hdr["content-range"] = two ? (i ? "bytes 1-4/6" : "bytes 2-5/6") : (i ? "bytes 3-5/6" : "bytes 0-2/6");
		x.hdr["content-length"] = fmt("%d", (int)x.body.size()); x.hdr["content-type"] = two && i ? "text/html*" : "text/plain*";
	}
	else if (kind == "stream" || (kind == "mixchunk" && i == 0)) { // chunked responses of 6 bytes in two pieces / 7 bytes in one
		int n = i ? 7 : 6, pc = i ? 1 : 2, sd = i ? 4 : 1; x.path = "/stream"; x.query = fmt("n=%d&p=%d&s=%d", n, pc, sd); x.req = "GET /stream?" + x.query + " HTTP/1.1\r\n" + close;
		x.body = bodyOf(n, sd); x.hdr["transfer-encoding"] = "chunked"; x.hdr["x-streamed"] = "yes";
	}
	else if (kind == "json") {
		std::string in = i ? "{\"n\":22,\"t\":\"bcd\",\"x\":[1,true]}" : "{\"n\":1,\"t\":\"a\"}";
		x.m = "POST"; x.path = "/json"; x.reqBody = in; x.req = fmt("POST /json HTTP/1.1\r\nContent-Type: application/json\r\nContent-Length: %d\r\n", (int)in.size()) + close + in; x.seenHdr["Content-Type"] = "application/json";
		x.jsonBody = true; x.body = "{\"got\":" + in + ",\"n\":" + (i ? "22" : "1") + ",\"s\":\"a\\\"\\\\/\\n\\u0001\"}"; x.hdr["content-type"] = "application/json*";
	}
	else { // chunkedreq, echo7, second half of mixchunk: POST echoed with a status, a token and the length
		std::string b = bodyOf(7 + i, 1 + 3 * i), tok = fmt("client-%d", i); x.code = 200 + i;
		x.m = "POST"; x.path = "/echo"; x.query = fmt("code=%d", x.code); x.reqBody = b; x.seenHdr["X-Token"] = tok;
		x.req = "POST /echo?" + x.query + " HTTP/1.1\r\nX-Token: " + tok + "\r\n" + (kind == "chunkedreq" ? std::string("Transfer-Encoding: chunked\r\n") + close + chunkedOf(b, 4 + i) : fmt("Content-Length: %d\r\n", (int)b.size()) + close + b);
		x.body = b; x.hdr["x-token"] = tok; x.hdr["x-len"] = fmt("%d", (int)b.size()); x.hdr["x-method"] = "POST"; x.hdr["content-length"] = x.hdr["x-len"]; x.absent.push_back("content-range"); x.absent.push_back("x-streamed");
	}
	return x;
}
static std::string cmpSeenX(const Seen& s, const Exch& x) {
	std::string e = cmpSeen(s, x.m, x.path, x.query, x.reqBody);
	for (std::map<std::string, std::string>::const_iterator h = x.seenHdr.begin(); h != x.seenHdr.end(); ++h) { std::map<std::string, std::string>::const_iterator g = s.headers.find(lower(h->first)); if (g == s.headers.end() || g->second != h->second) e += "handler saw request header " + h->first + " as '" + (g == s.headers.end() ? std::string("<absent>") : g->second) + "' instead of '" + h->second + "'; "; }
	return e;
}
// stall > 0: the pipes hold only `stall` bytes and the second connection is not read before the first exchange is complete, so the
// second handler thread stalls in a send after exactly `stall` bytes of its response (wherever that is: status line, a header, the
// middle of a body block, a chunk header) while the first exchange runs from beginning to end; enumerated for every `stall`.
// order 1: the exchanges change places (which of the two is the stalled one).
enum { STALL_MIN = 12, STALL_MAX = 300 }; // below 12 bytes the stall is in the status line, as it is at 12..16, and the number of forced switches explodes
static int W_STALL, W_STALL_HEAD, W_STALL_BODY;
static Job srvPairJob(int kindIdx, int bound, int stall = 0, int order = 0) {
	std::string kind = SRV_PAIR_KINDS[kindIdx];
	Job j; j.name = stall ? "twostall." + kind + fmt(".%d.c%d.b%d", order, stall, bound) : "twosrv2." + kind + fmt(".b%d", bound); j.bound = bound; j.cap = stall ? stall : 65536; j.wpre = stall ? 0 : W_PAIR_SRV_PRE;
	if (kind == "json" || kind == "chunkedreq" || kind == "echo7" || kind == "mixchunk") j.rmax = 2;
	j.body = [kind, kindIdx, stall, order]() {
		std::string e; Srv srv; Socket lst; lst.bind("127.0.0.1", 8000); lst.listen(2);
		Socket c[2]; HandlerT hd[2]; Exch x[2]; std::string resp[2];
		for (int i = 0; i < 2; i++) { x[i] = srvExch(kind, order ? 1 - i : i); if (!c[i].connect("127.0.0.1", 8000)) e += "could not connect; "; else if (!stall) c[i].write(x[i].req.data(), (int)x[i].req.size()); }
		for (int i = 0; i < 2; i++) { hd[i].srv = &srv; hd[i].c = lst.accept(); hd[i].start(); } // connections are accepted in the order they were made
		if (stall) { for (int i = 1; i >= 0; i--) c[i].write(x[i].req.data(), (int)x[i].req.size()); } // the handler threads are reading: a request longer than the pipe gets through
		for (int i = 0; i < 2; i++) { resp[i] = rawReadAll(c[i]); c[i].close(); }
		hd[0].join(); hd[1].join(); lst.close();
		for (int i = 0; i < 2; i++) {
			std::vector<RawResp> rs; std::string pe = parseResponses(resp[i], rs), who = fmt("connection %d (%s %s%s%s)", i, x[i].m.c_str(), x[i].path.c_str(), x[i].query.empty() ? "" : "?", x[i].query.c_str());
			if (!pe.empty() || rs.size() != 1) { e += who + fmt(" received %d response(s): %s; ", (int)rs.size(), pe.c_str()); continue; }
			RawResp& r = rs[0];
			if (r.code != x[i].code) e += who + fmt(" saw status %d instead of %d; ", r.code, x[i].code);
			if (x[i].jsonBody ? !sameJson(r.body, x[i].body) : r.body != x[i].body) e += who + fmt(" received a %d-byte body (%s) that is not the %d bytes of its own response (%s); ", (int)r.body.size(), vf::hex(r.body).substr(0, 80).c_str(), (int)x[i].body.size(), vf::hex(x[i].body).substr(0, 80).c_str());
			if (r.h.count("content-length") && atoi(r.h["content-length"].c_str()) != (int)r.body.size()) e += who + " received a body whose length differs from Content-Length; ";
			for (std::map<std::string, std::string>::const_iterator h = x[i].hdr.begin(); h != x[i].hdr.end(); ++h) {
				std::string got = r.h.count(h->first) ? r.h[h->first] : std::string("<absent>"), w = h->second; bool ok = !w.empty() && w[w.size() - 1] == '*' ? got.compare(0, w.size() - 1, w, 0, w.size() - 1) == 0 : got == w;
				if (!ok) e += who + " received the header " + h->first + ": '" + got + "' instead of '" + w + "'; ";
			}
			for (size_t k = 0; k < x[i].absent.size(); k++) if (r.h.count(x[i].absent[k])) e += who + " received a header of another response (" + x[i].absent[k] + ": " + r.h[x[i].absent[k]] + "); ";
		}
		if (srv.seen.size() != 2) e += fmt("handler invoked %d times; ", (int)srv.seen.size());
		else { // the two handler threads record in the order they ran
			std::string a = cmpSeenX(srv.seen[0], x[0]) + cmpSeenX(srv.seen[1], x[1]), b = cmpSeenX(srv.seen[1], x[0]) + cmpSeenX(srv.seen[0], x[1]);
			if (!a.empty() && !b.empty()) e += a.size() <= b.size() ? a : b;
		}
		if (!stall) wit(W_PAIR_SRV[kindIdx]);
		else { // where the second handler was held up
			size_t he = resp[1].find("\r\n\r\n");
			if ((int)resp[1].size() > STALL_MAX) vf::cap_hit("a response is longer than the largest pipe enumerated for the stalled sender");
			if ((int)resp[1].size() > stall) { wit(W_STALL); wit(he != std::string::npos && (size_t)stall >= he + 4 ? W_STALL_BODY : W_STALL_HEAD); }
		}
		return e;
	};
	return j;
}
// client side: what client i does, what the responder sends to the client that identified itself as k, and what must be on the wire
static const char* CLI_PAIR_KINDS[] = { "post", "putfile", "upload", "chunked", "mixed", "download", "json" };
enum { N_CLI_PAIR_KINDS = 7 };
static int W_PAIR_CLI[N_CLI_PAIR_KINDS], W_PAIR_CLI_PRE;
static std::string cliRespBody(const std::string& kind, int k) { return kind == "json" ? fmt("{\"k\":%d,\"v\":\"%s\"}", k, k ? "w\\n1" : "v0") : bodyOf(6 + k, 3 + 2 * k); }
static std::string cliResponse(const std::string& kind, int k) {
	std::string b = cliRespBody(kind, k), head = fmt("HTTP/1.1 %d OK\r\nX-Token: client-%d\r\n", 200 + (k & 1), k);
	if (kind == "chunked" || (kind == "mixed" && k == 0)) return head + "Transfer-Encoding: chunked\r\n\r\n" + chunkedOf(b, 3 + k);
	return head + (kind == "json" ? "Content-Type: application/json\r\n" : "") + fmt("Content-Length: %d\r\n\r\n", (int)b.size()) + b;
}
static std::string cliReqBody(const std::string& kind, int k) { return kind == "post" ? bodyOf(7 + k, 1 + 4 * k) : kind == "putfile" || kind == "upload" ? (k ? FILEG : FILE6) : kind == "json" ? (k ? "{\"n\":1,\"t\":\"kkk\",\"l\":[1,2.5,\"x\"]}" : "{\"n\":0,\"t\":\"jj\"}") : std::string(); }
static std::string cliAction(const std::string& kind, int i) {
	std::string e, who = fmt("client %d: ", i); String url = fmt(BASEURL "/r?i=%d", i).c_str(); Dic<> h; h["X-Token"] = fmt("client-%d", i).c_str();
	std::string src = g_root + (i ? "/g.html" : "/f.txt"), want = cliRespBody(kind, i);
	if (kind == "upload") { if (!Http::upload(url, src.c_str(), h)) e += who + "upload() of an existing file answered with 2xx returned false; "; return e; }
	if (kind == "download") {
		std::string dst = g_root + fmt("/dl2.%d.%d", (int)getpid(), i); unlink(dst.c_str());
		bool ok = Http::download(url, dst.c_str(), Http::Progress(), h); std::string got = slurp(dst); unlink(dst.c_str());
		if (!ok) e += who + "download() returned false; ";
		if (got != want) e += who + fmt("download() stored %d bytes (%s) that are not the %d bytes of its own response; ", (int)got.size(), vf::hex(got).substr(0, 60).c_str(), (int)want.size());
		return e;
	}
	HttpResponse res; std::string rb = cliReqBody(kind, i);
	if (kind == "post") res = Http::post(url, ByteArray((const byte*)rb.data(), (int)rb.size()), h);
	else if (kind == "putfile") res = Http::put(url, File(src.c_str()), h);
	else if (kind == "json") { Var v; v["n"] = i; v["t"] = i ? "kkk" : "jj"; if (i) v["l"] = Var::array({ 1, 2.5, "x" }); res = Http::post(url, v, h); }
	else res = Http::get(url, h);
	std::string got = bodyStr(res);
	if (res.code() != 200 + i) e += who + fmt("saw status %d instead of %d; ", res.code(), 200 + i);
	if (res.header("X-Token") != fmt("client-%d", i).c_str()) e += who + "received the token '" + vfx::S(res.header("X-Token")) + "'; ";
	if (got != want) e += who + fmt("received %d bytes (%s) that are not the %d bytes of its own response; ", (int)got.size(), vf::hex(got).substr(0, 60).c_str(), (int)want.size());
	if (kind == "json") { Var r = res.json(); if (!r.ok() || (int)r["k"] != i || r["v"].toString() != (i ? "w\n1" : "v0")) e += who + "json() of the response is not the value that was sent to it; "; }
	return e;
}
// head and (Content-Length) body of one request, as the raw responder reads them
static std::string readRequest(Socket& c) {
	std::string got = readHead(c); size_t he = got.find("\r\n\r\n"); if (he == std::string::npos) return got;
	size_t cl = lower(got).find("\r\ncontent-length:"); if (cl == std::string::npos || cl > he) return got;
	size_t need = he + 4 + atoi(got.c_str() + cl + 17); char buf[256];
	while (got.size() < need) { if (!c.waitInput(5.0)) break; int a = c.available(); if (a <= 0) break; size_t m = need - got.size(); int n = c.read(buf, (int)std::min<size_t>(std::min<size_t>(a, m), 256)); if (n <= 0) break; got.append(buf, n); }
	return got;
}
static std::string cliWire(const std::string& kind, const std::string& req, int& k) {
	std::string e, m = kind == "putfile" ? "PUT" : kind == "post" || kind == "upload" || kind == "json" ? "POST" : "GET";
	if (req.size() < m.size() + 20 || req.compare(0, m.size() + 6, m + " /r?i=") != 0 || (req[m.size() + 6] != '0' && req[m.size() + 6] != '1') || req.compare(m.size() + 7, 11, " HTTP/1.1\r\n") != 0) { k = -1; return "request line on the wire is '" + vf::hex(req.substr(0, 24)) + "'; "; }
	k = req[m.size() + 6] - '0'; std::string who = fmt("request of client %d on the wire: ", k);
	size_t he = req.find("\r\n\r\n"); if (he == std::string::npos) return who + "head not terminated; ";
	std::map<std::string, std::string> h; size_t p = req.find("\r\n") + 2;
	while (p < he + 2) { size_t eol = req.find("\r\n", p); std::string l = req.substr(p, eol - p); p = eol + 2; size_t c = l.find(':'); if (c == std::string::npos) { e += who + "header line '" + l.substr(0, 40) + "'; "; continue; } std::string v = l.substr(c + 1); while (!v.empty() && v[0] == ' ') v.erase(0, 1); h[lower(l.substr(0, c))] = v; }
	std::string body = req.substr(he + 4), want = cliReqBody(kind, k);
	if (h["x-token"] != fmt("client-%d", k)) e += who + "carries the token '" + h["x-token"] + "'; ";
	if (m != "GET" && h["content-length"] != fmt("%d", (int)body.size())) e += who + fmt("Content-Length '%s' with %d body bytes; ", h["content-length"].c_str(), (int)body.size());
	if (kind == "upload") {
		std::string ct = h["content-type"], pre = "multipart/form-data; boundary=";
		if (ct.compare(0, pre.size(), pre) != 0 || ct.size() == pre.size()) return e + who + "Content-Type of an upload is '" + ct + "'; ";
		std::string B = ct.substr(pre.size()), open = "--" + B + "\r\n", close = "\r\n--" + B + "--\r\n"; size_t pe = body.find("\r\n\r\n");
		if (!(body.compare(0, open.size(), open) == 0 && pe != std::string::npos && body.size() >= pe + 4 + close.size() && body.compare(body.size() - close.size(), close.size(), close) == 0)) return e + who + fmt("multipart body (%d bytes) does not consist of the opening boundary, part headers, content and closing boundary announced in Content-Type: %s; ", (int)body.size(), vf::hex(body).substr(0, 400).c_str());
		std::string part = body.substr(open.size(), pe - open.size()), content = body.substr(pe + 4, body.size() - close.size() - pe - 4);
		if (content != want) e += who + "file content inside the multipart body is '" + vf::hex(content).substr(0, 60) + "'; ";
		if (part.find(k ? "filename=\"g.html\"" : "filename=\"f.txt\"") == std::string::npos) e += who + "part headers do not name its file; ";
	}
	else if (kind == "json") { if (!sameJson(body, want)) e += who + "body '" + vf::hex(body).substr(0, 120) + "' is not the JSON value that was posted; "; if (h["content-type"].compare(0, 16, "application/json") != 0) e += who + "Content-Type '" + h["content-type"] + "'; "; }
	else if (body != want) e += who + fmt("%d body bytes (%s) instead of the %d bytes that were given; ", (int)body.size(), vf::hex(body).substr(0, 60).c_str(), (int)want.size());
	return e;
}
static Job cliPairJob(int kindIdx, int bound) {
	std::string kind = CLI_PAIR_KINDS[kindIdx];
	Job j; j.name = "twocli2." + kind + fmt(".b%d", bound); j.bound = bound; j.cap = 65536; j.wpre = W_PAIR_CLI_PRE; j.rmax = 2; // every kind receives a body of 6-7 bytes (receive block: 5)
	j.body = [kind, kindIdx]() {
		std::string e; Socket lst; lst.bind("127.0.0.1", 8000); lst.listen(2);
		asl::random.seed(20240607); // multipart boundaries come from the global generator: the same bytes for the same schedule
		ClientT c[2]; std::string err[2], reqs[2]; int ks[2];
		for (int i = 0; i < 2; i++) { c[i].f = [i, kind, &err]() { err[i] = cliAction(kind, i); }; c[i].start(); }
		Socket s[2]; for (int i = 0; i < 2; i++) s[i] = lst.accept();
		for (int i = 0; i < 2; i++) reqs[i] = readRequest(s[i]);
		for (int i = 0; i < 2; i++) { e += cliWire(kind, reqs[i], ks[i]); std::string r = cliResponse(kind, ks[i] < 0 ? 7 : ks[i]); s[i].write(r.data(), (int)r.size()); }
		for (int i = 0; i < 2; i++) s[i].close();
		c[0].join(); c[1].join(); lst.close();
		e += err[0] + err[1];
		if (ks[0] >= 0 && ks[0] == ks[1]) e += fmt("both connections carry a request of client %d; ", ks[0]);
		wit(W_PAIR_CLI[kindIdx]);
		return e;
	};
	return j;
}
// S8 (real block sizes): large bodies, default schedule family only
static Job bigJob(int len, int bound) {
	Job j; j.name = fmt("big.%d.b%d", len, bound); j.bound = bound; j.cap = 65536;
	j.body = [len]() {
		std::string e; Listener L;
		std::string body = bodyOf(len, 6);
		{
			HttpRequest req("PUT", BASEURL "/echo?code=200", ByteArray((const byte*)body.data(), (int)body.size()));
			HttpResponse res = Http::request(req);
			const ByteArray& rb = res.body();
			if (res.code() != 200 || rb.length() != len || memcmp(rb.data(), body.data(), len) != 0) e += fmt("%d-byte body: client got status %d and %d bytes; ", len, res.code(), rb.length());
		}
		L.done();
		Srv& srv = L.srv;
		if (srv.seen.size() != 1 || srv.seen[0].body != body) e += fmt("%d-byte body: handler saw %d bytes; ", len, srv.seen.empty() ? -1 : (int)srv.seen[0].body.size());
		wit(W_BIG);
		return e;
	};
	return j;
}

int main(int argc, char** argv) {
	bool big = false; for (int i = 1; i < argc; i++) if (!strcmp(argv[i], "--big")) big = true;
	vf::init(argc, argv, "C10", big ? "s_c10_httpx_big" : "s_c10_httpx");
	C_EXEC = vf::counter("traces"); C_POINTS = vf::counter("transitions"); C_JOBS = vf::counter("scenarios"); C_EVAL = vf::counter("evaluations"); C_DIST = vf::counter("distinct_nontrivial"); vf::counter("states");
	W_PREEMPT = vf::counter("w.executions_with_preemption"); W_CHUNKED_RESP = vf::counter("w.chunked_responses");
	if (big) W_BIG = vf::counter("w.large_bodies");
	else {
		W_RANGE206 = vf::counter("w.satisfiable_ranges"); W_RANGE416 = vf::counter("w.unsatisfiable_ranges"); W_JSON = vf::counter("w.json_exchanges"); W_KEEPALIVE = vf::counter("w.keepalive_pipelined"); W_TWOCLIENTS = vf::counter("w.two_concurrent_clients"); W_CHUNKED_REQ = vf::counter("w.chunked_requests");
		W_QUERYVALS = vf::counter("w.decoded_query_value_sets_compared"); W_PCTPATH = vf::counter("w.percent_encoded_paths"); W_FRAGMENT = vf::counter("w.urls_with_fragment"); W_RANGE_OPEN = vf::counter("w.open_ended_ranges"); W_RANGE_SUFFIX = vf::counter("w.suffix_ranges"); W_RANGE_IGNORED = vf::counter("w.unsupported_range_headers");
		W_LOWER_HDR = vf::counter("w.lower_case_request_header_seen"); W_REDIRECT_HOPS = vf::counter("w.redirect_hops_followed"); W_REDIRECT_LIMIT = vf::counter("w.redirect_chains_beyond_3_hops_resolved"); W_REDIRECT_OFF = vf::counter("w.redirects_not_followed"); W_FILE_REQ = vf::counter("w.file_request_bodies"); W_MULTIPART = vf::counter("w.multipart_uploads"); W_DOWNLOAD = vf::counter("w.downloads_to_file");
		W_FORM = vf::counter("w.form_encoded_posts"); W_METHODS = vf::counter("w.delete_patch_head_exchanges"); W_OPTIONS_AUTO = vf::counter("w.options_answered_by_server"); W_EXPECT_SRV = vf::counter("w.expect_100_raw_requests"); W_INTERIM_CLI = vf::counter("w.interim_responses_to_client"); W_HTTP10 = vf::counter("w.http10_requests"); W_MISSING = vf::counter("w.missing_file_responses"); W_MIXED = vf::counter("w.concurrent_echo_and_range"); W_HDR3 = vf::counter("w.three_header_requests"); W_LIGHT = vf::counter("w.two_clients_two_handler_threads"); W_TWOLIB = vf::counter("w.two_library_clients_raw_responders"); W_FRAGMENTED = vf::counter("w.raw_streams_delivered_in_two_parts");
		for (int k = 0; k < N_SRV_PAIR_KINDS; k++) W_PAIR_SRV[k] = vf::counter((std::string("w.pair_server_side.") + SRV_PAIR_KINDS[k]).c_str());
		for (int k = 0; k < N_CLI_PAIR_KINDS; k++) W_PAIR_CLI[k] = vf::counter((std::string("w.pair_client_side.") + CLI_PAIR_KINDS[k]).c_str());
		W_STALL = vf::counter("w.stalled_sender_pairs"); W_STALL_HEAD = vf::counter("w.sender_stalled_inside_head"); W_STALL_BODY = vf::counter("w.sender_stalled_inside_body"); W_PAIR_SRV_PRE = vf::counter("w.pair_server_side_executions_with_preemption"); W_PAIR_CLI_PRE = vf::counter("w.pair_client_side_executions_with_preemption");
	}
	vsched::set_fatal_handler(onFatal);
	vsched::set_state_probe(vnet::state_hash);
	g_root = vf::scratch_dir() + "/root"; if (system(("mkdir -p '" + g_root + "' && printf 012345 > '" + g_root + "/f.txt' && printf abcdef > '" + g_root + "/g.html'").c_str())) {}
	bool T = vf::opt.thorough();
	std::vector<Job> jobs;
	if (big) {
		int lens[] = { 0, 1, 15999, 16000, 16001, 127999, 128000, 128001, 300 * 1024 };
		for (size_t i = 0; i < sizeof lens / sizeof *lens; i++) { jobs.push_back(bigJob(lens[i], 0)); jobs.push_back(streamJob(lens[i], 1, 0, true)); if (lens[i] > 1) jobs.push_back(streamJob(lens[i], 2, 0, true)); }
	} else {
		const char* methods[] = { "GET", "POST", "PUT" };
		for (int m = 0; m < 3; m++) for (int len = 0; len <= 20; len++) { if (m == 0 && len > 0) continue; jobs.push_back(echoJob(methods[m], len, len % 3 == 0 ? 200 : len % 3 == 1 ? 201 : 404, (T && len <= 3) ? 2 : 1)); }
		const char* methods2[] = { "DELETE", "PATCH", "OPTIONS", "HEAD" }; int lens2[] = { 0, 1, 9 };
		for (int m = 0; m < 4; m++) for (int k = 0; k < 3; k++) { if (m == 3 && k > 0) continue; jobs.push_back(echoJob(methods2[m], lens2[k], k == 0 ? 200 : k == 1 ? 201 : 404, 1)); }
		jobs.push_back(fragmentJob(0, 1)); jobs.push_back(fragmentJob(1, 0)); jobs.push_back(hdr3Job(0));
		for (int len = 0; len <= 20; len++) for (int pc = 1; pc <= 3; pc += 2) jobs.push_back(streamJob(len, pc, (T && len % 4 == 0) ? 1 : 0));
		for (int n = 0; n <= (T ? 12 : 6); n += 3) jobs.push_back(jsonJob(n, 1));
		jobs.push_back(formJob(1));
		jobs.push_back(rangeJob(-1, 0, 1));
		for (int b = 0; b <= 7; b++) for (int e = 0; e <= 7; e++) jobs.push_back(rangeJob(b, e, (b + e) % 4 == 0 ? 1 : 0));
		for (int b = 0; b <= 7; b++) jobs.push_back(rangeHdrJob(fmt("bytes=%d-", b), b % 3 == 0 ? 1 : 0));
		for (int n = 0; n <= 7; n++) jobs.push_back(rangeHdrJob(fmt("bytes=-%d", n), n % 3 == 0 ? 1 : 0));
		const char* odd[] = { "bytes=0-1,3-4", "bytes=-2,0-0", "items=0-1", "bytes", "bytes=a-b" };
		for (size_t i = 0; i < sizeof odd / sizeof *odd; i++) jobs.push_back(rangeHdrJob(odd[i], i == 0 ? 1 : 0));
		jobs.push_back(missingJob(1));
		jobs.push_back(putFileJob(1)); jobs.push_back(uploadJob(1));
		for (int w = 0; w < 4; w++) jobs.push_back(downloadJob(w, 1));
		jobs.push_back(redirectJob(302, 1, true, 1)); jobs.push_back(redirectJob(301, 2, true, 0)); jobs.push_back(redirectJob(307, 1, true, 1)); jobs.push_back(redirectJob(307, 3, true, 0)); jobs.push_back(redirectJob(308, 4, true, 0)); jobs.push_back(redirectJob(302, 2, false, 1)); jobs.push_back(redirectJob(307, 1, false, 0));
		for (int v = 0; v < RAWCLIENT_VARIANTS; v++) {
			std::string req, second; rawClientBytes(v, req, second); int n = (int)(req.size() + second.size()), first = second.empty() ? -100 : (int)req.size(); // `first`: where the second pipelined request begins
			for (int cut = 0; cut < n; cut++) jobs.push_back(rawClientJob(v, cut, (cut % (T ? 3 : 9) == 0 || (cut > first - 14 && cut <= first + 2)) ? 1 : 0));
		}
		for (int v = 0; v < RAWSERVER_VARIANTS; v++) { int n = (int)rawServerBytes(v).size(); for (int cut = 0; cut < n; cut++) jobs.push_back(rawServerJob(v, cut, cut % (T ? 2 : 8) == 0 ? 1 : 0)); }
		jobs.push_back(expectJob(9, 1)); jobs.push_back(expectJob(0, 1));
		for (int len = 0; len <= (T ? 9 : 3); len += 3) jobs.push_back(twoClientsJob(len, 0));
		jobs.push_back(twoClientsJob(3, 0, true));
		// one preemption anywhere in two concurrent exchanges: about 20000-30000 schedules per scenario, explored by one worker each: thorough tier only
		for (int k = 0; k < 3; k++) jobs.push_back(twoRawJob(k, T ? 1 : 0));
		jobs.push_back(twoLibJob(T ? 1 : 0));
		// three threads: <= 1 preemption costs 400-2000 schedules per scenario; <= 2 preemptions 30000-100000 (thorough, server side)
		for (int k = 0; k < 3; k++) jobs.push_back(twoSrvJob(k, T ? 2 : 1));
		jobs.push_back(twoCliJob(1));
		// the same two shapes for every kind of body: two exchanges of the same kind with different content in flight
		for (int k = 0; k < N_SRV_PAIR_KINDS; k++) jobs.push_back(srvPairJob(k, T && k < 4 ? 2 : 1)); // thorough: <= 2 preemptions for the file and chunked response bodies (47000-76000 schedules each)
		for (int k = 0; k < N_CLI_PAIR_KINDS; k++) jobs.push_back(cliPairJob(k, 1));
		// the second sender stalled after every number of bytes of its response while the first exchange runs (forced switches only)
		for (int k = 0; k < N_SRV_PAIR_KINDS; k++) for (int o = 0; o < 2; o++) { if (o && !T && strcmp(SRV_PAIR_KINDS[k], "mixchunk")) continue; for (int c = STALL_MIN; c <= STALL_MAX; c++) jobs.push_back(srvPairJob(k, 0, c, o)); }
	}
	std::stable_partition(jobs.begin(), jobs.end(), [](const Job& j) { return j.name.compare(0, 3, "two") == 0 || j.bound >= 2; }); // the long explorations start first
	if (getenv("C10_ONLY")) { std::vector<Job> q; for (size_t i = 0; i < jobs.size(); i++) if (jobs[i].name.find(getenv("C10_ONLY")) == 0) q.push_back(jobs[i]); jobs.swap(q); }
	if (vf::opt.replay) {
		std::string k = vf::opt.kase, sched; size_t bar = k.find('|'); if (bar != std::string::npos) { sched = k.substr(bar + 1); k = k.substr(0, bar); }
		for (size_t i = 0; i < jobs.size(); i++) if (jobs[i].name == k) { vf::parallel(1, [&](uint64_t) { runJob(jobs[i], &sched); }); break; }
		return vf::finish();
	}
	vf::parallel(jobs.size(), [&](uint64_t i) { if (vf::deadline_passed()) { vf::cap_hit("deadline"); return; } runJob(jobs[i], 0); });
	vf::setinfo("scenarios", fmt("%d", (int)jobs.size()));
	if (!big) { vf::sample("echo.PUT.13.201: Http::request PUT /ec%68o?code=201&k=a%20b+c%26d&%6b2=%3D&e= with a 13-byte body (CR LF NUL 0xff) over a 4-byte pipe, send block 8 / receive block 5, all schedules with <= 1 preemption"); vf::sample("range.2.2: GET /f.txt with Range: bytes=2-2; rangeh.bytes=-3; rawclient chunked PUT cut at every 3rd byte; rawserver chunked 203 response cut at every 2nd byte; redir.307.3: POST followed through three 307 redirects"); vf::sample("twosrv2.range.b1: GET /f.txt with Range bytes=0-2 and bytes=3-5 handled by two threads at once, every schedule with <= 1 preemption; twocli2.putfile.b1: two Http::put of different files at once; twostall.file.0.c150.b0: the handler sending g.html stalls after 150 bytes of its response while f.txt is served to the other connection"); }
	else vf::sample("big.128001: PUT of 128001 bytes with the real 128000/16000 block sizes over a 64 KiB pipe");
	return vf::finish();
}
