// C18 — IniFile / TabularDataFile persist exactly what was set or written.
//  INI: complete enumeration of file texts (<= N lines over an 8-line alphabet x LF/CRLF x final newline or none)
//       x set() histories (<= K calls over 5 names x 2 values) x way of writing (destructor / explicit write()),
//       plus 20-call histories with a write() in the middle. The real IniFile works on a scratch file; a FRESH
//       IniFile must return every set value and every untouched pre-existing value, and the raw text must keep
//       comment lines and untouched entries in their relative order. Reference: a plain std:: line parser + std::map.
//  CSV: complete enumeration of small tables over a 13-cell alphabet + shape macros up to 30x8, written cell-wise
//       and row-wise (arrays), read back by a fresh TabularDataFile and compared cell for cell.
//  Two binaries from this file: c18_inicsv (ASan; quick + thorough) and, via c18_deep.cpp (-DC18_DEEP, flavour plain,
//  thorough only), the largest products (5-line texts x 2 sets, 4-line texts x 3 sets, 3x2 / 2x3 tables).
//  Case strings: ini:<L|C eol>:<final newline 0/1>:<write() after k sets, -1 = destructor only>:<line indices>:<op indices>
//                csv:<C cell-wise | A arrays>:<rows>x<cols>:<cell letters a..m, row major>
#include <asl/IniFile.h>
#include <asl/TabularDataFile.h>
#include <asl/Var.h>
#include <map>
#include "vf.h"
#include "aslx.h"
using namespace asl;
using vf::fmt;

static int C_EVAL, C_DISTINCT;
static int W_NOEOL, W_NOEOL_ENTRY_LAST, W_CRLF, W_NEWSEC, W_NEWKEY, W_CHANGED, W_SAMEVAL, W_BARE_TOP, W_BARE_SEC, W_REWRITTEN, W_NOTREWRITTEN, W_UNTOUCHED, W_COMMENTS,
	W_DUPSEC, W_EXPLICIT, W_MIDWRITE, W_SETCHECKS, W_TOPKEYS, W_LONGHIST, W_INDENTED;
static int W_CSV_QUOTED, W_CSV_NUM, W_CSV_EMPTY, W_CSV_ARRAY, W_CSV_CELLWISE, W_CSV_BIG, W_CSV_CELLS, W_CSV_SEMI, W_CSV_BYNAME;

// =============================================================================================== INI
static const char* LINES[] = { "[a]", "[ab]", "x=1", "y=2", "  z=3", "# c", "; c", "" };
enum { NLINES = 8 };
static const char* NAMES[] = { "a/x", "a/n", "ab/y", "c/k", "x" }; // section "a" is a prefix of section "ab"
static const char* VALUES[] = { "v", "w w", "" }; // the empty value: a key set to "" reads back as "" whether or not it is stored
enum { NOPS = 15, NOPS_NONEMPTY = 10 };
// ops 0..9: the five names x {"v", "w w"}; ops 10..14: the five names x ""   (case strings spell op k as the letter 'a'+k)
static const char* op_name(int op) { return op < 10 ? NAMES[op / 2] : NAMES[op - 10]; }
static const char* op_val(int op) { return op < 10 ? VALUES[op % 2] : VALUES[2]; }

// ---- reference: plain line parser of INI text (sections, comments, key=value, blanks); std:: only
typedef std::pair<std::string, std::string> SK; // (section, key); section "" = entries before the first header
struct Tok { char kind; std::string sec, key, val, raw; };
struct Ref {
	std::vector<Tok> toks;
	std::map<SK, std::string> vals;
	bool hasFirst, topKeys, dupSec;
	std::string first;
	Ref() : hasFirst(false), topKeys(false), dupSec(false) {}
};
static bool blank(char c) { return c == ' ' || c == '\t' || c == '\r' || c == '\n'; }
static std::string trim(const std::string& s) {
	size_t a = 0, b = s.size();
	while (a < b && blank(s[a])) a++;
	while (b > a && blank(s[b - 1])) b--;
	return s.substr(a, b - a);
}
static Ref ref_parse(const std::string& text) {
	Ref r;
	std::string sec;
	std::set<std::string> secs;
	size_t p = 0;
	while (p < text.size()) {
		size_t e = text.find('\n', p);
		std::string line = text.substr(p, e == std::string::npos ? std::string::npos : e - p);
		p = e == std::string::npos ? text.size() : e + 1;
		if (!line.empty() && line[line.size() - 1] == '\r') line.resize(line.size() - 1);
		Tok t; t.raw = line;
		std::string tl = trim(line);
		if (!line.empty() && line[0] == '[' && line.find(']') != std::string::npos) {
			sec = line.substr(1, line.find(']') - 1);
			t.kind = 'S'; t.sec = sec;
			if (!r.hasFirst) { r.hasFirst = true; r.first = sec; }
			if (!secs.insert(sec).second) r.dupSec = true;
		}
		else if (tl.empty()) t.kind = 'B';
		else if (tl[0] == '#' || tl[0] == ';') t.kind = 'C';
		else if (tl.find('=') != std::string::npos) {
			size_t q = tl.find('=');
			t.kind = 'E'; t.sec = sec; t.key = trim(tl.substr(0, q)); t.val = trim(tl.substr(q + 1));
			r.vals[SK(sec, t.key)] = t.val;
			if (sec.empty()) r.topKeys = true;
		}
		else t.kind = '?';
		r.toks.push_back(t);
	}
	return r;
}
// the sequence the statement wants preserved: comment lines (verbatim) and entries not touched by a set()
static std::vector<std::string> order_tokens(const Ref& r, const std::set<SK>& touched) {
	std::vector<std::string> o;
	for (size_t i = 0; i < r.toks.size(); i++) {
		const Tok& t = r.toks[i];
		if (t.kind == 'C') o.push_back("comment '" + t.raw + "'");
		else if (t.kind == 'E' && !touched.count(SK(t.sec, t.key))) o.push_back("entry " + (t.sec.empty() ? t.key : t.sec + "/" + t.key));
	}
	return o;
}
static std::string join(const std::vector<std::string>& v) { std::string s; for (size_t i = 0; i < v.size(); i++) s += (i ? ", " : "") + v[i]; return "[" + s + "]"; }
static std::string show(const std::string& s) {
	std::string o;
	for (size_t i = 0; i < s.size(); i++) { if (s[i] == '\n') o += "\\n"; else if (s[i] == '\r') o += "\\r"; else o += s[i]; }
	return "\"" + o + "\"";
}
static bool slurp(const std::string& path, std::string& out) {
	out.clear();
	FILE* f = fopen(path.c_str(), "rb");
	if (!f) return false;
	char buf[4096]; size_t n;
	while ((n = fread(buf, 1, sizeof buf, f)) > 0) out.append(buf, n);
	fclose(f);
	return true;
}
static bool spit(const std::string& path, const std::string& s) {
	FILE* f = fopen(path.c_str(), "wb");
	if (!f) return false;
	bool ok = fwrite(s.data(), 1, s.size(), f) == s.size();
	return fclose(f) == 0 && ok;
}
static std::string scratch_file(const char* ext) { return vf::scratch_dir() + fmt("/w%d.%s", vf::worker_id(), ext); }

struct IniCase {
	bool crlf, finalnl;
	std::vector<int> lines, ops;
	int wpos; // -1: written by the destructor only; k >= 0: explicit write() after the k-th set(), destructor later
	std::string str() const {
		std::string l, o;
		for (size_t i = 0; i < lines.size(); i++) l += char('0' + lines[i]);
		for (size_t i = 0; i < ops.size(); i++) o += char('a' + ops[i]);
		return fmt("ini:%c:%d:%d:%s:%s", crlf ? 'C' : 'L', finalnl ? 1 : 0, wpos, l.empty() ? "-" : l.c_str(), o.empty() ? "-" : o.c_str());
	}
	std::string text() const {
		std::string t, eol = crlf ? "\r\n" : "\n";
		for (size_t i = 0; i < lines.size(); i++) { t += LINES[lines[i]]; if (i + 1 < lines.size() || finalnl) t += eol; }
		return t;
	}
	std::string history() const {
		std::string h;
		for (size_t i = 0; i <= ops.size(); i++) {
			if ((int)i == wpos) h += "write(); ";
			if (i < ops.size()) h += fmt("set(\"%s\",\"%s\"); ", op_name(ops[i]), op_val(ops[i]));
		}
		return h + "~IniFile()";
	}
};

struct IniCheck {
	const IniCase& c;
	std::string kase, path, text, sfx;
	Ref ref0;
	std::map<SK, std::string> model;
	std::set<SK> touched;
	std::vector<std::string> setnames;
	std::string bareSec;
	bool failed;
	IniCheck(const IniCase& cc) : c(cc), failed(false) {}
	SK resolve(const std::string& name) const {
		size_t s = name.find('/');
		return s == std::string::npos ? SK(bareSec, name) : SK(name.substr(0, s), name.substr(s + 1));
	}
	void bad(const std::string& sig, const std::string& desc) {
		failed = true;
		vf::violation(sig + sfx, desc + "; file text " + show(text) + "; history: " + c.history(), kase);
	}
	// after the file has been written: raw text keeps order; a fresh IniFile returns all model values
	void verify(const char* when) {
		std::string raw;
		if (!slurp(path, raw)) { bad("file_gone", std::string("the file cannot be read ") + when); return; }
		if (raw != text) vf::add(W_REWRITTEN); else vf::add(W_NOTREWRITTEN);
		Ref out = ref_parse(raw);
		std::vector<std::string> want = order_tokens(ref0, touched), got = order_tokens(out, touched);
		for (size_t i = 0; i < want.size(); i++) if (want[i][0] == 'c') vf::add(W_COMMENTS);
		if (want != got) bad("order", std::string(when) + " the comment lines and untouched entries of the file are " + join(got) + ", originally " + join(want) + "; text on disk " + show(raw));
		{
			IniFile fresh(vfx::A(path));
			const IniFile& cf = fresh;
			for (std::map<SK, std::string>::const_iterator it = model.begin(); it != model.end(); ++it) {
				bool wasSet = touched.count(it->first) != 0;
				if (wasSet) continue; // set values are queried below under the very name used in set()
				std::string name = it->first.first.empty() ? it->first.second : it->first.first + "/" + it->first.second;
				std::string v = vfx::S(cf[vfx::A(name)]);
				vf::add(W_UNTOUCHED);
				if (v != it->second) bad("untouched_lost", std::string(when) + " a fresh IniFile returns \"" + v + "\" for the untouched pre-existing " + name + "=" + it->second + "; text on disk " + show(raw));
			}
			for (size_t i = 0; i < setnames.size(); i++) {
				SK rk = resolve(setnames[i]);
				const std::string& want1 = model[rk];
				// a name without '/' is looked up in the fresh file's own "current section"; an empty value need not be stored, and without it
				// that current section can be another one - so an empty value set under a bare name is queried by its qualified name
				std::string qname = (want1.empty() && setnames[i].find('/') == std::string::npos) ? (rk.first.empty() ? std::string("-") : rk.first) + "/" + rk.second : setnames[i];
				std::string v = vfx::S(cf[vfx::A(qname)]);
				vf::add(W_SETCHECKS);
				if (v != want1) bad("set_lost", std::string(when) + " a fresh IniFile returns \"" + v + "\" for " + setnames[i] + " which was set to \"" + want1 + "\"; text on disk " + show(raw));
			}
		}
		if (vf::asan_tripped()) { bad("asan", std::string("ASan ") + vf::asan_what() + " while reading the written file " + when); vf::asan_clear(); }
	}
	void run() {
		kase = c.str();
		vf::cur(kase);
		vf::add(C_EVAL);
		text = c.text();
		path = scratch_file("ini");
		if (!spit(path, text)) { fprintf(stderr, "c18: cannot write scratch file %s\n", path.c_str()); _exit(2); }
		ref0 = ref_parse(text);
		model = ref0.vals;
		// a name without '/' addresses the "current section": the entries before the first header if there are any, else the first section
		bareSec = ref0.topKeys ? std::string() : ref0.hasFirst ? ref0.first : std::string();
		bool lastIsEntry = !ref0.toks.empty() && ref0.toks.back().kind == 'E';
		if (!c.finalnl && !text.empty()) { vf::add(W_NOEOL); sfx = "_noeol"; if (lastIsEntry) vf::add(W_NOEOL_ENTRY_LAST); }
		if (c.crlf && text.find('\r') != std::string::npos) vf::add(W_CRLF);
		if (ref0.dupSec) vf::add(W_DUPSEC);
		if (ref0.topKeys) vf::add(W_TOPKEYS);
		if (text.find("  z=3") != std::string::npos) vf::add(W_INDENTED);
		if (!c.ops.empty() || !model.empty()) vf::add(C_DISTINCT);
		if (c.ops.size() > 3) vf::add(W_LONGHIST);
		vf::asan_clear();
		{
			IniFile ini(vfx::A(path));
			if (!ini.ok()) { bad("open", "IniFile::ok() is false for an existing file"); return; }
			for (size_t i = 0; i <= c.ops.size(); i++) {
				if ((int)i == c.wpos) {
					ini.write();
					vf::add(W_EXPLICIT);
					if (i < c.ops.size()) vf::add(W_MIDWRITE);
					if (vf::asan_tripped()) { bad("asan", "ASan " + vf::asan_what() + " in write()"); vf::asan_clear(); }
					verify("after write()");
				}
				if (i == c.ops.size()) break;
				std::string name = op_name(c.ops[i]), val = op_val(c.ops[i]);
				SK k = resolve(name);
				if (name.find('/') == std::string::npos) vf::add(k.first.empty() ? W_BARE_TOP : W_BARE_SEC);
				if (!model.count(k)) {
					bool secExists = k.first.empty();
					for (size_t j = 0; j < ref0.toks.size(); j++) if (ref0.toks[j].kind == 'S' && ref0.toks[j].sec == k.first) secExists = true;
					for (std::map<SK, std::string>::iterator it = model.begin(); it != model.end(); ++it) if (it->first.first == k.first) secExists = true;
					vf::add(secExists ? W_NEWKEY : W_NEWSEC);
				}
				else if (model[k] != val) vf::add(W_CHANGED); else vf::add(W_SAMEVAL);
				ini.set(vfx::A(name), vfx::A(val));
				model[k] = val;
				touched.insert(k);
				if (std::find(setnames.begin(), setnames.end(), name) == setnames.end()) setnames.push_back(name);
			}
		}
		if (vf::asan_tripped()) { bad("asan", "ASan " + vf::asan_what() + " in set()/~IniFile()"); vf::asan_clear(); }
		verify("after destruction");
	}
};
static void run_ini(const IniCase& c) { IniCheck k(c); k.run(); }

static bool parse_ini_case(const std::string& s, IniCase& c) {
	// ini:<L|C>:<final>:<wpos>:<lines>:<ops>
	std::vector<std::string> f;
	size_t p = 0;
	while (true) { size_t e = s.find(':', p); f.push_back(s.substr(p, e == std::string::npos ? std::string::npos : e - p)); if (e == std::string::npos) break; p = e + 1; }
	if (f.size() != 6) return false;
	c.crlf = f[1] == "C"; c.finalnl = f[2] == "1"; c.wpos = atoi(f[3].c_str());
	if (f[4] != "-") for (size_t i = 0; i < f[4].size(); i++) c.lines.push_back(f[4][i] - '0');
	if (f[5] != "-") for (size_t i = 0; i < f[5].size(); i++) c.ops.push_back(f[5][i] >= 'a' ? f[5][i] - 'a' : f[5][i] - '0');
	return true;
}

// =============================================================================================== CSV
struct Cell { bool num; bool isint; double d; const char* s; };
static const Cell CELLS[] = {
	{ true, true, 1, "1" }, { true, false, -2.5, "-2.5" }, { true, false, 1e-7, "1e-7" }, { true, false, 123456789012345.0, "123456789012345" },
	{ false, false, 0, "" }, { false, false, 0, "a" }, { false, false, 0, "," }, { false, false, 0, ";" }, { false, false, 0, "\"" }, { false, false, 0, "'" },
	{ false, false, 0, " " }, { false, false, 0, "a,b" }, { false, false, 0, "\"q\"" } };
enum { NCELLS = 13 };

static Var cell_var(const Cell& c) {
	if (c.num) return c.isint ? Var((int)c.d) : Var(c.d);
	return Var(vfx::A(c.s));
}
static std::string cell_show(const Cell& c) { return c.num ? fmt("number %s", c.s) : fmt("string <%s>", c.s); }

// mode 'C' = cell by cell, 'A' = each row as one array; reader 'D' = data(), 'N' = nextRow() + operator[]
static void run_csv(char mode, int R, int C, const std::string& cells) {
	std::string kase = fmt("csv:%c:%dx%d:%s", mode, R, C, cells.c_str());
	vf::cur(kase);
	vf::add(C_EVAL); vf::add(C_DISTINCT);
	std::string path = scratch_file("csv");
	remove(path.c_str());
	bool big = R > 3 || C > 3;
	if (big) vf::add(W_CSV_BIG);
	vf::add(mode == 'A' ? W_CSV_ARRAY : W_CSV_CELLWISE);
	vf::asan_clear();
	{
		TabularDataFile f(vfx::A(path));
		Array<String> cols;
		for (int c = 0; c < C; c++) cols << vfx::A(fmt("c%d", c));
		f.columns(cols);
		if (!f.ok()) { fprintf(stderr, "c18: cannot write scratch file %s\n", path.c_str()); _exit(2); }
		for (int r = 0; r < R; r++) {
			if (mode == 'A') {
				Array<Var> row;
				for (int c = 0; c < C; c++) row << cell_var(CELLS[cells[r * C + c] - 'a']);
				f << Var(row);
			}
			else for (int c = 0; c < C; c++) f << cell_var(CELLS[cells[r * C + c] - 'a']);
		}
	}
	if (vf::asan_tripped()) { vf::violation("csv_asan", "ASan " + vf::asan_what() + " while writing the table", kase); vf::asan_clear(); }
	std::string raw; slurp(path, raw);
	std::vector<std::vector<Var> > got;
	std::vector<std::vector<Var> > byname;
	{
		TabularDataFile g(vfx::A(path));
		if (!big) {
			Array<Array<Var> > d = g.data();
			for (int r = 0; r < d.length(); r++) { got.push_back(std::vector<Var>()); for (int c = 0; c < d[r].length(); c++) got.back().push_back(d[r][c]); }
		}
		else while (g.nextRow()) {
			got.push_back(std::vector<Var>()); byname.push_back(std::vector<Var>());
			int n = g.row().length();
			for (int c = 0; c < n; c++) got.back().push_back(g[c]);
			for (int c = 0; c < C; c++) byname.back().push_back(g[vfx::A(fmt("c%d", c))]);
		}
	}
	if (vf::asan_tripped()) { vf::violation("csv_asan", "ASan " + vf::asan_what() + " while reading the table back; file " + show(raw), kase); vf::asan_clear(); }
	if ((int)got.size() != R) { vf::violation("csv_rows", fmt("%d rows written, %d rows read back; file ", R, (int)got.size()) + show(raw), kase); return; }
	for (int r = 0; r < R; r++) {
		if ((int)got[r].size() != C) { vf::violation("csv_cols", fmt("row %d written with %d cells is read back with %d cells; file ", r, C, (int)got[r].size()) + show(raw), kase); return; }
		for (int c = 0; c < C; c++) {
			const Cell& e = CELLS[cells[r * C + c] - 'a'];
			vf::add(W_CSV_CELLS);
			for (int via = 0; via < (byname.empty() ? 1 : 2); via++) {
				const Var& v = via ? byname[r][c] : got[r][c];
				if (via) vf::add(W_CSV_BYNAME);
				std::string gs;
				bool ok;
				if (e.num) {
					vf::add(W_CSV_NUM);
					ok = v.is(Var::NUMBER);
					if (ok) { double x = v; gs = fmt("number %.17g", x); ok = fmt("%.15g", x) == fmt("%.15g", e.d); }
					else gs = v.is(Var::STRING) ? std::string("string <") + *v + ">" : std::string("a value of type ") + fmt("%d", (int)v.type());
				}
				else {
					if (!e.s[0]) vf::add(W_CSV_EMPTY);
					if (strchr(e.s, ',') || strchr(e.s, '"')) vf::add(W_CSV_QUOTED);
					if (strchr(e.s, ';')) vf::add(W_CSV_SEMI);
					ok = v.is(Var::STRING) && std::string(*v) == e.s;
					if (v.is(Var::STRING)) gs = std::string("string <") + *v + ">";
					else if (v.is(Var::NUMBER)) { double x = v; gs = fmt("number %.17g", x); }
					else gs = fmt("a value of type %d", (int)v.type());
				}
				if (!ok) {
					vf::violation(e.num ? "csv_number" : "csv_string", fmt("cell (%d,%d)%s written as %s is read back as %s; file ", r, c, via ? " (by column name)" : "", cell_show(e).c_str(), gs.c_str()) + show(raw), kase);
					return;
				}
			}
		}
	}
}

// =============================================================================================== driver
static void run_case(const std::string& k) {
	if (k.compare(0, 4, "ini:") == 0) { IniCase c; if (parse_ini_case(k, c)) run_ini(c); }
	else if (k.compare(0, 4, "csv:") == 0) {
		char mode; int R, C; char buf[400] = "";
		if (sscanf(k.c_str(), "csv:%c:%dx%d:%399s", &mode, &R, &C, buf) >= 3) run_csv(mode, R, C, buf);
	}
}

// all set() histories of length <= K, all ways of writing
static void ini_histories(IniCase& c, int K, bool allWritePositions, int nops = NOPS_NONEMPTY) {
	uint64_t n = 1;
	for (int len = 0; len <= K; len++) {
		for (uint64_t i = 0; i < n; i++) {
			c.ops.clear();
			uint64_t x = i;
			bool hasEmpty = false;
			for (int j = 0; j < len; j++) { c.ops.push_back((int)(x % nops)); if (c.ops.back() >= NOPS_NONEMPTY) hasEmpty = true; x /= nops; }
			if (nops > NOPS_NONEMPTY && !hasEmpty) continue; // done by the plan over the non-empty values
			c.wpos = -1; run_ini(c);
			for (int w = allWritePositions ? 0 : len; w <= len; w++) { c.wpos = w; run_ini(c); }
		}
		n *= nops;
	}
}

#ifdef C18_DEEP
static const char* PART = "c18_deep";
#define OTHER_PART_W "not_in_this_part." // witnesses of branches only the ASan part c18_inicsv exercises (20-set macros, shape macros)
#else
static const char* PART = "c18_inicsv";
#define OTHER_PART_W "w."
#endif

struct Plan { int nlmin, nl, k; bool allw; bool withEmpty; }; // withEmpty: only the histories that set at least one empty value (the others belong to the plain plan)
// every text of nlmin..nl lines x {LF, CRLF} x {final newline, none}; every history of <= k sets; written by the destructor
// and by write() after the last set (allw: after every prefix of the history)
static void ini_plan(const Plan& pl) {
	uint64_t ntexts = 0, pw = 1;
	std::vector<uint64_t> start; // first index of each length
	for (int l = 0; l <= pl.nl; l++) { start.push_back(ntexts); if (l >= pl.nlmin) ntexts += pw; pw *= NLINES; }
	start.push_back(ntexts);
	if (vf::deadline_passed()) { vf::cap_hit(fmt("deadline before INI plan lines<=%d sets<=%d", pl.nl, pl.k)); return; }
	double t0 = vf::now_s();
	vf::parallel(ntexts * 4, [&](uint64_t it) {
		if (vf::deadline_passed()) { static bool said = false; if (!said) { said = true; vf::cap_hit("deadline inside INI enumeration"); } return; }
		uint64_t ti = it / 4; int var = (int)(it % 4);
		int len = 0; while (start[len + 1] <= ti) len++;
		uint64_t x = ti - start[len];
		IniCase c; c.crlf = (var & 1) != 0; c.finalnl = (var & 2) == 0;
		if (len == 0 && !c.finalnl) return;               // "" once: with 0 lines the final-newline variants coincide
		if (len <= 1 && c.crlf && !c.finalnl) return;      // a single unterminated line has no line ending to vary
		for (int j = 0; j < len; j++) { c.lines.push_back((int)(x % NLINES)); x /= NLINES; }
		ini_histories(c, pl.k, pl.allw, pl.withEmpty ? NOPS : NOPS_NONEMPTY);
	}, 8);
	vf::setinfo(fmt("wall_s.ini_lines%d-%d_sets%d%s", pl.nlmin, pl.nl, pl.k, pl.allw ? "_allw" : "") + (pl.withEmpty ? "_emptyvalues" : ""), fmt("%.1f", vf::now_s() - t0));
}

// every table of R x C cells over the alphabet, written cell-wise and as arrays
static void csv_shape(int R, int C) {
	int n = R * C;
	uint64_t total = 1; for (int i = 0; i < n; i++) total *= NCELLS;
	const uint64_t CH = 169;
	if (vf::deadline_passed()) { vf::cap_hit(fmt("deadline before CSV shape %dx%d", R, C)); return; }
	double t0 = vf::now_s();
	vf::parallel((total + CH - 1) / CH, [&](uint64_t blk) {
		if (vf::deadline_passed()) { static bool said = false; if (!said) { said = true; vf::cap_hit("deadline inside CSV enumeration"); } return; }
		for (uint64_t i = blk * CH; i < (blk + 1) * CH && i < total; i++) {
			std::string cells; uint64_t x = i;
			for (int j = 0; j < n; j++) { cells += char('a' + x % NCELLS); x /= NCELLS; }
			run_csv('C', R, C, cells);
			run_csv('A', R, C, cells);
		}
	}, 4);
	vf::setinfo(fmt("wall_s.csv_%dx%d", R, C), fmt("%.1f", vf::now_s() - t0));
}

int main(int argc, char** argv) {
	vf::init(argc, argv, "C18", PART);
	C_EVAL = vf::counter("evaluations"); C_DISTINCT = vf::counter("distinct_nontrivial");
	W_NOEOL = vf::counter("w.ini_text_without_final_newline"); W_NOEOL_ENTRY_LAST = vf::counter("w.ini_last_line_is_entry_without_newline"); W_CRLF = vf::counter("w.ini_crlf_text");
	W_NEWSEC = vf::counter("w.ini_set_creates_section"); W_NEWKEY = vf::counter("w.ini_set_adds_key_to_existing_section"); W_CHANGED = vf::counter("w.ini_set_changes_existing_value");
	W_SAMEVAL = vf::counter("w.ini_set_same_value"); W_BARE_TOP = vf::counter("w.ini_bare_name_to_top_level"); W_BARE_SEC = vf::counter("w.ini_bare_name_to_first_section");
	W_REWRITTEN = vf::counter("w.ini_file_rewritten"); W_NOTREWRITTEN = vf::counter("w.ini_file_left_alone"); W_UNTOUCHED = vf::counter("w.ini_untouched_values_checked");
	W_COMMENTS = vf::counter("w.ini_comment_lines_checked"); W_SETCHECKS = vf::counter("w.ini_set_values_checked"); W_DUPSEC = vf::counter("w.ini_repeated_section_header");
	W_EXPLICIT = vf::counter("w.ini_explicit_write"); W_MIDWRITE = vf::counter("w.ini_write_then_more_sets"); W_TOPKEYS = vf::counter("w.ini_entries_before_first_header");
	W_LONGHIST = vf::counter(OTHER_PART_W "ini_histories_longer_than_3"); W_INDENTED = vf::counter("w.ini_indented_entry");
	W_CSV_QUOTED = vf::counter("w.csv_cells_needing_quotes"); W_CSV_NUM = vf::counter("w.csv_number_cells"); W_CSV_EMPTY = vf::counter("w.csv_empty_cells");
	W_CSV_ARRAY = vf::counter("w.csv_tables_written_as_arrays"); W_CSV_CELLWISE = vf::counter("w.csv_tables_written_cellwise"); W_CSV_BIG = vf::counter(OTHER_PART_W "csv_shape_macros");
	W_CSV_CELLS = vf::counter("w.csv_cells_compared"); W_CSV_SEMI = vf::counter("w.csv_semicolon_cells"); W_CSV_BYNAME = vf::counter(OTHER_PART_W "csv_cells_read_by_column_name");
	if (vf::opt.replay) { vf::parallel(1, [&](uint64_t) { run_case(vf::opt.kase); }); return vf::finish(); }
	bool T = vf::opt.thorough();

#ifdef C18_DEEP
	// the large products, built without sanitizer (value and order oracles only; the ASan part covers the smaller spaces)
	(void)T;
	{ Plan p = { 0, 4, 3, false, true }; ini_plan(p); }   // the same with empty values among the sets
	{ Plan p = { 0, 5, 2, false }; ini_plan(p); }   // texts <= 5 lines x histories <= 2
	{ Plan p = { 0, 4, 3, false }; ini_plan(p); }   // texts <= 4 lines x histories <= 3
	{ Plan p = { 0, 3, 3, true }; ini_plan(p); }    // texts <= 3 lines x histories <= 3 x write() after every prefix
	csv_shape(3, 2);
	csv_shape(2, 3);
	vf::sample("ini:L:0:3:01234:jfb = 5-line text \"[a]\\n[ab]\\nx=1\\ny=2\\n  z=3\" (no final newline), set(\"x\",\"w w\"); set(\"ab/y\",\"w w\"); set(\"a/x\",\"w w\"); write(); ~IniFile()");
	vf::sample("ini:C:1:1:570:dic (write() after every prefix): text \"# c\\r\\n\\r\\n[a]\\r\\n\", set(\"a/n\",\"w w\"); write(); set(\"x\",\"v\"); set(\"a/n\",\"v\"); ~IniFile()");
	vf::sample("csv:A:3x2:<every one of 13^6 tables> written as arrays and cell by cell, read back with data()");
	return vf::finish();
#else
	// ---------------- INI (a): quick and thorough: texts <= 4 lines x histories <= 2; thorough adds the 5-line texts with histories <= 1
	{ Plan p = { 0, 4, 2, false }; ini_plan(p); }
	{ Plan p = { 0, T ? 4 : 3, 2, false, true }; ini_plan(p); } // histories that set empty values (a section may then receive empty and non-empty new keys at once)
	if (T) { Plan p = { 5, 5, 1, false }; ini_plan(p); }
	// ---------------- INI (b): histories of 20 sets with a write() after 0..20 of them, on all texts of <= 3 lines
	{
		uint64_t ntexts = 1 + 8 + 64 + 512;
		double t0 = vf::now_s();
		vf::parallel(ntexts * 4, [&](uint64_t it) {
			uint64_t ti = it / 4; int var = (int)(it % 4);
			int len = ti < 1 ? 0 : ti < 9 ? 1 : ti < 73 ? 2 : 3;
			uint64_t x = ti - (len == 0 ? 0 : len == 1 ? 1 : len == 2 ? 9 : 73);
			IniCase c; c.crlf = (var & 1) != 0; c.finalnl = (var & 2) == 0;
			if (len == 0 && !c.finalnl) return;
			if (len <= 1 && c.crlf && !c.finalnl) return;
			for (int j = 0; j < len; j++) { c.lines.push_back((int)(x % NLINES)); x /= NLINES; }
			for (int step = 1; step <= 3; step += 2)
				for (int rot = 0; rot < NOPS; rot++) {
					c.ops.clear();
					for (int i = 0; i < 20; i++) c.ops.push_back((rot + i * step) % NOPS); // step 1 and 3 over all 15 ops: every name gets every value incl. ""
					static const int wpT[] = { -1, 0, 1, 10, 19, 20 }, wpQ[] = { -1, 10, 20 };
					for (int w = 0; w < (T ? 6 : 3); w++) { c.wpos = T ? wpT[w] : wpQ[w]; run_ini(c); }
				}
		}, 4);
		vf::setinfo("wall_s.ini_20set_macros", fmt("%.1f", vf::now_s() - t0));
	}
	// ---------------- CSV (a): every table over the 13-cell alphabet of the shapes 1x1 1x2 2x1 2x2 3x1 1x3 (3x2 and 2x3: part c18_deep)
	csv_shape(1, 1); csv_shape(1, 2); csv_shape(2, 1); csv_shape(2, 2); csv_shape(3, 1); csv_shape(1, 3);
	// ---------------- CSV (b): shape macros: every shape up to 30x8, 13 diagonal fills + 13 mostly-uniform fills
	vf::parallel(30 * 8, [&](uint64_t i) {
		int R = (int)(i / 8) + 1, C = (int)(i % 8) + 1;
		for (int p = 0; p < 2 * NCELLS; p++) {
			std::string cells;
			for (int r = 0; r < R; r++) for (int c = 0; c < C; c++) cells += char('a' + (p < NCELLS ? (r * C + c + p) % NCELLS : ((r + c) % 5 == 0 ? (p + r + c) % NCELLS : p - NCELLS)));
			run_csv('C', R, C, cells);
			run_csv('A', R, C, cells);
		}
	});

	vf::sample("ini:L:0:-1:0235:- = text \"[a]\\nx=1\\ny=2\\n# c\" (no final newline), no set(), destructor; fresh IniFile must return a/x=1, a/y=2; raw order [entry a/x, entry a/y, comment '# c']");
	vf::sample("ini:C:1:2:2104:di = text \"x=1\\r\\n[ab]\\r\\n[a]\\r\\n  z=3\\r\\n\", set(\"a/n\",\"w w\"); set(\"x\",\"v\"); write(); ~IniFile(): fresh must return x=v (top level), a/n=w w, a/z=3");
	vf::sample("ini 20-set histories: set(a/x,v) set(a/x,w w) set(a/n,v) ... cycling over {a/x,a/n,b/y,c/k,x} x {v,'w w'} with write() after 0/1/10/19/20 sets, on all texts of <= 3 lines");
	vf::sample("csv:C:2x2:gmdk = rows [\",\", \"\\\"q\\\"\"], [123456789012345, \" \"] written cell by cell, read back with data()");
	vf::sample("csv:A:30x8:<diagonal fill> = 30 rows x 8 columns over {1,-2.5,1e-7,123456789012345,\"\",a,\",\",\";\",\"\\\"\",\"'\",\" \",\"a,b\",\"\\\"q\\\"\"} written as arrays, read with nextRow()/[i]/[name]");
	return vf::finish();
#endif
}
