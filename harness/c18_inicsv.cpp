// C18 — IniFile / TabularDataFile persist exactly what was set or written.
//  INI: complete enumeration of file texts (<= N lines over a 10-line alphabet, or over a 7-line structural sub-alphabet
//       for the longest texts, x LF/CRLF x final newline or none) x set() histories (<= K calls over 5 names x 3 values,
//       the empty value included) x way of writing: destructor / write() + destructor / write() after every prefix /
//       write(otherPath) / IniFile(path, false) + write() / assignment through operator[]; plus 20-call histories with a
//       write() in the middle and fixed long texts (more than 16 lines, lines of 254 and 300 characters). The real
//       IniFile works on a scratch file; a FRESH IniFile must return every set value and every untouched pre-existing
//       value, and the raw text must keep comment lines and untouched entries in their relative order.
//       Reference: a plain std:: line parser + std::map.
//  CSV: complete enumeration of small tables over a 15-cell alphabet (19 cells for tables of <= 2 cells) + shape macros up
//       to 30x8, written cell-wise and row-wise (arrays) in three writer configurations (default; ';' with decimal ',';
//       tab), read back by a fresh TabularDataFile (unconfigured = auto-detection, or given the writer's configuration)
//       and compared cell for cell; plus a one-dimensional sweep of the magnitude of number cells (every decimal exponent of a
//       double x 15-digit mantissas x sign, the float / double / int / Long boundaries, Var(float) / Var(int) / Var(Long) cells) on
//       a 1-column and a 2-column table in every configuration (see "CSV: sweep of the magnitude of number cells" below).
//  Two binaries from this file: c18_inicsv (ASan; quick + thorough) and, via c18_deep.cpp (-DC18_DEEP, flavour plain,
//  thorough only), the largest products.
//  Case strings: ini:<L|C eol>:<final newline 0/1>:<write() after k sets, -1 = destructor only>:<line letters>:<op letters>[:<flags>]
//                   line letters 0..9 = LINES[], A.. = long lines; flags: o = the write is write(otherPath),
//                   r = IniFile(path, false) (no automatic save), b = values assigned through operator[] instead of set()
//                csv:<C cell-wise | A arrays>:<rows>x<cols>:<cell letters a..s, row major>[:<D|S|T writer configuration><a|s reader>]
//                num:<C|A>:<1|2 columns>:<d Var(double) | f Var(float) | i Var(int) | l Var(Long)>:<value, %a or integer>:<D|S|T><a|s>
#include <asl/IniFile.h>
#include <asl/TabularDataFile.h>
#include <asl/Var.h>
#include <map>
#include <math.h>
#include <float.h>
#include <sys/resource.h>
#include <sys/mman.h>
#include "vf.h"
#include "aslx.h"
using namespace asl;
using vf::fmt;

static int C_EVAL, C_DISTINCT;
static int W_NOEOL, W_NOEOL_ENTRY_LAST, W_CRLF, W_NEWSEC, W_NEWKEY, W_CHANGED, W_SAMEVAL, W_BARE, W_BARE_TOP, W_BARE_SEC, W_REWRITTEN, W_NOTREWRITTEN, W_UNTOUCHED, W_COMMENTS,
	W_DUPSEC, W_EXPLICIT, W_MIDWRITE, W_SETCHECKS, W_TOPKEYS, W_LONGHIST, W_INDENTED, W_EMPTYVAL, W_VALEQ, W_COMMENTEQ, W_INDENTCOMMENT, W_DUPKEYDIFF, W_TWOSECDIFF,
	W_OTHERPATH, W_NOAUTO, W_VIAINDEX, W_VIAINDEX_CHANGED, W_MANYLINES, W_GROWLINES, W_LONGLINE, W_STRUCT5;
static int W_CSV_QUOTED, W_CSV_NUM, W_CSV_EMPTY, W_CSV_ARRAY, W_CSV_CELLWISE, W_CSV_BIG, W_CSV_CELLS, W_CSV_SEMI, W_CSV_BYNAME,
	W_CSV_CFG_SEMI, W_CSV_CFG_TAB, W_CSV_AUTO_NONDEFAULT, W_CSV_READER_CONFIGURED, W_CSV_PLUSEXP, W_CSV_FRACTION15, W_CSV_FLOAT, W_CSV_HEAPSTR, W_CSV_LONGLINE, W_CSV_DECIMAL_COMMA, W_CSV_SIX;

// =============================================================================================== INI
// letters 0..9: the enumerated alphabet; A, B: long lines that only occur in the fixed long texts
static std::vector<std::string> LINES;
static void init_lines() {
	static const char* L[] = { "[a]", "[ab]", "x=1", "y = a=b", "  z=3", "# c", "; x=9", "", "  # c", "x=5" };
	for (int i = 0; i < 10; i++) LINES.push_back(L[i]);
	LINES.push_back("# " + std::string(252, 'c'));   // A: a comment of exactly 254 characters (TextFile reads lines in pieces of 254)
	LINES.push_back("k=" + std::string(298, 'v'));   // B: an entry of 300 characters
}
static const char FULL10[] = "0123456789";
static const char STRUCT7[] = "0123457";    // section headers, three entry shapes, comment, blank: the structural sub-alphabet of the longest texts
static const char STRUCT6[] = "012457";     // the same without the second entry shape: the 5-line texts
static int line_index(char ch) { return ch >= 'A' ? 10 + (ch - 'A') : ch - '0'; }
static char line_letter(int i) { return i < 10 ? char('0' + i) : char('A' + i - 10); }

static const char* NAMES[] = { "a/x", "a/n", "ab/y", "c/k", "x" }; // section "a" is a prefix of section "ab"
static const char* VALUES[] = { "v", "w w", "" }; // the empty value: a key set to "" reads back as "" whether or not it is stored
enum { NOPS = 15, NOPS_NONEMPTY = 10 };
// ops 0..9: the five names x {"v", "w w"}; ops 10..14: the five names x ""   (case strings spell op k as the letter 'a'+k)
static const char* op_name(int op) { return op < 10 ? NAMES[op / 2] : NAMES[op - 10]; }
static const char* op_val(int op) { return op < 10 ? VALUES[op % 2] : VALUES[2]; }

// ---- reference: plain line parser of INI text (sections, comments, key=value, blanks); std:: only
typedef std::pair<std::string, std::string> SK; // (section, key); section "" = entries before the first header
struct Tok { char kind; std::string sec, key, val, raw; };
struct Ref {
	std::vector<Tok> toks;
	std::map<SK, std::string> vals;                 // the value of the last line that defines the entry
	std::map<SK, std::set<std::string> > alts;      // every value some line gives the entry (an entry defined twice: the statement does not say which one is "the" value)
	bool hasFirst, topKeys, dupSec, dupKeyDiff, twoSecDiff, firstEntryIndented;
	std::string first;
	Ref() : hasFirst(false), topKeys(false), dupSec(false), dupKeyDiff(false), twoSecDiff(false), firstEntryIndented(false) {}
};
static bool blank(char c) { return c == ' ' || c == '\t' || c == '\r' || c == '\n'; }
static std::string trim(const std::string& s) {
	size_t a = 0, b = s.size();
	while (a < b && blank(s[a])) a++;
	while (b > a && blank(s[b - 1])) b--;
	return s.substr(a, b - a);
}
static Ref ref_parse(const std::string& text) {
	Ref r;
	std::string sec;
	std::set<std::string> secs;
	bool anyEntry = false;
	size_t p = 0;
	while (p < text.size()) {
		size_t e = text.find('\n', p);
		std::string line = text.substr(p, e == std::string::npos ? std::string::npos : e - p);
		p = e == std::string::npos ? text.size() : e + 1;
		if (!line.empty() && line[line.size() - 1] == '\r') line.resize(line.size() - 1);
		Tok t; t.raw = line;
		std::string tl = trim(line);
		if (!line.empty() && line[0] == '[' && line.find(']') != std::string::npos) {
			sec = line.substr(1, line.find(']') - 1);
			t.kind = 'S'; t.sec = sec;
			if (!r.hasFirst) { r.hasFirst = true; r.first = sec; }
			if (!secs.insert(sec).second) r.dupSec = true;
		}
		else if (tl.empty()) t.kind = 'B';
		else if (tl[0] == '#' || tl[0] == ';') t.kind = 'C';
		else if (tl.find('=') != std::string::npos) {
			size_t q = tl.find('=');
			t.kind = 'E'; t.sec = sec; t.key = trim(tl.substr(0, q)); t.val = trim(tl.substr(q + 1));
			SK k(sec, t.key);
			r.vals[k] = t.val;
			r.alts[k].insert(t.val);
			if (r.alts[k].size() > 1) r.dupKeyDiff = true;
			if (sec.empty()) r.topKeys = true;
			if (!anyEntry) { anyEntry = true; r.firstEntryIndented = blank(line[0]); }
		}
		else t.kind = '?';
		r.toks.push_back(t);
	}
	for (std::map<SK, std::string>::iterator a = r.vals.begin(); a != r.vals.end(); ++a)
		for (std::map<SK, std::string>::iterator b = r.vals.begin(); b != r.vals.end(); ++b)
			if (a->first.second == b->first.second && a->first.first != b->first.first && a->second != b->second) r.twoSecDiff = true;
	return r;
}
// the sequence the statement wants preserved: comment lines (verbatim) and entries not touched by a set()
static std::vector<std::string> order_tokens(const Ref& r, const std::set<SK>& touched) {
	std::vector<std::string> o;
	for (size_t i = 0; i < r.toks.size(); i++) {
		const Tok& t = r.toks[i];
		// a comment line is identified by its text: the statement fixes the relative order of the comment lines, not their indentation or trailing blanks
		if (t.kind == 'C') { std::string ct = trim(t.raw); o.push_back(ct.size() <= 40 ? "comment '" + ct + "'" : "comment '" + ct.substr(0, 20) + fmt("...' (%d characters, hash %016llx)", (int)ct.size(), (unsigned long long)vf::hash128(ct).a)); }
		else if (t.kind == 'E' && !touched.count(SK(t.sec, t.key))) o.push_back("entry " + (t.sec.empty() ? t.key : t.sec + "/" + t.key));
	}
	return o;
}
static std::string join(const std::vector<std::string>& v) { std::string s; for (size_t i = 0; i < v.size(); i++) s += (i ? ", " : "") + v[i]; return "[" + s + "]"; }
static std::string show(const std::string& s0) {
	std::string o, s = s0.size() > 700 ? s0.substr(0, 700) + fmt("...(%d bytes)", (int)s0.size()) : s0;
	for (size_t i = 0; i < s.size(); i++) { if (s[i] == '\n') o += "\\n"; else if (s[i] == '\r') o += "\\r"; else if (s[i] == '\t') o += "\\t"; else o += s[i]; }
	return "\"" + o + "\"";
}
static bool slurp(const std::string& path, std::string& out) {
	out.clear();
	FILE* f = fopen(path.c_str(), "rb");
	if (!f) return false;
	char buf[4096]; size_t n;
	while ((n = fread(buf, 1, sizeof buf, f)) > 0) out.append(buf, n);
	fclose(f);
	return true;
}
static bool spit(const std::string& path, const std::string& s) {
	FILE* f = fopen(path.c_str(), "wb");
	if (!f) return false;
	bool ok = fwrite(s.data(), 1, s.size(), f) == s.size();
	return fclose(f) == 0 && ok;
}
// CPU seconds (user + system) of the finished worker processes: the cost of a family independent of the load of the machine
static double cpu_children() {
	struct rusage ru; getrusage(RUSAGE_CHILDREN, &ru);
	return ru.ru_utime.tv_sec + ru.ru_stime.tv_sec + (ru.ru_utime.tv_usec + ru.ru_stime.tv_usec) * 1e-6;
}
static void family_done(const std::string& tag, double t0, double c0) {
	vf::setinfo("wall_s." + tag, fmt("%.1f", vf::now_s() - t0));
	vf::setinfo("cpu_s." + tag, fmt("%.1f", cpu_children() - c0));
}
// A defect of the library usually fails in thousands of cases: the first 8 cases of each signature (over all worker processes and families) are listed, the
// others counted, so that one flood neither stops the run (vf stops after 400 violations of a worker) nor fills the list before the other families were checked.
static int C_UNLISTED;
struct SigSlot { uint64_t h; int n; };
enum { NSIGSLOTS = 256 };
static SigSlot* SIGS; // shared by the worker processes
static void init_report() { SIGS = (SigSlot*)mmap(0, NSIGSLOTS * sizeof(SigSlot), PROT_READ | PROT_WRITE, MAP_SHARED | MAP_ANONYMOUS, -1, 0); if (SIGS == MAP_FAILED) { perror("mmap"); exit(2); } }
static void report(const std::string& sig, const std::string& desc, const std::string& kase) {
	uint64_t h = vf::hash128(sig).a | 1;
	bool list = true;
	for (int i = 0; i < NSIGSLOTS; i++) {
		SigSlot& sl = SIGS[(h + i) % NSIGSLOTS];
		uint64_t cur = __sync_val_compare_and_swap(&sl.h, (uint64_t)0, h);
		if (cur == 0 || cur == h) { list = __sync_fetch_and_add(&sl.n, 1) < 8; break; }
	}
	if (list) vf::violation(sig, desc, kase);
	else vf::add(C_UNLISTED);
}
static std::string scratch_file(const char* ext) { return vf::scratch_dir() + fmt("/w%d.%s", vf::worker_id(), ext); }

struct IniCase {
	bool crlf, finalnl;
	std::vector<int> lines, ops;
	int wpos; // -1: written by the destructor only; k >= 0: explicit write() after the k-th set(), destructor later
	bool other, noauto, viaIndex; // flags o, r, b
	IniCase() : crlf(false), finalnl(true), wpos(-1), other(false), noauto(false), viaIndex(false) {}
	std::string str() const {
		std::string l, o, f;
		for (size_t i = 0; i < lines.size(); i++) l += line_letter(lines[i]);
		for (size_t i = 0; i < ops.size(); i++) o += char('a' + ops[i]);
		if (other) f += 'o'; if (noauto) f += 'r'; if (viaIndex) f += 'b';
		return fmt("ini:%c:%d:%d:%s:%s", crlf ? 'C' : 'L', finalnl ? 1 : 0, wpos, l.empty() ? "-" : l.c_str(), o.empty() ? "-" : o.c_str()) + (f.empty() ? "" : ":" + f);
	}
	std::string text() const {
		std::string t, eol = crlf ? "\r\n" : "\n";
		for (size_t i = 0; i < lines.size(); i++) { t += LINES[lines[i]]; if (i + 1 < lines.size() || finalnl) t += eol; }
		return t;
	}
	std::string history() const {
		std::string h = noauto ? "IniFile(path, false); " : "";
		for (size_t i = 0; i <= ops.size(); i++) {
			if ((int)i == wpos) h += other ? "write(otherPath); " : "write(); ";
			if (i < ops.size()) h += viaIndex ? fmt("ini[\"%s\"] = \"%s\"; ", op_name(ops[i]), op_val(ops[i])) : fmt("set(\"%s\",\"%s\"); ", op_name(ops[i]), op_val(ops[i]));
		}
		return h + "~IniFile()";
	}
};

struct IniCheck {
	const IniCase& c;
	std::string kase, path, opath, text, sfx;
	Ref ref0;
	std::map<SK, std::string> model;
	std::set<SK> touched;
	std::vector<std::string> setnames;
	std::map<std::string, std::string> bareSecOf; // bare name -> the section it addressed when it was set ("" = the entries before the first header)
	IniFile* shadow;
	bool failed;
	IniCheck(const IniCase& cc) : c(cc), shadow(0), failed(false) {}
	~IniCheck() { delete shadow; }
	// Which section a name without '/' addresses ("the current section" of the class documentation) is a rule of the library, not of the statement: the
	// statement only demands that a fresh IniFile returns the value under the name used in set(). So the rule is not modelled but asked of the library: a
	// shadow IniFile(path, false) (never written) on the same text receives the same set() calls; before a bare name is set, it is set to a sentinel there and
	// the sentinel is looked up under every section name of the text and of the earlier set() calls; found under none of them = the entries before the first header.
	SK resolve(const std::string& name) {
		size_t s = name.find('/');
		if (s != std::string::npos) return SK(name.substr(0, s), name.substr(s + 1));
		std::map<std::string, std::string>::const_iterator it = bareSecOf.find(name);
		return SK(it == bareSecOf.end() ? std::string() : it->second, name);
	}
	void shadow_set(const std::string& name, const std::string& val) {
		if (!shadow) return;
		if (name.find('/') == std::string::npos) {
			static const char SENTINEL[] = "\x01sentinel";
			shadow->set(vfx::A(name), vfx::A(SENTINEL));
			const IniFile& cs = *shadow;
			std::set<std::string> secs;
			for (size_t j = 0; j < ref0.toks.size(); j++) if (ref0.toks[j].kind == 'S') secs.insert(ref0.toks[j].sec);
			for (std::map<SK, std::string>::const_iterator it = model.begin(); it != model.end(); ++it) if (!it->first.first.empty()) secs.insert(it->first.first);
			std::string found; int nfound = 0;
			for (std::set<std::string>::const_iterator it = secs.begin(); it != secs.end(); ++it)
				if (vfx::S(cs[vfx::A(*it + "/" + name)]) == SENTINEL) { found = *it; nfound++; }
			if (nfound > 1) bad("bare_name_ambiguous", "set(\"" + name + "\") changed the entry of that name in more than one section");
			bareSecOf[name] = found;
		}
		shadow->set(vfx::A(name), vfx::A(val));
	}
	void bad(const std::string& sig, const std::string& desc) {
		failed = true;
		report(sig + sfx, desc + "; file text " + show(text) + "; history: " + c.history(), kase);
	}
	// after the file has been written: raw text keeps order; a fresh IniFile returns all model values
	void verify(const std::string& file, const char* when) {
		std::string raw;
		if (!slurp(file, raw)) { bad("file_gone", std::string("the file cannot be read ") + when); return; }
		if (raw != text) vf::add(W_REWRITTEN); else vf::add(W_NOTREWRITTEN);
		Ref out = ref_parse(raw);
		std::vector<std::string> want = order_tokens(ref0, touched), got = order_tokens(out, touched);
		for (size_t i = 0; i < want.size(); i++) if (want[i][0] == 'c') vf::add(W_COMMENTS);
		if (want != got) bad("order", std::string(when) + " the comment lines and untouched entries of the file are " + join(got) + ", originally " + join(want) + "; text on disk " + show(raw));
		{
			IniFile fresh(vfx::A(file));
			const IniFile& cf = fresh;
			for (std::map<SK, std::string>::const_iterator it = model.begin(); it != model.end(); ++it) {
				bool wasSet = touched.count(it->first) != 0;
				if (wasSet) continue; // set values are queried below under the very name used in set()
				std::string name = it->first.first.empty() ? it->first.second : it->first.first + "/" + it->first.second;
				std::string v = vfx::S(cf[vfx::A(name)]);
				vf::add(W_UNTOUCHED);
				// an entry the text defines more than once with different values: any of them is a "pre-existing value"
				const std::set<std::string>& okv = ref0.alts[it->first];
				if (!okv.count(v)) bad("untouched_lost", std::string(when) + " a fresh IniFile returns \"" + v + "\" for the untouched pre-existing " + name + "=" + it->second + "; text on disk " + show(raw));
			}
			for (size_t i = 0; i < setnames.size(); i++) {
				SK rk = resolve(setnames[i]);
				const std::string& want1 = model[rk];
				// a name without '/' is looked up in the fresh file's own "current section"; an empty value need not be stored, and without it
				// that current section can be another one - so an empty value set under a bare name is queried by its qualified name
				std::string qname = (want1.empty() && setnames[i].find('/') == std::string::npos) ? (rk.first.empty() ? std::string("-") : rk.first) + "/" + rk.second : setnames[i];
				std::string v = vfx::S(cf[vfx::A(qname)]);
				vf::add(W_SETCHECKS);
				if (v != want1) bad("set_lost", std::string(when) + " a fresh IniFile returns \"" + v + "\" for " + setnames[i] + " which was set to \"" + want1 + "\"; text on disk " + show(raw));
			}
		}
		if (vf::asan_tripped()) { bad("asan", std::string("ASan ") + vf::asan_what() + " while reading the written file " + when); vf::asan_clear(); }
	}
	void run() {
		kase = c.str();
		vf::cur(kase);
		vf::add(C_EVAL);
		text = c.text();
		path = scratch_file("ini");
		opath = scratch_file("other.ini");
		if (!spit(path, text)) { fprintf(stderr, "c18: cannot write scratch file %s\n", path.c_str()); _exit(2); }
		if (c.other) remove(opath.c_str());
		ref0 = ref_parse(text);
		model = ref0.vals;
		for (size_t i = 0; i < c.ops.size() && !shadow; i++)
			if (!strchr(op_name(c.ops[i]), '/')) shadow = new IniFile(vfx::A(path), false); // see resolve()
		bool lastIsEntry = !ref0.toks.empty() && ref0.toks.back().kind == 'E';
		if (!c.finalnl && !text.empty()) { vf::add(W_NOEOL); sfx = "_noeol"; if (lastIsEntry) vf::add(W_NOEOL_ENTRY_LAST); }
		if (c.noauto) sfx += "_noautosave";
		if (c.other) sfx += "_otherpath";
		if (c.viaIndex) sfx += "_viaindex";
		if (c.crlf && text.find('\r') != std::string::npos) vf::add(W_CRLF);
		if (ref0.dupSec) vf::add(W_DUPSEC);
		if (ref0.topKeys) vf::add(W_TOPKEYS);
		if (ref0.firstEntryIndented) vf::add(W_INDENTED);
		if (ref0.dupKeyDiff) vf::add(W_DUPKEYDIFF);
		if (ref0.twoSecDiff) vf::add(W_TWOSECDIFF);
		bool longline = false;
		for (size_t i = 0; i < c.lines.size(); i++) {
			int li = c.lines[i];
			if (li == 3) vf::add(W_VALEQ); else if (li == 6) vf::add(W_COMMENTEQ); else if (li == 8) vf::add(W_INDENTCOMMENT); else if (li >= 10) longline = true;
		}
		if (longline) vf::add(W_LONGLINE);
		if (c.lines.size() > 16) vf::add(W_MANYLINES);
		else if (c.lines.size() > 8 && c.lines.size() + c.ops.size() > 16) vf::add(W_GROWLINES); // up to 16 lines read (the reserved capacity), insertions go beyond
		if (c.lines.size() == 5 && !longline) vf::add(W_STRUCT5);
		if (!c.ops.empty() || !model.empty()) vf::add(C_DISTINCT);
		if (c.ops.size() > 3) vf::add(W_LONGHIST);
		if (c.noauto) vf::add(W_NOAUTO);
		if (c.viaIndex) vf::add(W_VIAINDEX);
		vf::asan_clear();
		{
			IniFile ini(vfx::A(path), !c.noauto);
			if (!ini.ok()) { bad("open", "IniFile::ok() is false for an existing file"); return; }
			for (size_t i = 0; i <= c.ops.size(); i++) {
				if ((int)i == c.wpos) {
					if (c.other) { ini.write(vfx::A(opath)); vf::add(W_OTHERPATH); }
					else ini.write();
					vf::add(W_EXPLICIT);
					if (i < c.ops.size()) vf::add(W_MIDWRITE);
					if (vf::asan_tripped()) { bad("asan", "ASan " + vf::asan_what() + " in write()"); vf::asan_clear(); }
					if (c.other) verify(opath, "after write(otherPath), in the other file,");
					else verify(path, "after write()");
				}
				if (i == c.ops.size()) break;
				std::string name = op_name(c.ops[i]), val = op_val(c.ops[i]);
				shadow_set(name, val);
				SK k = resolve(name);
				if (name.find('/') == std::string::npos) { vf::add(W_BARE); vf::add(k.first.empty() ? W_BARE_TOP : W_BARE_SEC); }
				if (val.empty()) vf::add(W_EMPTYVAL);
				if (!model.count(k)) {
					bool secExists = k.first.empty();
					for (size_t j = 0; j < ref0.toks.size(); j++) if (ref0.toks[j].kind == 'S' && ref0.toks[j].sec == k.first) secExists = true;
					for (std::map<SK, std::string>::iterator it = model.begin(); it != model.end(); ++it) if (it->first.first == k.first) secExists = true;
					vf::add(secExists ? W_NEWKEY : W_NEWSEC);
				}
				else if (model[k] != val) { vf::add(W_CHANGED); if (c.viaIndex) vf::add(W_VIAINDEX_CHANGED); } else vf::add(W_SAMEVAL);
				if (c.viaIndex) ini[vfx::A(name)] = vfx::A(val);
				else ini.set(vfx::A(name), vfx::A(val));
				model[k] = val;
				touched.insert(k);
				if (std::find(setnames.begin(), setnames.end(), name) == setnames.end()) setnames.push_back(name);
			}
		}
		if (vf::asan_tripped()) { bad("asan", "ASan " + vf::asan_what() + " in set()/~IniFile()"); vf::asan_clear(); }
		// without automatic save only what an explicit write() at the end of the history stored can be demanded
		if (c.noauto && (c.other || c.wpos != (int)c.ops.size())) return;
		verify(path, "after destruction");
	}
};
static void run_ini(const IniCase& c) { IniCheck k(c); k.run(); }

static bool parse_ini_case(const std::string& s, IniCase& c) {
	// ini:<L|C>:<final>:<wpos>:<lines>:<ops>[:<flags>]
	std::vector<std::string> f;
	size_t p = 0;
	while (true) { size_t e = s.find(':', p); f.push_back(s.substr(p, e == std::string::npos ? std::string::npos : e - p)); if (e == std::string::npos) break; p = e + 1; }
	if (f.size() != 6 && f.size() != 7) return false;
	c.crlf = f[1] == "C"; c.finalnl = f[2] == "1"; c.wpos = atoi(f[3].c_str());
	if (f[4] != "-") for (size_t i = 0; i < f[4].size(); i++) { int li = line_index(f[4][i]); if (li < 0 || li >= (int)LINES.size()) return false; c.lines.push_back(li); }
	if (f[5] != "-") for (size_t i = 0; i < f[5].size(); i++) { int op = f[5][i] >= 'a' ? f[5][i] - 'a' : f[5][i] - '0'; if (op < 0 || op >= NOPS) return false; c.ops.push_back(op); }
	if (f.size() == 7) { c.other = f[6].find('o') != std::string::npos; c.noauto = f[6].find('r') != std::string::npos; c.viaIndex = f[6].find('b') != std::string::npos; }
	return true;
}

// =============================================================================================== CSV
struct Cell { char kind; double d; std::string s; }; // kind i = int, d = double (NUMBER, written %.15g), f = float (FLOAT, written %.7g), s = string
static std::vector<Cell> CELLS;
static void init_cells() {
	static const Cell C[] = {
		{ 'i', 1, "1" }, { 'd', -2.5, "-2.5" }, { 'd', 1e-7, "1e-7" }, { 'd', 123456789012345.0, "123456789012345" },
		{ 's', 0, "" }, { 's', 0, "a" }, { 's', 0, "," }, { 's', 0, ";" }, { 's', 0, "\"" }, { 's', 0, "'" },
		{ 's', 0, " " }, { 's', 0, "a,b" }, { 's', 0, "\"q\"" },
		{ 'd', 1e20, "1e20" }, { 'd', 0.123456789012345, "0.123456789012345" },                                // n o: a '+' exponent, 15 fractional digits
		{ 'f', 0.1f, "0.1f" },                                                                                  // p: a float (rendered with %.7g)
		{ 's', 0, "abcdefghi" },                                                                                // q: 9 characters: stored by Var on the heap
		{ 's', 0, "say \"a;b,c\" and 'x', then two  blanks.." },                                                // r: 40 characters
		{ 's', 0, "\t" } };                                                                                     // s: the separator of the tab configuration
	for (size_t i = 0; i < sizeof C / sizeof C[0]; i++) CELLS.push_back(C[i]);
}
enum { NCELLS = 19 };
static const char CSV15[] = "abcdefghijklmno", CSV19[] = "abcdefghijklmnopqrs";
static const char CSV9[] = "abenfghil"; // 6-cell tables: 1, -2.5, "", 1e20, a, ",", ";", "\"", "a,b"

static Var cell_var(const Cell& c) {
	if (c.kind == 'i') return Var((int)c.d);
	if (c.kind == 'd') return Var(c.d);
	if (c.kind == 'f') return Var((float)c.d);
	return Var(vfx::A(c.s));
}
static std::string cell_show(const Cell& c) { return c.kind != 's' ? fmt("number %s", c.s.c_str()) : "string <" + show(c.s).substr(1, show(c.s).size() - 2) + ">"; }

// mode 'C' = cell by cell, 'A' = each row as one array; reader: data() for small tables, nextRow() + operator[] (index and name) for the others
// cfg 'D' = default (',' '.'), 'S' = setSeparator(';') + setDecimal(','), 'T' = setSeparator('\t'); rd 'a' = unconfigured reader (auto-detection), 's' = reader given the writer's settings
static void csv_configure(TabularDataFile& f, char cfg) {
	if (cfg == 'S') { f.setSeparator(';'); f.setDecimal(','); }
	else if (cfg == 'T') f.setSeparator('\t');
}
static void run_csv(char mode, int R, int C, const std::string& cells, char cfg = 'D', char rd = 'a') {
	std::string kase = fmt("csv:%c:%dx%d:%s", mode, R, C, cells.c_str()) + (cfg == 'D' && rd == 'a' ? std::string() : fmt(":%c%c", cfg, rd));
	vf::cur(kase);
	vf::add(C_EVAL); vf::add(C_DISTINCT);
	std::string path = scratch_file("csv");
	remove(path.c_str());
	bool big = R > 3 || C > 3;
	if (big) vf::add(W_CSV_BIG);
	if (R * C == 6) vf::add(W_CSV_SIX);
	vf::add(mode == 'A' ? W_CSV_ARRAY : W_CSV_CELLWISE);
	if (cfg == 'S') vf::add(W_CSV_CFG_SEMI); else if (cfg == 'T') vf::add(W_CSV_CFG_TAB);
	if (cfg != 'D') vf::add(rd == 'a' ? W_CSV_AUTO_NONDEFAULT : W_CSV_READER_CONFIGURED);
	std::string sfx = cfg == 'S' ? "_semicolon" : cfg == 'T' ? "_tab" : "";
	vf::asan_clear();
	{
		TabularDataFile f(vfx::A(path));
		csv_configure(f, cfg);
		Array<String> cols;
		for (int c = 0; c < C; c++) cols << vfx::A(fmt("c%d", c));
		f.columns(cols);
		if (!f.ok()) { fprintf(stderr, "c18: cannot write scratch file %s\n", path.c_str()); _exit(2); }
		for (int r = 0; r < R; r++) {
			if (mode == 'A') {
				Array<Var> row;
				for (int c = 0; c < C; c++) row << cell_var(CELLS[cells[r * C + c] - 'a']);
				f << Var(row);
			}
			else for (int c = 0; c < C; c++) f << cell_var(CELLS[cells[r * C + c] - 'a']);
		}
	}
	if (vf::asan_tripped()) { report("csv_asan" + sfx, "ASan " + vf::asan_what() + " while writing the table", kase); vf::asan_clear(); }
	std::string raw; slurp(path, raw);
	if (big) { size_t p = 0; while (p < raw.size()) { size_t e = raw.find('\n', p); if (e == std::string::npos) e = raw.size(); if (e - p >= 255) { vf::add(W_CSV_LONGLINE); break; } p = e + 1; } }
	std::vector<std::vector<Var> > got;
	std::vector<std::vector<Var> > byname;
	{
		TabularDataFile g(vfx::A(path));
		if (rd == 's') csv_configure(g, cfg);
		if (!big) {
			Array<Array<Var> > d = g.data();
			for (int r = 0; r < d.length(); r++) { got.push_back(std::vector<Var>()); for (int c = 0; c < d[r].length(); c++) got.back().push_back(d[r][c]); }
		}
		else while (g.nextRow()) {
			got.push_back(std::vector<Var>()); byname.push_back(std::vector<Var>());
			int n = g.row().length();
			for (int c = 0; c < n; c++) got.back().push_back(g[c]);
			for (int c = 0; c < C; c++) byname.back().push_back(g[vfx::A(fmt("c%d", c))]);
		}
	}
	if (vf::asan_tripped()) { report("csv_asan" + sfx, "ASan " + vf::asan_what() + " while reading the table back; file " + show(raw), kase); vf::asan_clear(); }
	if ((int)got.size() != R) { report("csv_rows" + sfx, fmt("%d rows written, %d rows read back; file ", R, (int)got.size()) + show(raw), kase); return; }
	for (int r = 0; r < R; r++) {
		if ((int)got[r].size() != C) { report("csv_cols" + sfx, fmt("row %d written with %d cells is read back with %d cells; file ", r, C, (int)got[r].size()) + show(raw), kase); return; }
		for (int c = 0; c < C; c++) {
			const Cell& e = CELLS[cells[r * C + c] - 'a'];
			vf::add(W_CSV_CELLS);
			for (int via = 0; via < (byname.empty() ? 1 : 2); via++) {
				const Var& v = via ? byname[r][c] : got[r][c];
				if (via) vf::add(W_CSV_BYNAME);
				std::string gs;
				bool ok;
				if (e.kind != 's') {
					vf::add(W_CSV_NUM);
					if (e.kind == 'f') vf::add(W_CSV_FLOAT);
					if (e.d == 1e20) vf::add(W_CSV_PLUSEXP);
					if (e.s.size() == 17 && e.s[1] == '.') { vf::add(W_CSV_FRACTION15); if (cfg == 'S') vf::add(W_CSV_DECIMAL_COMMA); }
					ok = v.is(Var::NUMBER);
					// numbers must agree to the digits the writer prints: 15 significant digits (7 for a float)
					const char* prec = e.kind == 'f' ? "%.7g" : "%.15g";
					if (ok) { double x = v; gs = fmt("number %.17g", x); ok = fmt(prec, x) == fmt(prec, e.d); }
					else gs = v.is(Var::STRING) ? std::string("string <") + *v + ">" : std::string("a value of type ") + fmt("%d", (int)v.type());
				}
				else {
					if (e.s.empty()) vf::add(W_CSV_EMPTY);
					if (e.s.find(',') != std::string::npos || e.s.find('"') != std::string::npos) vf::add(W_CSV_QUOTED);
					if (e.s.find(';') != std::string::npos) vf::add(W_CSV_SEMI);
					if (e.s.size() >= 8) vf::add(W_CSV_HEAPSTR);
					ok = v.is(Var::STRING) && std::string(*v) == e.s;
					if (v.is(Var::STRING)) gs = std::string("string <") + *v + ">";
					else if (v.is(Var::NUMBER)) { double x = v; gs = fmt("number %.17g", x); }
					else gs = fmt("a value of type %d", (int)v.type());
				}
				if (!ok) {
					report((e.kind != 's' ? "csv_number" : "csv_string") + sfx, fmt("cell (%d,%d)%s written as %s is read back as %s; file ", r, c, via ? " (by column name)" : "", cell_show(e).c_str(), gs.c_str()) + show(raw), kase);
					return;
				}
			}
		}
	}
}

// =============================================================================================== CSV: sweep of the magnitude of number cells
// The cell alphabet above holds seven numbers of moderate size. The statement speaks of any table of numbers, "numbers to the 15 significant digits written":
// a one-dimensional family (no product with the table shapes) puts every number of a list that covers the whole range of a double - every decimal exponent
// -324..308 x 15-digit mantissas x both signs, the boundaries of the float range (FLT_MAX, FLT_MIN, the smallest float and their neighbours), DBL_MAX, DBL_MIN,
// subnormals, integers around 2^24, 2^31, 2^32, 2^53, 2^63, the switch between fixed and exponent notation - and Var(float) / Var(int) / Var(Long) typed cells
// into a 1-column table [x],[x] (read with data()) and a 2-column table [x, ","],[1, x] (read with nextRow()/[i]/[name]), written cell-wise and as arrays in
// every writer configuration x reader. NaN and the infinities are not numbers with digits to compare and the statement demands nothing for them (the writer
// prints NaN as an empty cell and an infinity as the text "inf"): such cells are written and read under the memory oracle only.
// Case strings: num:<C|A>:<1|2 columns>:<d Var(double) | f Var(float) | i Var(int) | l Var(Long)>:<value, %a or integer>:<D|S|T><a|s>
struct Num { char kind; double d; };
static std::vector<Num> NUMS;
static int W_NS_TABLES, W_NS_CELLS, W_NS_ABOVE_FLOAT, W_NS_BELOW_FLOAT, W_NS_SUBNORMAL, W_NS_EXP3, W_NS_INT, W_NS_FLOAT, W_NS_LONG, W_NS_NEGATIVE, W_NS_DECIMAL_COMMA,
	W_NS_NONFINITE, W_NS_TWOCOL, W_NS_ARRAYS, W_NS_FIXED_SMALL, W_NS_INT_ABOVE_2_53, W_NS_DBL_EXTREME, W_NS_AUTO_NONDEFAULT, W_NS_UNREPRESENTABLE;
static Var num_var(const Num& n) {
	switch (n.kind) {
	case 'i': return Var((int)n.d);
	case 'f': return Var((float)n.d);
	case 'l': return Var((Long)n.d);
	default: return Var(n.d);
	}
}
static std::string num_value_str(const Num& n) { return (n.kind == 'i' || n.kind == 'l') ? fmt("%.0f", n.d) : n.d != n.d ? std::string("nan") : fmt("%a", n.d); }
static const char* num_prec(const Num& n) { return n.kind == 'f' ? "%.7g" : "%.15g"; }
static std::string num_show(const Num& n) {
	const char* t = n.kind == 'i' ? "Var(int)" : n.kind == 'f' ? "Var(float)" : n.kind == 'l' ? "Var(Long)" : "Var(double)";
	return fmt("%s %s", t, fmt(num_prec(n), n.d).c_str()) + fmt(" (exactly %.17g)", n.d);
}
// which narrowing a cell is exposed to: the class a failure is reported under (chosen from the input, so that one defect of one class does not hide another class)
static const char* num_class(const Num& n) {
	if (n.kind == 'i') return "_int";
	if (n.kind == 'f') return "_floattyped";
	if (n.d == 0) return "";
	float y = (float)n.d;
	if (y - y != 0) return "_above_float_range";
	if (fabs(n.d) < DBL_MIN) return "_subnormal";
	if (y == 0) return "_below_float_range";
	return "";
}
static void add_num(std::set<std::pair<char, uint64_t> >& seen, char kind, double d) {
	if (kind == 'f') d = (double)(float)d;
	else if (kind == 'i') d = (double)(int)d;      // (also turns a -0.0 of the arithmetic below into the integer 0)
	else if (kind == 'l') d = (double)(long long)d;
	if (kind == 'f' && d - d != 0 && d == d) return;
	uint64_t bits; memcpy(&bits, &d, 8);
	if (d != d) bits = ~0ull;
	if (!seen.insert(std::make_pair(kind, bits)).second) return;
	Num n = { kind, d };
	NUMS.push_back(n);
}
static void init_nums(bool T) {
	std::set<std::pair<char, uint64_t> > seen;
	// (1) every decimal exponent of a double x mantissas of 1 and 15 digits x sign (strtod: the correctly rounded double of that decimal text)
	static const char* MD[] = { "1", "1.23456789012345", "9.99999999999999", "1.00000000000001", "5.00000000000001", // quick: these five
		"2.5", "7.77777777777777", "3.14159265358979", "4.94065645841247", "2.2250738585072", "1.79769313486231", "6.02214076000001" };
	for (int e = -324; e <= 308; e++)
		for (int m = 0; m < (T ? 12 : 5); m++)
			for (int sg = 0; sg < 2; sg++) {
				double x = strtod(fmt("%s%se%d", sg ? "-" : "", MD[m], e).c_str(), 0);
				if (x == 0 || x - x != 0) continue; // below the smallest subnormal / above DBL_MAX
				add_num(seen, 'd', x);
			}
	// (2) boundaries, each with its neighbouring doubles and both signs
	std::vector<double> B;
	B.push_back(FLT_MAX); B.push_back(ldexp(1.0, 128) - ldexp(1.0, 103)); /* halfway between FLT_MAX and 2^128: the first double that narrows to +inf */ B.push_back(ldexp(1.0, 128));
	B.push_back(FLT_MIN); B.push_back(ldexp(1.0, -149)); /* the smallest float */ B.push_back(ldexp(1.0, -150)); /* narrows to 0 */ B.push_back(ldexp(1.5, -150));
	B.push_back(DBL_MAX); B.push_back(1.79769313486231e308); /* the largest number of 15 digits a double holds */ B.push_back(DBL_MIN); B.push_back(ldexp(1.0, -1074)); B.push_back(ldexp(1.0, -1073)); B.push_back(DBL_MIN - ldexp(1.0, -1074)); /* the largest subnormal */
	B.push_back(ldexp(1.0, -1023)); B.push_back(1e-290); B.push_back(1e-300); B.push_back(1e300);
	B.push_back(16777216.0); B.push_back(2147483648.0); B.push_back(4294967296.0); B.push_back(9007199254740992.0); B.push_back(9223372036854775808.0); B.push_back(18446744073709551616.0);
	B.push_back(999999999999999.0); B.push_back(1e15); /* %.15g switches to exponent notation */ B.push_back(1e16); B.push_back(1e14);
	B.push_back(0.0001); B.push_back(0.00001); /* %.15g switches to exponent notation below 1e-4 */ B.push_back(0.000123456789012345); B.push_back(0.0000123456789012345);
	B.push_back(1.0); B.push_back(0.5); B.push_back(0.1); B.push_back(1.0 / 3); B.push_back(2.0 / 3); B.push_back(3.14159265358979);
	for (size_t i = 0; i < B.size(); i++)
		for (int sg = 0; sg < 2; sg++) {
			double b = sg ? -B[i] : B[i];
			add_num(seen, 'd', b);
			if (b - b == 0) { add_num(seen, 'd', nextafter(b, 0.0)); add_num(seen, 'd', nextafter(nextafter(b, 0.0), 0.0)); }
			if (fabs(b) < DBL_MAX) { add_num(seen, 'd', nextafter(b, sg ? -HUGE_VAL : HUGE_VAL)); add_num(seen, 'd', nextafter(nextafter(b, sg ? -HUGE_VAL : HUGE_VAL), sg ? -HUGE_VAL : HUGE_VAL)); }
		}
	static const int K2[] = { 24, 31, 32, 53, 63, 64 }; // integers 2^k - 1, 2^k, 2^k + 1 (as far as a double holds them)
	for (size_t j = 0; j < sizeof K2 / sizeof K2[0]; j++)
		for (int dlt = -1; dlt <= 1; dlt++) for (int sg = 0; sg < 2; sg++) add_num(seen, 'd', (sg ? -1 : 1) * (ldexp(1.0, K2[j]) + dlt));
	add_num(seen, 'd', 0.0); add_num(seen, 'd', -0.0);
	// (3) Var(Long) cells (a NUMBER): integers around 2^31, 2^32, 2^53, up to the ends of the type
	{
		static const double L[] = { 2147483647.0, 2147483648.0, 2147483649.0, 4294967295.0, 4294967296.0, 4294967297.0, 9007199254740991.0, 9007199254740992.0, 9007199254740994.0,
			999999999999999.0, 1e15, 1e18, 4611686018427387904.0, 9223372036854774784.0 /* the largest double below 2^63 */ };
		for (size_t i = 0; i < sizeof L / sizeof L[0]; i++) { add_num(seen, 'l', L[i]); add_num(seen, 'l', -L[i]); }
		add_num(seen, 'l', -9223372036854775808.0); add_num(seen, 'l', 0); add_num(seen, 'l', -1); add_num(seen, 'l', 7);
	}
	// (4) Var(int) cells (INT, written with %i): the ends of the type, every power of ten and of 2^8 and their neighbours
	{
		add_num(seen, 'i', 0);
		for (int sg = 0; sg < 2; sg++) {
			double p10 = 1;
			for (int k = 0; k <= 9; k++, p10 *= 10) for (int dlt = -1; dlt <= 1; dlt++) add_num(seen, 'i', (sg ? -1 : 1) * (p10 + dlt));
			for (int k = 8; k <= 24; k += 8) for (int dlt = -1; dlt <= 1; dlt++) add_num(seen, 'i', (sg ? -1 : 1) * (ldexp(1.0, k) + dlt));
			add_num(seen, 'i', (sg ? -1 : 1) * 2147483647.0); add_num(seen, 'i', (sg ? -1 : 1) * 2147483646.0); add_num(seen, 'i', (sg ? -1 : 1) * 1234567890.0);
		}
		add_num(seen, 'i', -2147483648.0);
	}
	// (5) Var(float) cells (FLOAT, written with %.7g): every decimal exponent of a float x mantissas of 1 and 7 digits x sign, and the ends of the type
	{
		static const char* MF[] = { "1", "1.234567", "9.999999", "5.000001" };
		for (int e = -46; e <= 38; e++)
			for (int m = 0; m < (T ? 4 : 3); m++)
				for (int sg = 0; sg < 2; sg++) {
					float x = strtof(fmt("%s%se%d", sg ? "-" : "", MF[m], e).c_str(), 0);
					if (x == 0 || x - x != 0) continue;
					add_num(seen, 'f', x);
				}
		static const float F[] = { FLT_MAX, FLT_MIN, 1.401298464324817e-45f, 16777216.0f, 16777215.0f, 0.1f, 1.0f, 0.3333333f, 2147483648.0f, 9999999.0f, 1e7f, 0.0001f, 0.00001f };
		for (size_t i = 0; i < sizeof F / sizeof F[0]; i++)
			for (int sg = 0; sg < 2; sg++) {
				float b = sg ? -F[i] : F[i];
				add_num(seen, 'f', b); add_num(seen, 'f', nextafterf(b, 0.0f));
				if (fabsf(b) < FLT_MAX) add_num(seen, 'f', nextafterf(b, sg ? -HUGE_VALF : HUGE_VALF));
			}
		add_num(seen, 'f', 0.0);
	}
	// (6) not numbers: memory oracle only
	add_num(seen, 'd', NAN); add_num(seen, 'd', HUGE_VAL); add_num(seen, 'd', -HUGE_VAL);
	{ Num n = { 'f', NAN }; NUMS.push_back(n); n.d = HUGE_VAL; NUMS.push_back(n); n.d = -HUGE_VAL; NUMS.push_back(n); }
}

static void run_num(char mode, int C, const Num& n, char cfg, char rd) {
	std::string kase = fmt("num:%c:%d:%c:%s:%c%c", mode, C, n.kind, num_value_str(n).c_str(), cfg, rd);
	vf::cur(kase);
	vf::add(C_EVAL); vf::add(C_DISTINCT);
	vf::add(W_NS_TABLES);
	bool finite = n.d - n.d == 0;
	std::string written = fmt(num_prec(n), n.d);
	// the 15 digits of the doubles from 1.797693134862315e308 to DBL_MAX round up to 1.79769313486232e+308, which is more than DBL_MAX: the digits written denote no double,
	// no reader can return them, nothing is demanded (reference: strtod of the digits is infinite)
	if (finite && strtod(written.c_str(), 0) - strtod(written.c_str(), 0) != 0) { finite = false; vf::add(W_NS_UNREPRESENTABLE); }
	std::string cls = num_class(n);
	if (mode == 'A') vf::add(W_NS_ARRAYS);
	if (C == 2) vf::add(W_NS_TWOCOL);
	if (n.d - n.d != 0) vf::add(W_NS_NONFINITE);
	if (finite) {
		if (cls == "_above_float_range") vf::add(W_NS_ABOVE_FLOAT); else if (cls == "_below_float_range") vf::add(W_NS_BELOW_FLOAT); else if (cls == "_subnormal") vf::add(W_NS_SUBNORMAL);
		if (n.kind == 'i') vf::add(W_NS_INT); else if (n.kind == 'f') vf::add(W_NS_FLOAT); else if (n.kind == 'l') vf::add(W_NS_LONG);
		size_t ep = written.find('e');
		if (ep != std::string::npos && written.size() - ep == 5) vf::add(W_NS_EXP3);
		if (ep == std::string::npos && fabs(n.d) < 0.001 && n.d != 0) vf::add(W_NS_FIXED_SMALL);
		if (n.d < 0) vf::add(W_NS_NEGATIVE);
		if (cfg == 'S' && written.find('.') != std::string::npos) vf::add(W_NS_DECIMAL_COMMA);
		if (n.kind != 'f' && fabs(n.d) > 9007199254740992.0 && fabs(n.d) < 2e19 && n.d == floor(n.d)) vf::add(W_NS_INT_ABOVE_2_53);
		if (fabs(n.d) == 1.79769313486231e308 || fabs(n.d) == ldexp(1.0, -1074)) vf::add(W_NS_DBL_EXTREME);
		if (cfg != 'D' && rd == 'a') vf::add(W_NS_AUTO_NONDEFAULT);
	}
	std::string sfx = cls + (cfg == 'S' ? "_semicolon" : cfg == 'T' ? "_tab" : "");
	std::string path = scratch_file("csv");
	remove(path.c_str());
	vf::asan_clear();
	{
		TabularDataFile f(vfx::A(path));
		csv_configure(f, cfg);
		Array<String> cols;
		for (int c = 0; c < C; c++) cols << vfx::A(fmt("c%d", c));
		f.columns(cols);
		if (!f.ok()) { fprintf(stderr, "c18: cannot write scratch file %s\n", path.c_str()); _exit(2); }
		for (int r = 0; r < 2; r++) {
			Array<Var> row;
			if (C == 1) row << num_var(n);
			else if (r == 0) row << num_var(n) << Var(vfx::A(","));
			else row << Var(1) << num_var(n);
			if (mode == 'A') f << Var(row);
			else for (int c = 0; c < C; c++) f << row[c];
		}
	}
	if (vf::asan_tripped()) { report("csv_asan_sweep" + sfx, "ASan " + vf::asan_what() + " while writing a table with the cell " + num_show(n), kase); vf::asan_clear(); }
	std::string raw; slurp(path, raw);
	std::vector<std::vector<Var> > got, byname;
	{
		TabularDataFile g(vfx::A(path));
		if (rd == 's') csv_configure(g, cfg);
		if (C == 1) {
			Array<Array<Var> > d = g.data();
			for (int r = 0; r < d.length(); r++) { got.push_back(std::vector<Var>()); for (int c = 0; c < d[r].length(); c++) got.back().push_back(d[r][c]); }
		}
		else while (g.nextRow()) {
			got.push_back(std::vector<Var>()); byname.push_back(std::vector<Var>());
			int k = g.row().length();
			for (int c = 0; c < k; c++) got.back().push_back(g[c]);
			for (int c = 0; c < C; c++) byname.back().push_back(g[vfx::A(fmt("c%d", c))]);
		}
	}
	if (vf::asan_tripped()) { report("csv_asan_sweep" + sfx, "ASan " + vf::asan_what() + " while reading back a table with the cell " + num_show(n) + "; file " + show(raw), kase); vf::asan_clear(); }
	if (!finite) return; // nothing is demanded of a table that holds a cell that is not a number (or whose digits denote none)
	if ((int)got.size() != 2) { report("csv_rows_sweep" + sfx, fmt("2 rows written, %d rows read back; cell %s; file ", (int)got.size(), num_show(n).c_str()) + show(raw), kase); return; }
	for (int r = 0; r < 2; r++) {
		if ((int)got[r].size() != C) { report("csv_cols_sweep" + sfx, fmt("row %d written with %d cells is read back with %d cells; cell %s; file ", r, C, (int)got[r].size(), num_show(n).c_str()) + show(raw), kase); return; }
		for (int c = 0; c < C; c++)
			for (int via = 0; via < (byname.empty() ? 1 : 2); via++) {
				const Var& v = via ? byname[r][c] : got[r][c];
				bool isx = C == 1 || r == c; // the swept cell is at (0,0) and (1,1); (0,1) holds the string "," and (1,0) the number 1
				std::string gs = v.is(Var::NUMBER) ? fmt("number %.17g", (double)v) : v.is(Var::STRING) ? std::string("string <") + *v + ">" : fmt("a value of type %d", (int)v.type());
				bool ok;
				std::string want;
				if (isx) {
					vf::add(W_NS_CELLS);
					// numbers must agree to the digits the writer prints: 15 significant digits (7 for a Var(float))
					// (a zero must read back as zero: the sign of a zero is no digit, -0.0 may come back as 0)
					ok = v.is(Var::NUMBER) && (n.d == 0 ? (double)v == 0 : fmt(num_prec(n), (double)v) == written);
					want = num_show(n);
				}
				else if (r == 0) { ok = v.is(Var::STRING) && std::string(*v) == ","; want = "string <,>"; }
				else { ok = v.is(Var::NUMBER) && (double)v == 1; want = "number 1"; }
				if (!ok) {
					report((isx ? "csv_number_sweep" : "csv_neighbour_sweep") + sfx, fmt("cell (%d,%d)%s written as %s is read back as %s; file ", r, c, via ? " (by column name)" : "", want.c_str(), gs.c_str()) + show(raw), kase);
					return;
				}
			}
	}
}
static bool parse_num_case(const std::string& k) {
	std::vector<std::string> f;
	size_t p = 0;
	while (true) { size_t e = k.find(':', p); f.push_back(k.substr(p, e == std::string::npos ? std::string::npos : e - p)); if (e == std::string::npos) break; p = e + 1; }
	if (f.size() != 6 || f[1].size() != 1 || f[2].size() != 1 || f[3].size() != 1 || f[5].size() != 2) return false;
	if ((f[1] != "C" && f[1] != "A") || (f[2] != "1" && f[2] != "2") || !strchr("dfil", f[3][0]) || !strchr("DST", f[5][0]) || !strchr("as", f[5][1])) return false;
	char* end = 0;
	Num n = { f[3][0], strtod(f[4].c_str(), &end) };
	if (!end || *end || f[4].empty()) return false;
	if (n.kind == 'i' && !(n.d >= -2147483648.0 && n.d <= 2147483647.0)) return false;
	if (n.kind == 'l' && !(n.d >= -9223372036854775808.0 && n.d < 9223372036854775808.0)) return false;
	run_num(f[1][0], f[2][0] - '0', n, f[5][0], f[5][1]);
	return true;
}
// every number of the list x {1 column, 2 columns} x {cell-wise, arrays} x every writer configuration x reader
#ifndef C18_DEEP
static void csv_number_sweep() {
	if (vf::deadline_passed()) { vf::cap_hit("deadline before the CSV number sweep"); return; }
	double t0 = vf::now_s(), c0 = cpu_children();
	vf::parallel(NUMS.size(), [&](uint64_t i) {
		if (vf::deadline_passed()) { static bool said = false; if (!said) { said = true; vf::cap_hit("deadline inside the CSV number sweep"); } return; }
		for (int C = 1; C <= 2; C++)
			for (const char* cb = "DaSaSsTaTs"; cb[0] && cb[1]; cb += 2) {
				// a one-column file contains no separator: an unconfigured reader cannot learn the writer's dialect from it, which the statement does not demand
				if (C == 1 && cb[0] != 'D' && cb[1] == 'a') continue;
				run_num('C', C, NUMS[i], cb[0], cb[1]);
				run_num('A', C, NUMS[i], cb[0], cb[1]);
			}
	}, 8);
	family_done(fmt("csv_number_sweep_%d_numbers", (int)NUMS.size()), t0, c0);
}
#endif

// =============================================================================================== driver
static void run_case(const std::string& k) {
	if (k.compare(0, 4, "ini:") == 0) { IniCase c; if (parse_ini_case(k, c)) run_ini(c); else fprintf(stderr, "c18: cannot parse case %s\n", k.c_str()); }
	else if (k.compare(0, 4, "csv:") == 0) {
		std::vector<std::string> f;
		size_t p = 0;
		while (true) { size_t e = k.find(':', p); f.push_back(k.substr(p, e == std::string::npos ? std::string::npos : e - p)); if (e == std::string::npos) break; p = e + 1; }
		int R = 0, C = 0;
		if (f.size() < 4 || f[1].size() != 1 || sscanf(f[2].c_str(), "%dx%d", &R, &C) != 2 || (int)f[3].size() != R * C) { fprintf(stderr, "c18: cannot parse case %s\n", k.c_str()); return; }
		for (size_t i = 0; i < f[3].size(); i++) if (f[3][i] < 'a' || f[3][i] >= 'a' + NCELLS) { fprintf(stderr, "c18: cannot parse case %s\n", k.c_str()); return; }
		char cfg = f.size() > 4 && f[4].size() == 2 ? f[4][0] : 'D', rd = f.size() > 4 && f[4].size() == 2 ? f[4][1] : 'a';
		run_csv(f[1][0], R, C, f[3], cfg, rd);
	}
	else if (k.compare(0, 4, "num:") == 0) { if (!parse_num_case(k)) fprintf(stderr, "c18: cannot parse case %s\n", k.c_str()); }
}

#ifdef C18_DEEP
static const char* PART = "c18_deep";
#define OTHER_PART_W "not_in_this_part." // witnesses of branches only the ASan part c18_inicsv exercises
#define DEEP_ONLY_W "w."                // witnesses of families only this part enumerates
#else
static const char* PART = "c18_inicsv";
#define OTHER_PART_W "w."
#define DEEP_ONLY_W "not_in_this_part."
#endif

// ---- text sets: every text of nlmin..nl lines over an alphabet of line letters, or a fixed list of texts
struct TextSet {
	std::string alpha; int nlmin, nl;
	std::vector<std::string> fixed;
	std::vector<uint64_t> start;
	uint64_t n;
	TextSet(const char* a, int lo, int hi) : alpha(a), nlmin(lo), nl(hi), n(0) {
		uint64_t pw = 1;
		for (int l = 0; l <= nl; l++) { start.push_back(n); if (l >= nlmin) n += pw; pw *= alpha.size(); }
		start.push_back(n);
	}
	explicit TextSet(const std::vector<std::string>& f) : nlmin(0), nl(0), fixed(f), n(f.size()) {}
	void get(uint64_t ti, std::vector<int>& lines) const {
		lines.clear();
		if (!fixed.empty()) { for (size_t i = 0; i < fixed[ti].size(); i++) lines.push_back(line_index(fixed[ti][i])); return; }
		int len = 0; while (start[len + 1] <= ti) len++;
		uint64_t x = ti - start[len];
		for (int j = 0; j < len; j++) { lines.push_back(line_index(alpha[x % alpha.size()])); x /= alpha.size(); }
	}
	std::string name() const { return fixed.empty() ? fmt("lines%d-%d_alpha%d", nlmin, nl, (int)alpha.size()) : fmt("fixed%d", (int)fixed.size()); }
};
// eolmask: bit 0 = LF + final newline, 1 = CRLF + final newline, 2 = LF without final newline, 3 = CRLF without final newline
enum { EOL_ALL = 15, EOL_LF = 5 };
static void for_each_text(const TextSet& ts, int eolmask, int chunk, const std::string& tag, const std::function<void(IniCase&)>& body) {
	if (vf::deadline_passed()) { vf::cap_hit("deadline before INI family " + tag); return; }
	double t0 = vf::now_s(), c0 = cpu_children();
	vf::parallel(ts.n * 4, [&](uint64_t it) {
		if (vf::deadline_passed()) { static bool said = false; if (!said) { said = true; vf::cap_hit("deadline inside INI enumeration"); } return; }
		uint64_t ti = it / 4; int var = (int)(it % 4);
		if (!(eolmask >> var & 1)) return;
		IniCase c; c.crlf = (var & 1) != 0; c.finalnl = (var & 2) == 0;
		ts.get(ti, c.lines);
		size_t len = c.lines.size();
		if (len == 0 && (!c.finalnl || c.crlf)) return;   // "" once: with 0 lines all variants coincide
		if (len == 1 && c.crlf && !c.finalnl) return;      // a single unterminated line has no line ending to vary
		body(c);
	}, chunk);
	family_done("ini_" + tag, t0, c0);
}

// Plan: every text of the set x every history of kmin..k ops x every way of writing in `modes`
//  D destructor only; W write() after the last set, destructor later; P write() after every proper prefix of the history;
//  O write(otherPath) after the last set; R IniFile(path,false) + write() after the last set; B operator[] + destructor; b operator[] + write()
//  opsel 0: all 15 ops; 1: the 10 ops with non-empty values; 2: only histories with at least one empty value (complement of 1)
struct Plan { const char* tag; TextSet ts; int eolmask; int kmin, k; int opsel; const char* modes; int chunk; };
static void ini_modes(IniCase& c, const char* modes) {
	int len = (int)c.ops.size();
	for (const char* m = modes; *m; m++) {
		c.other = c.noauto = c.viaIndex = false;
		switch (*m) {
		case 'D': c.wpos = -1; run_ini(c); break;
		case 'W': c.wpos = len; run_ini(c); break;
		case 'P': for (int w = 0; w < len; w++) { c.wpos = w; run_ini(c); } break;
		case 'O': if (len > 0) { c.other = true; c.wpos = len; run_ini(c); } break;
		case 'R': c.noauto = true; c.wpos = len; run_ini(c); break;
		case 'B': if (len > 0) { c.viaIndex = true; c.wpos = -1; run_ini(c); } break;
		case 'b': if (len > 0) { c.viaIndex = true; c.wpos = len; run_ini(c); } break;
		}
	}
	c.other = c.noauto = c.viaIndex = false;
}
static void ini_plan(const Plan& pl) {
	int nops = pl.opsel == 1 ? NOPS_NONEMPTY : NOPS;
	std::string tag = std::string(pl.tag) + "_" + pl.ts.name() + fmt("_sets%d-%d_%s", pl.kmin, pl.k, pl.modes) + (pl.opsel == 1 ? "_nonempty" : pl.opsel == 2 ? "_emptyvalues" : "");
	for_each_text(pl.ts, pl.eolmask, pl.chunk, tag, [&](IniCase& c) {
		uint64_t n = 1;
		for (int len = 0; len <= pl.k; len++, n *= nops) {
			if (len < pl.kmin) continue;
			for (uint64_t i = 0; i < n; i++) {
				c.ops.clear();
				uint64_t x = i;
				bool hasEmpty = false;
				for (int j = 0; j < len; j++) { c.ops.push_back((int)(x % nops)); if (c.ops.back() >= NOPS_NONEMPTY) hasEmpty = true; x /= nops; }
				if (pl.opsel == 2 && !hasEmpty) continue;
				ini_modes(c, pl.modes);
			}
		}
	});
}
// histories of 20 sets (step 1 and 3 through the 15 ops from every starting op: every name gets every value incl. "") with a write() at the given positions
static void ini_macros(const char* tag0, const TextSet& ts, int eolmask, const std::vector<int>& wpos, int rotstep = 1) {
	for_each_text(ts, eolmask, 1, std::string(tag0) + "_20set_macros_" + ts.name(), [&](IniCase& c) {
		for (int step = 1; step <= 3; step += 2)
			for (int rot = 0; rot < NOPS; rot += rotstep) {
				c.ops.clear();
				for (int i = 0; i < 20; i++) c.ops.push_back((rot + i * step) % NOPS);
				for (size_t w = 0; w < wpos.size(); w++) { c.wpos = wpos[w]; run_ini(c); }
			}
	});
}
// fixed long texts: more lines than the 16 IniFile reserves, exactly 16 / 15 lines (insertions cross the capacity), lines of 254 and 300 characters
static std::vector<std::string> long_texts() {
	std::vector<std::string> t;
	t.push_back("02571346890257134689");       // 20 lines, every line of the alphabet twice (repeated sections and keys)
	t.push_back("52075130457981246");          // 17
	t.push_back("0257134257713468");           // 16
	t.push_back("257013425771346");            // 15
	t.push_back("2222222222222222222222");     // 22 times the same entry
	t.push_back("0777777777777777771");        // a header, 17 blank lines, a header
	t.push_back("A");                          // one comment of 254 characters
	t.push_back("B");                          // one entry of 300 characters
	t.push_back("0A2B5");
	t.push_back("5A0B2A1B3AB77AB");
	return t;
}

// every table of R x C cells over the alphabet (cell letters), written cell-wise and as arrays, in the writer configurations x readers of `combos` ("Da","Sa","Ss","Ta","Ts")
static void csv_shape(int R, int C, const char* alpha, const char* combos) {
	int n = R * C, A = (int)strlen(alpha);
	uint64_t total = 1; for (int i = 0; i < n; i++) total *= A;
	const uint64_t CH = 64;
	if (vf::deadline_passed()) { vf::cap_hit(fmt("deadline before CSV shape %dx%d", R, C)); return; }
	double t0 = vf::now_s(), c0 = cpu_children();
	vf::parallel((total + CH - 1) / CH, [&](uint64_t blk) {
		if (vf::deadline_passed()) { static bool said = false; if (!said) { said = true; vf::cap_hit("deadline inside CSV enumeration"); } return; }
		for (uint64_t i = blk * CH; i < (blk + 1) * CH && i < total; i++) {
			std::string cells; uint64_t x = i;
			for (int j = 0; j < n; j++) { cells += alpha[x % A]; x /= A; }
			for (const char* cb = combos; cb[0] && cb[1]; cb += 2) {
				// a one-column file contains no separator: an unconfigured reader cannot learn the writer's dialect from it, which the statement does not demand
				if (C == 1 && cb[0] != 'D' && cb[1] == 'a') continue;
				run_csv('C', R, C, cells, cb[0], cb[1]);
				run_csv('A', R, C, cells, cb[0], cb[1]);
			}
		}
	}, 4);
	family_done(fmt("csv_%dx%d_alpha%d_%s", R, C, A, combos), t0, c0);
}
static const char ALLCOMBOS[] = "DaSaSsTaTs";

int main(int argc, char** argv) {
	vf::init(argc, argv, "C18", PART);
	init_lines(); init_cells(); init_report();
	C_EVAL = vf::counter("evaluations"); C_DISTINCT = vf::counter("distinct_nontrivial"); C_UNLISTED = vf::counter("failing_cases_beyond_the_8_listed_per_signature");
	W_NOEOL = vf::counter("w.ini_text_without_final_newline"); W_NOEOL_ENTRY_LAST = vf::counter("w.ini_last_line_is_entry_without_newline"); W_CRLF = vf::counter("w.ini_crlf_text");
	W_NEWSEC = vf::counter("w.ini_set_creates_section"); W_NEWKEY = vf::counter("w.ini_set_adds_key_to_existing_section"); W_CHANGED = vf::counter("w.ini_set_changes_existing_value");
	W_SAMEVAL = vf::counter("w.ini_set_same_value"); W_BARE = vf::counter("w.ini_set_under_bare_name");
	// where the library puts a bare name is its own rule (see IniCheck::resolve): counted for information, not as witnesses that must be non-zero
	W_BARE_TOP = vf::counter("lib.ini_bare_name_addressed_top_level"); W_BARE_SEC = vf::counter("lib.ini_bare_name_addressed_a_section");
	W_REWRITTEN = vf::counter("w.ini_file_rewritten"); W_NOTREWRITTEN = vf::counter("w.ini_file_left_alone"); W_UNTOUCHED = vf::counter("w.ini_untouched_values_checked");
	W_COMMENTS = vf::counter("w.ini_comment_lines_checked"); W_SETCHECKS = vf::counter("w.ini_set_values_checked"); W_DUPSEC = vf::counter("w.ini_repeated_section_header");
	W_EXPLICIT = vf::counter("w.ini_explicit_write"); W_MIDWRITE = vf::counter("w.ini_write_then_more_sets"); W_TOPKEYS = vf::counter("w.ini_entries_before_first_header");
	W_LONGHIST = vf::counter(OTHER_PART_W "ini_histories_longer_than_3"); W_INDENTED = vf::counter("w.ini_first_entry_indented");
	W_EMPTYVAL = vf::counter("w.ini_set_empty_value"); W_VALEQ = vf::counter("w.ini_value_containing_equals_sign"); W_COMMENTEQ = vf::counter("w.ini_comment_containing_equals_sign");
	W_INDENTCOMMENT = vf::counter("w.ini_indented_comment"); W_DUPKEYDIFF = vf::counter("w.ini_entry_defined_twice_with_different_values");
	W_TWOSECDIFF = vf::counter("w.ini_same_key_in_two_sections_with_different_values");
	W_OTHERPATH = vf::counter("w.ini_write_to_other_path"); W_NOAUTO = vf::counter("w.ini_no_autosave_then_write"); W_VIAINDEX = vf::counter("w.ini_assigned_through_index_operator");
	W_VIAINDEX_CHANGED = vf::counter("w.ini_index_operator_changes_existing_value");
	W_MANYLINES = vf::counter(OTHER_PART_W "ini_text_of_more_than_16_lines"); W_GROWLINES = vf::counter(OTHER_PART_W "ini_insertions_beyond_16_lines"); W_LONGLINE = vf::counter(OTHER_PART_W "ini_line_of_254_or_more_characters");
	W_STRUCT5 = vf::counter(DEEP_ONLY_W "ini_text_of_5_lines");
	W_CSV_QUOTED = vf::counter("w.csv_cells_needing_quotes"); W_CSV_NUM = vf::counter("w.csv_number_cells"); W_CSV_EMPTY = vf::counter("w.csv_empty_cells");
	W_CSV_ARRAY = vf::counter("w.csv_tables_written_as_arrays"); W_CSV_CELLWISE = vf::counter("w.csv_tables_written_cellwise"); W_CSV_BIG = vf::counter(OTHER_PART_W "csv_shape_macros");
	W_CSV_CELLS = vf::counter("w.csv_cells_compared"); W_CSV_SEMI = vf::counter("w.csv_cells_containing_semicolon"); W_CSV_BYNAME = vf::counter(OTHER_PART_W "csv_cells_read_by_column_name");
	W_CSV_CFG_SEMI = vf::counter("w.csv_written_with_semicolon_separator_and_decimal_comma"); W_CSV_CFG_TAB = vf::counter("w.csv_written_with_tab_separator");
	W_CSV_AUTO_NONDEFAULT = vf::counter("w.csv_nondefault_dialect_read_by_autodetection"); W_CSV_READER_CONFIGURED = vf::counter("w.csv_nondefault_dialect_read_by_configured_reader");
	W_CSV_PLUSEXP = vf::counter("w.csv_number_with_plus_exponent"); W_CSV_FRACTION15 = vf::counter("w.csv_number_with_15_fraction_digits"); W_CSV_DECIMAL_COMMA = vf::counter("w.csv_fraction_written_with_decimal_comma");
	W_CSV_FLOAT = vf::counter(OTHER_PART_W "csv_float_cells"); W_CSV_HEAPSTR = vf::counter(OTHER_PART_W "csv_string_cells_of_8_or_more_characters"); W_CSV_LONGLINE = vf::counter(OTHER_PART_W "csv_line_of_255_or_more_characters");
	W_CSV_SIX = vf::counter(DEEP_ONLY_W "csv_tables_of_six_cells");
	W_NS_TABLES = vf::counter(OTHER_PART_W "csv_sweep_tables"); W_NS_CELLS = vf::counter(OTHER_PART_W "csv_sweep_number_cells_compared");
	W_NS_ABOVE_FLOAT = vf::counter(OTHER_PART_W "csv_sweep_finite_double_above_FLT_MAX"); W_NS_BELOW_FLOAT = vf::counter(OTHER_PART_W "csv_sweep_normal_double_that_narrows_to_float_zero");
	W_NS_SUBNORMAL = vf::counter(OTHER_PART_W "csv_sweep_subnormal_double"); W_NS_EXP3 = vf::counter(OTHER_PART_W "csv_sweep_three_digit_exponent");
	W_NS_INT = vf::counter(OTHER_PART_W "csv_sweep_int_typed_cell"); W_NS_FLOAT = vf::counter(OTHER_PART_W "csv_sweep_float_typed_cell"); W_NS_LONG = vf::counter(OTHER_PART_W "csv_sweep_long_typed_cell");
	W_NS_NEGATIVE = vf::counter(OTHER_PART_W "csv_sweep_negative_number"); W_NS_DECIMAL_COMMA = vf::counter(OTHER_PART_W "csv_sweep_written_with_decimal_comma");
	W_NS_NONFINITE = vf::counter(OTHER_PART_W "csv_sweep_nan_or_infinity_memory_oracle_only"); W_NS_TWOCOL = vf::counter(OTHER_PART_W "csv_sweep_two_column_tables");
	W_NS_ARRAYS = vf::counter(OTHER_PART_W "csv_sweep_written_as_arrays"); W_NS_FIXED_SMALL = vf::counter(OTHER_PART_W "csv_sweep_fixed_notation_below_0_001");
	W_NS_INT_ABOVE_2_53 = vf::counter(OTHER_PART_W "csv_sweep_integer_above_2_53"); W_NS_DBL_EXTREME = vf::counter(OTHER_PART_W "csv_sweep_largest_15_digit_double_or_smallest_subnormal");
	W_NS_AUTO_NONDEFAULT = vf::counter(OTHER_PART_W "csv_sweep_nondefault_dialect_read_by_autodetection");
	W_NS_UNREPRESENTABLE = vf::counter(OTHER_PART_W "csv_sweep_15_digits_exceed_DBL_MAX_memory_oracle_only");
	if (vf::opt.replay) { vf::parallel(1, [&](uint64_t) { run_case(vf::opt.kase); }); return vf::finish(); }
	bool T = vf::opt.thorough();
	(void)T;

#ifdef C18_DEEP
	// the large products, built without sanitizer (value and order oracles only; the ASan part covers the smaller spaces)
	{ Plan p = { "d1", TextSet(FULL10, 0, 3), EOL_ALL, 0, 2, 0, "D", 4 }; ini_plan(p); }        // full alphabet, texts <= 3 lines x histories <= 2 over all 15 ops
	{ Plan p = { "d1b", TextSet(FULL10, 4, 4), EOL_LF, 0, 2, 0, "D", 4 }; ini_plan(p); }        // 4-line texts (LF; the CRLF variants with histories <= 1 are in the ASan part)
	{ Plan p = { "d2", TextSet(STRUCT6, 5, 5), EOL_LF, 0, 2, 0, "D", 2 }; ini_plan(p); }        // structural alphabet, 5-line texts x histories <= 2
	{ Plan p = { "d3", TextSet(STRUCT7, 3, 3), EOL_ALL, 3, 3, 0, "D", 1 }; ini_plan(p); }       // structural alphabet, 3-line texts x histories of 3 sets
	{ Plan p = { "d4", TextSet(STRUCT7, 0, 2), EOL_ALL, 3, 3, 0, "DW", 1 }; ini_plan(p); }      // texts <= 2 lines x histories of 3 sets, also write() + destructor
	{ Plan p = { "d5", TextSet(FULL10, 0, 3), EOL_LF, 2, 2, 0, "PORb", 2 }; ini_plan(p); }      // the other ways of writing on histories of 2 sets
	{ Plan p = { "d6", TextSet(FULL10, 3, 3), EOL_ALL, 2, 2, 0, "W", 2 }; ini_plan(p); }        // full alphabet, 3-line texts x histories of 2 sets, write() + destructor
	csv_shape(3, 2, CSV9, "DaSsTa");
	csv_shape(2, 3, CSV9, "DaSsTa");
	vf::sample("ini:L:0:-1:01245:jf = 5-line text \"[a]\\n[ab]\\nx=1\\n  z=3\\n# c\" (no final newline), set(\"x\",\"w w\"); set(\"ab/y\",\"w w\"); ~IniFile()");
	vf::sample("ini:C:1:-1:5790:kb = text \"# c\\r\\n\\r\\nx=5\\r\\n[a]\\r\\n\", set(\"a/x\",\"\"); set(\"a/x\",\"w w\"); ~IniFile()");
	vf::sample("csv:A:3x2:<every one of 9^6 tables> written as arrays and cell by cell in the default, ';' (reader configured) and tab (reader unconfigured) configurations, read back with data()");
	return vf::finish();
#else
	// ---------------- INI (a): the core products
	{ Plan p = { "a1", TextSet(FULL10, 0, 3), EOL_ALL, 0, 1, 0, "DWRB", 8 }; ini_plan(p); }     // full alphabet, texts <= 3 lines x histories <= 1 x {destructor, write(), no autosave, operator[]}
	{ Plan p = { "a2", TextSet(FULL10, 0, 2), EOL_ALL, 1, 1, 0, "Ob", 8 }; ini_plan(p); }       // texts <= 2 lines x 1 set x {write(otherPath), operator[] + write()}
	{ Plan p = { "a3", TextSet(FULL10, 0, 2), EOL_ALL, 2, 2, 0, "DW", 2 }; ini_plan(p); }       // texts <= 2 lines x histories of 2 sets
	{ Plan p = { "a4", TextSet(FULL10, 0, 1), EOL_ALL, 2, 2, 0, "PORBb", 1 }; ini_plan(p); }    // texts <= 1 line x histories of 2 sets x the other ways of writing (write() after every prefix, ...)
	{ Plan p = { "a5", TextSet(STRUCT7, 3, 3), EOL_LF, 2, 2, 0, "D", 2 }; ini_plan(p); }        // structural alphabet, 3-line texts x histories of 2 sets
	{ Plan p = { "a6", TextSet(STRUCT7, 4, 4), EOL_LF, 0, 1, 0, "D", 8 }; ini_plan(p); }        // structural alphabet, 4-line texts x histories <= 1
	if (T) {
		{ Plan p = { "t1", TextSet(FULL10, 4, 4), EOL_ALL, 0, 1, 0, "D", 8 }; ini_plan(p); }    // full alphabet, 4-line texts x histories <= 1
		{ Plan p = { "t2", TextSet(FULL10, 3, 3), EOL_LF, 2, 2, 0, "D", 2 }; ini_plan(p); }     // full alphabet, 3-line texts x histories of 2 sets
		{ Plan p = { "t3", TextSet(FULL10, 0, 1), EOL_ALL, 3, 3, 0, "DP", 1 }; ini_plan(p); }   // texts <= 1 line x histories of 3 sets, write() after every prefix
		{ Plan p = { "t4", TextSet(FULL10, 3, 3), EOL_ALL, 1, 1, 0, "Ob", 8 }; ini_plan(p); }   // 3-line texts too for write(otherPath) and operator[] + write()
	}
	// ---------------- INI (b): histories of 20 sets with a write() after 0..20 of them
	{
		static const int wpA[] = { -1, 10, 20 }, wpB[] = { 0, 1, 19 };
		ini_macros("b", TextSet(FULL10, 0, T ? 3 : 2), EOL_ALL, std::vector<int>(wpA, wpA + 3));
		if (T) ini_macros("b2", TextSet(FULL10, 0, 2), EOL_ALL, std::vector<int>(wpB, wpB + 3));
	}
	// ---------------- INI (c): fixed long texts (more than 16 lines; lines of 254 and 300 characters) x histories <= 2 x {destructor, write()} and the 20-set macros
	{
		TextSet lt(long_texts());
		{ Plan p = { "c", lt, EOL_ALL, 0, 2, 0, "DWR", 1 }; ini_plan(p); }
		std::vector<int> wp; wp.push_back(-1); wp.push_back(10); wp.push_back(20);
		ini_macros("c", lt, EOL_ALL, wp, T ? 1 : 5);
	}
	// ---------------- CSV (a): every table of the small shapes, in every writer configuration x reader
	csv_shape(1, 1, CSV19, ALLCOMBOS); csv_shape(1, 2, CSV19, ALLCOMBOS); csv_shape(2, 1, CSV19, ALLCOMBOS);
	csv_shape(3, 1, CSV15, ALLCOMBOS); csv_shape(1, 3, CSV15, ALLCOMBOS);
	csv_shape(2, 2, CSV15, T ? ALLCOMBOS : "DaSaTs");
	// ---------------- CSV (n): the magnitude of number cells: a list that spans the range of double / float / int / Long, one number per table
	init_nums(T);
	csv_number_sweep();
	// ---------------- CSV (b): shape macros: every shape up to 30x8, 19 diagonal fills + 19 mostly-uniform fills
	// (quick: the non-default configurations with 3 of the diagonal fills only)
	{
		double t0 = vf::now_s(), c0 = cpu_children();
		vf::parallel(30 * 8, [&](uint64_t i) {
			int R = (int)(i / 8) + 1, C = (int)(i % 8) + 1;
			for (int p = 0; p < 2 * NCELLS; p++) {
				std::string cells;
				for (int r = 0; r < R; r++) for (int c = 0; c < C; c++) cells += char('a' + (p < NCELLS ? (r * C + c + p) % NCELLS : ((r + c) % 5 == 0 ? (p + r + c) % NCELLS : p - NCELLS)));
				for (const char* cb = ALLCOMBOS; cb[0]; cb += 2) {
					if (C == 1 && cb[0] != 'D' && cb[1] == 'a') continue;
					if (!T && cb[0] != 'D' && !(p == 0 || p == 6 || p == 13)) continue;
					run_csv('C', R, C, cells, cb[0], cb[1]);
					run_csv('A', R, C, cells, cb[0], cb[1]);
				}
			}
		});
		family_done("csv_shape_macros", t0, c0);
	}

	vf::sample("ini:L:0:-1:0235:- = text \"[a]\\nx=1\\ny = a=b\\n# c\" (no final newline), no set(), destructor; fresh IniFile must return a/x=1, a/y=a=b; raw order [entry a/x, entry a/y, comment '# c']");
	vf::sample("ini:C:1:2:2104:di = text \"x=1\\r\\n[ab]\\r\\n[a]\\r\\n  z=3\\r\\n\", set(\"a/n\",\"w w\"); set(\"x\",\"v\"); write(); ~IniFile(): fresh must return x=v (top level), a/n=w w, a/z=3");
	vf::sample("ini:L:1:1:068:c:o = text \"[a]\\n; x=9\\n  # c\\n\", set(\"a/n\",\"v\"); write(otherPath): the other file and, after destruction, the original must both hold a/n=v and both comments");
	vf::sample("ini 20-set histories: set(a/x,v) set(a/x,w w) set(a/n,v) ... cycling over {a/x,a/n,ab/y,c/k,x} x {v,'w w',''} with write() after 0/1/10/19/20 sets");
	vf::sample("csv:C:2x2:gmdk:Ss = rows [\",\", \"\\\"q\\\"\"], [123456789012345, \" \"] written cell by cell with ';' as separator and ',' as decimal, read back with data() by a reader given the same settings");
	vf::sample("num:A:2:d:0x1.f9bd7f5fa3ab8p+997:Ss = rows [1.3219e300-like 15-digit double, \",\"], [1, the same double] written as arrays with ';' and decimal ',', read with nextRow()/[i]/[name] by a reader given the same settings; must read back equal under %.15g");
	vf::sample("csv:A:30x8:<diagonal fill>:Ta = 30 rows x 8 columns over the 19 cells written as arrays with tab separators, read with nextRow()/[i]/[name] by an unconfigured reader");
	return vf::finish();
#endif
}
