// C01 — Array / Stack / Queue as a sequence: explicit-state BFS over operation histories on the real
// containers (several handles, clones, aliasing arguments) against std::vector.
// Systems: array<T>   classic alphabet (deep BFS)
//          arrayx<T>  reduced classic alphabet + pointer-range / initializer-list / comparator-sort / element-write forms
//          nest       Array<Node> where Node holds an Array<Node>: arguments that live inside an element of the same array
//          stackq<T>  Stack (two handles) and Queue
//          sort<T>    every value sequence up to a length through sort(), sort(less), sortBy(key, asc/desc)
#include <asl/Array.h>
#include <asl/Stack.h>
#include <asl/Queue.h>
#include <asl/String.h>
#include <memory>
#include <set>
#include "vf.h"
#include "aslx.h"
using namespace asl;
using vf::fmt;

// ---------------------------------------------------------------- element types
struct Registry {
	std::set<int> live; int next; int errors; std::string firstError;
	Registry() : next(1), errors(0) {}
	void reset() { live.clear(); next = 1; errors = 0; firstError.clear(); }
	int born() { live.insert(next); return next++; }
	void died(int id) { if (!live.erase(id)) { errors++; if (firstError.empty()) firstError = fmt("destructor ran on an element that is not live (id %d)", id); } }
};
static Registry reg;

struct Tracked {
	int id, v; int* payload;
	Tracked() : id(reg.born()), v(0), payload(new int(0)) {}
	Tracked(int x) : id(reg.born()), v(x), payload(new int(x)) {}
	Tracked(const Tracked& o) : id(reg.born()), v(o.v), payload(new int(*o.payload)) {}
	Tracked& operator=(const Tracked& o) { if (!reg.live.count(id)) { reg.errors++; if (reg.firstError.empty()) reg.firstError = "assignment to an element that is not live"; } v = o.v; *payload = *o.payload; return *this; }
	~Tracked() { reg.died(id); delete payload; }
	bool operator==(const Tracked& o) const { return v == o.v; }
	bool operator!=(const Tracked& o) const { return v != o.v; }
	bool operator<(const Tracked& o) const { return v < o.v; }
};

template <class T> struct Tr;
template <> struct Tr<int> { static int make(int v) { return v; } static int val(const int& x) { return x; } static const char* name() { return "int"; } enum { counted = 0, pod = 1 }; };
template <> struct Tr<Tracked> { static Tracked make(int v) { return Tracked(v); } static int val(const Tracked& x) { return x.v == *x.payload ? x.v : -99; } static const char* name() { return "Tracked"; } enum { counted = 1, pod = 0 }; };
template <> struct Tr<String> {
	// 0 = empty, 1 = short (stored inline in the String object), others = heap payload; String order = value order ("" < "e1" < "element-...2" < ...)
	static String make(int v) { if (v == 0) return String(); if (v == 1) return String("e1"); String s("element-with-heap-payload-"); s += char('0' + v); return s; }
	static int val(const String& x) { if (x.length() == 0) return 0; if (x.length() == 2) return x == "e1" ? 1 : -99; if (x.length() != 27 || !x.startsWith("element-with-heap-payload-")) return -99; return x[26] - '0'; }
	static const char* name() { return "String"; }
	enum { counted = 0, pod = 0 };
};

// ---------------------------------------------------------------- operations
enum Kind { K_NEW, K_NEWN, K_APPEND, K_INSERT, K_APPEND_ALIAS, K_INSERT_ALIAS, K_REMOVE, K_REMOVE2, K_REMOVELAST, K_REMOVEONE, K_REMOVEONE_ALIAS, K_REMOVEIF,
	K_RESIZE, K_RESERVE, K_SORT, K_REVERSED, K_SLICE, K_APPEND_SELF, K_CONCAT_SELF, K_FILTER, K_MAP, K_DUP, K_SELFASSIGN, K_BIG,
	K_CLONE, K_COPYH, K_ASSIGN, K_APPEND_OTHER, K_COPYFROM, K_CONCAT_EMPTY_TO, K_CONCAT_OTHER, K_SLICE_TO, K_FILTER_TO, K_DROP,
	// extended alphabet (system "arrayx" only)
	K_NEWIL, K_APPEND_PTR_SELF, K_APPEND_PTR_OTHER, K_COPY_PTR_SELF, K_COPY_PTR_OTHER, K_NEW_FROM_PTR, K_NEW_FILL, K_APPEND_IL, K_ASSIGN_IL,
	K_SORT_DESC, K_SORTBY, K_REMOVEONE_FROM, K_SET, K_REMOVE_N, K_SLICE_MID };
struct Op { Kind k; int h, j, a; };
enum { FRONT = 0, MID = 1, END = 2 };
enum { R_DEC = 0, R_INC = 1, R_CAP = 2, R_CAP1 = 3, R_ZERO = 4 };
enum { P_FIRST = 0, P_LAST = 1, P_ALL = 2 };

static int W_GROW_MALLOC, W_GROW_REALLOC_RESERVE, W_GROW_INSERT, W_INSERT_SHIFT, W_SHARED_OP, W_ALIAS_OP, W_ALIAS_GROW, W_TWO_OBJECTS, W_CLONE_THEN_MUT, W_ELEMS_DESTROYED;
static int W_CLEAR, W_ITER, W_SLICE_ENUM, W_INDEXOF_FROM, W_APTR_SELF, W_APTR_SELF_GROW, W_APTR_OTHER, W_CPTR_SELF, W_CPTR_OTHER_GROW, W_NEW_PTR, W_NEW_FILL, W_NEW_IL, W_APPEND_IL, W_ASSIGN_IL,
	W_SORT_CMP, W_SORT_CMP_UNSORTED, W_SORTBY_DESC, W_RM1_FROM_FOUND, W_RM1_FROM_SKIPPED, W_RM1_NOTFOUND, W_SET_SHARED, W_SET_SRC_OF_CLONE, W_SET_CLONE_OF_SRC, W_REMOVE_N, W_SLICE_MID,
	W_RMIF_NONE, W_RMIF_ALL, W_DUP_SHARED, W_DUP_UNSHARED,
	W_SQ_SHARED_OP, W_SQ_PUSH_FULL, W_SQ_ALIAS_PUSH_FULL, W_SQ_PUSH_FULL_BIG, W_SQ_PUT_FULL, W_SQ_ALIAS_PUT_FULL, W_SQ_POP3, W_SQ_COPY,
	W_NEST_ASSIGN_LASTREF, W_NEST_ASSIGN_GRAND, W_NEST_APPEND_KIDS_GROW, W_NEST_SHARED_KIDS, W_SORTX_UNSORTED;

template <class T>
struct ArrSys {
	enum { NS = 3, MAXN = 9 };
	std::vector<Op> ops;
	Array<T>* is[NS];
	std::shared_ptr<std::vector<int> > ms[NS];
	bool allowBig, ext;
	int nclassic, wRealloc;
	std::weak_ptr<std::vector<int> > cloneSrc[NS]; // model object a slot was cloned from (witness only)
	ArrSys(bool big, bool ext_ = false) : allowBig(big), ext(ext_), wRealloc(-1) {
		for (int i = 0; i < NS; i++) is[i] = 0;
		for (int h = 0; h < NS; h++) {
			add(K_NEW, h); add(K_NEWN, h);
			add(K_APPEND, h, 0, 1); add(K_APPEND, h, 0, 2);
			add(K_INSERT, h, 0, FRONT); add(K_INSERT, h, 0, MID); add(K_INSERT, h, 0, END);
			add(K_APPEND_ALIAS, h, 0, FRONT); add(K_APPEND_ALIAS, h, 0, END);
			add(K_INSERT_ALIAS, h, 0, FRONT); add(K_INSERT_ALIAS, h, 0, MID);
			add(K_REMOVE, h, 0, FRONT); add(K_REMOVE, h, 0, MID); add(K_REMOVE, h, 0, END); add(K_REMOVE2, h);
			add(K_REMOVELAST, h); add(K_REMOVEONE, h, 0, 1); add(K_REMOVEONE_ALIAS, h); add(K_REMOVEIF, h);
			for (int m = 0; m < 5; m++) add(K_RESIZE, h, 0, m);
			add(K_RESERVE, h); add(K_SORT, h); add(K_REVERSED, h); add(K_SLICE, h, 0, 0); add(K_SLICE, h, 0, 1);
			add(K_APPEND_SELF, h); add(K_CONCAT_SELF, h); add(K_FILTER, h); add(K_MAP, h); add(K_DUP, h); add(K_SELFASSIGN, h);
			add(K_BIG, h, 0, 90); add(K_BIG, h, 0, 600);
			add(K_DROP, h);
			for (int j = 0; j < NS; j++) if (j != h) { add(K_CLONE, h, j); add(K_COPYH, h, j); add(K_ASSIGN, h, j); add(K_APPEND_OTHER, h, j); add(K_COPYFROM, h, j); add(K_CONCAT_EMPTY_TO, h, j); add(K_CONCAT_OTHER, h, j); add(K_SLICE_TO, h, j); add(K_FILTER_TO, h, j); }
		}
		nclassic = (int)ops.size(); // indices below are those of the classic alphabet: old case strings stay valid
		for (int h = 0; h < NS; h++) {
			add(K_NEWIL, h);
			add(K_APPEND_PTR_SELF, h, 0, P_FIRST); add(K_APPEND_PTR_SELF, h, 0, P_LAST); add(K_APPEND_PTR_SELF, h, 0, P_ALL);
			add(K_COPY_PTR_SELF, h, 0, 0); add(K_COPY_PTR_SELF, h, 0, 1);
			add(K_APPEND_IL, h, 0, 0); add(K_APPEND_IL, h, 0, 1); add(K_ASSIGN_IL, h, 0, 0); add(K_ASSIGN_IL, h, 0, 1);
			add(K_SORT_DESC, h); add(K_SORTBY, h, 0, 1); add(K_SORTBY, h, 0, 0);
			add(K_REMOVEONE_FROM, h); add(K_SET, h); add(K_REMOVE_N, h, 0, 0); add(K_REMOVE_N, h, 0, 1); add(K_SLICE_MID, h, 0, 0); add(K_SLICE_MID, h, 0, 1);
			for (int j = 0; j < NS; j++) if (j != h) { add(K_APPEND_PTR_OTHER, h, j); add(K_COPY_PTR_OTHER, h, j); add(K_NEW_FROM_PTR, h, j); add(K_NEW_FILL, h, j); }
		}
	}
	// which ops belong to the alphabet of this system
	bool inAlphabet(int op) {
		if (op >= nclassic) return ext;
		if (!ext) return true;
		const Op& o = ops[op];
		switch (o.k) {
		case K_NEW: case K_NEWN: case K_APPEND: case K_DROP: case K_CLONE: case K_COPYH: case K_BIG: case K_DUP: return true;
		case K_INSERT: case K_REMOVE: return o.a == FRONT;
		case K_RESIZE: return o.a == R_DEC || o.a == R_CAP || o.a == R_ZERO;
		default: return false;
		}
	}
	int alphabet() { int c = 0; for (int i = 0; i < nops(); i++) if (inAlphabet(i)) c++; return c; }
	void add(Kind k, int h, int j = 0, int a = 0) { Op o = { k, h, j, a }; ops.push_back(o); }
	int nops() { return (int)ops.size(); }
	void reset() {
		for (int i = 0; i < NS; i++) { delete is[i]; is[i] = 0; ms[i].reset(); cloneSrc[i].reset(); }
		reg.reset();
	}
	int lowestFree() { for (int i = 0; i < NS; i++) if (!ms[i]) return i; return -1; }
	int n(int h) { return (int)ms[h]->size(); }
	bool canGrow(int h, int by = 1) { int x = n(h); return x + by <= MAXN || (allowBig && x >= 90 && x + by <= 93) || (allowBig && x >= 600 && x + by <= 603); }
	bool enabled(int op) {
		if (!inAlphabet(op)) return false;
		const Op& o = ops[op];
		bool live = (bool)ms[o.h];
		switch (o.k) {
		case K_NEW: case K_NEWN: case K_NEWIL: return !live && lowestFree() == o.h; // symmetry: always fill the lowest free slot
		case K_CLONE: case K_COPYH: case K_CONCAT_EMPTY_TO: case K_SLICE_TO: case K_FILTER_TO: return live && !ms[o.j] && lowestFree() == o.j && (o.k == K_CLONE || o.k == K_COPYH || n(o.h) < 50);
		case K_NEW_FROM_PTR: return live && !ms[o.j] && lowestFree() == o.j && n(o.h) < 50;
		case K_NEW_FILL: return live && !ms[o.j] && lowestFree() == o.j && n(o.h) >= 1 && n(o.h) < 50;
		default: break;
		}
		if (!live) return false;
		int N = n(o.h);
		switch (o.k) {
		case K_APPEND: return canGrow(o.h);
		case K_INSERT: return canGrow(o.h) && (o.a != MID || N >= 2);
		case K_APPEND_ALIAS: return N >= 1 && canGrow(o.h) && (o.a == FRONT || N >= 2);
		case K_INSERT_ALIAS: return N >= 2 && canGrow(o.h);
		case K_REMOVE: return N >= 1 && (o.a == FRONT || (o.a == MID && N >= 3) || (o.a == END && N >= 2)) && N < 50;
		case K_REMOVE2: return N >= 2 && N < 50;
		case K_REMOVELAST: return N < 50;
		case K_REMOVEONE: return N < 50;
		case K_REMOVEONE_ALIAS: return N >= 1 && N < 50;
		case K_REMOVEIF: return N >= 1 && N < 50;
		case K_RESIZE:
			if (o.a == R_DEC) return N >= 1;
			if (o.a == R_INC) return canGrow(o.h);
			if (o.a == R_CAP) return is[o.h]->cap() > N && is[o.h]->cap() <= MAXN + 3;
			if (o.a == R_CAP1) return is[o.h]->cap() + 1 <= MAXN + 4 || (allowBig && N >= 90 && is[o.h]->cap() < 700);
			return N >= 1;
		case K_RESERVE: return is[o.h]->cap() <= 2 * MAXN || (allowBig && N >= 90 && is[o.h]->cap() < 700);
		case K_SORT: case K_REVERSED: return N >= 2 && N < 50;
		case K_SLICE: return N >= 2 && N < 50;
		case K_APPEND_SELF: case K_CONCAT_SELF: return N >= 1 && canGrow(o.h, N);
		case K_FILTER: case K_MAP: return N >= 1 && N < 50;
		case K_DUP: case K_SELFASSIGN: return true;
		case K_BIG: return allowBig && N < 50 && N >= 1;
		case K_ASSIGN: return (bool)ms[o.j];
		case K_APPEND_OTHER: return ms[o.j] && n(o.j) >= 1 && canGrow(o.h, n(o.j));
		case K_COPYFROM: return ms[o.j] && n(o.j) < 50;
		case K_CONCAT_OTHER: return ms[o.j] && N < 50 && n(o.j) < 50 && N + n(o.j) <= MAXN;
		case K_DROP: return true;
		case K_APPEND_PTR_SELF: return o.a == P_FIRST ? N >= 1 && canGrow(o.h) : o.a == P_LAST ? N >= 2 && canGrow(o.h) : N >= 1 && canGrow(o.h, N);
		case K_APPEND_PTR_OTHER: return ms[o.j] && n(o.j) >= 1 && n(o.j) < 50 && canGrow(o.h, n(o.j));
		case K_COPY_PTR_SELF: return N >= 2 && N < 50;
		case K_COPY_PTR_OTHER: return ms[o.j] && n(o.j) < 50;
		case K_APPEND_IL: return canGrow(o.h, 2) && (o.a == 0 || N >= 1);
		case K_ASSIGN_IL: return N < 50 && (o.a == 0 || N >= 1);
		case K_SORT_DESC: case K_SORTBY: case K_REMOVEONE_FROM: return N >= 2 && N < 50;
		case K_SET: return N >= 1 && N < 50;
		case K_REMOVE_N: return N < 50 && (o.a == 1 || N >= 3);
		case K_SLICE_MID: return N < 50 && (o.a == 0 ? N >= 2 : N >= 1);
		default: return false;
		}
	}
	int pos(const Op& o, int N) { return o.a == FRONT ? 0 : o.a == END ? N : N / 2; }
	// capacity needed by op (0 = does not grow)
	int needCap(const Op& o) {
		int N = n(o.h), cap = is[o.h]->cap();
		switch (o.k) {
		case K_APPEND: case K_INSERT: case K_APPEND_ALIAS: case K_INSERT_ALIAS: return N + 1;
		case K_RESIZE: return o.a == R_INC ? N + 1 : o.a == R_CAP ? cap : o.a == R_CAP1 ? cap + 1 : 0;
		case K_RESERVE: return cap + 1;
		case K_APPEND_SELF: return 2 * N;
		case K_BIG: return o.a;
		case K_APPEND_OTHER: return N + n(o.j);
		case K_COPYFROM: return n(o.j);
		case K_APPEND_PTR_SELF: return o.a == P_ALL ? 2 * N : N + 1;
		case K_APPEND_PTR_OTHER: return N + n(o.j);
		case K_COPY_PTR_OTHER: return n(o.j);
		case K_APPEND_IL: return N + 2;
		case K_ASSIGN_IL: return 2;
		default: return 0;
		}
	}
	const char* predict(int op) {
		const Op& o = ops[op];
		if (!ms[o.h] || !is[o.h]) return 0;
		int need = needCap(o);
		if (need > is[o.h]->cap() && ms[o.h].use_count() >= 2) return "grow_while_shared";
		return 0;
	}
	std::string opname(int op) {
		const Op& o = ops[op];
		static const char* P[] = { "front", "mid", "end" };
		static const char* R[] = { "n-1", "n+1", "cap", "cap+1", "0" };
		switch (o.k) {
		case K_NEW: return fmt("h%d = Array()", o.h);
		case K_NEWN: return fmt("h%d = Array(2)", o.h);
		case K_APPEND: return fmt("h%d << %d", o.h, o.a);
		case K_INSERT: return fmt("h%d.insert(%s, 3)", o.h, P[o.a]);
		case K_APPEND_ALIAS: return fmt("h%d << h%d[%s]", o.h, o.h, o.a == FRONT ? "0" : "n-1");
		case K_INSERT_ALIAS: return o.a == FRONT ? fmt("h%d.insert(0, h%d[n-1])", o.h, o.h) : fmt("h%d.insert(n/2, h%d[0])", o.h, o.h);
		case K_REMOVE: return fmt("h%d.remove(%s)", o.h, o.a == FRONT ? "0" : o.a == MID ? "n/2" : "n-1");
		case K_REMOVE2: return fmt("h%d.remove(0, 2)", o.h);
		case K_REMOVELAST: return fmt("h%d.removeLast()", o.h);
		case K_REMOVEONE: return fmt("h%d.removeOne(1)", o.h);
		case K_REMOVEONE_ALIAS: return fmt("h%d.removeOne(h%d[n-1])", o.h, o.h);
		case K_REMOVEIF: return fmt("h%d.removeIf(x==2)", o.h);
		case K_RESIZE: return o.a == R_ZERO ? fmt("h%d.clear()", o.h) : fmt("h%d.resize(%s)", o.h, R[o.a]);
		case K_RESERVE: return fmt("h%d.reserve(cap+1)", o.h);
		case K_SORT: return fmt("h%d.sort()", o.h);
		case K_REVERSED: return fmt("h%d = h%d.reversed()", o.h, o.h);
		case K_SLICE: return o.a == 0 ? fmt("h%d = h%d.slice(1)", o.h, o.h) : fmt("h%d = h%d.slice(0, n-1)", o.h, o.h);
		case K_APPEND_SELF: return fmt("h%d.append(h%d)", o.h, o.h);
		case K_CONCAT_SELF: return fmt("h%d = h%d | h%d", o.h, o.h, o.h);
		case K_FILTER: return fmt("h%d = h%d.filter(x!=2)", o.h, o.h);
		case K_MAP: return fmt("h%d = h%d.map((x+1)%%4)", o.h, o.h);
		case K_DUP: return fmt("h%d.dup()", o.h);
		case K_SELFASSIGN: return fmt("h%d = h%d", o.h, o.h);
		case K_BIG: return fmt("h%d.resize(%d)", o.h, o.a);
		case K_CLONE: return fmt("h%d = h%d.clone()", o.j, o.h);
		case K_COPYH: return fmt("h%d = copy-of-handle h%d", o.j, o.h);
		case K_ASSIGN: return fmt("h%d = h%d", o.j, o.h);
		case K_APPEND_OTHER: return fmt("h%d.append(h%d)", o.h, o.j);
		case K_COPYFROM: return fmt("h%d.copy(h%d)", o.h, o.j);
		case K_CONCAT_EMPTY_TO: return fmt("h%d = h%d.concat(Array())", o.j, o.h);
		case K_CONCAT_OTHER: return fmt("h%d = h%d | h%d", o.h, o.h, o.j);
		case K_SLICE_TO: return fmt("h%d = h%d.slice(0)", o.j, o.h);
		case K_FILTER_TO: return fmt("h%d = h%d.filter(x!=2)", o.j, o.h);
		case K_DROP: return fmt("drop h%d", o.h);
		case K_NEWIL: return fmt("h%d = Array{3,1,2}", o.h);
		case K_APPEND_PTR_SELF: return o.a == P_FIRST ? fmt("h%d.append(h%d.data(), 1)", o.h, o.h) : o.a == P_LAST ? fmt("h%d.append(h%d.data()+n-1, 1)", o.h, o.h) : fmt("h%d.append(h%d.data(), n)", o.h, o.h);
		case K_APPEND_PTR_OTHER: return fmt("h%d.append(h%d.data(), h%d.length())", o.h, o.j, o.j);
		case K_COPY_PTR_SELF: return o.a == 0 ? fmt("h%d.copy(h%d.data()+1, n-1)", o.h, o.h) : fmt("h%d.copy(h%d.data(), n-1)", o.h, o.h);
		case K_COPY_PTR_OTHER: return fmt("h%d.copy(h%d.data(), h%d.length())", o.h, o.j, o.j);
		case K_NEW_FROM_PTR: return fmt("h%d = Array(h%d.data(), n)", o.j, o.h);
		case K_NEW_FILL: return fmt("h%d = Array(2, h%d[0])", o.j, o.h);
		case K_APPEND_IL: return o.a == 0 ? fmt("h%d.append({1, 2})", o.h) : fmt("h%d.append({h%d[0], h%d[n-1]})", o.h, o.h, o.h);
		case K_ASSIGN_IL: return o.a == 0 ? fmt("h%d = {2, 1}", o.h) : fmt("h%d = {h%d[n-1], h%d[0]}", o.h, o.h, o.h);
		case K_SORT_DESC: return fmt("h%d.sort(a>b)", o.h);
		case K_SORTBY: return fmt("h%d.sortBy(value, %s)", o.h, o.a ? "ascending" : "descending");
		case K_REMOVEONE_FROM: return fmt("h%d.removeOne(1, 1)", o.h);
		case K_SET: return fmt("h%d[n/2] = 1", o.h);
		case K_REMOVE_N: return o.a == 0 ? fmt("h%d.remove(1, 2)", o.h) : fmt("h%d.remove(0, 0)", o.h);
		case K_SLICE_MID: return o.a == 0 ? fmt("h%d = h%d.slice(1, n-1)", o.h, o.h) : fmt("h%d = h%d.slice(n)", o.h, o.h);
		}
		return "?";
	}
	static bool is2(const T& x) { return Tr<T>::val(x) == 2; }
	static bool not2(const T& x) { return Tr<T>::val(x) != 2; }
	static T inc(const T& x) { return Tr<T>::make((Tr<T>::val(x) + 1) % 4); }
	static int keyOf(const T& x) { return Tr<T>::val(x); }
	struct DescLess { bool operator()(const T& a, const T& b) const { return Tr<T>::val(b) < Tr<T>::val(a); } };
	static bool sortedAsc(const std::vector<int>& m) { for (size_t i = 1; i < m.size(); i++) if (m[i] < m[i - 1]) return false; return true; }
	void fillNew(Array<T>& a, int from) { if (Tr<T>::pod) for (int i = from; i < a.length(); i++) a[i] = Tr<T>::make(0); }
	bool apply(int op, std::string& err) {
		const Op& o = ops[op];
		Array<T>* A = is[o.h];
		std::shared_ptr<std::vector<int> > M = ms[o.h];
		int N = M ? (int)M->size() : 0;
		bool shared = M && M.use_count() > 2; // M itself is one reference
		if (shared) vf::add(W_SHARED_OP);
		int capBefore = A ? A->cap() : 0;
		switch (o.k) {
		case K_NEW: is[o.h] = new Array<T>(); ms[o.h] = std::make_shared<std::vector<int> >(); break;
		case K_NEWN: is[o.h] = new Array<T>(2); fillNew(*is[o.h], 0); ms[o.h] = std::make_shared<std::vector<int> >(2, 0); break;
		case K_APPEND: *A << Tr<T>::make(o.a); M->push_back(o.a); break;
		case K_INSERT: { int k = pos(o, N); if (k < N) vf::add(W_INSERT_SHIFT); A->insert(k, Tr<T>::make(3)); M->insert(M->begin() + k, 3); break; }
		case K_APPEND_ALIAS: { int i = o.a == FRONT ? 0 : N - 1; vf::add(W_ALIAS_OP); if (N == capBefore) vf::add(W_ALIAS_GROW); *A << (*A)[i]; int v = (*M)[i]; M->push_back(v); break; }
		case K_INSERT_ALIAS: { int k = o.a == FRONT ? 0 : N / 2, i = o.a == FRONT ? N - 1 : 0; vf::add(W_ALIAS_OP); if (N == capBefore) vf::add(W_ALIAS_GROW); A->insert(k, (*A)[i]); int v = (*M)[i]; M->insert(M->begin() + k, v); break; }
		case K_REMOVE: { int i = o.a == FRONT ? 0 : o.a == MID ? N / 2 : N - 1; A->remove(i); M->erase(M->begin() + i); vf::add(W_ELEMS_DESTROYED); break; }
		case K_REMOVE2: A->remove(0, 2); M->erase(M->begin(), M->begin() + 2); break;
		case K_REMOVELAST: A->removeLast(); if (N) M->pop_back(); break;
		case K_REMOVEONE: { bool r = A->removeOne(Tr<T>::make(1)); std::vector<int>::iterator it = std::find(M->begin(), M->end(), 1); bool e = it != M->end(); if (e) M->erase(it); else vf::add(W_RM1_NOTFOUND); if (r != e) { err = "removeOne return value"; return false; } break; }
		case K_REMOVEONE_ALIAS: { vf::add(W_ALIAS_OP); bool r = A->removeOne((*A)[N - 1]); std::vector<int>::iterator it = std::find(M->begin(), M->end(), (*M)[N - 1]); M->erase(it); if (!r) { err = "removeOne(a[n-1]) returned false"; return false; } break; }
		case K_REMOVEIF: A->removeIf(is2); M->erase(std::remove(M->begin(), M->end(), 2), M->end()); if ((int)M->size() == N) vf::add(W_RMIF_NONE); else if (M->empty()) vf::add(W_RMIF_ALL); break;
		case K_RESIZE: {
			int m = o.a == R_DEC ? N - 1 : o.a == R_INC ? N + 1 : o.a == R_CAP ? capBefore : o.a == R_CAP1 ? capBefore + 1 : 0;
			if (o.a == R_ZERO) { A->clear(); vf::add(W_CLEAR); } else A->resize(m);
			fillNew(*A, N); M->resize(m, 0); break; }
		case K_RESERVE: A->reserve(capBefore + 1); break;
		case K_SORT: A->sort(); std::sort(M->begin(), M->end()); break;
		case K_REVERSED: { *A = A->reversed(); std::shared_ptr<std::vector<int> > r = std::make_shared<std::vector<int> >(M->rbegin(), M->rend()); ms[o.h] = r; break; }
		case K_SLICE: { int i1 = o.a == 0 ? 1 : 0, i2 = o.a == 0 ? 0 : N - 1; *A = o.a == 0 ? A->slice(1) : A->slice(0, N - 1); int e = i2 == 0 ? N : i2; ms[o.h] = std::make_shared<std::vector<int> >(M->begin() + i1, M->begin() + e); break; }
		case K_APPEND_SELF: { vf::add(W_ALIAS_OP); A->append(*A); std::vector<int> c(*M); M->insert(M->end(), c.begin(), c.end()); break; }
		case K_CONCAT_SELF: { *A = *A | *A; std::shared_ptr<std::vector<int> > r = std::make_shared<std::vector<int> >(*M); r->insert(r->end(), M->begin(), M->end()); ms[o.h] = r; break; }
		case K_FILTER: { *A = A->filter(not2); std::shared_ptr<std::vector<int> > r = std::make_shared<std::vector<int> >(); for (int i = 0; i < N; i++) if ((*M)[i] != 2) r->push_back((*M)[i]); ms[o.h] = r; break; }
		case K_MAP: { *A = A->map(inc); std::shared_ptr<std::vector<int> > r = std::make_shared<std::vector<int> >(); for (int i = 0; i < N; i++) r->push_back(((*M)[i] + 1) % 4); ms[o.h] = r; break; }
		case K_DUP: vf::add(shared ? W_DUP_SHARED : W_DUP_UNSHARED); A->dup(); if (shared) ms[o.h] = std::make_shared<std::vector<int> >(*M); break;
		case K_SELFASSIGN: { Array<T>& self = *A; *A = self; break; }
		case K_BIG: A->resize(o.a); fillNew(*A, N); M->resize(o.a, 0); break;
		case K_CLONE: is[o.j] = new Array<T>(A->clone()); ms[o.j] = std::make_shared<std::vector<int> >(*M); cloneSrc[o.j] = M; vf::add(W_CLONE_THEN_MUT); break;
		case K_COPYH: is[o.j] = new Array<T>(*A); ms[o.j] = M; break;
		case K_ASSIGN: *is[o.j] = *A; ms[o.j] = M; break;
		case K_APPEND_OTHER: { if (ms[o.j] == M) vf::add(W_ALIAS_OP); std::vector<int> c(*ms[o.j]); A->append(*is[o.j]); M->insert(M->end(), c.begin(), c.end()); break; }
		case K_COPYFROM: { std::vector<int> c(*ms[o.j]); A->copy(*is[o.j]); *M = c; break; }
		case K_CONCAT_EMPTY_TO: is[o.j] = new Array<T>(A->concat(Array<T>())); ms[o.j] = std::make_shared<std::vector<int> >(*M); break;
		case K_CONCAT_OTHER: { std::shared_ptr<std::vector<int> > r = std::make_shared<std::vector<int> >(*M); r->insert(r->end(), ms[o.j]->begin(), ms[o.j]->end()); *A = *A | *is[o.j]; ms[o.h] = r; break; }
		case K_SLICE_TO: is[o.j] = new Array<T>(A->slice(0)); ms[o.j] = std::make_shared<std::vector<int> >(*M); break;
		case K_FILTER_TO: { is[o.j] = new Array<T>(A->filter(not2)); std::shared_ptr<std::vector<int> > r = std::make_shared<std::vector<int> >(); for (int i = 0; i < N; i++) if ((*M)[i] != 2) r->push_back((*M)[i]); ms[o.j] = r; break; }
		case K_DROP: delete is[o.h]; is[o.h] = 0; ms[o.h].reset(); break;
		// ---- extended alphabet
		case K_NEWIL: { is[o.h] = new Array<T>{ Tr<T>::make(3), Tr<T>::make(1), Tr<T>::make(2) }; int v[] = { 3, 1, 2 }; ms[o.h] = std::make_shared<std::vector<int> >(v, v + 3); vf::add(W_NEW_IL); break; }
		case K_APPEND_PTR_SELF: {
			int off = o.a == P_LAST ? N - 1 : 0, k = o.a == P_ALL ? N : 1;
			vf::add(W_APTR_SELF); vf::add(W_ALIAS_OP); if (N + k > capBefore && !shared) vf::add(W_APTR_SELF_GROW);
			std::vector<int> c(M->begin() + off, M->begin() + off + k);
			A->append(A->data() + off, k); M->insert(M->end(), c.begin(), c.end()); break; }
		case K_APPEND_PTR_OTHER: { vf::add(W_APTR_OTHER); if (ms[o.j] == M) vf::add(W_ALIAS_OP); std::vector<int> c(*ms[o.j]); A->append(is[o.j]->data(), is[o.j]->length()); M->insert(M->end(), c.begin(), c.end()); break; }
		case K_COPY_PTR_SELF: { int off = o.a == 0 ? 1 : 0; vf::add(W_CPTR_SELF); vf::add(W_ALIAS_OP); std::vector<int> c(M->begin() + off, M->begin() + off + N - 1); A->copy(A->data() + off, N - 1); *M = c; break; }
		case K_COPY_PTR_OTHER: { if (n(o.j) > capBefore) vf::add(W_CPTR_OTHER_GROW); std::vector<int> c(*ms[o.j]); A->copy(is[o.j]->data(), is[o.j]->length()); *M = c; break; }
		case K_NEW_FROM_PTR: is[o.j] = new Array<T>(A->data(), N); ms[o.j] = std::make_shared<std::vector<int> >(*M); vf::add(W_NEW_PTR); break;
		case K_NEW_FILL: is[o.j] = new Array<T>(2, (*A)[0]); ms[o.j] = std::make_shared<std::vector<int> >(2, (*M)[0]); vf::add(W_NEW_FILL); break;
		case K_APPEND_IL: {
			vf::add(W_APPEND_IL);
			if (o.a == 0) { A->append({ Tr<T>::make(1), Tr<T>::make(2) }); M->push_back(1); M->push_back(2); }
			else { vf::add(W_ALIAS_OP); int v0 = (*M)[0], v1 = (*M)[N - 1]; A->append({ (*A)[0], (*A)[N - 1] }); M->push_back(v0); M->push_back(v1); }
			break; }
		case K_ASSIGN_IL: {
			vf::add(W_ASSIGN_IL);
			if (o.a == 0) { std::initializer_list<T> il = { Tr<T>::make(2), Tr<T>::make(1) }; *A = il; M->clear(); M->push_back(2); M->push_back(1); }
			else { vf::add(W_ALIAS_OP); int v0 = (*M)[N - 1], v1 = (*M)[0]; std::initializer_list<T> il = { (*A)[N - 1], (*A)[0] }; *A = il; M->clear(); M->push_back(v0); M->push_back(v1); }
			break; }
		case K_SORT_DESC: vf::add(W_SORT_CMP); if (!sortedAsc(*M)) vf::add(W_SORT_CMP_UNSORTED); A->sort(DescLess()); std::sort(M->begin(), M->end(), std::greater<int>()); break;
		case K_SORTBY:
			vf::add(W_SORT_CMP); if (!sortedAsc(*M)) vf::add(W_SORT_CMP_UNSORTED);
			if (o.a) { A->sortBy(keyOf); std::sort(M->begin(), M->end()); } else { vf::add(W_SORTBY_DESC); A->sortBy(keyOf, false); std::sort(M->begin(), M->end(), std::greater<int>()); }
			break;
		case K_REMOVEONE_FROM: {
			bool r = A->removeOne(Tr<T>::make(1), 1);
			std::vector<int>::iterator it = std::find(M->begin() + 1, M->end(), 1); bool e = it != M->end();
			if (e) { vf::add(W_RM1_FROM_FOUND); if ((*M)[0] == 1) vf::add(W_RM1_FROM_SKIPPED); M->erase(it); } else if ((*M)[0] == 1) vf::add(W_RM1_FROM_SKIPPED);
			if (r != e) { err = "removeOne(x, 1) return value"; return false; }
			break; }
		case K_SET: {
			if (shared) vf::add(W_SET_SHARED);
			for (int g = 0; g < NS; g++) if (g != o.h && ms[g] && ms[g] != M) { if (cloneSrc[g].lock() == M) vf::add(W_SET_SRC_OF_CLONE); if (cloneSrc[o.h].lock() == ms[g]) vf::add(W_SET_CLONE_OF_SRC); }
			(*A)[N / 2] = Tr<T>::make(1); (*M)[N / 2] = 1; break; }
		case K_REMOVE_N: vf::add(W_REMOVE_N); if (o.a == 0) { A->remove(1, 2); M->erase(M->begin() + 1, M->begin() + 3); } else A->remove(0, 0); break;
		case K_SLICE_MID: {
			vf::add(W_SLICE_MID);
			if (o.a == 0) { *A = A->slice(1, N - 1); ms[o.h] = std::make_shared<std::vector<int> >(M->begin() + 1, M->begin() + (N - 1)); }
			else { *A = A->slice(N); ms[o.h] = std::make_shared<std::vector<int> >(); }
			break; }
		}
		if (ms[o.h] != M) cloneSrc[o.h].reset(); // the slot holds another object now
		M.reset();
		if (A && is[o.h] == A && capBefore && A->cap() > capBefore) {
			if (o.k == K_APPEND || o.k == K_INSERT || o.k == K_APPEND_ALIAS || o.k == K_INSERT_ALIAS) vf::add(W_GROW_INSERT);
			else if ((size_t)capBefore * sizeof(T) < 2048) vf::add(W_GROW_MALLOC); else { vf::add(W_GROW_REALLOC_RESERVE); if (wRealloc >= 0) vf::add(wRealloc); }
		}
		return observe(err);
	}
	bool observe(std::string& err) {
		int liveElems = 0, objects = 0;
		std::set<const void*> seenObj;
		for (int h = 0; h < NS; h++) {
			if (!ms[h]) continue;
			const Array<T>& a = *is[h];
			const std::vector<int>& m = *ms[h];
			if (a.length() != (int)m.size()) { err = fmt("h%d.length() = %d, reference %d", h, a.length(), (int)m.size()); return false; }
			if (a.cap() < a.length()) { err = fmt("h%d: capacity %d < length %d", h, a.cap(), a.length()); return false; }
			for (int i = 0; i < a.length(); i++) if (Tr<T>::val(a[i]) != m[i]) { err = fmt("h%d[%d] = %d, reference %d", h, i, Tr<T>::val(a[i]), m[i]); return false; }
			int handles = 0;
			for (int g = 0; g < NS; g++) if (ms[g] == ms[h]) handles++;
			if (a.rc() != handles) { err = fmt("h%d: shared count %d but %d live handles", h, a.rc(), handles); return false; }
			for (int g = 0; g < h; g++) if (ms[g]) {
				bool same = ms[g] == ms[h];
				if (same != (is[g]->data() == a.data())) { err = fmt("h%d and h%d: handle aliasing differs from reference", g, h); return false; }
				bool eq = *is[g] == a, meq = *ms[g] == m;
				if (eq != meq) { err = fmt("h%d == h%d is %d, reference %d", g, h, (int)eq, (int)meq); return false; }
				if ((*is[g] != a) == meq) { err = fmt("h%d != h%d is %d, reference %d", g, h, (int)(*is[g] != a), (int)!meq); return false; }
			}
			if (a.length() && Tr<T>::val(a.last()) != m.back()) { err = "last()"; return false; }
			if ((!a) != m.empty()) { err = fmt("!h%d is %d, reference %d", h, (int)!a, (int)m.empty()); return false; }
			int N = (int)m.size();
			for (int v = 0; v < 4; v++) {
				T x = Tr<T>::make(v);
				int starts[3] = { 0, 1, N - 1 };
				std::vector<int>::const_iterator it0 = std::find(m.begin(), m.end(), v);
				int e0 = it0 == m.end() ? -1 : (int)(it0 - m.begin());
				for (int si = 0; si < (N >= 1 ? 3 : 1); si++) { // indexOf(x, j) for j = 0, 1, n-1 (j <= n)
					int j = starts[si];
					std::vector<int>::const_iterator it = std::find(m.begin() + j, m.end(), v);
					int e = it == m.end() ? -1 : (int)(it - m.begin());
					int r = j == 0 ? a.indexOf(x) : a.indexOf(x, j);
					if (r != e) { err = fmt("h%d.indexOf(%d, %d) = %d, reference %d", h, v, j, r, e); return false; }
					if (j == 0 && a.contains(x) != (e >= 0)) { err = fmt("h%d.contains(%d) = %d, reference %d", h, v, (int)a.contains(x), (int)(e >= 0)); return false; }
					if (j > 0 && e != e0) vf::add(W_INDEXOF_FROM); // start offset changes the answer
				}
			}
			// iteration: range-for (begin/end), foreach (all()), slice_ enumerators
			{
				int i = 0;
				for (const T& x : a) { if (i >= N || Tr<T>::val(x) != m[i]) { err = fmt("range-for over h%d: item %d differs from reference", h, i); return false; } i++; }
				if (i != N) { err = fmt("range-for over h%d visits %d items, reference %d", h, i, N); return false; }
				i = 0;
				foreach (const T& y, a) { if (i >= N || Tr<T>::val(y) != m[i]) { err = fmt("foreach over h%d: item %d differs from reference", h, i); return false; } i++; }
				if (i != N) { err = fmt("foreach over h%d visits %d items, reference %d", h, i, N); return false; }
				vf::add(W_ITER, (uint64_t)N);
				for (int w = 0; w < 2; w++) {
					if (w == 0 ? N < 1 : N < 2) continue;
					int b = w == 0 ? 1 : 0, e = w == 0 ? N : N - 1; // slice_(1) and slice_(0, n-1)
					typename Array<T>::Enumerator en = w == 0 ? is[h]->slice_(1) : is[h]->slice_(0, N - 1); // the const overload of slice_ is ill-formed (does not compile when used)
					const char* nm = w == 0 ? "slice_(1)" : "slice_(0, n-1)";
					if (en.length() != e - b) { err = fmt("h%d.%s.length() = %d, reference %d", h, nm, en.length(), e - b); return false; }
					if (e - b >= 1 && (Tr<T>::val(en[0]) != m[b] || Tr<T>::val(en[e - b - 1]) != m[e - 1])) { err = fmt("h%d.%s[k] differs from reference", h, nm); return false; }
					int k = b;
					for (; en; ++en) { if (k >= e || ~en != k || Tr<T>::val(*en) != m[k]) { err = fmt("h%d.%s: item at %d differs from reference", h, nm, k); return false; } k++; }
					if (k != e) { err = fmt("h%d.%s stops at %d, reference %d", h, nm, k, e); return false; }
					vf::add(W_SLICE_ENUM);
				}
			}
			if (seenObj.insert(a.data()).second) { liveElems += a.length(); objects++; }
		}
		if (objects >= 2) vf::add(W_TWO_OBJECTS);
		if (Tr<T>::counted) {
			if (reg.errors) { err = reg.firstError; return false; }
			if ((int)reg.live.size() != liveElems) { err = fmt("%d element instances alive but live arrays hold %d elements (constructed/destroyed other than exactly once)", (int)reg.live.size(), liveElems); return false; }
		}
		return true;
	}
	std::string canon() {
		std::string s;
		std::map<const void*, int> ids;
		for (int h = 0; h < NS; h++) {
			if (!ms[h]) { s += "-|"; continue; }
			std::map<const void*, int>::iterator it = ids.find(ms[h].get());
			if (it != ids.end()) { s += fmt("=%d|", it->second); continue; }
			int id = (int)ids.size(); ids[ms[h].get()] = id;
			s += fmt("#%d c%d r%d:", id, is[h]->cap(), is[h]->rc());
			const std::vector<int>& m = *ms[h];
			if (m.size() > 20) { // big arrays: contents summarised by length + head/tail (ops on them never look further)
				s += fmt("n%d:", (int)m.size());
				for (int i = 0; i < 3; i++) s += char('0' + m[i]);
				s += "..";
				for (size_t i = m.size() - 4; i < m.size(); i++) s += char('0' + m[i]);
			} else for (size_t i = 0; i < m.size(); i++) s += char('0' + m[i]);
			s += "|";
		}
		return s;
	}
};

// ---------------------------------------------------------------- Stack / Queue
template <class T>
struct SQSys {
	enum K { S_PUSH, S_POP, S_POPN, S_POPGET, S_SHR, S_TOPSET, Q_PUT, Q_GET, Q_SHL, Q_SHR, S_PUSH_TOP, Q_PUT_FRONT,
		S_COPY, S_DUP2, S_DROP2, S_BIG, Q_COPY, Q_DROP2 };
	struct O { int k, a; };
	std::vector<O> ops;
	Stack<T>* st; Queue<T>* qu;
	Stack<T>* st2; Queue<T>* qu2;         // second handles (copy-constructed: share the block until S_DUP2)
	std::vector<int> ms, mq, ms2;
	bool has2, shared2, hasq2;            // st2 exists / still shares st's block / qu2 exists (always shares)
	enum { BOTH = 0, STACK_ONLY = 1, QUEUE_ONLY = 2 };
	int mode;                             // the two containers never interact: they are explored separately ("stack<T>", "queue<T>"); BOTH only replays old "stackq<T>" cases
	static bool isStackOp(int k) { return k == S_PUSH || k == S_POP || k == S_POPN || k == S_POPGET || k == S_SHR || k == S_TOPSET || k == S_PUSH_TOP || k == S_COPY || k == S_DUP2 || k == S_DROP2 || k == S_BIG; }
	SQSys(int mode_ = BOTH) : st(0), qu(0), st2(0), qu2(0), has2(false), shared2(false), hasq2(false), mode(mode_) {
		// the first 14 entries are the original alphabet (old case strings stay valid)
		int ks[] = { S_PUSH, S_PUSH, S_POP, S_POPN, S_POPGET, S_SHR, S_TOPSET, S_PUSH_TOP, Q_PUT, Q_PUT, Q_GET, Q_SHL, Q_SHR, Q_PUT_FRONT,
			S_POPN, S_COPY, S_DUP2, S_DROP2, S_BIG, Q_COPY, Q_DROP2 };
		int as[] = { 1, 2, 0, 2, 0, 0, 3, 0, 1, 2, 0, 3, 0, 0,
			3, 0, 0, 0, 90, 0, 0 };
		for (size_t i = 0; i < sizeof ks / sizeof *ks; i++) { O o = { ks[i], as[i] }; ops.push_back(o); }
	}
	int nops() { return (int)ops.size(); }
	int alphabet() { int c = 0; for (int i = 0; i < nops(); i++) if (mode == BOTH || (mode == STACK_ONLY) == isStackOp(ops[i].k)) c++; return c; }
	void reset() {
		delete st; delete qu; delete st2; delete qu2; st = 0; qu = 0; st2 = 0; qu2 = 0; has2 = shared2 = hasq2 = false;
		std::vector<int>().swap(ms); std::vector<int>().swap(mq); std::vector<int>().swap(ms2); reg.reset(); st = new Stack<T>(); qu = new Queue<T>();
	}
	bool sroom() { return ms.size() < 8 || (ms.size() >= 90 && ms.size() < 92); }
	bool enabled(int op) {
		const O& o = ops[op];
		if (mode != BOTH && (mode == STACK_ONLY) != isStackOp(o.k)) return false;
		switch (o.k) {
		case S_PUSH: return sroom();
		case S_POP: case S_POPGET: case S_SHR: case S_TOPSET: return ms.size() >= 1;
		case S_PUSH_TOP: return ms.size() >= 1 && sroom();
		case S_POPN: return (int)ms.size() >= o.a;
		case Q_PUT: case Q_SHL: return mq.size() < 8;
		case Q_GET: case Q_SHR: return mq.size() >= 1;
		case Q_PUT_FRONT: return mq.size() >= 1 && mq.size() < 8;
		case S_COPY: return !has2;
		case S_DUP2: return has2 && shared2;
		case S_DROP2: return has2;
		case S_BIG: return ms.size() >= 1 && ms.size() < 8;
		case Q_COPY: return !hasq2;
		case Q_DROP2: return hasq2;
		}
		return false;
	}
	// growth through one handle while the other shares the block is the listed finding
	const char* predict(int op) {
		const O& o = ops[op];
		if (!st || !qu) return 0;
		if ((o.k == S_PUSH || o.k == S_PUSH_TOP) && has2 && shared2 && (int)ms.size() == st->cap()) return "grow_while_shared";
		if (o.k == S_BIG && has2 && shared2 && o.a > st->cap()) return "grow_while_shared";
		if ((o.k == Q_PUT || o.k == Q_SHL || o.k == Q_PUT_FRONT) && hasq2 && (int)mq.size() == qu->cap()) return "grow_while_shared";
		return 0;
	}
	std::string opname(int op) {
		static const char* N[] = { "stack.push(%d)", "stack.pop()", "stack.pop(%d)", "stack.popget()", "stack >> x", "stack.top() = %d", "queue.put(%d)", "queue.get()", "queue << %d", "queue >> x", "stack.push(stack.top())", "queue.put(queue[0])",
			"stack2 = copy of stack", "stack2.dup()", "drop stack2", "stack.resize(%d)", "queue2 = copy of queue", "drop queue2" };
		return fmt(N[ops[op].k], ops[op].a);
	}
	bool apply(int op, std::string& err) {
		const O& o = ops[op];
		if (isStackOp(o.k) && o.k != S_COPY && o.k != S_DUP2 && o.k != S_DROP2 && has2 && shared2) vf::add(W_SQ_SHARED_OP);
		if ((o.k == S_PUSH || o.k == S_PUSH_TOP) && (int)ms.size() == st->cap()) { vf::add(W_SQ_PUSH_FULL); if (o.k == S_PUSH_TOP) vf::add(W_SQ_ALIAS_PUSH_FULL); if ((size_t)st->cap() * sizeof(T) >= 1024) vf::add(W_SQ_PUSH_FULL_BIG); }
		if ((o.k == Q_PUT || o.k == Q_SHL || o.k == Q_PUT_FRONT) && (int)mq.size() == qu->cap()) { vf::add(W_SQ_PUT_FULL); if (o.k == Q_PUT_FRONT) vf::add(W_SQ_ALIAS_PUT_FULL); }
		switch (o.k) {
		case S_PUSH: st->push(Tr<T>::make(o.a)); ms.push_back(o.a); break;
		case S_POP: st->pop(); ms.pop_back(); break;
		case S_POPN: st->pop(o.a); ms.resize(ms.size() - o.a); if (o.a == 3) vf::add(W_SQ_POP3); break;
		case S_COPY: st2 = new Stack<T>(*st); has2 = shared2 = true; vf::add(W_SQ_COPY); break;
		case S_DUP2: st2->dup(); ms2 = ms; shared2 = false; break;
		case S_DROP2: delete st2; st2 = 0; has2 = shared2 = false; std::vector<int>().swap(ms2); break;
		case S_BIG: st->resize(o.a); ms.resize(o.a, 0); break;
		case Q_COPY: qu2 = new Queue<T>(*qu); hasq2 = true; break;
		case Q_DROP2: delete qu2; qu2 = 0; hasq2 = false; break;
		case S_POPGET: { T x = st->popget(); if (Tr<T>::val(x) != ms.back()) { err = "popget value"; return false; } ms.pop_back(); break; }
		case S_SHR: { T x = Tr<T>::make(0); *st >> x; if (Tr<T>::val(x) != ms.back()) { err = "stack >> value"; return false; } ms.pop_back(); break; }
		case S_TOPSET: st->top() = Tr<T>::make(o.a); ms.back() = o.a; break;
		case S_PUSH_TOP: st->push(st->top()); ms.push_back(ms.back()); break;
		case Q_PUT: qu->put(Tr<T>::make(o.a)); mq.push_back(o.a); break;
		case Q_SHL: *qu << Tr<T>::make(o.a); mq.push_back(o.a); break;
		case Q_GET: { T x = qu->get(); if (Tr<T>::val(x) != mq.front()) { err = "queue.get value"; return false; } mq.erase(mq.begin()); break; }
		case Q_SHR: { T x = Tr<T>::make(0); *qu >> x; if (Tr<T>::val(x) != mq.front()) { err = "queue >> value"; return false; } mq.erase(mq.begin()); break; }
		case Q_PUT_FRONT: qu->put((*qu)[0]); mq.push_back(mq.front()); break;
		}
		if (st->length() != (int)ms.size() || qu->length() != (int)mq.size()) { err = "length"; return false; }
		for (size_t i = 0; i < ms.size(); i++) if (Tr<T>::val((*st)[(int)i]) != ms[i] || Tr<T>::val(st->top((int)(ms.size() - 1 - i))) != ms[i]) { err = fmt("stack[%d]", (int)i); return false; }
		for (size_t i = 0; i < mq.size(); i++) if (Tr<T>::val((*qu)[(int)i]) != mq[i]) { err = fmt("queue[%d]", (int)i); return false; }
		if (ms.size() && Tr<T>::val(const_cast<const Stack<T>*>(st)->top()) != ms.back()) { err = "const top()"; return false; }
		size_t held = ms.size() + mq.size();
		if (has2) {
			const std::vector<int>& m2 = shared2 ? ms : ms2;
			if (st2->length() != (int)m2.size()) { err = fmt("stack2.length() = %d, reference %d", st2->length(), (int)m2.size()); return false; }
			for (size_t i = 0; i < m2.size(); i++) if (Tr<T>::val(const_cast<const Stack<T>*>(st2)->top((int)(m2.size() - 1 - i))) != m2[i]) { err = fmt("stack2[%d]", (int)i); return false; }
			if (shared2 != (st2->data() == st->data())) { err = "stack / stack2 aliasing differs from reference"; return false; }
			if (st->rc() != (shared2 ? 2 : 1) || st2->rc() != (shared2 ? 2 : 1)) { err = fmt("stack shared count %d / %d, reference %d", st->rc(), st2->rc(), shared2 ? 2 : 1); return false; }
			if (!shared2) held += ms2.size();
		} else if (st->rc() != 1) { err = fmt("stack shared count %d with one handle", st->rc()); return false; }
		if (hasq2) {
			if (qu2->length() != (int)mq.size() || qu2->data() != qu->data() || qu->rc() != 2) { err = "queue2 differs from queue"; return false; }
		} else if (qu->rc() != 1) { err = fmt("queue shared count %d with one handle", qu->rc()); return false; }
		if (Tr<T>::counted) {
			if (reg.errors) { err = reg.firstError; return false; }
			if (reg.live.size() != held) { err = fmt("%d element instances alive, containers hold %d", (int)reg.live.size(), (int)held); return false; }
		}
		return true;
	}
	static std::string enc(const std::vector<int>& m) {
		std::string s;
		if (m.size() > 20) { // after resize(90): the run of default elements in the middle is summarised by the length
			s += fmt("n%d:", (int)m.size());
			for (size_t i = 0; i < 8; i++) s += char('0' + m[i]);
			s += "..";
			for (size_t i = m.size() - 4; i < m.size(); i++) s += char('0' + m[i]);
		} else for (size_t i = 0; i < m.size(); i++) s += char('0' + m[i]);
		return s;
	}
	std::string canon() {
		std::string s = fmt("S c%d:", st->cap()) + enc(ms);
		if (has2) { s += shared2 ? "|S2=" : fmt("|S2 c%d:", st2->cap()); if (!shared2) s += enc(ms2); }
		s += fmt("|Q c%d:", qu->cap());
		for (size_t i = 0; i < mq.size(); i++) s += char('0' + mq[i]);
		if (hasq2) s += "|Q2=";
		return s;
	}
};


// ---------------------------------------------------------------- nested arrays
// Node holds an Array<Node> (as asl::Var and asl::Xml do): the argument of operator=, append and << can then live inside an
// element of the very array it is applied to. Reference model: vectors held by shared_ptr (asl handles share by reference).
struct Node {
	Array<Node> kids; int id, v;
	Node() : id(reg.born()), v(0) {}
	explicit Node(int x) : id(reg.born()), v(x) {}
	Node(const Node& o) : kids(o.kids), id(reg.born()), v(o.v) {}
	Node& operator=(const Node& o) { if (!reg.live.count(id)) { reg.errors++; if (reg.firstError.empty()) reg.firstError = "assignment to an element that is not live"; } kids = o.kids; v = o.v; return *this; }
	~Node() { reg.died(id); }
};
struct MNode;
typedef std::shared_ptr<std::vector<MNode> > MArr;
struct MNode { int v; MArr kids; };
static MArr mkArr() { return std::make_shared<std::vector<MNode> >(); }
static MNode mkNode(int v) { MNode n; n.v = v; n.kids = mkArr(); return n; }

struct NestSys {
	enum K { N_LEAF, N_PAIR, N_ASSIGN_FIRST, N_ASSIGN_LAST, N_ASSIGN_GRAND, N_APPEND_KIDS, N_PUSH_ELEM, N_INSERT_ELEM, N_KEEP, N_DROP_KEEP, N_REMOVE0, N_INNER_ASSIGN, N_INNER_PUSH, NK };
	Array<Node>* root; Array<Node>* keep;
	MArr mr, mk;
	NestSys() : root(0), keep(0) {}
	int nops() { return NK; }
	int alphabet() { return NK; }
	void reset() { delete root; delete keep; root = keep = 0; mr.reset(); mk.reset(); reg.reset(); root = new Array<Node>(); mr = mkArr(); }
	int n() { return (int)mr->size(); }
	int nk0() { return (int)(*mr)[0].kids->size(); }
	bool enabled(int op) {
		switch (op) {
		case N_LEAF: case N_PAIR: return n() < 5;
		case N_ASSIGN_FIRST: return n() >= 1;
		case N_ASSIGN_LAST: return n() >= 2;
		case N_ASSIGN_GRAND: return n() >= 1 && nk0() >= 1;
		case N_APPEND_KIDS: return n() >= 1 && nk0() >= 1 && n() + nk0() <= 6;
		case N_PUSH_ELEM: return n() >= 1 && n() < 5;
		case N_INSERT_ELEM: return n() >= 2 && n() < 5;
		case N_KEEP: return !mk;
		case N_DROP_KEEP: return (bool)mk;
		case N_REMOVE0: return n() >= 1;
		case N_INNER_ASSIGN: return n() >= 2;
		case N_INNER_PUSH: return n() >= 1 && nk0() < 4;
		}
		return false;
	}
	const char* predict(int op) {
		if (!root || !mr) return 0;
		switch (op) {
		case N_LEAF: case N_PAIR: case N_PUSH_ELEM: case N_INSERT_ELEM: return root->rc() >= 2 && n() == root->cap() ? "grow_while_shared" : 0;
		case N_APPEND_KIDS: return root->rc() >= 2 && n() + nk0() > root->cap() ? "grow_while_shared" : 0;
		case N_INNER_PUSH: { Array<Node>& k = (*root)[0].kids; return k.rc() >= 2 && k.length() == k.cap() ? "grow_while_shared" : 0; }
		}
		return 0;
	}
	std::string opname(int op) {
		static const char* N[] = { "r << Node(1)", "r << Node(2){kids: Node(1), Node(3)}", "r = r[0].kids", "r = r[n-1].kids", "r = r[0].kids[0].kids", "r.append(r[0].kids)", "r << r[0]", "r.insert(0, r[n-1])",
			"keep = copy-of-handle r", "drop keep", "r.remove(0)", "r[0].kids = r[n-1].kids", "r[0].kids << Node(3)" };
		return N[op];
	}
	bool apply(int op, std::string& err) {
		Array<Node>& r = *root;
		int N = n();
		switch (op) {
		case N_LEAF: r << Node(1); mr->push_back(mkNode(1)); break;
		case N_PAIR: { Node p(2); p.kids << Node(1) << Node(3); r << p; MNode m = mkNode(2); m.kids->push_back(mkNode(1)); m.kids->push_back(mkNode(3)); mr->push_back(m); break; }
		case N_ASSIGN_FIRST: if (r.rc() == 1) vf::add(W_NEST_ASSIGN_LASTREF); r = r[0].kids; { MArr t = (*mr)[0].kids; mr = t; } break;
		case N_ASSIGN_LAST: if (r.rc() == 1) vf::add(W_NEST_ASSIGN_LASTREF); r = r[N - 1].kids; { MArr t = (*mr)[N - 1].kids; mr = t; } break;
		case N_ASSIGN_GRAND: if (r.rc() == 1) { vf::add(W_NEST_ASSIGN_LASTREF); vf::add(W_NEST_ASSIGN_GRAND); } r = r[0].kids[0].kids; { MArr t = (*(*mr)[0].kids)[0].kids; mr = t; } break;
		case N_APPEND_KIDS: { if (N + nk0() > r.cap()) vf::add(W_NEST_APPEND_KIDS_GROW); std::vector<MNode> c(*(*mr)[0].kids); r.append(r[0].kids); mr->insert(mr->end(), c.begin(), c.end()); break; }
		case N_PUSH_ELEM: { MNode c = (*mr)[0]; r << r[0]; mr->push_back(c); break; }
		case N_INSERT_ELEM: { MNode c = (*mr)[N - 1]; r.insert(0, r[N - 1]); mr->insert(mr->begin(), c); break; }
		case N_KEEP: keep = new Array<Node>(r); mk = mr; break;
		case N_DROP_KEEP: delete keep; keep = 0; mk.reset(); break;
		case N_REMOVE0: r.remove(0); mr->erase(mr->begin()); break;
		case N_INNER_ASSIGN: r[0].kids = r[N - 1].kids; { MArr t = (*mr)[N - 1].kids; (*mr)[0].kids = t; } break;
		case N_INNER_PUSH: r[0].kids << Node(3); (*mr)[0].kids->push_back(mkNode(3)); break;
		}
		return observe(err);
	}
	struct Walk {
		std::map<const void*, const void*> m2i, i2m;
		std::map<const void*, int> refs;
		std::vector<std::pair<const Array<Node>*, const void*> > blocks;
		int elems; bool sharedKids;
		Walk() : elems(0), sharedKids(false) {}
	};
	bool walk(const Array<Node>& a, const MArr& m, Walk& w, const std::string& path, std::string& err) {
		w.refs[m.get()]++;
		std::map<const void*, const void*>::iterator it = w.m2i.find(m.get());
		if (it != w.m2i.end()) { w.sharedKids = true; if (it->second != (const void*)a.data()) { err = path + ": shares its block with another array in the reference but not in the implementation"; return false; } return true; }
		if (w.i2m.count(a.data())) { err = path + ": distinct in the reference but the same block as another array in the implementation"; return false; }
		w.m2i[m.get()] = a.data(); w.i2m[a.data()] = m.get();
		w.blocks.push_back(std::make_pair(&a, (const void*)m.get()));
		if (a.length() != (int)m->size()) { err = fmt("%s.length() = %d, reference %d", path.c_str(), a.length(), (int)m->size()); return false; }
		if (a.cap() < a.length()) { err = path + ": capacity below length"; return false; }
		w.elems += a.length();
		for (int i = 0; i < a.length(); i++) {
			if (a[i].v != (*m)[i].v) { err = fmt("%s[%d] = %d, reference %d", path.c_str(), i, a[i].v, (*m)[i].v); return false; }
			if (!walk(a[i].kids, (*m)[i].kids, w, path + fmt("[%d].kids", i), err)) return false;
		}
		return true;
	}
	bool observe(std::string& err) {
		Walk w;
		if (!walk(*root, mr, w, "r", err)) return false;
		if (mk && !walk(*keep, mk, w, "keep", err)) return false;
		for (size_t i = 0; i < w.blocks.size(); i++) if (w.blocks[i].first->rc() != w.refs[w.blocks[i].second]) { err = fmt("an array block has shared count %d but %d live handles", w.blocks[i].first->rc(), w.refs[w.blocks[i].second]); return false; }
		if (w.sharedKids) vf::add(W_NEST_SHARED_KIDS);
		if (reg.errors) { err = reg.firstError; return false; }
		if ((int)reg.live.size() != w.elems) { err = fmt("%d element instances alive but live arrays hold %d elements", (int)reg.live.size(), w.elems); return false; }
		return true;
	}
	void canonOf(const Array<Node>& a, const MArr& m, std::map<const void*, int>& ids, std::string& s) {
		std::map<const void*, int>::iterator it = ids.find(m.get());
		if (it != ids.end()) { s += fmt("=%d", it->second); return; }
		int id = (int)ids.size(); ids[m.get()] = id;
		s += fmt("#%d c%d r%d[", id, a.cap(), a.rc());
		for (int i = 0; i < a.length(); i++) { s += char('0' + (*m)[i].v); canonOf(a[i].kids, (*m)[i].kids, ids, s); }
		s += "]";
	}
	std::string canon() {
		std::string s; std::map<const void*, int> ids;
		canonOf(*root, mr, ids, s);
		s += "|";
		if (mk) canonOf(*keep, mk, ids, s);
		return s;
	}
};

// ---------------------------------------------------------------- sorts: every value sequence up to a length
template <class T>
struct SortX {
	std::string label; int nvals;
	SortX(const std::string& l, int nv) : label(l), nvals(nv) {}
	static int keyOf(const T& x) { return Tr<T>::val(x); }
	struct DescLess { bool operator()(const T& a, const T& b) const { return Tr<T>::val(b) < Tr<T>::val(a); } };
	static const char* vname(int k) { static const char* N[] = { "sort()", "sort(a>b)", "sortBy(value)", "sortBy(value, descending)" }; return N[k]; }
	uint64_t count(int maxLen) { uint64_t t = 0, p = 1; for (int L = 0; L <= maxLen; L++) { t += p; p *= nvals; } return t; }
	std::string digits(uint64_t i) { // index -> sequence (shorter sequences first)
		uint64_t p = 1; int L = 0;
		while (i >= p) { i -= p; p *= nvals; L++; }
		std::string d(L, '0');
		for (int k = L - 1; k >= 0; k--) { d[k] = char('0' + i % nvals); i /= nvals; }
		return d;
	}
	// one pass over the four sorts; returns false and fills sig/desc on failure
	bool once(const std::string& d, std::string& sig, std::string& desc) {
		reg.reset();
		std::vector<int> m;
		for (size_t i = 0; i < d.size(); i++) m.push_back(d[i] - '0');
		bool ok = true;
		{
			std::vector<T> src;
			for (size_t i = 0; i < m.size(); i++) src.push_back(Tr<T>::make(m[i]));
			Array<T> base(src.data(), (int)src.size());
			for (int k = 0; k < 4 && ok; k++) {
				Array<T> a = base.clone();
				std::vector<int> e(m);
				switch (k) {
				case 0: a.sort(); std::sort(e.begin(), e.end()); break;
				case 1: a.sort(DescLess()); std::sort(e.begin(), e.end(), std::greater<int>()); break;
				case 2: a.sortBy(keyOf); std::sort(e.begin(), e.end()); break;
				case 3: a.sortBy(keyOf, false); std::sort(e.begin(), e.end(), std::greater<int>()); break;
				}
				if (a.length() != (int)e.size()) { ok = false; sig = "diverge"; desc = fmt("%s: length %d, reference %d", vname(k), a.length(), (int)e.size()); break; }
				for (int i = 0; i < a.length() && ok; i++) if (Tr<T>::val(a[i]) != e[i]) { ok = false; sig = "diverge"; desc = fmt("%s: item %d = %d, reference %d", vname(k), i, Tr<T>::val(a[i]), e[i]); }
				for (int i = 0; i < base.length() && ok; i++) if (Tr<T>::val(base[i]) != m[i]) { ok = false; sig = "diverge"; desc = fmt("%s on a clone changed the source at %d", vname(k), i); }
				if (ok && Tr<T>::counted && (reg.errors || reg.live.size() != 3 * m.size())) { ok = false; sig = "diverge"; desc = fmt("%s: %d element instances alive, expected %d; %s", vname(k), (int)reg.live.size(), (int)(3 * m.size()), reg.firstError.c_str()); }
				if (vf::asan_tripped()) { ok = false; sig = "asan"; desc = fmt("ASan %s in %s", vf::asan_what().c_str(), vname(k)); }
			}
		}
		if (ok && Tr<T>::counted && (reg.errors || reg.live.size())) { ok = false; sig = "diverge"; desc = fmt("%d element instances alive after dropping everything; %s", (int)reg.live.size(), reg.firstError.c_str()); }
		if (ok && vf::asan_tripped()) { ok = false; sig = "asan"; desc = "ASan " + vf::asan_what() + " during teardown"; }
		reg.reset();
		return ok;
	}
	bool run_case(const std::string& d) {
		std::string kase = label + ":" + (d.empty() ? std::string("-") : d);
		std::string sig, desc; sig.reserve(64); desc.reserve(512);
		vf::cur(kase); vf::asan_clear();
		bool ok = true;
		for (int attempt = 0; attempt < 2; attempt++) { // a heap delta counts as a leak only when it repeats (lazily built statics)
			uint64_t base = vf::heap_bytes();
			ok = once(d, sig, desc);
			if (!ok) break;
			if (!vf::have_asan() || vf::heap_bytes() == base) break;
			if (attempt == 1) { ok = false; sig = "leak"; desc = fmt("allocated bytes %+lld after dropping everything", (long long)(vf::heap_bytes() - base)); }
		}
		if (!ok) vf::violation(sig, desc + "  input: [" + d + "]", kase);
		vf::asan_clear();
		return ok;
	}
	void run(int maxLen, int cCases) {
		uint64_t N = count(maxLen);
		vf::parallel(N, [&](uint64_t i) {
			std::string d = digits(i);
			bool sorted = true; for (size_t k = 1; k < d.size(); k++) if (d[k] < d[k - 1]) sorted = false;
			if (!sorted) vf::add(W_SORTX_UNSORTED);
			vf::add(cCases);
			run_case(d);
		}, 512);
		vf::setinfo(label, fmt("{\"values\": %d, \"max_length\": %d, \"sequences\": %llu, \"sorts_per_sequence\": 4}", nvals, maxLen, (unsigned long long)N));
	}
};

static uint64_t totS, totT, totTr;
template <class Sys>
static void runBfs(Sys& sys, const std::string& label, int depth, uint64_t maxStates) {
	vf::Bfs<Sys> b(sys, label);
	vf::BfsResult r = b.run(depth, maxStates);
	totS += r.states; totT += r.transitions; totTr += r.traces;
	std::string pd;
	for (size_t i = 0; i < r.per_depth.size(); i++) pd += fmt(i ? ",%llu" : "%llu", (unsigned long long)r.per_depth[i]);
	vf::setinfo(label, fmt("{\"depth_completed\": %d, \"states\": %llu, \"transitions\": %llu, \"fixed_point\": %s, \"new_states_per_depth\": [%s], \"op_alphabet\": %d}", r.depth_done, (unsigned long long)r.states, (unsigned long long)r.transitions, r.fixed_point ? "true" : "false", pd.c_str(), sys.alphabet()));
}

int main(int argc, char** argv) {
	vf::init(argc, argv, "C01", "c01_array");
	int cS = vf::counter("states"), cT = vf::counter("transitions"), cTr = vf::counter("traces");
	W_GROW_MALLOC = vf::counter("w.reserve_growth_malloc_copy"); W_GROW_REALLOC_RESERVE = vf::counter("w.reserve_growth_realloc_over_2048B"); W_GROW_INSERT = vf::counter("w.insert_growth_realloc");
	W_INSERT_SHIFT = vf::counter("w.insert_with_shift"); W_SHARED_OP = vf::counter("w.op_through_shared_handle"); W_ALIAS_OP = vf::counter("w.aliasing_argument_op"); W_ALIAS_GROW = vf::counter("w.aliasing_insert_at_full_capacity");
	W_TWO_OBJECTS = vf::counter("w.states_with_two_distinct_arrays"); W_CLONE_THEN_MUT = vf::counter("w.clones_made"); W_ELEMS_DESTROYED = vf::counter("w.remove_ops");
	W_CLEAR = vf::counter("w.clear_calls"); W_ITER = vf::counter("w.items_visited_by_rangefor_and_foreach"); W_SLICE_ENUM = vf::counter("w.slice_enumerators_walked"); W_INDEXOF_FROM = vf::counter("w.indexOf_start_offset_changes_answer");
	W_RM1_NOTFOUND = vf::counter("w.removeOne_not_found"); W_RMIF_NONE = vf::counter("w.removeIf_removes_none"); W_RMIF_ALL = vf::counter("w.removeIf_removes_all"); W_DUP_SHARED = vf::counter("w.dup_on_shared_handle"); W_DUP_UNSHARED = vf::counter("w.dup_on_unshared_handle");
	W_APTR_SELF = vf::counter("w.x.append_ptr_into_own_block"); W_APTR_SELF_GROW = vf::counter("w.x.append_ptr_into_own_block_beyond_capacity"); W_APTR_OTHER = vf::counter("w.x.append_ptr_other"); W_CPTR_SELF = vf::counter("w.x.copy_ptr_into_own_block");
	W_CPTR_OTHER_GROW = vf::counter("w.x.copy_ptr_other_beyond_capacity"); W_NEW_PTR = vf::counter("w.x.array_from_ptr"); W_NEW_FILL = vf::counter("w.x.array_n_copies_of_own_element"); W_NEW_IL = vf::counter("w.x.array_from_initializer_list");
	W_APPEND_IL = vf::counter("w.x.append_initializer_list"); W_ASSIGN_IL = vf::counter("w.x.assign_initializer_list"); W_SORT_CMP = vf::counter("w.x.comparator_sorts"); W_SORT_CMP_UNSORTED = vf::counter("w.x.comparator_sorts_of_unsorted_input");
	W_SORTBY_DESC = vf::counter("w.x.sortBy_descending"); W_RM1_FROM_FOUND = vf::counter("w.x.removeOne_from_1_found"); W_RM1_FROM_SKIPPED = vf::counter("w.x.removeOne_from_1_skips_match_at_0");
	W_SET_SHARED = vf::counter("w.x.element_write_through_shared_handle"); W_SET_SRC_OF_CLONE = vf::counter("w.x.element_write_to_source_of_live_clone"); W_SET_CLONE_OF_SRC = vf::counter("w.x.element_write_to_clone_of_live_source");
	W_REMOVE_N = vf::counter("w.x.remove_i_n"); W_SLICE_MID = vf::counter("w.x.slice_inner_or_empty");
	W_SQ_SHARED_OP = vf::counter("w.sq.stack_op_with_second_handle_sharing"); W_SQ_PUSH_FULL = vf::counter("w.sq.push_at_full_capacity"); W_SQ_ALIAS_PUSH_FULL = vf::counter("w.sq.push_top_at_full_capacity"); W_SQ_PUSH_FULL_BIG = vf::counter("w.sq.push_at_full_capacity_block_over_1KB");
	W_SQ_PUT_FULL = vf::counter("w.sq.put_at_full_capacity"); W_SQ_ALIAS_PUT_FULL = vf::counter("w.sq.put_front_at_full_capacity"); W_SQ_POP3 = vf::counter("w.sq.pop_3"); W_SQ_COPY = vf::counter("w.sq.stack_copies");
	W_NEST_ASSIGN_LASTREF = vf::counter("w.nest.assign_from_own_element_releasing_last_reference"); W_NEST_ASSIGN_GRAND = vf::counter("w.nest.assign_from_grandchild_releasing_last_reference"); W_NEST_APPEND_KIDS_GROW = vf::counter("w.nest.append_own_elements_array_beyond_capacity");
	W_NEST_SHARED_KIDS = vf::counter("w.nest.states_with_shared_inner_array"); W_SORTX_UNSORTED = vf::counter("w.sort.unsorted_inputs");
	bool T = vf::opt.thorough();
	ArrSys<int> ai(true); ArrSys<Tracked> at(true); ArrSys<String> as(true);
	ArrSys<int> xi(true, true); ArrSys<Tracked> xt(true, true); ArrSys<String> xs(true, true);
	ai.wRealloc = vf::counter("w.array<int>.reserve_growth_realloc_over_2048B"); at.wRealloc = vf::counter("w.array<Tracked>.reserve_growth_realloc_over_2048B"); as.wRealloc = vf::counter("w.array<String>.reserve_growth_realloc_over_2048B");
	xi.wRealloc = vf::counter("w.arrayx<int>.reserve_growth_realloc_over_2048B"); xt.wRealloc = vf::counter("w.arrayx<Tracked>.reserve_growth_realloc_over_2048B"); xs.wRealloc = vf::counter("w.arrayx<String>.reserve_growth_realloc_over_2048B");
	SQSys<Tracked> sq; SQSys<String> sqs; // replay of old case strings only
	SQSys<Tracked> stt(SQSys<Tracked>::STACK_ONLY), qut(SQSys<Tracked>::QUEUE_ONLY); SQSys<String> sts(SQSys<String>::STACK_ONLY), qus(SQSys<String>::QUEUE_ONLY);
	NestSys nest;
	SortX<Tracked> sxt("sort<Tracked>", 5); SortX<String> sxs("sort<String>", 5); SortX<int> sxi("sort<int>", 5);
	int cSortCases = vf::counter("sort.sequences");
	if (vf::opt.replay) {
		const std::string& k = vf::opt.kase;
		bool rep = false;
		std::string arg = k.find(':') == std::string::npos ? "" : k.substr(k.find(':') + 1);
		if (arg == "-") arg = "";
		vf::parallel(1, [&](uint64_t) {
			if (k.compare(0, 10, "array<int>") == 0) rep = vf::Bfs<ArrSys<int> >(ai, "array<int>").replay(k);
			else if (k.compare(0, 14, "array<Tracked>") == 0) rep = vf::Bfs<ArrSys<Tracked> >(at, "array<Tracked>").replay(k);
			else if (k.compare(0, 13, "array<String>") == 0) rep = vf::Bfs<ArrSys<String> >(as, "array<String>").replay(k);
			else if (k.compare(0, 11, "arrayx<int>") == 0) rep = vf::Bfs<ArrSys<int> >(xi, "arrayx<int>").replay(k);
			else if (k.compare(0, 15, "arrayx<Tracked>") == 0) rep = vf::Bfs<ArrSys<Tracked> >(xt, "arrayx<Tracked>").replay(k);
			else if (k.compare(0, 14, "arrayx<String>") == 0) rep = vf::Bfs<ArrSys<String> >(xs, "arrayx<String>").replay(k);
			else if (k.compare(0, 15, "stackq<Tracked>") == 0) rep = vf::Bfs<SQSys<Tracked> >(sq, "stackq<Tracked>").replay(k);
			else if (k.compare(0, 14, "stackq<String>") == 0) rep = vf::Bfs<SQSys<String> >(sqs, "stackq<String>").replay(k);
			else if (k.compare(0, 14, "stack<Tracked>") == 0) rep = vf::Bfs<SQSys<Tracked> >(stt, "stack<Tracked>").replay(k);
			else if (k.compare(0, 13, "stack<String>") == 0) rep = vf::Bfs<SQSys<String> >(sts, "stack<String>").replay(k);
			else if (k.compare(0, 14, "queue<Tracked>") == 0) rep = vf::Bfs<SQSys<Tracked> >(qut, "queue<Tracked>").replay(k);
			else if (k.compare(0, 13, "queue<String>") == 0) rep = vf::Bfs<SQSys<String> >(qus, "queue<String>").replay(k);
			else if (k.compare(0, 4, "nest") == 0) rep = vf::Bfs<NestSys>(nest, "nest").replay(k);
			else if (k.compare(0, 13, "sort<Tracked>") == 0) { sxt.run_case(arg); rep = !sxt.run_case(arg); }
			else if (k.compare(0, 12, "sort<String>") == 0) { sxs.run_case(arg); rep = !sxs.run_case(arg); }
			else if (k.compare(0, 9, "sort<int>") == 0) { sxi.run_case(arg); rep = !sxi.run_case(arg); }
		});
		return vf::finish();
	}
	// development aid: C01_ONLY=<prefix>[,<prefix>...] runs only the systems whose label starts with a prefix (run marked non-exhaustive)
	const char* only = getenv("C01_ONLY");
	auto want = [&](const char* label) {
		if (!only || !*only) return true;
		std::string o(only), l(label);
		for (size_t p = 0; p <= o.size();) { size_t e = o.find(',', p); if (e == std::string::npos) e = o.size(); if (e > p && l.compare(0, e - p, o, p, e - p) == 0) return true; p = e + 1; }
		return false;
	};
	if (only && *only) vf::cap_hit(std::string("C01_ONLY=") + only + ": only some systems were run");
	if (want("array<Tracked>")) runBfs(at, "array<Tracked>", T ? 7 : 6, 0);
	if (want("array<int>")) runBfs(ai, "array<int>", T ? 7 : 6, 0);
	if (want("array<String>")) runBfs(as, "array<String>", T ? 6 : 5, 0);
	if (want("arrayx<Tracked>")) runBfs(xt, "arrayx<Tracked>", T ? 6 : 5, 0);
	if (want("arrayx<String>")) runBfs(xs, "arrayx<String>", T ? 5 : 4, 0);
	if (want("arrayx<int>")) runBfs(xi, "arrayx<int>", T ? 5 : 4, 0);
	if (want("nest")) runBfs(nest, "nest", T ? 9 : 7, 0);
	if (want("stack<Tracked>")) runBfs(stt, "stack<Tracked>", T ? 12 : 10, 0);
	if (want("stack<String>")) runBfs(sts, "stack<String>", T ? 11 : 9, 0);
	if (want("queue<Tracked>")) runBfs(qut, "queue<Tracked>", T ? 12 : 10, 0);
	if (want("queue<String>")) runBfs(qus, "queue<String>", T ? 11 : 9, 0);
	if (want("sort<Tracked>")) sxt.run(T ? 8 : 7, cSortCases);
	if (want("sort<String>")) sxs.run(T ? 7 : 6, cSortCases);
	if (want("sort<int>")) sxi.run(T ? 8 : 7, cSortCases);
	vf::add(cS, totS); vf::add(cT, totT); vf::add(cTr, totTr + vf::get(cSortCases)); // a sort sequence is one more case run on the real code
	return vf::finish();
}
