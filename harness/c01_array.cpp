// C01 — Array / Stack / Queue as a sequence: explicit-state BFS over operation histories on the real
// containers (several handles, clones, aliasing arguments) against std::vector.
#include <asl/Array.h>
#include <asl/Stack.h>
#include <asl/Queue.h>
#include <asl/String.h>
#include <memory>
#include <set>
#include "vf.h"
#include "aslx.h"
using namespace asl;
using vf::fmt;

// ---------------------------------------------------------------- element types
struct Registry {
	std::set<int> live; int next; int errors; std::string firstError;
	Registry() : next(1), errors(0) {}
	void reset() { live.clear(); next = 1; errors = 0; firstError.clear(); }
	int born() { live.insert(next); return next++; }
	void died(int id) { if (!live.erase(id)) { errors++; if (firstError.empty()) firstError = fmt("destructor ran on an element that is not live (id %d)", id); } }
};
static Registry reg;

struct Tracked {
	int id, v; int* payload;
	Tracked() : id(reg.born()), v(0), payload(new int(0)) {}
	Tracked(int x) : id(reg.born()), v(x), payload(new int(x)) {}
	Tracked(const Tracked& o) : id(reg.born()), v(o.v), payload(new int(*o.payload)) {}
	Tracked& operator=(const Tracked& o) { if (!reg.live.count(id)) { reg.errors++; if (reg.firstError.empty()) reg.firstError = "assignment to an element that is not live"; } v = o.v; *payload = *o.payload; return *this; }
	~Tracked() { reg.died(id); delete payload; }
	bool operator==(const Tracked& o) const { return v == o.v; }
	bool operator!=(const Tracked& o) const { return v != o.v; }
	bool operator<(const Tracked& o) const { return v < o.v; }
};

template <class T> struct Tr;
template <> struct Tr<int> { static int make(int v) { return v; } static int val(const int& x) { return x; } static const char* name() { return "int"; } enum { counted = 0, pod = 1 }; };
template <> struct Tr<Tracked> { static Tracked make(int v) { return Tracked(v); } static int val(const Tracked& x) { return x.v == *x.payload ? x.v : -99; } static const char* name() { return "Tracked"; } enum { counted = 1, pod = 0 }; };
template <> struct Tr<String> {
	static String make(int v) { if (v == 0) return String(); String s("element-with-heap-payload-"); s += char('0' + v); return s; }
	static int val(const String& x) { if (x.length() == 0) return 0; if (x.length() != 27 || !x.startsWith("element-with-heap-payload-")) return -99; return x[26] - '0'; }
	static const char* name() { return "String"; }
	enum { counted = 0, pod = 0 };
};

// ---------------------------------------------------------------- operations
enum Kind { K_NEW, K_NEWN, K_APPEND, K_INSERT, K_APPEND_ALIAS, K_INSERT_ALIAS, K_REMOVE, K_REMOVE2, K_REMOVELAST, K_REMOVEONE, K_REMOVEONE_ALIAS, K_REMOVEIF,
	K_RESIZE, K_RESERVE, K_SORT, K_REVERSED, K_SLICE, K_APPEND_SELF, K_CONCAT_SELF, K_FILTER, K_MAP, K_DUP, K_SELFASSIGN, K_BIG,
	K_CLONE, K_COPYH, K_ASSIGN, K_APPEND_OTHER, K_COPYFROM, K_CONCAT_EMPTY_TO, K_CONCAT_OTHER, K_SLICE_TO, K_FILTER_TO, K_DROP };
struct Op { Kind k; int h, j, a; };
enum { FRONT = 0, MID = 1, END = 2 };
enum { R_DEC = 0, R_INC = 1, R_CAP = 2, R_CAP1 = 3, R_ZERO = 4 };

static int W_GROW_MALLOC, W_GROW_REALLOC_RESERVE, W_GROW_INSERT, W_INSERT_SHIFT, W_SHARED_OP, W_ALIAS_OP, W_ALIAS_GROW, W_TWO_OBJECTS, W_CLONE_THEN_MUT, W_ELEMS_DESTROYED;

template <class T>
struct ArrSys {
	enum { NS = 3, MAXN = 9 };
	std::vector<Op> ops;
	Array<T>* is[NS];
	std::shared_ptr<std::vector<int> > ms[NS];
	bool allowBig;
	ArrSys(bool big) : allowBig(big) {
		for (int i = 0; i < NS; i++) is[i] = 0;
		for (int h = 0; h < NS; h++) {
			add(K_NEW, h); add(K_NEWN, h);
			add(K_APPEND, h, 0, 1); add(K_APPEND, h, 0, 2);
			add(K_INSERT, h, 0, FRONT); add(K_INSERT, h, 0, MID); add(K_INSERT, h, 0, END);
			add(K_APPEND_ALIAS, h, 0, FRONT); add(K_APPEND_ALIAS, h, 0, END);
			add(K_INSERT_ALIAS, h, 0, FRONT); add(K_INSERT_ALIAS, h, 0, MID);
			add(K_REMOVE, h, 0, FRONT); add(K_REMOVE, h, 0, MID); add(K_REMOVE, h, 0, END); add(K_REMOVE2, h);
			add(K_REMOVELAST, h); add(K_REMOVEONE, h, 0, 1); add(K_REMOVEONE_ALIAS, h); add(K_REMOVEIF, h);
			for (int m = 0; m < 5; m++) add(K_RESIZE, h, 0, m);
			add(K_RESERVE, h); add(K_SORT, h); add(K_REVERSED, h); add(K_SLICE, h, 0, 0); add(K_SLICE, h, 0, 1);
			add(K_APPEND_SELF, h); add(K_CONCAT_SELF, h); add(K_FILTER, h); add(K_MAP, h); add(K_DUP, h); add(K_SELFASSIGN, h);
			add(K_BIG, h, 0, 90); add(K_BIG, h, 0, 600);
			add(K_DROP, h);
			for (int j = 0; j < NS; j++) if (j != h) { add(K_CLONE, h, j); add(K_COPYH, h, j); add(K_ASSIGN, h, j); add(K_APPEND_OTHER, h, j); add(K_COPYFROM, h, j); add(K_CONCAT_EMPTY_TO, h, j); add(K_CONCAT_OTHER, h, j); add(K_SLICE_TO, h, j); add(K_FILTER_TO, h, j); }
		}
	}
	void add(Kind k, int h, int j = 0, int a = 0) { Op o = { k, h, j, a }; ops.push_back(o); }
	int nops() { return (int)ops.size(); }
	void reset() {
		for (int i = 0; i < NS; i++) { delete is[i]; is[i] = 0; ms[i].reset(); }
		reg.reset();
	}
	int lowestFree() { for (int i = 0; i < NS; i++) if (!ms[i]) return i; return -1; }
	int n(int h) { return (int)ms[h]->size(); }
	bool canGrow(int h, int by = 1) { int x = n(h); return x + by <= MAXN || (allowBig && x >= 90 && x + by <= 93) || (allowBig && x >= 600 && x + by <= 603); }
	bool enabled(int op) {
		const Op& o = ops[op];
		bool live = (bool)ms[o.h];
		switch (o.k) {
		case K_NEW: case K_NEWN: return !live && lowestFree() == o.h; // symmetry: always fill the lowest free slot
		case K_CLONE: case K_COPYH: case K_CONCAT_EMPTY_TO: case K_SLICE_TO: case K_FILTER_TO: return live && !ms[o.j] && lowestFree() == o.j && (o.k == K_CLONE || o.k == K_COPYH || n(o.h) < 50);
		default: break;
		}
		if (!live) return false;
		int N = n(o.h);
		switch (o.k) {
		case K_APPEND: return canGrow(o.h);
		case K_INSERT: return canGrow(o.h) && (o.a != MID || N >= 2);
		case K_APPEND_ALIAS: return N >= 1 && canGrow(o.h) && (o.a == FRONT || N >= 2);
		case K_INSERT_ALIAS: return N >= 2 && canGrow(o.h);
		case K_REMOVE: return N >= 1 && (o.a == FRONT || (o.a == MID && N >= 3) || (o.a == END && N >= 2)) && N < 50;
		case K_REMOVE2: return N >= 2 && N < 50;
		case K_REMOVELAST: return N < 50;
		case K_REMOVEONE: return N < 50;
		case K_REMOVEONE_ALIAS: return N >= 1 && N < 50;
		case K_REMOVEIF: return N >= 1 && N < 50;
		case K_RESIZE:
			if (o.a == R_DEC) return N >= 1;
			if (o.a == R_INC) return canGrow(o.h);
			if (o.a == R_CAP) return is[o.h]->cap() > N && is[o.h]->cap() <= MAXN + 3;
			if (o.a == R_CAP1) return is[o.h]->cap() + 1 <= MAXN + 4 || (allowBig && N >= 90 && is[o.h]->cap() < 700);
			return N >= 1;
		case K_RESERVE: return is[o.h]->cap() <= 2 * MAXN || (allowBig && N >= 90 && is[o.h]->cap() < 700);
		case K_SORT: case K_REVERSED: return N >= 2 && N < 50;
		case K_SLICE: return N >= 2 && N < 50;
		case K_APPEND_SELF: case K_CONCAT_SELF: return N >= 1 && canGrow(o.h, N);
		case K_FILTER: case K_MAP: return N >= 1 && N < 50;
		case K_DUP: case K_SELFASSIGN: return true;
		case K_BIG: return allowBig && N < 50 && N >= 1;
		case K_ASSIGN: return (bool)ms[o.j];
		case K_APPEND_OTHER: return ms[o.j] && n(o.j) >= 1 && canGrow(o.h, n(o.j));
		case K_COPYFROM: return ms[o.j] && n(o.j) < 50;
		case K_CONCAT_OTHER: return ms[o.j] && N < 50 && n(o.j) < 50 && N + n(o.j) <= MAXN;
		case K_DROP: return true;
		default: return false;
		}
	}
	int pos(const Op& o, int N) { return o.a == FRONT ? 0 : o.a == END ? N : N / 2; }
	// capacity needed by op (0 = does not grow)
	int needCap(const Op& o) {
		int N = n(o.h), cap = is[o.h]->cap();
		switch (o.k) {
		case K_APPEND: case K_INSERT: case K_APPEND_ALIAS: case K_INSERT_ALIAS: return N + 1;
		case K_RESIZE: return o.a == R_INC ? N + 1 : o.a == R_CAP ? cap : o.a == R_CAP1 ? cap + 1 : 0;
		case K_RESERVE: return cap + 1;
		case K_APPEND_SELF: return 2 * N;
		case K_BIG: return o.a;
		case K_APPEND_OTHER: return N + n(o.j);
		case K_COPYFROM: return n(o.j);
		default: return 0;
		}
	}
	const char* predict(int op) {
		const Op& o = ops[op];
		if (!ms[o.h] || !is[o.h]) return 0;
		int need = needCap(o);
		if (need > is[o.h]->cap() && ms[o.h].use_count() >= 2) return "grow_while_shared";
		return 0;
	}
	std::string opname(int op) {
		const Op& o = ops[op];
		static const char* P[] = { "front", "mid", "end" };
		static const char* R[] = { "n-1", "n+1", "cap", "cap+1", "0" };
		switch (o.k) {
		case K_NEW: return fmt("h%d = Array()", o.h);
		case K_NEWN: return fmt("h%d = Array(2)", o.h);
		case K_APPEND: return fmt("h%d << %d", o.h, o.a);
		case K_INSERT: return fmt("h%d.insert(%s, 3)", o.h, P[o.a]);
		case K_APPEND_ALIAS: return fmt("h%d << h%d[%s]", o.h, o.h, o.a == FRONT ? "0" : "n-1");
		case K_INSERT_ALIAS: return o.a == FRONT ? fmt("h%d.insert(0, h%d[n-1])", o.h, o.h) : fmt("h%d.insert(n/2, h%d[0])", o.h, o.h);
		case K_REMOVE: return fmt("h%d.remove(%s)", o.h, o.a == FRONT ? "0" : o.a == MID ? "n/2" : "n-1");
		case K_REMOVE2: return fmt("h%d.remove(0, 2)", o.h);
		case K_REMOVELAST: return fmt("h%d.removeLast()", o.h);
		case K_REMOVEONE: return fmt("h%d.removeOne(1)", o.h);
		case K_REMOVEONE_ALIAS: return fmt("h%d.removeOne(h%d[n-1])", o.h, o.h);
		case K_REMOVEIF: return fmt("h%d.removeIf(x==2)", o.h);
		case K_RESIZE: return fmt("h%d.resize(%s)", o.h, R[o.a]);
		case K_RESERVE: return fmt("h%d.reserve(cap+1)", o.h);
		case K_SORT: return fmt("h%d.sort()", o.h);
		case K_REVERSED: return fmt("h%d = h%d.reversed()", o.h, o.h);
		case K_SLICE: return o.a == 0 ? fmt("h%d = h%d.slice(1)", o.h, o.h) : fmt("h%d = h%d.slice(0, n-1)", o.h, o.h);
		case K_APPEND_SELF: return fmt("h%d.append(h%d)", o.h, o.h);
		case K_CONCAT_SELF: return fmt("h%d = h%d | h%d", o.h, o.h, o.h);
		case K_FILTER: return fmt("h%d = h%d.filter(x!=2)", o.h, o.h);
		case K_MAP: return fmt("h%d = h%d.map((x+1)%%4)", o.h, o.h);
		case K_DUP: return fmt("h%d.dup()", o.h);
		case K_SELFASSIGN: return fmt("h%d = h%d", o.h, o.h);
		case K_BIG: return fmt("h%d.resize(%d)", o.h, o.a);
		case K_CLONE: return fmt("h%d = h%d.clone()", o.j, o.h);
		case K_COPYH: return fmt("h%d = copy-of-handle h%d", o.j, o.h);
		case K_ASSIGN: return fmt("h%d = h%d", o.j, o.h);
		case K_APPEND_OTHER: return fmt("h%d.append(h%d)", o.h, o.j);
		case K_COPYFROM: return fmt("h%d.copy(h%d)", o.h, o.j);
		case K_CONCAT_EMPTY_TO: return fmt("h%d = h%d.concat(Array())", o.j, o.h);
		case K_CONCAT_OTHER: return fmt("h%d = h%d | h%d", o.h, o.h, o.j);
		case K_SLICE_TO: return fmt("h%d = h%d.slice(0)", o.j, o.h);
		case K_FILTER_TO: return fmt("h%d = h%d.filter(x!=2)", o.j, o.h);
		case K_DROP: return fmt("drop h%d", o.h);
		}
		return "?";
	}
	static bool is2(const T& x) { return Tr<T>::val(x) == 2; }
	static bool not2(const T& x) { return Tr<T>::val(x) != 2; }
	static T inc(const T& x) { return Tr<T>::make((Tr<T>::val(x) + 1) % 4); }
	void fillNew(Array<T>& a, int from) { if (Tr<T>::pod) for (int i = from; i < a.length(); i++) a[i] = Tr<T>::make(0); }
	bool apply(int op, std::string& err) {
		const Op& o = ops[op];
		Array<T>* A = is[o.h];
		std::shared_ptr<std::vector<int> > M = ms[o.h];
		int N = M ? (int)M->size() : 0;
		bool shared = M && M.use_count() > 2; // M itself is one reference
		if (shared) vf::add(W_SHARED_OP);
		int capBefore = A ? A->cap() : 0;
		switch (o.k) {
		case K_NEW: is[o.h] = new Array<T>(); ms[o.h] = std::make_shared<std::vector<int> >(); break;
		case K_NEWN: is[o.h] = new Array<T>(2); fillNew(*is[o.h], 0); ms[o.h] = std::make_shared<std::vector<int> >(2, 0); break;
		case K_APPEND: *A << Tr<T>::make(o.a); M->push_back(o.a); break;
		case K_INSERT: { int k = pos(o, N); if (k < N) vf::add(W_INSERT_SHIFT); A->insert(k, Tr<T>::make(3)); M->insert(M->begin() + k, 3); break; }
		case K_APPEND_ALIAS: { int i = o.a == FRONT ? 0 : N - 1; vf::add(W_ALIAS_OP); if (N == capBefore) vf::add(W_ALIAS_GROW); *A << (*A)[i]; int v = (*M)[i]; M->push_back(v); break; }
		case K_INSERT_ALIAS: { int k = o.a == FRONT ? 0 : N / 2, i = o.a == FRONT ? N - 1 : 0; vf::add(W_ALIAS_OP); if (N == capBefore) vf::add(W_ALIAS_GROW); A->insert(k, (*A)[i]); int v = (*M)[i]; M->insert(M->begin() + k, v); break; }
		case K_REMOVE: { int i = o.a == FRONT ? 0 : o.a == MID ? N / 2 : N - 1; A->remove(i); M->erase(M->begin() + i); vf::add(W_ELEMS_DESTROYED); break; }
		case K_REMOVE2: A->remove(0, 2); M->erase(M->begin(), M->begin() + 2); break;
		case K_REMOVELAST: A->removeLast(); if (N) M->pop_back(); break;
		case K_REMOVEONE: { bool r = A->removeOne(Tr<T>::make(1)); std::vector<int>::iterator it = std::find(M->begin(), M->end(), 1); bool e = it != M->end(); if (e) M->erase(it); if (r != e) { err = "removeOne return value"; return false; } break; }
		case K_REMOVEONE_ALIAS: { vf::add(W_ALIAS_OP); bool r = A->removeOne((*A)[N - 1]); std::vector<int>::iterator it = std::find(M->begin(), M->end(), (*M)[N - 1]); M->erase(it); if (!r) { err = "removeOne(a[n-1]) returned false"; return false; } break; }
		case K_REMOVEIF: A->removeIf(is2); M->erase(std::remove(M->begin(), M->end(), 2), M->end()); break;
		case K_RESIZE: { int m = o.a == R_DEC ? N - 1 : o.a == R_INC ? N + 1 : o.a == R_CAP ? capBefore : o.a == R_CAP1 ? capBefore + 1 : 0; A->resize(m); fillNew(*A, N); M->resize(m, 0); break; }
		case K_RESERVE: A->reserve(capBefore + 1); break;
		case K_SORT: A->sort(); std::sort(M->begin(), M->end()); break;
		case K_REVERSED: { *A = A->reversed(); std::shared_ptr<std::vector<int> > r = std::make_shared<std::vector<int> >(M->rbegin(), M->rend()); ms[o.h] = r; break; }
		case K_SLICE: { int i1 = o.a == 0 ? 1 : 0, i2 = o.a == 0 ? 0 : N - 1; *A = o.a == 0 ? A->slice(1) : A->slice(0, N - 1); int e = i2 == 0 ? N : i2; ms[o.h] = std::make_shared<std::vector<int> >(M->begin() + i1, M->begin() + e); break; }
		case K_APPEND_SELF: { vf::add(W_ALIAS_OP); A->append(*A); std::vector<int> c(*M); M->insert(M->end(), c.begin(), c.end()); break; }
		case K_CONCAT_SELF: { *A = *A | *A; std::shared_ptr<std::vector<int> > r = std::make_shared<std::vector<int> >(*M); r->insert(r->end(), M->begin(), M->end()); ms[o.h] = r; break; }
		case K_FILTER: { *A = A->filter(not2); std::shared_ptr<std::vector<int> > r = std::make_shared<std::vector<int> >(); for (int i = 0; i < N; i++) if ((*M)[i] != 2) r->push_back((*M)[i]); ms[o.h] = r; break; }
		case K_MAP: { *A = A->map(inc); std::shared_ptr<std::vector<int> > r = std::make_shared<std::vector<int> >(); for (int i = 0; i < N; i++) r->push_back(((*M)[i] + 1) % 4); ms[o.h] = r; break; }
		case K_DUP: A->dup(); if (shared) ms[o.h] = std::make_shared<std::vector<int> >(*M); break;
		case K_SELFASSIGN: { Array<T>& self = *A; *A = self; break; }
		case K_BIG: A->resize(o.a); fillNew(*A, N); M->resize(o.a, 0); break;
		case K_CLONE: is[o.j] = new Array<T>(A->clone()); ms[o.j] = std::make_shared<std::vector<int> >(*M); vf::add(W_CLONE_THEN_MUT); break;
		case K_COPYH: is[o.j] = new Array<T>(*A); ms[o.j] = M; break;
		case K_ASSIGN: *is[o.j] = *A; ms[o.j] = M; break;
		case K_APPEND_OTHER: { if (ms[o.j] == M) vf::add(W_ALIAS_OP); std::vector<int> c(*ms[o.j]); A->append(*is[o.j]); M->insert(M->end(), c.begin(), c.end()); break; }
		case K_COPYFROM: { std::vector<int> c(*ms[o.j]); A->copy(*is[o.j]); *M = c; break; }
		case K_CONCAT_EMPTY_TO: is[o.j] = new Array<T>(A->concat(Array<T>())); ms[o.j] = std::make_shared<std::vector<int> >(*M); break;
		case K_CONCAT_OTHER: { std::shared_ptr<std::vector<int> > r = std::make_shared<std::vector<int> >(*M); r->insert(r->end(), ms[o.j]->begin(), ms[o.j]->end()); *A = *A | *is[o.j]; ms[o.h] = r; break; }
		case K_SLICE_TO: is[o.j] = new Array<T>(A->slice(0)); ms[o.j] = std::make_shared<std::vector<int> >(*M); break;
		case K_FILTER_TO: { is[o.j] = new Array<T>(A->filter(not2)); std::shared_ptr<std::vector<int> > r = std::make_shared<std::vector<int> >(); for (int i = 0; i < N; i++) if ((*M)[i] != 2) r->push_back((*M)[i]); ms[o.j] = r; break; }
		case K_DROP: delete is[o.h]; is[o.h] = 0; ms[o.h].reset(); break;
		}
		M.reset();
		if (A && is[o.h] == A && capBefore && A->cap() > capBefore) {
			if (o.k == K_APPEND || o.k == K_INSERT || o.k == K_APPEND_ALIAS || o.k == K_INSERT_ALIAS) vf::add(W_GROW_INSERT);
			else if ((size_t)capBefore * sizeof(T) < 2048) vf::add(W_GROW_MALLOC); else vf::add(W_GROW_REALLOC_RESERVE);
		}
		return observe(err);
	}
	bool observe(std::string& err) {
		int liveElems = 0, objects = 0;
		std::set<const void*> seenObj;
		for (int h = 0; h < NS; h++) {
			if (!ms[h]) continue;
			const Array<T>& a = *is[h];
			const std::vector<int>& m = *ms[h];
			if (a.length() != (int)m.size()) { err = fmt("h%d.length() = %d, reference %d", h, a.length(), (int)m.size()); return false; }
			if (a.cap() < a.length()) { err = fmt("h%d: capacity %d < length %d", h, a.cap(), a.length()); return false; }
			for (int i = 0; i < a.length(); i++) if (Tr<T>::val(a[i]) != m[i]) { err = fmt("h%d[%d] = %d, reference %d", h, i, Tr<T>::val(a[i]), m[i]); return false; }
			int handles = 0;
			for (int g = 0; g < NS; g++) if (ms[g] == ms[h]) handles++;
			if (a.rc() != handles) { err = fmt("h%d: shared count %d but %d live handles", h, a.rc(), handles); return false; }
			for (int g = 0; g < h; g++) if (ms[g]) {
				bool same = ms[g] == ms[h];
				if (same != (is[g]->data() == a.data())) { err = fmt("h%d and h%d: handle aliasing differs from reference", g, h); return false; }
				bool eq = *is[g] == a, meq = *ms[g] == m;
				if (eq != meq) { err = fmt("h%d == h%d is %d, reference %d", g, h, (int)eq, (int)meq); return false; }
			}
			if (a.length() && Tr<T>::val(a.last()) != m.back()) { err = "last()"; return false; }
			for (int v = 0; v < 4; v++) {
				std::vector<int>::const_iterator it = std::find(m.begin(), m.end(), v);
				int e = it == m.end() ? -1 : (int)(it - m.begin());
				int r = a.indexOf(Tr<T>::make(v));
				if (r != e || a.contains(Tr<T>::make(v)) != (e >= 0)) { err = fmt("h%d.indexOf(%d) = %d, reference %d", h, v, r, e); return false; }
			}
			if (seenObj.insert(a.data()).second) { liveElems += a.length(); objects++; }
		}
		if (objects >= 2) vf::add(W_TWO_OBJECTS);
		if (Tr<T>::counted) {
			if (reg.errors) { err = reg.firstError; return false; }
			if ((int)reg.live.size() != liveElems) { err = fmt("%d element instances alive but live arrays hold %d elements (constructed/destroyed other than exactly once)", (int)reg.live.size(), liveElems); return false; }
		}
		return true;
	}
	std::string canon() {
		std::string s;
		std::map<const void*, int> ids;
		for (int h = 0; h < NS; h++) {
			if (!ms[h]) { s += "-|"; continue; }
			std::map<const void*, int>::iterator it = ids.find(ms[h].get());
			if (it != ids.end()) { s += fmt("=%d|", it->second); continue; }
			int id = (int)ids.size(); ids[ms[h].get()] = id;
			s += fmt("#%d c%d r%d:", id, is[h]->cap(), is[h]->rc());
			const std::vector<int>& m = *ms[h];
			if (m.size() > 20) { // big arrays: contents summarised by length + head/tail (ops on them never look further)
				s += fmt("n%d:", (int)m.size());
				for (int i = 0; i < 3; i++) s += char('0' + m[i]);
				s += "..";
				for (size_t i = m.size() - 4; i < m.size(); i++) s += char('0' + m[i]);
			} else for (size_t i = 0; i < m.size(); i++) s += char('0' + m[i]);
			s += "|";
		}
		return s;
	}
};

// ---------------------------------------------------------------- Stack / Queue
template <class T>
struct SQSys {
	enum K { S_PUSH, S_POP, S_POPN, S_POPGET, S_SHR, S_TOPSET, Q_PUT, Q_GET, Q_SHL, Q_SHR, S_PUSH_TOP, Q_PUT_FRONT };
	struct O { int k, a; };
	std::vector<O> ops;
	Stack<T>* st; Queue<T>* qu;
	std::vector<int> ms, mq;
	SQSys() : st(0), qu(0) {
		int ks[] = { S_PUSH, S_PUSH, S_POP, S_POPN, S_POPGET, S_SHR, S_TOPSET, S_PUSH_TOP, Q_PUT, Q_PUT, Q_GET, Q_SHL, Q_SHR, Q_PUT_FRONT };
		int as[] = { 1, 2, 0, 2, 0, 0, 3, 0, 1, 2, 0, 3, 0, 0 };
		for (size_t i = 0; i < sizeof ks / sizeof *ks; i++) { O o = { ks[i], as[i] }; ops.push_back(o); }
	}
	int nops() { return (int)ops.size(); }
	void reset() { delete st; delete qu; st = 0; qu = 0; ms.clear(); mq.clear(); std::vector<int>().swap(ms); std::vector<int>().swap(mq); reg.reset(); st = new Stack<T>(); qu = new Queue<T>(); }
	bool enabled(int op) {
		const O& o = ops[op];
		switch (o.k) {
		case S_PUSH: return ms.size() < 8;
		case S_POP: case S_POPGET: case S_SHR: case S_TOPSET: return ms.size() >= 1;
		case S_PUSH_TOP: return ms.size() >= 1 && ms.size() < 8;
		case S_POPN: return ms.size() >= 2;
		case Q_PUT: case Q_SHL: return mq.size() < 8;
		case Q_GET: case Q_SHR: return mq.size() >= 1;
		case Q_PUT_FRONT: return mq.size() >= 1 && mq.size() < 8;
		}
		return false;
	}
	const char* predict(int) { return 0; }
	std::string opname(int op) {
		static const char* N[] = { "stack.push(%d)", "stack.pop()", "stack.pop(%d)", "stack.popget()", "stack >> x", "stack.top() = %d", "queue.put(%d)", "queue.get()", "queue << %d", "queue >> x", "stack.push(stack.top())", "queue.put(queue[0])" };
		return fmt(N[ops[op].k], ops[op].a);
	}
	bool apply(int op, std::string& err) {
		const O& o = ops[op];
		switch (o.k) {
		case S_PUSH: st->push(Tr<T>::make(o.a)); ms.push_back(o.a); break;
		case S_POP: st->pop(); ms.pop_back(); break;
		case S_POPN: st->pop(2); ms.pop_back(); ms.pop_back(); break;
		case S_POPGET: { T x = st->popget(); if (Tr<T>::val(x) != ms.back()) { err = "popget value"; return false; } ms.pop_back(); break; }
		case S_SHR: { T x = Tr<T>::make(0); *st >> x; if (Tr<T>::val(x) != ms.back()) { err = "stack >> value"; return false; } ms.pop_back(); break; }
		case S_TOPSET: st->top() = Tr<T>::make(o.a); ms.back() = o.a; break;
		case S_PUSH_TOP: st->push(st->top()); ms.push_back(ms.back()); break;
		case Q_PUT: qu->put(Tr<T>::make(o.a)); mq.push_back(o.a); break;
		case Q_SHL: *qu << Tr<T>::make(o.a); mq.push_back(o.a); break;
		case Q_GET: { T x = qu->get(); if (Tr<T>::val(x) != mq.front()) { err = "queue.get value"; return false; } mq.erase(mq.begin()); break; }
		case Q_SHR: { T x = Tr<T>::make(0); *qu >> x; if (Tr<T>::val(x) != mq.front()) { err = "queue >> value"; return false; } mq.erase(mq.begin()); break; }
		case Q_PUT_FRONT: qu->put((*qu)[0]); mq.push_back(mq.front()); break;
		}
		if (st->length() != (int)ms.size() || qu->length() != (int)mq.size()) { err = "length"; return false; }
		for (size_t i = 0; i < ms.size(); i++) if (Tr<T>::val((*st)[(int)i]) != ms[i] || Tr<T>::val(st->top((int)(ms.size() - 1 - i))) != ms[i]) { err = fmt("stack[%d]", (int)i); return false; }
		for (size_t i = 0; i < mq.size(); i++) if (Tr<T>::val((*qu)[(int)i]) != mq[i]) { err = fmt("queue[%d]", (int)i); return false; }
		if (Tr<T>::counted) {
			if (reg.errors) { err = reg.firstError; return false; }
			if (reg.live.size() != ms.size() + mq.size()) { err = fmt("%d element instances alive, containers hold %d", (int)reg.live.size(), (int)(ms.size() + mq.size())); return false; }
		}
		return true;
	}
	std::string canon() {
		std::string s = fmt("S c%d:", st->cap());
		for (size_t i = 0; i < ms.size(); i++) s += char('0' + ms[i]);
		s += fmt("|Q c%d:", qu->cap());
		for (size_t i = 0; i < mq.size(); i++) s += char('0' + mq[i]);
		return s;
	}
};

static uint64_t totS, totT, totTr;
template <class Sys>
static void runBfs(Sys& sys, const std::string& label, int depth, uint64_t maxStates) {
	vf::Bfs<Sys> b(sys, label);
	vf::BfsResult r = b.run(depth, maxStates);
	totS += r.states; totT += r.transitions; totTr += r.traces;
	std::string pd;
	for (size_t i = 0; i < r.per_depth.size(); i++) pd += fmt(i ? ",%llu" : "%llu", (unsigned long long)r.per_depth[i]);
	vf::setinfo(label, fmt("{\"depth_completed\": %d, \"states\": %llu, \"transitions\": %llu, \"fixed_point\": %s, \"new_states_per_depth\": [%s], \"op_alphabet\": %d}", r.depth_done, (unsigned long long)r.states, (unsigned long long)r.transitions, r.fixed_point ? "true" : "false", pd.c_str(), sys.nops()));
}

int main(int argc, char** argv) {
	vf::init(argc, argv, "C01", "c01_array");
	int cS = vf::counter("states"), cT = vf::counter("transitions"), cTr = vf::counter("traces");
	W_GROW_MALLOC = vf::counter("w.reserve_growth_malloc_copy"); W_GROW_REALLOC_RESERVE = vf::counter("w.reserve_growth_realloc_over_2048B"); W_GROW_INSERT = vf::counter("w.insert_growth_realloc");
	W_INSERT_SHIFT = vf::counter("w.insert_with_shift"); W_SHARED_OP = vf::counter("w.op_through_shared_handle"); W_ALIAS_OP = vf::counter("w.aliasing_argument_op"); W_ALIAS_GROW = vf::counter("w.aliasing_insert_at_full_capacity");
	W_TWO_OBJECTS = vf::counter("w.states_with_two_distinct_arrays"); W_CLONE_THEN_MUT = vf::counter("w.clones_made"); W_ELEMS_DESTROYED = vf::counter("w.remove_ops");
	bool T = vf::opt.thorough();
	ArrSys<int> ai(true); ArrSys<Tracked> at(true); ArrSys<String> as(true);
	SQSys<Tracked> sq; SQSys<String> sqs;
	if (vf::opt.replay) {
		const std::string& k = vf::opt.kase;
		bool rep = false;
		vf::parallel(1, [&](uint64_t) {
			if (k.compare(0, 10, "array<int>") == 0) rep = vf::Bfs<ArrSys<int> >(ai, "array<int>").replay(k);
			else if (k.compare(0, 14, "array<Tracked>") == 0) rep = vf::Bfs<ArrSys<Tracked> >(at, "array<Tracked>").replay(k);
			else if (k.compare(0, 13, "array<String>") == 0) rep = vf::Bfs<ArrSys<String> >(as, "array<String>").replay(k);
			else if (k.compare(0, 15, "stackq<Tracked>") == 0) rep = vf::Bfs<SQSys<Tracked> >(sq, "stackq<Tracked>").replay(k);
			else if (k.compare(0, 14, "stackq<String>") == 0) rep = vf::Bfs<SQSys<String> >(sqs, "stackq<String>").replay(k);
		});
		return vf::finish();
	}
	runBfs(at, "array<Tracked>", T ? 7 : 6, 0);
	runBfs(ai, "array<int>", T ? 7 : 6, 0);
	runBfs(as, "array<String>", T ? 6 : 5, 0);
	runBfs(sq, "stackq<Tracked>", T ? 11 : 9, 0);
	runBfs(sqs, "stackq<String>", T ? 10 : 8, 0);
	vf::add(cS, totS); vf::add(cT, totT); vf::add(cTr, totTr);
	return vf::finish();
}
