// C20 part 3 — rotation representations: Euler angles (12 axis orders x moving / fixed frames), rotation matrix,
// unit quaternion, axis-angle (rotation vector). Every asl conversion is run on complete grids of rotations and its
// result is compared AS A ROTATION (max-abs distance of 3x3 matrices) with a long-double reference built from the
// semantic definition of each representation. Degenerate triples (gimbal lock, proper-Euler middle angle 0 / 180 deg),
// 0 deg and 180 deg axis-angle and all four branches of Matrix4::rotation() are part of the grids; branch witnesses are
// counted by classifying the input exactly as the code does.
// Extension after the coverage review: middle angles at (m/8)*2^-e from the degenerate value (every octave between the coarse grid
// and "degenerate up to rounding"), angles 15 deg * 2^-j down to 2^-40, the quaternion's own axis()/angle()/axisAngle() on
// quaternions made from an axis and an angle, a zero axis; bit-identity (fixed-frame vs moving-frame rotateE, int vs string API) is
// used only to save work, never as an oracle.
#include <asl/Matrix4.h>
#include <asl/Quaternion.h>
#include "c20_common.h"
using namespace asl;
using namespace c20;
using vf::fmt;

uint64_t Fp::P = 2305843009213693951ULL, Fp::K = 1, Fp::divzero = 0;
int64_t Sym::div = 0; int Sym::ndiv = 0, Sym::unsupported = 0;

static int C_EVAL, C_DISTINCT, C_HUBS;
static int W_ROT[4], W_TB_REG, W_TB_PLUS, W_TB_MINUS, W_PR_REG, W_PR_ZERO, W_PR_PI, W_DEG_NOISY, W_DEG_EXACT, W_AA_ZERO, W_AA_180, W_FIXED, W_MOVING, W_QNEG, W_INTAPI;
// extension (coverage review): near-degenerate Euler inputs by decade of rho, small angles, fixed-frame sources that are not
// bit-identical to a moving-frame one, int API results that are not bit-identical to the string API, special quaternion branches
static int W_NEAR[4], W_NEAR_SRC, W_SMALL_SRC, W_SMALL_TINY, W_FIXED_SAME, C_FIXED_OWN, C_API_DIFF, W_ANGLE_WRAP, W_ANGLE_WNEG1, W_ANGLE_WPOS1, W_ZERO_VEC, W_ZERO_AXIS, C_KEY_ABOVE1;
static Reporter rep;
static MaxTrack mx;

// tolerances, in units of the machine epsilon of the type under test ("the same rotation" in floating point)
static const long double TOL_DIRECT = 16;  // representation -> matrix / quaternion: a handful of roundings
static const long double TOL_BACK = 64;    // matrix -> angles / quaternion / axis-angle, times the conditioning factor below

static const long double PIL = 3.14159265358979323846264338327950288L;

struct R3 { long double m[9]; long double& operator()(int i, int j) { return m[i * 3 + j]; } long double operator()(int i, int j) const { return m[i * 3 + j]; } };
static R3 ident() { R3 r; for (int i = 0; i < 9; i++) r.m[i] = (i % 4 == 0); return r; }
static R3 mul(const R3& a, const R3& b) { R3 c; for (int i = 0; i < 3; i++) for (int j = 0; j < 3; j++) { long double s = 0; for (int k = 0; k < 3; k++) s += a(i, k) * b(k, j); c(i, j) = s; } return c; }
static long double dist(const R3& a, const R3& b) { long double d = 0; for (int i = 0; i < 9; i++) { long double e = fabsl(a.m[i] - b.m[i]); if (!(e <= d)) d = (e != e) ? INFINITY : e; } return d; }
// elementary rotation about coordinate axis ax: the right-handed rotation that turns axis ax+1 towards axis ax+2
static R3 raxis(int ax, long double t) {
	R3 r = ident(); int u = (ax + 1) % 3, v = (ax + 2) % 3; long double c = cosl(t), s = sinl(t);
	r(u, u) = c; r(v, v) = c; r(v, u) = s; r(u, v) = -s;
	return r;
}
static const char* ORDERS[12] = { "XYZ", "XZY", "YXZ", "YZX", "ZXY", "ZYX", "XYX", "XZX", "YXY", "YZY", "ZXZ", "ZYZ" };
static std::string conv_name(int c) { return std::string(ORDERS[c >> 1]) + ((c & 1) ? "*" : ""); }
// moving axes (intrinsic): R = R_s0(e0) R_s1(e1) R_s2(e2); fixed axes (extrinsic, "*"): first about fixed s0 by e0, then
// about fixed s1 by e1, then about fixed s2 by e2: R = R_s2(e2) R_s1(e1) R_s0(e0)
static R3 ref_euler(const long double* e, int c) {
	const char* s = ORDERS[c >> 1];
	R3 a = raxis(s[0] - 'X', e[0]), b = raxis(s[1] - 'X', e[1]), d = raxis(s[2] - 'X', e[2]);
	return (c & 1) ? mul(d, mul(b, a)) : mul(a, mul(b, d));
}
// rotation of a (not necessarily unit) quaternion: v -> q v q^-1
static R3 ref_quat(long double w, long double x, long double y, long double z) {
	long double n = sqrtl(w * w + x * x + y * y + z * z); w /= n; x /= n; y /= n; z /= n;
	R3 r;
	long double v[3] = { x, y, z }, vv = x * x + y * y + z * z;
	long double K[9] = { 0, -z, y, z, 0, -x, -y, x, 0 };
	for (int i = 0; i < 3; i++) for (int j = 0; j < 3; j++) r(i, j) = (i == j ? w * w - vv : 0) + 2 * v[i] * v[j] + 2 * w * K[i * 3 + j];
	return r;
}
// Rodrigues: rotation by angle about axis (any non-zero length; zero axis or zero angle = identity)
static R3 ref_axis_angle(long double ax, long double ay, long double az, long double angle) {
	long double n = sqrtl(ax * ax + ay * ay + az * az);
	if (n == 0) return ident();
	ax /= n; ay /= n; az /= n;
	long double K[9] = { 0, -az, ay, az, 0, -ax, -ay, ax, 0 }, s = sinl(angle), c1 = 1 - cosl(angle);
	if (fabsl(angle) < 1e-3L) c1 = 2 * sinl(angle / 2) * sinl(angle / 2);
	R3 r = ident();
	for (int i = 0; i < 3; i++) for (int j = 0; j < 3; j++) { long double k2 = 0; for (int k = 0; k < 3; k++) k2 += K[i * 3 + k] * K[k * 3 + j]; r(i, j) += s * K[i * 3 + j] + c1 * k2; }
	return r;
}
static R3 ref_rotvec(long double x, long double y, long double z) { return ref_axis_angle(x, y, z, sqrtl(x * x + y * y + z * z)); }
// rotation angle of a (reference) rotation matrix: sin(theta/2) for the conditioning of acos-based angle extraction
// (angle from the antisymmetric part and the trace together: 1 - cos alone cancels completely for angles below 1e-9)
static long double half_angle_sin(const R3& r) {
	long double c = (r(0, 0) + r(1, 1) + r(2, 2) - 1) / 2, a = r(2, 1) - r(1, 2), b = r(0, 2) - r(2, 0), d = r(1, 0) - r(0, 1);
	long double s = sqrtl(a * a + b * b + d * d) / 2;
	return fabsl(sinl(atan2l(s, c) / 2));
}

template <class T> struct N { static const char* m4() { return sizeof(T) == 4 ? "Matrix4" : "Matrix4d"; } static const char* q() { return sizeof(T) == 4 ? "Quaternion" : "Quaterniond"; } static char tag() { return sizeof(T) == 4 ? 'f' : 'd'; } };
template <class T> static R3 top3(const Matrix4_<T>& m) { R3 r; for (int i = 0; i < 3; i++) for (int j = 0; j < 3; j++) r(i, j) = (long double)m(i, j); return r; }
template <class T> static bool affine_ok(const Matrix4_<T>& m) { return m(0, 3) == 0 && m(1, 3) == 0 && m(2, 3) == 0 && m(3, 0) == 0 && m(3, 1) == 0 && m(3, 2) == 0 && m(3, 3) == 1; }
static std::string deg3(long double a, long double b, long double c) { return fmt("(%.6Lg, %.6Lg, %.6Lg) deg", a * 180 / PIL, b * 180 / PIL, c * 180 / PIL); }

template <class T> static void report(const char* sig, const std::string& what, long double d, long double tol, const std::string& src, const std::string& kase) {
	const long double eps = std::numeric_limits<T>::epsilon();
	rep.bad(sig, fmt("%s is not the same rotation as the source %s: matrix distance %.3Lg = %.3Lg eps (allowed %.3Lg eps)", what.c_str(), src.c_str(), d, d / eps, tol / eps), kase);
}

// geometry of one Euler convention on a reference rotation: the equivalent moving-axes order (b0,b1,b2), whether it is a
// proper-Euler order, and rho = |cos(middle)| (Tait-Bryan) resp. |sin(middle)| (proper): the size of the elements the two outer
// angles are taken from
struct Conv { int b0, b1, b2, k; bool proper; long double rho; };
static Conv conv_of(const R3& R, int c) {
	Conv v; const char* s = ORDERS[c >> 1];
	v.b0 = ((c & 1) ? s[2] : s[0]) - 'X'; v.b1 = s[1] - 'X'; v.b2 = ((c & 1) ? s[0] : s[2]) - 'X';
	v.proper = v.b0 == v.b2; v.k = 3 - v.b0 - v.b1;
	v.rho = v.proper ? sqrtl(R(v.b1, v.b0) * R(v.b1, v.b0) + R(v.k, v.b0) * R(v.k, v.b0)) : sqrtl(R(v.b1, v.b2) * R(v.b1, v.b2) + R(v.b2, v.b2) * R(v.b2, v.b2));
	return v;
}

// ---- matrix -> Euler angles of convention c; the triple is rebuilt by the reference and compared with R as a rotation
template <class T>
static void euler_back(const Matrix4_<T>& M, const R3& R, int c, const std::string& src, const std::string& kase, int level) {
	const long double eps = std::numeric_limits<T>::epsilon();
	typedef Vec3_<T> V3;
	const char* via = level ? " (matrix obtained through rotation().matrix())" : "";
	const char* s = ORDERS[c >> 1];
	Conv cv = conv_of(R, c);
	int b0 = cv.b0, b2 = cv.b2; bool proper = cv.proper; long double rho = cv.rho;
	bool degen = rho <= 4 * eps; // mathematically degenerate up to the rounding of the source angles
	// branch witnesses: the code decides on the key element (sin resp. cos of the middle angle) being +-1; an input is
	// counted as degenerate when the ROTATION is (rho ~ 0), split by whether the element is exactly +-1 or a few ulps below
	T key = proper ? M(b0, b0) : M(b0, b2);
	bool below1 = fabs(key) < 1;
	if (fabs(key) > 1) vf::add(C_KEY_ABOVE1);
	if (!degen) {
		vf::add(proper ? W_PR_REG : W_TB_REG);
		// near-degenerate but regular inputs, by decade of rho (threshold-agnostic: the harness does not know where the code switches)
		if (rho < 1e-2L) vf::add(W_NEAR[rho >= 1e-4L ? 0 : rho >= 1e-6L ? 1 : rho >= 1e-8L ? 2 : 3]);
	}
	else {
		if (proper) vf::add(key > 0 ? W_PR_ZERO : W_PR_PI); else vf::add(key > 0 ? W_TB_PLUS : W_TB_MINUS);
		vf::add(below1 ? W_DEG_NOISY : W_DEG_EXACT);
		if (below1) mx.see_lazy(sizeof(T) == 4 ? "degenerate_key_deficit_in_eps.f" : "degenerate_key_deficit_in_eps.d", (1 - fabsl((long double)key)) / eps, [&] { return kase + " -> " + conv_name(c); });
	}
	std::string cn = conv_name(c);
	V3 e = M.eulerAngles(cn.c_str());
	vf::add(C_EVAL);
	long double el[3] = { (long double)e.x, (long double)e.y, (long double)e.z };
	long double d = dist(ref_euler(el, c), R);
	// conditioning of the angle extraction: entries of size rho carry absolute errors of size eps
	long double tol = TOL_BACK * eps * (degen ? 1 : std::max(1.0L, 1 / rho));
	if (!(d <= tol))
		// signature classes: regular input; regular input close to the degenerate one (rho < 0.01); degenerate rotation with key element
		// exactly +-1; degenerate rotation whose key element is rounded to a few ulps below 1 ("noisy key")
		report<T>(!degen ? (rho < 1e-2L ? "euler_near_degenerate" : level ? "euler_via_quaternion" : "euler_from_matrix") : below1 ? "euler_gimbal_noisy_key" : "euler_degenerate",
		          fmt("%s::eulerAngles(\"%s\")%s = %s [rho = %.4Lg]", N<T>::m4(), cn.c_str(), via, deg3(el[0], el[1], el[2]).c_str(), rho), d, tol, src, kase);
	mx.see_lazy(sizeof(T) == 4 ? (degen ? "euler_back_degenerate.f" : rho < 1e-2L ? "euler_back_near_degenerate.f" : "euler_back_regular.f") : (degen ? "euler_back_degenerate.d" : rho < 1e-2L ? "euler_back_near_degenerate.d" : "euler_back_regular.d"), d / tol * TOL_BACK, [&] { return kase + " -> " + cn; });
	if (!degen) mx.see_lazy(sizeof(T) == 4 ? "min_rho_regular_inv.f" : "min_rho_regular_inv.d", 1 / rho, [&] { return kase + " -> " + cn; });
	if (level == 0) {
		// int API (moving frames): normally the very same computation as the string API; a result that is not bit-identical is
		// not an error by itself (the statement only asks for the same rotation): it is then checked as a rotation of its own
		if (!(c & 1)) {
			V3 e2 = M.eulerAngles(s[0] - 'X', s[1] - 'X', s[2] - 'X'); vf::add(W_INTAPI);
			if (!(e2.x == e.x && e2.y == e.y && e2.z == e.z)) {
				vf::add(C_API_DIFF);
				long double e2l[3] = { (long double)e2.x, (long double)e2.y, (long double)e2.z };
				long double di = dist(ref_euler(e2l, c), R);
				if (!(di <= tol)) report<T>("euler_int_api", fmt("%s::eulerAngles(%d,%d,%d) = %s", N<T>::m4(), s[0] - 'X', s[1] - 'X', s[2] - 'X', deg3(e2l[0], e2l[1], e2l[2]).c_str()), di, tol, src, kase);
			}
		}
		// angles -> matrix with asl: isolated check of rotateE on these (arbitrary, non-grid) angles
		Matrix4_<T> M2 = Matrix4_<T>::rotateE(e, cn.c_str());
		long double d2 = dist(top3(M2), ref_euler(el, c));
		if (!(d2 <= TOL_DIRECT * eps) || !affine_ok(M2)) report<T>("euler_to_matrix", fmt("%s::rotateE(%s, \"%s\")", N<T>::m4(), deg3(el[0], el[1], el[2]).c_str(), cn.c_str()), d2, TOL_DIRECT * eps, "Euler angles themselves", kase);
		mx.see_lazy(sizeof(T) == 4 ? "euler_to_matrix.f" : "euler_to_matrix.d", d2 / eps, [&] { return kase + " -> " + cn; });
	}
}

// ---- everything that can be derived from a rotation matrix M of type T whose intended rotation is R (reference)
// level 0: M came directly from a representation; level 1: M = q.matrix() of the quaternion extracted from a level-0 M
template <class T>
static void hub(const Matrix4_<T>& M, const R3& R, const std::string& src, const std::string& kase, int level) {
	const long double eps = std::numeric_limits<T>::epsilon();
	typedef Vec3_<T> V3;
	vf::add(C_HUBS);
	const char* via = level ? " (matrix obtained through rotation().matrix())" : "";
	// --- matrix -> Euler angles, all 24 conventions; rebuilt by the reference and by asl's rotateE
	for (int c = 0; c < 24; c++) euler_back<T>(M, R, c, src, kase, level);
	// --- matrix -> quaternion (branch classified like the code does)
	T tr = M(0, 0) + M(1, 1) + M(2, 2);
	int br = tr >= 0 ? 0 : (M(1, 1) > M(0, 0) && M(1, 1) >= M(2, 2)) ? 1 : (M(2, 2) > M(0, 0)) ? 2 : 3;
	vf::add(W_ROT[br]);
	Quaternion_<T> q = M.rotation();
	vf::add(C_EVAL);
	if (q.w < 0) vf::add(W_QNEG);
	long double qn = sqrtl((long double)q.w * q.w + (long double)q.x * q.x + (long double)q.y * q.y + (long double)q.z * q.z);
	if (!(fabsl(qn - 1) <= TOL_BACK * eps)) rep.bad("quaternion_not_unit", fmt("%s::rotation()%s of %s has norm 1%+.3Lg = 1%+.1Lf eps (branch %d)", N<T>::m4(), via, src.c_str(), qn - 1, (qn - 1) / eps, br), kase);
	long double dq = dist(ref_quat(q.w, q.x, q.y, q.z), R);
	if (!(dq <= TOL_BACK * eps)) report<T>("matrix_to_quaternion", fmt("%s::rotation()%s = (%.9g, %.9g, %.9g, %.9g) [branch %d]", N<T>::m4(), via, (double)q.w, (double)q.x, (double)q.y, (double)q.z, br), dq, TOL_BACK * eps, src, kase);
	mx.see_lazy(sizeof(T) == 4 ? "matrix_to_quaternion.f" : "matrix_to_quaternion.d", dq / eps, [&] { return kase; });
	// --- quaternion -> matrix
	Matrix4_<T> Mq = q.matrix();
	long double dm = dist(top3(Mq), ref_quat(q.w, q.x, q.y, q.z));
	vf::add(C_EVAL);
	long double tolm = TOL_DIRECT * eps + 4 * fabsl(qn - 1); // matrix() presumes a unit quaternion: a norm defect d shows up as ~2d in the matrix
	if (!(dm <= tolm) || !affine_ok(Mq)) report<T>("quaternion_to_matrix", fmt("%s(%.9g, %.9g, %.9g, %.9g).matrix()", N<T>::q(), (double)q.w, (double)q.x, (double)q.y, (double)q.z), dm, tolm, "quaternion itself", kase);
	mx.see_lazy(sizeof(T) == 4 ? "quaternion_to_matrix.f" : "quaternion_to_matrix.d", dm / tolm * TOL_DIRECT, [&] { return kase; });
	// --- matrix -> axis-angle, quaternion -> axis-angle (acos of the scalar part: conditioning 1/sin(theta/2))
	long double sh = half_angle_sin(R);
	long double tola = TOL_BACK * eps * (sh <= 4 * eps ? 1 : std::max(1.0L, 1 / sh));
	if (sh <= 4 * eps) vf::add(W_AA_ZERO);
	if (sh >= 1 - 4 * eps) vf::add(W_AA_180);
	V3 v = M.axisAngle();
	vf::add(C_EVAL);
	long double dv = dist(ref_rotvec(v.x, v.y, v.z), R);
	if (!(dv <= tola)) report<T>("matrix_to_axisangle", fmt("%s::axisAngle()%s = (%.9g, %.9g, %.9g)", N<T>::m4(), via, (double)v.x, (double)v.y, (double)v.z), dv, tola, src, kase);
	mx.see_lazy(sizeof(T) == 4 ? "matrix_to_axisangle.f" : "matrix_to_axisangle.d", dv / tola * TOL_BACK, [&] { return kase; });
	// --- axis-angle -> matrix and -> quaternion with asl, on the vector just obtained (isolated checks)
	{
		R3 Rv = ref_rotvec(v.x, v.y, v.z);
		if (v.x == 0 && v.y == 0 && v.z == 0) vf::add(W_ZERO_VEC); // fromAxisAngle's zero-length branch (rotation vector 0 = identity)
		Matrix4_<T> Mv = Matrix4_<T>::rotate(v);
		long double d1 = dist(top3(Mv), Rv);
		if (!(d1 <= TOL_DIRECT * eps) || !affine_ok(Mv)) report<T>("axisangle_to_matrix", fmt("%s::rotate(Vec3(%.9g, %.9g, %.9g))", N<T>::m4(), (double)v.x, (double)v.y, (double)v.z), d1, TOL_DIRECT * eps, "rotation vector itself", kase);
		Quaternion_<T> qv = Quaternion_<T>::fromAxisAngle(v);
		long double d2 = dist(ref_quat(qv.w, qv.x, qv.y, qv.z), Rv);
		if (!(d2 <= TOL_DIRECT * eps)) report<T>("axisangle_to_quaternion", fmt("%s::fromAxisAngle(Vec3(%.9g, %.9g, %.9g))", N<T>::q(), (double)v.x, (double)v.y, (double)v.z), d2, TOL_DIRECT * eps, "rotation vector itself", kase);
		vf::add(C_EVAL, 2);
		mx.see_lazy(sizeof(T) == 4 ? "axisangle_to_matrix.f" : "axisangle_to_matrix.d", std::max(d1, d2) / eps, [&] { return kase; });
	}
	if (level == 0) hub<T>(Mq, R, src, kase, 1);
}

template <class T> static T grid_angle(int i, int steps) { return (T)(2 * PIL * i / steps); }

// "eul:<f|d>:<conv>:<steps>:<i>:<j>:<k>" — Euler triple (i,j,k)*360/steps degrees, i,j,k in [-steps/2, steps/2)
template <class T>
static void check_euler(int c, int steps, int i, int j, int k, bool force_hub = false) {
	const long double eps = std::numeric_limits<T>::epsilon();
	std::string kase = fmt("eul:%c:%d:%d:%d:%d:%d", N<T>::tag(), c, steps, i, j, k);
	vf::cur(kase);
	T e[3] = { grid_angle<T>(i, steps), grid_angle<T>(j, steps), grid_angle<T>(k, steps) };
	long double el[3] = { e[0], e[1], e[2] };
	std::string cn = conv_name(c);
	std::string src = fmt("rotateE(%s, \"%s\")", deg3(el[0], el[1], el[2]).c_str(), cn.c_str());
	R3 R = ref_euler(el, c);
	vf::add(C_DISTINCT); vf::add(C_EVAL);
	if (c & 1) vf::add(W_FIXED); else vf::add(W_MOVING);
	Matrix4_<T> M = Matrix4_<T>::rotateE(Vec3_<T>(e[0], e[1], e[2]), cn.c_str());
	long double d = dist(top3(M), R);
	if (!(d <= TOL_DIRECT * eps) || !affine_ok(M)) report<T>("euler_to_matrix", fmt("%s::rotateE(%s, \"%s\")", N<T>::m4(), deg3(el[0], el[1], el[2]).c_str(), cn.c_str()), d, TOL_DIRECT * eps, "Euler angles themselves", kase);
	if (!(c & 1)) { // int API: the same rotation (bit-identity with the string API is not demanded)
		const char* s = ORDERS[c >> 1];
		Matrix4_<T> Mi = Matrix4_<T>::rotateE(Vec3_<T>(e[0], e[1], e[2]), s[0] - 'X', s[1] - 'X', s[2] - 'X');
		long double di = dist(top3(Mi), R);
		vf::add(C_EVAL);
		if (dist(top3(Mi), top3(M)) != 0) vf::add(C_API_DIFF);
		if (!(di <= TOL_DIRECT * eps) || !affine_ok(Mi)) report<T>("euler_to_matrix", fmt("%s::rotateE(%s, %d, %d, %d)", N<T>::m4(), deg3(el[0], el[1], el[2]).c_str(), s[0] - 'X', s[1] - 'X', s[2] - 'X'), di, TOL_DIRECT * eps, "Euler angles themselves", kase);
	}
	// a fixed-frame triple (e0,e1,e2) of "ABC*" is today formed by the very same products as the moving-frame triple (e2,e1,e0) of
	// "CBA". This is used only to save work: when the matrix is bit-identical to that moving-frame source (which is converted to
	// everything in its own case) the conversions are not repeated; a matrix that differs is converted to everything here.
	if (c & 1) {
		int cr = -1; const char* s = ORDERS[c >> 1];
		for (int o = 0; o < 12; o++) if (ORDERS[o][0] == s[2] && ORDERS[o][1] == s[1] && ORDERS[o][2] == s[0]) cr = o * 2;
		Matrix4_<T> Mr = Matrix4_<T>::rotateE(Vec3_<T>(e[2], e[1], e[0]), conv_name(cr).c_str());
		if (dist(top3(Mr), top3(M)) == 0 && !force_hub) { vf::add(W_FIXED_SAME); return; }
		vf::add(C_FIXED_OWN);
	}
	hub<T>(M, R, src, kase, 0);
}

// "eun:<f|d>:<conv>:<steps>:<i>:<k>:<base>:<sign>:<m>:<e>" — near-degenerate Euler triple: outer angles (i,k)*360/steps degrees,
// middle angle = B +- (m/8)*2^-e rad, B = +90 / -90 deg (Tait-Bryan orders; base 0 / 1) resp. 0 / 180 deg (proper orders).
// m in 8..15, so the offsets fill every octave with eight points: the band between "degenerate up to rounding" (rho <= 4 eps) and
// the coarse grid (rho >= 1/122) is covered down to 2^-52 (float 2^-24), wherever the code under test switches formulas.
// The matrix is converted back in every convention that is near-degenerate for it (rho < 1/16), also via rotation().matrix().
template <class T>
static void check_euler_near(int c, int steps, int i, int k, int base, int sign, int m, int e2) {
	const long double eps = std::numeric_limits<T>::epsilon();
	std::string kase = fmt("eun:%c:%d:%d:%d:%d:%d:%d:%d:%d", N<T>::tag(), c, steps, i, k, base, sign, m, e2);
	vf::cur(kase);
	bool proper = ORDERS[c >> 1][0] == ORDERS[c >> 1][2];
	T B = proper ? (base ? (T)PIL : (T)0) : (base ? -(T)(PIL / 2) : (T)(PIL / 2));
	T off = (T)ldexpl((long double)m / 8, -e2);
	T e[3] = { grid_angle<T>(i, steps), sign ? (T)(B - off) : (T)(B + off), grid_angle<T>(k, steps) };
	long double el[3] = { e[0], e[1], e[2] };
	std::string cn = conv_name(c);
	std::string src = fmt("rotateE((%.6Lg deg, %s%s%d/8*2^-%d rad, %.6Lg deg), \"%s\")", el[0] * 180 / PIL, proper ? (base ? "180 deg" : "0") : (base ? "-90 deg" : "90 deg"), sign ? " - " : " + ", m, e2, el[2] * 180 / PIL, cn.c_str());
	R3 R = ref_euler(el, c);
	vf::add(C_DISTINCT); vf::add(C_EVAL); vf::add(W_NEAR_SRC);
	Matrix4_<T> M = Matrix4_<T>::rotateE(Vec3_<T>(e[0], e[1], e[2]), cn.c_str());
	long double d = dist(top3(M), R);
	if (!(d <= TOL_DIRECT * eps) || !affine_ok(M)) report<T>("euler_to_matrix", fmt("%s::%s", N<T>::m4(), src.c_str()), d, TOL_DIRECT * eps, "Euler angles themselves", kase);
	Matrix4_<T> Mq = M.rotation().matrix();
	vf::add(C_EVAL, 2);
	long double dq = dist(top3(Mq), R);
	if (!(dq <= (TOL_BACK + TOL_DIRECT) * eps)) report<T>("matrix_to_quaternion", fmt("%s::rotation().matrix()", N<T>::m4()), dq, (TOL_BACK + TOL_DIRECT) * eps, src, kase);
	for (int c2 = 0; c2 < 24; c2++) {
		if (!(conv_of(R, c2).rho < 1.0L / 16)) continue;
		euler_back<T>(M, R, c2, src, kase, 0);
		euler_back<T>(Mq, R, c2, src, kase, 1);
	}
}

// what a quaternion says about its own axis and angle, compared with the rotation R it stands for
template <class T>
static void quat_axis_checks(const Quaternion_<T>& q, const R3& R, const std::string& src, const std::string& kase) {
	const long double eps = std::numeric_limits<T>::epsilon();
	long double sh = half_angle_sin(R);
	long double tola = TOL_BACK * eps * (sh <= 4 * eps ? 1 : std::max(1.0L, 1 / sh));
	Vec3_<T> v = q.axisAngle();
	vf::add(C_EVAL);
	long double dv = dist(ref_rotvec(v.x, v.y, v.z), R);
	if (!(dv <= tola)) report<T>("quaternion_to_axisangle", fmt("%s.axisAngle() = (%.9g, %.9g, %.9g)", src.c_str(), (double)v.x, (double)v.y, (double)v.z), dv, tola, src, kase);
	mx.see_lazy(sizeof(T) == 4 ? "quaternion_to_axisangle.f" : "quaternion_to_axisangle.d", dv / tola * TOL_BACK, [&] { return kase; });
	// axis() and angle() separately: rotation by angle() about axis(); axis() is undefined for the identity (no vector part),
	// where angle() alone must be a multiple of 360 degrees
	T an = q.angle();
	vf::add(C_EVAL);
	if (q.w >= 1) vf::add(W_ANGLE_WPOS1); else if (q.w <= -1) vf::add(W_ANGLE_WNEG1); else if (q.w < 0) vf::add(W_ANGLE_WRAP);
	if (q.x != 0 || q.y != 0 || q.z != 0) {
		Vec3_<T> ax = q.axis();
		long double da = dist(ref_axis_angle(ax.x, ax.y, ax.z, an), R);
		if (!(da <= tola)) report<T>("quaternion_axis_angle", fmt("%s: axis() = (%.9g, %.9g, %.9g), angle() = %.9g", src.c_str(), (double)ax.x, (double)ax.y, (double)ax.z, (double)an), da, tola, src, kase);
	}
	else {
		long double da = dist(ref_axis_angle(1, 0, 0, an), R);
		if (!(da <= tola)) report<T>("quaternion_axis_angle", fmt("%s: angle() = %.9g for a quaternion without vector part", src.c_str(), (double)an), da, tola, src, kase);
	}
}

// "quat:<f|d>:<w>:<x>:<y>:<z>" — integer 4-vector, normalised
template <class T>
static void check_quat(int w, int x, int y, int z) {
	const long double eps = std::numeric_limits<T>::epsilon();
	std::string kase = fmt("quat:%c:%d:%d:%d:%d", N<T>::tag(), w, x, y, z);
	vf::cur(kase);
	long double n = sqrtl((long double)(w * w + x * x + y * y + z * z));
	Quaternion_<T> q((T)(w / n), (T)(x / n), (T)(y / n), (T)(z / n));
	R3 R = ref_quat(q.w, q.x, q.y, q.z);
	std::string src = fmt("%s(%d, %d, %d, %d)/%.6Lg", N<T>::q(), w, x, y, z, n);
	vf::add(C_DISTINCT); vf::add(C_EVAL, 2);
	Matrix4_<T> M = q.matrix();
	long double d = dist(top3(M), R);
	if (!(d <= TOL_DIRECT * eps) || !affine_ok(M)) report<T>("quaternion_to_matrix", src + ".matrix()", d, TOL_DIRECT * eps, "quaternion itself", kase);
	quat_axis_checks<T>(q, R, src, kase);
	hub<T>(M, R, src, kase, 0);
}

// rotation by the angle ang (a value of type T) about the integer axis (ax,ay,az), not normalised
template <class T>
static void axis_angle_case(int ax, int ay, int az, T ang, const std::string& kase) {
	const long double eps = std::numeric_limits<T>::epsilon();
	vf::cur(kase);
	R3 R = ref_axis_angle(ax, ay, az, ang);
	std::string src = fmt("rotation by %.6Lg deg about (%d, %d, %d)", (long double)ang * 180 / PIL, ax, ay, az);
	vf::add(C_DISTINCT); vf::add(C_EVAL, 5);
	Vec3_<T> axis((T)ax, (T)ay, (T)az);
	Matrix4_<T> M = Matrix4_<T>::rotate(axis, ang);
	long double d = dist(top3(M), R);
	if (!(d <= TOL_DIRECT * eps) || !affine_ok(M)) report<T>("axisangle_to_matrix", fmt("%s::rotate(Vec3(%d, %d, %d), %.9g)", N<T>::m4(), ax, ay, az, (double)ang), d, TOL_DIRECT * eps, src, kase);
	Quaternion_<T> q = Quaternion_<T>::fromAxisAngle(axis, ang);
	long double dq = dist(ref_quat(q.w, q.x, q.y, q.z), R);
	long double qn = sqrtl((long double)q.w * q.w + (long double)q.x * q.x + (long double)q.y * q.y + (long double)q.z * q.z);
	if (!(dq <= TOL_DIRECT * eps) || !(fabsl(qn - 1) <= TOL_DIRECT * eps)) report<T>("axisangle_to_quaternion", fmt("%s::fromAxisAngle(Vec3(%d, %d, %d), %.9g) (norm %.12Lg)", N<T>::q(), ax, ay, az, (double)ang, qn), dq, TOL_DIRECT * eps, src, kase);
	// the quaternion's own axis / angle / rotation vector (the only place where a quaternion with a very small vector part is asked)
	quat_axis_checks<T>(q, R, fmt("%s::fromAxisAngle(Vec3(%d, %d, %d), %.9g)", N<T>::q(), ax, ay, az, (double)ang), kase);
	// unit-axis variants and the rotation-vector forms
	long double n = sqrtl((long double)(ax * ax + ay * ay + az * az));
	Vec3_<T> u((T)(ax / n), (T)(ay / n), (T)(az / n));
	Quaternion_<T> qu = Quaternion_<T>::fromAxisAngleU(u, ang);
	long double dqu = dist(ref_quat(qu.w, qu.x, qu.y, qu.z), ref_axis_angle(u.x, u.y, u.z, ang));
	if (!(dqu <= TOL_DIRECT * eps)) report<T>("axisangle_to_quaternion", fmt("%s::fromAxisAngleU(unit(%d, %d, %d), %.9g)", N<T>::q(), ax, ay, az, (double)ang), dqu, TOL_DIRECT * eps, src, kase);
	if (ang != 0) {
		Vec3_<T> rv((T)(ax / n * (long double)ang), (T)(ay / n * (long double)ang), (T)(az / n * (long double)ang));
		R3 Rv = ref_rotvec(rv.x, rv.y, rv.z);
		Matrix4_<T> Mv = Matrix4_<T>::rotate(rv);
		long double d1 = dist(top3(Mv), Rv);
		if (!(d1 <= TOL_DIRECT * eps)) report<T>("axisangle_to_matrix", fmt("%s::rotate(Vec3(%.9g, %.9g, %.9g))", N<T>::m4(), (double)rv.x, (double)rv.y, (double)rv.z), d1, TOL_DIRECT * eps, "rotation vector itself", kase);
		Quaternion_<T> qv = Quaternion_<T>::fromAxisAngle(rv);
		long double d2 = dist(ref_quat(qv.w, qv.x, qv.y, qv.z), Rv);
		if (!(d2 <= TOL_DIRECT * eps)) report<T>("axisangle_to_quaternion", fmt("%s::fromAxisAngle(Vec3(%.9g, %.9g, %.9g))", N<T>::q(), (double)rv.x, (double)rv.y, (double)rv.z), d2, TOL_DIRECT * eps, "rotation vector itself", kase);
	}
	hub<T>(M, R, src, kase, 0);
}

// "aa:<f|d>:<ax>:<ay>:<az>:<steps>:<k>" — integer axis (not normalised), angle k*360/steps degrees, k in [-steps, steps]
template <class T>
static void check_axis_angle(int ax, int ay, int az, int steps, int k) {
	axis_angle_case<T>(ax, ay, az, grid_angle<T>(k, steps), fmt("aa:%c:%d:%d:%d:%d:%d", N<T>::tag(), ax, ay, az, steps, k));
}
// "aas:<f|d>:<ax>:<ay>:<az>:<j>:<sign>" — small angles: +-15 deg * 2^-j
template <class T>
static void check_small_angle(int ax, int ay, int az, int j, int sign) {
	T ang = (T)ldexpl(PIL / 12, -j);
	vf::add(W_SMALL_SRC);
	if ((long double)ang * ang / 8 < std::numeric_limits<T>::epsilon() / 4) vf::add(W_SMALL_TINY); // cos(angle/2) rounds to 1: the quaternion's scalar part no longer carries the angle
	axis_angle_case<T>(ax, ay, az, sign ? -ang : ang, fmt("aas:%c:%d:%d:%d:%d:%d", N<T>::tag(), ax, ay, az, j, sign));
}
// "aaz:<f|d>:<steps>:<k>" — no axis at all (zero vector) with a non-zero angle: there is nothing to rotate about, the result has to
// be the identity rotation (nothing is demanded about the norm of the quaternion, only that it is a finite one standing for no rotation)
template <class T>
static void check_zero_axis(int steps, int k) {
	const long double eps = std::numeric_limits<T>::epsilon();
	std::string kase = fmt("aaz:%c:%d:%d", N<T>::tag(), steps, k);
	vf::cur(kase);
	T ang = grid_angle<T>(k, steps);
	Vec3_<T> zero(0, 0, 0);
	vf::add(W_ZERO_AXIS); vf::add(C_EVAL, 2);
	Matrix4_<T> M = Matrix4_<T>::rotate(zero, ang);
	long double d = dist(top3(M), ident());
	if (!(d <= TOL_DIRECT * eps) || !affine_ok(M)) report<T>("axisangle_zero_axis", fmt("%s::rotate(Vec3(0, 0, 0), %.9g)", N<T>::m4(), (double)ang), d, TOL_DIRECT * eps, "no rotation (zero axis)", kase);
	Quaternion_<T> q = Quaternion_<T>::fromAxisAngle(zero, ang);
	if (q.w != 0) { // 180 deg * odd: cos = 0 up to rounding, the null quaternion stands for nothing
		long double dq = dist(ref_quat(q.w, q.x, q.y, q.z), ident());
		if (!(dq <= TOL_DIRECT * eps)) report<T>("axisangle_zero_axis", fmt("%s::fromAxisAngle(Vec3(0, 0, 0), %.9g) = (%.9g, %.9g, %.9g, %.9g)", N<T>::q(), (double)ang, (double)q.w, (double)q.x, (double)q.y, (double)q.z), dq, TOL_DIRECT * eps, "no rotation (zero axis)", kase);
	}
}

static void run_case(const std::string& k) {
	char t = 0; int a = 0, b = 0, c = 0, d = 0, e = 0, f = 0, g = 0, h = 0;
	if (sscanf(k.c_str(), "eul:%c:%d:%d:%d:%d:%d", &t, &a, &b, &c, &d, &e) == 6) { if (t == 'f') check_euler<float>(a, b, c, d, e, true); else check_euler<double>(a, b, c, d, e, true); }
	else if (sscanf(k.c_str(), "eun:%c:%d:%d:%d:%d:%d:%d:%d:%d", &t, &a, &b, &c, &d, &e, &f, &g, &h) == 9) { if (t == 'f') check_euler_near<float>(a, b, c, d, e, f, g, h); else check_euler_near<double>(a, b, c, d, e, f, g, h); }
	else if (sscanf(k.c_str(), "aas:%c:%d:%d:%d:%d:%d", &t, &a, &b, &c, &d, &e) == 6) { if (t == 'f') check_small_angle<float>(a, b, c, d, e); else check_small_angle<double>(a, b, c, d, e); }
	else if (sscanf(k.c_str(), "aaz:%c:%d:%d", &t, &a, &b) == 3) { if (t == 'f') check_zero_axis<float>(a, b); else check_zero_axis<double>(a, b); }
	else if (sscanf(k.c_str(), "quat:%c:%d:%d:%d:%d", &t, &a, &b, &c, &d) == 5) { if (t == 'f') check_quat<float>(a, b, c, d); else check_quat<double>(a, b, c, d); }
	else if (sscanf(k.c_str(), "aa:%c:%d:%d:%d:%d:%d", &t, &a, &b, &c, &d, &e) == 6) { if (t == 'f') check_axis_angle<float>(a, b, c, d, e); else check_axis_angle<double>(a, b, c, d, e); }
	(void)f;
	mx.flush();
}

int main(int argc, char** argv) {
	vf::init(argc, argv, "C20", "c20_rot");
	C_EVAL = vf::counter("evaluations"); C_DISTINCT = vf::counter("distinct_nontrivial"); C_HUBS = vf::counter("matrices_converted_to_everything");
	W_ROT[0] = vf::counter("w.rotation_branch_trace_nonneg"); W_ROT[1] = vf::counter("w.rotation_branch_y_largest"); W_ROT[2] = vf::counter("w.rotation_branch_z_largest"); W_ROT[3] = vf::counter("w.rotation_branch_x_largest");
	W_TB_REG = vf::counter("w.euler_taitbryan_regular"); W_TB_PLUS = vf::counter("w.euler_taitbryan_gimbal_plus90"); W_TB_MINUS = vf::counter("w.euler_taitbryan_gimbal_minus90");
	W_PR_REG = vf::counter("w.euler_proper_regular"); W_PR_ZERO = vf::counter("w.euler_proper_degenerate_0"); W_PR_PI = vf::counter("w.euler_proper_degenerate_180");
	W_DEG_EXACT = vf::counter("w.euler_degenerate_key_element_exactly_1"); W_DEG_NOISY = vf::counter("w.euler_degenerate_key_element_below_1");
	W_AA_ZERO = vf::counter("w.axisangle_0deg"); W_AA_180 = vf::counter("w.axisangle_180deg"); W_FIXED = vf::counter("w.euler_fixed_frame_sources"); W_MOVING = vf::counter("w.euler_moving_frame_sources");
	W_QNEG = vf::counter("w.quaternion_negative_scalar"); W_INTAPI = vf::counter("w.euler_int_api");
	W_NEAR[0] = vf::counter("w.euler_near_degenerate_rho_1e-4_to_1e-2"); W_NEAR[1] = vf::counter("w.euler_near_degenerate_rho_1e-6_to_1e-4"); W_NEAR[2] = vf::counter("w.euler_near_degenerate_rho_1e-8_to_1e-6"); W_NEAR[3] = vf::counter("w.euler_near_degenerate_rho_below_1e-8");
	W_NEAR_SRC = vf::counter("w.euler_near_degenerate_sources"); W_SMALL_SRC = vf::counter("w.axisangle_small_angle_sources"); W_SMALL_TINY = vf::counter("w.axisangle_small_angle_cos_rounds_to_1");
	W_FIXED_SAME = vf::counter("w.euler_fixed_frame_bit_identical_to_moving"); C_FIXED_OWN = vf::counter("euler_fixed_frame_sources_converted_to_everything"); C_API_DIFF = vf::counter("euler_int_api_not_bit_identical");
	W_ANGLE_WRAP = vf::counter("w.quaternion_angle_wraps_below_minus_pi"); W_ANGLE_WNEG1 = vf::counter("w.quaternion_angle_w_le_minus1"); W_ANGLE_WPOS1 = vf::counter("w.quaternion_angle_w_ge_1");
	W_ZERO_VEC = vf::counter("w.axisangle_zero_vector_to_matrix"); W_ZERO_AXIS = vf::counter("w.axisangle_zero_axis_nonzero_angle"); C_KEY_ABOVE1 = vf::counter("w.euler_key_element_above_1");
	rep.c_supp = vf::counter("violations_not_listed_repeats");
	if (vf::opt.replay) { vf::parallel(1, [&](uint64_t) { run_case(vf::opt.kase); }); return vf::finish(); }
	bool T = vf::opt.thorough();

	// (a) Euler grid: 15 deg (quick) / 7.5 deg (thorough) in all three angles x 24 conventions x {float, double}
	int steps = T ? 48 : 24;
	bool capped = false;
	Sections sec;
	vf::parallel((uint64_t)24 * steps * steps, [&](uint64_t it) {
		if (vf::deadline_passed()) { if (!capped) { capped = true; vf::cap_hit("deadline inside the Euler grid"); } return; }
		int c = (int)(it / (steps * steps)), i = (int)(it / steps % steps) - steps / 2, j = (int)(it % steps) - steps / 2;
		// thorough: fixed-frame sources on the 15 deg sub-grid are converted to everything even when bit-identical to a moving-frame source
		for (int k = -steps / 2; k < steps / 2; k++) { bool fh = T && (c & 1) && !(i & 1) && !(j & 1) && !(k & 1); check_euler<double>(c, steps, i, j, k, fh); check_euler<float>(c, steps, i, j, k, fh); }
		mx.flush(); mx.m.clear();
	}, 4);
	sec.done("euler_grid");
	// (a2) near-degenerate middle angles: outer angles on the 45 deg (quick) / 15 deg (thorough) grid x 24 conventions x 2 bases x 2 signs x
	// offsets (m/8)*2^-e: every octave e = 5..27 (float 5..16) with m = 8..15, then powers of two down to 2^-52 (float 2^-24)
	int nsteps = T ? 24 : 8, mstep = 1;
	vf::parallel((uint64_t)24 * nsteps * nsteps, [&](uint64_t it) {
		if (vf::deadline_passed()) { if (!capped) { capped = true; vf::cap_hit("deadline inside the near-degenerate Euler family"); } return; }
		int c = (int)(it / (nsteps * nsteps)), i = (int)(it / nsteps % nsteps) - nsteps / 2, k = (int)(it % nsteps) - nsteps / 2;
		for (int base = 0; base < 2; base++) for (int sign = 0; sign < 2; sign++) {
			for (int e = 5; e <= 52; e++) for (int m = 8; m < (e <= 27 ? 16 : 9); m += mstep) check_euler_near<double>(c, nsteps, i, k, base, sign, m, e);
			for (int e = 5; e <= 24; e++) for (int m = 8; m < (e <= 16 ? 16 : 9); m += mstep) check_euler_near<float>(c, nsteps, i, k, base, sign, m, e);
		}
		mx.flush(); mx.m.clear();
	}, 4);
	sec.done("euler_near_degenerate");
	// (b) unit quaternions: all integer 4-vectors in {-r..r}^4 \ {0}, normalised
	int r = T ? 5 : 3, side = 2 * r + 1;
	vf::parallel((uint64_t)side * side * side, [&](uint64_t it) {
		int w = (int)(it / (side * side)) - r, x = (int)(it / side % side) - r, y = (int)(it % side) - r;
		for (int z = -r; z <= r; z++) if (w || x || y || z) { check_quat<double>(w, x, y, z); check_quat<float>(w, x, y, z); }
		mx.flush(); mx.m.clear();
	}, 4);
	sec.done("quaternions");
	// (c) axis-angle: all integer axes in {-2..2}^3 \ {0} x angles k*15 deg (7.5 deg thorough), -360..360 deg incl. 0 and +-180
	vf::parallel(125, [&](uint64_t it) {
		int ax = (int)(it / 25) - 2, ay = (int)(it / 5 % 5) - 2, az = (int)(it % 5) - 2;
		if (!ax && !ay && !az) return;
		for (int k = -steps; k <= steps; k++) { check_axis_angle<double>(ax, ay, az, steps, k); check_axis_angle<float>(ax, ay, az, steps, k); }
		// small angles +-15 deg * 2^-j down to where even sin(angle/2) is far below the rounding of cos
		for (int sign = 0; sign < 2; sign++) {
			for (int j = 1; j <= 40; j++) check_small_angle<double>(ax, ay, az, j, sign);
			for (int j = 1; j <= 20; j++) check_small_angle<float>(ax, ay, az, j, sign);
		}
		mx.flush(); mx.m.clear();
	});
	vf::parallel(1, [&](uint64_t) { for (int k = -steps; k <= steps; k++) if (k) { check_zero_axis<double>(steps, k); check_zero_axis<float>(steps, k); } });
	sec.done("axis_angle");
	mx.collect(); mx.publish();
	vf::setinfo("tolerances", fmt("\"to matrix/quaternion: %.0Lf eps; back to angles/quaternion/axis-angle: %.0Lf eps x max(1, 1/rho), rho = |cos(middle)| (Tait-Bryan), |sin(middle)| (proper Euler), |sin(angle/2)| (axis-angle); mathematically degenerate inputs: %.0Lf eps\"", TOL_DIRECT, TOL_BACK, TOL_BACK));
	vf::sample("eul:d:0:24:1:6:-1 = rotateE((15,90,-15) deg, \"XYZ\") -> eulerAngles in all 24 conventions, rotation(), axisAngle(), and the same again on rotation().matrix()");
	vf::sample("eun:d:0:24:2:-4:0:1:9:23 = rotateE((30 deg, 90 deg - 9/8*2^-23 rad, -60 deg), \"XYZ\") -> eulerAngles in the conventions that are near-degenerate for it (XYZ, ZYX*), directly and via rotation().matrix()");
	vf::sample("aas:d:0:1:0:21:0 = rotation by 15*2^-21 deg about Y: matrix, quaternion, its axis()/angle()/axisAngle(), all 24 Euler conventions (the proper ones are near-degenerate)");
	vf::sample("quat:f:0:1:1:0 = 180 deg about (1,1,0)/sqrt2 as a float quaternion -> matrix(), axisAngle(), every Euler convention");
	vf::sample("aa:d:1:-2:2:24:12 = Matrix4d::rotate(Vec3d(1,-2,2), 180 deg), Quaterniond::fromAxisAngle, rotation vector forms");
	return vf::finish();
}
