# Builds asl from /repo's CURRENT working tree (per flavour) and the verification harnesses.
REPO   ?= /repo
B      ?= build
CXX    := g++
COMMON := -std=c++11 -O2 -g -I$(REPO)/include -I/verif/common -I/verif/engine -DASL_STATIC -DASL_VERIF -Wno-deprecated-declarations
ASANF  := -fsanitize=address -fno-omit-frame-pointer -fsanitize-recover=address -ftrivial-auto-var-init=pattern
FLAGS_asan       := $(COMMON) $(ASANF)
FLAGS_asan_small := $(COMMON) $(ASANF) -DASL_VERIF_SEND_BLOCK=8 -DASL_VERIF_RECV_BLOCK=5
FLAGS_plain      := $(COMMON)
FLAGS_tsan       := $(COMMON) -fsanitize=thread -DASL_VERIF_NOSCHED
LD_asan          := -fsanitize=address
LD_asan_small    := -fsanitize=address
LD_plain         :=
LD_tsan          := -fsanitize=thread
FLAVOURS := asan asan_small plain tsan

ASL_SRC := $(filter-out TlsSocket.cpp,$(notdir $(wildcard $(REPO)/src/*.cpp)))

.SECONDARY:
.PHONY: setup clean all
setup: all
	@python3 -m py_compile check tools/*.py 2>/dev/null || true

define FLAVOUR_RULES
$(B)/$(1)/asl/%.o: $(REPO)/src/%.cpp
	@mkdir -p $$(dir $$@)
	$(CXX) $$(FLAGS_$(1)) -MMD -MP -c $$< -o $$@
$(B)/$(1)/libasl.a: $$(patsubst %.cpp,$(B)/$(1)/asl/%.o,$(ASL_SRC))
	@rm -f $$@
	ar rcs $$@ $$^
$(B)/$(1)/vf.o: common/vf.cpp common/vf.h
	@mkdir -p $$(dir $$@)
	$(CXX) $$(FLAGS_$(1)) -c $$< -o $$@
$(B)/$(1)/h/%.o: harness/%.cpp
	@mkdir -p $$(dir $$@)
	$(CXX) $$(FLAGS_$(1)) -fno-access-control -MMD -MP -c $$< -o $$@
$(B)/$(1)/bin/s_%: $(B)/$(1)/h/s_%.o $(B)/$(1)/vf.o $(B)/$(1)/libasl.a $(B)/vsched.o $(B)/vnet.o
	@mkdir -p $$(dir $$@)
	$(CXX) $$(LD_$(1)) -o $$@ $$< $(B)/$(1)/vf.o $(B)/vsched.o $(B)/vnet.o $(B)/$(1)/libasl.a -lpthread -ldl
$(B)/$(1)/bin/%: $(B)/$(1)/h/%.o $(B)/$(1)/vf.o $(B)/$(1)/libasl.a
	@mkdir -p $$(dir $$@)
	$(CXX) $$(LD_$(1)) -o $$@ $$< $(B)/$(1)/vf.o $$(EXTRA_$$*) $(B)/$(1)/libasl.a -lpthread -ldl
-include $$(wildcard $(B)/$(1)/asl/*.d) $$(wildcard $(B)/$(1)/h/*.d)
endef
$(foreach f,$(FLAVOURS),$(eval $(call FLAVOUR_RULES,$(f))))

# scheduler engine: never instrumented (it must not confuse the sanitizers with its hand-offs)
$(B)/vsched.o: engine/vsched.cpp engine/vsched.h engine/vsched_internal.h
	@mkdir -p $(dir $@)
	$(CXX) -std=c++11 -O2 -g -fPIC -c $< -o $@
$(B)/vnet.o: engine/vnet.cpp engine/vnet.h engine/vsched_internal.h
	@mkdir -p $(dir $@)
	$(CXX) -std=c++11 -O2 -g -fPIC -c $< -o $@

include targets.mk
all: $(ALL_BINS)

clean:
	rm -rf $(B)
