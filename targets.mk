ALL_BINS := $(B)/asan/bin/c19_date
