ALL_BINS := build/asan/bin/c19_date
