ALL_BINS := $(B)/asan/bin/c01_array $(B)/asan/bin/c02_maps $(B)/asan/bin/c03_string $(B)/asan/bin/c04_var $(B)/asan/bin/c05_jsonenc $(B)/asan/bin/c06_jsonparse $(B)/asan/bin/c19_date
