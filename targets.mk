ALL_BINS := $(B)/asan/bin/c01_array $(B)/asan/bin/c02_maps $(B)/asan/bin/c08_utf $(B)/asan/bin/c15_codecs $(B)/asan/bin/c16_streams $(B)/asan/bin/c19_date $(B)/asan/bin/c20_solve
