ALL_BINS := $(B)/asan/bin/c01_array $(B)/asan/bin/c19_date
